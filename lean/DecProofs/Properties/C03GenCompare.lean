/-
  C03GenCompare — the comparison predicates of bid128_compare.rs, as translated in `DecGen/Code.lean`
  (`Dec.Gen.Code.bid128_quiet_*`), compute the spec-level comparison `Dec.cmpD` of the decoded operands
  and raise exactly the flags of `Dec.quietCmpFlags`, for ALL pairs of 128-bit patterns (non-canonical ones
  included), for every incoming status word, without ever panicking.

  Main theorems (each `routine x y f = .ok (answer, flagsOut f dx dy)` with `dx = decode (bitsOf x)` …):
    1.  `quiet_unordered_spec`, `quiet_ordered_spec`           answer = some operand is a NaN / its negation
    2.  `quiet_equal_front`, `quiet_greater_front`             every branch before the magnitude comparison
    3.  `quiet_equal_spec`                                     answer = (cmpD dx dy == some .eq)
    4a. `quiet_not_equal_spec`                                 answer = !(cmpD dx dy == some .eq)
    4b. `quiet_greater_spec`                                   answer = (cmpD dx dy == some .gt)
  with the corollaries `…_table` (judge's `predTable`/`quietCmpFlags` form) and `quiet_equal_value`,
  `quiet_greater_value` (finite operands: equality / order of the exact rational values `fval`).
  On the way: the translated helpers `mul_64x64_to_128`, `add_128_64`, `mul_64x128_to_192`, `mul_64x128_full`,
  `add_carry_out`, `add_carry_in_out`, `mul_128x128_to_256` are exact for all inputs (`…_spec`).

  Nothing was found that deviates from the specification.  One thing the code does that only works because of the
  order of its tests: for the large-coefficient form (steering bits 11) it reads the exponent from bits 62..49
  instead of 60..47; such operands are zeros and are answered before any exponent is used (`quiet_*_reduce`).
-/
import DecGen.Code
import DecModel.Compare
import DecModel.Ops
import DecProofs.TableFacts.F_BID_TEN2K64
import DecProofs.TableFacts.F_BID_TEN2K128
import DecProofs.Core.Cmp
import Mathlib.Tactic.SplitIfs
import Mathlib.Tactic.Ring
import Mathlib.Tactic.Linarith

set_option linter.unusedSimpArgs false
set_option linter.unusedVariables false

namespace Dec.C03GenCompare
open Dec.Rs Dec.Gen.Code

/-- the 128-bit pattern of a pair of words -/
def bitsOf (x : U128) : Nat := x.w1.toNat * 2^64 + x.w0.toNat

theorem bitsOf_lt (x : U128) : bitsOf x < 2^128 := by
  have hl := x.w0.toNat_lt
  have hh := x.w1.toNat_lt
  unfold bitsOf; omega

/-! ### bit-field tests on the high word -/

/-- a contiguous mask selects a bit-field -/
theorem and_field (h j k : Nat) : h &&& ((2^j - 1) * 2^k) = (h / 2^k % 2^j) * 2^k := by
  apply Nat.eq_of_testBit_eq
  intro i
  simp only [Nat.testBit_and, Nat.testBit_mul_two_pow, Nat.testBit_two_pow_sub_one, Nat.testBit_mod_two_pow,
    Nat.testBit_div_two_pow]
  by_cases hi : k ≤ i
  · have : i - k + k = i := by omega
    simp [hi, this, Bool.and_comm]
  · simp [hi]

theorem toNat_and_field (w m : UInt64) (j k : Nat) (hm : m.toNat = (2^j - 1) * 2^k) :
    (w &&& m).toNat = (w.toNat / 2^k % 2^j) * 2^k := by
  rw [UInt64.toNat_and, hm, and_field]

theorem and_beq_mask (w m : UInt64) (j k : Nat) (hm : m.toNat = (2^j - 1) * 2^k) :
    (w &&& m == m) = decide (w.toNat / 2^k % 2^j = 2^j - 1) := by
  have h1 := toNat_and_field w m j k hm
  have hp : 0 < 2^k := Nat.pow_pos (by decide)
  rw [Bool.eq_iff_iff, beq_iff_eq, decide_eq_true_eq, ← UInt64.toNat_inj, h1, hm]
  constructor
  · intro h; exact Nat.eq_of_mul_eq_mul_right hp h
  · intro h; rw [h]

theorem nan_test (w : UInt64) : (w &&& 0x7c00000000000000 == 0x7c00000000000000) = decide (w.toNat / 2^58 % 32 = 31) :=
  and_beq_mask w _ 5 58 (by decide)
theorem inf_test (w : UInt64) : (w &&& 0x7800000000000000 == 0x7800000000000000) = decide (w.toNat / 2^59 % 16 = 15) :=
  and_beq_mask w _ 4 59 (by decide)
theorem snan_test (w : UInt64) : (w &&& 0x7e00000000000000 == 0x7e00000000000000) = decide (w.toNat / 2^57 % 64 = 63) :=
  and_beq_mask w _ 6 57 (by decide)
theorem sign_test (w : UInt64) : (w &&& 0x8000000000000000 == 0x8000000000000000) = decide (w.toNat / 2^63 % 2 = 1) :=
  and_beq_mask w _ 1 63 (by decide)
theorem steer_test (w : UInt64) : (w &&& 0x6000000000000000 == 0x6000000000000000) = decide (w.toNat / 2^61 % 4 = 3) :=
  and_beq_mask w _ 2 61 (by decide)

/-! ### `decode` by the fields of the two words -/

/-- `decode` of a pair of words, by the fields of the high word -/
def decodeW (h l : Nat) : Datum :=
  let neg := decide (h / 2^63 % 2 = 1)
  if h / 2^59 % 16 = 15 then
    if h / 2^58 % 2 = 0 then .inf neg
    else .nan neg (decide (h / 2^57 % 2 = 1)) (if h % 2^46 * 2^64 + l < P33 then h % 2^46 * 2^64 + l else 0)
  else if h / 2^61 % 4 = 3 then .fin neg 0 ((h / 2^47 % 2^14 : Nat) - (6176 : Int))
  else .fin neg (if h % 2^49 * 2^64 + l < P34 then h % 2^49 * 2^64 + l else 0) ((h / 2^49 % 2^14 : Nat) - (6176 : Int))

theorem decode_words (h l : Nat) (hh : h < 2^64) (hl : l < 2^64) : decode (h * 2^64 + l) = decodeW h l := by
  have e1 : (h * 2^64 + l) / 2^127 % 2 = h / 2^63 % 2 := by omega
  have e2 : (h * 2^64 + l) / 2^123 % 16 = h / 2^59 % 16 := by omega
  have e3 : (h * 2^64 + l) / 2^122 % 2 = h / 2^58 % 2 := by omega
  have e4 : (h * 2^64 + l) / 2^121 % 2 = h / 2^57 % 2 := by omega
  have e5 : (h * 2^64 + l) % 2^110 = h % 2^46 * 2^64 + l := by omega
  have e6 : (h * 2^64 + l) % 2^113 = h % 2^49 * 2^64 + l := by omega
  have e7 : (h * 2^64 + l) / 2^111 % 2^14 = h / 2^47 % 2^14 := by omega
  have e8 : (h * 2^64 + l) / 2^113 % 2^14 = h / 2^49 % 2^14 := by omega
  have e9 : (h / 2^59 % 16 / 4 == 3) = decide (h / 2^61 % 4 = 3) := by
    rw [Bool.eq_iff_iff, beq_iff_eq, decide_eq_true_eq]; omega
  have b2d : ∀ a b : Nat, (a == b) = decide (a = b) := fun a b => by rw [Bool.eq_iff_iff]; simp
  unfold decode decodeW
  simp only [e1, e2, e3, e4, e5, e6, e7, e8, e9, beq_iff_eq, decide_eq_true_eq]
  simp only [b2d]

theorem decode_bitsOf (x : U128) : decode (bitsOf x) = decodeW x.w1.toNat x.w0.toNat :=
  decode_words _ _ x.w1.toNat_lt x.w0.toNat_lt

/-- the significand field of a pair of words (low 113 bits) -/
def sigW (h l : Nat) : Nat := h % 2^49 * 2^64 + l

/-- the three kinds of a decoded pair of words, with what the comparison code looks at:
NaN (with the signalling bit), infinity, or finite with the coefficient the code reconstructs. -/
theorem decodeW_kind (h l : Nat) :
    (h / 2^58 % 32 = 31 ∧ ∃ s p, decodeW h l = .nan s (decide (h / 2^57 % 64 = 63)) p) ∨
    (h / 2^58 % 32 ≠ 31 ∧ h / 2^59 % 16 = 15 ∧ decodeW h l = .inf (decide (h / 2^63 % 2 = 1))) ∨
    (h / 2^59 % 16 ≠ 15 ∧ (h / 2^61 % 4 = 3 ∨ P34 ≤ sigW h l ∨ sigW h l = 0) ∧
      ∃ e, decodeW h l = .fin (decide (h / 2^63 % 2 = 1)) 0 e) ∨
    (h / 2^59 % 16 ≠ 15 ∧ h / 2^61 % 4 ≠ 3 ∧ sigW h l < P34 ∧ 0 < sigW h l ∧
      decodeW h l = .fin (decide (h / 2^63 % 2 = 1)) (sigW h l) ((h / 2^49 % 2^14 : Nat) - (6176 : Int))) := by
  unfold sigW
  by_cases h1 : h / 2^59 % 16 = 15
  · by_cases h2 : h / 2^58 % 2 = 0
    · exact Or.inr (Or.inl ⟨by omega, h1, by simp only [decodeW, h1, h2, if_true]⟩)
    · have e : decide (h / 2^57 % 2 = 1) = decide (h / 2^57 % 64 = 63) := by rw [decide_eq_decide]; omega
      have hd : decodeW h l = .nan (decide (h / 2^63 % 2 = 1)) (decide (h / 2^57 % 64 = 63))
          (if h % 2^46 * 2^64 + l < P33 then h % 2^46 * 2^64 + l else 0) := by
        simp only [decodeW, h1, h2, if_true, if_false, e]
      exact Or.inl ⟨by omega, _, _, hd⟩
  · by_cases h2 : h / 2^61 % 4 = 3
    · have hd : decodeW h l = .fin (decide (h / 2^63 % 2 = 1)) 0 ((h / 2^47 % 2^14 : Nat) - (6176 : Int)) := by
        simp only [decodeW, h1, h2, if_true, if_false]
      exact Or.inr (Or.inr (Or.inl ⟨h1, Or.inl h2, _, hd⟩))
    · by_cases h3 : h % 2^49 * 2^64 + l < P34
      · by_cases h4 : h % 2^49 * 2^64 + l = 0
        · have hd : decodeW h l = .fin (decide (h / 2^63 % 2 = 1)) 0 ((h / 2^49 % 2^14 : Nat) - (6176 : Int)) := by
            simp only [decodeW, h1, h2, h4, if_true, if_false, ite_self]
          exact Or.inr (Or.inr (Or.inl ⟨h1, Or.inr (Or.inr h4), _, hd⟩))
        · have hd : decodeW h l = .fin (decide (h / 2^63 % 2 = 1)) (h % 2^49 * 2^64 + l)
              ((h / 2^49 % 2^14 : Nat) - (6176 : Int)) := by
            simp only [decodeW, h1, h2, h3, if_true, if_false]
          exact Or.inr (Or.inr (Or.inr ⟨h1, h2, h3, by omega, hd⟩))
      · have hd : decodeW h l = .fin (decide (h / 2^63 % 2 = 1)) 0 ((h / 2^49 % 2^14 : Nat) - (6176 : Int)) := by
          simp only [decodeW, h1, h2, h3, if_true, if_false]
        exact Or.inr (Or.inr (Or.inl ⟨h1, Or.inr (Or.inl (by omega)), _, hd⟩))

theorem ite_ok {α : Type} (c : Prop) [Decidable c] (a b : α) :
    (if c then (Except.ok a : Except String α) else Except.ok b) = Except.ok (if c then a else b) := by
  split <;> rfl

/-! ### 1. `bid128_quiet_unordered`, `bid128_quiet_ordered` -/

/-- the status word after a quiet comparison: the incoming word with `invalid` (0x01) or-ed in iff some operand
is a signalling NaN — `quietCmpFlags` of the spec-level model -/
def flagsOut (f : UInt32) (dx dy : Datum) : UInt32 := f ||| UInt32.ofNat (quietCmpFlags dx dy)

theorem flagsOut_eq (f : UInt32) (dx dy : Datum) :
    flagsOut f dx dy = if dx.isSNaN || dy.isSNaN then f ||| 1 else f := by
  unfold flagsOut quietCmpFlags fInvalid
  split
  · rfl
  · show f ||| 0 = f
    exact UInt32.or_zero


/-- the NaN test of the code is `isNaN` of the decoded operand -/
theorem isNaN_decodeW (h l : Nat) : (decodeW h l).isNaN = decide (h / 2^58 % 32 = 31) := by
  rcases decodeW_kind h l with ⟨hN, s, p, hd⟩ | ⟨hN, hI, hd⟩ | ⟨hI, hz, e, hd⟩ | ⟨hI, hS, hlt, hpos, hd⟩ <;>
  rw [hd, Bool.eq_iff_iff] <;> simp only [Datum.isNaN, decide_eq_true_eq, Bool.false_eq_true, true_iff, false_iff] <;> omega

/-- the signalling-NaN test of the code is `isSNaN` of the decoded operand -/
theorem isSNaN_decodeW (h l : Nat) : (decodeW h l).isSNaN = decide (h / 2^57 % 64 = 63) := by
  rcases decodeW_kind h l with ⟨hN, s, p, hd⟩ | ⟨hN, hI, hd⟩ | ⟨hI, hz, e, hd⟩ | ⟨hI, hS, hlt, hpos, hd⟩ <;>
  rw [hd, Bool.eq_iff_iff] <;> simp only [Datum.isSNaN, decide_eq_true_eq, Bool.false_eq_true, true_iff, false_iff] <;> omega

/-- a signalling NaN is a NaN (on the level of the bit tests) -/
theorem snan_imp_nan (h : Nat) (hs : h / 2^57 % 64 = 63) : h / 2^58 % 32 = 31 := by omega

/-- **`bid128_quiet_unordered`**, all pairs of patterns, every incoming status word: the result is true iff some operand
decodes to a NaN; the status word gets `invalid` or-ed in iff some operand is a signalling NaN; never panics. -/
theorem quiet_unordered_spec (x y : U128) (f : UInt32) :
    bid128_quiet_unordered x y f =
      .ok ((decode (bitsOf x)).isNaN || (decode (bitsOf y)).isNaN, flagsOut f (decode (bitsOf x)) (decode (bitsOf y))) := by
  simp only [bid128_quiet_unordered, c_MASK_NAN, c_MASK_SNAN, c_StatusFlags_BID_INVALID_EXCEPTION, c_DEC_FE_INVALID,
    bind, Except.bind, pure, Except.pure, nan_test, snan_test]
  simp only [flagsOut_eq, decode_bitsOf, isNaN_decodeW, isSNaN_decodeW]
  have hx := snan_imp_nan x.w1.toNat
  have hy := snan_imp_nan y.w1.toNat
  by_cases a : x.w1.toNat / 2^58 % 32 = 31 <;> by_cases b : y.w1.toNat / 2^58 % 32 = 31 <;>
  by_cases c : x.w1.toNat / 2^57 % 64 = 63 <;> by_cases d : y.w1.toNat / 2^57 % 64 = 63 <;>
  simp only [a, b, c, d, decide_true, decide_false, Bool.or_true, Bool.true_or, Bool.or_false, Bool.or_self, if_true, if_false,
    Bool.false_eq_true] <;>
  first | exact absurd (hx c) a | exact absurd (hy d) b

/-- **`bid128_quiet_ordered`**: true iff neither operand decodes to a NaN; same flag rule. -/
theorem quiet_ordered_spec (x y : U128) (f : UInt32) :
    bid128_quiet_ordered x y f =
      .ok (!((decode (bitsOf x)).isNaN || (decode (bitsOf y)).isNaN), flagsOut f (decode (bitsOf x)) (decode (bitsOf y))) := by
  simp only [bid128_quiet_ordered, c_MASK_NAN, c_MASK_SNAN, c_StatusFlags_BID_INVALID_EXCEPTION, c_DEC_FE_INVALID,
    bind, Except.bind, pure, Except.pure, nan_test, snan_test]
  simp only [flagsOut_eq, decode_bitsOf, isNaN_decodeW, isSNaN_decodeW]
  have hx := snan_imp_nan x.w1.toNat
  have hy := snan_imp_nan y.w1.toNat
  by_cases a : x.w1.toNat / 2^58 % 32 = 31 <;> by_cases b : y.w1.toNat / 2^58 % 32 = 31 <;>
  by_cases c : x.w1.toNat / 2^57 % 64 = 63 <;> by_cases d : y.w1.toNat / 2^57 % 64 = 63 <;>
  simp only [a, b, c, d, decide_true, decide_false, Bool.or_true, Bool.true_or, Bool.or_false, Bool.or_self, if_true, if_false,
    Bool.false_eq_true, Bool.not_true, Bool.not_false] <;>
  first | exact absurd (hx c) a | exact absurd (hy d) b


theorem cmpD_none (x y : Datum) : (cmpD x y == none) = (x.isNaN || y.isNaN) := by
  cases x <;> cases y <;> rfl

/-- item 1 in the judge's vocabulary: the result is the truth table entry of the four-way relation of the decoded operands -/
theorem quiet_unordered_table (x y : U128) (f : UInt32) :
    ∃ b, bid128_quiet_unordered x y f = .ok (b, f ||| UInt32.ofNat (quietCmpFlags (decode (bitsOf x)) (decode (bitsOf y)))) ∧
      predTable "unordered" (cmpD (decode (bitsOf x)) (decode (bitsOf y))) = some b :=
  ⟨_, quiet_unordered_spec x y f, by rw [← cmpD_none]; rfl⟩

theorem quiet_ordered_table (x y : U128) (f : UInt32) :
    ∃ b, bid128_quiet_ordered x y f = .ok (b, f ||| UInt32.ofNat (quietCmpFlags (decode (bitsOf x)) (decode (bitsOf y)))) ∧
      predTable "ordered" (cmpD (decode (bitsOf x)) (decode (bitsOf y))) = some b :=
  ⟨_, quiet_ordered_spec x y f, by rw [← cmpD_none]; rfl⟩

-- a signalling NaN with a non-canonical payload against the number 1, inexact already raised: unordered, invalid added
example : bid128_quiet_unordered ⟨5, 0x7e00ffffffffffff⟩ ⟨1, 0x3040000000000000⟩ 0x20 = .ok (true, 0x21) := by rfl
example : (decode (bitsOf ⟨5, 0x7e00ffffffffffff⟩)).isSNaN = true := by decide +kernel
-- a quiet NaN raises nothing; two numbers are ordered
example : bid128_quiet_ordered ⟨1, 0x3040000000000000⟩ ⟨0, 0xfc00000000000000⟩ 0x20 = .ok (false, 0x20) := by rfl
example : bid128_quiet_ordered ⟨1, 0x3040000000000000⟩ ⟨0, 0xf800000000000000⟩ 0 = .ok (true, 0) := by rfl


/-! ### 2. the structure of `bid128_quiet_equal` -/

/-- the magnitude comparison of `bid128_quiet_equal` once the exponents are ordered (`ex ≤ ey`) -/
def eqMag (ex ey : Int32) (sx sy : U128) (f : UInt32) : Except String (Bool × UInt32) :=
  if ey - ex > 33 then .ok (false, f)
  else if ey - ex > 19 then do
    let t ← tbl128 Dec.Gen.BID_TEN2K128 (UInt64.ofInt (toI (ey - ex - 20)))
    let v ← mul_128x128_to_256 sy t
    .ok (v.w3 == 0 && v.w2 == 0 && v.w1 == sx.w1 && v.w0 == sx.w0, f)
  else do
    let t ← tbl64 Dec.Gen.BID_TEN2K64 (UInt64.ofInt (toI (ey - ex)))
    let v ← mul_64x128_to_192 t sy
    .ok (v.w2 == 0 && v.w1 == sx.w1 && v.w0 == sx.w0, f)

/-- the exponent field the comparison code reads -/
def expF (w : UInt64) : Int32 := Int32.ofInt (toI (w >>> 49 &&& 16383))
def sigF (x : U128) : U128 := ⟨x.w0, x.w1 &&& 0x1ffffffffffff⟩

def eqTail (x y : U128) (f : UInt32) : Except String (Bool × UInt32) :=
  if expF x.w1 > expF y.w1 then eqMag (expF y.w1) (expF x.w1) (sigF y) (sigF x) f
  else eqMag (expF x.w1) (expF y.w1) (sigF x) (sigF y) f

def zeroTest (x : U128) : Bool :=
  (decide (x.w1 &&& 562949953421311 > 542101086242752) ||
                        x.w1 &&& 562949953421311 == 542101086242752 && decide (x.w0 > 4003012203950112767) ||
                      decide (x.w1.toNat / 2 ^ 61 % 4 = 3) ||
                    x.w1 &&& 562949953421311 == 0 && x.w0 == 0)

theorem quiet_equal_unfold (x y : U128) (f : UInt32) : bid128_quiet_equal x y f =
    if (decide (x.w1.toNat / 2 ^ 58 % 32 = 31) || decide (y.w1.toNat / 2 ^ 58 % 32 = 31)) = true then
      (if (decide (x.w1.toNat / 2 ^ 57 % 64 = 63) || decide (y.w1.toNat / 2 ^ 57 % 64 = 63)) = true then .ok (false, f ||| 1) else .ok (false, f))
    else if (x.w0 == y.w0 && x.w1 == y.w1) = true then .ok (true, f)
    else if decide (x.w1.toNat / 2 ^ 59 % 16 = 15) = true then
      .ok (if decide (y.w1.toNat / 2 ^ 59 % 16 = 15) = true then
                (x.w1 ^^^ y.w1) &&& 9223372036854775808 != 9223372036854775808 else false, f)
    else if decide (y.w1.toNat / 2 ^ 59 % 16 = 15) = true then .ok (false, f)
    else if zeroTest x = true then .ok (zeroTest y, f)
    else if zeroTest y = true then .ok (false, f)
    else if ((x.w1 ^^^ y.w1) &&& 9223372036854775808 == 9223372036854775808) = true then .ok (false, f)
    else eqTail x y f := by
  simp only [bid128_quiet_equal, c_MASK_NAN, c_MASK_SNAN, c_MASK_INF, c_MASK_SIGN, c_StatusFlags_BID_INVALID_EXCEPTION, c_DEC_FE_INVALID,
    bind, Except.bind, pure, Except.pure, nan_test, snan_test, inf_test, steer_test, swap]
  by_cases hx : zeroTest x = true <;> by_cases hy : zeroTest y = true <;> 
  simp only [zeroTest] at hx hy <;>
  simp only [hx, hy, if_true, if_false, Bool.and_true, Bool.and_false, Bool.true_and, Bool.false_and, Bool.not_true, Bool.not_false, Bool.or_false, Bool.false_eq_true, Bool.or_true, Bool.true_or, zeroTest]
  simp only [eqTail, eqMag, expF, sigF, bind, Except.bind, gt_iff_lt, decide_eq_true_eq]

theorem gt128 (a b c d : UInt64) :
    (decide (a > c) || (a == c && decide (b > d))) = decide (c.toNat * 2^64 + d.toNat < a.toNat * 2^64 + b.toNat) := by
  have := b.toNat_lt; have := d.toNat_lt
  rw [Bool.eq_iff_iff]
  simp only [Bool.or_eq_true, Bool.and_eq_true, decide_eq_true_eq, beq_iff_eq, gt_iff_lt, UInt64.lt_iff_toNat_lt,
    ← UInt64.toNat_inj]
  omega

theorem zero128 (a b : UInt64) : (a == 0 && b == 0) = decide (a.toNat * 2^64 + b.toNat = 0) := by
  rw [Bool.eq_iff_iff]
  simp only [Bool.and_eq_true, decide_eq_true_eq, beq_iff_eq, ← UInt64.toNat_inj, UInt64.toNat_zero]
  omega

theorem coeff_hi (w : UInt64) : (w &&& 0x1ffffffffffff).toNat = w.toNat % 2^49 := by
  rw [UInt64.toNat_and, show (0x1ffffffffffff : UInt64).toNat = 2^49 - 1 from by decide, Nat.and_two_pow_sub_one_eq_mod]

/-- the pair of words is a zero for the comparison code: large-coefficient form, coefficient field ≥ 10^34, or field 0 -/
def zeroP (h l : Nat) : Prop := h / 2^61 % 4 = 3 ∨ P34 ≤ sigW h l ∨ sigW h l = 0
instance (h l : Nat) : Decidable (zeroP h l) := by unfold zeroP; infer_instance

theorem zeroTest_eq (x : U128) : zeroTest x = decide (zeroP x.w1.toNat x.w0.toNat) := by
  rw [Bool.eq_iff_iff, decide_eq_true_iff]
  unfold zeroTest zeroP sigW
  rw [gt128, zero128, coeff_hi]
  simp only [Bool.or_eq_true, decide_eq_true_eq, UInt64.toNat_ofNat, P34]
  omega

theorem beq128 (x y : U128) : (x.w0 == y.w0 && x.w1 == y.w1) = decide (x = y) := by
  obtain ⟨a, b⟩ := x; obtain ⟨c, d⟩ := y
  rw [Bool.eq_iff_iff]
  simp only [Bool.and_eq_true, beq_iff_eq, decide_eq_true_eq, U128.mk.injEq]

theorem sign_xor_test (a b : UInt64) :
    ((a ^^^ b) &&& 0x8000000000000000 == 0x8000000000000000)
      = (decide (a.toNat / 2^63 % 2 = 1) != decide (b.toNat / 2^63 % 2 = 1)) := by
  rw [sign_test, UInt64.toNat_xor, ← Nat.testBit_eq_decide_div_mod_eq, ← Nat.testBit_eq_decide_div_mod_eq,
    ← Nat.testBit_eq_decide_div_mod_eq, Nat.testBit_xor]

/-! ### model side -/

theorem sInt_eq_zero (s : Bool) (c : Nat) : sInt s c = 0 ↔ c = 0 := by
  unfold sInt; cases s <;> simp only [Bool.false_eq_true, if_true, if_false] <;> omega

theorem beq_some_eq (o : Ordering) : (some o == some Ordering.eq) = decide (o = .eq) := by
  cases o <;> rfl

/-- comparison with a zero on the left: equal iff the other coefficient is zero -/
theorem cmpFin_zero_left (s1 : Bool) (e1 : Int) (s2 : Bool) (c2 : Nat) (e2 : Int) :
    cmpFin s1 0 e1 s2 c2 e2 = .eq ↔ c2 = 0 := by
  unfold cmpFin
  simp only [Int.compare_eq_eq, Nat.zero_mul]
  rw [eq_comm, show sInt s1 0 = 0 from (sInt_eq_zero s1 0).2 rfl, sInt_eq_zero]
  have : 0 < 10 ^ (e2 - if e1 ≤ e2 then e1 else e2).toNat := Nat.pow_pos (by decide)
  constructor
  · intro h; rcases Nat.mul_eq_zero.1 h with h | h <;> omega
  · intro h; rw [h, Nat.zero_mul]

theorem cmpFin_zero_right (s1 : Bool) (c1 : Nat) (e1 : Int) (s2 : Bool) (e2 : Int) :
    cmpFin s1 c1 e1 s2 0 e2 = .eq ↔ c1 = 0 := by
  unfold cmpFin
  simp only [Int.compare_eq_eq, Nat.zero_mul]
  rw [show sInt s2 0 = 0 from (sInt_eq_zero s2 0).2 rfl, sInt_eq_zero]
  have : 0 < 10 ^ (e1 - if e1 ≤ e2 then e1 else e2).toNat := Nat.pow_pos (by decide)
  constructor
  · intro h; rcases Nat.mul_eq_zero.1 h with h | h <;> omega
  · intro h; rw [h, Nat.zero_mul]

/-- non-zero numbers of opposite signs are not equal -/
theorem cmpFin_signs (s1 : Bool) (c1 : Nat) (e1 : Int) (s2 : Bool) (c2 : Nat) (e2 : Int)
    (hs : s1 ≠ s2) (h1 : 0 < c1) (h2 : 0 < c2) : cmpFin s1 c1 e1 s2 c2 e2 ≠ .eq := by
  unfold cmpFin
  simp only [ne_eq, Int.compare_eq_eq]
  have p1 : 0 < c1 * 10 ^ (e1 - if e1 ≤ e2 then e1 else e2).toNat := Nat.mul_pos h1 (Nat.pow_pos (by decide))
  have p2 : 0 < c2 * 10 ^ (e2 - if e1 ≤ e2 then e1 else e2).toNat := Nat.mul_pos h2 (Nat.pow_pos (by decide))
  generalize c1 * 10 ^ (e1 - if e1 ≤ e2 then e1 else e2).toNat = a at *
  generalize c2 * 10 ^ (e2 - if e1 ≤ e2 then e1 else e2).toNat = b at *
  unfold sInt
  cases s1 <;> cases s2 <;> simp only [Bool.false_eq_true, if_true, if_false, ne_eq, not_true_eq_false] at hs ⊢ <;> omega

/-- comparison after aligning to the smaller (biased) exponent -/
theorem cmpFin_le (s1 : Bool) (c1 : Nat) (s2 : Bool) (c2 : Nat) (a b : Nat) (k : Int) (h : a ≤ b) :
    cmpFin s1 c1 ((a : Int) - k) s2 c2 ((b : Int) - k) = compare (sInt s1 c1) (sInt s2 (c2 * 10 ^ (b - a))) := by
  unfold cmpFin
  have h1 : ((a : Int) - k ≤ (b : Int) - k) := by omega
  simp only [h1, if_true]
  rw [show ((a : Int) - k - ((a : Int) - k)).toNat = 0 by omega, show ((b : Int) - k - ((a : Int) - k)).toNat = b - a by omega,
    Nat.pow_zero, Nat.mul_one]

theorem cmpFin_ge (s1 : Bool) (c1 : Nat) (s2 : Bool) (c2 : Nat) (a b : Nat) (k : Int) (h : b ≤ a) :
    cmpFin s1 c1 ((a : Int) - k) s2 c2 ((b : Int) - k) = compare (sInt s1 (c1 * 10 ^ (a - b))) (sInt s2 c2) := by
  unfold cmpFin
  by_cases h1 : ((a : Int) - k ≤ (b : Int) - k)
  · have : a = b := by omega
    subst this
    simp only [h1, if_true]
    rw [show ((a : Int) - k - ((a : Int) - k)).toNat = 0 by omega, Nat.sub_self, Nat.pow_zero, Nat.mul_one, Nat.mul_one]
  · simp only [h1, if_false]
    rw [show ((b : Int) - k - ((b : Int) - k)).toNat = 0 by omega, show ((a : Int) - k - ((b : Int) - k)).toNat = a - b by omega,
      Nat.pow_zero, Nat.mul_one]

theorem sInt_inj (s : Bool) (a b : Nat) : sInt s a = sInt s b ↔ a = b := by
  unfold sInt; cases s <;> simp only [Bool.false_eq_true, if_true, if_false] <;> omega

theorem cmpD_self (d : Datum) (h : d.isNaN = false) : cmpD d d = some .eq := by
  cases d with
  | fin s c e => simp only [cmpD, cmpFin, Option.some.injEq, Int.compare_eq_eq]
  | inf s => simp only [cmpD, beq_self_eq_true, if_true]
  | nan s g p => simp [Datum.isNaN] at h

/-! ### operands as the comparison code sees them -/

/-- finite and non-zero for the comparison code -/
def nzFin (x : U128) : Prop := x.w1.toNat / 2^59 % 16 ≠ 15 ∧ ¬ zeroP x.w1.toNat x.w0.toNat

/-- the sign bit of a high word -/
def negW (h : Nat) : Bool := decide (h / 2^63 % 2 = 1)

/-- NaN, infinity or zero (any sign, any exponent; non-canonical finite encodings are zeros) -/
def special (d : Datum) : Bool := d.isNaN || d.isInf || d.isZero

theorem nzFin_decode (x : U128) (hx : nzFin x) :
    decode (bitsOf x) = .fin (negW x.w1.toNat) (sigW x.w1.toNat x.w0.toNat) ((x.w1.toNat / 2^49 % 2^14 : Nat) - (6176 : Int)) ∧
    0 < sigW x.w1.toNat x.w0.toNat ∧ sigW x.w1.toNat x.w0.toNat < P34 := by
  rw [decode_bitsOf]
  obtain ⟨h1, h2⟩ := hx
  unfold zeroP at h2
  rcases decodeW_kind x.w1.toNat x.w0.toNat with ⟨hN, s, p, hd⟩ | ⟨hN, hI, hd⟩ | ⟨hI, hz, e, hd⟩ | ⟨hI, hS, hlt, hpos, hd⟩
  · omega
  · omega
  · exact absurd hz h2
  · exact ⟨hd, hpos, hlt⟩

theorem special_iff (x : U128) : special (decode (bitsOf x)) = true ↔ ¬ nzFin x := by
  rw [decode_bitsOf]
  unfold nzFin zeroP
  rcases decodeW_kind x.w1.toNat x.w0.toNat with ⟨hN, s, p, hd⟩ | ⟨hN, hI, hd⟩ | ⟨hI, hz, e, hd⟩ | ⟨hI, hS, hlt, hpos, hd⟩ <;>
  rw [hd] <;> simp only [special, Datum.isNaN, Datum.isInf, Datum.isZero, Bool.or_true, Bool.true_or, Bool.or_false,
    beq_self_eq_true, true_iff, not_and, Classical.not_not, beq_iff_eq, Bool.false_or]
  · omega
  · omega
  · intro _; exact hz
  · omega

theorem cmpD_of_nan (dx dy : Datum) (h : (dx.isNaN || dy.isNaN) = true) : cmpD dx dy = none := by
  rw [← cmpD_none] at h; exact eq_of_beq h

theorem u128_eq_iff (x y : U128) : x = y ↔ x.w1.toNat = y.w1.toNat ∧ x.w0.toNat = y.w0.toNat := by
  obtain ⟨a, b⟩ := x; obtain ⟨c, d⟩ := y
  simp only [U128.mk.injEq, UInt64.toNat_inj]
  exact And.comm

theorem snan_of_not_nan (dx dy : Datum) (h : ¬ (dx.isNaN || dy.isNaN) = true) : (dx.isSNaN || dy.isSNaN) = false := by
  cases dx <;> cases dy <;> simp [Datum.isNaN, Datum.isSNaN] at h ⊢

/-- `bid128_quiet_equal` either answers by one of its front ends (NaN, identical patterns, infinities, zeros, opposite signs)
— and then the answer is the spec-level one — or both operands are finite non-zero of the same sign and the
magnitude comparison `eqTail` decides. -/
theorem quiet_equal_reduce (x y : U128) (f : UInt32) :
    bid128_quiet_equal x y f =
        .ok (cmpD (decode (bitsOf x)) (decode (bitsOf y)) == some .eq, flagsOut f (decode (bitsOf x)) (decode (bitsOf y))) ∨
    (nzFin x ∧ nzFin y ∧ x ≠ y ∧ negW x.w1.toNat = negW y.w1.toNat ∧ bid128_quiet_equal x y f = eqTail x y f) := by
  rw [quiet_equal_unfold]
  simp only [bne]
  rw [beq128, zeroTest_eq, zeroTest_eq]
  simp only [sign_xor_test]
  rw [flagsOut_eq]
  by_cases hn : ((decode (bitsOf x)).isNaN || (decode (bitsOf y)).isNaN) = true
  · -- a NaN operand
    left
    rw [cmpD_of_nan _ _ hn]
    rw [decode_bitsOf, decode_bitsOf, isNaN_decodeW, isNaN_decodeW] at hn
    rw [if_pos hn, decode_bitsOf, decode_bitsOf, isSNaN_decodeW, isSNaN_decodeW]
    split <;> rfl
  · have hn' := hn
    rw [decode_bitsOf, decode_bitsOf, isNaN_decodeW, isNaN_decodeW] at hn'
    rw [if_neg hn', snan_of_not_nan _ _ hn]
    simp only [Bool.false_eq_true, if_false]
    by_cases hxy : x = y
    · left
      subst hxy
      simp only [decide_true, if_true]
      rw [cmpD_self _ (by simpa using hn)]
      rfl
    · simp only [hxy, decide_false, Bool.false_eq_true, if_false]
      have hne := (not_congr (u128_eq_iff x y)).1 hxy
      rw [decode_bitsOf, decode_bitsOf]
      unfold nzFin negW
      generalize x.w1.toNat = h at *
      generalize x.w0.toNat = l at *
      generalize y.w1.toNat = h' at *
      generalize y.w0.toNat = l' at *
      simp only [Bool.or_eq_true, decide_eq_true_eq, not_or] at hn'
      have inf_fin : ∀ (a b : Bool) (c : Nat) (e : Int), (cmpD (.inf a) (.fin b c e) == some .eq) = false := by
        intro a b c e; cases a <;> rfl
      have fin_inf : ∀ (a b : Bool) (c : Nat) (e : Int), (cmpD (.fin b c e) (.inf a) == some .eq) = false := by
        intro a b c e; cases a <;> rfl
      have inf_inf : ∀ (a b : Bool), (cmpD (.inf a) (.inf b) == some .eq) = !(a != b) := by
        intro a b; cases a <;> cases b <;> rfl
      rcases decodeW_kind h l with ⟨hN, s, p, hd⟩ | ⟨hN, hI, hd⟩ | ⟨hI, hz, e, hd⟩ | ⟨hI, hS, hlt, hpos, hd⟩
      · omega
      · -- x infinite
        left
        rcases decodeW_kind h' l' with ⟨kN, s', p', kd⟩ | ⟨kN, kI, kd⟩ | ⟨kI, kz, e', kd⟩ | ⟨kI, kS, klt, kpos, kd⟩
        · omega
        · rw [hd, kd, inf_inf]; simp only [hI, kI, decide_true, if_true]
        · rw [hd, kd, inf_fin]; simp only [hI, kI, decide_true, decide_false, if_true, if_false, Bool.false_eq_true]
        · rw [hd, kd, inf_fin]; simp only [hI, kI, decide_true, decide_false, if_true, if_false, Bool.false_eq_true]
      · -- x zero
        left
        have hzp : zeroP h l := hz
        rcases decodeW_kind h' l' with ⟨kN, s', p', kd⟩ | ⟨kN, kI, kd⟩ | ⟨kI, kz, e', kd⟩ | ⟨kI, kS, klt, kpos, kd⟩
        · omega
        · rw [hd, kd, fin_inf]; simp only [hI, kI, decide_true, decide_false, if_true, if_false, Bool.false_eq_true]
        · have kzp : zeroP h' l' := kz
          rw [hd, kd]
          simp only [hI, kI, hzp, kzp, decide_true, decide_false, if_true, if_false, Bool.false_eq_true, cmpD, beq_some_eq,
            cmpFin_zero_left]
        · have kzp : ¬ zeroP h' l' := by unfold zeroP; omega
          rw [hd, kd]
          simp only [hI, kI, hzp, kzp, decide_true, decide_false, if_true, if_false, Bool.false_eq_true, cmpD, beq_some_eq,
            cmpFin_zero_left, Nat.ne_of_gt kpos]
      · -- x finite non-zero
        have hzp : ¬ zeroP h l := by unfold zeroP; omega
        rcases decodeW_kind h' l' with ⟨kN, s', p', kd⟩ | ⟨kN, kI, kd⟩ | ⟨kI, kz, e', kd⟩ | ⟨kI, kS, klt, kpos, kd⟩
        · omega
        · left; rw [hd, kd, fin_inf]; simp only [hI, kI, decide_true, decide_false, if_true, if_false, Bool.false_eq_true]
        · left
          have kzp : zeroP h' l' := kz
          rw [hd, kd]
          simp only [hI, kI, hzp, kzp, decide_true, decide_false, if_true, if_false, Bool.false_eq_true, cmpD, beq_some_eq,
            cmpFin_zero_right, Nat.ne_of_gt hpos]
        · have kzp : ¬ zeroP h' l' := by unfold zeroP; omega
          by_cases hs : decide (h / 2^63 % 2 = 1) = decide (h' / 2^63 % 2 = 1)
          · right
            refine ⟨⟨hI, hzp⟩, ⟨kI, kzp⟩, hxy, hs, ?_⟩
            simp only [hI, kI, hzp, kzp, hs, decide_false, if_false, Bool.false_eq_true, bne_self_eq_false]
          · left
            rw [hd, kd]
            have hs' : (decide (h / 2^63 % 2 = 1) != decide (h' / 2^63 % 2 = 1)) = true := by
              simpa [bne_iff_ne] using hs
            simp only [hI, kI, hzp, kzp, hs', decide_false, if_true, if_false, Bool.false_eq_true, cmpD, beq_some_eq,
              cmpFin_signs _ _ _ _ _ _ hs hpos kpos]

/-- **front ends of `bid128_quiet_equal`**: whenever some operand decodes to a NaN, an infinity or a zero (any pattern,
including every non-canonical finite encoding), the routine returns the spec-level answer `cmpD … == some .eq`
and the spec-level status word. -/
theorem quiet_equal_front (x y : U128) (f : UInt32)
    (h : (special (decode (bitsOf x)) || special (decode (bitsOf y))) = true) :
    bid128_quiet_equal x y f =
      .ok (cmpD (decode (bitsOf x)) (decode (bitsOf y)) == some .eq, flagsOut f (decode (bitsOf x)) (decode (bitsOf y))) := by
  rcases quiet_equal_reduce x y f with h1 | ⟨hx, hy, _⟩
  · exact h1
  · rw [Bool.or_eq_true, special_iff, special_iff] at h
    rcases h with h | h
    · exact absurd hx h
    · exact absurd hy h

-- -0 (exponent field 1) against a non-canonical finite encoding (coefficient field ≥ 10^34 ⇒ zero): equal, no flag
example : bid128_quiet_equal ⟨0, 0x8002000000000000⟩ ⟨0xffffffffffffffff, 0x3041ffffffffffff⟩ 0 = .ok (true, 0) := by rfl
example : bid128_quiet_equal ⟨0, 0x8002000000000000⟩ ⟨0xffffffffffffffff, 0x3041ffffffffffff⟩ 0 = .ok (true, 0) := by
  rw [quiet_equal_front _ _ _ (by decide +kernel)]; decide +kernel
-- +Inf with trailing garbage against canonical +Inf: equal; against −Inf: different; sNaN: false and invalid
example : bid128_quiet_equal ⟨77, 0x7800000000000123⟩ ⟨0, 0x7800000000000000⟩ 0 = .ok (true, 0) := by rfl
example : bid128_quiet_equal ⟨77, 0x7800000000000123⟩ ⟨0, 0xf800000000000000⟩ 0 = .ok (false, 0) := by rfl
example : bid128_quiet_equal ⟨1, 0x3040000000000000⟩ ⟨0, 0x7e00000000000000⟩ 0x20 = .ok (false, 0x21) := by rfl


/-! ### the structure and the front ends of `bid128_quiet_greater` -/

/-- the magnitude comparison of `bid128_quiet_greater` for finite non-zero operands of equal sign:
exponent fields `ex ey`, coefficient fields `sx sy`, sign bits `nx ny` -/
def gtTail (ex ey : Int32) (sx sy : U128) (nx ny : Bool) (f : UInt32) : Except String (Bool × UInt32) :=
  if ey == ex then
    .ok ((decide (sx.w1 > sy.w1) || (sx.w1 == sy.w1 && decide (sx.w0 ≥ sy.w0))) != nx, f)
  else if (decide (sx.w1 > sy.w1) || (sx.w1 == sy.w1 && decide (sx.w0 > sy.w0))) && decide (ex ≥ ey) then .ok (!nx, f)
  else if (decide (sx.w1 < sy.w1) || (sx.w1 == sy.w1 && decide (sx.w0 < sy.w0))) && decide (ex ≤ ey) then .ok (nx, f)
  else if ex - ey > 0 then
    if ex - ey > 33 then .ok (!nx, f)
    else if ex - ey > 19 then do
      let t ← tbl128 Dec.Gen.BID_TEN2K128 (UInt64.ofInt (toI (ex - ey - 20)))
      let v ← mul_128x128_to_256 sx t
      if v.w3 == 0 && v.w2 == 0 && v.w1 == sy.w1 && v.w0 == sy.w0 then .ok (false, f)
      else .ok ((decide (v.w3 > 0) || decide (v.w2 > 0) || decide (v.w1 > sy.w1) || (v.w1 == sy.w1 && decide (v.w0 > sy.w0))) != ny, f)
    else do
      let t ← tbl64 Dec.Gen.BID_TEN2K64 (UInt64.ofInt (toI (ex - ey)))
      let v ← mul_64x128_to_192 t sx
      if v.w2 == 0 && v.w1 == sy.w1 && v.w0 == sy.w0 then .ok (false, f)
      else .ok ((decide (v.w2 > 0) || decide (v.w1 > sy.w1) || (v.w1 == sy.w1 && decide (v.w0 > sy.w0))) != ny, f)
  else if ey - ex > 33 then .ok (nx, f)
  else if ey - ex > 19 then do
    let t ← tbl128 Dec.Gen.BID_TEN2K128 (UInt64.ofInt (toI (ey - ex - 20)))
    let v ← mul_128x128_to_256 sy t
    if v.w3 == 0 && v.w2 == 0 && v.w1 == sx.w1 && v.w0 == sx.w0 then .ok (false, f)
    else .ok ((v.w3 != 0 || v.w2 != 0 || (decide (v.w1 > sx.w1) || (v.w1 == sx.w1 && decide (v.w0 > sx.w0)))) != !nx, f)
  else do
    let t ← tbl64 Dec.Gen.BID_TEN2K64 (UInt64.ofInt (toI (ey - ex)))
    let v ← mul_64x128_to_192 t sy
    if v.w2 == 0 && v.w1 == sx.w1 && v.w0 == sx.w0 then .ok (false, f)
    else .ok ((v.w2 != 0 || (decide (v.w1 > sx.w1) || (v.w1 == sx.w1 && decide (v.w0 > sx.w0)))) != !ny, f)

theorem sign_xor_test' (a b : UInt64) :
    decide ((a ^^^ b).toNat / 2^63 % 2 = 1) = (negW a.toNat != negW b.toNat) := by
  unfold negW
  rw [UInt64.toNat_xor, ← Nat.testBit_eq_decide_div_mod_eq, ← Nat.testBit_eq_decide_div_mod_eq,
    ← Nat.testBit_eq_decide_div_mod_eq, Nat.testBit_xor]

theorem quiet_greater_unfold (x y : U128) (f : UInt32) : bid128_quiet_greater x y f =
    if (decide (x.w1.toNat / 2 ^ 58 % 32 = 31) || decide (y.w1.toNat / 2 ^ 58 % 32 = 31)) = true then
      (if (decide (x.w1.toNat / 2 ^ 57 % 64 = 63) || decide (y.w1.toNat / 2 ^ 57 % 64 = 63)) = true then .ok (false, f ||| 1) else .ok (false, f))
    else if (x.w0 == y.w0 && x.w1 == y.w1) = true then .ok (false, f)
    else if decide (x.w1.toNat / 2 ^ 59 % 16 = 15) = true then
      (if negW x.w1.toNat = true then .ok (false, f)
       else .ok (!decide (y.w1.toNat / 2 ^ 59 % 16 = 15) || negW y.w1.toNat, f))
    else if decide (y.w1.toNat / 2 ^ 59 % 16 = 15) = true then .ok (negW y.w1.toNat, f)
    else if zeroTest x = true then (if zeroTest y = true then .ok (false, f) else .ok (negW y.w1.toNat, f))
    else if zeroTest y = true then .ok (!negW x.w1.toNat, f)
    else if (negW x.w1.toNat != negW y.w1.toNat) = true then .ok (negW y.w1.toNat, f)
    else gtTail (expF x.w1) (expF y.w1) (sigF x) (sigF y) (negW x.w1.toNat) (negW y.w1.toNat) f := by
  simp only [bid128_quiet_greater, c_MASK_NAN, c_MASK_SNAN, c_MASK_INF, c_MASK_SIGN, c_StatusFlags_BID_INVALID_EXCEPTION, c_DEC_FE_INVALID,
    bind, Except.bind, pure, Except.pure, nan_test, snan_test, inf_test, steer_test, bne, sign_test, sign_xor_test']
  by_cases hx : zeroTest x = true <;> by_cases hy : zeroTest y = true <;>
  simp only [zeroTest] at hx hy <;>
  simp only [hx, hy, if_true, if_false, Bool.and_true, Bool.and_false, Bool.true_and, Bool.false_and, Bool.not_true, Bool.not_false, Bool.or_false, Bool.false_eq_true, Bool.or_true, Bool.true_or, zeroTest]
  all_goals simp only [gtTail, expF, sigF, negW, bind, Except.bind, gt_iff_lt, decide_eq_true_eq, bne]
  rfl

theorem beq_some_gt (o : Ordering) : (some o == some Ordering.gt) = decide (o = .gt) := by
  cases o <;> rfl

theorem sInt_pos (s : Bool) (c : Nat) : 0 < sInt s c ↔ (s = false ∧ 0 < c) := by
  unfold sInt; cases s <;> simp only [Bool.false_eq_true, if_true, if_false, true_and, false_and, Bool.true_eq_false, iff_false] <;> omega

theorem sInt_neg (s : Bool) (c : Nat) : sInt s c < 0 ↔ (s = true ∧ 0 < c) := by
  unfold sInt; cases s <;> simp only [Bool.false_eq_true, if_true, if_false, true_and, false_and, Bool.true_eq_false, iff_false] <;> omega

theorem mul_pow_pos_iff (c k : Nat) : 0 < c * 10 ^ k ↔ 0 < c := by
  have : 0 < 10 ^ k := Nat.pow_pos (by decide)
  constructor
  · intro h; exact Nat.pos_of_ne_zero (fun h0 => by rw [h0, Nat.zero_mul] at h; exact absurd h (Nat.lt_irrefl 0))
  · intro h; exact Nat.mul_pos h this

/-- a zero is greater than exactly the negative non-zero numbers -/
theorem cmpFin_zero_left_gt (s1 : Bool) (e1 : Int) (s2 : Bool) (c2 : Nat) (e2 : Int) :
    cmpFin s1 0 e1 s2 c2 e2 = .gt ↔ (s2 = true ∧ 0 < c2) := by
  unfold cmpFin
  simp only [Int.compare_eq_gt, Nat.zero_mul]
  rw [show sInt s1 0 = 0 from (sInt_eq_zero s1 0).2 rfl, sInt_neg, mul_pow_pos_iff]

/-- exactly the positive non-zero numbers are greater than a zero -/
theorem cmpFin_zero_right_gt (s1 : Bool) (c1 : Nat) (e1 : Int) (s2 : Bool) (e2 : Int) :
    cmpFin s1 c1 e1 s2 0 e2 = .gt ↔ (s1 = false ∧ 0 < c1) := by
  unfold cmpFin
  simp only [Int.compare_eq_gt, Nat.zero_mul]
  rw [show sInt s2 0 = 0 from (sInt_eq_zero s2 0).2 rfl, sInt_pos, mul_pow_pos_iff]

/-- non-zero numbers of opposite signs: the first is greater iff the second is the negative one -/
theorem cmpFin_signs_gt (s1 : Bool) (c1 : Nat) (e1 : Int) (s2 : Bool) (c2 : Nat) (e2 : Int)
    (hs : s1 ≠ s2) (h1 : 0 < c1) (h2 : 0 < c2) : cmpFin s1 c1 e1 s2 c2 e2 = .gt ↔ s2 = true := by
  unfold cmpFin
  simp only [Int.compare_eq_gt]
  have p1 := (mul_pow_pos_iff c1 (e1 - if e1 ≤ e2 then e1 else e2).toNat).2 h1
  have p2 := (mul_pow_pos_iff c2 (e2 - if e1 ≤ e2 then e1 else e2).toNat).2 h2
  generalize c1 * 10 ^ (e1 - if e1 ≤ e2 then e1 else e2).toNat = a at *
  generalize c2 * 10 ^ (e2 - if e1 ≤ e2 then e1 else e2).toNat = b at *
  unfold sInt
  cases s1 <;> cases s2 <;> simp only [Bool.false_eq_true, if_true, if_false, ne_eq, not_true_eq_false, iff_true, iff_false] at hs ⊢ <;> omega


/-- `bid128_quiet_greater` either answers by one of its front ends (NaN, identical patterns, infinities, zeros, opposite
signs) — and then the answer is the spec-level one — or both operands are finite non-zero of the same sign and the
magnitude comparison `gtTail` decides. -/
theorem quiet_greater_reduce (x y : U128) (f : UInt32) :
    bid128_quiet_greater x y f =
        .ok (cmpD (decode (bitsOf x)) (decode (bitsOf y)) == some .gt, flagsOut f (decode (bitsOf x)) (decode (bitsOf y))) ∨
    (nzFin x ∧ nzFin y ∧ x ≠ y ∧ negW x.w1.toNat = negW y.w1.toNat ∧
      bid128_quiet_greater x y f =
        gtTail (expF x.w1) (expF y.w1) (sigF x) (sigF y) (negW x.w1.toNat) (negW y.w1.toNat) f) := by
  rw [quiet_greater_unfold, beq128, zeroTest_eq, zeroTest_eq, flagsOut_eq]
  by_cases hn : ((decode (bitsOf x)).isNaN || (decode (bitsOf y)).isNaN) = true
  · -- a NaN operand
    left
    rw [cmpD_of_nan _ _ hn]
    rw [decode_bitsOf, decode_bitsOf, isNaN_decodeW, isNaN_decodeW] at hn
    rw [if_pos hn, decode_bitsOf, decode_bitsOf, isSNaN_decodeW, isSNaN_decodeW]
    split <;> rfl
  · have hn' := hn
    rw [decode_bitsOf, decode_bitsOf, isNaN_decodeW, isNaN_decodeW] at hn'
    rw [if_neg hn', snan_of_not_nan _ _ hn]
    simp only [Bool.false_eq_true, if_false]
    by_cases hxy : x = y
    · left
      subst hxy
      simp only [decide_true, if_true]
      rw [cmpD_self _ (by simpa using hn)]
      rfl
    · simp only [hxy, decide_false, Bool.false_eq_true, if_false]
      have hne := (not_congr (u128_eq_iff x y)).1 hxy
      rw [decode_bitsOf, decode_bitsOf]
      unfold nzFin
      generalize expF x.w1 = ex
      generalize expF y.w1 = ey
      generalize sigF x = sx
      generalize sigF y = sy
      generalize x.w1.toNat = h at *
      generalize x.w0.toNat = l at *
      generalize y.w1.toNat = h' at *
      generalize y.w0.toNat = l' at *
      simp only [Bool.or_eq_true, decide_eq_true_eq, not_or] at hn'
      have inf_fin : ∀ (a b : Bool) (c : Nat) (e : Int), (cmpD (.inf a) (.fin b c e) == some .gt) = !a := by
        intro a b c e; cases a <;> rfl
      have fin_inf : ∀ (a b : Bool) (c : Nat) (e : Int), (cmpD (.fin b c e) (.inf a) == some .gt) = a := by
        intro a b c e; cases a <;> rfl
      have inf_inf : ∀ (a b : Bool), (cmpD (.inf a) (.inf b) == some .gt) = (!a && b) := by
        intro a b; cases a <;> cases b <;> rfl
      rcases decodeW_kind h l with ⟨hN, s, p, hd⟩ | ⟨hN, hI, hd⟩ | ⟨hI, hz, e, hd⟩ | ⟨hI, hS, hlt, hpos, hd⟩
      · omega
      · -- x infinite
        left
        rcases decodeW_kind h' l' with ⟨kN, s', p', kd⟩ | ⟨kN, kI, kd⟩ | ⟨kI, kz, e', kd⟩ | ⟨kI, kS, klt, kpos, kd⟩
        · omega
        · rw [hd, kd, inf_inf]; simp only [hI, kI, decide_true, if_true, negW]
          cases decide (h / 2^63 % 2 = 1) <;> rfl
        · rw [hd, kd, inf_fin]; simp only [hI, kI, decide_true, decide_false, if_true, if_false, Bool.false_eq_true, negW]
          cases decide (h / 2^63 % 2 = 1) <;> rfl
        · rw [hd, kd, inf_fin]; simp only [hI, kI, decide_true, decide_false, if_true, if_false, Bool.false_eq_true, negW]
          cases decide (h / 2^63 % 2 = 1) <;> rfl
      · -- x zero
        left
        have hzp : zeroP h l := hz
        rcases decodeW_kind h' l' with ⟨kN, s', p', kd⟩ | ⟨kN, kI, kd⟩ | ⟨kI, kz, e', kd⟩ | ⟨kI, kS, klt, kpos, kd⟩
        · omega
        · rw [hd, kd, fin_inf]; simp only [hI, kI, decide_true, decide_false, if_true, if_false, Bool.false_eq_true, negW]
        · have kzp : zeroP h' l' := kz
          rw [hd, kd]
          simp only [hI, kI, hzp, kzp, decide_true, decide_false, if_true, if_false, Bool.false_eq_true, cmpD, beq_some_gt,
            cmpFin_zero_left_gt, Nat.lt_irrefl, and_false]
        · have kzp : ¬ zeroP h' l' := by unfold zeroP; omega
          rw [hd, kd]
          simp only [hI, kI, hzp, kzp, decide_true, decide_false, if_true, if_false, Bool.false_eq_true, cmpD, beq_some_gt,
            cmpFin_zero_left_gt, kpos, and_true, negW, Bool.decide_eq_true]
      · -- x finite non-zero
        have hzp : ¬ zeroP h l := by unfold zeroP; omega
        rcases decodeW_kind h' l' with ⟨kN, s', p', kd⟩ | ⟨kN, kI, kd⟩ | ⟨kI, kz, e', kd⟩ | ⟨kI, kS, klt, kpos, kd⟩
        · omega
        · left; rw [hd, kd, fin_inf]; simp only [hI, kI, decide_true, decide_false, if_true, if_false, Bool.false_eq_true, negW]
        · left
          have kzp : zeroP h' l' := kz
          rw [hd, kd]
          simp only [hI, kI, hzp, kzp, decide_true, decide_false, if_true, if_false, Bool.false_eq_true, cmpD, beq_some_gt,
            cmpFin_zero_right_gt, hpos, and_true, negW]
          cases decide (h / 2^63 % 2 = 1) <;> rfl
        · have kzp : ¬ zeroP h' l' := by unfold zeroP; omega
          by_cases hs : negW h = negW h'
          · right
            refine ⟨⟨hI, hzp⟩, ⟨kI, kzp⟩, hxy, hs, ?_⟩
            simp only [hI, kI, hzp, kzp, hs, decide_false, if_false, Bool.false_eq_true, bne_self_eq_false]
          · left
            rw [hd, kd]
            have hs' : (negW h != negW h') = true := by simpa [bne_iff_ne] using hs
            unfold negW at hs hs'
            simp only [hI, kI, hzp, kzp, hs', decide_false, if_true, if_false, Bool.false_eq_true, cmpD, beq_some_gt,
              cmpFin_signs_gt _ _ _ _ _ _ hs hpos kpos, negW, Bool.decide_eq_true]

/-- **front ends of `bid128_quiet_greater`**: whenever some operand decodes to a NaN, an infinity or a zero (any pattern,
including every non-canonical finite encoding), the routine returns the spec-level answer `cmpD … == some .gt`
and the spec-level status word. -/
theorem quiet_greater_front (x y : U128) (f : UInt32)
    (h : (special (decode (bitsOf x)) || special (decode (bitsOf y))) = true) :
    bid128_quiet_greater x y f =
      .ok (cmpD (decode (bitsOf x)) (decode (bitsOf y)) == some .gt, flagsOut f (decode (bitsOf x)) (decode (bitsOf y))) := by
  rcases quiet_greater_reduce x y f with h1 | ⟨hx, hy, _⟩
  · exact h1
  · rw [Bool.or_eq_true, special_iff, special_iff] at h
    rcases h with h | h
    · exact absurd hx h
    · exact absurd hy h

-- +0 against a negative non-canonical encoding (a zero): not greater; against −1: greater; −Inf is below everything
example : bid128_quiet_greater ⟨0, 0x3040000000000000⟩ ⟨0xffffffffffffffff, 0xb041ffffffffffff⟩ 0 = .ok (false, 0) := by rfl
example : bid128_quiet_greater ⟨0, 0x3040000000000000⟩ ⟨1, 0xb040000000000000⟩ 0 = .ok (true, 0) := by rfl
example : bid128_quiet_greater ⟨0, 0x3040000000000000⟩ ⟨1, 0xb040000000000000⟩ 0 = .ok (true, 0) := by
  rw [quiet_greater_front _ _ _ (by decide +kernel)]; decide +kernel
example : bid128_quiet_greater ⟨5, 0x6000000000000000⟩ ⟨0, 0xf800000000000000⟩ 0 = .ok (true, 0) := by rfl
example : bid128_quiet_greater ⟨0, 0x7800000000000000⟩ ⟨0, 0x7c00000000000000⟩ 0x20 = .ok (false, 0x20) := by rfl


/-! ### the translated multi-word multiplication helpers are exact -/

theorem ofInt_natCast64 (n : Nat) : (UInt64.ofInt (n : Int)).toNat = n % 2^64 := by
  unfold UInt64.ofInt
  rw [UInt64.toNat_ofNat']
  have : ((n : Int) % 2^64).toNat = n % 2^64 := by omega
  rw [this]; omega

theorem ofInt_natCast32 (n : Nat) : (UInt32.ofInt (n : Int)).toNat = n % 2^32 := by
  unfold UInt32.ofInt
  rw [UInt32.toNat_ofNat']
  have : ((n : Int) % 2^32).toNat = n % 2^32 := by omega
  rw [this]; omega

/-- `x as u32 as u64`: the low half -/
theorem low32 (w : UInt64) : (UInt64.ofInt (toI (UInt32.ofInt (toI w)))).toNat = w.toNat % 2^32 := by
  show (UInt64.ofInt ((UInt32.ofInt (w.toNat : Int)).toNat : Int)).toNat = _
  rw [ofInt_natCast64, ofInt_natCast32]
  omega

theorem high32 (w : UInt64) : (w >>> 0x20).toNat = w.toNat / 2^32 := by
  rw [UInt64.toNat_shiftRight, Nat.shiftRight_eq_div_pow]
  rfl

theorem shl32 (w : UInt64) : (w <<< 0x20).toNat = w.toNat * 2^32 % 2^64 := by
  rw [UInt64.toNat_shiftLeft, Nat.shiftLeft_eq]
  rfl

/-- the schoolbook 64×64 → 128 multiplication by 32-bit halves is exact -/
theorem mul_64x64_to_128_spec (a b : UInt64) :
    ∃ r, mul_64x64_to_128 a b = .ok r ∧ r.w1.toNat * 2^64 + r.w0.toNat = a.toNat * b.toNat := by
  refine ⟨_, rfl, ?_⟩
  simp only [UInt64.toNat_add, UInt64.toNat_mul, low32, high32, shl32]
  have ha := a.toNat_lt
  have hb := b.toNat_lt
  generalize a.toNat = A at *
  generalize b.toNat = B at *
  have hA : A = A / 2^32 * 2^32 + A % 2^32 := by omega
  have hB : B = B / 2^32 * 2^32 + B % 2^32 := by omega
  have h1 : A / 2^32 < 2^32 := by omega
  have h2 : B / 2^32 < 2^32 := by omega
  have h3 : A % 2^32 < 2^32 := by omega
  have h4 : B % 2^32 < 2^32 := by omega
  generalize A / 2^32 = a1 at *
  generalize A % 2^32 = a0 at *
  generalize B / 2^32 = b1 at *
  generalize B % 2^32 = b0 at *
  have e : A * B = a1 * b1 * 2^64 + (a1 * b0 + a0 * b1) * 2^32 + a0 * b0 := by rw [hA, hB]; ring
  have p1 : a1 * b0 ≤ (2^32 - 1) * (2^32 - 1) := Nat.mul_le_mul (by omega) (by omega)
  have p2 : a1 * b1 ≤ (2^32 - 1) * (2^32 - 1) := Nat.mul_le_mul (by omega) (by omega)
  have p3 : a0 * b0 ≤ (2^32 - 1) * (2^32 - 1) := Nat.mul_le_mul (by omega) (by omega)
  have p4 : a0 * b1 ≤ (2^32 - 1) * (2^32 - 1) := Nat.mul_le_mul (by omega) (by omega)
  rw [e]
  generalize a1 * b0 = m1 at *
  generalize a1 * b1 = hh at *
  generalize a0 * b0 = ll at *
  generalize a0 * b1 = m2 at *
  omega

example : mul_64x64_to_128 0xffffffffffffffff 0xfffffffffffffffe = .ok ⟨2, 0xfffffffffffffffd⟩ := by rfl

/-- the values of multi-word integers, low word first -/
def val128 (x : U128) : Nat := x.w1.toNat * 2^64 + x.w0.toNat
def val192 (x : U192) : Nat := x.w2.toNat * 2^128 + x.w1.toNat * 2^64 + x.w0.toNat
def val256 (x : U256) : Nat := x.w3.toNat * 2^192 + x.w2.toNat * 2^128 + x.w1.toNat * 2^64 + x.w0.toNat

theorem val128_lt (x : U128) : val128 x < 2^128 := by
  have := x.w0.toNat_lt; have := x.w1.toNat_lt; unfold val128; omega

/-- 128 + 64 bit addition (wrapping at 2^128) -/
theorem add_128_64_spec (A : U128) (b : UInt64) :
    ∃ r, add_128_64 A b = .ok r ∧ val128 r = (val128 A + b.toNat) % 2^128 := by
  have h0 := A.w0.toNat_lt; have h1 := A.w1.toNat_lt; have hb := b.toNat_lt
  simp only [add_128_64, bind, Except.bind, pure, Except.pure]
  by_cases hc : b + A.w0 < b
  · refine ⟨_, by rw [if_pos (by simpa using hc)], ?_⟩
    rw [UInt64.lt_iff_toNat_lt, UInt64.toNat_add] at hc
    simp only [val128, UInt64.toNat_add, UInt64.toNat_one]
    omega
  · refine ⟨_, by rw [if_neg (by simpa using hc)], ?_⟩
    rw [UInt64.lt_iff_toNat_lt, UInt64.toNat_add] at hc
    simp only [val128, UInt64.toNat_add]
    omega

theorem no_wrap_aux (m1 m0 h1 h0 l1 : Nat) (mv : m1 * 2 ^ 64 + m0 = (h1 * 2 ^ 64 + h0 + l1) % 2 ^ 128)
    (b1 : h1 * 2 ^ 64 + h0 ≤ 340282366920938463426481119284349108225) (hl : l1 < 2 ^ 64) :
    m1 * 2 ^ 64 + m0 = h1 * 2 ^ 64 + h0 + l1 := by omega

/-- 64 × 128 → 192 bit multiplication is exact -/
theorem mul_64x128_to_192_spec (a : UInt64) (B : U128) :
    ∃ r, mul_64x128_to_192 a B = .ok r ∧ val192 r = a.toNat * val128 B := by
  obtain ⟨h, hh, hv⟩ := mul_64x64_to_128_spec a B.w1
  obtain ⟨l, hl, lv⟩ := mul_64x64_to_128_spec a B.w0
  obtain ⟨m, hm, mv⟩ := add_128_64_spec h l.w1
  refine ⟨⟨l.w0, m.w0, m.w1⟩, ?_, ?_⟩
  · simp only [mul_64x128_to_192, bind, Except.bind, pure, Except.pure, hh, hl, hm]
  · have ha : a.toNat ≤ 18446744073709551615 := by have := a.toNat_lt; omega
    have hb : B.w1.toNat ≤ 18446744073709551615 := by have := B.w1.toNat_lt; omega
    have b1 : a.toNat * B.w1.toNat ≤ 340282366920938463426481119284349108225 := Nat.mul_le_mul ha hb
    have e : a.toNat * val128 B = a.toNat * B.w1.toNat * 2^64 + a.toNat * B.w0.toNat := by unfold val128; ring
    rw [e, ← hv, ← lv]
    have := l.w0.toNat_lt; have := l.w1.toNat_lt; have := h.w0.toNat_lt
    rw [← hv] at b1
    simp only [val192, val128] at mv ⊢
    have := no_wrap_aux _ _ _ _ _ mv b1 l.w1.toNat_lt
    linarith

/-- 64 × 128 → (64, 128) bit multiplication is exact -/
theorem mul_64x128_full_spec (a : UInt64) (B : U128) :
    ∃ ph ql, mul_64x128_full a B = .ok (ph, ql) ∧ ph.toNat * 2^128 + val128 ql = a.toNat * val128 B := by
  obtain ⟨h, hh, hv⟩ := mul_64x64_to_128_spec a B.w1
  obtain ⟨l, hl, lv⟩ := mul_64x64_to_128_spec a B.w0
  obtain ⟨m, hm, mv⟩ := add_128_64_spec h l.w1
  refine ⟨m.w1, ⟨l.w0, m.w0⟩, ?_, ?_⟩
  · simp only [mul_64x128_full, bind, Except.bind, pure, Except.pure, hh, hl, hm]
  · have ha : a.toNat ≤ 18446744073709551615 := by have := a.toNat_lt; omega
    have hb : B.w1.toNat ≤ 18446744073709551615 := by have := B.w1.toNat_lt; omega
    have b1 : a.toNat * B.w1.toNat ≤ 340282366920938463426481119284349108225 := Nat.mul_le_mul ha hb
    have e : a.toNat * val128 B = a.toNat * B.w1.toNat * 2^64 + a.toNat * B.w0.toNat := by unfold val128; ring
    rw [e, ← hv, ← lv]
    have := l.w0.toNat_lt; have := l.w1.toNat_lt; have := h.w0.toNat_lt
    rw [← hv] at b1
    simp only [val128] at mv ⊢
    have := no_wrap_aux _ _ _ _ _ mv b1 l.w1.toNat_lt
    linarith

theorem add_carry_out_spec (x y : UInt64) :
    ∃ s c, add_carry_out x y = .ok (s, c) ∧ c.toNat * 2^64 + s.toNat = x.toNat + y.toNat := by
  have hx := x.toNat_lt; have hy := y.toNat_lt
  simp only [add_carry_out, bind, Except.bind, pure, Except.pure]
  by_cases hc : x + y < x
  · refine ⟨_, _, by rw [if_pos (by simpa using hc)], ?_⟩
    rw [UInt64.lt_iff_toNat_lt, UInt64.toNat_add] at hc
    simp only [UInt64.toNat_add, UInt64.toNat_one]
    omega
  · refine ⟨_, _, by rw [if_neg (by simpa using hc)], ?_⟩
    rw [UInt64.lt_iff_toNat_lt, UInt64.toNat_add] at hc
    simp only [UInt64.toNat_add, UInt64.toNat_zero]
    omega

theorem add_carry_in_out_spec (x y ci : UInt64) (hci : ci.toNat ≤ 1) :
    ∃ s c, add_carry_in_out x y ci = .ok (s, c) ∧ c.toNat * 2^64 + s.toNat = x.toNat + y.toNat + ci.toNat := by
  have hx := x.toNat_lt; have hy := y.toNat_lt
  simp only [add_carry_in_out, bind, Except.bind, pure, Except.pure]
  by_cases hc : (decide (x + ci + y < x + ci) || decide (x + ci < ci)) = true
  · refine ⟨_, _, by rw [if_pos hc], ?_⟩
    simp only [Bool.or_eq_true, decide_eq_true_eq, UInt64.lt_iff_toNat_lt, UInt64.toNat_add] at hc
    simp only [UInt64.toNat_add, UInt64.toNat_one]
    omega
  · refine ⟨_, _, by rw [if_neg hc], ?_⟩
    simp only [Bool.or_eq_true, decide_eq_true_eq, UInt64.lt_iff_toNat_lt, UInt64.toNat_add] at hc
    simp only [UInt64.toNat_add, UInt64.toNat_zero]
    omega

theorem carry_le_one {x y s c : UInt64} (h : c.toNat * 2^64 + s.toNat = x.toNat + y.toNat) : c.toNat ≤ 1 := by
  have := x.toNat_lt; have := y.toNat_lt; omega

theorem mul256_hi (p1 q t : Nat) (h : p1 * 2^128 + q = t)
    (b : t ≤ 18446744073709551615 * 340282366920938463463374607431768211455) : p1 ≤ 18446744073709551614 := by omega

theorem mul256_aux (p0 q1 q0 p1 r1 r0 s1 c1 s2 c2 t0 t1 : Nat)
    (h0 : p0 * 2^128 + (q1 * 2^64 + q0) = t0) (h1 : p1 * 2^128 + (r1 * 2^64 + r0) = t1)
    (hc1 : c1 * 2^64 + s1 = r0 + q1) (hc2 : c2 * 2^64 + s2 = r1 + p0 + c1) :
    (p1 + c2) * 2^192 + s2 * 2^128 + s1 * 2^64 + q0 = t0 + t1 * 2^64 := by
  subst h0 h1
  linarith

/-- 128 × 128 → 256 bit multiplication is exact -/
theorem mul_128x128_to_256_spec (A B : U128) :
    ∃ r, mul_128x128_to_256 A B = .ok r ∧ val256 r = val128 A * val128 B := by
  obtain ⟨p0, q0, h0, v0⟩ := mul_64x128_full_spec A.w0 B
  obtain ⟨p1, q1, h1, v1⟩ := mul_64x128_full_spec A.w1 B
  obtain ⟨s1, c1, hc1, vc1⟩ := add_carry_out_spec q1.w0 q0.w1
  obtain ⟨s2, c2, hc2, vc2⟩ := add_carry_in_out_spec q1.w1 p0 c1 (carry_le_one vc1)
  refine ⟨⟨q0.w0, s1, s2, p1 + c2⟩, ?_, ?_⟩
  · simp only [mul_128x128_to_256, bind, Except.bind, pure, Except.pure, h0, h1, hc1, hc2]
  · have e : val128 A * val128 B = A.w0.toNat * val128 B + A.w1.toNat * val128 B * 2^64 := by
      rw [show val128 A = A.w1.toNat * 2^64 + A.w0.toNat from rfl]; ring
    have hA : A.w1.toNat ≤ 18446744073709551615 := by have := A.w1.toNat_lt; omega
    have hB : val128 B ≤ 340282366920938463463374607431768211455 := by have := val128_lt B; omega
    have b1 : A.w1.toNat * val128 B ≤ 18446744073709551615 * 340282366920938463463374607431768211455 := Nat.mul_le_mul hA hB
    have hp1 : p1.toNat ≤ 18446744073709551614 := by
      unfold val128 at v1; exact mul256_hi _ _ _ v1 b1
    have hc : c2.toNat ≤ 1 := by
      have := q1.w1.toNat_lt; have := p0.toNat_lt; have := carry_le_one vc1; omega
    have hw : (p1 + c2).toNat = p1.toNat + c2.toNat := by
      rw [UInt64.toNat_add, Nat.mod_eq_of_lt (by omega)]
    rw [e, ← v0, ← v1]
    simp only [val256, val128, hw]
    exact mul256_aux _ _ _ _ _ _ _ _ _ _ _ _ rfl rfl vc1 vc2

-- (2^128 − 1)² = 2^256 − 2^129 + 1, (2^64 − 1)(2^128 − 1) = 2^192 − 2^128 − 2^64 + 1
example : mul_128x128_to_256 ⟨0xffffffffffffffff, 0xffffffffffffffff⟩ ⟨0xffffffffffffffff, 0xffffffffffffffff⟩
    = .ok ⟨1, 0, 0xfffffffffffffffe, 0xffffffffffffffff⟩ := by rfl
example : mul_64x128_to_192 0xffffffffffffffff ⟨0xffffffffffffffff, 0xffffffffffffffff⟩
    = .ok ⟨1, 0xffffffffffffffff, 0xfffffffffffffffe⟩ := by rfl

/-! ### 3. `bid128_quiet_equal` on finite non-zero operands, and the full theorem -/

/-- the exponent field of a high word -/
def expW (h : Nat) : Nat := h / 2^49 % 2^14

theorem expW_lt (h : Nat) : expW h < 2^14 := by unfold expW; omega

theorem expF_toInt (w : UInt64) : (expF w).toInt = (expW w.toNat : Int) := by
  have e : (w >>> 49 &&& 16383).toNat = expW w.toNat := by
    rw [UInt64.toNat_and, UInt64.toNat_shiftRight, Nat.shiftRight_eq_div_pow,
      show (16383 : UInt64).toNat = 2^14 - 1 from rfl, Nat.and_two_pow_sub_one_eq_mod]
    rfl
  have hl := expW_lt w.toNat
  show (Int32.ofInt ((w >>> 49 &&& 16383).toNat : Int)).toInt = _
  rw [e, Int32.toInt_ofInt_of_le (by omega) (by omega)]

/-- lookups in the two tables of powers of ten -/
theorem ten2k64_get : ∀ i, i < 20 → Dec.Gen.BID_TEN2K64[i]? = some (10 ^ i) := by
  rw [Dec.TableFacts.BID_TEN2K64_def]
  decide +kernel

theorem ten2k128_get : ∀ i, i < 19 → Dec.Gen.BID_TEN2K128[2 * i]? = some (10 ^ (i + 20) % 2^64) ∧
    Dec.Gen.BID_TEN2K128[2 * i + 1]? = some (10 ^ (i + 20) / 2^64) := by
  rw [Dec.TableFacts.BID_TEN2K128_def]
  decide +kernel

theorem tbl64_ten (k : UInt64) (hk : k.toNat < 20) :
    ∃ v, tbl64 Dec.Gen.BID_TEN2K64 k = .ok v ∧ v.toNat = 10 ^ k.toNat := by
  refine ⟨UInt64.ofNat (10 ^ k.toNat), ?_, ?_⟩
  · unfold tbl64; rw [ten2k64_get _ hk]
  · rw [UInt64.toNat_ofNat', Nat.mod_eq_of_lt]
    calc 10 ^ k.toNat ≤ 10 ^ 19 := Nat.pow_le_pow_right (by decide) (by omega)
      _ < 2 ^ 64 := by decide

theorem tbl128_ten (k : UInt64) (hk : k.toNat < 19) :
    ∃ v, tbl128 Dec.Gen.BID_TEN2K128 k = .ok v ∧ val128 v = 10 ^ (k.toNat + 20) := by
  obtain ⟨h0, h1⟩ := ten2k128_get _ hk
  refine ⟨⟨UInt64.ofNat (10 ^ (k.toNat + 20) % 2^64), UInt64.ofNat (10 ^ (k.toNat + 20) / 2^64)⟩, ?_, ?_⟩
  · unfold tbl128; rw [h0, h1]
  · have : 10 ^ (k.toNat + 20) < 2^128 := by
      calc 10 ^ (k.toNat + 20) ≤ 10 ^ 38 := Nat.pow_le_pow_right (by decide) (by omega)
        _ < 2 ^ 128 := by decide
    simp only [val128, UInt64.toNat_ofNat']
    generalize 10 ^ (k.toNat + 20) = N at *
    omega


theorem eq256 (r : U256) (s : U128) :
    (r.w3 == 0 && r.w2 == 0 && r.w1 == s.w1 && r.w0 == s.w0) = decide (val128 s = val256 r) := by
  have := r.w0.toNat_lt; have := r.w1.toNat_lt; have := s.w0.toNat_lt; have := s.w1.toNat_lt
  rw [Bool.eq_iff_iff, decide_eq_true_iff]
  simp only [Bool.and_eq_true, beq_iff_eq, ← UInt64.toNat_inj, UInt64.toNat_zero, val128, val256]
  omega

theorem eq192 (r : U192) (s : U128) :
    (r.w2 == 0 && r.w1 == s.w1 && r.w0 == s.w0) = decide (val128 s = val192 r) := by
  have := r.w0.toNat_lt; have := r.w1.toNat_lt; have := s.w0.toNat_lt; have := s.w1.toNat_lt
  rw [Bool.eq_iff_iff, decide_eq_true_iff]
  simp only [Bool.and_eq_true, beq_iff_eq, ← UInt64.toNat_inj, UInt64.toNat_zero, val128, val192]
  omega

theorem int32_sub_toInt (ex ey : Int32) (a b : Nat) (ha : ex.toInt = a) (hb : ey.toInt = b) (ha' : a < 2^14) (hb' : b < 2^14) :
    (ey - ex).toInt = (b : Int) - a := by
  rw [Int32.toInt_sub, ha, hb]
  exact Int.bmod_eq_of_le (by omega) (by omega)

theorem int32_sub20_toInt (d : Int32) (g : Int) (hd : d.toInt = g) (h0 : -2^14 < g) (h1 : g < 2^14) :
    (d - 20).toInt = g - 20 := by
  rw [Int32.toInt_sub, hd, show (20 : Int32).toInt = 20 from rfl]
  exact Int.bmod_eq_of_le (by omega) (by omega)

theorem int32_gt_lit (d : Int32) (n : Int32) : d > n ↔ n.toInt < d.toInt := by
  rw [gt_iff_lt, Int32.lt_iff_toInt_lt]

theorem ofInt_toNat_of_nonneg (g : Int) (h0 : 0 ≤ g) (h1 : g < 2^64) : (UInt64.ofInt g).toNat = g.toNat := by
  have := ofInt_natCast64 g.toNat
  rw [Int.toNat_of_nonneg h0] at this
  rw [this]; omega


/-- the magnitude comparison of `bid128_quiet_equal`: with exponent fields `a ≤ b`, it decides `cx = cy · 10^(b−a)`
(never panics: every table index is in range) -/
theorem eqMag_spec (ex ey : Int32) (sx sy : U128) (f : UInt32) (a b : Nat)
    (ha : ex.toInt = a) (hb : ey.toInt = b) (hab : a ≤ b) (hb' : b < 2^14)
    (hy : 0 < val128 sy) (hx : val128 sx < P34) :
    eqMag ex ey sx sy f = .ok (decide (val128 sx = val128 sy * 10 ^ (b - a)), f) := by
  have hd := int32_sub_toInt ex ey a b ha hb (by omega) hb'
  unfold eqMag
  by_cases h33 : ey - ex > 33
  · -- more than 33 digits apart: never equal
    rw [if_pos h33]
    rw [int32_gt_lit, hd, show (33 : Int32).toInt = 33 from rfl] at h33
    have hp : 10 ^ 34 ≤ 10 ^ (b - a) := Nat.pow_le_pow_right (by decide) (by omega)
    have : val128 sx < val128 sy * 10 ^ (b - a) :=
      calc val128 sx < 10 ^ 34 := by simpa [P34] using hx
        _ ≤ 10 ^ (b - a) := hp
        _ ≤ val128 sy * 10 ^ (b - a) := Nat.le_mul_of_pos_left _ hy
    rw [decide_eq_false (by omega)]
  · rw [if_neg h33]
    rw [int32_gt_lit, hd, show (33 : Int32).toInt = 33 from rfl] at h33
    by_cases h19 : ey - ex > 19
    · -- 20 … 33: 128 × 128 bit product against 10^(20 + i)
      rw [if_pos h19]
      rw [int32_gt_lit, hd, show (19 : Int32).toInt = 19 from rfl] at h19
      have hk : (UInt64.ofInt (toI (ey - ex - 20))).toNat = b - a - 20 := by
        show (UInt64.ofInt ((ey - ex - 20).toInt)).toNat = _
        rw [int32_sub20_toInt _ _ hd (by omega) (by omega), ofInt_toNat_of_nonneg _ (by omega) (by omega)]
        omega
      obtain ⟨t, ht, tv⟩ := tbl128_ten (UInt64.ofInt (toI (ey - ex - 20))) (by omega)
      obtain ⟨r, hr, rv⟩ := mul_128x128_to_256_spec sy t
      simp only [bind, Except.bind, ht, hr, eq256]
      rw [rv, tv, hk, show b - a - 20 + 20 = b - a by omega]
    · -- 0 … 19: 64 × 128 bit product against 10^i
      rw [if_neg h19]
      rw [int32_gt_lit, hd, show (19 : Int32).toInt = 19 from rfl] at h19
      have hk : (UInt64.ofInt (toI (ey - ex))).toNat = b - a := by
        show (UInt64.ofInt ((ey - ex).toInt)).toNat = _
        rw [hd, ofInt_toNat_of_nonneg _ (by omega) (by omega)]
        omega
      obtain ⟨t, ht, tv⟩ := tbl64_ten (UInt64.ofInt (toI (ey - ex))) (by omega)
      obtain ⟨r, hr, rv⟩ := mul_64x128_to_192_spec t sy
      simp only [bind, Except.bind, ht, hr, eq192]
      rw [rv, tv, hk, Nat.mul_comm]


theorem val128_sigF (x : U128) : val128 (sigF x) = sigW x.w1.toNat x.w0.toNat := by
  unfold val128 sigF sigW
  rw [coeff_hi]

/-- **3. `bid128_quiet_equal` on finite non-zero operands of equal sign** (the part after all front ends):
the magnitude comparison returns the spec-level answer. -/
theorem eqTail_spec (x y : U128) (f : UInt32) (hx : nzFin x) (hy : nzFin y) (hs : negW x.w1.toNat = negW y.w1.toNat) :
    eqTail x y f =
      .ok (cmpD (decode (bitsOf x)) (decode (bitsOf y)) == some .eq, flagsOut f (decode (bitsOf x)) (decode (bitsOf y))) := by
  obtain ⟨dx, px, lx⟩ := nzFin_decode x hx
  obtain ⟨dy, py, ly⟩ := nzFin_decode y hy
  rw [dx, dy, flagsOut_eq, hs]
  simp only [Datum.isSNaN, Bool.or_self, Bool.false_eq_true, if_false, cmpD, beq_some_eq]
  have ea := expF_toInt x.w1
  have eb := expF_toInt y.w1
  have la := expW_lt x.w1.toNat
  have lb := expW_lt y.w1.toNat
  rw [← val128_sigF] at px lx py ly
  unfold eqTail
  show (if expF x.w1 > expF y.w1 then _ else _) = Except.ok (decide (cmpFin _ _ ((expW x.w1.toNat : Nat) - (6176 : Int)) _ _
    ((expW y.w1.toNat : Nat) - (6176 : Int)) = Ordering.eq), f)
  rw [← val128_sigF, ← val128_sigF]
  by_cases hgt : expF x.w1 > expF y.w1
  · rw [if_pos hgt]
    rw [gt_iff_lt, Int32.lt_iff_toInt_lt, ea, eb] at hgt
    rw [eqMag_spec _ _ _ _ f _ _ eb ea (by omega) la px ly, cmpFin_ge _ _ _ _ _ _ _ (by omega)]
    refine congrArg (fun b => Except.ok (b, f)) ?_
    rw [decide_eq_decide, Int.compare_eq_eq, sInt_inj]
    exact eq_comm
  · rw [if_neg hgt]
    rw [gt_iff_lt, Int32.lt_iff_toInt_lt, ea, eb] at hgt
    rw [eqMag_spec _ _ _ _ f _ _ ea eb (by omega) lb py lx, cmpFin_le _ _ _ _ _ _ _ (by omega)]
    refine congrArg (fun b => Except.ok (b, f)) ?_
    rw [decide_eq_decide, Int.compare_eq_eq, sInt_inj]

/-- **`bid128_quiet_equal`, all pairs of 128-bit patterns, every incoming status word**: the result is true iff the
decoded operands are numerically equal (`cmpD … = some .eq`: unordered if a NaN is involved, `+0 = −0`, all members of a
cohort equal, non-canonical encodings are zeros); the outgoing status word is the incoming one with `invalid` or-ed in
iff an operand is a signalling NaN; the routine never panics. -/
theorem quiet_equal_spec (x y : U128) (f : UInt32) :
    bid128_quiet_equal x y f =
      .ok (cmpD (decode (bitsOf x)) (decode (bitsOf y)) == some .eq, flagsOut f (decode (bitsOf x)) (decode (bitsOf y))) := by
  rcases quiet_equal_reduce x y f with h | ⟨hx, hy, _, hs, h⟩
  · exact h
  · rw [h, eqTail_spec x y f hx hy hs]


/-- in the judge's vocabulary: the result is the `"equal"` truth-table entry of the four-way relation of the decoded
operands and the flags are `quietCmpFlags` -/
theorem quiet_equal_table (x y : U128) (f : UInt32) :
    ∃ b, bid128_quiet_equal x y f = .ok (b, f ||| UInt32.ofNat (quietCmpFlags (decode (bitsOf x)) (decode (bitsOf y)))) ∧
      predTable "equal" (cmpD (decode (bitsOf x)) (decode (bitsOf y))) = some b :=
  ⟨_, quiet_equal_spec x y f, rfl⟩

/-- on finite operands (zeros included): true iff the exact rational values coincide; no flag is touched -/
theorem quiet_equal_value (x y : U128) (f : UInt32) (sx : Bool) (cx : Nat) (ex : Int) (sy : Bool) (cy : Nat) (ey : Int)
    (hx : decode (bitsOf x) = .fin sx cx ex) (hy : decode (bitsOf y) = .fin sy cy ey) :
    ∃ b, bid128_quiet_equal x y f = .ok (b, f) ∧ (b = true ↔ fval sx cx ex = fval sy cy ey) := by
  refine ⟨cmpD (.fin sx cx ex) (.fin sy cy ey) == some .eq, ?_, ?_⟩
  · rw [quiet_equal_spec, flagsOut_eq, hx, hy]; rfl
  · simp only [cmpD, beq_some_eq, decide_eq_true_eq]
    exact cmpFin_eq_iff ..

-- 1.0 = 10 × 10^-1 against 1 = 1 × 10^0 (64 × 128 path), 10^25 × 10^0 against 1 × 10^25 (128 × 128 path),
-- 1 × 10^0 against 1 × 10^40 (more than 33 digits apart)
example : bid128_quiet_equal ⟨10, 0x303e000000000000⟩ ⟨1, 0x3040000000000000⟩ 0 = .ok (true, 0) := by rfl
example : bid128_quiet_equal ⟨0x161401484a000000, 0x3040000000084595⟩ ⟨1, 0x3072000000000000⟩ 0 = .ok (true, 0) := by rfl
example : bid128_quiet_equal ⟨0x161401484a000001, 0x3040000000084595⟩ ⟨1, 0x3072000000000000⟩ 0 = .ok (false, 0) := by rfl
example : bid128_quiet_equal ⟨1, 0x3040000000000000⟩ ⟨1, 0x3090000000000000⟩ 0 = .ok (false, 0) := by rfl
example : ∃ b, bid128_quiet_equal ⟨0x161401484a000000, 0x3040000000084595⟩ ⟨1, 0x3072000000000000⟩ 7 = .ok (b, 7) ∧
    (b = true ↔ fval false (10^25) 0 = fval false 1 25) :=
  quiet_equal_value _ _ _ _ _ _ _ _ _ (by decide +kernel) (by decide +kernel)


/-! ### 4a. `bid128_quiet_not_equal` -/

/-- the magnitude comparison of `bid128_quiet_not_equal` once the exponents are ordered (`ex ≤ ey`) -/
def neMag (ex ey : Int32) (sx sy : U128) (f : UInt32) : Except String (Bool × UInt32) :=
  if ey - ex > 33 then .ok (true, f)
  else if ey - ex > 19 then do
    let t ← tbl128 Dec.Gen.BID_TEN2K128 (UInt64.ofInt (toI (ey - ex - 20)))
    let v ← mul_128x128_to_256 sy t
    .ok (v.w3 != 0 || v.w2 != 0 || v.w1 != sx.w1 || v.w0 != sx.w0, f)
  else do
    let t ← tbl64 Dec.Gen.BID_TEN2K64 (UInt64.ofInt (toI (ey - ex)))
    let v ← mul_64x128_to192 t sy
    .ok (v.w2 != 0 || v.w1 != sx.w1 || v.w0 != sx.w0, f)

def neTail (x y : U128) (f : UInt32) : Except String (Bool × UInt32) :=
  if expF x.w1 > expF y.w1 then neMag (expF y.w1) (expF x.w1) (sigF y) (sigF x) f
  else neMag (expF x.w1) (expF y.w1) (sigF x) (sigF y) f

theorem quiet_not_equal_unfold (x y : U128) (f : UInt32) : bid128_quiet_not_equal x y f =
    if (decide (x.w1.toNat / 2 ^ 58 % 32 = 31) || decide (y.w1.toNat / 2 ^ 58 % 32 = 31)) = true then
      (if (decide (x.w1.toNat / 2 ^ 57 % 64 = 63) || decide (y.w1.toNat / 2 ^ 57 % 64 = 63)) = true then .ok (true, f ||| 1) else .ok (true, f))
    else if (x.w0 == y.w0 && x.w1 == y.w1) = true then .ok (false, f)
    else if decide (x.w1.toNat / 2 ^ 59 % 16 = 15) = true then
      (if decide (y.w1.toNat / 2 ^ 59 % 16 = 15) = true then
         .ok ((x.w1 ^^^ y.w1) &&& 9223372036854775808 == 9223372036854775808, f) else .ok (true, f))
    else if decide (y.w1.toNat / 2 ^ 59 % 16 = 15) = true then .ok (true, f)
    else if zeroTest x = true then .ok (!zeroTest y, f)
    else if zeroTest y = true then .ok (true, f)
    else if ((x.w1 ^^^ y.w1) &&& 9223372036854775808 == 9223372036854775808) = true then .ok (true, f)
    else neTail x y f := by
  simp only [bid128_quiet_not_equal, c_MASK_NAN, c_MASK_SNAN, c_MASK_INF, c_MASK_SIGN, c_StatusFlags_BID_INVALID_EXCEPTION, c_DEC_FE_INVALID,
    bind, Except.bind, pure, Except.pure, nan_test, snan_test, inf_test, steer_test, swap]
  by_cases hx : zeroTest x = true <;> by_cases hy : zeroTest y = true <;>
  simp only [zeroTest] at hx hy <;>
  simp only [hx, hy, if_true, if_false, Bool.and_true, Bool.and_false, Bool.true_and, Bool.false_and, Bool.not_true, Bool.not_false, Bool.or_false, Bool.false_eq_true, Bool.or_true, Bool.true_or, zeroTest]
  simp only [neTail, neMag, expF, sigF, bind, Except.bind, gt_iff_lt, decide_eq_true_eq]


/-- the same outcome with the Boolean negated (a panic stays a panic) -/
def negRes : Except String (Bool × UInt32) → Except String (Bool × UInt32)
  | .ok (b, g) => .ok (!b, g)
  | .error e => .error e

theorem neMag_eq (ex ey : Int32) (sx sy : U128) (f : UInt32) : neMag ex ey sx sy f = negRes (eqMag ex ey sx sy f) := by
  unfold neMag eqMag
  have e : ∀ a B, mul_64x128_to192 a B = mul_64x128_to_192 a B := fun _ _ => rfl
  simp only [e]
  split
  · rfl
  · split
    · cases tbl128 Gen.BID_TEN2K128 (UInt64.ofInt (toI (ey - ex - 20))) with
      | error e => rfl
      | ok t =>
        simp only [bind, Except.bind]
        cases mul_128x128_to_256 sy t with
        | error e => rfl
        | ok v => simp only [negRes, bne, Bool.not_and]
    · cases tbl64 Gen.BID_TEN2K64 (UInt64.ofInt (toI (ey - ex))) with
      | error e => rfl
      | ok t =>
        simp only [bind, Except.bind]
        cases mul_64x128_to_192 t sy with
        | error e => rfl
        | ok v => simp only [negRes, bne, Bool.not_and]

/-- `bid128_quiet_not_equal` is, branch by branch, `bid128_quiet_equal` with the answer negated -/
theorem quiet_not_equal_eq (x y : U128) (f : UInt32) :
    bid128_quiet_not_equal x y f = negRes (bid128_quiet_equal x y f) := by
  rw [quiet_not_equal_unfold, quiet_equal_unfold]
  have ht : neTail x y f = negRes (eqTail x y f) := by
    unfold neTail eqTail; split <;> exact neMag_eq ..
  rw [ht]
  split_ifs <;> simp only [negRes, bne, Bool.not_not, Bool.not_true, Bool.not_false]

/-- **`bid128_quiet_not_equal`, all pairs of patterns**: the negation of numeric equality (so true when unordered), with the
quiet flag rule; never panics. -/
theorem quiet_not_equal_spec (x y : U128) (f : UInt32) :
    bid128_quiet_not_equal x y f =
      .ok (!(cmpD (decode (bitsOf x)) (decode (bitsOf y)) == some .eq), flagsOut f (decode (bitsOf x)) (decode (bitsOf y))) := by
  rw [quiet_not_equal_eq, quiet_equal_spec]; rfl

theorem quiet_not_equal_table (x y : U128) (f : UInt32) :
    ∃ b, bid128_quiet_not_equal x y f = .ok (b, f ||| UInt32.ofNat (quietCmpFlags (decode (bitsOf x)) (decode (bitsOf y)))) ∧
      predTable "not_equal" (cmpD (decode (bitsOf x)) (decode (bitsOf y))) = some b :=
  ⟨_, quiet_not_equal_spec x y f, rfl⟩

-- 1.0 against 1: not "not equal"; a quiet NaN against itself: not equal, no flag; sNaN: invalid
example : bid128_quiet_not_equal ⟨10, 0x303e000000000000⟩ ⟨1, 0x3040000000000000⟩ 0 = .ok (false, 0) := by rfl
example : bid128_quiet_not_equal ⟨0, 0x7c00000000000000⟩ ⟨0, 0x7c00000000000000⟩ 0 = .ok (true, 0) := by rfl
example : bid128_quiet_not_equal ⟨0, 0x7e00000000000000⟩ ⟨1, 0x3040000000000000⟩ 0 = .ok (true, 1) := by rfl
example : bid128_quiet_not_equal ⟨0x161401484a000001, 0x3040000000084595⟩ ⟨1, 0x3072000000000000⟩ 0 = .ok (true, 0) := by rfl


/-! ### 4b. `bid128_quiet_greater` on finite non-zero operands, and the full theorem -/

/-! word-level order tests as comparisons of values -/

theorem gtW (a b : U128) :
    (decide (a.w1 > b.w1) || (a.w1 == b.w1 && decide (a.w0 > b.w0))) = decide (val128 b < val128 a) := by
  unfold val128; exact gt128 ..

theorem geW (a b : U128) :
    (decide (a.w1 > b.w1) || (a.w1 == b.w1 && decide (a.w0 ≥ b.w0))) = decide (val128 b ≤ val128 a) := by
  have := a.w0.toNat_lt; have := b.w0.toNat_lt
  rw [Bool.eq_iff_iff, decide_eq_true_iff]
  simp only [Bool.or_eq_true, Bool.and_eq_true, decide_eq_true_eq, beq_iff_eq, gt_iff_lt, ge_iff_le, UInt64.lt_iff_toNat_lt,
    UInt64.le_iff_toNat_le, ← UInt64.toNat_inj, val128]
  omega

theorem ltW (a b : U128) :
    (decide (a.w1 < b.w1) || (a.w1 == b.w1 && decide (a.w0 < b.w0))) = decide (val128 a < val128 b) := by
  have := a.w0.toNat_lt; have := b.w0.toNat_lt
  rw [Bool.eq_iff_iff, decide_eq_true_iff]
  simp only [Bool.or_eq_true, Bool.and_eq_true, decide_eq_true_eq, beq_iff_eq, UInt64.lt_iff_toNat_lt,
    ← UInt64.toNat_inj, val128]
  omega

theorem gt256 (r : U256) (s : U128) :
    (decide (r.w3 > 0) || decide (r.w2 > 0) || decide (r.w1 > s.w1) || (r.w1 == s.w1 && decide (r.w0 > s.w0)))
      = decide (val128 s < val256 r) := by
  have := r.w0.toNat_lt; have := r.w1.toNat_lt; have := s.w0.toNat_lt; have := s.w1.toNat_lt
  rw [Bool.eq_iff_iff, decide_eq_true_iff]
  simp only [Bool.or_eq_true, Bool.and_eq_true, decide_eq_true_eq, beq_iff_eq, gt_iff_lt, UInt64.lt_iff_toNat_lt,
    ← UInt64.toNat_inj, UInt64.toNat_zero, val128, val256]
  omega

theorem gt256' (r : U256) (s : U128) :
    (r.w3 != 0 || r.w2 != 0 || (decide (r.w1 > s.w1) || (r.w1 == s.w1 && decide (r.w0 > s.w0))))
      = decide (val128 s < val256 r) := by
  have := r.w0.toNat_lt; have := r.w1.toNat_lt; have := s.w0.toNat_lt; have := s.w1.toNat_lt
  rw [Bool.eq_iff_iff, decide_eq_true_iff]
  simp only [Bool.or_eq_true, Bool.and_eq_true, decide_eq_true_eq, beq_iff_eq, bne_iff_ne, ne_eq, gt_iff_lt, UInt64.lt_iff_toNat_lt,
    ← UInt64.toNat_inj, UInt64.toNat_zero, val128, val256]
  omega

theorem gt192 (r : U192) (s : U128) :
    (decide (r.w2 > 0) || decide (r.w1 > s.w1) || (r.w1 == s.w1 && decide (r.w0 > s.w0)))
      = decide (val128 s < val192 r) := by
  have := r.w0.toNat_lt; have := r.w1.toNat_lt; have := s.w0.toNat_lt; have := s.w1.toNat_lt
  rw [Bool.eq_iff_iff, decide_eq_true_iff]
  simp only [Bool.or_eq_true, Bool.and_eq_true, decide_eq_true_eq, beq_iff_eq, gt_iff_lt, UInt64.lt_iff_toNat_lt,
    ← UInt64.toNat_inj, UInt64.toNat_zero, val128, val192]
  omega

theorem gt192' (r : U192) (s : U128) :
    (r.w2 != 0 || (decide (r.w1 > s.w1) || (r.w1 == s.w1 && decide (r.w0 > s.w0))))
      = decide (val128 s < val192 r) := by
  have := r.w0.toNat_lt; have := r.w1.toNat_lt; have := s.w0.toNat_lt; have := s.w1.toNat_lt
  rw [Bool.eq_iff_iff, decide_eq_true_iff]
  simp only [Bool.or_eq_true, Bool.and_eq_true, decide_eq_true_eq, beq_iff_eq, bne_iff_ne, ne_eq, gt_iff_lt, UInt64.lt_iff_toNat_lt,
    ← UInt64.toNat_inj, UInt64.toNat_zero, val128, val192]
  omega


/-! model side: comparison of same-sign finite numbers through the aligned magnitudes -/

/-- both coefficients scaled to the smaller exponent (truncated subtraction: one of the two factors is 1) -/
theorem cmpFin_nat (s1 : Bool) (c1 : Nat) (s2 : Bool) (c2 : Nat) (a b : Nat) (k : Int) :
    cmpFin s1 c1 ((a : Int) - k) s2 c2 ((b : Int) - k)
      = compare (sInt s1 (c1 * 10 ^ (a - b))) (sInt s2 (c2 * 10 ^ (b - a))) := by
  rcases Nat.le_total a b with h | h
  · rw [cmpFin_le _ _ _ _ _ _ _ h, Nat.sub_eq_zero_of_le h, Nat.pow_zero, Nat.mul_one]
  · rw [cmpFin_ge _ _ _ _ _ _ _ h, Nat.sub_eq_zero_of_le h, Nat.pow_zero, Nat.mul_one]

theorem sInt_lt (s : Bool) (u v : Nat) : sInt s u < sInt s v ↔ (if s then v < u else u < v) := by
  unfold sInt; cases s <;> simp only [Bool.false_eq_true, if_true, if_false] <;> omega

/-- `x > y` for same-sign finite numbers, on the aligned magnitudes `X Y` -/
theorem cmpFin_gt_same (s : Bool) (c1 c2 a b : Nat) (k : Int) :
    decide (cmpFin s c1 ((a : Int) - k) s c2 ((b : Int) - k) = .gt)
      = (if s then decide (c1 * 10 ^ (a - b) < c2 * 10 ^ (b - a)) else decide (c2 * 10 ^ (b - a) < c1 * 10 ^ (a - b))) := by
  rw [cmpFin_nat, Bool.eq_iff_iff, decide_eq_true_iff, Int.compare_eq_gt, sInt_lt]
  cases s <;> simp only [Bool.false_eq_true, if_true, if_false, decide_eq_true_eq]


/-- scaling a coefficient by `10^g`, `20 ≤ g ≤ 33`, as the code does it: table lookup and 128 × 128 bit product; exact, no panic -/
theorem scale256 (d : Int32) (g : Nat) (hd : d.toInt = g) (h20 : 20 ≤ g) (h33 : g ≤ 33) (s : U128) :
    ∃ t r, tbl128 Dec.Gen.BID_TEN2K128 (UInt64.ofInt (toI (d - 20))) = .ok t ∧ mul_128x128_to_256 s t = .ok r ∧
      val256 r = val128 s * 10 ^ g := by
  have hk : (UInt64.ofInt (toI (d - 20))).toNat = g - 20 := by
    show (UInt64.ofInt ((d - 20).toInt)).toNat = _
    rw [int32_sub20_toInt _ _ hd (by omega) (by omega), ofInt_toNat_of_nonneg _ (by omega) (by omega)]
    omega
  obtain ⟨t, ht, tv⟩ := tbl128_ten (UInt64.ofInt (toI (d - 20))) (by omega)
  obtain ⟨r, hr, rv⟩ := mul_128x128_to_256_spec s t
  exact ⟨t, r, ht, hr, by rw [rv, tv, hk, show g - 20 + 20 = g by omega]⟩

/-- scaling a coefficient by `10^g`, `g ≤ 19`: table lookup and 64 × 128 bit product; exact, no panic -/
theorem scale192 (d : Int32) (g : Nat) (hd : d.toInt = g) (h19 : g ≤ 19) (s : U128) :
    ∃ t r, tbl64 Dec.Gen.BID_TEN2K64 (UInt64.ofInt (toI d)) = .ok t ∧ mul_64x128_to_192 t s = .ok r ∧
      val192 r = val128 s * 10 ^ g := by
  have hk : (UInt64.ofInt (toI d)).toNat = g := by
    show (UInt64.ofInt (d.toInt)).toNat = _
    rw [hd, ofInt_toNat_of_nonneg _ (by omega) (by omega)]
    omega
  obtain ⟨t, ht, tv⟩ := tbl64_ten (UInt64.ofInt (toI d)) (by omega)
  obtain ⟨r, hr, rv⟩ := mul_64x128_to_192_spec t s
  exact ⟨t, r, ht, hr, by rw [rv, tv, hk, Nat.mul_comm]⟩

theorem big_gap (c c' g : Nat) (hc : 0 < c) (hc' : c' < P34) (hg : 33 < g) : c' < c * 10 ^ g :=
  calc c' < 10 ^ 34 := by simpa [P34] using hc'
    _ ≤ 10 ^ g := Nat.pow_le_pow_right (by decide) (by omega)
    _ ≤ c * 10 ^ g := Nat.le_mul_of_pos_left _ hc

theorem le_scale (c g : Nat) : c ≤ c * 10 ^ g := Nat.le_mul_of_pos_right _ (Nat.pow_pos (by decide))


/-- final Boolean step: the code's `(P > c) != sign` after the equality test -/
theorem fin_step (s : Bool) (P c : Nat) (hne : P ≠ c) :
    (decide (c < P) != s) = (if s then decide (P < c) else decide (c < P)) := by
  by_cases h : c < P
  · have h' : ¬ P < c := by omega
    cases s <;> simp [h, h']
  · have h' : P < c := by omega
    cases s <;> simp [h, h']

theorem fin_step' (s : Bool) (P c : Nat) (hne : P ≠ c) :
    (decide (c < P) != !s) = (if s then decide (c < P) else decide (P < c)) := by
  by_cases h : c < P
  · have h' : ¬ P < c := by omega
    cases s <;> simp [h, h']
  · have h' : P < c := by omega
    cases s <;> simp [h, h']


/-- **the magnitude comparison of `bid128_quiet_greater`** for finite non-zero operands of equal sign `s`, exponent
fields `a b`, coefficients `cx cy` (not the same pair): true iff `x > y`, on the aligned magnitudes -/
theorem gtTail_spec (ex ey : Int32) (sx sy : U128) (s : Bool) (f : UInt32) (a b : Nat)
    (ha : ex.toInt = a) (hb : ey.toInt = b) (ha' : a < 2^14) (hb' : b < 2^14)
    (px : 0 < val128 sx) (lx : val128 sx < P34) (py : 0 < val128 sy) (ly : val128 sy < P34)
    (hne : a = b → val128 sx ≠ val128 sy) :
    gtTail ex ey sx sy s s f =
      .ok (if s then decide (val128 sx * 10 ^ (a - b) < val128 sy * 10 ^ (b - a))
           else decide (val128 sy * 10 ^ (b - a) < val128 sx * 10 ^ (a - b)), f) := by
  have d1 := int32_sub_toInt ey ex b a hb ha hb' ha'
  have d2 := int32_sub_toInt ex ey a b ha hb ha' hb'
  have h_eq : (ey == ex) = decide (b = a) := by
    rw [Bool.eq_iff_iff, beq_iff_eq, decide_eq_true_iff, ← Int32.toInt_inj, ha, hb]; omega
  have h_ge : decide (ex ≥ ey) = decide (b ≤ a) := by
    rw [decide_eq_decide, ge_iff_le, Int32.le_iff_toInt_le, ha, hb]; omega
  have h_le : decide (ex ≤ ey) = decide (a ≤ b) := by
    rw [decide_eq_decide, Int32.le_iff_toInt_le, ha, hb]; omega
  unfold gtTail
  simp only [gtW, geW, ltW, h_eq, h_ge, h_le]
  generalize hcx : val128 sx = cx at *
  generalize hcy : val128 sy = cy at *
  by_cases hab : b = a
  · -- equal exponents
    subst hab
    have hne' := hne rfl
    simp only [decide_true, if_true, Nat.sub_self, Nat.pow_zero, Nat.mul_one]
    have : decide (cy ≤ cx) = decide (cy < cx) := by rw [decide_eq_decide]; omega
    rw [this, fin_step s cx cy hne']
  · simp only [hab, decide_false, Bool.false_eq_true, if_false]
    by_cases hlt : b < a
    · -- exponent of x larger: x scaled
      have e1 : b - a = 0 := by omega
      have hle1 : b ≤ a := by omega
      have hle2 : ¬ a ≤ b := by omega
      simp only [e1, Nat.pow_zero, Nat.mul_one, hle1, hle2, decide_true, decide_false, Bool.and_true, Bool.and_false,
        Bool.false_eq_true, if_false]
      have hX := le_scale cx (a - b)
      by_cases hc : cy < cx
      · have r1 : cy < cx * 10 ^ (a - b) := by omega
        have r2 : ¬ cx * 10 ^ (a - b) < cy := by omega
        simp only [hc, decide_true, if_true, r1, r2, decide_false]
        cases s <;> rfl
      · simp only [hc, decide_false, Bool.false_eq_true, if_false]
        have g0 : ex - ey > 0 := by rw [int32_gt_lit, d1]; show (0 : Int) < _; omega
        rw [if_pos g0]
        by_cases h33 : ex - ey > 33
        · rw [if_pos h33]
          rw [int32_gt_lit, d1, show (33 : Int32).toInt = 33 from rfl] at h33
          have r1 := big_gap cx cy (a - b) px ly (by omega)
          have r2 : ¬ cx * 10 ^ (a - b) < cy := by omega
          simp only [r1, r2, decide_true, decide_false]
          cases s <;> rfl
        · rw [if_neg h33]
          rw [int32_gt_lit, d1, show (33 : Int32).toInt = 33 from rfl] at h33
          by_cases h19 : ex - ey > 19
          · rw [if_pos h19]
            rw [int32_gt_lit, d1, show (19 : Int32).toInt = 19 from rfl] at h19
            obtain ⟨t, r, ht, hr, rv⟩ := scale256 (ex - ey) (a - b) (by rw [d1]; omega) (by omega) (by omega) sx
            simp only [bind, Except.bind, ht, hr, eq256, gt256, rv, hcx, hcy]
            by_cases hE : cy = cx * 10 ^ (a - b)
            · simp only [hE, decide_true, if_true, Nat.lt_irrefl, decide_false, ite_self]
            · simp only [hE, decide_false, Bool.false_eq_true, if_false]
              rw [fin_step s _ _ (Ne.symm hE)]
          · rw [if_neg h19]
            rw [int32_gt_lit, d1, show (19 : Int32).toInt = 19 from rfl] at h19
            obtain ⟨t, r, ht, hr, rv⟩ := scale192 (ex - ey) (a - b) (by rw [d1]; omega) (by omega) sx
            simp only [bind, Except.bind, ht, hr, eq192, gt192, rv, hcx, hcy]
            by_cases hE : cy = cx * 10 ^ (a - b)
            · simp only [hE, decide_true, if_true, Nat.lt_irrefl, decide_false, ite_self]
            · simp only [hE, decide_false, Bool.false_eq_true, if_false]
              rw [fin_step s _ _ (Ne.symm hE)]
    · -- exponent of y larger: y scaled
      have hlt' : a < b := by omega
      have e1 : a - b = 0 := by omega
      have hle1 : ¬ b ≤ a := by omega
      have hle2 : a ≤ b := by omega
      simp only [e1, Nat.pow_zero, Nat.mul_one, hle1, hle2, decide_true, decide_false, Bool.and_true, Bool.and_false,
        Bool.false_eq_true, if_false]
      have hY := le_scale cy (b - a)
      by_cases hc : cx < cy
      · have r1 : cx < cy * 10 ^ (b - a) := by omega
        have r2 : ¬ cy * 10 ^ (b - a) < cx := by omega
        simp only [hc, decide_true, if_true, r1, r2, decide_false]
        cases s <;> rfl
      · simp only [hc, decide_false, Bool.false_eq_true, if_false]
        have g0 : ¬ ex - ey > 0 := by rw [int32_gt_lit, d1]; show ¬ (0 : Int) < _; omega
        rw [if_neg g0]
        by_cases h33 : ey - ex > 33
        · rw [if_pos h33]
          rw [int32_gt_lit, d2, show (33 : Int32).toInt = 33 from rfl] at h33
          have r1 := big_gap cy cx (b - a) py lx (by omega)
          have r2 : ¬ cy * 10 ^ (b - a) < cx := by omega
          simp only [r1, r2, decide_true, decide_false]
          cases s <;> rfl
        · rw [if_neg h33]
          rw [int32_gt_lit, d2, show (33 : Int32).toInt = 33 from rfl] at h33
          by_cases h19 : ey - ex > 19
          · rw [if_pos h19]
            rw [int32_gt_lit, d2, show (19 : Int32).toInt = 19 from rfl] at h19
            obtain ⟨t, r, ht, hr, rv⟩ := scale256 (ey - ex) (b - a) (by rw [d2]; omega) (by omega) (by omega) sy
            simp only [bind, Except.bind, ht, hr, eq256, gt256', rv, hcx, hcy]
            by_cases hE : cx = cy * 10 ^ (b - a)
            · simp only [hE, decide_true, if_true, Nat.lt_irrefl, decide_false, ite_self]
            · simp only [hE, decide_false, Bool.false_eq_true, if_false]
              rw [fin_step' s _ _ (Ne.symm hE)]
          · rw [if_neg h19]
            rw [int32_gt_lit, d2, show (19 : Int32).toInt = 19 from rfl] at h19
            obtain ⟨t, r, ht, hr, rv⟩ := scale192 (ey - ex) (b - a) (by rw [d2]; omega) (by omega) sy
            simp only [bind, Except.bind, ht, hr, eq192, gt192', rv, hcx, hcy]
            by_cases hE : cx = cy * 10 ^ (b - a)
            · simp only [hE, decide_true, if_true, Nat.lt_irrefl, decide_false, ite_self]
            · simp only [hE, decide_false, Bool.false_eq_true, if_false]
              rw [fin_step' s _ _ (Ne.symm hE)]


/-- two finite patterns with the same sign bit, exponent field and coefficient field are the same pattern -/
theorem same_fields (x y : U128) (hs : negW x.w1.toNat = negW y.w1.toNat) (he : expW x.w1.toNat = expW y.w1.toNat)
    (hc : sigW x.w1.toNat x.w0.toNat = sigW y.w1.toNat y.w0.toNat) : x = y := by
  rw [u128_eq_iff]
  have h1 := x.w1.toNat_lt; have h2 := x.w0.toNat_lt; have h3 := y.w1.toNat_lt; have h4 := y.w0.toNat_lt
  unfold negW at hs
  rw [decide_eq_decide] at hs
  unfold expW at he
  unfold sigW at hc
  omega

/-- **`bid128_quiet_greater`, all pairs of 128-bit patterns, every incoming status word**: the result is true iff the decoded
first operand is numerically greater than the second (`cmpD … = some .gt`; false if a NaN is involved); the outgoing status
word is the incoming one with `invalid` or-ed in iff an operand is a signalling NaN; the routine never panics. -/
theorem quiet_greater_spec (x y : U128) (f : UInt32) :
    bid128_quiet_greater x y f =
      .ok (cmpD (decode (bitsOf x)) (decode (bitsOf y)) == some .gt, flagsOut f (decode (bitsOf x)) (decode (bitsOf y))) := by
  rcases quiet_greater_reduce x y f with h | ⟨hx, hy, hxy, hs, h⟩
  · exact h
  · rw [h]
    obtain ⟨dx, px, lx⟩ := nzFin_decode x hx
    obtain ⟨dy, py, ly⟩ := nzFin_decode y hy
    rw [dx, dy, flagsOut_eq, hs]
    simp only [Datum.isSNaN, Bool.or_self, Bool.false_eq_true, if_false, cmpD, beq_some_gt]
    rw [← val128_sigF] at px lx py ly
    have hne : expW x.w1.toNat = expW y.w1.toNat → val128 (sigF x) ≠ val128 (sigF y) := by
      intro he hc
      rw [val128_sigF, val128_sigF] at hc
      exact hxy (same_fields x y hs he hc)
    rw [gtTail_spec _ _ _ _ _ f _ _ (expF_toInt x.w1) (expF_toInt y.w1) (expW_lt _) (expW_lt _) px lx py ly hne]
    show _ = Except.ok (decide (cmpFin _ _ ((expW x.w1.toNat : Nat) - (6176 : Int)) _ _
      ((expW y.w1.toNat : Nat) - (6176 : Int)) = Ordering.gt), f)
    rw [cmpFin_gt_same, val128_sigF, val128_sigF]

theorem quiet_greater_table (x y : U128) (f : UInt32) :
    ∃ b, bid128_quiet_greater x y f = .ok (b, f ||| UInt32.ofNat (quietCmpFlags (decode (bitsOf x)) (decode (bitsOf y)))) ∧
      predTable "greater" (cmpD (decode (bitsOf x)) (decode (bitsOf y))) = some b :=
  ⟨_, quiet_greater_spec x y f, rfl⟩

/-- on finite operands (zeros included): true iff the exact rational value of the first is larger; no flag is touched -/
theorem quiet_greater_value (x y : U128) (f : UInt32) (sx : Bool) (cx : Nat) (ex : Int) (sy : Bool) (cy : Nat) (ey : Int)
    (hx : decode (bitsOf x) = .fin sx cx ex) (hy : decode (bitsOf y) = .fin sy cy ey) :
    ∃ b, bid128_quiet_greater x y f = .ok (b, f) ∧ (b = true ↔ fval sy cy ey < fval sx cx ex) := by
  refine ⟨cmpD (.fin sx cx ex) (.fin sy cy ey) == some .gt, ?_, ?_⟩
  · rw [quiet_greater_spec, flagsOut_eq, hx, hy]; rfl
  · simp only [cmpD, beq_some_gt, decide_eq_true_eq]
    exact cmpFin_gt_iff ..

-- 10 × 10^-1 against 1: not greater (64 × 128 path); 10^25 + 1 against 1 × 10^25: greater (128 × 128 path), and the
-- negated pair the other way round; 1 × 10^40 against 9: greater (far apart)
example : bid128_quiet_greater ⟨10, 0x303e000000000000⟩ ⟨1, 0x3040000000000000⟩ 0 = .ok (false, 0) := by rfl
example : bid128_quiet_greater ⟨0x161401484a000001, 0x3040000000084595⟩ ⟨1, 0x3072000000000000⟩ 0 = .ok (true, 0) := by rfl
example : bid128_quiet_greater ⟨0x161401484a000001, 0xb040000000084595⟩ ⟨1, 0xb072000000000000⟩ 0 = .ok (false, 0) := by rfl
example : bid128_quiet_greater ⟨1, 0xb072000000000000⟩ ⟨0x161401484a000001, 0xb040000000084595⟩ 0 = .ok (true, 0) := by rfl
example : bid128_quiet_greater ⟨1, 0x3090000000000000⟩ ⟨9, 0x3040000000000000⟩ 0 = .ok (true, 0) := by rfl
example : ∃ b, bid128_quiet_greater ⟨0x161401484a000001, 0x3040000000084595⟩ ⟨1, 0x3072000000000000⟩ 7 = .ok (b, 7) ∧
    (b = true ↔ fval false 1 25 < fval false (10^25 + 1) 0) :=
  quiet_greater_value _ _ _ _ _ _ _ _ _ (by decide +kernel) (by decide +kernel)


end Dec.C03GenCompare
