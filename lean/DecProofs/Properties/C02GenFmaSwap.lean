/-
  C02GenFmaSwap — block "Swap" of the fused multiply-add `bid128_ext_fma` (bid128_fma.rs), as translated in `DecGen/Code.lean`
  (`Dec.Gen.Code.bid128_ext_fma`):
    * CASE (7), Rust lines 3208–3371 of the task description (3275–3438 at the present HEAD, after the repairs of Case (1″B)): `delta = q3 + e3 − q4 − e4 < 0`, and after `delta = −delta`: `p34 < q4 && q4 <= delta` —
      the product has more than 34 digits and the addend lies entirely below its last digit;
    * THE SWAP, Rust lines 3372–3412 (now 3439–3479): Cases (8), (9), (10), (13), (14), (18) exchange product and addend and `continue` the
      `'delta_ge_zero` loop.

  HOW IT IS DONE.  The text of the two pieces is copied literally out of `DecGen/Code.lean` into `case7K` (parameters: the
  live variables at the entry) and `swapCond` / `swapK` (continuation = the next pass of the loop).  `case7K` is the chain of
  four stages, `roundK`, `expK`, `adjK`, `tailK`, which are again literal text (`case7K_eq`, by `rfl`).

  THEOREMS.
   general (useful to the other blocks; nothing of this file is needed to use them):
    * `finish_rounded` — from ONE rounding at a known exponent to `Dec.finish`, through `finish_eq_iff` / `FinishSpecStrict`:
      if the exact magnitude `N·10^e3` is no multiple of `10^(e3+d)`, at least `10^33·10^(e3+d)`, and `c2·10^e2` is `N/10^d`
      rounded in the mode and normalised to 34 digits, then `finish mode neg N 1 e3 pref` is `(± c2·10^e2, inexact)`, or the
      overflow result with overflow + inexact when `e2 > emax`.  No preferred exponent, no underflow.
    * `step_norm`, `correction_spec'` — `correction_spec` of C02GenCorrection with the extra conclusion that the result is
      normalised (exponent raised only with coefficient `10^33`) and not tiny, for callers that never hand over a `10^33` lying
      above the exact value.
    * `addFin_dom` — the model's sum when the first term dominates; `addFin_comm` — the model's sum is symmetric.
   the swap:
    * `swapK_eq` (by `rfl`) — the ten variables after the swap.
    * `swapCond_cases`, `swapCond_iff` — the test of the branch is the disjunction of the six case tests, and for
      `delta ≥ 0` it holds EXACTLY when `q4 ≤ 34`.  `case7Cond_iff` — the test of Case (7).
    * `cond9_is_cond2`, `cond10_is_cond3`, `cond14_is_cond5` (by `rfl`), `cond13_is_cond4`, `cond18_is_cond6` — after the swap the
      tests of Cases (9), (10), (13), (14), (18) are literally the tests of Cases (2), (3), (4), (5), (6).
    * `swap_lands` — the second pass takes the `delta ≥ 0` branch; old Case (8) lands in Case (1) or (`delta = 34` and the
      test on the exponent failing) in Case (1′)/(1″); the others fail the tests of Case (1) and of `p34 == delta` and pass
      the five-way test of Cases (2)–(6) (`mid26`) with (9)↦(2), (10)↦(3), (13)↦(4), (14)↦(5), (18)↦(6).
    * `swap_coeff`, `swap_spec` — the new `C3` is the product (it fits: the two high words of `C4` are zero), the new `C4` is
      the addend; the invariant of the case blocks holds again with the roles exchanged.  With `addFin_comm`: a block that
      is correct for (1)–(6) on the mirrored state is correct for (8), (9), (10), (13), (14), (18).
   Case (7):
    * `roundK_spec` — stage 1: the helper for the size of `C4` (`bid_round128_19_38`, `bid_round192_39_57`,
      `bid_round256_58_76`: always `x = q4 − 34 ≥ 24` there, inside the domain where the latter is proved) returns the product
      rounded to 34 digits, `incr_exp` and the indicators (`C02RoundHelpers.Spec`).
    * `adjF`, `adjK_A`, `adjK_B`, `adjK_C`, `adjK_D`, `adjK_spec` — stage 2 as translated computes the function `adjF` on
      numbers (tables `BID_MIDPOINT64/128` never indexed out of range).
    * `adj_math` (cases `adj_exact`, `adj_below`, `adj_above`, `adj_midUp`, `adj_midDown`) — the mathematics: after stage 2
      coefficient, exponent and indicators are the delivery of the NEAREST-EVEN rounding of the exact sum `C4·10^(e4−e3) ± C3`
      with truthful indicators (`Good`, `Pos`), including the corner `C4 = 10^(q4−1)`, opposite signs, where the sum drops
      below the decade (`delta = 35`: the addend is compared with half a unit; `delta > 35`: it is below).
    * `tailK_spec` — stage 3: overflow to infinity in nearest-even, packing, `bid_rounding_correction` for the other modes,
      inexact.
    * `case7_spec` — THE BLOCK SPECIFICATION: under the entry invariant and the case condition the block returns `.ok` of the
      encoding of `addFin` (product, addend) — one rounding in the mode asked for —, the status word `f ||| flags` of the model,
      and four indicators that say where the exact sum lies relative to its nearest-even rounding.
      `case7_fma` — the same against `fmaD` (`C4 = c1·c2`, `e4 = e1 + e2`, `ps = s1 xor s2`).
      `case7_spec_vars` — the same with the routine's own variables (`q3`, `q4`, `p34`, sign words) and the case test as the
      code writes it, for the assembly.

  FINDINGS / REMARKS (no deviation from `fmaD` in this block: `case7_spec` holds for all inputs of the case).
    * On this path `*pfpsf` is NOT cleared and restored (that happens only on the `z = 0` path): flags are or-ed into the
      incoming word directly.  The specification is the same: `f ||| flags`.
    * The result of Case (7) is never exact, never tiny: `e4 ≥ q3 + e3 ≥ −6175`, so the result exponent is at least −6175; the
      only exceptional outcome is overflow.
    * In the directed modes the word handed to `bid_rounding_correction` can carry a TRUNCATED exponent field (`e4 + 6176 ≥
      2^14` when `e4 > 10207`; the mask `MASK_EXP` also keeps the shifted bit 14 away from the sign bit).  Harmless: the
      correction takes the exponent from its own argument `unbexp` and rebuilds the word (`packW`, `tailK_spec`).
    * The inner wrap of the `is_midpoint_lt_even` branch (`res = 10^33 − 1 ↦ 10^34 − 1`, `e4 − 1`, Rust line 3381 at the present HEAD) is NOT
      dead code: it is reached exactly when the helper carried (`C4 / 10^x0 = 10^34 − ½`, delivered as `10^33` with
      `incr_exp`) and the signs differ (`adj_midUp`).
    * AFTER THE SWAP the variable `e3` holds `e1 + e2`, which can lie anywhere in `[−12352, 12222]` — below `emin` and above
      `emax` — and `z_exp` holds whatever `p_exp` was (`0` when `e1 + e2 < −6176`; a field of 15 bits when `e1 + e2 > 10207`).  The
      blocks for Cases (1)–(6) must be proved for such an "addend" (`swap_spec` states exactly what they may assume).
-/
import DecGen.Code
import DecModel.Round
import DecModel.Arith
import DecProofs.Core.RoundInt
import DecProofs.Core.Finish
import DecProofs.Core.FinishUnique
import DecProofs.Properties.C02RoundHelpers
import DecProofs.Properties.C02GenRound
import DecProofs.Properties.C02GenCorrection
import DecProofs.Properties.C08GenRiNearest
import Mathlib.Tactic.Ring
import Mathlib.Tactic.Linarith

set_option linter.unusedVariables false

namespace Dec.C02GenFmaSwap
open Dec.Rs Dec.Gen.Code


open Dec Dec.C03GenCompare Dec.C02GenCorrection
open Dec.C02GenRound (v128 v192 v256)

/-! ## 0. General lemmas: `finish` from one rounding; the correction, normalised -/

/-- **from one rounding at a known exponent to `finish`.**  Let the exact magnitude be `N·10^e3`, not a multiple of
`10^(e3+d)` and at least `10^33·10^(e3+d)`, with `e3 + d ≥ eMin`; let `c2·10^e2` be the rounding of `N/10^d` to an integer
(in units of `10^(e3+d)`), renormalised to 34 digits (`e2 = e3+d`, or `e2 = e3+d+1` and `c2 = 10^33` after a carry).  Then
`finish` delivers `c2·10^e2` with inexact — or overflows when `e2 > eMax`. -/
theorem finish_rounded (mode : Mode) (neg : Bool) (N d : Nat) (e3 pref : Int) (c2 : Nat) (e2 : Int)
    (hlo : P33 * 10 ^ d ≤ N) (hnd : ¬ 10 ^ d ∣ N) (hef : eMin ≤ e3 + d)
    (hc2 : c2 < P34) (h1 : e3 + d ≤ e2) (h2 : e2 ≤ e3 + d + 1) (hn : e2 = e3 + d + 1 → c2 = P33)
    (hR : RoundedInt mode neg N (10 ^ d) (c2 * 10 ^ (e2 - (e3 + d)).toNat)) :
    finish mode neg N 1 e3 pref =
      if eMax < e2 then (overflowResult mode neg, fOverflow ||| fInexact) else (.fin neg c2 e2, fInexact) := by
  have hD : 0 < 10 ^ d := Nat.pow_pos (by decide)
  have hN : 0 < N := lt_of_lt_of_le (Nat.mul_pos (by decide) hD) hlo
  rw [finish_eq_iff mode neg N 1 e3 pref hN (by decide)]
  generalize hef' : e3 + (d : Int) = ef at *
  have hDq : (0 : ℚ) < ((10 ^ d : Nat) : ℚ) := by exact_mod_cast hD
  obtain ⟨U, hU⟩ : ∃ U : ℚ, U = (N : ℚ) / ((10 ^ d : Nat) : ℚ) := ⟨_, rfl⟩
  have hRt : RoundedTo mode neg U (c2 * 10 ^ (e2 - ef).toNat) := by
    rw [hU]; exact RoundedTo_of_RoundedInt hD hR
  have hvU : (N : ℚ) / ((1 : Nat) : ℚ) * (10 : ℚ) ^ e3 = U * (10 : ℚ) ^ ef := by
    rw [hU, ← hef', zpow_add₀ ten_ne, zpow_natCast, Nat.cast_pow, Nat.cast_one, div_one]
    have : ((10 : ℚ) ^ d) ≠ 0 := pow_ne_zero _ ten_ne
    push_cast
    field_simp
  rw [hvU]
  have hUlo : ((P33 : Nat) : ℚ) ≤ U := by
    rw [hU, le_div_iff₀ hDq]; exact_mod_cast hlo
  have hU0 : 0 ≤ U := le_trans (Nat.cast_nonneg _) hUlo
  have hdiv : ∀ x : Int, U * (10 : ℚ) ^ ef / (10 : ℚ) ^ x = U * (10 : ℚ) ^ (ef - x) := by
    intro x; rw [mul_div_assoc, ← zpow_sub₀ ten_ne]
  have hbig : ∀ x : Int, x < ef → ((P34 : Nat) : ℚ) ≤ U * (10 : ℚ) ^ (ef - x) := by
    intro x hx
    have : (10 : ℚ) ^ (1 : ℤ) ≤ (10 : ℚ) ^ (ef - x) := zpow_le_zpow_right₀ one_lt_ten.le (by omega)
    rw [zpow_one] at this
    rw [P34_cast_ten]
    calc 10 * ((P33 : Nat) : ℚ) = ((P33 : Nat) : ℚ) * 10 := mul_comm _ _
      _ ≤ U * (10 : ℚ) ^ (ef - x) := mul_le_mul hUlo this (by norm_num) hU0
  have hnm : ¬ IsMember (U * (10 : ℚ) ^ ef) := by
    rintro ⟨m, x, hr, hval⟩
    rw [fval_false] at hval
    have hx := member_ge_x0 hr hval (Or.inr (by rw [← P33_cast]; exact hUlo))
    have hi := member_int hx hval
    rw [hU, div_eq_iff hDq.ne'] at hi
    have : N = m * 10 ^ (x - ef).toNat * 10 ^ d := by exact_mod_cast hi
    exact hnd ⟨m * 10 ^ (x - ef).toNat, by rw [this, Nat.mul_comm]⟩
  -- the carried case
  have hcar : e2 = ef + 1 → RoundedTo mode neg U P34 := by
    intro h
    have := hn h
    rw [this, h, show ef + 1 - ef = 1 by omega] at hRt
    exact hRt
  by_cases hov : eMax < e2
  · rw [if_pos hov]
    refine Or.inr (Or.inr ⟨hnm, rfl, ?_⟩)
    rw [hdiv]
    have h0 : 0 ≤ U * (10 : ℚ) ^ (ef - eMax) := mul_nonneg hU0 (zpow_pos ten_pos _).le
    obtain ⟨M, hM⟩ := RoundedTo_exists mode neg h0
    refine ⟨M, hM, ?_⟩
    by_cases he : eMax < ef
    · exact RoundedTo_ge (hbig _ he) hM
    · have e1 : ef = eMax := by omega
      rw [e1, sub_self, zpow_zero, mul_one] at hM
      rw [RoundedTo_unique hM (hcar (by omega))]
  · rw [if_neg hov]
    refine Or.inr (Or.inl ⟨hnm, c2, e2, ?_, hc2, by omega, by omega, ?_, ?_⟩)
    · have : ¬ U * (10 : ℚ) ^ ef < (10 : ℚ) ^ (-6143 : ℤ) := by
        rw [not_lt]
        have a : (10 : ℚ) ^ (-6143 : ℤ) = (10 : ℚ) ^ (33 : ℤ) * (10 : ℚ) ^ eMin := by
          rw [← zpow_add₀ ten_ne]; rfl
        have b : (10 : ℚ) ^ eMin ≤ (10 : ℚ) ^ ef := zpow_le_zpow_right₀ one_lt_ten.le hef
        rw [a, ← P33_cast]
        exact mul_le_mul hUlo b (zpow_pos ten_pos _).le hU0
      rw [if_neg this]
    · rw [hdiv]
      by_cases he : e2 = ef
      · rw [he, sub_self, zpow_zero, mul_one]
        rw [he, sub_self, Int.toNat_zero, pow_zero, Nat.mul_one] at hRt
        exact hRt
      · have he' : e2 = ef + 1 := by omega
        have := RoundedTo_carry (hcar he')
        rw [hn he', he', show ef - (ef + 1) = -1 by omega, zpow_neg, zpow_one, ← div_eq_mul_inv]
        exact this
    · intro x' M hx1 hx2 hM
      rw [hdiv] at hM
      by_cases he : x' < ef
      · exact RoundedTo_ge (hbig _ he) hM
      · have e1 : x' = ef := by omega
        rw [e1, sub_self, zpow_zero, mul_one] at hM
        rw [RoundedTo_unique hM (hcar (by omega))]


/-- the unit step of `bid_rounding_correction` keeps the result normalised: the exponent is raised only together with the
coefficient `10^33`; and nothing is tiny when `10^33` itself is never lowered -/
theorem step_norm (up down : Bool) (cf : Nat) (ef : Int) (hcf : cf ≤ P34) (hup : up = true → cf < P34)
    (hlow : up = false → down = true → cf ≠ P33) (hef : -6176 ≤ ef) :
    ((stepC up down (deliver cf ef).1 (deliver cf ef).2).2.1 = ef + 1 →
        (stepC up down (deliver cf ef).1 (deliver cf ef).2).1 = P33) ∧
    (stepC up down (deliver cf ef).1 (deliver cf ef).2).2.2 = false := by
  have e34 : P34 = 10000000000000000000000000000000000 := rfl
  have e33 : P33 = 1000000000000000000000000000000000 := rfl
  unfold deliver stepC
  by_cases h34 : cf = P34
  · simp only [h34, if_true]
    cases up
    · cases down
      · simp
      · simp only [Bool.false_eq_true, if_false, if_true]
        rw [if_pos (by omega)]
        refine ⟨fun h => ?_, rfl⟩
        simp only [] at h; omega
    · exact absurd (hup rfl) (by omega)
  · simp only [h34, if_false]
    cases up
    · cases down
      · simp only [Bool.false_eq_true, if_false, and_true]
        intro h; omega
      · have h33 := hlow rfl rfl
        simp only [Bool.false_eq_true, if_false, if_true]
        rw [if_neg h33]
        refine ⟨fun h => ?_, rfl⟩
        simp only [] at h; omega
    · simp only [if_true]
      by_cases hw : cf + 1 = P34
      · rw [if_pos hw]; exact ⟨fun _ => rfl, rfl⟩
      · rw [if_neg hw]
        refine ⟨fun h => ?_, rfl⟩
        simp only [] at h; omega

/-- `correction_spec` of C02GenCorrection once more, for callers that never hand over a `10^33` lying above the exact value
(`hlow`): then nothing is tiny, and the result is NORMALISED — the exponent is raised only together with the coefficient
`10^33` (what `finish` delivers) -/
theorem correction_spec' (m : RoundingMode) (L G ML MG : Bool) (e : Int32) (res : U128) (f : UInt32)
    (V D cf : Nat) (ef : Int) (hD : 0 < D)
    (hne : RoundedInt .rne (negW res.w1.toNat) V D cf)
    (hL : L = decide (cf * D < V ∧ 2 * V < 2 * (cf * D) + D)) (hG : G = decide (V < cf * D ∧ 2 * (cf * D) < 2 * V + D))
    (hML : ML = decide (2 * V + D = 2 * (cf * D))) (hMG : MG = decide (2 * V = 2 * (cf * D) + D))
    (hcf : cf ≤ P34) (hcarry : cf = P34 → V ≤ cf * D) (hlow : V < cf * D → cf ≠ P33)
    (hef1 : -6176 ≤ ef) (hef2 : ef < 26590)
    (hc : sigW res.w1.toNat res.w0.toNat = (deliver cf ef).1) (he : e.toInt = (deliver cf ef).2) :
    ∃ (c2 : Nat) (e2 : Int),
      bid_rounding_correction m L G ML MG e res f =
        .ok (ofBits (encode (if 6111 < e2 then ovfDatum m (negW res.w1.toNat) else .fin (negW res.w1.toNat) c2 e2)),
             outF (L || G || ML || MG) false (decide (6111 < e2)) f) ∧
      RoundedInt (modeOf m) (negW res.w1.toNat) V D (c2 * 10 ^ (e2 - ef).toNat) ∧
      ef ≤ e2 ∧ e2 ≤ ef + 1 ∧ c2 < P34 ∧ (e2 = ef + 1 → c2 = P33) := by
  have e34 : P34 = 10000000000000000000000000000000000 := rfl
  have e33 : P33 = 1000000000000000000000000000000000 := rfl
  generalize hs : negW res.w1.toNat = s at *
  have htab := table_correct m s V D cf L G ML MG hD hne hL hG hML hMG
  have upV : upD m s L MG = true → cf * D < V := by
    intro h
    subst hL hMG
    cases m <;> cases s <;> simp only [upD, Bool.not_true, Bool.not_false, Bool.false_and, Bool.true_and, Bool.or_eq_true,
      decide_eq_true_eq, Bool.false_eq_true] at h <;> omega
  have dnV : downD m s G ML = true → V < cf * D := by
    intro h
    subst hG hML
    cases m <;> cases s <;> simp only [downD, Bool.not_true, Bool.not_false, Bool.false_and, Bool.true_and, Bool.or_eq_true,
      decide_eq_true_eq, Bool.false_eq_true] at h <;> omega
  have hup : upD m s L MG = true → cf < P34 := by
    intro h
    have := upV h
    by_contra hcon
    have := hcarry (by omega)
    omega
  have hpos : upD m s L MG = false → downD m s G ML = true → 0 < cf := by
    intro _ h
    have := dnV h
    exact Nat.pos_of_ne_zero (fun h0 => by rw [h0, Nat.zero_mul] at this; omega)
  obtain ⟨v1, v2, v3, v4, _⟩ := step_value (upD m s L MG) (downD m s G ML) cf ef hcf hup hpos
    (fun _ h h33 => absurd h33 (hlow (dnV h))) hef1
  obtain ⟨w1, w2⟩ := step_norm (upD m s L MG) (downD m s G ML) cf ef hcf hup (fun _ h => hlow (dnV h)) hef1
  have hd1 : (deliver cf ef).1 < P34 := by unfold deliver; split <;> simp only [] <;> omega
  have hd2 : -6176 ≤ (deliver cf ef).2 ∧ (deliver cf ef).2 < 26592 := by unfold deliver; split <;> simp only [] <;> omega
  have hpos' : upD m (negW res.w1.toNat) L MG = false → downD m (negW res.w1.toNat) G ML = true → 0 < (deliver cf ef).1 := by
    rw [hs]
    intro a b
    have := hpos a b
    unfold deliver; split <;> simp only [] <;> omega
  have hev := correction_eval m L G ML MG e res f _ _ he hd2.1 hd2.2 hc hd1 hpos'
  rw [hs, outW_eq, hs, w2] at hev
  refine ⟨_, _, hev, ?_, v2, v3, v4, w1⟩
  rw [v1, ← corrI_eq]; exact htab


/-! ## 1. The text of the block -/

/-- Case (7) of `bid128_ext_fma` (bid128_fma.rs lines 3208–3371; DecGen/Code.lean, the `then` branch of
`if ((decide (p34 < q4)) && (decide (q4 ≤ delta)))` after `delta := (-delta)`): the literal text, the live variables at
the entry as parameters (`delta` is the negated one, `e4_`/`pfpsf_`/the five Booleans the values at the entry). -/
def case7K (q3 q4 e4_ delta p34 : Int32) (z_sign p_sign : UInt64) (C3 : U128) (C4 : U256) (rnd_mode : RoundingMode)
    (incr_exp_ is_midpoint_lt_even_ is_midpoint_gt_even_ is_inexact_lt_midpoint_ is_inexact_gt_midpoint_ : Bool)
    (pfpsf_ : UInt32) : Except String (U128 × Bool × Bool × Bool × Bool × UInt32) := do
  let mut e4 : Int32 := e4_
  let mut incr_exp : Bool := incr_exp_
  let mut is_midpoint_lt_even : Bool := is_midpoint_lt_even_
  let mut is_midpoint_gt_even : Bool := is_midpoint_gt_even_
  let mut is_inexact_lt_midpoint : Bool := is_inexact_lt_midpoint_
  let mut is_inexact_gt_midpoint : Bool := is_inexact_gt_midpoint_
  let mut pfpsf : UInt32 := pfpsf_
  let mut ptr_is_midpoint_lt_even : Bool := default
  let mut ptr_is_midpoint_gt_even : Bool := default
  let mut ptr_is_inexact_lt_midpoint : Bool := default
  let mut ptr_is_inexact_gt_midpoint : Bool := default
  let mut res : U128 := default
  let mut p_exp : UInt64 := default
  let mut x0 : Int32 := default
  let mut P128 : U128 := default
  let mut P192 : U192 := default
  let mut R192 : U192 := default
  let mut R256 : U256 := default
  x0 := (q4 - p34)
  if (decide (q4 ≤ (0x26 : Int32))) then
    P128 := { P128 with w1 := C4.w1 }
    P128 := { P128 with w0 := C4.w0 }
    let t__50 ← bid_round128_19_38 q4 x0 P128 incr_exp is_midpoint_lt_even is_midpoint_gt_even is_inexact_lt_midpoint is_inexact_gt_midpoint
    incr_exp := t__50.2.1
    is_midpoint_lt_even := t__50.2.2.1
    is_midpoint_gt_even := t__50.2.2.2.1
    is_inexact_lt_midpoint := t__50.2.2.2.2.1
    is_inexact_gt_midpoint := t__50.2.2.2.2.2
    res := t__50.1
  else
    if (decide (q4 ≤ (0x39 : Int32))) then
      P192 := { P192 with w2 := C4.w2 }
      P192 := { P192 with w1 := C4.w1 }
      P192 := { P192 with w0 := C4.w0 }
      let t__51 ← bid_round192_39_57 q4 x0 P192 incr_exp is_midpoint_lt_even is_midpoint_gt_even is_inexact_lt_midpoint is_inexact_gt_midpoint
      incr_exp := t__51.2.1
      is_midpoint_lt_even := t__51.2.2.1
      is_midpoint_gt_even := t__51.2.2.2.1
      is_inexact_lt_midpoint := t__51.2.2.2.2.1
      is_inexact_gt_midpoint := t__51.2.2.2.2.2
      R192 := t__51.1
      res := { res with w0 := R192.w0 }
      res := { res with w1 := R192.w1 }
    else
      let t__52 ← bid_round256_58_76 q4 x0 C4 incr_exp is_midpoint_lt_even is_midpoint_gt_even is_inexact_lt_midpoint is_inexact_gt_midpoint
      incr_exp := t__52.2.1
      is_midpoint_lt_even := t__52.2.2.1
      is_midpoint_gt_even := t__52.2.2.2.1
      is_inexact_lt_midpoint := t__52.2.2.2.2.1
      is_inexact_gt_midpoint := t__52.2.2.2.2.2
      R256 := t__52.1
      res := { res with w0 := R256.w0 }
      res := { res with w1 := R256.w1 }
  e4 := (e4 + x0)
  if incr_exp then
    e4 := (e4 + 1)
  if ((((!is_midpoint_lt_even) && (!is_midpoint_gt_even)) && (!is_inexact_lt_midpoint)) && (!is_inexact_gt_midpoint)) then
    if (p_sign == z_sign) then
      is_inexact_lt_midpoint := true
    else
      if ((res.w1 != (0x314dc6448d93 : UInt64)) || (res.w0 != (0x38c15b0a00000000 : UInt64))) then
        is_inexact_gt_midpoint := true
      else
        if (decide (delta > (p34 + (1 : Int32)))) then
          is_inexact_gt_midpoint := true
        else
          if (decide (q3 ≤ (0x13 : Int32))) then
            let t__53 : UInt64 := (← tbl64 Dec.Gen.BID_MIDPOINT64 (UInt64.ofInt (toI ((q3 - (1 : Int32))))))
            if (let value := t__53; (decide (C3.w0 < value))) then
              let mut value : UInt64 := t__53
              is_inexact_gt_midpoint := true
            else
              if (let value := t__53; (C3.w0 == value)) then
                let mut value : UInt64 := t__53
                is_midpoint_lt_even := true
              else
                res := { res with w1 := (0x1ed09bead87c0 : UInt64) }
                res := { res with w0 := (0x378d8e63ffffffff : UInt64) }
                e4 := (e4 - 1)
                is_inexact_lt_midpoint := true
          else
            if (← (if (decide (C3.w1 < (← tbl128 Dec.Gen.BID_MIDPOINT128 (UInt64.ofInt (toI ((q3 - (0x14 : Int32)))))).w1)) then pure true else (do pure ((← (if (C3.w1 == (← tbl128 Dec.Gen.BID_MIDPOINT128 (UInt64.ofInt (toI ((q3 - (0x14 : Int32)))))).w1) then (do pure (decide (C3.w0 < (← tbl128 Dec.Gen.BID_MIDPOINT128 (UInt64.ofInt (toI ((q3 - (0x14 : Int32)))))).w0))) else pure false)))))) then
              is_inexact_gt_midpoint := true
            else
              if (← (if (C3.w1 == (← tbl128 Dec.Gen.BID_MIDPOINT128 (UInt64.ofInt (toI ((q3 - (0x14 : Int32)))))).w1) then (do pure (C3.w0 == (← tbl128 Dec.Gen.BID_MIDPOINT128 (UInt64.ofInt (toI ((q3 - (0x14 : Int32)))))).w0)) else pure false)) then
                is_midpoint_lt_even := true
              else
                res := { res with w1 := (0x1ed09bead87c0 : UInt64) }
                res := { res with w0 := (0x378d8e63ffffffff : UInt64) }
                e4 := (e4 - 1)
                is_inexact_lt_midpoint := true
  else
    if is_midpoint_lt_even then
      if (z_sign != p_sign) then
        res := { res with w0 := (res.w0 - 1) }
        if (res.w0 == (0xffffffffffffffff : UInt64)) then
          res := { res with w1 := (res.w1 - 1) }
        if ((res.w1 == (0x314dc6448d93 : UInt64)) && (res.w0 == (0x38c15b09ffffffff : UInt64))) then
          res := { res with w1 := (0x1ed09bead87c0 : UInt64) }
          res := { res with w0 := (0x378d8e63ffffffff : UInt64) }
          e4 := (e4 - 1)
        is_midpoint_lt_even := false
        is_inexact_lt_midpoint := true
      else
        is_midpoint_lt_even := false
        is_inexact_gt_midpoint := true
    else
      if is_midpoint_gt_even then
        if (z_sign == p_sign) then
          res := { res with w0 := (res.w0 + 1) }
          if (res.w0 == (0 : UInt64)) then
            res := { res with w1 := (res.w1 + 1) }
          is_midpoint_gt_even := false
          is_inexact_gt_midpoint := true
        else
          is_midpoint_gt_even := false
          is_inexact_lt_midpoint := true
      else
        pure ()
  if ((rnd_mode == RoundingMode.NearestEven) && (decide (e4 > c_EXP_MAX_UNBIASED))) then
    res := { res with w1 := (p_sign ||| (0x7800000000000000 : UInt64)) }
    res := { res with w0 := (0 : UInt64) }
    pfpsf := (pfpsf ||| (c_StatusFlags_BID_OVERFLOW_EXCEPTION ||| c_StatusFlags_BID_INEXACT_EXCEPTION))
  else
    p_exp := (((UInt64.ofInt (toI ((e4 + (0x1820 : Int32)))))) <<< 0x31)
    res := { res with w1 := (res.w1 ||| (p_sign ||| ((p_exp &&& c_MASK_EXP)))) }
  if (rnd_mode != RoundingMode.NearestEven) then
    let t__54 ← bid_rounding_correction rnd_mode is_inexact_lt_midpoint is_inexact_gt_midpoint is_midpoint_lt_even is_midpoint_gt_even e4 res pfpsf
    res := t__54.1
    pfpsf := t__54.2
  if (((is_inexact_lt_midpoint || is_inexact_gt_midpoint) || is_midpoint_lt_even) || is_midpoint_gt_even) then
    pfpsf := (pfpsf ||| c_StatusFlags_BID_INEXACT_EXCEPTION)
  ptr_is_midpoint_lt_even := is_midpoint_lt_even
  ptr_is_midpoint_gt_even := is_midpoint_gt_even
  ptr_is_inexact_lt_midpoint := is_inexact_lt_midpoint
  ptr_is_inexact_gt_midpoint := is_inexact_gt_midpoint
  return (res, ptr_is_midpoint_lt_even, ptr_is_midpoint_gt_even, ptr_is_inexact_lt_midpoint, ptr_is_inexact_gt_midpoint, pfpsf)

/-- the test of the swap branch, literally (Cases (8), (9), (10), (13), (14), (18) in this order) -/
def swapCond (q3 q4 delta p34 : Int32) : Bool :=
  ((((((((decide (q4 ≤ p34)) && (decide (p34 ≤ delta)))) || ((((decide (q4 ≤ delta)) && (decide (delta < p34))) && (decide (p34 < (delta + q3)))))) || (((decide (q4 ≤ delta)) && (decide ((delta + q3) ≤ p34))))) || ((((decide (delta < q4)) && (decide (q4 ≤ p34))) && (decide (p34 < (delta + q3)))))) || ((((decide (delta < q4)) && (decide (q4 ≤ (delta + q3)))) && (decide ((delta + q3) ≤ p34))))) || (((decide ((delta + q3) < q4)) && (decide (q4 ≤ p34)))))

/-- the swap (lines 3372–3412), literally, followed by the rest of the loop body as a continuation (`continue`: the next
pass of the `'delta_ge_zero` loop with the new values of the ten variables) -/
def swapK {α : Type} (q3_ q4_ e3_ e4_ : Int32) (z_sign_ p_sign_ z_exp_ p_exp_ : UInt64) (C3_ : U128) (C4_ : U256)
    (k : Int32 → Int32 → Int32 → Int32 → UInt64 → UInt64 → UInt64 → UInt64 → U128 → U256 → Except String α) :
    Except String α := do
  let mut q3 : Int32 := q3_
  let mut q4 : Int32 := q4_
  let mut e3 : Int32 := e3_
  let mut e4 : Int32 := e4_
  let mut z_sign : UInt64 := z_sign_
  let mut p_sign : UInt64 := p_sign_
  let mut z_exp : UInt64 := z_exp_
  let mut p_exp : UInt64 := p_exp_
  let mut C3 : U128 := C3_
  let mut C4 : U256 := C4_
  let mut P128 : U128 := default
  let mut ind : Int32 := default
  let mut tmp_sign : UInt64 := default
  let mut tmp : F64U := default
  P128 := { P128 with w1 := C3.w1 }
  P128 := { P128 with w0 := C3.w0 }
  C3 := { C3 with w1 := C4.w1 }
  C3 := { C3 with w0 := C4.w0 }
  C4 := { C4 with w1 := P128.w1 }
  C4 := { C4 with w0 := P128.w0 }
  ind := q3
  q3 := q4
  q4 := ind
  ind := e3
  e3 := e4
  e4 := ind
  tmp_sign := z_sign
  z_sign := p_sign
  p_sign := tmp_sign
  tmp := (⟨z_exp⟩ : F64U)
  z_exp := p_exp
  p_exp := tmp.bits
  k q3 q4 e3 e4 z_sign p_sign z_exp p_exp C3 C4

/-! ## 2. The swap: Cases (8), (9), (10), (13), (14), (18) -/

open Dec.C08GenRoundIntegral (i32_add i32_sub i32_neg u64_of_i32)

/-- the swap exchanges the ten variables (the two high words of `C4` stay: they are zero, `swap_C3`) -/
theorem swapK_eq {α : Type} (q3 q4 e3 e4 : Int32) (z_sign p_sign z_exp p_exp : UInt64) (C3 : U128) (C4 : U256)
    (k : Int32 → Int32 → Int32 → Int32 → UInt64 → UInt64 → UInt64 → UInt64 → U128 → U256 → Except String α) :
    swapK q3 q4 e3 e4 z_sign p_sign z_exp p_exp C3 C4 k =
      k q4 q3 e4 e3 p_sign z_sign p_exp z_exp ⟨C4.w0, C4.w1⟩ ⟨C3.w0, C3.w1, C4.w2, C4.w3⟩ := rfl

/-! the tests of the first pass (`delta ≥ 0` branch of the loop), literally -/

/-- line 4626 of DecGen/Code.lean: Case (1) -/
def case1Cond (q3 e3 delta p34 : Int32) : Bool :=
  ((decide (p34 ≤ (delta - (1 : Int32)))) || (((p34 == delta) && (decide ((e3 + (0x1820 : Int32)) < (p34 - q3))))))

/-- the five-way disjunction of line 5036: Cases (2), (3), (4), (5), (6) -/
def mid26 (q3 q4 delta p34 : Int32) : Bool :=
  (((((((((decide (q3 ≤ delta)) && (decide (delta < p34))) && (decide (p34 < (delta + q4))))) || (((decide (q3 ≤ delta)) && (decide ((delta + q4) ≤ p34))))) || (((decide (delta < q3)) && (decide (p34 < (delta + q4)))))) || ((((decide (delta < q3)) && (decide (q3 ≤ (delta + q4)))) && (decide ((delta + q4) ≤ p34))))) || ((decide ((delta + q4) < q3)))))

/-- the single tests, as the code writes them -/
def cond2 (q3 q4 delta p34 : Int32) : Bool := (((decide (q3 ≤ delta)) && (decide (delta < p34))) && (decide (p34 < (delta + q4))))
def cond3 (q3 q4 delta p34 : Int32) : Bool := ((decide (q3 ≤ delta)) && (decide ((delta + q4) ≤ p34)))
def cond4 (q3 q4 delta p34 : Int32) : Bool := ((decide (delta < q3)) && (decide (p34 < (delta + q4))))
def cond5 (q3 q4 delta p34 : Int32) : Bool := (((decide (delta < q3)) && (decide (q3 ≤ (delta + q4)))) && (decide ((delta + q4) ≤ p34)))
def cond6 (q3 q4 delta : Int32) : Bool := (decide ((delta + q4) < q3))
def cond8 (q4 delta p34 : Int32) : Bool := ((decide (q4 ≤ p34)) && (decide (p34 ≤ delta)))
def cond9 (q3 q4 delta p34 : Int32) : Bool := (((decide (q4 ≤ delta)) && (decide (delta < p34))) && (decide (p34 < (delta + q3))))
def cond10 (q3 q4 delta p34 : Int32) : Bool := ((decide (q4 ≤ delta)) && (decide ((delta + q3) ≤ p34)))
def cond13 (q3 q4 delta p34 : Int32) : Bool := (((decide (delta < q4)) && (decide (q4 ≤ p34))) && (decide (p34 < (delta + q3))))
def cond14 (q3 q4 delta p34 : Int32) : Bool := (((decide (delta < q4)) && (decide (q4 ≤ (delta + q3)))) && (decide ((delta + q3) ≤ p34)))
def cond18 (q3 q4 delta p34 : Int32) : Bool := ((decide ((delta + q3) < q4)) && (decide (q4 ≤ p34)))

theorem swapCond_cases (q3 q4 delta p34 : Int32) : swapCond q3 q4 delta p34 =
    (cond8 q4 delta p34 || cond9 q3 q4 delta p34 || cond10 q3 q4 delta p34 || cond13 q3 q4 delta p34 || cond14 q3 q4 delta p34
      || cond18 q3 q4 delta p34) := rfl

theorem mid26_cases (q3 q4 delta p34 : Int32) : mid26 q3 q4 delta p34 =
    (cond2 q3 q4 delta p34 || cond3 q3 q4 delta p34 || cond4 q3 q4 delta p34 || cond5 q3 q4 delta p34 || cond6 q3 q4 delta) := rfl

/-- after the swap (`q3' = q4`, `q4' = q3`) the tests of Cases (9), (10), (14) ARE the tests of Cases (2), (3), (5) -/
theorem cond9_is_cond2 (q3 q4 delta p34 : Int32) : cond9 q3 q4 delta p34 = cond2 q4 q3 delta p34 := rfl
theorem cond10_is_cond3 (q3 q4 delta p34 : Int32) : cond10 q3 q4 delta p34 = cond3 q4 q3 delta p34 := rfl
theorem cond14_is_cond5 (q3 q4 delta p34 : Int32) : cond14 q3 q4 delta p34 = cond5 q4 q3 delta p34 := rfl
/-- … and those of Cases (13), (18) are the tests of Cases (4), (6) together with `q4 ≤ p34` -/
theorem cond13_is_cond4 (q3 q4 delta p34 : Int32) : cond13 q3 q4 delta p34 = (cond4 q4 q3 delta p34 && decide (q4 ≤ p34)) := by
  unfold cond13 cond4; rw [Bool.and_right_comm]
theorem cond18_is_cond6 (q3 q4 delta p34 : Int32) : cond18 q3 q4 delta p34 = (cond6 q4 q3 delta && decide (q4 ≤ p34)) := rfl

/-- the tests as statements about integers -/
structure Rng (q3 q4 delta : Int32) : Prop where
  q3lo : 1 ≤ q3.toInt
  q3hi : q3.toInt ≤ 68
  q4lo : 1 ≤ q4.toInt
  q4hi : q4.toInt ≤ 68
  dlo : 0 ≤ delta.toInt
  dhi : delta.toInt < 2^19

theorem i34 : (34 : Int32).toInt = 34 := rfl

/-- `delta + q` without wrap -/
theorem dq (delta q : Int32) (h1 : 0 ≤ delta.toInt) (h2 : delta.toInt < 2^19) (h3 : 1 ≤ q.toInt) (h4 : q.toInt ≤ 68) :
    (delta + q).toInt = delta.toInt + q.toInt :=
  i32_add _ _ ⟨by omega, by omega⟩ ⟨by omega, by omega⟩

/-- **the swap branch is taken exactly when the product has at most 34 digits** (given that `delta`, negated, is not
negative): Cases (8), (9), (10), (13), (14), (18) together are `q4 ≤ 34` -/
theorem swapCond_iff (q3 q4 delta : Int32) (r : Rng q3 q4 delta) :
    swapCond q3 q4 delta 34 = decide (q4.toInt ≤ 34) := by
  have a := dq delta q3 r.dlo r.dhi r.q3lo r.q3hi
  obtain ⟨r1, r2, r3, r4, r5, r6⟩ := r
  rw [Bool.eq_iff_iff]
  simp only [swapCond, Bool.or_eq_true, Bool.and_eq_true, decide_eq_true_eq, Int32.le_iff_toInt_le, Int32.lt_iff_toInt_lt, a, i34]
  omega

/-- Case (7) and the swap exclude each other, and Case (7) is `34 < q4 ≤ delta` -/
theorem case7Cond_iff (q3 q4 delta : Int32) :
    ((decide ((34 : Int32) < q4)) && (decide (q4 ≤ delta))) = decide (34 < q4.toInt ∧ q4.toInt ≤ delta.toInt) := by
  rw [Bool.eq_iff_iff]
  simp only [Bool.and_eq_true, decide_eq_true_eq, Int32.le_iff_toInt_le, Int32.lt_iff_toInt_lt, i34]

/-- **where the second pass lands.**  After the swap the loop body is entered again with `q3' = q4 ≤ 34` (the product, now in
the place of the addend), `q4' = q3` (the addend, now in the place of the product) and the same `delta`, which is
`q3' + e3' − q4' − e4'` and not negative: the pass takes the `delta ≥ 0` branch, and
  * old Case (8) (`34 ≤ delta`): Case (1) or, for `delta = 34` with the test on `e3'` failing, Case (1') / (1'');
  * otherwise (`delta < 34`): not Case (1), not `p34 == delta`, and the five-way test of Cases (2)–(6) holds, with
    (9) ↦ (2), (10) ↦ (3), (13) ↦ (4), (14) ↦ (5), (18) ↦ (6) (`cond9_is_cond2` … `cond18_is_cond6`: the same tests, literally). -/
theorem swap_lands (q3 q4 e4 delta : Int32) (r : Rng q3 q4 delta) (h4 : q4.toInt ≤ 34) :
    decide (delta ≥ (0 : Int32)) = true ∧
    (cond8 q4 delta 34 = true → (case1Cond q4 e4 delta 34 = true ∨ ((34 : Int32) == delta) = true)) ∧
    (cond8 q4 delta 34 = false → case1Cond q4 e4 delta 34 = false ∧ ((34 : Int32) == delta) = false ∧
        mid26 q4 q3 delta 34 = true ∧
        cond2 q4 q3 delta 34 = cond9 q3 q4 delta 34 ∧ cond3 q4 q3 delta 34 = cond10 q3 q4 delta 34 ∧
        cond4 q4 q3 delta 34 = cond13 q3 q4 delta 34 ∧ cond5 q4 q3 delta 34 = cond14 q3 q4 delta 34 ∧
        cond6 q4 q3 delta = cond18 q3 q4 delta 34) := by
  have a := dq delta q3 r.dlo r.dhi r.q3lo r.q3hi
  have r1 := r.q3lo; have r2 := r.q3hi; have r3 := r.q4lo; have r5 := r.dlo; have r6 := r.dhi
  have hq4 : decide (q4 ≤ (34 : Int32)) = true := by
    rw [decide_eq_true_eq, Int32.le_iff_toInt_le, i34]; exact h4
  have hsub : (delta - 1).toInt = delta.toInt - 1 :=
    i32_sub _ _ ⟨by have := r.dlo; omega, by have := r.dhi; omega⟩ ⟨by decide, by decide⟩
  have hbeq : ((34 : Int32) == delta) = decide (delta.toInt = 34) := by
    rw [Bool.eq_iff_iff, beq_iff_eq, decide_eq_true_eq, ← Int32.toInt_inj, i34]
    constructor <;> intro h <;> omega
  refine ⟨?_, ?_, ?_⟩
  · rw [decide_eq_true_eq, ge_iff_le, Int32.le_iff_toInt_le]; exact r.dlo
  · intro h8
    simp only [cond8, Bool.and_eq_true, decide_eq_true_eq, Int32.le_iff_toInt_le, i34] at h8
    rw [hbeq]
    simp only [case1Cond, hbeq, Bool.or_eq_true, Bool.and_eq_true, decide_eq_true_eq, Int32.le_iff_toInt_le, hsub, i34]
    omega
  · intro h8
    have hd : delta.toInt < 34 := by
      rw [← Bool.not_eq_true] at h8
      simp only [cond8, Bool.and_eq_true, decide_eq_true_eq, Int32.le_iff_toInt_le, i34] at h8
      omega
    refine ⟨?_, ?_, ?_, (cond9_is_cond2 _ _ _ _).symm, (cond10_is_cond3 _ _ _ _).symm, ?_, (cond14_is_cond5 _ _ _ _).symm, ?_⟩
    · rw [← Bool.not_eq_true]
      simp only [case1Cond, hbeq, Bool.or_eq_true, Bool.and_eq_true, decide_eq_true_eq, Int32.le_iff_toInt_le, hsub, i34]
      omega
    · rw [hbeq, decide_eq_false_iff_not]; omega
    · rw [mid26]
      simp only [Bool.or_eq_true, Bool.and_eq_true, decide_eq_true_eq, Int32.le_iff_toInt_le, Int32.lt_iff_toInt_lt, a, i34]
      omega
    · rw [cond13_is_cond4, hq4, Bool.and_true]
    · rw [cond18_is_cond6, hq4, Bool.and_true]

/-- the coefficients after the swap: a product of at most 34 digits fits the two low words (the two high words of `C4` are
zero, so exchanging the low halves exchanges the numbers) -/
theorem swap_coeff (C3 : U128) (C4 : U256) (h : v256 C4 < 10 ^ 34) :
    C4.w2 = 0 ∧ C4.w3 = 0 ∧ v128 ⟨C4.w0, C4.w1⟩ = v256 C4 ∧ v256 ⟨C3.w0, C3.w1, C4.w2, C4.w3⟩ = v128 C3 := by
  have h0 := C4.w0.toNat_lt; have h1 := C4.w1.toNat_lt
  unfold v256 at h
  have a : C4.w2.toNat = 0 := by omega
  have b : C4.w3.toNat = 0 := by omega
  refine ⟨UInt64.toNat_inj.1 a, UInt64.toNat_inj.1 b, ?_, ?_⟩
  · unfold v128 v256; simp only []; omega
  · unfold v128 v256; simp only []; omega

/-- **the swap, as a whole.**  ENTRY: the invariant of the case blocks with `delta` already negated (`delta = q4 + e4 − q3 − e3
≥ 0`), a product of at most 34 digits (`swapCond_iff`: exactly then the branch is taken).  The loop body is re-entered with
the ten variables exchanged; the new `C3'` is the product (`q3' = q4` digits, exponent `e3' = e4 = e1 + e2`: it may lie
OUTSIDE `[−6176, 6111]`, down to −12352 and up to 12222, and `z_exp'` is whatever `p_exp` was), the new `C4'` is the addend
with two zero high words (`q4' = q3` digits, `e4' = e3`), the signs are exchanged, and `delta = q3' + e3' − q4' − e4'` is
not negative — the invariant of Cases (1)–(6) with the roles of product and addend exchanged. -/
theorem swap_spec {α : Type} (q3 q4 e3 e4 delta : Int32) (z_sign p_sign z_exp p_exp : UInt64) (C3 : U128) (C4 : U256)
    (k : Int32 → Int32 → Int32 → Int32 → UInt64 → UInt64 → UInt64 → UInt64 → U128 → U256 → Except String α)
    (r : Rng q3 q4 delta) (h4 : q4.toInt ≤ 34) (hC4 : v256 C4 < 10 ^ 34)
    (hd : delta.toInt = q4.toInt + e4.toInt - q3.toInt - e3.toInt) :
    swapCond q3 q4 delta 34 = true ∧
    ∃ (C3' : U128) (C4' : U256),
      swapK q3 q4 e3 e4 z_sign p_sign z_exp p_exp C3 C4 k = k q4 q3 e4 e3 p_sign z_sign p_exp z_exp C3' C4' ∧
      v128 C3' = v256 C4 ∧ v256 C4' = v128 C3 ∧ C4'.w2 = 0 ∧ C4'.w3 = 0 ∧
      delta.toInt = q4.toInt + e4.toInt - q3.toInt - e3.toInt ∧ decide (delta ≥ (0 : Int32)) = true := by
  obtain ⟨a, b, c, d⟩ := swap_coeff C3 C4 hC4
  refine ⟨by rw [swapCond_iff q3 q4 delta r]; exact decide_eq_true h4, ⟨C4.w0, C4.w1⟩, ⟨C3.w0, C3.w1, C4.w2, C4.w3⟩,
    swapK_eq .., c, d, a, b, hd, (swap_lands q3 q4 e4 delta r h4).1⟩

-- (9) ↦ (2): q3 = 30, q4 = 10, delta = 12: `q4 ≤ delta < 34 < delta + q3`
example : swapCond 30 10 12 34 = true ∧ cond9 30 10 12 34 = true ∧ cond2 10 30 12 34 = true ∧ mid26 10 30 12 34 = true ∧
    case1Cond 10 0 12 34 = false := by decide
-- (8) ↦ (1): q4 = 20 ≤ 34 ≤ delta = 50
example : swapCond 5 20 50 34 = true ∧ cond8 20 50 34 = true ∧ case1Cond 20 0 50 34 = true := by decide
-- (18) ↦ (6): delta + q3 = 3 + 4 < q4 = 20
example : swapCond 4 20 3 34 = true ∧ cond18 4 20 3 34 = true ∧ cond6 20 4 3 = true := by decide
-- a 40-digit product: no swap (Case (7) if `40 ≤ delta`, else Cases (11), (12), (15)–(17))
example : swapCond 4 40 3 34 = false ∧ swapCond 4 40 50 34 = false := by decide
-- the swap itself
example : swapK (α := Nat) 1 2 3 4 5 6 7 8 ⟨9, 10⟩ ⟨11, 12, 0, 0⟩ (fun q3 q4 e3 e4 zs ps ze pe C3 C4 =>
      .ok (q3.toNatClampNeg + C3.w0.toNat + C4.w1.toNat)) = .ok (2 + 11 + 10) := by decide

/-! ## 3. Case (7): the stages -/

/-- stage 1: the product `C4` (35 to 68 digits) rounded to 34 digits by the helper for its size -/
def roundK {α : Type} (q4 x0 : Int32) (C4 : U256)
    (incr_exp_ is_midpoint_lt_even_ is_midpoint_gt_even_ is_inexact_lt_midpoint_ is_inexact_gt_midpoint_ : Bool)
    (k : U128 → Bool → Bool → Bool → Bool → Bool → Except String α) : Except String α := do
  let mut incr_exp : Bool := incr_exp_
  let mut is_midpoint_lt_even : Bool := is_midpoint_lt_even_
  let mut is_midpoint_gt_even : Bool := is_midpoint_gt_even_
  let mut is_inexact_lt_midpoint : Bool := is_inexact_lt_midpoint_
  let mut is_inexact_gt_midpoint : Bool := is_inexact_gt_midpoint_
  let mut res : U128 := default
  let mut P128 : U128 := default
  let mut P192 : U192 := default
  let mut R192 : U192 := default
  let mut R256 : U256 := default
  if (decide (q4 ≤ (0x26 : Int32))) then
    P128 := { P128 with w1 := C4.w1 }
    P128 := { P128 with w0 := C4.w0 }
    let t__50 ← bid_round128_19_38 q4 x0 P128 incr_exp is_midpoint_lt_even is_midpoint_gt_even is_inexact_lt_midpoint is_inexact_gt_midpoint
    incr_exp := t__50.2.1
    is_midpoint_lt_even := t__50.2.2.1
    is_midpoint_gt_even := t__50.2.2.2.1
    is_inexact_lt_midpoint := t__50.2.2.2.2.1
    is_inexact_gt_midpoint := t__50.2.2.2.2.2
    res := t__50.1
  else
    if (decide (q4 ≤ (0x39 : Int32))) then
      P192 := { P192 with w2 := C4.w2 }
      P192 := { P192 with w1 := C4.w1 }
      P192 := { P192 with w0 := C4.w0 }
      let t__51 ← bid_round192_39_57 q4 x0 P192 incr_exp is_midpoint_lt_even is_midpoint_gt_even is_inexact_lt_midpoint is_inexact_gt_midpoint
      incr_exp := t__51.2.1
      is_midpoint_lt_even := t__51.2.2.1
      is_midpoint_gt_even := t__51.2.2.2.1
      is_inexact_lt_midpoint := t__51.2.2.2.2.1
      is_inexact_gt_midpoint := t__51.2.2.2.2.2
      R192 := t__51.1
      res := { res with w0 := R192.w0 }
      res := { res with w1 := R192.w1 }
    else
      let t__52 ← bid_round256_58_76 q4 x0 C4 incr_exp is_midpoint_lt_even is_midpoint_gt_even is_inexact_lt_midpoint is_inexact_gt_midpoint
      incr_exp := t__52.2.1
      is_midpoint_lt_even := t__52.2.2.1
      is_midpoint_gt_even := t__52.2.2.2.1
      is_inexact_lt_midpoint := t__52.2.2.2.2.1
      is_inexact_gt_midpoint := t__52.2.2.2.2.2
      R256 := t__52.1
      res := { res with w0 := R256.w0 }
      res := { res with w1 := R256.w1 }
  k res incr_exp is_midpoint_lt_even is_midpoint_gt_even is_inexact_lt_midpoint is_inexact_gt_midpoint

/-- stage 2a: the exponent of the rounded product -/
def expK {α : Type} (e4_ x0 : Int32) (incr_exp : Bool) (k : Int32 → Except String α) : Except String α := do
  let mut e4 : Int32 := e4_
  e4 := (e4 + x0)
  if incr_exp then
    e4 := (e4 + 1)
  k e4

/-- stage 2b: the adjustment of the rounded product and of the indicators for the addend -/
def adjK {α : Type} (q3 delta p34 : Int32) (z_sign p_sign : UInt64) (C3 : U128) (res_ : U128) (e4_ : Int32)
    (is_midpoint_lt_even_ is_midpoint_gt_even_ is_inexact_lt_midpoint_ is_inexact_gt_midpoint_ : Bool)
    (k : U128 → Int32 → Bool → Bool → Bool → Bool → Except String α) : Except String α := do
  let mut e4 : Int32 := e4_
  let mut res : U128 := res_
  let mut is_midpoint_lt_even : Bool := is_midpoint_lt_even_
  let mut is_midpoint_gt_even : Bool := is_midpoint_gt_even_
  let mut is_inexact_lt_midpoint : Bool := is_inexact_lt_midpoint_
  let mut is_inexact_gt_midpoint : Bool := is_inexact_gt_midpoint_
  if ((((!is_midpoint_lt_even) && (!is_midpoint_gt_even)) && (!is_inexact_lt_midpoint)) && (!is_inexact_gt_midpoint)) then
    if (p_sign == z_sign) then
      is_inexact_lt_midpoint := true
    else
      if ((res.w1 != (0x314dc6448d93 : UInt64)) || (res.w0 != (0x38c15b0a00000000 : UInt64))) then
        is_inexact_gt_midpoint := true
      else
        if (decide (delta > (p34 + (1 : Int32)))) then
          is_inexact_gt_midpoint := true
        else
          if (decide (q3 ≤ (0x13 : Int32))) then
            let t__53 : UInt64 := (← tbl64 Dec.Gen.BID_MIDPOINT64 (UInt64.ofInt (toI ((q3 - (1 : Int32))))))
            if (let value := t__53; (decide (C3.w0 < value))) then
              let mut value : UInt64 := t__53
              is_inexact_gt_midpoint := true
            else
              if (let value := t__53; (C3.w0 == value)) then
                let mut value : UInt64 := t__53
                is_midpoint_lt_even := true
              else
                res := { res with w1 := (0x1ed09bead87c0 : UInt64) }
                res := { res with w0 := (0x378d8e63ffffffff : UInt64) }
                e4 := (e4 - 1)
                is_inexact_lt_midpoint := true
          else
            if (← (if (decide (C3.w1 < (← tbl128 Dec.Gen.BID_MIDPOINT128 (UInt64.ofInt (toI ((q3 - (0x14 : Int32)))))).w1)) then pure true else (do pure ((← (if (C3.w1 == (← tbl128 Dec.Gen.BID_MIDPOINT128 (UInt64.ofInt (toI ((q3 - (0x14 : Int32)))))).w1) then (do pure (decide (C3.w0 < (← tbl128 Dec.Gen.BID_MIDPOINT128 (UInt64.ofInt (toI ((q3 - (0x14 : Int32)))))).w0))) else pure false)))))) then
              is_inexact_gt_midpoint := true
            else
              if (← (if (C3.w1 == (← tbl128 Dec.Gen.BID_MIDPOINT128 (UInt64.ofInt (toI ((q3 - (0x14 : Int32)))))).w1) then (do pure (C3.w0 == (← tbl128 Dec.Gen.BID_MIDPOINT128 (UInt64.ofInt (toI ((q3 - (0x14 : Int32)))))).w0)) else pure false)) then
                is_midpoint_lt_even := true
              else
                res := { res with w1 := (0x1ed09bead87c0 : UInt64) }
                res := { res with w0 := (0x378d8e63ffffffff : UInt64) }
                e4 := (e4 - 1)
                is_inexact_lt_midpoint := true
  else
    if is_midpoint_lt_even then
      if (z_sign != p_sign) then
        res := { res with w0 := (res.w0 - 1) }
        if (res.w0 == (0xffffffffffffffff : UInt64)) then
          res := { res with w1 := (res.w1 - 1) }
        if ((res.w1 == (0x314dc6448d93 : UInt64)) && (res.w0 == (0x38c15b09ffffffff : UInt64))) then
          res := { res with w1 := (0x1ed09bead87c0 : UInt64) }
          res := { res with w0 := (0x378d8e63ffffffff : UInt64) }
          e4 := (e4 - 1)
        is_midpoint_lt_even := false
        is_inexact_lt_midpoint := true
      else
        is_midpoint_lt_even := false
        is_inexact_gt_midpoint := true
    else
      if is_midpoint_gt_even then
        if (z_sign == p_sign) then
          res := { res with w0 := (res.w0 + 1) }
          if (res.w0 == (0 : UInt64)) then
            res := { res with w1 := (res.w1 + 1) }
          is_midpoint_gt_even := false
          is_inexact_gt_midpoint := true
        else
          is_midpoint_gt_even := false
          is_inexact_lt_midpoint := true
      else
        pure ()
  k res e4 is_midpoint_lt_even is_midpoint_gt_even is_inexact_lt_midpoint is_inexact_gt_midpoint

/-- stage 3: overflow in nearest-even, packing, correction for the other modes, inexact -/
def tailK (p_sign : UInt64) (rnd_mode : RoundingMode) (res_ : U128) (e4 : Int32)
    (is_midpoint_lt_even is_midpoint_gt_even is_inexact_lt_midpoint is_inexact_gt_midpoint : Bool) (pfpsf_ : UInt32) :
    Except String (U128 × Bool × Bool × Bool × Bool × UInt32) := do
  let mut res : U128 := res_
  let mut pfpsf : UInt32 := pfpsf_
  let mut p_exp : UInt64 := default
  let mut ptr_is_midpoint_lt_even : Bool := default
  let mut ptr_is_midpoint_gt_even : Bool := default
  let mut ptr_is_inexact_lt_midpoint : Bool := default
  let mut ptr_is_inexact_gt_midpoint : Bool := default
  if ((rnd_mode == RoundingMode.NearestEven) && (decide (e4 > c_EXP_MAX_UNBIASED))) then
    res := { res with w1 := (p_sign ||| (0x7800000000000000 : UInt64)) }
    res := { res with w0 := (0 : UInt64) }
    pfpsf := (pfpsf ||| (c_StatusFlags_BID_OVERFLOW_EXCEPTION ||| c_StatusFlags_BID_INEXACT_EXCEPTION))
  else
    p_exp := (((UInt64.ofInt (toI ((e4 + (0x1820 : Int32)))))) <<< 0x31)
    res := { res with w1 := (res.w1 ||| (p_sign ||| ((p_exp &&& c_MASK_EXP)))) }
  if (rnd_mode != RoundingMode.NearestEven) then
    let t__54 ← bid_rounding_correction rnd_mode is_inexact_lt_midpoint is_inexact_gt_midpoint is_midpoint_lt_even is_midpoint_gt_even e4 res pfpsf
    res := t__54.1
    pfpsf := t__54.2
  if (((is_inexact_lt_midpoint || is_inexact_gt_midpoint) || is_midpoint_lt_even) || is_midpoint_gt_even) then
    pfpsf := (pfpsf ||| c_StatusFlags_BID_INEXACT_EXCEPTION)
  ptr_is_midpoint_lt_even := is_midpoint_lt_even
  ptr_is_midpoint_gt_even := is_midpoint_gt_even
  ptr_is_inexact_lt_midpoint := is_inexact_lt_midpoint
  ptr_is_inexact_gt_midpoint := is_inexact_gt_midpoint
  return (res, ptr_is_midpoint_lt_even, ptr_is_midpoint_gt_even, ptr_is_inexact_lt_midpoint, ptr_is_inexact_gt_midpoint, pfpsf)

/-- Case (7) is the chain of the stages (definitionally: they are its text) -/
theorem case7K_eq (q3 q4 e4 delta p34 : Int32) (z_sign p_sign : UInt64) (C3 : U128) (C4 : U256) (m : RoundingMode)
    (i a b c d : Bool) (f : UInt32) :
    case7K q3 q4 e4 delta p34 z_sign p_sign C3 C4 m i a b c d f =
      roundK q4 (q4 - p34) C4 i a b c d (fun res i a b c d =>
        expK e4 (q4 - p34) i (fun e4 =>
          adjK q3 delta p34 z_sign p_sign C3 res e4 a b c d (fun res e4 a b c d =>
            tailK p_sign m res e4 a b c d f))) := by
  rfl

theorem expK_eq {α : Type} (e4 x0 : Int32) (incr : Bool) (k : Int32 → Except String α) :
    expK e4 x0 incr k = k (if incr = true then e4 + x0 + 1 else e4 + x0) := by
  cases incr <;> rfl

/-! ## 4. Stage 3: packing, overflow, correction -/

/-- the sign word -/
def sgnW (s : Bool) : UInt64 := if s then 0x8000000000000000 else 0

theorem sgnW_toNat (s : Bool) : (sgnW s).toNat = (if s then 1 else 0) * 2^63 := by cases s <;> rfl

/-- the word the code packs: coefficient word, sign, and the exponent field (truncated to 14 bits: for exponents that do not
fit — reached in the directed modes before the correction — the field is garbage, but the correction takes the exponent
from its own argument) -/
theorem packW (w1 : UInt64) (s : Bool) (e : Int32) (E : Int) (he : e.toInt = E) (h1 : -6176 ≤ E) (h2 : E < 26592)
    (hw : w1.toNat < 2^49) :
    (w1 ||| (sgnW s ||| ((((UInt64.ofInt (toI (e + (0x1820 : Int32))))) <<< 0x31) &&& c_MASK_EXP))).toNat =
      (if s then 1 else 0) * 2^63 + ((E + 6176).toNat % 2^14) * 2^49 + w1.toNat := by
  have hf := expField e E he h1 h2
  have hm : ((((UInt64.ofInt (toI (e + (0x1820 : Int32))))) <<< 0x31) &&& c_MASK_EXP).toNat
      = ((E + 6176).toNat % 2^14) * 2^49 := by
    rw [toNat_and_field _ _ 14 49 (by decide), hf, Nat.mul_div_cancel _ (by decide)]
  rw [UInt64.toNat_or, UInt64.toNat_or, hm, sgnW_toNat, Nat.or_comm, Dec.C17GenNext.or3 _ _ _ (by split <;> omega)
    (Nat.mod_lt _ (by decide)) hw]


theorem mode_ne (m : RoundingMode) (hm : m ≠ .NearestEven) :
    (m == RoundingMode.NearestEven) = false ∧ (m != RoundingMode.NearestEven) = true := by
  cases m <;> first | exact absurd rfl hm | exact ⟨rfl, rfl⟩

theorem u32_or_28 (f : UInt32) : ((f ||| 0x20) ||| 0x28) ||| 0x20 = f ||| 0x28 := by
  rw [UInt32.or_assoc, UInt32.or_assoc]; rfl
theorem u32_or_20 (f : UInt32) : (f ||| 0x20) ||| 0x20 = f ||| 0x20 := by
  rw [UInt32.or_assoc]; rfl
theorem u32_or_828 (f : UInt32) : (f ||| (c_StatusFlags_BID_OVERFLOW_EXCEPTION ||| c_StatusFlags_BID_INEXACT_EXCEPTION)) |||
    c_StatusFlags_BID_INEXACT_EXCEPTION = f ||| 0x28 := by
  rw [UInt32.or_assoc]; rfl

/-- `v128` of a coefficient below `10^34`: the high word has no bit above bit 48 -/
theorem w1_small (res : U128) (c : Nat) (hc : v128 res = c) (hlt : c < P34) : res.w1.toNat < 2^49 := by
  have e34 : P34 = 10000000000000000000000000000000000 := rfl
  unfold v128 at hc; omega

/-- **stage 3.**  Handed the nearest-even rounding `cf` (as `deliver cf ef`: coefficient words, exponent) of the exact
magnitude `V/D` units of `10^ef` with truthful indicators, some indicator set: the result is the encoding of `± c2·10^e2`, the
exact value rounded ONCE in the mode asked for and normalised — or the mode's overflow result when `e2 > 6111` — with inexact
(and overflow) or-ed into the status word.  The indicators are returned as they came. -/
theorem tailK_spec (s : Bool) (m : RoundingMode) (res : U128) (e4 : Int32) (ML MG L G : Bool) (f : UInt32)
    (V D cf : Nat) (ef : Int) (hD : 0 < D)
    (hne : RoundedInt .rne s V D cf)
    (hL : L = decide (cf * D < V ∧ 2 * V < 2 * (cf * D) + D)) (hG : G = decide (V < cf * D ∧ 2 * (cf * D) < 2 * V + D))
    (hML : ML = decide (2 * V + D = 2 * (cf * D))) (hMG : MG = decide (2 * V = 2 * (cf * D) + D))
    (hany : (L || G || ML || MG) = true)
    (hcf : cf ≤ P34) (hcarry : cf = P34 → V ≤ cf * D) (hlow : V < cf * D → cf ≠ P33)
    (hef1 : -6176 ≤ ef) (hef2 : ef < 26590)
    (hc : v128 res = (deliver cf ef).1) (he : e4.toInt = (deliver cf ef).2) :
    ∃ (c2 : Nat) (e2 : Int),
      tailK (sgnW s) m res e4 ML MG L G f =
        .ok (ofBits (encode (if 6111 < e2 then overflowResult (modeOf m) s else .fin s c2 e2)), ML, MG, L, G,
             f ||| (if 6111 < e2 then 0x28 else 0x20)) ∧
      RoundedInt (modeOf m) s V D (c2 * 10 ^ (e2 - ef).toNat) ∧
      ef ≤ e2 ∧ e2 ≤ ef + 1 ∧ c2 < P34 ∧ (e2 = ef + 1 → c2 = P33) := by
  have e34 : P34 = 10000000000000000000000000000000000 := rfl
  have e33 : P33 = 1000000000000000000000000000000000 := rfl
  have hd1 : (deliver cf ef).1 < P34 := by unfold deliver; split <;> simp only [] <;> omega
  have hd2 : -6176 ≤ (deliver cf ef).2 ∧ (deliver cf ef).2 < 26592 := by unfold deliver; split <;> simp only [] <;> omega
  have hw := w1_small res _ hc hd1
  have hpk := packW res.w1 s e4 _ he hd2.1 hd2.2 hw
  by_cases hm : m = .NearestEven
  · subst hm
    refine ⟨(deliver cf ef).1, (deliver cf ef).2, ?_, ?_, ?_, ?_, hd1, ?_⟩
    · unfold tailK
      simp only [beq_self_eq_true, bne_self_eq_false, Bool.true_and, Bool.false_eq_true, if_false, i32_gt, he,
        show c_EXP_MAX_UNBIASED.toInt = 6111 from rfl, hany, if_true, bind, Except.bind, pure, Except.pure]
      by_cases ho : 6111 < (deliver cf ef).2
      · rw [if_pos (by simpa using ho), if_pos ho, if_pos ho, u32_or_828]
        refine congrArg Except.ok (Prod.ext ?_ rfl)
        show (⟨0, sgnW s ||| 0x7800000000000000⟩ : U128) = ofBits (encode (overflowResult (modeOf RoundingMode.NearestEven) s))
        cases s <;> decide +kernel
      · rw [if_neg (by simpa using ho), if_neg ho, if_neg ho]
        refine congrArg Except.ok (Prod.ext ?_ rfl)
        show (⟨res.w0, res.w1 ||| (sgnW s ||| ((((UInt64.ofInt (toI (e4 + (0x1820 : Int32))))) <<< 0x31) &&& c_MASK_EXP))⟩ : U128) = _
        apply Dec.C17GenNext.eq_ofBits
        show _ * 2^64 + _ = _
        rw [hpk, Nat.mod_eq_of_lt (by omega)]
        unfold v128 at hc
        unfold encode signBit
        cases s <;> simp only [Bool.false_eq_true, if_false, if_true] <;> omega
    · show RoundedInt .rne s V D _
      unfold deliver
      by_cases h : cf = P34
      · rw [if_pos h]
        simp only []
        rw [show ef + 1 - ef = 1 by omega, show P33 * 10 ^ (1 : Int).toNat = cf by rw [h]; rfl]
        exact hne
      · rw [if_neg h]
        simp only []
        rw [Int.sub_self, Int.toNat_zero, Nat.pow_zero, Nat.mul_one]
        exact hne
    · unfold deliver; split <;> simp only [] <;> omega
    · unfold deliver; split <;> simp only [] <;> omega
    · unfold deliver; split
      · intro _; rfl
      · simp only []; intro h; omega
  · obtain ⟨m1, m2⟩ := mode_ne m hm
    -- the word handed to the correction
    obtain ⟨W, hW⟩ : ∃ W : U128, W = ⟨res.w0, res.w1 ||| (sgnW s ||| ((((UInt64.ofInt (toI (e4 + (0x1820 : Int32))))) <<< 0x31) &&& c_MASK_EXP))⟩ := ⟨_, rfl⟩
    have hW1 : W.w1.toNat = (if s then 1 else 0) * 2^63 + (((deliver cf ef).2 + 6176).toNat % 2^14) * 2^49 + res.w1.toNat := by
      rw [hW]; exact hpk
    have hW0 : W.w0 = res.w0 := by rw [hW]
    have hneg : negW W.w1.toNat = s := by
      unfold negW; rw [hW1]
      have := Nat.mod_lt (((deliver cf ef).2 + 6176).toNat) (show 0 < 2^14 by decide)
      cases s <;> simp only [Bool.false_eq_true, if_false, if_true, decide_eq_true_eq, decide_eq_false_iff_not] <;> omega
    have hsig : sigW W.w1.toNat W.w0.toNat = (deliver cf ef).1 := by
      unfold sigW; rw [hW1, hW0, ← hc]; unfold v128
      have := Nat.mod_lt (((deliver cf ef).2 + 6176).toNat) (show 0 < 2^14 by decide)
      cases s <;> simp only [Bool.false_eq_true, if_false, if_true] <;> omega
    obtain ⟨c2, e2, h1, h2, h3, h4, h5, h6⟩ := correction_spec' m L G ML MG e4 W f V D cf ef hD (by rw [hneg]; exact hne)
      hL hG hML hMG hcf hcarry hlow hef1 hef2 hsig he
    rw [hneg] at h1 h2
    refine ⟨c2, e2, ?_, h2, h3, h4, h5, h6⟩
    unfold tailK
    simp only [m1, m2, Bool.false_and, if_false, if_true, Bool.false_eq_true]
    rw [← hW, h1]
    simp only [bind, Except.bind, pure, Except.pure, hany, if_true, ovfDatum_model m s hm]
    refine congrArg Except.ok (Prod.ext rfl (Prod.ext rfl (Prod.ext rfl (Prod.ext rfl (Prod.ext rfl ?_)))))
    unfold outF
    simp only [if_true, Bool.false_eq_true, if_false]
    by_cases ho : 6111 < e2
    · simp only [ho, decide_true, if_true]; exact u32_or_28 f
    · simp only [ho, decide_false, Bool.false_eq_true, if_false]; exact u32_or_20 f

/-! ## 5. Stage 1: the helper for the size of the product -/

open Dec.C02RoundHelpers (Spec rne rne_eq rne_rounded)

theorem ofNat_toInt (n : Nat) (h : n < 2^31) : (Int32.ofNat n).toInt = n := Int32.toInt_ofNat_of_lt h

theorem le_ofNat (n : Nat) (k : Int32) (kn : Nat) (hk : k.toInt = kn) (h : n < 2^31) :
    decide (Int32.ofNat n ≤ k) = decide (n ≤ kn) := by
  rw [decide_eq_decide, Int32.le_iff_toInt_le, ofNat_toInt n h, hk]; omega

/-- **stage 1**: for a product of `35 ≤ q4 ≤ 68` digits the helper chosen by the size returns the product rounded to 34 digits
(nearest-even), `incr_exp` and the four indicators as specified (`C02RoundHelpers.Spec`) -/
theorem roundK_spec {α : Type} (q4n : Nat) (C4 : U256) (h1 : 35 ≤ q4n) (h2 : q4n ≤ 68)
    (hlo : 10 ^ (q4n - 1) ≤ v256 C4) (hC : v256 C4 < 10 ^ q4n)
    (k : U128 → Bool → Bool → Bool → Bool → Bool → Except String α) :
    ∃ (res : U128) (incr lt gt ilt igt : Bool),
      roundK (Int32.ofNat q4n) (Int32.ofNat (q4n - 34)) C4 false false false false false k = k res incr lt gt ilt igt ∧
      Spec q4n (q4n - 34) (v256 C4) (v128 res) incr ⟨lt, gt, ilt, igt⟩ := by
  have e34 : (10:Nat) ^ (q4n - (q4n - 34)) = 10 ^ 34 := by congr 1; omega
  unfold roundK
  simp only [le_ofNat q4n 0x26 38 rfl (by omega), le_ofNat q4n 0x39 57 rfl (by omega)]
  have h0 := C4.w0.toNat_lt; have h1' := C4.w1.toNat_lt; have h2' := C4.w2.toNat_lt
  by_cases c1 : q4n ≤ 38
  · simp only [c1, decide_true, if_true]
    have hp : (10:Nat) ^ q4n ≤ 10 ^ 38 := Nat.pow_le_pow_right (by decide) c1
    have hv : v128 ⟨C4.w0, C4.w1⟩ = v256 C4 := by
      unfold v256 at hC ⊢; unfold v128; simp only []; omega
    obtain ⟨cs, incr, lt, gt, ilt, igt, hr, hs⟩ := Dec.C02GenRound.bid_round128_19_38_spec q4n (q4n - 34) ⟨C4.w0, C4.w1⟩
      (by omega) c1 (by omega) (by omega) (by rw [hv]; exact hC)
    rw [hv] at hs
    exact ⟨cs, incr, lt, gt, ilt, igt, by rw [hr]; rfl, hs⟩
  · simp only [c1, decide_false, if_false, Bool.false_eq_true]
    by_cases c2 : q4n ≤ 57
    · simp only [c2, decide_true, if_true]
      have hp : (10:Nat) ^ q4n ≤ 10 ^ 57 := Nat.pow_le_pow_right (by decide) c2
      have hv : v192 ⟨C4.w0, C4.w1, C4.w2⟩ = v256 C4 := by
        unfold v256 at hC ⊢; unfold v192; simp only []; omega
      obtain ⟨cs, incr, lt, gt, ilt, igt, hr, hs⟩ := Dec.C02GenRound.bid_round192_39_57_spec q4n (q4n - 34)
        ⟨C4.w0, C4.w1, C4.w2⟩ (by omega) c2 (by omega) (by omega) (by rw [hv]; exact hC)
      rw [hv] at hs
      have hd := (hs.digits (by omega) (by omega) hlo hC).2
      rw [e34] at hd
      have hcs : v128 ⟨cs.w0, cs.w1⟩ = v192 cs := by
        have := cs.w0.toNat_lt; have := cs.w1.toNat_lt
        unfold v192 at hd ⊢; unfold v128; simp only []; omega
      refine ⟨⟨cs.w0, cs.w1⟩, incr, lt, gt, ilt, igt, by rw [hr]; rfl, ?_⟩
      rw [hcs]; exact hs
    · simp only [c2, decide_false, if_false, Bool.false_eq_true]
      obtain ⟨cs, incr, lt, gt, ilt, igt, hr, hs⟩ := Dec.C02GenRound.bid_round256_58_76_spec q4n (q4n - 34) C4
        (by omega) (by omega) (by omega) (by omega) hC
      have hd := (hs.digits (by omega) (by omega) hlo hC).2
      rw [e34] at hd
      have hcs : v128 ⟨cs.w0, cs.w1⟩ = v256 cs := by
        have := cs.w0.toNat_lt; have := cs.w1.toNat_lt
        unfold v256 at hd ⊢; unfold v128; simp only []; omega
      refine ⟨⟨cs.w0, cs.w1⟩, incr, lt, gt, ilt, igt, by rw [hr]; rfl, ?_⟩
      rw [hcs]; exact hs

/-! ## 6. Stage 2: the adjustment for the addend, as a function on numbers -/

open Dec.RH (Ind)

/-- what stage 2 does, on numbers: `same` — product and addend have the same sign; `far` — `delta > 35`; `cmp` — the addend's
coefficient compared with `5·10^(q3−1)`; `c` the rounded product; result: new coefficient, change of the exponent, indicators -/
def adjF (same far : Bool) (cmp : Ordering) (c : Nat) (fl : Ind) : Nat × Int × Ind :=
  if (!fl.midLtEven && !fl.midGtEven && !fl.inexLtMid && !fl.inexGtMid) = true then
    if same = true then (c, 0, { fl with inexLtMid := true })
    else if c ≠ P33 then (c, 0, { fl with inexGtMid := true })
    else if far = true then (c, 0, { fl with inexGtMid := true })
    else match cmp with
      | .lt => (c, 0, { fl with inexGtMid := true })
      | .eq => (c, 0, { fl with midLtEven := true })
      | .gt => (P34 - 1, -1, { fl with inexLtMid := true })
  else if fl.midLtEven = true then
    if same = false then
      (if c - 1 = P33 - 1 then (P34 - 1, -1, { fl with midLtEven := false, inexLtMid := true })
       else (c - 1, 0, { fl with midLtEven := false, inexLtMid := true }))
    else (c, 0, { fl with midLtEven := false, inexGtMid := true })
  else if fl.midGtEven = true then
    if same = true then (c + 1, 0, { fl with midGtEven := false, inexGtMid := true })
    else (c, 0, { fl with midGtEven := false, inexLtMid := true })
  else (c, 0, fl)

theorem sgnW_beq (a b : Bool) : (sgnW a == sgnW b) = (a == b) := by cases a <;> cases b <;> rfl
theorem sgnW_bne (a b : Bool) : (sgnW a != sgnW b) = (a != b) := by cases a <;> cases b <;> rfl

theorem v128_mk (a b : UInt64) : v128 ⟨a, b⟩ = a.toNat + 2^64 * b.toNat := rfl

theorem w_P34m1 : v128 ⟨0x378d8e63ffffffff, 0x1ed09bead87c0⟩ = P34 - 1 := by decide +kernel

/-- the test "`res` is `10^33`" -/
theorem is_P33 (res : U128) :
    (res.w1 != (0x314dc6448d93 : UInt64) || res.w0 != (0x38c15b0a00000000 : UInt64)) = decide (v128 res ≠ P33) := by
  have e33 : P33 = 0x314dc6448d93 * 2^64 + 0x38c15b0a00000000 := by decide +kernel
  have h0 := res.w0.toNat_lt
  rw [Bool.eq_iff_iff]
  simp only [Bool.or_eq_true, bne_iff_ne, ne_eq, decide_eq_true_eq, ← UInt64.toNat_inj]
  rw [show (0x314dc6448d93 : UInt64).toNat = 0x314dc6448d93 from rfl,
    show (0x38c15b0a00000000 : UInt64).toNat = 0x38c15b0a00000000 from rfl, e33]
  unfold v128; omega

/-- the test "`res` is `10^33 − 1`" -/
theorem is_P33m1 (res : U128) :
    (res.w1 == (0x314dc6448d93 : UInt64) && res.w0 == (0x38c15b09ffffffff : UInt64)) = decide (v128 res = P33 - 1) := by
  have e33 : P33 - 1 = 0x314dc6448d93 * 2^64 + 0x38c15b09ffffffff := by decide +kernel
  have h0 := res.w0.toNat_lt
  rw [Bool.eq_iff_iff]
  simp only [Bool.and_eq_true, beq_iff_eq, decide_eq_true_eq, ← UInt64.toNat_inj]
  rw [show (0x314dc6448d93 : UInt64).toNat = 0x314dc6448d93 from rfl,
    show (0x38c15b09ffffffff : UInt64).toNat = 0x38c15b09ffffffff from rfl, e33]
  unfold v128; omega

/-- the two-word decrement -/
theorem dec128 (res : U128) (h : 1 ≤ v128 res) :
    v128 (if (res.w0 - 1 == (0xffffffffffffffff : UInt64)) = true then ⟨res.w0 - 1, res.w1 - 1⟩ else ⟨res.w0 - 1, res.w1⟩) =
      v128 res - 1 := by
  have h0 := res.w0.toNat_lt; have h1 := res.w1.toNat_lt
  have hb : (res.w0 - 1 == (0xffffffffffffffff : UInt64)) = decide (res.w0.toNat = 0) := by
    rw [Bool.eq_iff_iff, beq_iff_eq, decide_eq_true_eq, ← UInt64.toNat_inj, UInt64.toNat_sub,
      show (1 : UInt64).toNat = 1 from rfl, show (0xffffffffffffffff : UInt64).toNat = 2^64 - 1 from rfl]
    omega
  rw [hb]
  unfold v128 at h ⊢
  by_cases hz : res.w0.toNat = 0
  · rw [if_pos (by simpa using hz)]
    simp only [UInt64.toNat_sub, show (1 : UInt64).toNat = 1 from rfl]
    omega
  · rw [if_neg (by simpa using hz)]
    simp only [UInt64.toNat_sub, show (1 : UInt64).toNat = 1 from rfl]
    omega

/-- the two-word increment -/
theorem inc128 (res : U128) (h : v128 res + 1 < 2^128) :
    v128 (if (res.w0 + 1 == (0 : UInt64)) = true then ⟨res.w0 + 1, res.w1 + 1⟩ else ⟨res.w0 + 1, res.w1⟩) =
      v128 res + 1 := by
  have h0 := res.w0.toNat_lt; have h1 := res.w1.toNat_lt
  have hb : (res.w0 + 1 == (0 : UInt64)) = decide (res.w0.toNat = 2^64 - 1) := by
    rw [Bool.eq_iff_iff, beq_iff_eq, decide_eq_true_eq, ← UInt64.toNat_inj, UInt64.toNat_add,
      show (1 : UInt64).toNat = 1 from rfl, show (0 : UInt64).toNat = 0 from rfl]
    omega
  rw [hb]
  unfold v128 at h ⊢
  by_cases hz : res.w0.toNat = 2^64 - 1
  · rw [if_pos (by simpa using hz)]
    simp only [UInt64.toNat_add, show (1 : UInt64).toNat = 1 from rfl]
    omega
  · rw [if_neg (by simpa using hz)]
    simp only [UInt64.toNat_add, show (1 : UInt64).toNat = 1 from rfl]
    omega

/-- indicators already inexact: nothing changes -/
theorem adjK_D {α : Type} (q3 delta p34 : Int32) (z_sign p_sign : UInt64) (C3 res : U128) (e4 : Int32) (ilt igt : Bool)
    (h : (ilt || igt) = true) (k : U128 → Int32 → Bool → Bool → Bool → Bool → Except String α) :
    adjK q3 delta p34 z_sign p_sign C3 res e4 false false ilt igt k = k res e4 false false ilt igt := by
  unfold adjK
  cases ilt <;> cases igt <;> first | exact absurd h (by decide) | rfl

/-- `is_midpoint_gt_even` came back -/
theorem adjK_C {α : Type} (q3 delta p34 : Int32) (zs ps : Bool) (C3 res : U128) (e4 : Int32) (ilt igt : Bool)
    (hr : v128 res + 1 < 2^128) (k : U128 → Int32 → Bool → Bool → Bool → Bool → Except String α) :
    ∃ res', adjK q3 delta p34 (sgnW zs) (sgnW ps) C3 res e4 false true ilt igt k =
        k res' e4 false false (if ps == zs then ilt else true) (if ps == zs then true else igt) ∧
      v128 res' = if ps == zs then v128 res + 1 else v128 res := by
  unfold adjK
  simp only [Bool.not_true, Bool.not_false, Bool.and_false, Bool.false_and, Bool.false_eq_true, if_false, if_true, sgnW_beq]
  by_cases hs : zs = ps
  · subst hs
    simp only [beq_self_eq_true, if_true]
    refine ⟨_, ?_, inc128 res hr⟩
    by_cases hz : (res.w0 + 1 == (0 : UInt64)) = true
    · simp only [hz, if_true]
    · simp only [hz, if_false, Bool.false_eq_true]
  · have h1 : (zs == ps) = false := by simpa using hs
    have h2 : (ps == zs) = false := by rw [Bool.beq_comm]; exact h1
    simp only [h1, h2, Bool.false_eq_true, if_false]
    exact ⟨res, rfl, rfl⟩

/-- `is_midpoint_lt_even` came back -/
theorem adjK_B {α : Type} (q3 delta p34 : Int32) (zs ps : Bool) (C3 res : U128) (e4 : Int32) (gt ilt igt : Bool)
    (hr : 1 ≤ v128 res) (k : U128 → Int32 → Bool → Bool → Bool → Bool → Except String α) :
    ∃ res' e', adjK q3 delta p34 (sgnW zs) (sgnW ps) C3 res e4 true gt ilt igt k =
        k res' e' false gt (if ps == zs then ilt else true) (if ps == zs then true else igt) ∧
      v128 res' = (if ps == zs then v128 res else if v128 res - 1 = P33 - 1 then P34 - 1 else v128 res - 1) ∧
      e' = (if ps == zs then e4 else if v128 res - 1 = P33 - 1 then e4 - 1 else e4) := by
  unfold adjK
  simp only [Bool.not_true, Bool.false_and, Bool.false_eq_true, if_false, if_true, sgnW_bne]
  by_cases hs : zs = ps
  · subst hs
    simp only [bne_self_eq_false, beq_self_eq_true, Bool.false_eq_true, if_false, if_true]
    exact ⟨res, e4, rfl, rfl, rfl⟩
  · have h1 : (zs != ps) = true := by simpa using hs
    have h2 : (ps == zs) = false := by rw [Bool.beq_comm]; simpa using hs
    simp only [h1, h2, Bool.false_eq_true, if_false, if_true]
    have hd := dec128 res hr
    obtain ⟨R, hR⟩ : ∃ R : U128, R = (if (res.w0 - 1 == (0xffffffffffffffff : UInt64)) = true then ⟨res.w0 - 1, res.w1 - 1⟩ else ⟨res.w0 - 1, res.w1⟩) := ⟨_, rfl⟩
    rw [← hR] at hd
    have hgoal : ∀ X : Except String α,
        (if (R.w1 == (0x314dc6448d93 : UInt64) && R.w0 == (0x38c15b09ffffffff : UInt64)) = true then
          k ⟨0x378d8e63ffffffff, 0x1ed09bead87c0⟩ (e4 - 1) false gt true igt else k R e4 false gt true igt) = X →
        ∃ res' e', X = k res' e' false gt true igt ∧
          v128 res' = (if v128 res - 1 = P33 - 1 then P34 - 1 else v128 res - 1) ∧
          e' = (if v128 res - 1 = P33 - 1 then e4 - 1 else e4) := by
      intro X hX
      rw [is_P33m1, hd] at hX
      by_cases hw : v128 res - 1 = P33 - 1
      · rw [if_pos (by simpa using hw)] at hX
        exact ⟨_, _, hX.symm, by rw [if_pos hw]; exact w_P34m1, by rw [if_pos hw]⟩
      · rw [if_neg (by simpa using hw)] at hX
        exact ⟨_, _, hX.symm, by rw [if_neg hw]; exact hd, by rw [if_neg hw]⟩
    apply hgoal
    rw [hR]
    by_cases hz : (res.w0 - 1 == (0xffffffffffffffff : UInt64)) = true
    · simp only [hz, if_true]
    · simp only [hz, if_false, Bool.false_eq_true]

open Dec.C08GenRoundIntegral (tbl64_mid tbl128_mid)

theorem i32_gt35 (delta : Int32) : decide (delta > (34 : Int32) + (1 : Int32)) = decide (35 < delta.toInt) := by
  rw [i32_gt]; rfl

/-- nothing was discarded by the rounding of the product: the addend decides -/
theorem adjK_A {α : Type} (q3n : Nat) (delta : Int32) (zs ps : Bool) (C3 res : U128) (e4 : Int32)
    (h1 : 1 ≤ q3n) (h2 : q3n ≤ 34) (hC3 : v128 C3 < 10 ^ q3n)
    (k : U128 → Int32 → Bool → Bool → Bool → Bool → Except String α) :
    ∃ res' e', adjK (Int32.ofNat q3n) delta 34 (sgnW zs) (sgnW ps) C3 res e4 false false false false k =
        k res' e'
          (adjF (ps == zs) (decide (35 < delta.toInt)) (compare (v128 C3) (5 * 10 ^ (q3n - 1))) (v128 res) ⟨false, false, false, false⟩).2.2.midLtEven
          (adjF (ps == zs) (decide (35 < delta.toInt)) (compare (v128 C3) (5 * 10 ^ (q3n - 1))) (v128 res) ⟨false, false, false, false⟩).2.2.midGtEven
          (adjF (ps == zs) (decide (35 < delta.toInt)) (compare (v128 C3) (5 * 10 ^ (q3n - 1))) (v128 res) ⟨false, false, false, false⟩).2.2.inexLtMid
          (adjF (ps == zs) (decide (35 < delta.toInt)) (compare (v128 C3) (5 * 10 ^ (q3n - 1))) (v128 res) ⟨false, false, false, false⟩).2.2.inexGtMid ∧
      v128 res' = (adjF (ps == zs) (decide (35 < delta.toInt)) (compare (v128 C3) (5 * 10 ^ (q3n - 1))) (v128 res) ⟨false, false, false, false⟩).1 ∧
      e' = (if (adjF (ps == zs) (decide (35 < delta.toInt)) (compare (v128 C3) (5 * 10 ^ (q3n - 1))) (v128 res) ⟨false, false, false, false⟩).2.1 = -1
              then e4 - 1 else e4) := by
  unfold adjK adjF
  simp only [Bool.not_false, Bool.and_self, if_true, sgnW_beq, is_P33, i32_gt35, le_ofNat q3n 0x13 19 rfl (by omega)]
  by_cases hs : (ps == zs) = true
  · simp only [hs, if_true]
    exact ⟨res, e4, rfl, rfl, by simp⟩
  simp only [hs, if_false, Bool.false_eq_true]
  by_cases h33 : v128 res ≠ P33
  · simp only [h33, decide_true, if_true, ne_eq, not_false_eq_true]
    exact ⟨res, e4, rfl, rfl, by simp⟩
  simp only [h33, decide_false, if_false, Bool.false_eq_true]
  by_cases hfar : 35 < delta.toInt
  · simp only [hfar, decide_true, if_true]
    exact ⟨res, e4, rfl, rfl, by simp⟩
  simp only [hfar, decide_false, if_false, Bool.false_eq_true]
  have h0 := C3.w0.toNat_lt
  by_cases c19 : q3n ≤ 19
  · simp only [c19, decide_true, if_true]
    have hidx : (UInt64.ofInt (toI (Int32.ofNat q3n - 1))).toNat = q3n - 1 :=
      u64_of_i32 _ _ (by
        rw [i32_sub _ _ (by rw [ofNat_toInt q3n (by omega)]; omega) (by decide), ofNat_toInt q3n (by omega)]
        show (q3n : Int) - 1 = _; omega)
    obtain ⟨m, hm, mv⟩ := tbl64_mid _ (q3n - 1) hidx (by omega)
    have hp : (10:Nat) ^ q3n ≤ 10 ^ 19 := Nat.pow_le_pow_right (by decide) c19
    have hw1 : C3.w1.toNat = 0 := by unfold v128 at hC3; omega
    have hv : v128 C3 = C3.w0.toNat := by unfold v128; omega
    simp only [hm, bind, Except.bind, hv, ← mv]
    rcases Nat.lt_trichotomy C3.w0.toNat m.toNat with hlt | heq | hgt
    · have t1 : decide (C3.w0 < m) = true := by rw [decide_eq_true_eq, UInt64.lt_iff_toNat_lt]; exact hlt
      simp only [t1, if_true, Nat.compare_eq_lt.2 hlt]
      exact ⟨res, e4, rfl, rfl, by simp⟩
    · have t1 : decide (C3.w0 < m) = false := by rw [decide_eq_false_iff_not, UInt64.lt_iff_toNat_lt]; omega
      have t2 : (C3.w0 == m) = true := by rw [beq_iff_eq, ← UInt64.toNat_inj]; exact heq
      simp only [t1, t2, if_true, if_false, Bool.false_eq_true, Nat.compare_eq_eq.2 heq]
      exact ⟨res, e4, rfl, rfl, by simp⟩
    · have t1 : decide (C3.w0 < m) = false := by rw [decide_eq_false_iff_not, UInt64.lt_iff_toNat_lt]; omega
      have t2 : (C3.w0 == m) = false := by
        rw [← Bool.not_eq_true, beq_iff_eq, ← UInt64.toNat_inj]; omega
      simp only [t1, t2, if_false, Bool.false_eq_true, Nat.compare_eq_gt.2 hgt]
      exact ⟨_, _, rfl, w_P34m1, by simp⟩
  · simp only [c19, decide_false, if_false, Bool.false_eq_true]
    have hidx : (UInt64.ofInt (toI (Int32.ofNat q3n - 20))).toNat = q3n - 20 :=
      u64_of_i32 _ _ (by
        rw [i32_sub _ _ (by rw [ofNat_toInt q3n (by omega)]; omega) (by decide), ofNat_toInt q3n (by omega)]
        show (q3n : Int) - 20 = _; omega)
    obtain ⟨m, hm, mv⟩ := tbl128_mid _ (q3n - 20) hidx (by omega)
    rw [show q3n - 20 + 19 = q3n - 1 by omega] at mv
    have hm0 := m.w0.toNat_lt
    simp only [hm]
    simp only [bind, Except.bind, pure, Except.pure]
    have mv' : m.w1.toNat * 2 ^ 64 + m.w0.toNat = 5 * 10 ^ (q3n - 1) := mv
    have hv : v128 C3 = C3.w0.toNat + 2 ^ 64 * C3.w1.toNat := rfl
    generalize 5 * 10 ^ (q3n - 1) = M at *
    rcases Nat.lt_trichotomy (v128 C3) M with hlt | heq | hgt
    · have t1 : (if decide (C3.w1 < m.w1) = true then (Except.ok true : Except String Bool)
          else if (C3.w1 == m.w1) = true then Except.ok (decide (C3.w0 < m.w0)) else Except.ok false) = Except.ok true := by
        by_cases a : C3.w1.toNat < m.w1.toNat
        · rw [if_pos (by rw [decide_eq_true_eq, UInt64.lt_iff_toNat_lt]; exact a)]
        · rw [if_neg (by rw [decide_eq_true_eq, UInt64.lt_iff_toNat_lt]; exact a)]
          have b : C3.w1.toNat = m.w1.toNat := by apply Nat.le_antisymm <;> omega
          rw [if_pos (by rw [beq_iff_eq, ← UInt64.toNat_inj]; exact b)]
          congr 1
          rw [decide_eq_true_eq, UInt64.lt_iff_toNat_lt]; omega
      simp only [t1, if_true, Nat.compare_eq_lt.2 hlt]
      exact ⟨res, e4, rfl, rfl, by simp⟩
    · have a : C3.w1.toNat = m.w1.toNat := by apply Nat.le_antisymm <;> omega
      have b : C3.w0.toNat = m.w0.toNat := by apply Nat.le_antisymm <;> omega
      have t1 : (if decide (C3.w1 < m.w1) = true then (Except.ok true : Except String Bool)
          else if (C3.w1 == m.w1) = true then Except.ok (decide (C3.w0 < m.w0)) else Except.ok false) = Except.ok false := by
        rw [if_neg (by rw [decide_eq_true_eq, UInt64.lt_iff_toNat_lt]; omega),
          if_pos (by rw [beq_iff_eq, ← UInt64.toNat_inj]; exact a)]
        congr 1
        rw [decide_eq_false_iff_not, UInt64.lt_iff_toNat_lt]; omega
      have t2 : (if (C3.w1 == m.w1) = true then (Except.ok (C3.w0 == m.w0) : Except String Bool) else Except.ok false) =
          Except.ok true := by
        rw [if_pos (by rw [beq_iff_eq, ← UInt64.toNat_inj]; exact a)]
        congr 1
        rw [beq_iff_eq, ← UInt64.toNat_inj]; exact b
      simp only [t1, t2, if_true, if_false, Bool.false_eq_true, Nat.compare_eq_eq.2 heq]
      exact ⟨res, e4, rfl, rfl, by simp⟩
    · have t1 : (if decide (C3.w1 < m.w1) = true then (Except.ok true : Except String Bool)
          else if (C3.w1 == m.w1) = true then Except.ok (decide (C3.w0 < m.w0)) else Except.ok false) = Except.ok false := by
        rw [if_neg (by rw [decide_eq_true_eq, UInt64.lt_iff_toNat_lt]; omega)]
        by_cases a : C3.w1.toNat = m.w1.toNat
        · rw [if_pos (by rw [beq_iff_eq, ← UInt64.toNat_inj]; exact a)]
          congr 1
          rw [decide_eq_false_iff_not, UInt64.lt_iff_toNat_lt]; omega
        · rw [if_neg (by rw [beq_iff_eq, ← UInt64.toNat_inj]; exact a)]
      have t2 : (if (C3.w1 == m.w1) = true then (Except.ok (C3.w0 == m.w0) : Except String Bool) else Except.ok false) =
          Except.ok false := by
        by_cases a : C3.w1.toNat = m.w1.toNat
        · rw [if_pos (by rw [beq_iff_eq, ← UInt64.toNat_inj]; exact a)]
          congr 1
          rw [← Bool.not_eq_true, beq_iff_eq, ← UInt64.toNat_inj]; omega
        · rw [if_neg (by rw [beq_iff_eq, ← UInt64.toNat_inj]; exact a)]
      simp only [t1, t2, if_false, Bool.false_eq_true, Nat.compare_eq_gt.2 hgt]
      exact ⟨_, _, rfl, w_P34m1, by simp⟩

/-! ## 7. Stage 2, the mathematics: where the exact sum lies relative to the adjusted coefficient -/

/-- the position of the exact value `N/D` relative to the coefficient `cf`, as the three indicators that can leave stage 2
describe it -/
def Pos (N D cf : Nat) (F : Ind) : Prop :=
  (F = ⟨false, false, true, false⟩ ∧ cf * D < N ∧ 2 * N < 2 * (cf * D) + D) ∨
  (F = ⟨false, false, false, true⟩ ∧ N < cf * D ∧ 2 * (cf * D) < 2 * N + D) ∨
  (F = ⟨true, false, false, false⟩ ∧ 2 * N + D = 2 * (cf * D) ∧ cf % 2 = 0)

theorem Pos.facts {N D cf : Nat} {F : Ind} (h : Pos N D cf F) (hD : 0 < D) (s : Bool) :
    RoundedInt .rne s N D cf ∧
    F.inexLtMid = decide (cf * D < N ∧ 2 * N < 2 * (cf * D) + D) ∧
    F.inexGtMid = decide (N < cf * D ∧ 2 * (cf * D) < 2 * N + D) ∧
    F.midLtEven = decide (2 * N + D = 2 * (cf * D)) ∧
    F.midGtEven = decide (2 * N = 2 * (cf * D) + D) ∧
    (F.inexLtMid || F.inexGtMid || F.midLtEven || F.midGtEven) = true ∧
    (cf * D < N → F.inexLtMid = true) := by
  have e3 : 2 * cf * D = 2 * (cf * D) := Nat.mul_assoc _ _ _
  unfold RoundedInt
  simp only [e3]
  rcases h with ⟨rfl, a, b⟩ | ⟨rfl, a, b⟩ | ⟨rfl, a, b⟩
  · refine ⟨⟨by omega, by omega⟩, ?_, ?_, ?_, ?_, rfl, fun _ => rfl⟩
    · exact (decide_eq_true ⟨a, b⟩).symm
    · exact (decide_eq_false (by omega)).symm
    · exact (decide_eq_false (by omega)).symm
    · exact (decide_eq_false (by omega)).symm
  · refine ⟨⟨by omega, by omega⟩, ?_, ?_, ?_, ?_, rfl, fun _ => by omega⟩
    · exact (decide_eq_false (by omega)).symm
    · exact (decide_eq_true ⟨a, b⟩).symm
    · exact (decide_eq_false (by omega)).symm
    · exact (decide_eq_false (by omega)).symm
  · refine ⟨⟨by omega, fun _ => b⟩, ?_, ?_, ?_, ?_, rfl, fun _ => by omega⟩
    · exact (decide_eq_false (by omega)).symm
    · exact (decide_eq_false (by omega)).symm
    · exact (decide_eq_true a).symm
    · exact (decide_eq_false (by omega)).symm

/-- what stage 2 must establish for stage 3 and for `finish`: the coefficient `c'` at exponent `E` (relative to the exponent of
the addend) is the delivery of a nearest-even rounding `cf` of `N / 10^d`, with truthful indicators, normalised, inexact -/
def Good (N c' : Nat) (E : Int) (F : Ind) : Prop :=
  ∃ d cf : Nat, c' = (deliver cf d).1 ∧ E = (deliver cf d).2 ∧ Pos N (10 ^ d) cf F ∧ cf ≤ P34 ∧
    (cf = P34 → N ≤ cf * 10 ^ d) ∧ (N < cf * 10 ^ d → cf ≠ P33) ∧ P33 * 10 ^ d ≤ N ∧ ¬ 10 ^ d ∣ N

/-- a sum or difference `M·T ± c`, `0 < c < T`, is not a multiple of a multiple of `T` -/
theorem not_dvd_pm (M T c D : Nat) (same : Bool) (hT : T ∣ D) (h0 : 0 < c) (h1 : c < T) (hM : 0 < M) :
    ¬ D ∣ (if same = true then M * T + c else M * T - c) := by
  intro h
  have h2 := Nat.dvd_trans hT h
  cases same
  · simp only [Bool.false_eq_true, if_false] at h2
    have hle : T ≤ M * T := Nat.le_mul_of_pos_left T hM
    have : T ∣ c := by
      have h3 : T ∣ M * T - (M * T - c) := Nat.dvd_sub (Nat.dvd_mul_left T M) h2
      rwa [Nat.sub_sub_self (by omega)] at h3
    have := Nat.le_of_dvd h0 this
    omega
  · simp only [if_true] at h2
    have : T ∣ c := (Nat.dvd_add_right (Nat.dvd_mul_left T M)).1 h2
    have := Nat.le_of_dvd h0 this
    omega

theorem good_mk (N c' : Nat) (E : Int) (F : Ind) (d cf D : Nat) (hD : 10 ^ d = D)
    (h1 : c' = (deliver cf d).1) (h2 : E = (deliver cf d).2) (hp : Pos N D cf F) (h3 : cf ≤ P34)
    (h4 : cf = P34 → N ≤ cf * D) (h5 : N < cf * D → cf ≠ P33) (h6 : P33 * D ≤ N) (h7 : ¬ D ∣ N) : Good N c' E F := by
  subst hD
  exact ⟨d, cf, h1, h2, hp, h3, h4, h5, h6, h7⟩

theorem deliver_lt (cf : Nat) (d : Int) (h : cf ≠ P34) : deliver cf d = (cf, d) := by
  unfold deliver; rw [if_neg h]
theorem deliver_34 (d : Int) : deliver P34 d = (P33, d + 1) := by
  unfold deliver; rw [if_pos rfl]

/-- the helper's answer, by the five positions of the discarded part `r = C mod 10^x` -/
theorem spec_cases (x C cstar : Nat) (incr : Bool) (fl : Ind) (hx : 1 ≤ x) (hQ : C / 10 ^ x < P34)
    (sp : Spec (34 + x) x C cstar incr fl) (h : Nat) (hh : 10 ^ x = 2 * h) :
    (C % 10 ^ x = 0 ∧ fl = ⟨false, false, false, false⟩ ∧ cstar = C / 10 ^ x ∧ incr = false) ∨
    (0 < C % 10 ^ x ∧ C % 10 ^ x < h ∧ fl = ⟨false, false, true, false⟩ ∧ cstar = C / 10 ^ x ∧ incr = false) ∨
    (h < C % 10 ^ x ∧ fl = ⟨false, false, false, true⟩ ∧
      ((C / 10 ^ x + 1 = P34 ∧ cstar = P33 ∧ incr = true) ∨ (C / 10 ^ x + 1 < P34 ∧ cstar = C / 10 ^ x + 1 ∧ incr = false))) ∨
    (C % 10 ^ x = h ∧ C / 10 ^ x % 2 = 1 ∧ fl = ⟨true, false, false, false⟩ ∧
      ((C / 10 ^ x + 1 = P34 ∧ cstar = P33 ∧ incr = true) ∨ (C / 10 ^ x + 1 < P34 ∧ cstar = C / 10 ^ x + 1 ∧ incr = false))) ∨
    (C % 10 ^ x = h ∧ C / 10 ^ x % 2 = 0 ∧ fl = ⟨false, true, false, false⟩ ∧ cstar = C / 10 ^ x ∧ incr = false) := by
  have hr := rne_eq C x hx
  have s1 := sp.cstar_eq; have s2 := sp.incr_iff
  have s3 := sp.midLtEven_iff; have s4 := sp.midGtEven_iff; have s5 := sp.inexLtMid_iff; have s6 := sp.inexGtMid_iff
  rw [show 34 + x - x = 34 by omega, show (10:Nat) ^ 34 = P34 from rfl] at s1 s2
  rw [show 34 - 1 = 33 by omega, show (10:Nat) ^ 33 = P33 from rfl] at s1
  have hh2 : 10 ^ x / 2 = h := by omega
  rw [hh2] at hr s3 s4 s5 s6
  have hrlt : C % 10 ^ x < 10 ^ x := Nat.mod_lt _ (Nat.pow_pos (by decide))
  generalize C % 10 ^ x = r at *
  generalize C / 10 ^ x = Q at *
  generalize rne C x = R at *
  have e34 : P34 = 10000000000000000000000000000000000 := rfl
  have e33 : P33 = 1000000000000000000000000000000000 := rfl
  obtain ⟨a, b, c, d⟩ := fl
  simp only [] at s3 s4 s5 s6
  have bf : ∀ (b : Bool) (p : Prop), (b = true ↔ p) → ¬ p → b = false := by
    intro b p h hn; cases b
    · rfl
    · exact absurd (h.1 rfl) hn
  have incr_f : R ≠ P34 → incr = false := fun hn => bf _ _ s2 hn
  by_cases r0 : r = 0
  · left
    have hR : R = Q := by rw [hr, if_pos (by omega)]
    refine ⟨r0, ?_, by rw [s1, if_neg (by omega), hR], incr_f (by omega)⟩
    rw [bf a _ s3 (by omega), bf b _ s4 (by omega), bf c _ s5 (by omega), bf d _ s6 (by omega)]
  by_cases rlt : r < h
  · right; left
    have hR : R = Q := by rw [hr, if_pos rlt]
    refine ⟨by omega, rlt, ?_, by rw [s1, if_neg (by omega), hR], incr_f (by omega)⟩
    rw [bf a _ s3 (by omega), bf b _ s4 (by omega), s5.2 ⟨by omega, rlt⟩, bf d _ s6 (by omega)]
  by_cases rgt : h < r
  · right; right; left
    have hR : R = Q + 1 := by rw [hr, if_neg rlt, if_pos rgt]
    refine ⟨rgt, ?_, ?_⟩
    · rw [bf a _ s3 (by omega), bf b _ s4 (by omega), bf c _ s5 (by omega), s6.2 rgt]
    · by_cases hc : Q + 1 = P34
      · left; exact ⟨hc, by rw [s1, if_pos (by omega)], s2.2 (by omega)⟩
      · right; exact ⟨by omega, by rw [s1, if_neg (by omega), hR], incr_f (by omega)⟩
  have req : r = h := by omega
  by_cases hodd : Q % 2 = 1
  · right; right; right; left
    have hR : R = Q + 1 := by rw [hr, if_neg rlt, if_neg rgt, if_neg (by omega)]
    refine ⟨req, hodd, ?_, ?_⟩
    · rw [s3.2 ⟨req, hodd⟩, bf b _ s4 (by omega), bf c _ s5 (by omega), bf d _ s6 (by omega)]
    · by_cases hc : Q + 1 = P34
      · left; exact ⟨hc, by rw [s1, if_pos (by omega)], s2.2 (by omega)⟩
      · right; exact ⟨by omega, by rw [s1, if_neg (by omega), hR], incr_f (by omega)⟩
  · right; right; right; right
    have hR : R = Q := by rw [hr, if_neg rlt, if_neg rgt, if_pos (by omega)]
    refine ⟨req, by omega, ?_, by rw [s1, if_neg (by omega), hR], incr_f (by omega)⟩
    rw [bf a _ s3 (by omega), s4.2 ⟨req, by omega⟩, bf c _ s5 (by omega), bf d _ s6 (by omega)]

/-! the value of `adjF` on the patterns the helpers deliver -/

theorem adjF_none_same (far : Bool) (cmp : Ordering) (c : Nat) :
    adjF true far cmp c ⟨false, false, false, false⟩ = (c, 0, ⟨false, false, true, false⟩) := rfl
theorem adjF_none_ne (far : Bool) (cmp : Ordering) (c : Nat) (h : c ≠ P33) :
    adjF false far cmp c ⟨false, false, false, false⟩ = (c, 0, ⟨false, false, false, true⟩) := by
  unfold adjF; simp only [Bool.not_false, Bool.and_self, if_true, Bool.false_eq_true, if_false, h, ne_eq, not_false_eq_true]
theorem adjF_none_far (cmp : Ordering) : 
    adjF false true cmp P33 ⟨false, false, false, false⟩ = (P33, 0, ⟨false, false, false, true⟩) := by
  unfold adjF; simp only [Bool.not_false, Bool.and_self, if_true, Bool.false_eq_true, if_false, ne_eq, not_true_eq_false]
theorem adjF_none_near (cmp : Ordering) : 
    adjF false false cmp P33 ⟨false, false, false, false⟩ =
      match cmp with
      | .lt => (P33, 0, ⟨false, false, false, true⟩)
      | .eq => (P33, 0, ⟨true, false, false, false⟩)
      | .gt => (P34 - 1, -1, ⟨false, false, true, false⟩) := by
  unfold adjF; simp only [Bool.not_false, Bool.and_self, if_true, Bool.false_eq_true, if_false, ne_eq, not_true_eq_false]
theorem adjF_L (same far : Bool) (cmp : Ordering) (c : Nat) :
    adjF same far cmp c ⟨false, false, true, false⟩ = (c, 0, ⟨false, false, true, false⟩) := rfl
theorem adjF_G (same far : Bool) (cmp : Ordering) (c : Nat) :
    adjF same far cmp c ⟨false, false, false, true⟩ = (c, 0, ⟨false, false, false, true⟩) := rfl
theorem adjF_ML_same (far : Bool) (cmp : Ordering) (c : Nat) :
    adjF true far cmp c ⟨true, false, false, false⟩ = (c, 0, ⟨false, false, false, true⟩) := rfl
theorem adjF_ML_opp (far : Bool) (cmp : Ordering) (c : Nat) :
    adjF false far cmp c ⟨true, false, false, false⟩ =
      if c - 1 = P33 - 1 then (P34 - 1, -1, ⟨false, false, true, false⟩) else (c - 1, 0, ⟨false, false, true, false⟩) := rfl
theorem adjF_MG_same (far : Bool) (cmp : Ordering) (c : Nat) :
    adjF true far cmp c ⟨false, true, false, false⟩ = (c + 1, 0, ⟨false, false, false, true⟩) := rfl
theorem adjF_MG_opp (far : Bool) (cmp : Ordering) (c : Nat) :
    adjF false far cmp c ⟨false, true, false, false⟩ = (c, 0, ⟨false, false, true, false⟩) := rfl

/-- the common set-up of the five cases of `adj_math` (names visible to the caller): the powers of ten as atoms, the exact sum
`N`, and the products `A = Q·D`, `B = r·T`, `H = h·T` with the linear facts the cases need -/
syntax "adj_setup" : tactic
set_option hygiene false in
macro_rules
  | `(tactic| adj_setup) => `(tactic| (
    have hP10 : P34 = 10 * P33 := rfl
    have hP0 : 0 < P33 := by decide
    have hXpos : 0 < 10 ^ x := Nat.pow_pos (by decide)
    have e1 : 10 ^ (33 + x) = P33 * 10 ^ x := by rw [Nat.pow_add]; rfl
    have e2 : 10 ^ (34 + x) = P34 * 10 ^ x := by rw [Nat.pow_add]; rfl
    have hQ1 : P33 ≤ C / 10 ^ x := (Nat.le_div_iff_mul_le hXpos).2 (by rw [← e1]; exact hC1)
    have hQ2 : C / 10 ^ x < P34 := (Nat.div_lt_iff_lt_mul hXpos).2 (by rw [← e2]; exact hC2)
    have hdm := Nat.div_add_mod C (10 ^ x)
    have hrlt := Nat.mod_lt C hXpos
    -- the powers of ten, named
    obtain ⟨m, hm⟩ : ∃ m, 10 ^ (x - 1) = m := ⟨_, rfl⟩
    have hXm : 10 ^ x = 10 * m := by rw [← hm, ← Nat.pow_succ']; congr 1; omega
    have hmpos : 0 < m := by rw [← hm]; exact Nat.pow_pos (by decide)
    obtain ⟨T, hT⟩ : ∃ T, 10 ^ kk = T := ⟨_, rfl⟩
    have hTpos : 0 < T := by rw [← hT]; exact Nat.pow_pos (by decide)
    have hc3T : c3 < T := by
      have : 10 ^ q3n ≤ 10 ^ kk := Nat.pow_le_pow_right (by decide) hkk
      omega
    obtain ⟨D, hD⟩ : ∃ D, 10 ^ (kk + x) = D := ⟨_, rfl⟩
    obtain ⟨D', hD'⟩ : ∃ D', 10 ^ (kk + x - 1) = D' := ⟨_, rfl⟩
    have fD : D = T * 10 ^ x := by rw [← hD, ← hT, Nat.pow_add]
    have fD' : D' = T * m := by rw [← hD', ← hT, ← hm, ← Nat.pow_add]; congr 1; omega
    have fD10 : D = 10 * D' := by rw [fD, fD', hXm]; ring
    have fTD' : T ≤ D' := by rw [fD']; exact Nat.le_mul_of_pos_right T hmpos
    have ffar : q3n + 1 < x + kk → 10 * c3 < D' := by
      intro hf
      have : 10 ^ (q3n + 1) ≤ 10 ^ (kk + x - 1) := Nat.pow_le_pow_right (by decide) (by omega)
      rw [Nat.pow_succ, hD'] at this
      omega
    obtain ⟨hf, hhf⟩ : ∃ hf, 5 * 10 ^ (q3n - 1) = hf := ⟨_, rfl⟩
    have fnear : ¬ (q3n + 1 < x + kk) → D' = T ∧ T = 2 * hf := by
      intro hn
      have a : x = 1 := by omega
      have b : kk = q3n := by omega
      refine ⟨by rw [← hD', ← hT]; congr 1; omega, ?_⟩
      rw [← hT, ← hhf, b]
      obtain ⟨j, rfl⟩ : ∃ j, q3n = j + 1 := ⟨q3n - 1, by omega⟩
      rw [Nat.pow_succ, Nat.add_sub_cancel]; omega
    rw [hT, hhf]
    -- the exact sum, and that it is no multiple of the units used
    obtain ⟨N, hN⟩ : ∃ N, N = (if same = true then C * T + c3 else C * T - c3) := ⟨_, rfl⟩
    have hCpos : 0 < C := lt_of_lt_of_le (Nat.pow_pos (by decide)) hC1
    have h7D : ¬ D ∣ N := by
      rw [hN]; exact not_dvd_pm C T c3 D same ⟨10 ^ x, fD⟩ hc3 hc3T hCpos
    have h7D' : ¬ D' ∣ N := by
      rw [hN]; exact not_dvd_pm C T c3 D' same ⟨m, fD'⟩ hc3 hc3T hCpos
    rw [← hN]
    generalize C % 10 ^ x = r at *
    generalize C / 10 ^ x = Q at *
    -- products as atoms
    have hCT : C * T = Q * D + r * T := by rw [← hdm, fD]; ring
    obtain ⟨H, hH⟩ : ∃ H, h * T = H := ⟨_, rfl⟩
    have fDH : D = 2 * H := by rw [fD, hh, ← hH]; ring
    have fTH : T ≤ H := by rw [← hH]; exact Nat.le_mul_of_pos_left T hh0
    obtain ⟨B, hB⟩ : ∃ B, r * T = B := ⟨_, rfl⟩
    have fB0 : r = 0 → B = 0 := by intro h0; rw [← hB, h0, Nat.zero_mul]
    have fBh : r = h → B = H := by intro h0; rw [← hB, h0, hH]
    have fBlt : r < h → B + T ≤ H := by
      intro h0
      have : (r + 1) * T ≤ h * T := Nat.mul_le_mul_right T h0
      rw [Nat.add_mul, Nat.one_mul, hB, hH] at this; exact this
    have fBpos : 0 < r → T ≤ B := by
      intro h0; rw [← hB]; exact Nat.le_mul_of_pos_left T h0
    have fBgt : h < r → H + T ≤ B := by
      intro h0
      have : (h + 1) * T ≤ r * T := Nat.mul_le_mul_right T h0
      rw [Nat.add_mul, Nat.one_mul, hB, hH] at this; exact this
    have fBX : B + T ≤ D := by
      have : (r + 1) * T ≤ 10 ^ x * T := Nat.mul_le_mul_right T hrlt
      rw [Nat.add_mul, Nat.one_mul, hB, Nat.mul_comm (10 ^ x) T, ← fD] at this; exact this
    obtain ⟨A, hA⟩ : ∃ A, Q * D = A := ⟨_, rfl⟩
    have fA1 : P33 * D ≤ A := by rw [← hA]; exact Nat.mul_le_mul_right D hQ1
    have fA2 : Q ≠ P33 → P33 * D + D ≤ A := by
      intro hne
      have : (P33 + 1) * D ≤ Q * D := Nat.mul_le_mul_right D (by omega)
      rw [Nat.add_mul, Nat.one_mul, hA] at this; exact this
    have fA3 : Q = P33 → A = P33 * D := by intro h0; rw [← hA, h0]
    have fQ1 : (Q + 1) * D = A + D := by rw [Nat.add_mul, Nat.one_mul, hA]
    rw [hCT, hA, hB] at hN
    have hDpos : 0 < D' := lt_of_lt_of_le hTpos fTD'
    have hkx : ((kk + x - 1 : Nat) : Int) + 1 = ((kk + x : Nat) : Int) := by omega))

/-- `adj_math`, case "nothing discarded" -/
theorem adj_exact (x kk q3n C c3 cstar : Nat) (incr : Bool) (fl : Ind) (same : Bool) (h : Nat)
    (hx : 1 ≤ x) (hC1 : 10 ^ (33 + x) ≤ C) (hC2 : C < 10 ^ (34 + x)) (hq3 : 1 ≤ q3n) (hc3 : 0 < c3) (hc3' : c3 < 10 ^ q3n)
    (hkk : q3n ≤ kk) (hh0 : 0 < h) (hh : 10 ^ x = 2 * h)
    (hcase : C % 10 ^ x = 0 ∧ fl = ⟨false, false, false, false⟩ ∧ cstar = C / 10 ^ x ∧ incr = false) :
    Good (if same = true then C * 10 ^ kk + c3 else C * 10 ^ kk - c3)
      (adjF same (decide (q3n + 1 < x + kk)) (compare c3 (5 * 10 ^ (q3n - 1))) cstar fl).1
      (((kk + x : Nat) : Int) + (if incr = true then 1 else 0) +
        (adjF same (decide (q3n + 1 < x + kk)) (compare c3 (5 * 10 ^ (q3n - 1))) cstar fl).2.1)
      (adjF same (decide (q3n + 1 < x + kk)) (compare c3 (5 * 10 ^ (q3n - 1))) cstar fl).2.2 := by
  adj_setup
  obtain ⟨r0, rfl, hcs, rfl⟩ := hcase
  rw [hcs]
  have b0 := fB0 r0
  cases same
  · simp only [Bool.false_eq_true, if_false] at hN
    by_cases h33 : Q = P33
    · subst h33
      have a3 := fA3 rfl
      have g1 : P34 * D' = 10 * (P33 * D') := by rw [show P34 = 10 * P33 from rfl, Nat.mul_assoc]
      have g2 : P33 * D = 10 * (P33 * D') := by rw [fD10, Nat.mul_left_comm]
      have g3 : (P34 - 1) * D' = P34 * D' - D' := by rw [Nat.sub_mul, Nat.one_mul]
      have g4 : D' ≤ P33 * D' := Nat.le_mul_of_pos_left D' (by decide)
      by_cases hfar : q3n + 1 < x + kk
      · have hc := ffar hfar
        rw [decide_eq_true hfar, adjF_none_far]
        refine good_mk N _ _ _ (kk + x - 1) P34 D' hD' (by rw [deliver_34]) (by rw [deliver_34]; simp only [Bool.false_eq_true, if_false]; omega)
          (Or.inr (Or.inl ⟨rfl, by omega, by omega⟩)) (Nat.le_refl _) (fun _ => by omega) (fun _ => by decide) (by omega) h7D'
      · obtain ⟨n1, n2⟩ := fnear hfar
        rw [decide_eq_false hfar, adjF_none_near]
        rcases Nat.lt_trichotomy c3 hf with hlt | heq | hgt
        · rw [Nat.compare_eq_lt.2 hlt]
          refine good_mk N _ _ _ (kk + x - 1) P34 D' hD' (by rw [deliver_34]) (by rw [deliver_34]; simp only [Bool.false_eq_true, if_false]; omega)
            (Or.inr (Or.inl ⟨rfl, by omega, by omega⟩)) (Nat.le_refl _) (fun _ => by omega) (fun _ => by decide) (by omega) h7D'
        · rw [Nat.compare_eq_eq.2 heq]
          refine good_mk N _ _ _ (kk + x - 1) P34 D' hD' (by rw [deliver_34]) (by rw [deliver_34]; simp only [Bool.false_eq_true, if_false]; omega)
            (Or.inr (Or.inr ⟨rfl, by omega, by decide⟩)) (Nat.le_refl _) (fun _ => by omega) (fun _ => by decide) (by omega) h7D'
        · rw [Nat.compare_eq_gt.2 hgt]
          refine good_mk N _ _ _ (kk + x - 1) (P34 - 1) D' hD' (by rw [deliver_lt _ _ (by decide)])
            (by rw [deliver_lt _ _ (by decide)]; simp only [Bool.false_eq_true, if_false]; omega)
            (Or.inl ⟨rfl, by omega, by omega⟩) (by decide) (fun hc => absurd hc (by decide)) (fun _ => by decide) (by omega) h7D'
    · have a2 := fA2 h33
      rw [adjF_none_ne _ _ _ h33]
      refine good_mk N _ _ _ (kk + x) Q D hD (by rw [deliver_lt _ _ (by omega)]) (by rw [deliver_lt _ _ (by omega)]; simp)
        (Or.inr (Or.inl ⟨rfl, by rw [hA]; omega, by rw [hA]; omega⟩)) (by omega) (fun hc => by omega) (fun _ => h33)
        (by omega) h7D
  · simp only [if_true] at hN
    rw [adjF_none_same]
    refine good_mk N _ _ _ (kk + x) Q D hD (by rw [deliver_lt _ _ (by omega)]) (by rw [deliver_lt _ _ (by omega)]; simp)
      (Or.inl ⟨rfl, by rw [hA]; omega, by rw [hA]; omega⟩) (by omega) (fun hc => by omega) (fun hc => by rw [hA] at hc; omega)
      (by omega) h7D

/-- `adj_math`, case "below the midpoint: nothing changes" -/
theorem adj_below (x kk q3n C c3 cstar : Nat) (incr : Bool) (fl : Ind) (same : Bool) (h : Nat)
    (hx : 1 ≤ x) (hC1 : 10 ^ (33 + x) ≤ C) (hC2 : C < 10 ^ (34 + x)) (hq3 : 1 ≤ q3n) (hc3 : 0 < c3) (hc3' : c3 < 10 ^ q3n)
    (hkk : q3n ≤ kk) (hh0 : 0 < h) (hh : 10 ^ x = 2 * h)
    (hcase : 0 < C % 10 ^ x ∧ C % 10 ^ x < h ∧ fl = ⟨false, false, true, false⟩ ∧ cstar = C / 10 ^ x ∧ incr = false) :
    Good (if same = true then C * 10 ^ kk + c3 else C * 10 ^ kk - c3)
      (adjF same (decide (q3n + 1 < x + kk)) (compare c3 (5 * 10 ^ (q3n - 1))) cstar fl).1
      (((kk + x : Nat) : Int) + (if incr = true then 1 else 0) +
        (adjF same (decide (q3n + 1 < x + kk)) (compare c3 (5 * 10 ^ (q3n - 1))) cstar fl).2.1)
      (adjF same (decide (q3n + 1 < x + kk)) (compare c3 (5 * 10 ^ (q3n - 1))) cstar fl).2.2 := by
  adj_setup
  obtain ⟨rpos, rlt, rfl, hcs, rfl⟩ := hcase
  have b1 := fBlt rlt; have b2 := fBpos rpos
  rw [hcs, adjF_L]
  refine good_mk N _ _ _ (kk + x) Q D hD (by rw [deliver_lt _ _ (by omega)]) (by rw [deliver_lt _ _ (by omega)]; simp)
    (Or.inl ⟨rfl, by rw [hA]; cases same <;> simp only [Bool.false_eq_true, if_false, if_true] at hN <;> omega,
      by rw [hA]; cases same <;> simp only [Bool.false_eq_true, if_false, if_true] at hN <;> omega⟩)
    (by omega) (fun hc => by omega)
    (fun hc => by rw [hA] at hc; cases same <;> simp only [Bool.false_eq_true, if_false, if_true] at hN <;> omega)
    (by cases same <;> simp only [Bool.false_eq_true, if_false, if_true] at hN <;> omega) h7D

/-- `adj_math`, case "above the midpoint: nothing changes" -/
theorem adj_above (x kk q3n C c3 cstar : Nat) (incr : Bool) (fl : Ind) (same : Bool) (h : Nat)
    (hx : 1 ≤ x) (hC1 : 10 ^ (33 + x) ≤ C) (hC2 : C < 10 ^ (34 + x)) (hq3 : 1 ≤ q3n) (hc3 : 0 < c3) (hc3' : c3 < 10 ^ q3n)
    (hkk : q3n ≤ kk) (hh0 : 0 < h) (hh : 10 ^ x = 2 * h)
    (hcase : h < C % 10 ^ x ∧ fl = ⟨false, false, false, true⟩ ∧
      ((C / 10 ^ x + 1 = P34 ∧ cstar = P33 ∧ incr = true) ∨ (C / 10 ^ x + 1 < P34 ∧ cstar = C / 10 ^ x + 1 ∧ incr = false))) :
    Good (if same = true then C * 10 ^ kk + c3 else C * 10 ^ kk - c3)
      (adjF same (decide (q3n + 1 < x + kk)) (compare c3 (5 * 10 ^ (q3n - 1))) cstar fl).1
      (((kk + x : Nat) : Int) + (if incr = true then 1 else 0) +
        (adjF same (decide (q3n + 1 < x + kk)) (compare c3 (5 * 10 ^ (q3n - 1))) cstar fl).2.1)
      (adjF same (decide (q3n + 1 < x + kk)) (compare c3 (5 * 10 ^ (q3n - 1))) cstar fl).2.2 := by
  adj_setup
  obtain ⟨rgt, rfl, hc⟩ := hcase
  have b1 := fBgt rgt
  rw [adjF_G]
  have hpos : Pos N D (Q + 1) ⟨false, false, false, true⟩ :=
    Or.inr (Or.inl ⟨rfl, by rw [fQ1]; cases same <;> simp only [Bool.false_eq_true, if_false, if_true] at hN <;> omega,
      by rw [fQ1]; cases same <;> simp only [Bool.false_eq_true, if_false, if_true] at hN <;> omega⟩)
  have h6 : P33 * D ≤ N := by cases same <;> simp only [Bool.false_eq_true, if_false, if_true] at hN <;> omega
  have h4 : N ≤ (Q + 1) * D := by
    rw [fQ1]; cases same <;> simp only [Bool.false_eq_true, if_false, if_true] at hN <;> omega
  rcases hc with ⟨hc, rfl, rfl⟩ | ⟨hc, hcs, rfl⟩
  · refine good_mk N _ _ _ (kk + x) (Q + 1) D hD (by rw [hc, deliver_34]) (by rw [hc, deliver_34]; simp)
      hpos (by omega) (fun _ => h4) (fun _ => by omega) h6 h7D
  · rw [hcs]
    refine good_mk N _ _ _ (kk + x) (Q + 1) D hD (by rw [deliver_lt _ _ (by omega)])
      (by rw [deliver_lt _ _ (by omega)]; simp) hpos (by omega) (fun _ => h4) (fun _ => by omega) h6 h7D

/-- `adj_math`, case "midpoint, rounded up to even" -/
theorem adj_midUp (x kk q3n C c3 cstar : Nat) (incr : Bool) (fl : Ind) (same : Bool) (h : Nat)
    (hx : 1 ≤ x) (hC1 : 10 ^ (33 + x) ≤ C) (hC2 : C < 10 ^ (34 + x)) (hq3 : 1 ≤ q3n) (hc3 : 0 < c3) (hc3' : c3 < 10 ^ q3n)
    (hkk : q3n ≤ kk) (hh0 : 0 < h) (hh : 10 ^ x = 2 * h)
    (hcase : C % 10 ^ x = h ∧ C / 10 ^ x % 2 = 1 ∧ fl = ⟨true, false, false, false⟩ ∧
      ((C / 10 ^ x + 1 = P34 ∧ cstar = P33 ∧ incr = true) ∨ (C / 10 ^ x + 1 < P34 ∧ cstar = C / 10 ^ x + 1 ∧ incr = false))) :
    Good (if same = true then C * 10 ^ kk + c3 else C * 10 ^ kk - c3)
      (adjF same (decide (q3n + 1 < x + kk)) (compare c3 (5 * 10 ^ (q3n - 1))) cstar fl).1
      (((kk + x : Nat) : Int) + (if incr = true then 1 else 0) +
        (adjF same (decide (q3n + 1 < x + kk)) (compare c3 (5 * 10 ^ (q3n - 1))) cstar fl).2.1)
      (adjF same (decide (q3n + 1 < x + kk)) (compare c3 (5 * 10 ^ (q3n - 1))) cstar fl).2.2 := by
  adj_setup
  obtain ⟨req, hodd, rfl, hc⟩ := hcase
  have b1 := fBh req
  cases same
  · simp only [Bool.false_eq_true, if_false] at hN
    rw [adjF_ML_opp]
    have hpos : Pos N D Q ⟨false, false, true, false⟩ := Or.inl ⟨rfl, by rw [hA]; omega, by rw [hA]; omega⟩
    rcases hc with ⟨hc, rfl, rfl⟩ | ⟨hc, hcs, rfl⟩
    · rw [if_pos rfl]
      refine good_mk N _ _ _ (kk + x) Q D hD (by rw [deliver_lt _ _ (by omega)]; simp only []; omega)
        (by rw [deliver_lt _ _ (by omega)]; simp) hpos (by omega) (fun hc => by omega)
        (fun hc => by rw [hA] at hc; omega) (by omega) h7D
    · rw [hcs, if_neg (by omega)]
      refine good_mk N _ _ _ (kk + x) Q D hD (by rw [deliver_lt _ _ (by omega)]; simp only []; omega)
        (by rw [deliver_lt _ _ (by omega)]; simp) hpos (by omega) (fun hc => by omega)
        (fun hc => by rw [hA] at hc; omega) (by omega) h7D
  · simp only [if_true] at hN
    rw [adjF_ML_same]
    have hpos : Pos N D (Q + 1) ⟨false, false, false, true⟩ :=
      Or.inr (Or.inl ⟨rfl, by rw [fQ1]; omega, by rw [fQ1]; omega⟩)
    rcases hc with ⟨hc, rfl, rfl⟩ | ⟨hc, hcs, rfl⟩
    · refine good_mk N _ _ _ (kk + x) (Q + 1) D hD (by rw [hc, deliver_34]) (by rw [hc, deliver_34]; simp)
        hpos (by omega) (fun _ => by rw [fQ1]; omega) (fun _ => by omega) (by omega) h7D
    · rw [hcs]
      refine good_mk N _ _ _ (kk + x) (Q + 1) D hD (by rw [deliver_lt _ _ (by omega)])
        (by rw [deliver_lt _ _ (by omega)]; simp) hpos (by omega) (fun _ => by rw [fQ1]; omega) (fun _ => by omega) (by omega) h7D

/-- `adj_math`, case "midpoint, rounded down to even" -/
theorem adj_midDown (x kk q3n C c3 cstar : Nat) (incr : Bool) (fl : Ind) (same : Bool) (h : Nat)
    (hx : 1 ≤ x) (hC1 : 10 ^ (33 + x) ≤ C) (hC2 : C < 10 ^ (34 + x)) (hq3 : 1 ≤ q3n) (hc3 : 0 < c3) (hc3' : c3 < 10 ^ q3n)
    (hkk : q3n ≤ kk) (hh0 : 0 < h) (hh : 10 ^ x = 2 * h)
    (hcase : C % 10 ^ x = h ∧ C / 10 ^ x % 2 = 0 ∧ fl = ⟨false, true, false, false⟩ ∧ cstar = C / 10 ^ x ∧ incr = false) :
    Good (if same = true then C * 10 ^ kk + c3 else C * 10 ^ kk - c3)
      (adjF same (decide (q3n + 1 < x + kk)) (compare c3 (5 * 10 ^ (q3n - 1))) cstar fl).1
      (((kk + x : Nat) : Int) + (if incr = true then 1 else 0) +
        (adjF same (decide (q3n + 1 < x + kk)) (compare c3 (5 * 10 ^ (q3n - 1))) cstar fl).2.1)
      (adjF same (decide (q3n + 1 < x + kk)) (compare c3 (5 * 10 ^ (q3n - 1))) cstar fl).2.2 := by
  adj_setup
  obtain ⟨req, hev, rfl, hcs, rfl⟩ := hcase
  have b1 := fBh req
  cases same
  · simp only [Bool.false_eq_true, if_false] at hN
    rw [hcs, adjF_MG_opp]
    refine good_mk N _ _ _ (kk + x) Q D hD (by rw [deliver_lt _ _ (by omega)])
      (by rw [deliver_lt _ _ (by omega)]; simp) (Or.inl ⟨rfl, by rw [hA]; omega, by rw [hA]; omega⟩) (by omega)
      (fun hc => by omega) (fun hc => by rw [hA] at hc; omega) (by omega) h7D
  · simp only [if_true] at hN
    rw [hcs, adjF_MG_same]
    refine good_mk N _ _ _ (kk + x) (Q + 1) D hD (by rw [deliver_lt _ _ (by omega)])
      (by rw [deliver_lt _ _ (by omega)]; simp)
      (Or.inr (Or.inl ⟨rfl, by rw [fQ1]; omega, by rw [fQ1]; omega⟩)) (by omega) (fun hc => by omega) (fun _ => by omega)
      (by omega) h7D

/-- **stage 2, the mathematics.**  `C` the product (`34 + x` digits), rounded by the helper to `cstar` with `incr` and the
indicators `fl`; `c3 < 10^q3n ≤ 10^kk` the addend's coefficient, `kk = e4 − e3`.  Then the adjusted coefficient, exponent and
indicators (`adjF`) are the delivery of the nearest-even rounding of the exact sum `C·10^kk ± c3`, with truthful indicators. -/
theorem adj_math (x kk q3n C c3 cstar : Nat) (incr : Bool) (fl : Ind) (same : Bool)
    (hx : 1 ≤ x) (hC1 : 10 ^ (33 + x) ≤ C) (hC2 : C < 10 ^ (34 + x)) (hq3 : 1 ≤ q3n) (hc3 : 0 < c3) (hc3' : c3 < 10 ^ q3n)
    (hkk : q3n ≤ kk) (sp : Spec (34 + x) x C cstar incr fl) :
    Good (if same = true then C * 10 ^ kk + c3 else C * 10 ^ kk - c3)
      (adjF same (decide (q3n + 1 < x + kk)) (compare c3 (5 * 10 ^ (q3n - 1))) cstar fl).1
      (((kk + x : Nat) : Int) + (if incr = true then 1 else 0) +
        (adjF same (decide (q3n + 1 < x + kk)) (compare c3 (5 * 10 ^ (q3n - 1))) cstar fl).2.1)
      (adjF same (decide (q3n + 1 < x + kk)) (compare c3 (5 * 10 ^ (q3n - 1))) cstar fl).2.2 := by
  obtain ⟨h, hh0, hh, _⟩ := pow_split x hx
  have hXpos : 0 < 10 ^ x := Nat.pow_pos (by decide)
  have e2 : 10 ^ (34 + x) = P34 * 10 ^ x := by rw [Nat.pow_add]; rfl
  have hQ2 : C / 10 ^ x < P34 := (Nat.div_lt_iff_lt_mul hXpos).2 (by rw [← e2]; exact hC2)
  rcases spec_cases x C cstar incr fl hx hQ2 sp h hh with c | c | c | c | c
  · exact adj_exact x kk q3n C c3 cstar incr fl same h hx hC1 hC2 hq3 hc3 hc3' hkk hh0 hh c
  · exact adj_below x kk q3n C c3 cstar incr fl same h hx hC1 hC2 hq3 hc3 hc3' hkk hh0 hh c
  · exact adj_above x kk q3n C c3 cstar incr fl same h hx hC1 hC2 hq3 hc3 hc3' hkk hh0 hh c
  · exact adj_midUp x kk q3n C c3 cstar incr fl same h hx hC1 hC2 hq3 hc3 hc3' hkk hh0 hh c
  · exact adj_midDown x kk q3n C c3 cstar incr fl same h hx hC1 hC2 hq3 hc3 hc3' hkk hh0 hh c

/-! ## 8. Stage 2: the code computes `adjF` -/

theorem adjF_shift (same far : Bool) (cmp : Ordering) (c : Nat) (fl : Ind) :
    (adjF same far cmp c fl).2.1 = 0 ∨ (adjF same far cmp c fl).2.1 = -1 := by
  unfold adjF
  cases cmp <;> (repeat' split) <;> simp

/-- **stage 2 as translated computes `adjF`** (for the five indicator patterns the helpers can deliver) -/
theorem adjK_spec {α : Type} (q3n : Nat) (delta : Int32) (zs ps : Bool) (C3 res : U128) (e4 : Int32) (E : Int) (fl : Ind)
    (h1 : 1 ≤ q3n) (h2 : q3n ≤ 34) (hC3 : v128 C3 < 10 ^ q3n) (hr1 : 1 ≤ v128 res) (hr2 : v128 res < P34)
    (hE : e4.toInt = E) (hE1 : -2^20 < E) (hE2 : E < 2^20)
    (hfl : fl = ⟨false, false, false, false⟩ ∨ fl = ⟨false, false, true, false⟩ ∨ fl = ⟨false, false, false, true⟩ ∨
      fl = ⟨true, false, false, false⟩ ∨ fl = ⟨false, true, false, false⟩)
    (k : U128 → Int32 → Bool → Bool → Bool → Bool → Except String α) :
    ∃ res' e', adjK (Int32.ofNat q3n) delta 34 (sgnW zs) (sgnW ps) C3 res e4 fl.midLtEven fl.midGtEven fl.inexLtMid fl.inexGtMid k =
        k res' e'
          (adjF (ps == zs) (decide (35 < delta.toInt)) (compare (v128 C3) (5 * 10 ^ (q3n - 1))) (v128 res) fl).2.2.midLtEven
          (adjF (ps == zs) (decide (35 < delta.toInt)) (compare (v128 C3) (5 * 10 ^ (q3n - 1))) (v128 res) fl).2.2.midGtEven
          (adjF (ps == zs) (decide (35 < delta.toInt)) (compare (v128 C3) (5 * 10 ^ (q3n - 1))) (v128 res) fl).2.2.inexLtMid
          (adjF (ps == zs) (decide (35 < delta.toInt)) (compare (v128 C3) (5 * 10 ^ (q3n - 1))) (v128 res) fl).2.2.inexGtMid ∧
      v128 res' = (adjF (ps == zs) (decide (35 < delta.toInt)) (compare (v128 C3) (5 * 10 ^ (q3n - 1))) (v128 res) fl).1 ∧
      e'.toInt = E + (adjF (ps == zs) (decide (35 < delta.toInt)) (compare (v128 C3) (5 * 10 ^ (q3n - 1))) (v128 res) fl).2.1 := by
  have e34 : P34 = 10000000000000000000000000000000000 := rfl
  have hsub : (e4 - 1).toInt = E - 1 := by
    rw [i32_sub _ _ (by rw [hE]; exact ⟨hE1, hE2⟩) (by decide), hE]; rfl
  rcases hfl with rfl | rfl | rfl | rfl | rfl
  · obtain ⟨res', e', a, b, c⟩ := adjK_A q3n delta zs ps C3 res e4 h1 h2 hC3 k
    refine ⟨res', e', a, b, ?_⟩
    rw [c]
    have hsh := adjF_shift (ps == zs) (decide (35 < delta.toInt)) (compare (v128 C3) (5 * 10 ^ (q3n - 1))) (v128 res)
      ⟨false, false, false, false⟩
    generalize adjF (ps == zs) (decide (35 < delta.toInt)) (compare (v128 C3) (5 * 10 ^ (q3n - 1))) (v128 res)
      ⟨false, false, false, false⟩ = A at *
    rcases hsh with h0 | h0
    · rw [h0, if_neg (by decide), hE]; omega
    · rw [h0, if_pos rfl, hsub]; omega
  · rw [adjF_L]
    exact ⟨res, e4, adjK_D _ _ _ _ _ _ _ _ true false rfl k, rfl, by rw [hE]; simp⟩
  · rw [adjF_G]
    exact ⟨res, e4, adjK_D _ _ _ _ _ _ _ _ false true rfl k, rfl, by rw [hE]; simp⟩
  · obtain ⟨res', e', a, b, c⟩ := adjK_B (Int32.ofNat q3n) delta 34 zs ps C3 res e4 false false false hr1 k
    by_cases hs : (ps == zs) = true
    · rw [hs] at a b c ⊢
      rw [adjF_ML_same]
      simp only [if_true] at a b c
      exact ⟨res', e', a, b, by rw [c, hE]; simp⟩
    · have hs' : (ps == zs) = false := by simpa using hs
      rw [hs'] at a b c ⊢
      rw [adjF_ML_opp]
      simp only [Bool.false_eq_true, if_false] at a b c
      by_cases hw : v128 res - 1 = P33 - 1
      · rw [if_pos hw] at b c ⊢
        exact ⟨res', e', a, b, by rw [c, hsub]; simp only []; omega⟩
      · rw [if_neg hw] at b c ⊢
        exact ⟨res', e', a, b, by rw [c, hE]; simp⟩
  · obtain ⟨res', a, b⟩ := adjK_C (Int32.ofNat q3n) delta 34 zs ps C3 res e4 false false (by omega) k
    by_cases hs : (ps == zs) = true
    · rw [hs] at a b ⊢
      rw [adjF_MG_same]
      simp only [if_true] at a b
      exact ⟨res', e4, a, b, by rw [hE]; simp⟩
    · have hs' : (ps == zs) = false := by simpa using hs
      rw [hs'] at a b ⊢
      rw [adjF_MG_opp]
      simp only [Bool.false_eq_true, if_false] at a b
      exact ⟨res', e4, a, b, by rw [hE]; simp⟩

/-! ## 9. Case (7): the block specification -/

/-- the model's sum when the product dominates: sign of the product, magnitude `c4·10^(e4−e3) ± c3` in units of `10^e3` -/
theorem addFin_dom (mode : Mode) (ps zs : Bool) (c4 c3 : Nat) (e4 e3 pref : Int) (hlt : e3 < e4) (h0 : 0 < c3)
    (hc : c3 < 10 ^ (e4 - e3).toNat) (h4 : 0 < c4) :
    addFin mode ps c4 e4 zs c3 e3 pref =
      finish mode ps (if (ps == zs) = true then c4 * 10 ^ (e4 - e3).toNat + c3 else c4 * 10 ^ (e4 - e3).toNat - c3)
        1 e3 pref := by
  unfold addFin
  simp only [if_neg (show ¬ e4 ≤ e3 by omega), Int.sub_self, Int.toNat_zero, Nat.pow_zero, Nat.mul_one]
  have hle : 10 ^ (e4 - e3).toNat ≤ c4 * 10 ^ (e4 - e3).toNat := Nat.le_mul_of_pos_left _ h4
  generalize c4 * 10 ^ (e4 - e3).toNat = P at *
  generalize 10 ^ (e4 - e3).toNat = T at *
  have b1 : (false == true) = false := rfl
  have b2 : (true == false) = false := rfl
  cases ps <;> cases zs <;> simp only [sInt, Bool.false_eq_true, if_false, if_true, beq_self_eq_true, b1, b2]
  · rw [if_neg (by omega), decide_eq_false (by omega)]
    congr 1
  · rw [if_neg (by omega), decide_eq_false (by omega)]
    congr 1; omega
  · rw [if_neg (by omega), decide_eq_true (by omega)]
    congr 1; omega
  · rw [if_neg (by omega), decide_eq_true (by omega)]
    congr 1; omega

theorem deliver_shift (cf : Nat) (e3 : Int) (d : Nat) :
    (deliver cf (e3 + d)).1 = (deliver cf d).1 ∧ (deliver cf (e3 + d)).2 = e3 + (deliver cf d).2 := by
  unfold deliver
  split
  · exact ⟨rfl, by simp only []; omega⟩
  · exact ⟨rfl, rfl⟩

theorem deliver_snd (cf : Nat) (d : Int) : d ≤ (deliver cf d).2 ∧ (deliver cf d).2 ≤ d + 1 := by
  unfold deliver; split <;> simp only [] <;> omega

theorem x0_eq (q4n : Nat) (h : 34 ≤ q4n) : Int32.ofNat q4n - (34 : Int32) = Int32.ofNat (q4n - 34) :=
  (Int32.ofNat_sub q4n 34 h).symm

/-- **Case (7) of `bid128_ext_fma` — block specification.**
ENTRY: `C3` the coefficient of the addend `z ≠ 0` (`0 < c3 < 10^q3`, `q3 ≤ 34`), unbiased exponent `e3`, sign `zs`; `C4` the
exact product (`q4` digits, `35 ≤ q4 ≤ 68`), `e4 = e1 + e2`, sign `ps`; `delta` the NEGATED `q3 + e3 − q4 − e4`; the five
Booleans false; `f` the incoming status word.  CASE CONDITION (`p34 < q4 && q4 <= delta`, as the code tests it): `34 < q4`
(in `hq4`) and `q4 ≤ delta` (`hcase`).
Then the block returns `.ok` of: the encoding of the model's sum `addFin` of product and addend rounded once in the mode asked
for (any preferred exponent: the sum is never exact), and `f` with the model's flags or-ed in; the four indicator out-parameters
describe where the exact sum (magnitude, in units of `10^e3`) lies relative to its NEAREST-EVEN rounding `cf` at some exponent
`e3 + d` (`Pos`: above, below, or at the midpoint below an even `cf`; `is_midpoint_gt_even` is never set) — not relative to
the returned value when the mode is another one. -/
theorem case7_spec (m : RoundingMode) (f : UInt32) (ps zs : Bool) (C3 : U128) (C4 : U256) (q3n q4n : Nat) (e3 e4 : Int)
    (e4w delta : Int32)
    (hq3 : 1 ≤ q3n) (hq3' : q3n ≤ 34) (hc3lo : 0 < v128 C3) (hc3 : v128 C3 < 10 ^ q3n)
    (hq4 : 35 ≤ q4n) (hq4' : q4n ≤ 68) (hc4lo : 10 ^ (q4n - 1) ≤ v256 C4) (hc4 : v256 C4 < 10 ^ q4n)
    (he3 : -6176 ≤ e3) (he3' : e3 ≤ 6111) (he4 : -12352 ≤ e4) (he4' : e4 ≤ 12222)
    (hew : e4w.toInt = e4) (hdelta : delta.toInt = q4n + e4 - q3n - e3) (hcase : (q4n : Int) ≤ delta.toInt)
    (pref : Int) :
    ∃ lt gt ilt igt : Bool,
      case7K (Int32.ofNat q3n) (Int32.ofNat q4n) e4w delta 34 (sgnW zs) (sgnW ps) C3 C4 m false false false false false f =
        .ok (ofBits (encode (addFin (modeOf m) ps (v256 C4) e4 zs (v128 C3) e3 pref).1), lt, gt, ilt, igt,
             f ||| UInt32.ofNat (addFin (modeOf m) ps (v256 C4) e4 zs (v128 C3) e3 pref).2) ∧
      ∃ d cf : Nat, Pos (if (ps == zs) = true then v256 C4 * 10 ^ (e4 - e3).toNat + v128 C3
                          else v256 C4 * 10 ^ (e4 - e3).toNat - v128 C3) (10 ^ d) cf ⟨lt, gt, ilt, igt⟩ := by
  have e34 : P34 = 10000000000000000000000000000000000 := rfl
  have e33 : P33 = 1000000000000000000000000000000000 := rfl
  obtain ⟨x, rfl⟩ : ∃ x, q4n = 34 + x := ⟨q4n - 34, by omega⟩
  obtain ⟨kk, hkk⟩ : ∃ kk : Nat, e4 - e3 = kk := ⟨(e4 - e3).toNat, by omega⟩
  have hkk' : (e4 - e3).toNat = kk := by omega
  rw [case7K_eq, x0_eq _ (by omega), Nat.add_sub_cancel_left]
  -- stage 1
  obtain ⟨res, incr, lt, gt, ilt, igt, hr, sp⟩ := roundK_spec (34 + x) C4 hq4 hq4' hc4lo hc4
    (fun res i a b c d => expK e4w (Int32.ofNat x) i (fun e4 =>
      adjK (Int32.ofNat q3n) delta 34 (sgnW zs) (sgnW ps) C3 res e4 a b c d (fun res e4 a b c d =>
        tailK (sgnW ps) m res e4 a b c d f)))
  rw [Nat.add_sub_cancel_left] at hr sp
  rw [hr, expK_eq]
  have hdig := sp.digits (by omega) (by omega) hc4lo hc4
  rw [show 34 + x - x = 34 by omega, show 34 - 1 = 33 by omega] at hdig
  -- the exponent after stage 2a
  obtain ⟨E, hE⟩ : ∃ E : Int, E = e4 + x + (if incr = true then 1 else 0) := ⟨_, rfl⟩
  have hxI : (Int32.ofNat x).toInt = x := ofNat_toInt x (by omega)
  have hEw : (if incr = true then e4w + Int32.ofNat x + 1 else e4w + Int32.ofNat x).toInt = E := by
    have a1 : (e4w + Int32.ofNat x).toInt = e4 + x := by
      rw [i32_add _ _ (by rw [hew]; omega) (by rw [hxI]; omega), hew, hxI]
    cases incr
    · simp only [Bool.false_eq_true, if_false] at hE ⊢; rw [a1, hE]; omega
    · simp only [if_true] at hE ⊢
      rw [i32_add _ _ (by rw [a1]; omega) (by decide), a1, hE]; rfl
  -- stage 2
  have hQ2 : v256 C4 / 10 ^ x < P34 := by
    rw [Nat.div_lt_iff_lt_mul (Nat.pow_pos (by decide)), show P34 * 10 ^ x = 10 ^ (34 + x) by rw [Nat.pow_add]; rfl]
    exact hc4
  obtain ⟨h, hh0, hh, _⟩ := pow_split x (by omega)
  have hfl : (⟨lt, gt, ilt, igt⟩ : Ind) = ⟨false, false, false, false⟩ ∨ (⟨lt, gt, ilt, igt⟩ : Ind) = ⟨false, false, true, false⟩ ∨
      (⟨lt, gt, ilt, igt⟩ : Ind) = ⟨false, false, false, true⟩ ∨
      (⟨lt, gt, ilt, igt⟩ : Ind) = ⟨true, false, false, false⟩ ∨ (⟨lt, gt, ilt, igt⟩ : Ind) = ⟨false, true, false, false⟩ := by
    rcases spec_cases x (v256 C4) (v128 res) incr ⟨lt, gt, ilt, igt⟩ (by omega) hQ2 sp h hh with
      ⟨_, a, _⟩ | ⟨_, _, a, _⟩ | ⟨_, a, _⟩ | ⟨_, _, a, _⟩ | ⟨_, _, a, _⟩
    · exact Or.inl a
    · exact Or.inr (Or.inl a)
    · exact Or.inr (Or.inr (Or.inl a))
    · exact Or.inr (Or.inr (Or.inr (Or.inl a)))
    · exact Or.inr (Or.inr (Or.inr (Or.inr a)))
  obtain ⟨res', e', ha, hb, hc⟩ := adjK_spec q3n delta zs ps C3 res _ E ⟨lt, gt, ilt, igt⟩ hq3 hq3' hc3
    (by have := hdig.1; omega) (by rw [e34]; exact hdig.2) hEw (by rw [hE]; split <;> omega) (by rw [hE]; split <;> omega) hfl
    (fun res e4 a b c d => tailK (sgnW ps) m res e4 a b c d f)
  simp only [] at ha
  rw [ha]
  -- the mathematics of stage 2
  have hfar : decide (35 < delta.toInt) = decide (q3n + 1 < x + kk) := by
    rw [decide_eq_decide, hdelta]; push_cast; omega
  have hq3kk : q3n ≤ kk := by rw [hdelta] at hcase; push_cast at hcase; omega
  have hgood := adj_math x kk q3n (v256 C4) (v128 C3) (v128 res) incr ⟨lt, gt, ilt, igt⟩ (ps == zs) (by omega)
    (by rw [show 33 + x = 34 + x - 1 by omega]; exact hc4lo) hc4 hq3 hc3lo hc3 hq3kk sp
  rw [← hfar] at hgood
  have hA := adjF_shift (ps == zs) (decide (35 < delta.toInt)) (compare (v128 C3) (5 * 10 ^ (q3n - 1))) (v128 res)
    ⟨lt, gt, ilt, igt⟩
  generalize adjF (ps == zs) (decide (35 < delta.toInt)) (compare (v128 C3) (5 * 10 ^ (q3n - 1))) (v128 res)
    ⟨lt, gt, ilt, igt⟩ = A at *
  obtain ⟨d, cf, g1, g2, g3, g4, g5, g6, g7, g8⟩ := hgood
  obtain ⟨N, hN⟩ : ∃ N, N = (if (ps == zs) = true then v256 C4 * 10 ^ kk + v128 C3 else v256 C4 * 10 ^ kk - v128 C3) := ⟨_, rfl⟩
  rw [← hN] at g3 g5 g6 g7 g8
  have hDpos : 0 < 10 ^ d := Nat.pow_pos (by decide)
  obtain ⟨p1, p2, p3, p4, p5, p6, _⟩ := g3.facts hDpos ps
  obtain ⟨ds1, ds2⟩ := deliver_shift cf e3 d
  obtain ⟨dn1, dn2⟩ := deliver_snd cf (d : Int)
  have hdle : (d : Int) ≤ kk + x + 1 := by
    rw [← g2] at dn1
    rcases hA with h0 | h0 <;> rw [h0] at dn1 <;> split at dn1 <;> omega
  -- stage 3
  obtain ⟨c2, e2, t1, t2, t3, t4, t5, t6⟩ := tailK_spec ps m res' e' A.2.2.midLtEven A.2.2.midGtEven A.2.2.inexLtMid
    A.2.2.inexGtMid f N (10 ^ d) cf (e3 + d) hDpos p1 p2 p3 p4 p5 p6 g4 g5 g6 (by omega) (by omega)
    (by rw [hb, g1, ds1]) (by rw [hc, ds2, ← g2, hE]; omega)
  rw [t1]
  -- the model
  have hfin := finish_rounded (modeOf m) ps N d e3 pref c2 e2 g7 g8 (by unfold eMin; omega) t5 t3 t4 t6 t2
  have hadd := addFin_dom (modeOf m) ps zs (v256 C4) (v128 C3) e4 e3 pref (by omega) hc3lo
    (by rw [hkk']; exact lt_of_lt_of_le hc3 (Nat.pow_le_pow_right (by decide) hq3kk))
    (lt_of_lt_of_le (Nat.pow_pos (by decide)) hc4lo)
  rw [hkk', ← hN] at hadd
  rw [hadd, hfin]
  refine ⟨A.2.2.midLtEven, A.2.2.midGtEven, A.2.2.inexLtMid, A.2.2.inexGtMid, ?_, d, cf, by rw [hkk', ← hN]; exact g3⟩
  by_cases ho : 6111 < e2
  · rw [if_pos ho, if_pos ho, if_pos (show eMax < e2 from ho)]; rfl
  · rw [if_neg ho, if_neg ho, if_neg (show ¬ eMax < e2 from ho)]; rfl

/-- **Case (7) against `fmaD`**: with `C4 = c1·c2` the exact product of the coefficients, `e4 = e1 + e2`, `ps = s1 xor s2` -/
theorem case7_fma (m : RoundingMode) (f : UInt32) (s1 s2 s3 : Bool) (c1 c2 : Nat) (e1 e2 : Int) (C3 : U128) (C4 : U256)
    (q3n q4n : Nat) (e3 : Int) (e4w delta : Int32)
    (hq3 : 1 ≤ q3n) (hq3' : q3n ≤ 34) (hc3lo : 0 < v128 C3) (hc3 : v128 C3 < 10 ^ q3n)
    (hq4 : 35 ≤ q4n) (hq4' : q4n ≤ 68) (hprod : v256 C4 = c1 * c2)
    (hc4lo : 10 ^ (q4n - 1) ≤ c1 * c2) (hc4 : c1 * c2 < 10 ^ q4n)
    (he3 : -6176 ≤ e3) (he3' : e3 ≤ 6111) (he4 : -12352 ≤ e1 + e2) (he4' : e1 + e2 ≤ 12222)
    (hew : e4w.toInt = e1 + e2) (hdelta : delta.toInt = q4n + (e1 + e2) - q3n - e3) (hcase : (q4n : Int) ≤ delta.toInt) :
    ∃ lt gt ilt igt : Bool,
      case7K (Int32.ofNat q3n) (Int32.ofNat q4n) e4w delta 34 (sgnW s3) (sgnW (s1 != s2)) C3 C4 m
          false false false false false f =
        .ok (ofBits (encode (fmaD (modeOf m) false (.fin s1 c1 e1) (.fin s2 c2 e2) (.fin s3 (v128 C3) e3)).1), lt, gt, ilt, igt,
             f ||| UInt32.ofNat (fmaD (modeOf m) false (.fin s1 c1 e1) (.fin s2 c2 e2) (.fin s3 (v128 C3) e3)).2) := by
  obtain ⟨lt, gt, ilt, igt, h, _⟩ := case7_spec m f (s1 != s2) s3 C3 C4 q3n q4n e3 (e1 + e2) e4w delta hq3 hq3' hc3lo hc3 hq4 hq4'
    (by rw [hprod]; exact hc4lo) (by rw [hprod]; exact hc4) he3 he3' he4 he4' hew hdelta hcase
    (if e1 + e2 ≤ e3 then e1 + e2 else e3)
  rw [hprod] at h
  exact ⟨lt, gt, ilt, igt, h⟩

/-! ### examples: the block itself, run on concrete inputs -/

def w256 (n : Nat) : U256 := ⟨UInt64.ofNat n, UInt64.ofNat (n / 2^64), UInt64.ofNat (n / 2^128), UInt64.ofNat (n / 2^192)⟩
def w128 (n : Nat) : U128 := ⟨UInt64.ofNat n, UInt64.ofNat (n / 2^64)⟩

-- product (10^34 + 5)·10^0 (35 digits: a midpoint for the helper, even quotient), addend +3·10^−2, delta = 36, nearest-even:
-- the addend pushes the sum above the midpoint: (10^33 + 1)·10^1, inexact, `is_inexact_gt_midpoint`
example : (case7K 1 35 0 36 34 (sgnW false) (sgnW false) (w128 3) (w256 (10^34 + 5)) .NearestEven
      false false false false false 0).toOption =
    some (ofBits (encode (.fin false (10^33 + 1) 1)), false, false, false, true, 0x20) := by decide +kernel

-- product 10^34·10^0 exactly, addend −5·10^−1, delta = 35: the sum 10^34 − ½ is a midpoint one decade lower; nearest-even
-- gives 10^33·10^1 with `is_midpoint_lt_even`
example : (case7K 1 35 0 35 34 (sgnW true) (sgnW false) (w128 5) (w256 (10^34)) .NearestEven
      false false false false false 0).toOption =
    some (ofBits (encode (.fin false (10^33) 1)), true, false, false, false, 0x20) := by decide +kernel

-- the same toward zero: (10^34 − 1)·10^0 — the correction steps across the decade
example : (case7K 1 35 0 35 34 (sgnW true) (sgnW false) (w128 5) (w256 (10^34)) .TowardZero
      false false false false false 0).toOption =
    some (ofBits (encode (.fin false (10^34 - 1) 0)), true, false, false, false, 0x20) := by decide +kernel

-- addend −6·10^−1: the sum 10^34 − 0.6 rounds to (10^34 − 1)·10^0 already to nearest: the code replaces the coefficient
example : (case7K 1 35 0 35 34 (sgnW true) (sgnW false) (w128 6) (w256 (10^34)) .NearestEven
      false false false false false 0).toOption =
    some (ofBits (encode (.fin false (10^34 - 1) 0)), false, false, true, false, 0x20) := by decide +kernel

-- a 68-digit product at the top of the range, negative, nearest-even: overflow to −Inf, overflow + inexact
example : (case7K 1 68 6077 6144 34 (sgnW false) (sgnW true) (w128 1) (w256 (10^68 - 1)) .NearestEven
      false false false false false 0).toOption =
    some (ofBits (encode (.inf true)), false, false, false, true, 0x28) := by decide +kernel

-- the same through the model: `addFin` (hence `fmaD`) says the same
example : addFin .rne true (10^68 - 1) 6077 false 1 0 0 = (.inf true, 0x28) := by decide +kernel

-- at the overflow boundary: product 10^34·10^6111 (exponent after rounding 6112 > emax), addend −6·10^6110, delta = 35:
-- the sum (10^34 − 0.6)·10^6111 rounds to (10^34 − 1)·10^6111 — finite: the decade step comes BEFORE the overflow test
example : (case7K 1 35 6111 35 34 (sgnW true) (sgnW false) (w128 6) (w256 (10^34)) .NearestEven
      false false false false false 0).toOption =
    some (ofBits (encode (.fin false (10^34 - 1) 6111)), false, false, true, false, 0x20) := by decide +kernel
-- addend −4·10^6110: nearest-even rounds up to 10^33·10^6112: overflow, +Inf
example : (case7K 1 35 6111 35 34 (sgnW true) (sgnW false) (w128 4) (w256 (10^34)) .NearestEven
      false false false false false 0).toOption =
    some (ofBits (encode (.inf false)), false, false, false, true, 0x28) := by decide +kernel
-- the same toward zero: the correction steps back below the decade: (10^34 − 1)·10^6111, inexact only
example : (case7K 1 35 6111 35 34 (sgnW true) (sgnW false) (w128 4) (w256 (10^34)) .TowardZero
      false false false false false 0).toOption =
    some (ofBits (encode (.fin false (10^34 - 1) 6111)), false, false, false, true, 0x20) := by decide +kernel
-- upward: stays 10^33·10^6112: overflow, +Inf;  downward with a negative product: −Inf
example : (case7K 1 35 6111 35 34 (sgnW true) (sgnW false) (w128 4) (w256 (10^34)) .Upward
      false false false false false 0).toOption =
    some (ofBits (encode (.inf false)), false, false, false, true, 0x28) := by decide +kernel
example : (case7K 1 35 6111 35 34 (sgnW false) (sgnW true) (w128 4) (w256 (10^34)) .Downward
      false false false false false 0).toOption =
    some (ofBits (encode (.inf true)), false, false, false, true, 0x28) := by decide +kernel
-- the model says the same
example : addFin .rne false (10^34) 6111 true 6 6110 0 = (.fin false (10^34 - 1) 6111, 0x20) ∧
    addFin .rne false (10^34) 6111 true 4 6110 0 = (.inf false, 0x28) ∧
    addFin .rtz false (10^34) 6111 true 4 6110 0 = (.fin false (10^34 - 1) 6111, 0x20) := by decide +kernel

theorem i32_eq_ofNat (q : Int32) (n : Nat) (h : q.toInt = n) : q = Int32.ofNat n := by
  have := q.toInt_lt
  apply Int32.toInt_inj.1
  rw [h, ofNat_toInt n (by omega)]

/-- `case7_spec` for the assembly: the variables of the routine as they are, with what the invariant says about them -/
theorem case7_spec_vars (m : RoundingMode) (f : UInt32) (ps zs : Bool) (C3 : U128) (C4 : U256) (q3n q4n : Nat) (e3 e4 : Int)
    (q3 q4 e4w delta p34 : Int32) (z_sign p_sign : UInt64)
    (hq3w : q3.toInt = q3n) (hq4w : q4.toInt = q4n) (hp34 : p34 = 34) (hzs : z_sign = sgnW zs) (hps : p_sign = sgnW ps)
    (hq3 : 1 ≤ q3n) (hq3' : q3n ≤ 34) (hc3lo : 0 < v128 C3) (hc3 : v128 C3 < 10 ^ q3n)
    (hq4' : q4n ≤ 68) (hc4lo : 10 ^ (q4n - 1) ≤ v256 C4) (hc4 : v256 C4 < 10 ^ q4n)
    (he3 : -6176 ≤ e3) (he3' : e3 ≤ 6111) (he4 : -12352 ≤ e4) (he4' : e4 ≤ 12222)
    (hew : e4w.toInt = e4) (hdelta : delta.toInt = q4n + e4 - q3n - e3)
    (hcond : ((decide (p34 < q4)) && (decide (q4 ≤ delta))) = true) (pref : Int) :
    ∃ lt gt ilt igt : Bool,
      case7K q3 q4 e4w delta p34 z_sign p_sign C3 C4 m false false false false false f =
        .ok (ofBits (encode (addFin (modeOf m) ps (v256 C4) e4 zs (v128 C3) e3 pref).1), lt, gt, ilt, igt,
             f ||| UInt32.ofNat (addFin (modeOf m) ps (v256 C4) e4 zs (v128 C3) e3 pref).2) := by
  subst hp34 hzs hps
  rw [case7Cond_iff q3 q4 delta, decide_eq_true_eq, hq4w] at hcond
  obtain ⟨lt, gt, ilt, igt, h, _⟩ := case7_spec m f ps zs C3 C4 q3n q4n e3 e4 e4w delta hq3 hq3' hc3lo hc3 (by omega) hq4' hc4lo hc4
    he3 he3' he4 he4' hew hdelta hcond.2 pref
  rw [i32_eq_ofNat q3 q3n hq3w, i32_eq_ofNat q4 q4n hq4w]
  exact ⟨lt, gt, ilt, igt, h⟩

/-! ## 10. Why the swap is harmless for the specification -/

/-- the model's sum does not care which term is called the product: a block that, entered after the swap, returns
`addFin` of (addend, product) has returned `addFin` of (product, addend) — Cases (8), (9), (10), (13), (14), (18) reduce to
Cases (1)–(6) -/
theorem addFin_comm (mode : Mode) (s1 : Bool) (c1 : Nat) (e1 : Int) (s2 : Bool) (c2 : Nat) (e2 : Int) (pref : Int) :
    addFin mode s1 c1 e1 s2 c2 e2 pref = addFin mode s2 c2 e2 s1 c1 e1 pref := by
  unfold addFin
  have hm : (if e1 ≤ e2 then e1 else e2) = (if e2 ≤ e1 then e2 else e1) := by split <;> split <;> omega
  have hz : zeroSumSign mode s1 s2 = zeroSumSign mode s2 s1 := by
    unfold zeroSumSign; cases s1 <;> cases s2 <;> rfl
  simp only [hm, hz, Int.add_comm (sInt s1 _) (sInt s2 _)]

example : addFin .rne false 123 5 true 7 (-2) (-2) = addFin .rne true 7 (-2) false 123 5 (-2) := addFin_comm ..

end Dec.C02GenFmaSwap
