/-
  C02GenFmaZ0Small — the `z = 0` (product-only) path of `bid128_ext_fma` for products of AT MOST 34 DIGITS: the companion of
  `C02GenFmaZ0.z0K_big` (35 to 68 digits), on the building blocks of C02GenFmaZ0 (stage evaluations, `tinySpec`) and
  C02GenFmaZ0B (`prefK_eval`, `round1K_scale`, `finish_exact_pref`).

  A product `N` of `q ≤ 34` digits is exact as it stands; with `E = e1 + e2`:
    `z0K_small_ovf`     `6145 < q + E`  — overflow in every mode: `ovfK` gives infinity in nearest-even, and in the other modes
                        `bid_rounding_correction` (all indicators false, exponent above `emax`) gives the mode's overflow result;
                        number level `finish_overflow` (the value is at least `10^(34 + emax)`);
    `z0K_small_scale`   `6111 < E`, `q + E ≤ 6145` — `round1K` multiplies by `10^(E − emax)`; then as in the normal range;
    `z0K_small_tiny`    `q + E < −6142` — `tinyK` (`C02GenFmaZ0.tinySpec`);
    `z0K_small_normal`  otherwise — `normalK` packs, `prefK` scales towards the addend's exponent (`pref_scale`: that IS what
                        `finish` delivers for the preferred exponent `min (E, e3)`); no flag;
    `z0K_small`         all together, in the form of `z0K_big`.
  Findings: none.
-/
import DecProofs.Properties.C02GenFmaZ0
import DecProofs.Properties.C02GenFmaZ0B
import Mathlib.Tactic.Ring
import Mathlib.Tactic.Linarith
import Mathlib.Tactic.NormNum

set_option linter.unusedSimpArgs false
set_option linter.unusedVariables false

namespace Dec.C02GenFmaZ0Small
open Dec Dec.Rs Dec.Gen.Code Dec.C02GenFmaFront
open Dec.C02GenFmaZ0 Dec.C02GenFmaZ0B
open Dec.C02GenCorrection (ofBits modeOf)
open Dec.C02GenFmaSwap (sgnW sgnW_toNat)
open Dec.RH (Ind)
open Dec.C02GenFmaLow (mk128)

local notation "Out" => (U128 × Bool × Bool × Bool × Bool × UInt32)

/-! ## 1. Number level: a value at or above `10^(34 + emax)` overflows -/

theorem finish_overflow (mode : Mode) (neg : Bool) (N : Nat) (hN : 0 < N) (E pref : Int) (q : Nat)
    (hq : 10 ^ (q - 1) ≤ N) (hq1 : 1 ≤ q) (hov : 6145 < (q : Int) + E) :
    finish mode neg N 1 E pref = (overflowResult mode neg, fOverflow ||| fInexact) := by
  rw [finish_eq_iff mode neg N 1 E pref hN (by norm_num)]
  right; right
  have hge : (10 : ℚ) ^ (34 + eMax) ≤ (N : ℚ) / ((1 : Nat) : ℚ) * (10 : ℚ) ^ E := by
    rw [Nat.cast_one, div_one]
    have h1 : ((10 : ℚ) ^ (q - 1 : Nat)) ≤ (N : ℚ) := by exact_mod_cast hq
    have h2 : (10 : ℚ) ^ (34 + eMax) ≤ (10 : ℚ) ^ ((q - 1 : Nat) : Int) * (10 : ℚ) ^ E := by
      rw [← zpow_add₀ (by norm_num : (10 : ℚ) ≠ 0)]
      apply zpow_le_zpow_right₀ (by norm_num)
      have : eMax = 6111 := rfl
      omega
    calc (10 : ℚ) ^ (34 + eMax) ≤ (10 : ℚ) ^ ((q - 1 : Nat) : Int) * (10 : ℚ) ^ E := h2
      _ ≤ (N : ℚ) * (10 : ℚ) ^ E := by
        apply mul_le_mul_of_nonneg_right _ (zpow_pos (by norm_num) _).le
        rw [zpow_natCast]; exact h1
  obtain ⟨a, b⟩ := overflow_clause mode neg hge
  exact ⟨a, rfl, b⟩

/-! ## 2. The four ranges -/

theorem low_words (C4 : U256) (N : Nat) (hC4 : C4.toNat' = N) (h : N < 10 ^ 34) :
    C4.w1.toNat * 2 ^ 64 + C4.w0.toNat = N := by
  have h0 := C4.w0.toNat_lt; have h1 := C4.w1.toNat_lt
  unfold U256.toNat' at hC4
  omega

theorem restK_eq (C3 : U128) (e3 : Int32) (z_exp : UInt64) (save : UInt32) (p_sign : UInt64) (m : RoundingMode)
    (res : U128) (e4 q4 : Int32) (pf : UInt32) (incr mle mge ilm igm : Bool) (P128 : U128) :
    restK C3 e3 z_exp save p_sign m res e4 q4 pf incr mle mge ilm igm P128 =
      ovfK res e4 q4 pf save p_sign m mle mge ilm igm
        (tinyK res e4 q4 e3 pf save p_sign m incr mle mge ilm igm P128
          (normalK res C3 e4 q4 z_exp pf save p_sign m mle mge ilm igm)) := rfl

/-- the scale towards the preferred exponent and what `finish` says about it -/
theorem pref_scale (mode : Mode) (s : Bool) (N : Nat) (hN : 0 < N) (E pref : Int) (c q : Nat) (e E3 : Int)
    (hval : (N : ℚ) * (10 : ℚ) ^ E = (c : ℚ) * (10 : ℚ) ^ e) (hc : 0 < c) (hq : ndigits c = q) (hq34 : q ≤ 34)
    (he : -6176 ≤ e ∧ e ≤ 6111) (hE3 : -6176 ≤ E3 ∧ E3 ≤ 6111) (hpref : pref = if e ≤ E3 then e else E3) :
    finish mode s N 1 E pref =
      (.fin s (c * 10 ^ (if E3 < e then min (34 - q) (e - E3).toNat else 0))
        (e - ((if E3 < e then min (34 - q) (e - E3).toNat else 0 : Nat) : Int)), 0) := by
  obtain ⟨hlo, hhi⟩ := ndigits_spec hc
  rw [hq] at hlo hhi
  have hq1 : 1 ≤ q := by rw [← hq]; exact ndigits_pos hc
  by_cases hlt : E3 < e
  · rw [if_pos hlt]
    have hp : pref = E3 := by rw [hpref, if_neg (by omega)]
    refine finish_exact_pref mode s N hN E pref c e _ hval hc ?_ (by omega) he.2 (by omega) ?_
    · calc c * 10 ^ min (34 - q) (e - E3).toNat < 10 ^ q * 10 ^ min (34 - q) (e - E3).toNat :=
          Nat.mul_lt_mul_of_pos_right hhi (Nat.pow_pos (by decide))
        _ = 10 ^ (q + min (34 - q) (e - E3).toNat) := (Nat.pow_add ..).symm
        _ ≤ 10 ^ 34 := Nat.pow_le_pow_right (by decide) (by omega)
    · by_cases hm : (e - E3).toNat ≤ 34 - q
      · left; rw [Nat.min_eq_right hm]; omega
      · right
        rw [Nat.min_eq_left (by omega)]
        calc 10 ^ 34 = 10 ^ (q - 1) * 10 ^ (34 - q + 1) := by rw [← Nat.pow_add]; congr 1; omega
          _ ≤ c * 10 ^ (34 - q + 1) := Nat.mul_le_mul_right _ hlo
  · rw [if_neg hlt]
    have hp : pref = e := by rw [hpref, if_pos (by omega)]
    have := finish_exact_pref mode s N hN E pref c e 0 hval hc (by
      rw [Nat.pow_zero, Nat.mul_one]
      exact lt_of_lt_of_le hhi (Nat.pow_le_pow_right (by decide) hq34)) (by omega) he.2 (by omega) (Or.inl (by omega))
    simpa using this

/-- **the normal range**: `−6142 ≤ q + E ≤ 6145`, `E ≤ 6111`: the product is exact; it is packed, and scaled towards the
addend's exponent as far as 34 digits allow -/
theorem z0K_small_normal (m : RoundingMode) (s : Bool) (N : Nat) (hN : 0 < N) (h34 : N < 10 ^ 34) (E : Int)
    (C3 : U128) (hC3 : C3.w1 = 0 ∧ C3.w0 = 0) (C4 : U256) (hC4 : C4.toNat' = N)
    (q4 e3 e4 : Int32) (hq4 : q4.toInt = ndigits N) (he4 : e4.toInt = E) (E3 : Int) (he3 : e3.toInt = E3)
    (hE3 : -6176 ≤ E3 ∧ E3 ≤ 6111) (z_exp : UInt64) (hze : z_exp.toNat = (E3 + 6176).toNat * 2 ^ 49) (f : UInt32)
    (k : Except String Out) (h1 : -6142 ≤ (ndigits N : Int) + E) (h2 : E ≤ 6111) :
    z0K C3 C4 q4 e3 e4 z_exp (sgnW s) m f k =
      .ok (ofBits (encode (finish (modeOf m) s N 1 E (if E ≤ E3 then E else E3)).1), false, false, false, false,
           f ||| UInt32.ofNat (finish (modeOf m) s N 1 E (if E ≤ E3 then E else E3)).2) := by
  have hq34 : ndigits N ≤ 34 := (ndigits_le_iff hN).2 h34
  have hq1 : 1 ≤ ndigits N := ndigits_pos hN
  have hw := low_words C4 N hC4 h34
  have e34 : P34 = 10 ^ 34 := Dec.C13PackHelpers.P34_eq'
  rw [z0K_eq _ _ _ _ _ _ _ _ _ _ hC3,
    round1K_small C4 q4 e4 0 _ (by rw [hq4]; omega) (by rw [hq4]; omega) (by rw [he4]; omega) (by rw [he4]; omega),
    restK_eq,
    ovfK_skip _ _ _ _ _ _ _ _ _ _ _ _ (by rw [hq4]; omega) (by rw [he4]; omega) (by rw [hq4, he4]; omega),
    tinyK_skip _ _ _ _ _ _ _ _ _ _ _ _ _ _ _ (by rw [hq4]; omega) (by rw [he4]; omega) (by rw [hq4, he4]; omega),
    normalK_exact m s N E (by rw [e34]; exact h34) ⟨by omega, h2⟩ e4 he4 ⟨C4.w0, C4.w1⟩ hw C3 q4 z_exp f,
    prefK_eval s N (ndigits N) E E3 hN rfl hq34 ⟨by omega, h2⟩ hE3 C3 q4 hq4 z_exp hze _ _ rfl,
    pref_scale (modeOf m) s N hN E _ N (ndigits N) E E3 rfl hN rfl hq34 ⟨by omega, h2⟩ hE3 rfl]
  exact congrArg (fun g => Except.ok (_, false, false, false, false, g)) (UInt32.or_zero).symm

/-- **the tiny range**: `q + E < −6142`: `tinyK` (its specification `C02GenFmaZ0.tinySpec`) -/
theorem z0K_small_tiny (m : RoundingMode) (s : Bool) (N : Nat) (hN : 0 < N) (h34 : N < 10 ^ 34) (E : Int) (hElo : -12352 ≤ E)
    (C3 : U128) (hC3 : C3.w1 = 0 ∧ C3.w0 = 0) (C4 : U256) (hC4 : C4.toNat' = N)
    (q4 e3 e4 : Int32) (hq4 : q4.toInt = ndigits N) (he4 : e4.toInt = E) (E3 : Int) (he3 : e3.toInt = E3)
    (hE3 : -6176 ≤ E3 ∧ E3 ≤ 6111) (z_exp : UInt64) (f : UInt32)
    (k : Except String Out) (h1 : (ndigits N : Int) + E < -6142) :
    ∃ i : Ind, z0K C3 C4 q4 e3 e4 z_exp (sgnW s) m f k =
      .ok (ofBits (encode (finish (modeOf m) s N 1 E (if E ≤ E3 then E else E3)).1),
           i.midLtEven, i.midGtEven, i.inexLtMid, i.inexGtMid,
           f ||| UInt32.ofNat (finish (modeOf m) s N 1 E (if E ≤ E3 then E else E3)).2) := by
  have hq34 : ndigits N ≤ 34 := (ndigits_le_iff hN).2 h34
  have hq1 : 1 ≤ ndigits N := ndigits_pos hN
  have hw := low_words C4 N hC4 h34
  obtain ⟨i, hi⟩ := tinySpec m s N hN E E3 (by omega) hE3.1 hE3.2 N (ndigits N) 0 false ⟨false, false, false, false⟩
    (Or.inl ⟨rfl, rfl, rfl, hq34, rfl, rfl⟩) ⟨C4.w0, C4.w1⟩ (by unfold U128.toNat'; simp only []; omega) e4 q4 e3
    (by rw [he4]; simp) hq4 he3 0 f default
    (normalK ⟨C4.w0, C4.w1⟩ C3 e4 q4 z_exp 0 f (sgnW s) m false false false false) (by simpa using h1)
  refine ⟨i, ?_⟩
  rw [z0K_eq _ _ _ _ _ _ _ _ _ _ hC3,
    round1K_small C4 q4 e4 0 _ (by rw [hq4]; omega) (by rw [hq4]; omega) (by rw [he4]; omega) (by rw [he4]; omega),
    restK_eq,
    ovfK_skip _ _ _ _ _ _ _ _ _ _ _ _ (by rw [hq4]; omega) (by rw [he4]; omega) (by rw [hq4, he4]; omega),
    hi, or_save]

theorem ndigits_mul_pow (N k : Nat) (hN : 0 < N) : ndigits (N * 10 ^ k) = ndigits N + k := by
  obtain ⟨h1, h2⟩ := ndigits_spec hN
  have hp : 0 < 10 ^ k := Nat.pow_pos (by decide)
  have hq1 : 1 ≤ ndigits N := ndigits_pos hN
  rw [ndigits_eq_iff (Nat.mul_pos hN hp) (by omega)]
  constructor
  · calc 10 ^ (ndigits N + k - 1) = 10 ^ (ndigits N - 1) * 10 ^ k := by rw [← Nat.pow_add]; congr 1; omega
      _ ≤ N * 10 ^ k := Nat.mul_le_mul_right _ h1
  · calc N * 10 ^ k < 10 ^ ndigits N * 10 ^ k := Nat.mul_lt_mul_of_pos_right h2 hp
      _ = 10 ^ (ndigits N + k) := (Nat.pow_add ..).symm

theorem val_shift (N j : Nat) (e0 E : Int) (h : E = e0 + (j : Int)) :
    (N : ℚ) * (10 : ℚ) ^ E = ((N * 10 ^ j : Nat) : ℚ) * (10 : ℚ) ^ e0 := by
  rw [h, zpow_add₀ (by norm_num : (10 : ℚ) ≠ 0), zpow_natCast]; push_cast; ring

/-- **exponent above `emax` with room**: `6111 < E`, `q + E ≤ 6145`: the coefficient is scaled up to the exponent `emax`, then
the normal exact case -/
theorem z0K_small_scale (m : RoundingMode) (s : Bool) (N : Nat) (hN : 0 < N) (h34 : N < 10 ^ 34) (E : Int)
    (C3 : U128) (hC3 : C3.w1 = 0 ∧ C3.w0 = 0) (C4 : U256) (hC4 : C4.toNat' = N)
    (q4 e3 e4 : Int32) (hq4 : q4.toInt = ndigits N) (he4 : e4.toInt = E) (E3 : Int) (he3 : e3.toInt = E3)
    (hE3 : -6176 ≤ E3 ∧ E3 ≤ 6111) (z_exp : UInt64) (hze : z_exp.toNat = (E3 + 6176).toNat * 2 ^ 49) (f : UInt32)
    (k : Except String Out) (h1 : 6111 < E) (h2 : (ndigits N : Int) + E ≤ 6145) :
    z0K C3 C4 q4 e3 e4 z_exp (sgnW s) m f k =
      .ok (ofBits (encode (finish (modeOf m) s N 1 E (if E ≤ E3 then E else E3)).1), false, false, false, false,
           f ||| UInt32.ofNat (finish (modeOf m) s N 1 E (if E ≤ E3 then E else E3)).2) := by
  have hq34 : ndigits N ≤ 34 := (ndigits_le_iff hN).2 h34
  have hq1 : 1 ≤ ndigits N := ndigits_pos hN
  have e34 : P34 = 10 ^ 34 := Dec.C13PackHelpers.P34_eq'
  obtain ⟨j, hj⟩ : ∃ j : Nat, (E - 6111).toNat = j := ⟨_, rfl⟩
  have hjE : E = 6111 + (j : Int) := by omega
  have hcq : ndigits (N * 10 ^ j) = ndigits N + j := ndigits_mul_pow N j hN
  have hcpos : 0 < N * 10 ^ j := Nat.mul_pos hN (Nat.pow_pos (by decide))
  have hclt : N * 10 ^ j < 10 ^ 34 := (ndigits_le_iff hcpos).1 (by rw [hcq]; omega)
  have hsub : (e4 - c_EXP_MAX_UNBIASED).toInt = (j : Int) := by
    rw [i32_sub' e4 c_EXP_MAX_UNBIASED E 6111 he4 emaxI (by omega) (by omega)]; omega
  have hq4' : (q4 + (e4 - c_EXP_MAX_UNBIASED)).toInt = ((ndigits N + j : Nat) : Int) := by
    rw [i32_add' q4 _ _ _ hq4 hsub (by omega) (by omega)]; push_cast; rfl
  have hmk : (mk128 (N * 10 ^ j)).w1.toNat * 2 ^ 64 + (mk128 (N * 10 ^ j)).w0.toNat = N * 10 ^ j := by
    have := Dec.C02GenFmaLow.mk128_val (N * 10 ^ j) (lt_trans hclt (by decide))
    unfold U128.toNat' at this; omega
  have hval : (N : ℚ) * (10 : ℚ) ^ E = ((N * 10 ^ j : Nat) : ℚ) * (10 : ℚ) ^ (6111 : Int) := val_shift N j 6111 E hjE
  have hpref : (if E ≤ E3 then E else E3) = if (6111 : Int) ≤ E3 then 6111 else E3 := by
    rw [if_neg (by omega)]; split <;> omega
  rw [z0K_eq _ _ _ _ _ _ _ _ _ _ hC3,
    round1K_scale C4 N (ndigits N) E hC4 hN rfl hq34 q4 e4 hq4 he4 h1 h2 0 _, hj,
    restK_eq,
    ovfK_skip _ _ _ _ _ _ _ _ _ _ _ _ (by rw [hq4']; omega) (by rw [emaxI]; omega) (by rw [hq4', emaxI]; push_cast; omega),
    tinyK_skip _ _ _ _ _ _ _ _ _ _ _ _ _ _ _ (by rw [hq4']; omega) (by rw [emaxI]; omega) (by rw [hq4', emaxI]; push_cast; omega),
    normalK_exact m s (N * 10 ^ j) 6111 (by rw [e34]; exact hclt) ⟨by decide, le_refl _⟩ c_EXP_MAX_UNBIASED emaxI _ hmk C3 _ z_exp f,
    prefK_eval s (N * 10 ^ j) (ndigits N + j) 6111 E3 hcpos hcq (by omega) ⟨by decide, le_refl _⟩ hE3 C3 _ hq4' z_exp hze _ _ rfl,
    pref_scale (modeOf m) s N hN E _ (N * 10 ^ j) (ndigits N + j) 6111 E3 hval hcpos hcq (by omega) ⟨by decide, le_refl _⟩ hE3
      hpref]
  exact congrArg (fun g => Except.ok (_, false, false, false, false, g)) (UInt32.or_zero).symm

theorem or_sgnW (w : UInt64) (s : Bool) (hw : w.toNat < 2^63) : (w ||| sgnW s).toNat = (if s then 2^63 else 0) + w.toNat := by
  cases s
  · show (w ||| 0).toNat = _
    rw [UInt64.or_zero]; simp
  · rw [UInt64.toNat_or, show (sgnW true).toNat = 1 * 2^63 from rfl, Nat.or_comm,
      Dec.C06GenFromInt.or_disjoint 1 w.toNat 63 hw]
    simp

open Dec.C03GenCompare (sigW negW) in
theorem sig_or (w1 w0 : UInt64) (s : Bool) (h : w1.toNat < 2 ^ 49) :
    sigW (w1 ||| sgnW s).toNat w0.toNat = w1.toNat * 2 ^ 64 + w0.toNat ∧ negW (w1 ||| sgnW s).toNat = s := by
  have hor := or_sgnW w1 s (by omega)
  unfold sigW negW
  rw [hor]
  cases s
  · simp only [Bool.false_eq_true, if_false, Nat.zero_add, decide_eq_false_iff_not]
    constructor
    · rw [Nat.mod_eq_of_lt h]
    · omega
  · simp only [if_true, decide_eq_true_eq]
    constructor
    · have : (2 ^ 63 + w1.toNat) % 2 ^ 49 = w1.toNat := by omega
      rw [this]
    · omega

theorem inf_word (s : Bool) : (⟨0, sgnW s ||| 0x7800000000000000⟩ : U128) = ofBits (encode (.inf s)) := by
  cases s <;> decide +kernel

open Dec.C02GenCorrection (correction_eval outW_eq ovfDatum_model upD downD stepC outF) in
open Dec.C03GenCompare (sigW negW) in
/-- **overflow**: `6145 < q + E` (then `E > emax`): infinity in nearest-even; in the other modes the correction routine delivers
the overflow result of the mode; overflow and inexact -/
theorem z0K_small_ovf (m : RoundingMode) (s : Bool) (N : Nat) (hN : 0 < N) (h34 : N < 10 ^ 34) (E : Int) (hEhi : E ≤ 12222)
    (C3 : U128) (hC3 : C3.w1 = 0 ∧ C3.w0 = 0) (C4 : U256) (hC4 : C4.toNat' = N)
    (q4 e3 e4 : Int32) (hq4 : q4.toInt = ndigits N) (he4 : e4.toInt = E) (E3 : Int)
    (z_exp : UInt64) (f : UInt32) (k : Except String Out) (h1 : 6145 < (ndigits N : Int) + E) :
    z0K C3 C4 q4 e3 e4 z_exp (sgnW s) m f k =
      .ok (ofBits (encode (finish (modeOf m) s N 1 E (if E ≤ E3 then E else E3)).1), false, false, false, false,
           f ||| UInt32.ofNat (finish (modeOf m) s N 1 E (if E ≤ E3 then E else E3)).2) := by
  have hq34 : ndigits N ≤ 34 := (ndigits_le_iff hN).2 h34
  have hq1 : 1 ≤ ndigits N := ndigits_pos hN
  have hw := low_words C4 N hC4 h34
  have e34 : P34 = 10 ^ 34 := Dec.C13PackHelpers.P34_eq'
  rw [finish_overflow (modeOf m) s N hN E _ (ndigits N) (ndigits_spec hN).1 hq1 h1,
    z0K_eq _ _ _ _ _ _ _ _ _ _ hC3,
    round1K_small C4 q4 e4 0 _ (by rw [hq4]; omega) (by rw [hq4]; omega) (by rw [he4]; omega) (by rw [hq4, he4]; omega),
    restK_eq]
  by_cases hm : m = .NearestEven
  · subst hm
    rw [ovfK_rn _ _ _ _ _ _ _ _ _ _ _ (by rw [hq4]; omega) (by rw [he4]; omega) (by rw [hq4, he4]; omega), or_save]
    show Except.ok ((⟨0, sgnW s ||| 0x7800000000000000⟩ : U128), false, false, false, false, f ||| 0x28) = _
    rw [inf_word]
    rfl
  · rw [ovfK_dir _ _ _ _ _ _ m hm _ _ _ _ _ (by rw [hq4]; omega) (by rw [he4]; omega) (by rw [hq4, he4]; omega)]
    have hw1 : C4.w1.toNat < 2 ^ 49 := by
      have : N < 2 ^ 113 := lt_trans h34 (by decide)
      omega
    obtain ⟨hs1, hs2⟩ := sig_or C4.w1 C4.w0 s hw1
    have hsig : sigW (⟨C4.w0, C4.w1 ||| sgnW s⟩ : U128).w1.toNat (⟨C4.w0, C4.w1 ||| sgnW s⟩ : U128).w0.toNat = N := by
      show sigW (C4.w1 ||| sgnW s).toNat C4.w0.toNat = N
      rw [hs1]; exact hw
    have hneg : negW (⟨C4.w0, C4.w1 ||| sgnW s⟩ : U128).w1.toNat = s := hs2
    have hev := correction_eval m false false false false e4 ⟨C4.w0, C4.w1 ||| sgnW s⟩ 0 E N he4 (by omega) (by omega) hsig
      (by rw [e34]; exact h34) (fun _ hd => absurd hd (by cases m <;> cases hx : negW _ <;> simp [downD]))
    rw [hneg, outW_eq, hneg,
      show upD m s false false = false from by cases m <;> cases s <;> rfl,
      show downD m s false false = false from by cases m <;> cases s <;> rfl,
      Dec.C02GenFmaLow.stepC_none] at hev
    simp only [] at hev
    rw [if_pos (show 6111 < E by omega), decide_eq_true (show 6111 < E by omega), ovfDatum_model m s hm] at hev
    rw [hev]
    show Except.ok (_, false, false, false, false, outF (false || false || false || false) false true 0 ||| f) = _
    rw [show outF (false || false || false || false) false true 0 = 0 ||| 0x28 from rfl, or_save]
    rfl

/-! ## 3. Products of at most 34 digits, all ranges -/

/-- **the `z = 0` path for an exact product of at most 34 digits**: `z0K` returns the encoding of `finish` of the product with
the preferred exponent `min (e1 + e2, e3)`, some indicators, and the caller's status word with the flags — overflow
(`6145 < q + E`), scaled from above `emax` (`6111 < E`, room), tiny (`q + E < −6142`), normal (exact, brought towards the
preferred exponent) -/
theorem z0K_small (m : RoundingMode) (s : Bool) (N : Nat) (hN : 0 < N) (h34 : N < 10 ^ 34) (E : Int)
    (hElo : -12352 ≤ E) (hEhi : E ≤ 12222) (C3 : U128) (hC3 : C3.w1 = 0 ∧ C3.w0 = 0) (C4 : U256) (hC4 : C4.toNat' = N)
    (q4 e3 e4 : Int32) (hq4 : q4.toInt = ndigits N) (he4 : e4.toInt = E) (E3 : Int) (he3 : e3.toInt = E3)
    (hE3 : -6176 ≤ E3 ∧ E3 ≤ 6111) (z_exp : UInt64) (hze : z_exp.toNat = (E3 + 6176).toNat * 2 ^ 49) (f : UInt32)
    (k : Except String Out) :
    ∃ i : Ind,
      z0K C3 C4 q4 e3 e4 z_exp (sgnW s) m f k =
        .ok (ofBits (encode (finish (modeOf m) s N 1 E (if E ≤ E3 then E else E3)).1),
             i.midLtEven, i.midGtEven, i.inexLtMid, i.inexGtMid,
             f ||| UInt32.ofNat (finish (modeOf m) s N 1 E (if E ≤ E3 then E else E3)).2) := by
  by_cases ho : 6145 < (ndigits N : Int) + E
  · exact ⟨⟨false, false, false, false⟩,
      z0K_small_ovf m s N hN h34 E hEhi C3 hC3 C4 hC4 q4 e3 e4 hq4 he4 E3 z_exp f k ho⟩
  by_cases hs : 6111 < E
  · exact ⟨⟨false, false, false, false⟩,
      z0K_small_scale m s N hN h34 E C3 hC3 C4 hC4 q4 e3 e4 hq4 he4 E3 he3 hE3 z_exp hze f k hs (by omega)⟩
  by_cases ht : (ndigits N : Int) + E < -6142
  · exact z0K_small_tiny m s N hN h34 E hElo C3 hC3 C4 hC4 q4 e3 e4 hq4 he4 E3 he3 hE3 z_exp f k ht
  · exact ⟨⟨false, false, false, false⟩,
      z0K_small_normal m s N hN h34 E C3 hC3 C4 hC4 q4 e3 e4 hq4 he4 E3 he3 hE3 z_exp hze f k (by omega) (by omega)⟩

end Dec.C02GenFmaZ0Small
