/-
  C02GenFmaMidTop — block "Mid" of `bid128_ext_fma`, assembled: the theorem about the whole block `midBlock`
  (C02GenFmaMid: the code cut into pieces, the mathematics, the piece specifications, the loop;
   C02GenFmaMidB (by the C01GenDiv agent): the set-up of the Cases (2)–(6), the case test, the link to `addFin`).
-/
import DecProofs.Properties.C02GenFmaMidB

set_option linter.unusedSimpArgs false
set_option linter.unusedVariables false

namespace Dec.C02GenFmaMid
open Dec.RH (Ind)
open Dec.Rs Dec.Gen.Code
open Dec.C03GenCompare (val128 val256)
open Dec.C02GenCorrection (modeOf)
open Dec.C02GenFmaMidB (setupK_spec case_test_entry setup_link)

/-- equality of the sign words is equality of the signs -/
theorem sign_words_beq (zs ps : UInt64) (sz sp : Bool) (hzs : zs.toNat = (if sz = true then 1 else 0) * 2 ^ 63)
    (hps : ps.toNat = (if sp = true then 1 else 0) * 2 ^ 63) : (zs == ps) = (sp == sz) := by
  rw [Bool.eq_iff_iff, beq_iff_eq, beq_iff_eq, ← UInt64.toNat_inj, hzs, hps]
  cases sz <;> cases sp <;> simp

set_option maxRecDepth 20000 in
set_option maxHeartbeats 2000000 in
/-- **Cases (2)–(6) of `bid128_ext_fma`** (bid128_fma.rs lines 2515–3160): under the entry invariant of the block (`EntryInv`:
`x·y = ±c4·10^E4` exactly, `z = ±c3·10^E3`, `0 ≤ delta ≤ 33`, indicators and `is_tiny` false) and the case condition as the
code tests it (not: `delta ≤ 1` with opposite signs), for every rounding mode and every incoming status word the block
returns `.ok`: the canonical encoding of the specification's `addFin` — the exact sum of product and addend rounded once,
preferred exponent `min (E4, E3)` — and the status word with the specification's flags or-ed in. -/
theorem midBlock_spec (p1 p2 p3 p4 : Bool) (rm : RoundingMode) (pf : UInt32) (res : U128) (z_sign p_sign tmp_sign : UInt64)
    (C3 : U128) (C4 : U256) (q3 q4 e3 e4 scale ind delta x0 p34 : Int32) (ML0 MG0 L0 G0 incr lsb : Bool)
    (R64 tmp64 : UInt64) (P128 R128 : U128) (P192 R192 : U192) (R256 : U256)
    (c3 c4 : Nat) (E3 E4 : Int) (sz sp : Bool)
    (h : EntryInv C3 C4 q3 q4 e3 e4 delta p34 z_sign p_sign c3 c4 E3 E4 sz sp)
    (hcase : ¬ (delta.toInt ≤ 1 ∧ sp ≠ sz)) :
    ∃ a b c d : Bool,
      midBlock p1 p2 p3 p4 rm pf res z_sign p_sign tmp_sign C3 C4 q3 q4 e3 e4 scale ind delta x0 p34 false false false false
          ML0 MG0 L0 G0 incr lsb false R64 tmp64 P128 R128 P192 R192 R256 =
        .ok (Dec.C17GenNext.ofBits (encode (addFin (modeOf rm) sp c4 E4 sz c3 E3 (if E4 ≤ E3 then E4 else E3)).1), a, b, c, d,
             pf ||| UInt32.ofNat (addFin (modeOf rm) sp c4 E4 sz c3 E3 (if E4 ≤ E3 then E4 else E3)).2) := by
  rw [midBlock_eq, case_test_entry h, if_pos (decide_eq_true hcase)]
  obtain ⟨C4', scale', x0', P128', c4', S, X, m, V, hk, hv4, hsc, hx0, hC4eq, lp, hm, hX0, hX1⟩ :=
    setupK_spec h hcase scale x0 P128 (fun C4 scale x0 P128 =>
      loopLit p1 p2 p3 p4 rm pf res z_sign p_sign C3 C4 q3 q4 e3 scale ind x0 false false false false ML0 MG0 L0 G0 incr lsb false R64
        tmp64 P128 R128 P192 R192 R256)
  rw [hk]
  obtain ⟨hlink, hV0⟩ := setup_link (modeOf rm) sp sz c3 c4 c4' S X E3 E4 m V lp hm hX0 hX1
  have hmx : m ≤ eMax := by
    rw [hm]; have := h.hE3; have : eMax = 6111 := rfl
    split <;> omega
  have hq4 : 1 ≤ X → q4.toInt = ndigits c4' := by
    intro hx
    rw [(hX1 hx).1]; exact h.hq4
  obtain ⟨a, b, c, d, hl⟩ := loop_spec p1 p2 p3 p4 rm pf res z_sign p_sign C3 C4' q3 q4 e3 scale' ind x0' ML0 MG0 L0 G0 incr lsb R64 tmp64
    P128' R128 P192 R192 R256 sz (sp == sz) c3 c4' S X E3 m V h.hC3 h.hq3 hsc hx0 h.he3 hv4 hq4
    (sign_words_beq z_sign p_sign sz sp h.hzs h.hps) h.hzs hmx lp
  refine ⟨a, b, c, d, ?_⟩
  rw [hl, hlink]
  rfl

/-- the same against `fmaD`, for operands given as data: `x = ±c1·10^e1`, `y = ±c2·10^e2` (so `c4 = c1·c2`, `E4 = e1 + e2`,
`sp = sx xor sy`), `z = ±c3·10^E3` -/
theorem fmaD_fin (mode : Mode) (sx sy sz : Bool) (c1 c2 c3 : Nat) (e1 e2 E3 : Int) :
    fmaD mode false (.fin sx c1 e1) (.fin sy c2 e2) (.fin sz c3 E3) =
      addFin mode (sx != sy) (c1 * c2) (e1 + e2) sz c3 E3 (if e1 + e2 ≤ E3 then e1 + e2 else E3) := rfl

/-- **the tail of the block** (lines 3161–3206): when the case condition fails (`delta ≤ 1` and opposite signs: massive
cancellation possible) the block is `tailK`: the operands are handed to `bid_add_and_round` (block "Low"), exchanged in
Case (6), with `delta` negated otherwise -/
theorem midBlock_tail (p1 p2 p3 p4 : Bool) (rm : RoundingMode) (pf : UInt32) (res : U128) (z_sign p_sign tmp_sign : UInt64)
    (C3 : U128) (C4 : U256) (q3 q4 e3 e4 scale ind delta x0 p34 : Int32) (ML MG L G ML0 MG0 L0 G0 incr lsb tiny : Bool)
    (R64 tmp64 : UInt64) (P128 R128 : U128) (P192 R192 : U192) (R256 : U256)
    (c3 c4 : Nat) (E3 E4 : Int) (sz sp : Bool)
    (h : EntryInv C3 C4 q3 q4 e3 e4 delta p34 z_sign p_sign c3 c4 E3 E4 sz sp)
    (hcase : delta.toInt ≤ 1 ∧ sp ≠ sz) :
    midBlock p1 p2 p3 p4 rm pf res z_sign p_sign tmp_sign C3 C4 q3 q4 e3 e4 scale ind delta x0 p34 ML MG L G
        ML0 MG0 L0 G0 incr lsb tiny R64 tmp64 P128 R128 P192 R192 R256 =
      tailK p1 p2 p3 p4 rm pf res z_sign p_sign tmp_sign C3 C4 q3 q4 e3 e4 ind delta p34 ML MG L G P128 := by
  rw [midBlock_eq, case_test_entry h, if_neg (by rw [decide_eq_true_eq]; exact fun hn => hn hcase)]

/-- `tailK`, written out: one call of `bid_add_and_round`, whose result and indicators are returned -/
theorem tailK_eq (p1 p2 p3 p4 : Bool) (rm : RoundingMode) (pf : UInt32) (res : U128) (z_sign p_sign tmp_sign : UInt64)
    (C3 : U128) (C4 : U256) (q3 q4 e3 e4 ind delta p34 : Int32) (ML MG L G : Bool) (P128 : U128) :
    tailK p1 p2 p3 p4 rm pf res z_sign p_sign tmp_sign C3 C4 q3 q4 e3 e4 ind delta p34 ML MG L G P128 =
      (if decide (delta + q4 < q3) = true then
        bid_add_and_round q4 q3 e3 delta p34 p_sign z_sign ⟨C4.w0, C4.w1⟩ ⟨C3.w0, C3.w1, C4.w2, C4.w3⟩ rm ML MG L G pf
       else bid_add_and_round q3 q4 e4 (-delta) p34 z_sign p_sign C3 C4 rm ML MG L G pf).bind
        (fun t => .ok (t.1, t.2.1, t.2.2.1, t.2.2.2.1, t.2.2.2.2.1, t.2.2.2.2.2)) := by
  unfold tailK
  by_cases c : decide (delta + q4 < q3) = true
  · simp only [c, if_true]; rfl
  · simp only [c, if_false, Bool.false_eq_true]; rfl


/-! ### examples: the block itself on concrete operands (evaluated by the kernel), and the theorem instantiated -/

-- 1234567890123456789012345678901234 + 1.5 (same signs; a tie, to the even neighbour: `is_midpoint_lt_even`), nearest-even
example : midBlock false false false false .NearestEven 0 ⟨0, 0⟩ 0 0 0 ⟨0xde825cd07e96aff2, 0x3cde6fff9732⟩ ⟨15, 0, 0, 0⟩ 34 2 0 (-1) 0 0 33 0 34
    false false false false false false false false false false false 0 0 ⟨0, 0⟩ ⟨0, 0⟩ ⟨0, 0, 0⟩ ⟨0, 0, 0⟩ ⟨0, 0, 0, 0⟩ =
    .ok (⟨0xde825cd07e96aff4, 0x30403cde6fff9732⟩, true, false, false, false, 0x20) := by decide +kernel
-- 9999999999999999999999999999999999 + 1.5: the sum has 35 digits, second rounding and repair: 1000000000000000000000000000000000e1
example : midBlock false false false false .NearestEven 0 ⟨0, 0⟩ 0 0 0 ⟨0x378d8e63ffffffff, 0x1ed09bead87c0⟩ ⟨15, 0, 0, 0⟩ 34 2 0 (-1) 0 0 33 0 34
    false false false false false false false false false false false 0 0 ⟨0, 0⟩ ⟨0, 0⟩ ⟨0, 0, 0⟩ ⟨0, 0, 0⟩ ⟨0, 0, 0, 0⟩ =
    .ok (⟨0x38c15b0a00000000, 0x3042314dc6448d93⟩, false, false, true, false, 0x20) := by decide +kernel
-- 1000000000000000000000000000000000 − 1.2345 (opposite signs, toward zero): the leading digit is cancelled, a second turn
-- of the loop gives 9999999999999999999999999999999987e−1
example : midBlock false false false false .TowardZero 0 ⟨0, 0⟩ 0 0x8000000000000000 0 ⟨0x38c15b0a00000000, 0x314dc6448d93⟩ ⟨12345, 0, 0, 0⟩ 34 5 0 (-4) 0 0 33 0 34
    false false false false false false false false false false false 0 0 ⟨0, 0⟩ ⟨0, 0⟩ ⟨0, 0, 0⟩ ⟨0, 0, 0⟩ ⟨0, 0, 0, 0⟩ =
    .ok (⟨0x378d8e63fffffff3, 0x303fed09bead87c0⟩, false, false, false, true, 0x20) := by decide +kernel
-- 100e−6176 + 55e−6180 (rounding upward, incoming status 8): below the least exponent, 101e−6176 with underflow and inexact
example : midBlock false false false false .Upward 8 ⟨0, 0⟩ 0 0 0 ⟨100, 0⟩ ⟨55, 0, 0, 0⟩ 3 2 (-6176) (-6180) 0 0 5 0 34
    false false false false false false false false false false false 0 0 ⟨0, 0⟩ ⟨0, 0⟩ ⟨0, 0, 0⟩ ⟨0, 0, 0⟩ ⟨0, 0, 0, 0⟩ =
    .ok (⟨0x65, 0x0⟩, false, false, true, false, 0x38) := by decide +kernel
-- −5 − 2.5 (Case (3), exact): −75e−1, no flag
example : midBlock false false false false .Downward 0 ⟨0, 0⟩ 0x8000000000000000 0x8000000000000000 0 ⟨5, 0⟩ ⟨25, 0, 0, 0⟩ 1 2 0 (-1) 0 0 0 0 34
    false false false false false false false false false false false 0 0 ⟨0, 0⟩ ⟨0, 0⟩ ⟨0, 0, 0⟩ ⟨0, 0, 0⟩ ⟨0, 0, 0, 0⟩ =
    .ok (⟨0x4b, 0xb03e000000000000⟩, false, false, false, false, 0x0) := by decide +kernel
-- 9999999999999999999999999999999999e6111 + 60e6110 (toward zero): the carry overflows: largest finite number, overflow and inexact
example : midBlock false false false false .TowardZero 0 ⟨0, 0⟩ 0 0 0 ⟨0x378d8e63ffffffff, 0x1ed09bead87c0⟩ ⟨60, 0, 0, 0⟩ 34 2 6111 6110 0 0 33 0 34
    false false false false false false false false false false false 0 0 ⟨0, 0⟩ ⟨0, 0⟩ ⟨0, 0, 0⟩ ⟨0, 0, 0⟩ ⟨0, 0, 0, 0⟩ =
    .ok (⟨0x378d8e63ffffffff, 0x5fffed09bead87c0⟩, false, true, false, false, 0x28) := by decide +kernel

/-- the entry invariant for the first example: `z = +1234567890123456789012345678901234`, `x·y = +15·10^−1`, `delta = 33` -/
example : EntryInv ⟨0xde825cd07e96aff2, 0x3cde6fff9732⟩ ⟨15, 0, 0, 0⟩ 34 2 0 (-1) 33 34 0 0
    1234567890123456789012345678901234 15 0 (-1) false false :=
  ⟨by decide, by decide, by decide +kernel, rfl, by decide, by decide, by decide, by decide +kernel, rfl, by decide, by decide +kernel,
    by decide, rfl, by decide, by decide⟩

/-- `midBlock_spec` on it, and what the specification says there: `…1236`, inexact -/
example : addFin .rne false 15 (-1) false 1234567890123456789012345678901234 0 (-1) =
    (.fin false 1234567890123456789012345678901236 0, fInexact) := by decide +kernel

end Dec.C02GenFmaMid
