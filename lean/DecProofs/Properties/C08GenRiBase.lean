/-
  C08GenRiBase — shared part of the proofs about the round-to-integral routines of bid128_round_integral.rs as translated
  in `DecGen/Code.lean`: the specification (`riD`, `riFlags`), the structure all seven routines share (`frontEnd`: NaN /
  infinity / zero answered, finite non-zero operands handed on; `countQ`: the digit-count block), the front-end theorem
  `frontEnd_cases`, the digit-count theorem `countQ_spec` (with the `f64` exponent trick `f64_trick`), the table reads, the
  error analysis of the reciprocal multiplication (`recip_core`, bundled with everything the code reads as `Recip`), the
  three word-position forms of quotient and discarded part, and the inexactness test (`Recip.geA/geB/geC`).
-/
import DecGen.Code
import DecModel.Misc
import DecModel.Ops
import DecProofs.Core.Codec
import DecProofs.Core.Digits
import DecProofs.TableFacts.Mechanisms
import DecProofs.TableFacts.NrDigits
import DecProofs.Properties.C03GenCompare
import DecProofs.Properties.C06GenFromInt
import DecProofs.Properties.C08
import Mathlib.Tactic.SplitIfs
import Mathlib.Tactic.Ring
import Mathlib.Tactic.Linarith


set_option linter.unusedSimpArgs false
set_option linter.unusedVariables false

namespace Dec.C08GenRoundIntegral
open Dec.Rs Dec.Gen.Code Dec.C03GenCompare

/-- the `U128` holding a 128-bit pattern -/
abbrev ofBits (b : Nat) : U128 := Dec.C06GenFromInt.ofBits b

theorem eq_ofBits {r : U128} {n : Nat} (h : bitsOf r = n) : r = ofBits n :=
  Dec.C06GenFromInt.eq_ofBits h

/-! ## 0. The specification -/

/-- the result datum of a round-to-integral operation in direction `mode`: a NaN operand gives the quieted NaN with the
same sign and payload (`nanRule` of `DecModel.Ops`), every other operand `toIntegralD` -/
def riD (mode : Mode) (d : Datum) : Datum := if d.isNaN then quietNaN d else (toIntegralD mode d).1

/-- the status word after a round-to-integral operation that does not signal inexact: `invalid` (0x01) is or-ed in iff
the operand is a signalling NaN -/
def riFlags (f : UInt32) (d : Datum) : UInt32 := if d.isSNaN then f ||| 1 else f

/-! ## 1. The structure of the routines -/

/-- the result for an infinity or a NaN (all seven routines) -/
def specialRes (x : U128) (f : UInt32) : Except String (U128 × UInt32) :=
  if (x.w1 &&& c_MASK_NAN == c_MASK_NAN) = true then
    if (decide (x.w1 &&& 0x3fffffffffff > 0x314dc6448d93) ||
        x.w1 &&& 0x3fffffffffff == 0x314dc6448d93 && decide (x.w0 > 0x38c15b09ffffffff)) = true then
      if (x.w1 &&& 0xffffc00000000000 &&& c_MASK_SNAN == c_MASK_SNAN) = true then
        .ok (⟨0, x.w1 &&& 0xffffc00000000000 &&& 0xfc003fffffffffff⟩, f ||| c_StatusFlags_BID_INVALID_EXCEPTION)
      else .ok (⟨0, x.w1 &&& 0xffffc00000000000 &&& 0xfc003fffffffffff⟩, f)
    else if (x.w1 &&& c_MASK_SNAN == c_MASK_SNAN) = true then
      .ok (⟨x.w0, x.w1 &&& 0xfc003fffffffffff⟩, f ||| c_StatusFlags_BID_INVALID_EXCEPTION)
    else .ok (⟨x.w0, x.w1 &&& 0xfc003fffffffffff⟩, f)
  else if (x.w1 &&& c_MASK_SIGN == 0) = true then .ok (⟨0, 0x7800000000000000⟩, f)
  else .ok (⟨0, 0xf800000000000000⟩, f)

/-- the result for a zero whose exponent word is `e` -/
def zeroRes (x : U128) (e : UInt64) : U128 :=
  ⟨0, if decide (e ≤ (6176 : UInt64) <<< 49) = true then x.w1 &&& 0x8000000000000000 ||| 0x3040000000000000
      else x.w1 &&& c_MASK_SIGN ||| e⟩

/-- the part common to all seven routines: special operands and zeros are answered, finite non-zero canonical operands are
handed on as sign word, exponent word and coefficient -/
def frontEnd (x : U128) (f : UInt32) (k : UInt64 → UInt64 → U128 → Except String (U128 × UInt32)) :
    Except String (U128 × UInt32) :=
  if (x.w1 &&& c_MASK_SPECIAL == c_MASK_SPECIAL) = true then specialRes x f
  else if (x.w1 &&& 0x6000000000000000 == 0x6000000000000000) = true then .ok (zeroRes x (x.w1 <<< 2 &&& c_MASK_EXP), f)
  else if (decide (x.w1 &&& c_MASK_COEFF > 0x1ed09bead87c0) ||
      x.w1 &&& c_MASK_COEFF == 0x1ed09bead87c0 && decide (x.w0 > 0x378d8e63ffffffff)) = true then
    .ok (zeroRes x (x.w1 &&& c_MASK_EXP), f)
  else if (x.w1 &&& c_MASK_COEFF == 0 && x.w0 == 0) = true then .ok (zeroRes x (x.w1 &&& c_MASK_EXP), f)
  else k (x.w1 &&& c_MASK_SIGN) (x.w1 &&& c_MASK_EXP) ⟨x.w0, x.w1 &&& c_MASK_COEFF⟩

/-- the bit length of the coefficient as the code obtains it (exponent field of a conversion to `f64`) -/
def nrBits (C : U128) : UInt64 :=
  if (C.w1 == 0) = true then
    if decide (C.w0 ≥ 0x20000000000000) = true then
      UInt64.ofInt (toI ((33 : UInt32) + ((UInt32.ofInt (toI ((F64U.ofU64 (UInt64.ofInt (toI (C.w0 >>> 32)))).bits >>> 52)) &&& 2047) - 1023)))
    else UInt64.ofInt (toI ((1 : UInt32) + ((UInt32.ofInt (toI ((F64U.ofU64 (UInt64.ofInt (toI C.w0))).bits >>> 52)) &&& 2047) - 1023)))
  else UInt64.ofInt (toI ((65 : UInt32) + ((UInt32.ofInt (toI ((F64U.ofU64 (UInt64.ofInt (toI C.w1))).bits >>> 52)) &&& 2047) - 1023)))

/-- the digit count block -/
def countQ (C : U128) : Except String Int32 :=
  (tblDD Dec.Gen.BID_NR_DIGITS (nrBits C - 1)).bind fun v =>
    if (Int32.ofInt (toI v.digits) == 0) = true then
      if (decide (C.w1 > v.threshold_hi) || (C.w1 == v.threshold_hi && decide (C.w0 ≥ v.threshold_lo))) = true then
        .ok (Int32.ofInt (toI v.digits1) + 1)
      else .ok (Int32.ofInt (toI v.digits1))
    else .ok (Int32.ofInt (toI v.digits))

/-- the exponent as the code computes it from the exponent word -/
abbrev expOf (e : UInt64) : Int32 := Int32.ofInt (toI (e >>> 49 - 6176))

/-- the three ways through the digit count proper, after the bit length has been fixed -/
syntax "ri_digits " term:max term:max : tactic
macro_rules
  | `(tactic| ri_digits $c1 $c0) => `(tactic|
    (generalize hT : tblDD Dec.Gen.BID_NR_DIGITS _ = T
     cases T with
     | error e => rfl
     | ok v =>
       simp only []
       by_cases h8 : (Int32.ofInt (toI v.digits) == 0) = true
       · by_cases h9 : decide ($c1 > v.threshold_hi) = true
         · simp only [h8, h9, if_true, Bool.true_or]
           first | done | rfl
         · by_cases h10 : ($c1 == v.threshold_hi) = true
           · by_cases h11 : decide ($c0 ≥ v.threshold_lo) = true
             · simp only [h8, h9, h10, h11, if_true, if_false, Bool.false_eq_true, Bool.false_or, Bool.true_and, Bool.and_true]
               first | done | rfl
             · simp only [h8, h9, h10, h11, if_true, if_false, Bool.false_eq_true, Bool.false_or, Bool.true_and, Bool.and_false]
               first | done | rfl
           · simp only [h8, h9, h10, if_true, if_false, Bool.false_eq_true, Bool.false_or, Bool.false_and]
             first | done | rfl
       · simp only [h8, if_false, Bool.false_eq_true]
         first | done | rfl))

/-- the digit-count block of the translation with the rest of the routine as a continuation (the translated block itself;
`withQ_eq` relates it to `countQ`) -/
def withQ {α : Type} (C1 : U128) (k : Int32 → Except String α) : Except String α := do
  let mut tmp1 : F64U := default
  let mut x_nr_bits : UInt64 := default
  let mut q : Int32 := default
  if (C1.w1 == (0 : UInt64)) then
    if (decide (C1.w0 ≥ (0x20000000000000 : UInt64))) then
      tmp1 := (F64U.ofU64 (UInt64.ofInt (toI ((C1.w0 >>> 0x20)))))
      x_nr_bits := (UInt64.ofInt (toI (((0x21 : UInt32) + ((((((UInt32.ofInt (toI ((tmp1.bits >>> 0x34))))) &&& (0x7ff : UInt32))) - (0x3ff : UInt32)))))))
    else
      tmp1 := (F64U.ofU64 (UInt64.ofInt (toI C1.w0)))
      x_nr_bits := (UInt64.ofInt (toI (((1 : UInt32) + ((((((UInt32.ofInt (toI ((tmp1.bits >>> 0x34))))) &&& (0x7ff : UInt32))) - (0x3ff : UInt32)))))))
  else
    tmp1 := (F64U.ofU64 (UInt64.ofInt (toI C1.w1)))
    x_nr_bits := (UInt64.ofInt (toI (((0x41 : UInt32) + ((((((UInt32.ofInt (toI ((tmp1.bits >>> 0x34))))) &&& (0x7ff : UInt32))) - (0x3ff : UInt32)))))))
  q := (Int32.ofInt (toI ((← tblDD Dec.Gen.BID_NR_DIGITS (x_nr_bits - (1 : UInt64))).digits)))
  if (q == (0 : Int32)) then
    q := (Int32.ofInt (toI ((← tblDD Dec.Gen.BID_NR_DIGITS (x_nr_bits - (1 : UInt64))).digits1)))
    if (← (if (decide (C1.w1 > (← tblDD Dec.Gen.BID_NR_DIGITS (x_nr_bits - (1 : UInt64))).threshold_hi)) then pure true else (do pure ((← (if (C1.w1 == (← tblDD Dec.Gen.BID_NR_DIGITS (x_nr_bits - (1 : UInt64))).threshold_hi) then (do pure (decide (C1.w0 ≥ (← tblDD Dec.Gen.BID_NR_DIGITS (x_nr_bits - (1 : UInt64))).threshold_lo))) else pure false)))))) then
      q := (q + 1)
  k q

/-- `frontEnd` in the shape of the routines that assign the zero result in an `if` statement -/
def frontEndB (x : U128) (f : UInt32) (k : UInt64 → UInt64 → U128 → Except String (U128 × UInt32)) :
    Except String (U128 × UInt32) :=
  if (x.w1 &&& c_MASK_SPECIAL == c_MASK_SPECIAL) = true then specialRes x f
  else if (x.w1 &&& 0x6000000000000000 == 0x6000000000000000) = true then
    if decide (x.w1 <<< 2 &&& c_MASK_EXP ≤ (6176 : UInt64) <<< 49) = true then
      .ok (⟨0, x.w1 &&& 0x8000000000000000 ||| 0x3040000000000000⟩, f)
    else .ok (⟨0, x.w1 &&& c_MASK_SIGN ||| x.w1 <<< 2 &&& c_MASK_EXP⟩, f)
  else if (decide (x.w1 &&& c_MASK_COEFF > 0x1ed09bead87c0) ||
      x.w1 &&& c_MASK_COEFF == 0x1ed09bead87c0 && decide (x.w0 > 0x378d8e63ffffffff)) = true then
    if decide (x.w1 &&& c_MASK_EXP ≤ (6176 : UInt64) <<< 49) = true then
      .ok (⟨0, x.w1 &&& 0x8000000000000000 ||| 0x3040000000000000⟩, f)
    else .ok (⟨0, x.w1 &&& c_MASK_SIGN ||| x.w1 &&& c_MASK_EXP⟩, f)
  else if (x.w1 &&& c_MASK_COEFF == 0 && x.w0 == 0) = true then
    if decide (x.w1 &&& c_MASK_EXP ≤ (6176 : UInt64) <<< 49) = true then
      .ok (⟨0, x.w1 &&& 0x8000000000000000 ||| 0x3040000000000000⟩, f)
    else .ok (⟨0, x.w1 &&& c_MASK_SIGN ||| x.w1 &&& c_MASK_EXP⟩, f)
  else k (x.w1 &&& c_MASK_SIGN) (x.w1 &&& c_MASK_EXP) ⟨x.w0, x.w1 &&& c_MASK_COEFF⟩

theorem withQ_eq {α : Type} (C : U128) (k : Int32 → Except String α) : withQ C k = (countQ C).bind k := by
  simp only [withQ, countQ, nrBits, bind, Except.bind, pure, Except.pure]
  by_cases h6 : (C.w1 == 0) = true
  · by_cases h7 : decide (C.w0 ≥ 9007199254740992) = true
    · simp only [h6, h7, if_true, if_false, Bool.false_eq_true]
      ri_digits (C.w1) (C.w0)
    · simp only [h6, h7, if_true, if_false, Bool.false_eq_true]
      ri_digits (C.w1) (C.w0)
  · simp only [h6, if_true, if_false, Bool.false_eq_true]
    ri_digits (C.w1) (C.w0)

theorem frontEndB_eq (x : U128) (f : UInt32) (k : UInt64 → UInt64 → U128 → Except String (U128 × UInt32)) :
    frontEndB x f k = frontEnd x f k := by
  unfold frontEndB frontEnd zeroRes
  by_cases h1 : decide (x.w1 <<< 2 &&& c_MASK_EXP ≤ (6176 : UInt64) <<< 49) = true <;>
  by_cases h2 : decide (x.w1 &&& c_MASK_EXP ≤ (6176 : UInt64) <<< 49) = true <;>
  simp only [h1, h2, if_true, if_false, Bool.false_eq_true]


/-! ### the bit-field tests of the front end -/

theorem special_test (w : UInt64) : (w &&& c_MASK_SPECIAL == c_MASK_SPECIAL) = decide (w.toNat / 2^59 % 16 = 15) := inf_test w
theorem nan_test' (w : UInt64) : (w &&& c_MASK_NAN == c_MASK_NAN) = decide (w.toNat / 2^58 % 32 = 31) := nan_test w
theorem snan_test' (w : UInt64) : (w &&& c_MASK_SNAN == c_MASK_SNAN) = decide (w.toNat / 2^57 % 64 = 63) := snan_test w

theorem sign_zero_test (w : UInt64) : (w &&& c_MASK_SIGN == 0) = decide (w.toNat / 2^63 % 2 = 0) := by
  rw [Bool.eq_iff_iff, beq_iff_eq, decide_eq_true_eq, ← UInt64.toNat_inj,
    toNat_and_field w c_MASK_SIGN 1 63 (by decide), UInt64.toNat_zero]
  omega

theorem payload_test (x : U128) :
    (decide (x.w1 &&& 0x3fffffffffff > 0x314dc6448d93) ||
        x.w1 &&& 0x3fffffffffff == 0x314dc6448d93 && decide (x.w0 > 0x38c15b09ffffffff))
      = decide (P33 ≤ x.w1.toNat % 2^46 * 2^64 + x.w0.toNat) := by
  rw [gt128, Dec.C06GenFromInt.and_low _ _ 46 (by rfl), decide_eq_decide]
  rw [show (0x314dc6448d93 : UInt64).toNat = 0x314dc6448d93 from rfl,
    show (0x38c15b09ffffffff : UInt64).toNat = 0x38c15b09ffffffff from rfl]
  unfold P33
  omega

theorem bigcoeff_test (x : U128) :
    (decide (x.w1 &&& c_MASK_COEFF > 0x1ed09bead87c0) ||
      x.w1 &&& c_MASK_COEFF == 0x1ed09bead87c0 && decide (x.w0 > 0x378d8e63ffffffff))
      = decide (P34 ≤ sigW x.w1.toNat x.w0.toNat) := by
  rw [gt128, show c_MASK_COEFF = 0x1ffffffffffff from rfl, coeff_hi, decide_eq_decide]
  rw [show (0x1ed09bead87c0 : UInt64).toNat = 0x1ed09bead87c0 from rfl,
    show (0x378d8e63ffffffff : UInt64).toNat = 0x378d8e63ffffffff from rfl]
  unfold P34 sigW
  omega

theorem zerocoeff_test (x : U128) :
    (x.w1 &&& c_MASK_COEFF == 0 && x.w0 == 0) = decide (sigW x.w1.toNat x.w0.toNat = 0) := by
  rw [zero128, show c_MASK_COEFF = 0x1ffffffffffff from rfl, coeff_hi]
  rfl

/-! ### the model side of the special cases -/

theorem riD_nan (mode : Mode) (s g : Bool) (p : Nat) : riD mode (.nan s g p) = .nan s false p := rfl
theorem riD_inf (mode : Mode) (s : Bool) : riD mode (.inf s) = .inf s := rfl
theorem riD_fin (mode : Mode) (s : Bool) (c : Nat) (e : Int) : riD mode (.fin s c e) = (toIntegralD mode (.fin s c e)).1 := rfl

theorem riD_zero (mode : Mode) (s : Bool) (e : Int) : riD mode (.fin s 0 e) = .fin s 0 (if 0 ≤ e then e else 0) := by
  rw [riD_fin]
  by_cases h : 0 ≤ e
  · rw [C08.integral_unchanged mode s 0 e h, if_pos h]
  · rw [C08.integral_rounded mode s 0 e (by omega), if_neg h]
    simp [roundInt, roundUp]

/-! ## 2. Front end: NaN, infinity, zero -/

theorem bitsOf_mk (a b : UInt64) : bitsOf ⟨a, b⟩ = b.toNat * 2^64 + a.toNat := rfl

theorem mask_fc (w : UInt64) : (w &&& 0xfc003fffffffffff).toNat = w.toNat / 2^58 % 2^6 * 2^58 + w.toNat % 2^46 := by
  have e : (0xfc003fffffffffff : UInt64).toNat = (2^6 - 1) * 2^58 ||| (2^46 - 1) := by decide
  rw [UInt64.toNat_and, e, Nat.and_or_distrib_left, Dec.C06GenFromInt.and_field, Nat.and_two_pow_sub_one_eq_mod, Nat.mul_comm,
    ← Nat.two_pow_add_eq_or_of_lt (by omega)]

theorem mask_clear (w : UInt64) : (w &&& 0xffffc00000000000 &&& 0xfc003fffffffffff).toNat = w.toNat / 2^58 % 2^6 * 2^58 := by
  rw [UInt64.and_assoc, show (0xffffc00000000000 &&& 0xfc003fffffffffff : UInt64) = 0xfc00000000000000 from by decide]
  exact toNat_and_field w _ 6 58 (by decide)

theorem snan_clear (w : UInt64) : (w &&& 0xffffc00000000000 &&& c_MASK_SNAN == c_MASK_SNAN) = decide (w.toNat / 2^57 % 64 = 63) := by
  rw [UInt64.and_assoc, show (0xffffc00000000000 &&& c_MASK_SNAN : UInt64) = c_MASK_SNAN from by decide]
  exact snan_test w

/-- **NaN and infinity** (all seven routines, all directions): the quieted canonical NaN with `invalid` for a signalling one,
the canonical infinity. -/
theorem specialRes_spec (mode : Mode) (x : U128) (f : UInt32) (h : x.w1.toNat / 2^59 % 16 = 15) :
    specialRes x f = .ok (ofBits (encode (riD mode (decode (bitsOf x)))), riFlags f (decode (bitsOf x))) := by
  have hl := x.w0.toNat_lt
  have hh := x.w1.toNat_lt
  rw [decode_bitsOf]
  unfold specialRes
  rw [nan_test', payload_test, snan_clear, snan_test', sign_zero_test]
  by_cases h2 : x.w1.toNat / 2^58 % 2 = 0
  · -- infinity
    have hd : decodeW x.w1.toNat x.w0.toNat = .inf (decide (x.w1.toNat / 2^63 % 2 = 1)) := by
      simp only [decodeW, h, h2, if_true]
    rw [hd, riD_inf, if_neg (by simp only [decide_eq_true_eq]; omega)]
    by_cases hs : x.w1.toNat / 2^63 % 2 = 0
    · rw [if_pos (by simpa using hs), show decide (x.w1.toNat / 2^63 % 2 = 1) = false from by simp; omega]
      rfl
    · rw [if_neg (by simpa using hs), show decide (x.w1.toNat / 2^63 % 2 = 1) = true from by simp; omega]
      rfl
  · -- NaN
    have hn : x.w1.toNat / 2^58 % 32 = 31 := by omega
    have hd : decodeW x.w1.toNat x.w0.toNat = .nan (decide (x.w1.toNat / 2^63 % 2 = 1)) (decide (x.w1.toNat / 2^57 % 2 = 1))
        (if x.w1.toNat % 2^46 * 2^64 + x.w0.toNat < P33 then x.w1.toNat % 2^46 * 2^64 + x.w0.toNat else 0) := by
      simp only [decodeW, h, h2, if_true, if_false]
    have hsn : decide (x.w1.toNat / 2^57 % 64 = 63) = decide (x.w1.toNat / 2^57 % 2 = 1) := by
      rw [decide_eq_decide]; omega
    rw [hd, riD_nan, if_pos (by simpa using hn), hsn]
    have hfl : ∀ (r : U128), (if decide (x.w1.toNat / 2^57 % 2 = 1) = true then
          (Except.ok (r, f ||| c_StatusFlags_BID_INVALID_EXCEPTION) : Except String (U128 × UInt32)) else .ok (r, f)) =
        .ok (r, riFlags f (.nan (decide (x.w1.toNat / 2^63 % 2 = 1)) (decide (x.w1.toNat / 2^57 % 2 = 1))
          (if x.w1.toNat % 2^46 * 2^64 + x.w0.toNat < P33 then x.w1.toNat % 2^46 * 2^64 + x.w0.toNat else 0))) := by
      intro r; unfold riFlags; simp only [Datum.isSNaN]
      by_cases hq : decide (x.w1.toNat / 2^57 % 2 = 1) = true
      · simp only [hq, if_true]; rfl
      · simp only [hq, if_false, Bool.false_eq_true]
    rw [hfl, hfl]
    have henc : ∀ p, p < 2^110 → encode (.nan (decide (x.w1.toNat / 2^63 % 2 = 1)) false p)
        = (x.w1.toNat / 2^58 % 2^6 * 2^58) * 2^64 + p := by
      intro p hp
      have e1 : encode (.nan (decide (x.w1.toNat / 2^63 % 2 = 1)) false p)
          = (if x.w1.toNat / 2^63 % 2 = 1 then 2^127 else 0) + 0x7c * 2^120 + p := by
        simp only [encode, signBit, decide_eq_true_eq, Bool.false_eq_true, if_false, Nat.add_zero, Nat.reducePow, Nat.reduceMul]
      rw [e1]
      split <;> omega
    by_cases hp : P33 ≤ x.w1.toNat % 2^46 * 2^64 + x.w0.toNat
    · rw [if_pos (by simpa using hp), if_neg (by omega)]
      rw [eq_ofBits (r := ⟨0, x.w1 &&& 0xffffc00000000000 &&& 0xfc003fffffffffff⟩) (n := encode (.nan (decide (x.w1.toNat / 2^63 % 2 = 1)) false 0))
        (by rw [bitsOf_mk, mask_clear, henc 0 (by omega)]; rfl)]
    · rw [if_neg (by simpa using hp), if_pos (by omega)]
      rw [eq_ofBits (r := ⟨x.w0, x.w1 &&& 0xfc003fffffffffff⟩)
        (n := encode (.nan (decide (x.w1.toNat / 2^63 % 2 = 1)) false (x.w1.toNat % 2^46 * 2^64 + x.w0.toNat)))
        (by rw [bitsOf_mk, mask_fc, henc _ (by unfold P33 at hp; omega)]; omega)]


theorem sign_word (w : UInt64) : (w &&& c_MASK_SIGN).toNat = w.toNat / 2^63 % 2 * 2^63 := by
  rw [toNat_and_field w c_MASK_SIGN 1 63 (by decide), Nat.pow_one]

theorem exp_word (w : UInt64) : (w &&& c_MASK_EXP).toNat = w.toNat / 2^49 % 2^14 * 2^49 := by
  rw [toNat_and_field w c_MASK_EXP 14 49 (by decide)]

theorem exp_word_large (w : UInt64) : (w <<< 2 &&& c_MASK_EXP).toNat = w.toNat / 2^47 % 2^14 * 2^49 := by
  have := w.toNat_lt
  rw [toNat_and_field _ c_MASK_EXP 14 49 (by decide), UInt64.toNat_shiftLeft, Nat.shiftLeft_eq]
  show w.toNat * 2^2 % 2^64 / 2^49 % 2^14 * 2^49 = _
  omega

theorem or_sign (a b : UInt64) (hb : b.toNat < 2^63) : (a &&& c_MASK_SIGN ||| b).toNat = a.toNat / 2^63 % 2 * 2^63 + b.toNat := by
  rw [UInt64.toNat_or, sign_word, Dec.C06GenFromInt.or_disjoint _ _ _ hb]

theorem encode_fin (s : Bool) (c : Nat) (E : Nat) :
    encode (.fin s c ((E : Int) - 6176)) = (if s then 2^127 else 0) + E * 2^113 + c := by
  simp only [encode, signBit]
  rw [show ((E : Int) - 6176 + 6176).toNat = E by omega]

/-- **zeros** (all seven routines, all directions): the zero of the same sign with the exponent `max(e, 0)` -/
theorem zeroRes_spec (mode : Mode) (x : U128) (e : UInt64) (E : Nat) (hE : E < 2^14) (he : e.toNat = E * 2^49) :
    zeroRes x e = ofBits (encode (riD mode (.fin (decide (x.w1.toNat / 2^63 % 2 = 1)) 0 ((E : Int) - 6176)))) := by
  have hh := x.w1.toNat_lt
  apply eq_ofBits
  rw [riD_zero]
  unfold zeroRes
  rw [bitsOf_mk, UInt64.toNat_zero, Nat.add_zero]
  have hc : (decide (e ≤ (6176 : UInt64) <<< 49) = true) ↔ E ≤ 6176 := by
    rw [decide_eq_true_eq, UInt64.le_iff_toNat_le, he, show ((6176 : UInt64) <<< 49).toNat = 6176 * 2^49 from by decide]
    omega
  by_cases h : E ≤ 6176
  · rw [if_pos (hc.2 h), show (0x8000000000000000 : UInt64) = c_MASK_SIGN from rfl, or_sign _ _ (by decide)]
    have e2 : (if (0 : Int) ≤ (E : Int) - 6176 then (E : Int) - 6176 else 0) = ((6176 : Nat) : Int) - 6176 := by
      split <;> omega
    rw [e2, encode_fin, show (0x3040000000000000 : UInt64).toNat = 6176 * 2^49 from by decide]
    simp only [decide_eq_true_eq]
    split <;> omega
  · rw [if_neg (fun hn => h (hc.1 hn)), or_sign _ _ (by omega), he]
    have e2 : (if (0 : Int) ≤ (E : Int) - 6176 then (E : Int) - 6176 else 0) = (E : Int) - 6176 := by
      split <;> omega
    rw [e2, encode_fin]
    simp only [decide_eq_true_eq]
    split <;> omega

/-- what the routines know of a finite non-zero operand (it is canonical): sign `s`, coefficient `c`, exponent `E − 6176` -/
structure FinView (x : U128) (s : Bool) (c E : Nat) : Prop where
  dec : decode (bitsOf x) = .fin s c ((E : Int) - 6176)
  pos : 0 < c
  lt : c < P34
  elt : E < 2^14
  sgn : (x.w1 &&& c_MASK_SIGN).toNat = if s then 2^63 else 0
  exp : (x.w1 &&& c_MASK_EXP).toNat = E * 2^49
  coeff : val128 ⟨x.w0, x.w1 &&& c_MASK_COEFF⟩ = c
  enc : bitsOf x = encode (.fin s c ((E : Int) - 6176))

theorem unchanged_zero (mode : Mode) (s : Bool) (e : Int) : (toIntegralD mode (.fin s 0 e)).2 = false := by
  by_cases h : 0 ≤ e
  · rw [C08.integral_unchanged mode s 0 e h]
  · rw [C08.integral_rounded mode s 0 e (by omega)]
    simp

theorem unchanged_special (mode : Mode) (x : U128) (h : x.w1.toNat / 2^59 % 16 = 15) :
    (toIntegralD mode (decode (bitsOf x))).2 = false := by
  rw [decode_bitsOf]
  unfold decodeW
  simp only [h, if_true]
  split <;> rfl

/-- **front end** (all seven routines): NaNs, infinities and zeros (non-canonical finite encodings included) are answered
as the model says, in every direction; every other operand is finite, non-zero and canonical and is handed on to the
routine-specific part `k` as sign word, exponent word and two-word coefficient. -/
theorem frontEnd_cases (mode : Mode) (x : U128) (f : UInt32) (k : UInt64 → UInt64 → U128 → Except String (U128 × UInt32)) :
    (frontEnd x f k = .ok (ofBits (encode (riD mode (decode (bitsOf x)))), riFlags f (decode (bitsOf x))) ∧
      (toIntegralD mode (decode (bitsOf x))).2 = false) ∨
    ∃ s c E, FinView x s c E ∧
      frontEnd x f k = k (x.w1 &&& c_MASK_SIGN) (x.w1 &&& c_MASK_EXP) ⟨x.w0, x.w1 &&& c_MASK_COEFF⟩ := by
  have hl := x.w0.toNat_lt
  have hh := x.w1.toNat_lt
  unfold frontEnd
  rw [special_test, steer_test, bigcoeff_test, zerocoeff_test]
  by_cases h1 : x.w1.toNat / 2^59 % 16 = 15
  · left
    rw [if_pos (by simpa using h1)]
    exact ⟨specialRes_spec mode x f h1, unchanged_special mode x h1⟩
  · rw [if_neg (by simpa using h1)]
    have hfl : ∀ (s : Bool) (c : Nat) (e : Int), riFlags f (.fin s c e) = f := fun _ _ _ => rfl
    by_cases h2 : x.w1.toNat / 2^61 % 4 = 3
    · left
      rw [if_pos (by simpa using h2), decode_bitsOf]
      have hd : decodeW x.w1.toNat x.w0.toNat
          = .fin (decide (x.w1.toNat / 2^63 % 2 = 1)) 0 ((x.w1.toNat / 2^47 % 2^14 : Nat) - (6176 : Int)) := by
        simp only [decodeW, h1, h2, if_true, if_false]
      rw [hd, hfl, zeroRes_spec mode x _ _ (by omega) (exp_word_large x.w1)]
      exact ⟨rfl, unchanged_zero mode _ _⟩
    · rw [if_neg (by simpa using h2)]
      have hz : ∀ (hc : ¬ (sigW x.w1.toNat x.w0.toNat < P34 ∧ sigW x.w1.toNat x.w0.toNat ≠ 0)),
          (Except.ok (zeroRes x (x.w1 &&& c_MASK_EXP), f) : Except String (U128 × UInt32)) =
            .ok (ofBits (encode (riD mode (decode (bitsOf x)))), riFlags f (decode (bitsOf x))) ∧
          (toIntegralD mode (decode (bitsOf x))).2 = false := by
        intro hc
        have hd : decodeW x.w1.toNat x.w0.toNat
            = .fin (decide (x.w1.toNat / 2^63 % 2 = 1)) 0 ((x.w1.toNat / 2^49 % 2^14 : Nat) - (6176 : Int)) := by
          unfold sigW at hc
          simp only [decodeW, h1, h2, if_true, if_false]
          split
          · rw [show x.w1.toNat % 2^49 * 2^64 + x.w0.toNat = 0 by omega]
          · rfl
        rw [decode_bitsOf, hd, hfl, zeroRes_spec mode x _ _ (by omega) (exp_word x.w1)]
        exact ⟨rfl, unchanged_zero mode _ _⟩
      by_cases h3 : P34 ≤ sigW x.w1.toNat x.w0.toNat
      · left
        rw [if_pos (by simpa using h3)]
        exact hz (by omega)
      · rw [if_neg (by simpa using h3)]
        by_cases h4 : sigW x.w1.toNat x.w0.toNat = 0
        · left
          rw [if_pos (by simpa using h4)]
          exact hz (by omega)
        · right
          rw [if_neg (by simpa using h4)]
          have hd : decodeW x.w1.toNat x.w0.toNat
              = .fin (decide (x.w1.toNat / 2^63 % 2 = 1)) (sigW x.w1.toNat x.w0.toNat)
                  ((x.w1.toNat / 2^49 % 2^14 : Nat) - (6176 : Int)) := by
            unfold sigW at h3 ⊢
            simp only [decodeW, h1, h2, if_true, if_false]
            rw [if_pos (by omega)]
          refine ⟨_, _, _, ⟨by rw [decode_bitsOf, hd], by omega, by omega, by omega, ?_, exp_word x.w1, ?_, ?_⟩, rfl⟩
          · rw [sign_word]
            simp only [decide_eq_true_eq]
            split <;> omega
          · show (x.w1 &&& c_MASK_COEFF).toNat * 2^64 + x.w0.toNat = _
            rw [show c_MASK_COEFF = 0x1ffffffffffff from rfl, coeff_hi]
            rfl
          · rw [encode_fin]
            unfold bitsOf sigW
            simp only [decide_eq_true_eq]
            split <;> omega

-- front end: a non-canonical finite encoding (coefficient field 2^113 − 1 ≥ 10^34, exponent field 6177) is the zero +0E+1,
-- a signalling NaN with an over-large payload loses the payload; neither reaches the routine-specific part
example (k : UInt64 → UInt64 → U128 → Except String (U128 × UInt32)) :
    frontEnd ⟨0xffffffffffffffff, 0x3043ffffffffffff⟩ 0 k = .ok (⟨0, 0x3042000000000000⟩, 0) := by
  unfold frontEnd; rfl
example (k : UInt64 → UInt64 → U128 → Except String (U128 × UInt32)) :
    frontEnd ⟨0xffffffffffffffff, 0xfe003fffffffffff⟩ 0 k = .ok (⟨0, 0xfc00000000000000⟩, 1) := by
  unfold frontEnd; rfl

/-! ## 3. The digit count -/

/-! ### the `f64` conversion trick -/

/-- the biased-exponent field of the `f64` nearest to an integer below 2^53 (the conversion is exact there) is
`⌊log₂ n⌋ + 1023` -/
theorem floatBits_exp (n : Nat) (h0 : 0 < n) (h1 : n < 2^53) :
    floatBitsOfNat 52 1023 n / 2^52 = Nat.log2 n + 1023 ∧ floatBitsOfNat 52 1023 n < 2^63 := by
  have hne : n ≠ 0 := by omega
  have hl : Nat.log2 n ≤ 52 := by
    have := (Nat.log2_lt hne).2 h1
    omega
  have lo := Nat.log2_self_le hne
  have hi := @Nat.lt_log2_self n
  unfold floatBitsOfNat
  rw [if_neg hne]
  simp only [hl, if_true]
  have e : 2 ^ 52 = 2 ^ Nat.log2 n * 2 ^ (52 - Nat.log2 n) := by rw [← Nat.pow_add]; congr 1; omega
  have a1 : 2 ^ 52 ≤ n * 2 ^ (52 - Nat.log2 n) := by rw [e]; exact Nat.mul_le_mul_right _ lo
  have a2 : n * 2 ^ (52 - Nat.log2 n) < 2 ^ 53 := by
    have : 2 ^ 53 = 2 ^ (Nat.log2 n + 1) * 2 ^ (52 - Nat.log2 n) := by rw [← Nat.pow_add]; congr 1; omega
    rw [this]
    exact Nat.mul_lt_mul_of_pos_right hi (Nat.pow_pos (by decide))
  generalize n * 2 ^ (52 - Nat.log2 n) = m at a1 a2
  generalize Nat.log2 n = l at hl
  omega

/-- the bit-length expression of the code: `k + (biased exponent of (double) w − 1023)` is `k + ⌊log₂ w⌋` -/
theorem f64_trick (w : UInt64) (k : UInt32) (h0 : 0 < w.toNat) (h1 : w.toNat < 2^53) (hk : k.toNat ≤ 65) :
    (UInt64.ofInt (toI (k + ((UInt32.ofInt (toI ((F64U.ofU64 (UInt64.ofInt (toI w))).bits >>> 52)) &&& 2047) - 1023)))).toNat
      = k.toNat + Nat.log2 w.toNat := by
  obtain ⟨e1, e2⟩ := floatBits_exp w.toNat h0 h1
  have hl : Nat.log2 w.toNat < 53 := (Nat.log2_lt (by omega)).2 h1
  have hw : UInt64.ofInt (toI w) = w := by
    apply UInt64.toNat_inj.1
    show (UInt64.ofInt (w.toNat : Int)).toNat = _
    rw [ofInt_natCast64]; have := w.toNat_lt; omega
  rw [hw]
  have hb : ((F64U.ofU64 w).bits >>> 52).toNat = Nat.log2 w.toNat + 1023 := by
    unfold F64U.ofU64
    rw [UInt64.toNat_shiftRight, UInt64.toNat_ofNat', Nat.mod_eq_of_lt (by omega), Nat.shiftRight_eq_div_pow]
    exact e1
  have h32 : (UInt32.ofInt (toI ((F64U.ofU64 w).bits >>> 52))).toNat = Nat.log2 w.toNat + 1023 := by
    show (UInt32.ofInt (((F64U.ofU64 w).bits >>> 52).toNat : Int)).toNat = _
    rw [ofInt_natCast32, hb]; omega
  have hm : ((UInt32.ofInt (toI ((F64U.ofU64 w).bits >>> 52)) &&& 2047) - 1023).toNat = Nat.log2 w.toNat := by
    rw [UInt32.toNat_sub, UInt32.toNat_and, h32, show (2047 : UInt32).toNat = 2^11 - 1 from rfl,
      Nat.and_two_pow_sub_one_eq_mod, show (1023 : UInt32).toNat = 1023 from rfl]
    omega
  show (UInt64.ofInt ((k + ((UInt32.ofInt (toI ((F64U.ofU64 w).bits >>> 52)) &&& 2047) - 1023)).toNat : Int)).toNat = _
  rw [ofInt_natCast64, UInt32.toNat_add, hm]
  omega


theorem log2_eq_of {n k : Nat} (h1 : 2^k ≤ n) (h2 : n < 2^(k+1)) : Nat.log2 n = k :=
  (Nat.log2_eq_iff (by have := Nat.pow_pos (n := k) (show 0 < 2 by decide); omega)).2 ⟨h1, h2⟩

theorem log2_shift (n k : Nat) (h : 2^k ≤ n) : Nat.log2 (n / 2^k) + k = Nat.log2 n := by
  have hk : 0 < 2^k := Nat.pow_pos (by decide)
  have hne : n ≠ 0 := by omega
  have hq : n / 2^k ≠ 0 := by
    have := Nat.div_pos h hk
    omega
  have lo := Nat.log2_self_le hq
  have hi := @Nat.lt_log2_self (n / 2^k)
  symm
  apply log2_eq_of
  · rw [Nat.pow_add]
    calc 2 ^ (n / 2^k).log2 * 2^k ≤ n / 2^k * 2^k := Nat.mul_le_mul_right _ lo
      _ ≤ n := Nat.div_mul_le_self n (2^k)
  · rw [show (n / 2^k).log2 + k + 1 = ((n / 2^k).log2 + 1) + k by omega, Nat.pow_add]
    exact (Nat.div_lt_iff_lt_mul hk).1 hi

/-- **the bit length**: for a coefficient `0 < C < 2^113` the three-way `f64` trick yields `⌊log₂ C⌋ + 1` -/
theorem nrBits_spec (C : U128) (h0 : 0 < val128 C) (h1 : val128 C < 2^113) :
    (nrBits C).toNat = Nat.log2 (val128 C) + 1 := by
  have hl := C.w0.toNat_lt
  unfold val128 at h0 h1 ⊢
  unfold nrBits
  by_cases a : C.w1 = 0
  · rw [if_pos (by simpa using a)]
    have a' : C.w1.toNat = 0 := by rw [a]; rfl
    rw [a'] at h0 h1 ⊢
    simp only [Nat.zero_mul, Nat.zero_add] at h0 h1 ⊢
    by_cases b : C.w0 ≥ 0x20000000000000
    · rw [if_pos (by simpa using b)]
      have b' : 2^53 ≤ C.w0.toNat := by
        have := UInt64.le_iff_toNat_le.1 b
        exact this
      have hs : (C.w0 >>> 32).toNat = C.w0.toNat / 2^32 := high32 C.w0
      rw [f64_trick (C.w0 >>> 32) 33 (by rw [hs]; omega) (by rw [hs]; omega) (by decide), hs,
        show (33 : UInt32).toNat = 33 from rfl, ← log2_shift C.w0.toNat 32 (by omega)]
      omega
    · rw [if_neg (by simpa using b)]
      have b' : C.w0.toNat < 2^53 := by
        have := UInt64.lt_iff_toNat_lt.1 (UInt64.not_le.1 b)
        exact this
      rw [f64_trick C.w0 1 h0 b' (by decide), show (1 : UInt32).toNat = 1 from rfl]
      omega
  · rw [if_neg (by simpa using a)]
    have a' : 0 < C.w1.toNat := by
      rcases Nat.eq_zero_or_pos C.w1.toNat with h | h
      · exact absurd (UInt64.toNat_inj.1 (by rw [h]; rfl)) a
      · exact h
    rw [f64_trick C.w1 65 a' (by omega) (by decide), show (65 : UInt32).toNat = 65 from rfl,
      ← log2_shift (C.w1.toNat * 2^64 + C.w0.toNat) 64 (by omega)]
    rw [show (C.w1.toNat * 2^64 + C.w0.toNat) / 2^64 = C.w1.toNat by omega]
    omega


/-! ### the table lookup -/

open Dec.TableFacts in
/-- row `i` of `BID_NR_DIGITS`, word by word (closed form of `DecProofs.TableFacts.F_BID_NR_DIGITS`) -/
theorem nr_get (i : Nat) (hi : i < 113) :
    Dec.Gen.BID_NR_DIGITS[i * 4 + 0]? = (nrRow i)[0]? ∧ Dec.Gen.BID_NR_DIGITS[i * 4 + 1]? = (nrRow i)[1]? ∧
    Dec.Gen.BID_NR_DIGITS[i * 4 + 2]? = (nrRow i)[2]? ∧ Dec.Gen.BID_NR_DIGITS[i * 4 + 3]? = (nrRow i)[3]? := by
  have h := fun j (hj : j < 4) =>
    getElem?_flatMap_const_width nrRow 4 (fun _ => rfl) (List.range 113) i j i (List.getElem?_range hi) hj
  rw [BID_NR_DIGITS_rows]
  exact ⟨h 0 (by decide), h 1 (by decide), h 2 (by decide), h 3 (by decide)⟩

theorem tblDD_of (t : List Nat) (i : UInt64) (a b c d : Nat) (h0 : t[i.toNat * 4 + 0]? = some a) (h1 : t[i.toNat * 4 + 1]? = some b)
    (h2 : t[i.toNat * 4 + 2]? = some c) (h3 : t[i.toNat * 4 + 3]? = some d) :
    tblDD t i = .ok ⟨UInt32.ofNat a, UInt64.ofNat b, UInt64.ofNat c, UInt32.ofNat d⟩ := by
  unfold tblDD
  rw [Nat.mul_comm 4 i.toNat]
  rw [Nat.add_zero] at h0
  rw [h0, h1, h2, h3]

open Dec.TableFacts in
theorem tblDD_nr (i : UInt64) (hi : i.toNat < 113) :
    tblDD Dec.Gen.BID_NR_DIGITS i = .ok ⟨
      UInt32.ofNat (if ndigitsSlow (2 ^ i.toNat) = ndigitsSlow (2 ^ (i.toNat + 1) - 1) then ndigitsSlow (2 ^ i.toNat) else 0),
      UInt64.ofNat (10 ^ ndigitsSlow (2 ^ i.toNat) / 2 ^ 64), UInt64.ofNat (10 ^ ndigitsSlow (2 ^ i.toNat) % 2 ^ 64),
      UInt32.ofNat (ndigitsSlow (2 ^ i.toNat))⟩ := by
  obtain ⟨g0, g1, g2, g3⟩ := nr_get _ hi
  exact tblDD_of _ _ _ _ _ _ (g0.trans (by simp only [nrRow, List.getElem?_cons_zero])) 
    (g1.trans (by simp only [nrRow, List.getElem?_cons_zero, List.getElem?_cons_succ])) 
    (g2.trans (by simp only [nrRow, List.getElem?_cons_zero, List.getElem?_cons_succ])) 
    (g3.trans (by simp only [nrRow, List.getElem?_cons_zero, List.getElem?_cons_succ])) 

theorem int32_of_small (d : Nat) (h : d < 2^31) : (Int32.ofInt (toI (UInt32.ofNat d))).toInt = d := by
  show (Int32.ofInt ((UInt32.ofNat d).toNat : Int)).toInt = _
  rw [UInt32.toNat_ofNat', Nat.mod_eq_of_lt (by omega), Int32.toInt_ofInt_of_le (by omega) (by omega)]

/-- the digit count proper, on an abstract table row -/
theorem countQ_core (d0 dl thi tlo n : Nat) (C : U128) (hd0 : d0 ≤ 35) (hdl : dl ≤ 35) (hthi : thi < 2^64) (htlo : tlo < 2^64)
    (hm : (if d0 ≠ 0 then d0 else if val128 C ≥ thi * 2 ^ 64 + tlo then dl + 1 else dl) = n) :
    ∃ q, ((Except.ok (⟨UInt32.ofNat d0, UInt64.ofNat thi, UInt64.ofNat tlo, UInt32.ofNat dl⟩ : DecDigits) :
        Except String DecDigits).bind fun v =>
      if (Int32.ofInt (toI v.digits) == 0) = true then
        if (decide (C.w1 > v.threshold_hi) || (C.w1 == v.threshold_hi && decide (C.w0 ≥ v.threshold_lo))) = true then
          (Except.ok (Int32.ofInt (toI v.digits1) + 1) : Except String Int32)
        else .ok (Int32.ofInt (toI v.digits1))
      else .ok (Int32.ofInt (toI v.digits))) = .ok q ∧ q.toInt = (n : Int) := by
  simp only [Except.bind]
  have e0 := int32_of_small d0 (by omega)
  have e1 := int32_of_small dl (by omega)
  have hz : (Int32.ofInt (toI (UInt32.ofNat d0)) == 0) = decide (d0 = 0) := by
    rw [Bool.eq_iff_iff, beq_iff_eq, decide_eq_true_eq, ← Int32.toInt_inj, e0]
    show (d0 : Int) = 0 ↔ _
    omega
  rw [hz]
  by_cases hd : d0 = 0
  · rw [if_pos (by simpa using hd)]
    rw [if_neg (by simpa using hd)] at hm
    rw [Dec.C06GenFromInt.ge128, UInt64.toNat_ofNat', UInt64.toNat_ofNat', Nat.mod_eq_of_lt hthi, Nat.mod_eq_of_lt htlo]
    by_cases ht : val128 C ≥ thi * 2 ^ 64 + tlo
    · rw [if_pos ht] at hm
      rw [if_pos (by simpa [val128] using ht)]
      refine ⟨_, rfl, ?_⟩
      rw [Int32.toInt_add, e1, ← hm, show (1 : Int32).toInt = 1 from rfl]
      push_cast
      exact Int.bmod_eq_of_le (by omega) (by omega)
    · rw [if_neg ht] at hm
      rw [if_neg (by simpa [val128] using ht)]
      exact ⟨_, rfl, by rw [e1, hm]⟩
  · rw [if_neg (by simpa using hd)]
    rw [if_pos (by simpa using hd)] at hm
    exact ⟨_, rfl, by rw [e0, hm]⟩

/-- **the digit count block** (standalone): for every coefficient `0 < C < 2^113` (two words), the bit length by the `f64`
trick, the `BID_NR_DIGITS` row and the threshold comparison return the number of decimal digits of `C`; no index is
out of range. -/
theorem countQ_spec (C : U128) (h0 : 0 < val128 C) (h1 : val128 C < 2^113) :
    ∃ q, countQ C = .ok q ∧ q.toInt = (ndigits (val128 C) : Int) := by
  have hne : val128 C ≠ 0 := by omega
  have hi : (val128 C).log2 < 113 := (Nat.log2_lt hne).2 h1
  have hlo : 2 ^ (val128 C).log2 ≤ val128 C := Nat.log2_self_le hne
  have hb := nrBits_spec C h0 h1
  have hidx : (nrBits C - 1).toNat = (val128 C).log2 := by
    rw [UInt64.toNat_sub, hb, show (1 : UInt64).toNat = 1 from rfl]
    omega
  -- the digit counts in the row are small
  have hn35 : ndigits (val128 C) ≤ 35 := (ndigits_le_iff h0).2 (Nat.lt_trans h1 (by decide))
  have hdl : ndigitsSlow (2 ^ (val128 C).log2) ≤ 35 := by
    have := Dec.TableFacts.ndigitsSlow_mono (Nat.pow_pos (by decide)) hlo
    rw [← ndigits_eq_slow (val128 C)] at this
    omega
  have hthr : 10 ^ ndigitsSlow (2 ^ (val128 C).log2) < 2 ^ 128 :=
    Nat.lt_of_le_of_lt (Nat.pow_le_pow_right (by decide) hdl) (by decide)
  have hm := Dec.TableFacts.nrDigits_mechanism_ndigits h0 h1
  unfold Dec.TableFacts.nrDigitsLookup at hm
  simp only [Dec.TableFacts.BID_NR_DIGITS_getD _ _ hi (by decide : 0 < 4), Dec.TableFacts.BID_NR_DIGITS_getD _ _ hi (by decide : 1 < 4),
    Dec.TableFacts.BID_NR_DIGITS_getD _ _ hi (by decide : 2 < 4), Dec.TableFacts.BID_NR_DIGITS_getD _ _ hi (by decide : 3 < 4),
    Dec.TableFacts.nrRow, List.getD_cons_zero, List.getD_cons_succ] at hm
  unfold countQ
  rw [tblDD_nr _ (by rw [hidx]; exact hi), hidx]
  refine countQ_core _ _ _ _ _ C ?_ hdl (by omega) (Nat.mod_lt _ (by decide)) hm
  by_cases hz : (if ndigitsSlow (2 ^ (val128 C).log2) = ndigitsSlow (2 ^ ((val128 C).log2 + 1) - 1)
      then ndigitsSlow (2 ^ (val128 C).log2) else 0) = 0
  · omega
  · rw [if_pos hz] at hm; omega

-- the digit count of 999, 1000 (threshold inside a binary bucket), 2^64 (two words) and 10^34 − 1 (largest coefficient)
example : countQ ⟨999, 0⟩ = .ok 3 ∧ countQ ⟨1000, 0⟩ = .ok 4 ∧ countQ ⟨0, 1⟩ = .ok 20 ∧
    countQ ⟨0x378d8e63ffffffff, 0x1ed09bead87c0⟩ = .ok 34 := ⟨rfl, rfl, rfl, rfl⟩
example : ∃ q, countQ ⟨0x378d8e63ffffffff, 0x1ed09bead87c0⟩ = .ok q ∧ q.toInt = (ndigits (10^34 - 1) : Int) :=
  countQ_spec ⟨0x378d8e63ffffffff, 0x1ed09bead87c0⟩ (by decide) (by decide)
-- the bit length by the `f64` trick: 2^53 (first value that takes the shifted path) has 54 bits
example : (nrBits ⟨0x20000000000000, 0⟩).toNat = 54 := by decide +kernel

/-! ## 4. Digit removal -/

/-! ### `i32` arithmetic on small values is exact -/

theorem i32_add (a b : Int32) (ha : -2^20 < a.toInt ∧ a.toInt < 2^20) (hb : -2^20 < b.toInt ∧ b.toInt < 2^20) :
    (a + b).toInt = a.toInt + b.toInt := by
  rw [Int32.toInt_add]; exact Int.bmod_eq_of_le (by omega) (by omega)

theorem i32_sub (a b : Int32) (ha : -2^20 < a.toInt ∧ a.toInt < 2^20) (hb : -2^20 < b.toInt ∧ b.toInt < 2^20) :
    (a - b).toInt = a.toInt - b.toInt := by
  rw [Int32.toInt_sub]; exact Int.bmod_eq_of_le (by omega) (by omega)

theorem i32_neg (a : Int32) (ha : -2^20 < a.toInt ∧ a.toInt < 2^20) : (-a).toInt = -a.toInt := by
  rw [Int32.toInt_neg]; exact Int.bmod_eq_of_le (by omega) (by omega)

/-- the exponent the code computes from the exponent word `E·2^49` -/
theorem expOf_toInt (e : UInt64) (E : Nat) (hE : E < 2^14) (he : e.toNat = E * 2^49) : (expOf e).toInt = (E : Int) - 6176 := by
  have hs : (e >>> 49).toNat = E := by
    rw [UInt64.toNat_shiftRight, he, Nat.shiftRight_eq_div_pow]
    show E * 2^49 / 2^49 = E
    omega
  unfold expOf
  show (Int32.ofInt ((e >>> 49 - 6176).toNat : Int)).toInt = _
  rw [UInt64.toNat_sub, hs, show (6176 : UInt64).toNat = 6176 from rfl, Int32.toInt_ofInt, Int.bmod_def]
  simp only [Int32.size]
  omega

/-- `as u64` of a non-negative small `i32` -/
theorem u64_of_i32 (a : Int32) (n : Nat) (h : a.toInt = n) : (UInt64.ofInt (toI a)).toNat = n := by
  have := a.toInt_lt
  show (UInt64.ofInt a.toInt).toNat = n
  rw [h, ofInt_natCast64]
  omega


/-! ### reading the reciprocal and shift tables -/

theorem getElem?_getD (t : List Nat) (j : Nat) (h : j < t.length) : t[j]? = some (t.getD j 0) := by
  rw [List.getD_eq_getElem?_getD, List.getElem?_eq_getElem h]; rfl

theorem entry_two (t : List Nat) (i : Nat) : Dec.TF.entry t 2 i = t.getD (i * 2 + 0) 0 + 2 ^ 64 * (t.getD (i * 2 + 1) 0 + 2 ^ 64 * 0) := rfl

theorem ten2mk_length : Dec.Gen.BID_TEN2MK128.length = 68 := by decide
theorem shiftright_length : Dec.Gen.BID_SHIFTRIGHT128.length = 34 := by decide

/-- the words of `BID_TEN2MK128` are words; the shift counts by range of the row index -/
theorem ten2mk_rows : (List.range 34).all (fun i =>
    decide (Dec.Gen.BID_TEN2MK128.getD (i * 2 + 0) 0 < 2^64) && decide (Dec.Gen.BID_TEN2MK128.getD (i * 2 + 1) 0 < 2^64) &&
    decide (i ≤ 2 → Dec.Gen.BID_SHIFTRIGHT128.getD i 0 = 0) &&
    decide (3 ≤ i → i ≤ 21 → 1 ≤ Dec.Gen.BID_SHIFTRIGHT128.getD i 0 ∧ Dec.Gen.BID_SHIFTRIGHT128.getD i 0 ≤ 63) &&
    decide (22 ≤ i → 65 ≤ Dec.Gen.BID_SHIFTRIGHT128.getD i 0 ∧ Dec.Gen.BID_SHIFTRIGHT128.getD i 0 ≤ 127)) = true := by
  decide +kernel

theorem ten2mk_row (i : Nat) (hi : i < 34) :
    Dec.Gen.BID_TEN2MK128.getD (i * 2 + 0) 0 < 2^64 ∧ Dec.Gen.BID_TEN2MK128.getD (i * 2 + 1) 0 < 2^64 ∧
    (i ≤ 2 → Dec.Gen.BID_SHIFTRIGHT128.getD i 0 = 0) ∧
    (3 ≤ i → i ≤ 21 → 1 ≤ Dec.Gen.BID_SHIFTRIGHT128.getD i 0 ∧ Dec.Gen.BID_SHIFTRIGHT128.getD i 0 ≤ 63) ∧
    (22 ≤ i → 65 ≤ Dec.Gen.BID_SHIFTRIGHT128.getD i 0 ∧ Dec.Gen.BID_SHIFTRIGHT128.getD i 0 ≤ 127) := by
  have h := List.all_eq_true.1 ten2mk_rows i (List.mem_range.2 hi)
  simp only [Bool.and_eq_true, decide_eq_true_eq] at h
  obtain ⟨⟨⟨⟨a, b⟩, c⟩, d⟩, e⟩ := h
  exact ⟨a, b, c, d, e⟩

/-- `BID_TEN2MK128[i]`, `i < 34`: never out of range, and the two words are the entry `K_i` -/
theorem tbl128_ten2mk (k : UInt64) (i : Nat) (hk : k.toNat = i) (hi : i < 34) :
    ∃ t, tbl128 Dec.Gen.BID_TEN2MK128 k = .ok t ∧ val128 t = Dec.TF.entry Dec.Gen.BID_TEN2MK128 2 i := by
  obtain ⟨a, b, _⟩ := ten2mk_row i hi
  unfold tbl128
  rw [hk, Nat.mul_comm 2 i, ← Nat.add_zero (i * 2), getElem?_getD _ _ (by rw [ten2mk_length]; omega), Nat.add_zero,
    getElem?_getD _ _ (by rw [ten2mk_length]; omega)]
  refine ⟨_, rfl, ?_⟩
  rw [entry_two]
  simp only [val128, UInt64.toNat_ofNat', Nat.add_zero] at a ⊢
  rw [Nat.mod_eq_of_lt a, Nat.mod_eq_of_lt b]
  omega

/-- `BID_SHIFTRIGHT128[i]`, `i < 34` -/
theorem tblI32_shift (k : UInt64) (i : Nat) (hk : k.toNat = i) (hi : i < 34) :
    ∃ sh, tblI32 Dec.Gen.BID_SHIFTRIGHT128 k = .ok sh ∧ sh.toInt = (Dec.Gen.BID_SHIFTRIGHT128.getD i 0 : Nat) := by
  have hs : Dec.Gen.BID_SHIFTRIGHT128.getD i 0 ≤ 127 := by
    obtain ⟨_, _, c, d, e⟩ := ten2mk_row i hi
    by_cases h1 : i ≤ 2
    · have := c h1; omega
    · by_cases h2 : i ≤ 21
      · have := d (by omega) h2; omega
      · have := e (by omega); omega
  unfold tblI32
  rw [hk, getElem?_getD _ _ (by rw [shiftright_length]; exact hi)]
  refine ⟨_, rfl, ?_⟩
  rw [UInt64.toInt64_ofNat', Int64.toInt_ofNat_of_lt (by omega), Int32.toInt_ofInt_of_le (by omega) (by omega)]


/-! ### the reciprocal multiplication -/

open Dec.TableFacts Dec.TF in
/-- every reciprocal is strictly above the exact quotient (no power of ten divides a power of two) and is a 128-bit number -/
theorem ten2mk_strict : (List.range 34).all (fun i =>
    decide (2 ^ (128 + Dec.Gen.BID_SHIFTRIGHT128.getD i 0) < entry Dec.Gen.BID_TEN2MK128 2 i * 10 ^ (i + 1)) &&
    decide (entry Dec.Gen.BID_TEN2MK128 2 i < 2 ^ 128)) = true := by
  decide +kernel

open Dec.TableFacts Dec.TF in
/-- **error analysis of the reciprocal multiplication.**  Row `i` (`x = i + 1` digits to remove), `K` the tabulated
reciprocal, `E = 128 + shift`: `K·10^x = 2^E + δ` with `0 < δ`, and for every `C < 10^35`, writing `C = q·10^x + r`:
`(q + 1)·δ < K`, `⌊C·K / 2^E⌋ = q` and the discarded part is `C·K mod 2^E = q·δ + r·K`. -/
theorem recip_core (i : Nat) (hi : i < 34) (C : Nat) (hC : C < 10 ^ 35) :
    ∃ δ, entry Dec.Gen.BID_TEN2MK128 2 i * 10 ^ (i + 1) = 2 ^ (128 + Dec.Gen.BID_SHIFTRIGHT128.getD i 0) + δ ∧ 0 < δ ∧
      entry Dec.Gen.BID_TEN2MK128 2 i < 2 ^ 128 ∧
      (C / 10 ^ (i + 1) + 1) * δ < entry Dec.Gen.BID_TEN2MK128 2 i ∧
      C * entry Dec.Gen.BID_TEN2MK128 2 i / 2 ^ (128 + Dec.Gen.BID_SHIFTRIGHT128.getD i 0) = C / 10 ^ (i + 1) ∧
      C * entry Dec.Gen.BID_TEN2MK128 2 i % 2 ^ (128 + Dec.Gen.BID_SHIFTRIGHT128.getD i 0)
        = C / 10 ^ (i + 1) * δ + C % 10 ^ (i + 1) * entry Dec.Gen.BID_TEN2MK128 2 i := by
  have h := List.all_eq_true.1 ten2mk128_rows i (List.mem_range.2 hi)
  have h' := List.all_eq_true.1 ten2mk_strict i (List.mem_range.2 hi)
  simp only [rowOk, Bool.and_eq_true, decide_eq_true_eq] at h h'
  obtain ⟨h1, h2⟩ := h
  obtain ⟨h3, h4⟩ := h'
  generalize entry Dec.Gen.BID_TEN2MK128 2 i = K at *
  generalize 128 + Dec.Gen.BID_SHIFTRIGHT128.getD i 0 = E at *
  have hP : 0 < 10 ^ (i + 1) := Nat.pow_pos (by decide)
  generalize 10 ^ (i + 1) = P at *
  have hE : 0 < 2 ^ E := Nat.pow_pos (by decide)
  refine ⟨K * P - 2 ^ E, by omega, by omega, h4, ?_, ?_, ?_⟩
  · have : C / P ≤ 10 ^ 35 / P := Nat.div_le_div_right (Nat.le_of_lt hC)
    calc (C / P + 1) * (K * P - 2 ^ E) ≤ (10 ^ 35 / P + 1) * (K * P - 2 ^ E) := Nat.mul_le_mul_right _ (by omega)
      _ < K := h2
  all_goals
    have hdm : P * (C / P) + C % P = C := Nat.div_add_mod C P
    have hr : C % P < P := Nat.mod_lt _ hP
    have hq : (C / P + 1) * (K * P - 2 ^ E) < K := by
      have : C / P ≤ 10 ^ 35 / P := Nat.div_le_div_right (Nat.le_of_lt hC)
      calc (C / P + 1) * (K * P - 2 ^ E) ≤ (10 ^ 35 / P + 1) * (K * P - 2 ^ E) := Nat.mul_le_mul_right _ (by omega)
        _ < K := h2
    generalize C / P = q at *
    generalize C % P = r at *
    have hK : K * P = 2 ^ E + (K * P - 2 ^ E) := by omega
    generalize K * P - 2 ^ E = δ at *
    have e1 : C * K = q * 2 ^ E + (q * δ + r * K) := by
      calc C * K = (P * q + r) * K := by rw [hdm]
        _ = q * (K * P) + r * K := by rw [Nat.add_mul, Nat.mul_comm P q, Nat.mul_assoc, Nat.mul_comm P K]
        _ = q * (2 ^ E + δ) + r * K := by rw [hK]
        _ = q * 2 ^ E + (q * δ + r * K) := by rw [Nat.mul_add, Nat.add_assoc]
    have e2 : r * K + K ≤ 2 ^ E + δ := by
      have : (r + 1) * K ≤ P * K := Nat.mul_le_mul_right K hr
      rw [Nat.add_mul, Nat.one_mul, Nat.mul_comm P K, hK] at this
      exact this
    have e3 : q * δ + δ < K := by rw [Nat.add_mul, Nat.one_mul] at hq; exact hq
    have e4 : q * δ + r * K < 2 ^ E := by omega
  · rw [e1, Nat.mul_comm q (2 ^ E), Nat.mul_add_div hE, Nat.div_eq_of_lt e4, Nat.add_zero]
  · rw [e1, Nat.mul_comm q (2 ^ E), Nat.mul_add_mod, Nat.mod_eq_of_lt e4]

-- removing 7 digits of a 34-digit coefficient: quotient and discarded part
example : ∃ δ, Dec.TF.entry Dec.Gen.BID_TEN2MK128 2 6 * 10 ^ 7 = 2 ^ (128 + Dec.Gen.BID_SHIFTRIGHT128.getD 6 0) + δ ∧ 0 < δ ∧
    9999999999999999999999999999999999 * Dec.TF.entry Dec.Gen.BID_TEN2MK128 2 6 / 2 ^ (128 + Dec.Gen.BID_SHIFTRIGHT128.getD 6 0)
      = 999999999999999999999999999 := by
  obtain ⟨δ, h1, h2, _, _, h5, _⟩ := recip_core 6 (by decide) 9999999999999999999999999999999999 (by decide)
  exact ⟨δ, h1, h2, by rw [h5]; decide +kernel⟩

theorem shr128_aux (w3 w2 A B M : Nat) (hM : M = A * B) (hA : 0 < A) (h2 : w2 < M) :
    (w3 / A) * M + (B * (w3 % A) + w2 / A) = (w3 * M + w2) / A := by
  have e3 : w3 * M + w2 = A * ((w3 / A) * M + B * (w3 % A)) + w2 := by
    have := Nat.div_add_mod w3 A
    calc w3 * M + w2 = (A * (w3 / A) + w3 % A) * M + w2 := by rw [this]
      _ = A * ((w3 / A) * M + B * (w3 % A)) + w2 := by rw [hM]; ring
  rw [e3, Nat.mul_add_div hA]
  omega

/-- a 128-bit right shift by `1 ≤ s ≤ 63` done on two words -/
theorem shr128 (w3 w2 s : Nat) (hs1 : 1 ≤ s) (hs2 : s ≤ 63) (h3 : w3 < 2^64) (h2 : w2 < 2^64) :
    (w3 / 2^s) * 2^64 + ((w3 * 2^(64-s)) % 2^64 ||| w2 / 2^s) = (w3 * 2^64 + w2) / 2^s := by
  have hAB : 2^64 = 2^s * 2^(64-s) := by rw [← Nat.pow_add]; congr 1; omega
  have hA : 0 < 2^s := Nat.pow_pos (by decide)
  have e1 : (w3 * 2^(64-s)) % 2^64 = (w3 % 2^s) * 2^(64-s) := by rw [hAB, Nat.mul_mod_mul_right]
  have e2 : w2 / 2^s < 2^(64-s) := by
    apply (Nat.div_lt_iff_lt_mul hA).2
    rw [Nat.mul_comm, ← hAB]; exact h2
  rw [e1, Nat.mul_comm (w3 % 2^s), ← Nat.two_pow_add_eq_or_of_lt e2]
  exact shr128_aux w3 w2 _ _ _ hAB hA h2

/-! ### assembling a result -/

theorem sign_cases (S : UInt64) (s : Bool) (hS : S.toNat = if s then 2^63 else 0) :
    (S ||| 0x3040000000000000).toNat = S.toNat + 6176 * 2^49 := by
  cases s
  · have : S = 0 := UInt64.toNat_inj.1 (by rw [hS]; rfl)
    subst this; decide
  · have : S = 0x8000000000000000 := UInt64.toNat_inj.1 (by rw [hS]; rfl)
    subst this; decide

/-- the result word pair `(r.w1 | sign | 0x3040…, r.w0)` is the canonical encoding of `±m·10^0`, `m` the value of `r` -/
theorem mk_result (S : UInt64) (s : Bool) (hS : S.toNat = if s then 2^63 else 0) (r : U128) (m : Nat) (hm : val128 r = m)
    (hlt : m < 2^113) : (⟨r.w0, r.w1 ||| (S ||| 0x3040000000000000)⟩ : U128) = ofBits (encode (.fin s m 0)) := by
  have h0 := r.w0.toNat_lt
  unfold val128 at hm
  subst hm
  have h1 : r.w1.toNat < 2^49 := by omega
  apply eq_ofBits
  rw [bitsOf_mk, UInt64.toNat_or, sign_cases S s hS, show ((0 : Int)) = ((6176 : Nat) : Int) - 6176 from by omega, encode_fin]
  have hd : r.w1.toNat ||| (S.toNat + 6176 * 2^49) = r.w1.toNat + (S.toNat + 6176 * 2^49) := by
    have : S.toNat + 6176 * 2^49 = 2^49 * (S.toNat / 2^49 + 6176) := by
      rw [hS]; split <;> omega
    rw [this, Nat.or_comm, ← Nat.two_pow_add_eq_or_of_lt h1]
    omega
  rw [hd, hS]
  split <;> omega

/-! ### the model side for finite non-zero operands -/

theorem riD_neg_exp (mode : Mode) (s : Bool) (c E : Nat) (hE : E < 6176) :
    riD mode (.fin s c ((E : Int) - 6176)) =
      .fin s (roundInt mode s (c / 10 ^ (6176 - E)) (c % 10 ^ (6176 - E)) (10 ^ (6176 - E))) 0 := by
  rw [riD_fin, C08.integral_rounded mode s c _ (by omega), show (-((E : Int) - 6176)).toNat = 6176 - E by omega]

theorem riD_nonneg_exp (mode : Mode) (s : Bool) (c E : Nat) (hE : 6176 ≤ E) :
    riD mode (.fin s c ((E : Int) - 6176)) = .fin s c ((E : Int) - 6176) := by
  rw [riD_fin, C08.integral_unchanged mode s c _ (by omega)]

theorem roundInt_rtz (s : Bool) (q r D : Nat) : roundInt .rtz s q r D = q := by
  simp [roundInt, roundUp]

/-- fewer digits than are to be removed: the quotient is zero -/
theorem small_quot (c x : Nat) (h : ndigits c ≤ x) : c / 10 ^ x = 0 ∧ c % 10 ^ x = c := by
  have h1 : c < 10 ^ x := Nat.lt_of_lt_of_le (lt_pow_ndigits c) (Nat.pow_le_pow_right (by decide) h)
  exact ⟨Nat.div_eq_of_lt h1, Nat.mod_eq_of_lt h1⟩

theorem ndigits_le_34 (c : Nat) (h : c < P34) : ndigits c ≤ 34 := by
  rcases Nat.eq_zero_or_pos c with h0 | h0
  · rw [h0, ndigits_zero]; omega
  · exact (ndigits_le_iff h0).2 h

theorem mk_small (S : UInt64) (s : Bool) (hS : S.toNat = if s then 2^63 else 0) (n : UInt64) (hn : n.toNat < 2^49) :
    (⟨n, S ||| 0x3040000000000000⟩ : U128) = ofBits (encode (.fin s n.toNat 0)) := by
  have := mk_result S s hS ⟨n, 0⟩ n.toNat (by simp [val128]) (by omega)
  rw [UInt64.zero_or] at this
  exact this

theorem mk_zero (S : UInt64) (s : Bool) (hS : S.toNat = if s then 2^63 else 0) :
    (⟨0, S ||| 0x3040000000000000⟩ : U128) = ofBits (encode (.fin s 0 0)) :=
  mk_small S s hS 0 (by decide)

theorem riFlags_fin (f : UInt32) (s : Bool) (c : Nat) (e : Int) : riFlags f (.fin s c e) = f := rfl

/-- the tests on the exponent word -/
theorem expword_le (e : UInt64) (E : Nat) (he : e.toNat = E * 2^49) (k : UInt64) (K : Nat) (hk : k.toNat = K * 2^49) :
    (decide (e ≤ k) = true) ↔ E ≤ K := by
  rw [decide_eq_true_eq, UInt64.le_iff_toNat_le, he, hk]; omega

/-! ### normalising a translated block -/

theorem bind_ok' {ε α β : Type} (a : α) (k : α → Except ε β) : (Except.ok a : Except ε α).bind k = k a := rfl
theorem ite_true_bool (c : Prop) [Decidable c] (b : Bool) : (if c then true else b) = (decide c || b) := by
  by_cases h : c <;> simp [h]
theorem ite_false_bool (c : Prop) [Decidable c] (b : Bool) : (if c then b else false) = (decide c && b) := by
  by_cases h : c <;> simp [h]

/-! ### the mask and one-half tables -/

theorem maskhigh_length : Dec.Gen.BID_MASKHIGH128.length = 34 := by decide
theorem onehalf_length : Dec.Gen.BID_ONEHALF128.length = 34 := by decide

theorem mask_rows : (List.range 34).all (fun i =>
    decide (Dec.Gen.BID_MASKHIGH128.getD i 0 = 2 ^ (Dec.Gen.BID_SHIFTRIGHT128.getD i 0 % 64) - 1) &&
    decide (Dec.Gen.BID_ONEHALF128.getD i 0 =
      if Dec.Gen.BID_SHIFTRIGHT128.getD i 0 % 64 = 0 then 0 else 2 ^ (Dec.Gen.BID_SHIFTRIGHT128.getD i 0 % 64 - 1))) = true := by
  decide +kernel

theorem tbl64_mask (k : UInt64) (i : Nat) (hk : k.toNat = i) (hi : i < 34) :
    ∃ mk, tbl64 Dec.Gen.BID_MASKHIGH128 k = .ok mk ∧ mk.toNat = 2 ^ (Dec.Gen.BID_SHIFTRIGHT128.getD i 0 % 64) - 1 := by
  have h := List.all_eq_true.1 mask_rows i (List.mem_range.2 hi)
  simp only [Bool.and_eq_true, decide_eq_true_eq] at h
  unfold tbl64
  rw [hk, getElem?_getD _ _ (by rw [maskhigh_length]; exact hi)]
  refine ⟨_, rfl, ?_⟩
  rw [UInt64.toNat_ofNat', h.1]
  have : 2 ^ (Dec.Gen.BID_SHIFTRIGHT128.getD i 0 % 64) ≤ 2 ^ 63 := Nat.pow_le_pow_right (by decide) (by omega)
  have hp : 0 < 2 ^ (Dec.Gen.BID_SHIFTRIGHT128.getD i 0 % 64) := Nat.pow_pos (by decide)
  omega

theorem tbl64_half (k : UInt64) (i : Nat) (hk : k.toNat = i) (hi : i < 34) :
    ∃ oh, tbl64 Dec.Gen.BID_ONEHALF128 k = .ok oh ∧ oh.toNat =
      if Dec.Gen.BID_SHIFTRIGHT128.getD i 0 % 64 = 0 then 0 else 2 ^ (Dec.Gen.BID_SHIFTRIGHT128.getD i 0 % 64 - 1) := by
  have h := List.all_eq_true.1 mask_rows i (List.mem_range.2 hi)
  simp only [Bool.and_eq_true, decide_eq_true_eq] at h
  unfold tbl64
  rw [hk, getElem?_getD _ _ (by rw [onehalf_length]; exact hi)]
  refine ⟨_, rfl, ?_⟩
  rw [UInt64.toNat_ofNat', h.2]
  split
  · rfl
  · have : 2 ^ (Dec.Gen.BID_SHIFTRIGHT128.getD i 0 % 64 - 1) ≤ 2 ^ 63 := Nat.pow_le_pow_right (by decide) (by omega)
    exact Nat.mod_eq_of_lt (by omega)

/-! ### everything the digit removal reads and computes, in one place -/

/-- For a coefficient `c < 10^35` held in `C` and `1 ≤ x ≤ 34` digits to remove (`exp = −x`): the table entries the code
reads (reciprocal `t`, shift `sh`, mask `mk`, one-half `oh`) and the 256-bit product `v`, none out of range, with their
values and the error analysis of `recip_core`. -/
structure Recip (C : U128) (exp : Int32) (c x : Nat) (t : U128) (v : U256) (sh : Int32) (mk oh : UInt64) (sN δ : Nat) : Prop where
  ht : tbl128 Dec.Gen.BID_TEN2MK128 (UInt64.ofInt (toI (-exp - 1))) = .ok t
  hv : mul_128x128_to_256 C t = .ok v
  hsh : tblI32 Dec.Gen.BID_SHIFTRIGHT128 (UInt64.ofInt (toI (-exp - 1))) = .ok sh
  hmk : tbl64 Dec.Gen.BID_MASKHIGH128 (UInt64.ofInt (toI (-exp - 1))) = .ok mk
  hoh : tbl64 Dec.Gen.BID_ONEHALF128 (UInt64.ofInt (toI (-exp - 1))) = .ok oh
  c1 : (decide (-exp - 1 ≤ 2) = true) ↔ x ≤ 3
  c2 : (decide (-exp - 1 ≤ 21) = true) ↔ x ≤ 22
  shv : sh.toInt = (sN : Int)
  sA : x ≤ 3 → sN = 0
  sB : 3 < x → x ≤ 22 → 1 ≤ sN ∧ sN ≤ 63
  sC : 22 < x → 65 ≤ sN ∧ sN ≤ 127
  mkv : mk.toNat = 2 ^ (sN % 64) - 1
  ohv : oh.toNat = if sN % 64 = 0 then 0 else 2 ^ (sN % 64 - 1)
  prod : v.w3.toNat * 2^192 + v.w2.toNat * 2^128 + v.w1.toNat * 2^64 + v.w0.toNat = c * val128 t
  hK : val128 t * 10 ^ x = 2 ^ (128 + sN) + δ
  dpos : 0 < δ
  small : (c / 10 ^ x + 1) * δ < val128 t
  hdiv : c * val128 t / 2 ^ (128 + sN) = c / 10 ^ x
  hmod : c * val128 t % 2 ^ (128 + sN) = c / 10 ^ x * δ + c % 10 ^ x * val128 t

theorem recip_exists (C : U128) (exp : Int32) (c x : Nat) (hc : val128 C = c) (hlt : c < 10 ^ 35) (hx1 : 1 ≤ x) (hx2 : x ≤ 34)
    (hexp : exp.toInt = -(x : Int)) : ∃ t v sh mk oh sN δ, Recip C exp c x t v sh mk oh sN δ := by
  have hi : (-exp - 1).toInt = (x : Int) - 1 := by
    rw [i32_sub _ _ (by rw [i32_neg _ (by omega)]; omega) (by decide), i32_neg _ (by omega), hexp]
    show - -(x : Int) - 1 = _
    omega
  have hidx : (UInt64.ofInt (toI (-exp - 1))).toNat = x - 1 := u64_of_i32 _ _ (by rw [hi]; omega)
  obtain ⟨t, ht, tv⟩ := tbl128_ten2mk _ (x - 1) hidx (by omega)
  obtain ⟨v, hv, vv⟩ := mul_128x128_to_256_spec C t
  obtain ⟨sh, hsh, shv⟩ := tblI32_shift _ (x - 1) hidx (by omega)
  obtain ⟨mk, hmk, mkv⟩ := tbl64_mask _ (x - 1) hidx (by omega)
  obtain ⟨oh, hoh, ohv⟩ := tbl64_half _ (x - 1) hidx (by omega)
  obtain ⟨δ, hK, dpos, _, small, hdiv, hmod⟩ := recip_core (x - 1) (by omega) c hlt
  obtain ⟨_, _, r1, r2, r3⟩ := ten2mk_row (x - 1) (by omega)
  rw [show x - 1 + 1 = x by omega, ← tv] at hK small hdiv hmod
  rw [hc] at vv
  refine ⟨t, v, sh, mk, oh, _, δ, ht, hv, hsh, hmk, hoh, ?_, ?_, shv, fun h => r1 (by omega), fun h1 h2 => r2 (by omega) (by omega),
    fun h => r3 (by omega), mkv, ohv, vv, hK, dpos, small, hdiv, hmod⟩
  · rw [decide_eq_true_eq, Int32.le_iff_toInt_le, hi, show (2 : Int32).toInt = 2 from rfl]; omega
  · rw [decide_eq_true_eq, Int32.le_iff_toInt_le, hi, show (21 : Int32).toInt = 21 from rfl]; omega


namespace Recip
variable {C : U128} {exp : Int32} {c x : Nat} {t : U128} {v : U256} {sh : Int32} {mk oh : UInt64} {sN δ : Nat}

/-- the quotient, first word-position case (`x ≤ 3`, no shift) -/
theorem qA (R : Recip C exp c x t v sh mk oh sN δ) (hx : x ≤ 3) : val128 ⟨v.w2, v.w3⟩ = c / 10 ^ x := by
  have h0 := v.w0.toNat_lt; have h1 := v.w1.toNat_lt; have h2 := v.w2.toNat_lt; have h3 := v.w3.toNat_lt
  have hd := R.hdiv
  rw [R.sA hx, Nat.add_zero, ← R.prod] at hd
  rw [← hd]
  show v.w3.toNat * 2^64 + v.w2.toNat = _
  omega

theorem shift_amounts (R : Recip C exp c x t v sh mk oh sN δ) :
    (UInt64.ofInt (toI sh)).toNat = sN ∧ (sN ≤ 64 → (UInt64.ofInt (toI (64 - sh))).toNat = 64 - sN) ∧
    (64 ≤ sN → (UInt64.ofInt (toI (sh - 64))).toNat = sN - 64) := by
  have hs : sN ≤ 127 := by
    by_cases h1 : x ≤ 3
    · have := R.sA h1; omega
    · by_cases h2 : x ≤ 22
      · have := R.sB (by omega) h2; omega
      · have := R.sC (by omega); omega
  have shv := R.shv
  refine ⟨u64_of_i32 _ _ shv, fun h => u64_of_i32 _ _ ?_, fun h => u64_of_i32 _ _ ?_⟩
  · rw [i32_sub _ _ (by decide) (by omega), shv]; show (64 : Int) - _ = _; omega
  · rw [i32_sub _ _ (by omega) (by decide), shv]; show _ - (64 : Int) = _; omega

/-- the quotient, second case (`4 ≤ x ≤ 22`, shift by 1 … 63 over two words) -/
theorem qB (R : Recip C exp c x t v sh mk oh sN δ) (hx1 : 3 < x) (hx2 : x ≤ 22) :
    val128 ⟨v.w3 <<< UInt64.ofInt (toI (64 - sh)) ||| v.w2 >>> UInt64.ofInt (toI sh), v.w3 >>> UInt64.ofInt (toI sh)⟩
      = c / 10 ^ x := by
  have h0 := v.w0.toNat_lt; have h1 := v.w1.toNat_lt; have h2 := v.w2.toNat_lt; have h3 := v.w3.toNat_lt
  obtain ⟨s1, s2⟩ := R.sB hx1 hx2
  obtain ⟨a1, a2, _⟩ := R.shift_amounts
  have hd := R.hdiv
  have hhi : c * val128 t / 2 ^ 128 = v.w3.toNat * 2^64 + v.w2.toNat := by rw [← R.prod]; omega
  rw [Nat.pow_add, ← Nat.div_div_eq_div_mul, hhi] at hd
  rw [← hd, ← shr128 _ _ sN s1 s2 h3 h2]
  simp only [val128, UInt64.toNat_or, UInt64.toNat_shiftLeft, UInt64.toNat_shiftRight, a1, a2 (by omega),
    Nat.shiftLeft_eq, Nat.shiftRight_eq_div_pow]
  rw [Nat.mod_eq_of_lt (show sN < 64 by omega), Nat.mod_eq_of_lt (show 64 - sN < 64 by omega)]

/-- the quotient, third case (`23 ≤ x`, shift by 64 … 127: only the top word survives) -/
theorem qC (R : Recip C exp c x t v sh mk oh sN δ) (hx : 22 < x) :
    val128 ⟨v.w3 >>> UInt64.ofInt (toI (sh - 64)), 0⟩ = c / 10 ^ x := by
  have h0 := v.w0.toNat_lt; have h1 := v.w1.toNat_lt; have h2 := v.w2.toNat_lt; have h3 := v.w3.toNat_lt
  obtain ⟨s1, s2⟩ := R.sC hx
  obtain ⟨_, _, a3⟩ := R.shift_amounts
  have hd := R.hdiv
  have hhi : c * val128 t / 2 ^ 128 = v.w3.toNat * 2^64 + v.w2.toNat := by rw [← R.prod]; omega
  rw [Nat.pow_add, ← Nat.div_div_eq_div_mul, hhi] at hd
  rw [← hd]
  simp only [val128, UInt64.toNat_shiftRight, a3 (by omega), Nat.shiftRight_eq_div_pow, UInt64.toNat_zero, Nat.zero_mul, Nat.zero_add]
  rw [Nat.mod_eq_of_lt (show sN - 64 < 64 by omega)]
  have e : 2 ^ sN = 2 ^ 64 * 2 ^ (sN - 64) := by rw [← Nat.pow_add]; congr 1; omega
  rw [e, ← Nat.div_div_eq_div_mul]
  congr 1
  omega

/-- the discarded part `f* = c·K mod 2^(128+shift)`, first case: the two low words -/
theorem fA (R : Recip C exp c x t v sh mk oh sN δ) (hx : x ≤ 3) :
    v.w1.toNat * 2^64 + v.w0.toNat = c * val128 t % 2 ^ (128 + sN) := by
  have h0 := v.w0.toNat_lt; have h1 := v.w1.toNat_lt; have h2 := v.w2.toNat_lt; have h3 := v.w3.toNat_lt
  rw [R.sA hx, Nat.add_zero, ← R.prod]
  omega

theorem mask_and (R : Recip C exp c x t v sh mk oh sN δ) (w : UInt64) : (w &&& mk).toNat = w.toNat % 2 ^ (sN % 64) := by
  rw [UInt64.toNat_and, R.mkv, Nat.and_two_pow_sub_one_eq_mod]

/-- `f*`, second case: the masked third word and the two low words -/
theorem fB (R : Recip C exp c x t v sh mk oh sN δ) (hx1 : 3 < x) (hx2 : x ≤ 22) :
    (v.w2 &&& mk).toNat * 2^128 + v.w1.toNat * 2^64 + v.w0.toNat = c * val128 t % 2 ^ (128 + sN) := by
  have h0 := v.w0.toNat_lt; have h1 := v.w1.toNat_lt; have h2 := v.w2.toNat_lt; have h3 := v.w3.toNat_lt
  obtain ⟨s1, s2⟩ := R.sB hx1 hx2
  rw [R.mask_and, Nat.mod_eq_of_lt (show sN < 64 by omega), Nat.pow_add, Nat.mod_mul, ← R.prod]
  have e1 : (v.w3.toNat * 2^192 + v.w2.toNat * 2^128 + v.w1.toNat * 2^64 + v.w0.toNat) % 2^128
      = v.w1.toNat * 2^64 + v.w0.toNat := by omega
  have e2 : (v.w3.toNat * 2^192 + v.w2.toNat * 2^128 + v.w1.toNat * 2^64 + v.w0.toNat) / 2^128
      = v.w3.toNat * 2^64 + v.w2.toNat := by omega
  rw [e1, e2]
  have e3 : (v.w3.toNat * 2^64 + v.w2.toNat) % 2 ^ sN = v.w2.toNat % 2 ^ sN := by
    have : 2^64 = 2^sN * 2^(64 - sN) := by rw [← Nat.pow_add]; congr 1; omega
    rw [this, ← Nat.mul_assoc, Nat.mul_comm (v.w3.toNat) (2^sN), Nat.mul_assoc, Nat.mul_add_mod]
  rw [e3]
  omega

/-- `f*`, third case: the masked top word and the three low words -/
theorem fC (R : Recip C exp c x t v sh mk oh sN δ) (hx : 22 < x) :
    (v.w3 &&& mk).toNat * 2^192 + v.w2.toNat * 2^128 + v.w1.toNat * 2^64 + v.w0.toNat = c * val128 t % 2 ^ (128 + sN) := by
  have h0 := v.w0.toNat_lt; have h1 := v.w1.toNat_lt; have h2 := v.w2.toNat_lt; have h3 := v.w3.toNat_lt
  obtain ⟨s1, s2⟩ := R.sC hx
  rw [R.mask_and, show sN % 64 = sN - 64 by omega, show 128 + sN = 192 + (sN - 64) by omega, Nat.pow_add, Nat.mod_mul, ← R.prod]
  have e1 : (v.w3.toNat * 2^192 + v.w2.toNat * 2^128 + v.w1.toNat * 2^64 + v.w0.toNat) % 2^192
      = v.w2.toNat * 2^128 + v.w1.toNat * 2^64 + v.w0.toNat := by omega
  have e2 : (v.w3.toNat * 2^192 + v.w2.toNat * 2^128 + v.w1.toNat * 2^64 + v.w0.toNat) / 2^192 = v.w3.toNat := by omega
  rw [e1, e2]
  omega

/-- **the inexactness test**: the discarded part is at least the reciprocal iff the remainder is non-zero -/
theorem frac_ge (R : Recip C exp c x t v sh mk oh sN δ) :
    val128 t ≤ c * val128 t % 2 ^ (128 + sN) ↔ c % 10 ^ x ≠ 0 := by
  rw [R.hmod]
  have h := R.small
  rw [Nat.add_mul, Nat.one_mul] at h
  generalize c / 10 ^ x * δ = a at *
  generalize val128 t = K at *
  constructor
  · intro h1 h2; rw [h2, Nat.zero_mul] at h1; omega
  · intro h1
    have : K ≤ c % 10 ^ x * K := Nat.le_mul_of_pos_left _ (Nat.pos_of_ne_zero h1)
    omega

/-- the code's test `f* ≥ K`, first case -/
theorem geA (R : Recip C exp c x t v sh mk oh sN δ) (hx : x ≤ 3) :
    (decide (v.w1 > t.w1) || v.w1 == t.w1 && decide (v.w0 ≥ t.w0)) = decide (c % 10 ^ x ≠ 0) := by
  rw [Dec.C06GenFromInt.ge128, decide_eq_decide, ← R.frac_ge, ← R.fA hx]
  rfl

/-- the code's test `f* ≥ K`, second case -/
theorem geB (R : Recip C exp c x t v sh mk oh sN δ) (hx1 : 3 < x) (hx2 : x ≤ 22) :
    (v.w2 &&& mk != 0 || decide (v.w1 > t.w1) || v.w1 == t.w1 && decide (v.w0 ≥ t.w0)) = decide (c % 10 ^ x ≠ 0) := by
  have h0 := v.w0.toNat_lt; have h1 := v.w1.toNat_lt; have k0 := t.w0.toNat_lt; have k1 := t.w1.toNat_lt
  rw [Bool.or_assoc, Dec.C06GenFromInt.ge128, Bool.eq_iff_iff, decide_eq_true_eq, ← R.frac_ge, ← R.fB hx1 hx2]
  simp only [Bool.or_eq_true, bne_iff_ne, ne_eq, decide_eq_true_eq, ← UInt64.toNat_inj, UInt64.toNat_zero, val128]
  omega

/-- the code's test `f* ≥ K`, third case -/
theorem geC (R : Recip C exp c x t v sh mk oh sN δ) (hx : 22 < x) :
    (v.w3 &&& mk != 0 || v.w2 != 0 || decide (v.w1 > t.w1) || v.w1 == t.w1 && decide (v.w0 ≥ t.w0))
      = decide (c % 10 ^ x ≠ 0) := by
  have h0 := v.w0.toNat_lt; have h1 := v.w1.toNat_lt; have k0 := t.w0.toNat_lt; have k1 := t.w1.toNat_lt
  rw [Bool.or_assoc, Dec.C06GenFromInt.ge128, Bool.eq_iff_iff, decide_eq_true_eq, ← R.frac_ge, ← R.fC hx]
  simp only [Bool.or_eq_true, bne_iff_ne, ne_eq, decide_eq_true_eq, ← UInt64.toNat_inj, UInt64.toNat_zero, val128]
  omega

end Recip


/-! ### incrementing a two-word result -/

/-- the code's `res.w0 += 1; if res.w0 == 0 { res.w1 += 1 }` -/
def inc128 (r : U128) : U128 := if (r.w0 + 1 == 0) = true then ⟨r.w0 + 1, r.w1 + 1⟩ else ⟨r.w0 + 1, r.w1⟩

theorem inc128_val (r : U128) (h : val128 r + 1 < 2^128) : val128 (inc128 r) = val128 r + 1 := by
  have h0 := r.w0.toNat_lt; have h1 := r.w1.toNat_lt
  unfold inc128 val128 at *
  by_cases hz : r.w0 + 1 = 0
  · rw [if_pos (by simpa using hz)]
    have := congrArg UInt64.toNat hz
    rw [UInt64.toNat_add] at this
    simp only [UInt64.toNat_add, UInt64.toNat_one, UInt64.toNat_zero] at this ⊢
    omega
  · rw [if_neg (by simpa using hz)]
    have : (r.w0 + 1).toNat ≠ 0 := fun h => hz (UInt64.toNat_inj.1 h)
    simp only [UInt64.toNat_add, UInt64.toNat_one] at this ⊢
    omega

theorem inc_res (a b SE : UInt64) (f : UInt32) :
    (if (a + 1 == 0) = true then ((⟨a + 1, b + 1 ||| SE⟩ : U128), f) else (⟨a + 1, b ||| SE⟩, f))
      = (⟨(inc128 ⟨a, b⟩).w0, (inc128 ⟨a, b⟩).w1 ||| SE⟩, f) := by
  unfold inc128
  split <;> rfl

/-! ### floor -/

theorem roundInt_rdn (s : Bool) (q r D : Nat) : roundInt .rdn s q r D = if r ≠ 0 ∧ s = true then q + 1 else q := by
  by_cases h : r = 0 <;> cases s <;> simp [roundInt, roundUp, h]

theorem roundInt_rup (s : Bool) (q r D : Nat) : roundInt .rup s q r D = if r ≠ 0 ∧ s = false then q + 1 else q := by
  by_cases h : r = 0 <;> cases s <;> simp [roundInt, roundUp, h]

theorem sign_ne_zero (S : UInt64) (s : Bool) (hS : S.toNat = if s then 2^63 else 0) : (S != 0) = s := by
  cases s
  · have : S = 0 := UInt64.toNat_inj.1 (by rw [hS]; rfl)
    subst this; rfl
  · have : S = 0x8000000000000000 := UInt64.toNat_inj.1 (by rw [hS]; rfl)
    subst this; rfl

theorem sign_eq_zero (S : UInt64) (s : Bool) (hS : S.toNat = if s then 2^63 else 0) : (S == 0) = !s := by
  cases s
  · have : S = 0 := UInt64.toNat_inj.1 (by rw [hS]; rfl)
    subst this; rfl
  · have : S = 0x8000000000000000 := UInt64.toNat_inj.1 (by rw [hS]; rfl)
    subst this; rfl


theorem lt_pow_of_digits (c x : Nat) (h : ndigits c ≤ x) : c < 10 ^ x :=
  Nat.lt_of_lt_of_le (lt_pow_ndigits c) (Nat.pow_le_pow_right (by decide) h)


end Dec.C08GenRoundIntegral
