/-
  The text entry points of the public API, proved about the translated source RELATIVE TO the string routine.

  `bid128_from_string_clear_status` (bid128_string.rs: `&str` / `char` code) is outside the translator's subset.  Everything
  AROUND it is translated on every run into `DecGen/Code3.lean` with that routine as an explicit parameter `cs`:
  `bid128_from_string` (the wrapper that runs it on a clear local word and ORs the word back — D4's repair), `bid128_nan`,
  `d128::nan`, `d128::convert_from_decimal_character`, `impl FromStr for d128`, `impl From<&str> for d128`.
  The theorems below hold for EVERY `cs` (any deterministic string routine, including one that panics):

  * `from_string_eq`, `from_string_framed` — C14 for the text entry point, about the source: the result and the raised set do
    not depend on the incoming status word; the outgoing word is the incoming one OR-ed with what `cs` raises from a clear word;
  * `convert_eq` — `convert_from_decimal_character(s, mode, &mut f)` is `bid128_from_string` at `mode.unwrap_or(NearestEven)`;
  * `from_str_eq` — `FromStr`: `Ok(value)` exactly when the conversion from a clear word raised nothing or only inexact, else
    `Err(the raised flags)` (C04's clause for the trait form; seeded change C04-4 lived here);
  * `from_ref_eq` — `From<&str>`: the value, nearest-even, flags dropped;
  * `nan_empty`, `nan_nonempty` — exactly which bits `d128::nan(tag)` takes from the parsed tag;
  * `text_total` — C15 for the wrappers (five conjuncts: `bid128_from_string`, `convert_from_decimal_character`, `from_str`,
    `From<&str>`, `d128::nan`, the last through `bid128_nan`): if `cs` returns normally, so does each of them;
  * `display_eq`, `debug_eq`, `upperexp_eq`, `lowerexp_eq` — the four formatter impls over the formatter `ts` as a parameter.
  The tie of `cs` itself to the compiled code is the H level of C04 (`DecModel/Scan.lean`, `ScanNum.lean`, `corr scanner-model`);
  `judgehk` runs this translated glue over that model on every observed text call (`corr translated-code`).

  Axioms: `propext`, `Classical.choice`, `Quot.sound`.
-/
import DecGen.Api3

set_option linter.unusedVariables false

namespace Dec.C14GenTextGlue
open Dec.Rs Dec.Gen.Code Dec.Gen.Code3 Dec.Gen.Api3

/-- the type of the string routine `bid128_from_string_clear_status(str, rnd_mode, &mut flags) -> BID_UINT128` -/
abbrev CS := String → RoundingMode → UInt32 → Except String (U128 × UInt32)

theorem zero_or (g : UInt32) : (0 : UInt32) ||| g = g := by
  apply UInt32.toNat_inj.mp; simp

/-- **`bid128_from_string`** runs the string routine from a clear word and ORs what it raised into the caller's word -/
theorem from_string_eq (cs : CS) (s : String) (m : RoundingMode) (f : UInt32) :
    bid128_from_string cs s m f = (cs s m 0).map fun p => (p.1, f ||| p.2) := by
  unfold bid128_from_string
  cases h : cs s m 0 <;> simp [bind, Except.bind, pure, Except.pure, Except.map, h, c_StatusFlags_BID_EXACT_STATUS]

/-- the C14 frame (same form as `C14GenFrame.Framed`): result, raised set and panic do not depend on the incoming word -/
theorem from_string_framed (cs : CS) (s : String) (m : RoundingMode) (f g : UInt32) :
    bid128_from_string cs s m (f ||| g) = (bid128_from_string cs s m g).map fun p => (p.1, f ||| p.2) := by
  rw [from_string_eq, from_string_eq]
  cases cs s m 0 <;> simp [Except.map, UInt32.or_assoc]

theorem convert_eq (cs : CS) (s : String) (om : Option RoundingMode) (f : UInt32) :
    d128_convert_from_decimal_character cs s om f = bid128_from_string cs s (om.getD .NearestEven) f := by
  unfold d128_convert_from_decimal_character c_DEFAULT_ROUNDING_MODE
  cases h : bid128_from_string cs s (om.getD .NearestEven) f <;> simp [bind, Except.bind, pure, Except.pure, h]

/-- **`impl FromStr`**: `Ok` exactly when the conversion (nearest-even, clear word) raised nothing or only inexact -/
theorem from_str_eq (cs : CS) (s : String) :
    d128_FromStr_from_str cs s =
      (cs s .NearestEven 0).map fun p => if p.2 = 0 ∨ p.2 = 0x20 then (Except.ok p.1 : Except UInt32 U128) else .error p.2 := by
  unfold d128_FromStr_from_str c_DEFAULT_ROUNDING_MODE
  simp only [from_string_eq]
  cases h : cs s .NearestEven 0 with
  | error e => simp [bind, Except.bind, Except.map]
  | ok p =>
    simp only [bind, Except.bind, Except.map, pure, Except.pure, zero_or]
    by_cases h0 : p.2 = 0
    · simp [h0, c_StatusFlags_BID_EXACT_STATUS]
    · by_cases h1 : p.2 = 0x20
      · simp [h1, c_StatusFlags_BID_EXACT_STATUS, c_StatusFlags_BID_INEXACT_EXCEPTION, c_DEC_FE_INEXACT]
      · have e0 : (p.2 == c_StatusFlags_BID_EXACT_STATUS) = false := by
          simpa [c_StatusFlags_BID_EXACT_STATUS] using h0
        have e1 : (p.2 == c_StatusFlags_BID_INEXACT_EXCEPTION) = false := by
          simpa [c_StatusFlags_BID_INEXACT_EXCEPTION, c_DEC_FE_INEXACT] using h1
        simp [e0, e1, h0, h1]

/-- **`impl From<&str>`**: the value of the conversion at nearest-even; its flags are dropped -/
theorem from_ref_eq (cs : CS) (s : String) : d128_From_str_from cs s = (cs s .NearestEven 0).map (·.1) := by
  unfold d128_From_str_from c_DEFAULT_ROUNDING_MODE
  simp only [from_string_eq]
  cases h : cs s .NearestEven 0 <;> simp [bind, Except.bind, Except.map, pure, Except.pure, c_StatusFlags_BID_EXACT_STATUS]

/-- **`d128::nan("")`**: the default quiet NaN, status word untouched -/
theorem nan_empty (cs : CS) (t : String) (f : UInt32) (h : t.isEmpty = true) :
    d128_nan cs t f = .ok (⟨0, 0x7c00000000000000⟩, f) := by
  unfold d128_nan bid128_nan
  simp [bind, Except.bind, pure, Except.pure, h]

/-- **`d128::nan(tag)`**, tag not empty: a quiet-NaN pattern whose low word and 46 + 2 bits of the high word (mask
`0x0000cfffffffffff`, as the source has it) come from the tag parsed as a decimal literal at nearest-even; the flags of that
parse are OR-ed into the caller's word -/
theorem nan_nonempty (cs : CS) (t : String) (f : UInt32) (h : t.isEmpty = false) :
    d128_nan cs t f = (cs t .NearestEven 0).map fun p =>
      ((⟨p.1.w0, 0x7c00000000000000 ||| (p.1.w1 &&& 0xcfffffffffff)⟩ : U128), f ||| p.2) := by
  unfold d128_nan bid128_nan c_DEFAULT_ROUNDING_MODE
  simp only [from_string_eq]
  cases h' : cs t .NearestEven 0 <;> simp [bind, Except.bind, pure, Except.pure, Except.map, h]

/-- the C14 frame for `d128::nan` -/
theorem nan_framed (cs : CS) (t : String) (f g : UInt32) :
    d128_nan cs t (f ||| g) = (d128_nan cs t g).map fun p => (p.1, f ||| p.2) := by
  cases h : t.isEmpty
  · rw [nan_nonempty cs t _ h, nan_nonempty cs t _ h]
    cases cs t .NearestEven 0 <;> simp [Except.map, UInt32.or_assoc]
  · rw [nan_empty cs t _ h, nan_empty cs t _ h]; rfl

/-- **C15 for the text wrappers, relative to the string routine**: where `cs` returns normally (every text, every mode, from
a clear word — `C04Scan.scan_never_panics` + `C04ScanNum.fromStringCode_no_panic` state this of the code-shaped model of `cs`),
each of the six wrappers returns normally for every text, mode and status word -/
theorem text_total (cs : CS) (hcs : ∀ s m, ∃ r, cs s m 0 = .ok r) (s : String) (om : Option RoundingMode) (m : RoundingMode) (f : UInt32) :
    (∃ r, bid128_from_string cs s m f = .ok r) ∧ (∃ r, d128_convert_from_decimal_character cs s om f = .ok r) ∧
    (∃ r, d128_FromStr_from_str cs s = .ok r) ∧ (∃ r, d128_From_str_from cs s = .ok r) ∧ (∃ r, d128_nan cs s f = .ok r) := by
  refine ⟨?_, ?_, ?_, ?_, ?_⟩
  · rw [from_string_eq]; obtain ⟨r, hr⟩ := hcs s m; rw [hr]; exact ⟨_, rfl⟩
  · rw [convert_eq, from_string_eq]; obtain ⟨r, hr⟩ := hcs s (om.getD .NearestEven); rw [hr]; exact ⟨_, rfl⟩
  · rw [from_str_eq]; obtain ⟨r, hr⟩ := hcs s .NearestEven; rw [hr]; exact ⟨_, rfl⟩
  · rw [from_ref_eq]; obtain ⟨r, hr⟩ := hcs s .NearestEven; rw [hr]; exact ⟨_, rfl⟩
  · cases h : s.isEmpty
    · rw [nan_nonempty cs s f h]; obtain ⟨r, hr⟩ := hcs s .NearestEven; rw [hr]; exact ⟨_, rfl⟩
    · rw [nan_empty cs s f h]; exact ⟨_, rfl⟩

/-- the dispatch of the four text operations (`Api3.run3s`), as equations -/
theorem run3s_convert (cs : CS) (om : Option RoundingMode) (f : UInt32) (s : String) :
    run3s cs "convert_from_decimal_character" om f s
      = some ((cs s (om.getD .NearestEven) 0).map fun p => (TVal.d p.1, f ||| p.2)) := by
  show some ((d128_convert_from_decimal_character cs s om f).map fun (r, f) => (TVal.d r, f)) = _
  rw [convert_eq, from_string_eq]; cases cs s (om.getD .NearestEven) 0 <;> rfl

/-! ## The four formatter impls, relative to the formatter -/

/-- the type of the formatter `bid128_to_string(x, fmt, upperExp) -> fmt::Result`: text written so far ↦ (`Ok`?, text) -/
abbrev TS := U128 → List UInt8 → Bool → Except String (Bool × List UInt8)

/-- **`{}`, `{:?}` and `{:E}` are the same call `bid128_to_string(x, fmt, true)`; `{:e}` is `bid128_to_string(x, fmt, false)`** —
for any formatter `ts`, any pattern and any text already written (C05: "E, e for LowerExp") -/
theorem display_eq (ts : TS) (x : U128) (buf : List UInt8) : d128_Display_fmt ts x buf = ts x buf true := by
  unfold d128_Display_fmt; cases h : ts x buf true <;> simp [bind, Except.bind, pure, Except.pure, h]
theorem debug_eq (ts : TS) (x : U128) (buf : List UInt8) : d128_Debug_fmt ts x buf = ts x buf true := by
  unfold d128_Debug_fmt; cases h : ts x buf true <;> simp [bind, Except.bind, pure, Except.pure, h]
theorem upperexp_eq (ts : TS) (x : U128) (buf : List UInt8) : d128_UpperExp_fmt ts x buf = ts x buf true := by
  unfold d128_UpperExp_fmt; cases h : ts x buf true <;> simp [bind, Except.bind, pure, Except.pure, h]
theorem lowerexp_eq (ts : TS) (x : U128) (buf : List UInt8) : d128_LowerExp_fmt ts x buf = ts x buf false := by
  unfold d128_LowerExp_fmt; cases h : ts x buf false <;> simp [bind, Except.bind, pure, Except.pure, h]

/-- the regenerated dispatch of the four formatting operations -/
theorem run3f_eq (ts : TS) (x : U128) (buf : List UInt8) :
    run3f ts "display" x buf = some (ts x buf true) ∧ run3f ts "debug" x buf = some (ts x buf true) ∧
    run3f ts "upperexp" x buf = some (ts x buf true) ∧ run3f ts "lowerexp" x buf = some (ts x buf false) :=
  ⟨congrArg some (display_eq ts x buf), congrArg some (debug_eq ts x buf), congrArg some (upperexp_eq ts x buf),
   congrArg some (lowerexp_eq ts x buf)⟩

end Dec.C14GenTextGlue
