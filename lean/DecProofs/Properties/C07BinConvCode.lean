/-
  C07 (code level) — `DecModel/BinConvCode.lean` is a code-shaped model of `binary64_to_bid128` and
  `binary32_to_bid128` (unpacking with its bit tricks, the exact block for integers and small dyadic fractions, the
  decimal-exponent estimate, the bipartite table look-up and 256×256 product, the 128×256 product, shift, adjustment by
  ten, rounding against `BID_ROUNDBOUND_128`, packing), with every table index that could panic made explicit.

  Here: for EVERY bit pattern (all 2^64 / 2^32) and all five rounding modes it returns normally, and returns exactly the
  encoding and the flags that the specification `Dec.binToDecD` / `Dec.decodeBin` prescribes — what the judge uses for
  `convert_from_f64`, `convert_from_f32`, `from_f64`, `from_f32` (`DecModel/Ops.lean`, `binConv`): `bin64Code_spec`,
  `bin32Code_spec`, `binConvCodeOp_spec`.  No hypothesis is left: in particular the "hard case" bound the algorithm
  rests on is derived here, not assumed.

  How the proof goes
  1. (kernel) for each of the 2098 possible exponents `e` of the 113-bit normalised input (`expOk`, `expOk_all`, 21 chunks):
     the table look-up succeeds; the 256-bit multiplier `r·2^f` is `10^(−q0)` rounded up with relative error `≤ 2^-250`
     (`approxOk`; this covers the code's `t_prime.w[4] + 1`, which would be wrong if that word were all ones — it never
     is for an index the conversions use); the shift amount is in `1..63`; the estimate `q0` of the decimal exponent is
     right or one too large; and the **hard-case bound** (`hardOk`): for `q ∈ {q0, q0 − 1}` and every 53-bit `c`, twice the
     scaled value `c·2^(e+61)/10^q` is an integer or at least `2^-126` away from every integer.  The latter is checked
     with a continued-fraction certificate: either the reduced denominator is `≤ 2^126`, or two consecutive convergents
     `p/a`, `r/b` (`b ≥ 2^53`) computed by Euclid's algorithm inside the kernel satisfy `|a·P − p·Q| ≥ Q/2^126`, which
     bounds `|c·P − m·Q|` for all `0 < c < b` (`cert_bound`, the lattice argument; `hard_of_ok`).  The worst case over
     all exponents is about `2^-64`, so the margin is enormous; binary32 needs no certificate at all.
  2. the multi-word helpers of the file are exact (`mul128x256to384_spec`, `srl384Short_spec`, `mul10x384_spec`,
     `srl128_spec`, …; the primitives of bid_internal.rs are cited from `C01ArithHelpers`), `clz64/ctz64/clz32/ctz32`
     count zeros (`clz64Nz_eq`, `ctz64_spec`, …), the unpacking is what `decodeBin` says (`unpack64_*`, `unpack32_*`).
  3. the rounding argument (`round_core`, `rounded_of_core`): a fixed-point number that is the scaled value rounded up with
     absolute error `≤ 2^120·2^-256`, together with the hard-case bound, has the right integer part, and its top 128
     fraction bits compared with the round bound decide the rounding exactly; `F = 0` iff exact.
  4. the specification side (`spec_inexact`, `spec_exact_main`, `spec_exact_frac`, via `C07Q.bin_eq_iff` and the
     uniqueness of the tight delivery clause `FinishSpecStrict`).
  5. the exact block (`exactBlock_spec`: when it returns it is right, when it does not the value is not a member of the
     format at an exponent `≤ 0`), the main block (`mainBlock_spec`), `convTail_spec`, and the two routines.
-/
import DecModel.BinConvCode
import DecProofs.Properties.C01ArithHelpers
import DecProofs.Properties.C07Q
import DecProofs.Core.FinishUnique
import DecProofs.Core.Codec
import DecProofs.TableFacts.BinTables
import Mathlib.Data.Nat.GCD.Basic
import DecProofs.TableFacts.F_BID_POWER_FIVE
import DecProofs.TableFacts.F_BID_COEFFLIMITS_BID128
import DecProofs.TableFacts.F_BID_ROUNDBOUND_128

namespace Dec.C07BinConvCode
open Dec Dec.AH Dec.BC Dec.C01ArithHelpers Dec.C07Q

/-- 2^64 -/
local notation "W" => (18446744073709551616 : Nat)

/-! ### 1. Per-exponent facts, checked by the kernel -/

/-- numerator of `b^X` for an integer exponent -/
def pw (b : Nat) (X : Int) : Nat := if X ≥ 0 then b ^ X.toNat else 1
/-- denominator of `b^X` for an integer exponent -/
def pwn (b : Nat) (X : Int) : Nat := if X < 0 then b ^ (-X).toNat else 1

/-- `hardP e q / hardQ e q = 2^(e+61) / 10^q = 2^(e+61−q) · 5^(−q)` in lowest terms: twice the scaled value of
`c·2^60·2^e` at the decimal exponent `q` is `c·hardP/hardQ` -/
def hardP (e q : Int) : Nat := pw 2 (e + 61 - q) * pw 5 (-q)
def hardQ (e q : Int) : Nat := pwn 2 (e + 61 - q) * pwn 5 (-q)

/-- the convergents of `n/d` by Euclid's algorithm, until the denominator reaches `N`:
`(k0, h0, k1, h1)` = the last two convergents `h0/k0`, `h1/k1` -/
def cfLoop : Nat → Nat → Nat → Nat → Nat → Nat → Nat → Nat → Nat × Nat × Nat × Nat
  | 0, h0, h1, k0, k1, _, _, _ => (k0, h0, k1, h1)
  | fuel + 1, h0, h1, k0, k1, n, d, N =>
    if d = 0 ∨ N ≤ k1 then (k0, h0, k1, h1)
    else cfLoop fuel h1 (n / d * h1 + h0) k1 (n / d * k1 + k0) d (n % d) N

/-- the certificate check: two fractions `p/a`, `r/b` with `p·b − r·a = ±1`, `b ≥ 2^53`, on opposite sides of `P/Q`, and
`|a·P − p·Q| ≥ Q / 2^126` -/
def certOk (P Q a p b r : Nat) : Bool :=
  decide (2 ^ 53 ≤ b) && (decide (p * b = r * a + 1) || decide (r * a = p * b + 1)) &&
  ((decide (p * Q ≤ a * P) && decide (b * P ≤ r * Q)) || (decide (a * P ≤ p * Q) && decide (r * Q ≤ b * P))) &&
  (decide (Q ≤ 2 ^ 126 * (a * P - p * Q)) || decide (Q ≤ 2 ^ 126 * (p * Q - a * P)))

/-- no `c < 2^53` brings `c·2^(e+61)/10^q` closer than `2^-126` to an integer without hitting it: either the
denominator is at most `2^126`, or two consecutive convergents certify it -/
def hardOk (e q : Int) : Bool :=
  if hardQ e q ≤ 2 ^ 126 then true
  else
    let c := cfLoop 200 0 1 1 0 (hardP e q) (hardQ e q) (2 ^ 53)
    certOk (hardP e q) (hardQ e q) c.1 c.2.1 c.2.2.1 c.2.2.2

/-- `r·2^f` is `10^p` rounded up, with relative error at most `2^-250` -/
def approxOk (p f : Int) (r : Nat) : Bool :=
  decide (pw 10 p * pwn 2 f ≤ r * (pwn 10 p * pw 2 f)) &&
  decide ((r * (pwn 10 p * pw 2 f) - pw 10 p * pwn 2 f) * 2 ^ 250 ≤ pw 10 p * pwn 2 f)

/-- everything the proof needs to know about the quad exponent `e` (the value is `C·2^e`, `2^112 ≤ C < 2^113`) -/
def expOk (e : Int) : Bool :=
  match tableR e with
  | none => false
  | some tr =>
    decide (tr.r.w0 < 2 ^ 64) && decide (tr.r.w1 < 2 ^ 64) && decide (tr.r.w2 < 2 ^ 64) && decide (tr.r.w3 < 2 ^ 64) &&
    decide (1 ≤ -(241 + e + tr.f)) && decide (-(241 + e + tr.f) ≤ 63) &&
    decide (2 ≤ tr.e_out) && decide (tr.e_out < 12287) &&
    approxOk (6176 - tr.e_out) tr.f tr.r.val &&
    -- `2^(e+113) ≤ 10^(q0+34)` and `10^(q0+32) ≤ 2^(e+112)`, `q0 = e_out − 6176`
    decide (pw 2 (e + 113) * pwn 10 (tr.e_out - 6176 + 34) ≤ pw 10 (tr.e_out - 6176 + 34) * pwn 2 (e + 113)) &&
    decide (pw 10 (tr.e_out - 6176 + 32) * pwn 2 (e + 112) ≤ pw 2 (e + 112) * pwn 10 (tr.e_out - 6176 + 32)) &&
    hardOk e (tr.e_out - 6176) && hardOk e (tr.e_out - 6176 - 1)

theorem expOk_chunk0 : (List.range 100).all (fun j => expOk ((j : Int) + (100 * (0 : Int) - 1186))) = true := by
  decide +kernel
theorem expOk_chunk1 : (List.range 100).all (fun j => expOk ((j : Int) + (100 * (1 : Int) - 1186))) = true := by
  decide +kernel
theorem expOk_chunk2 : (List.range 100).all (fun j => expOk ((j : Int) + (100 * (2 : Int) - 1186))) = true := by
  decide +kernel
theorem expOk_chunk3 : (List.range 100).all (fun j => expOk ((j : Int) + (100 * (3 : Int) - 1186))) = true := by
  decide +kernel
theorem expOk_chunk4 : (List.range 100).all (fun j => expOk ((j : Int) + (100 * (4 : Int) - 1186))) = true := by
  decide +kernel
theorem expOk_chunk5 : (List.range 100).all (fun j => expOk ((j : Int) + (100 * (5 : Int) - 1186))) = true := by
  decide +kernel
theorem expOk_chunk6 : (List.range 100).all (fun j => expOk ((j : Int) + (100 * (6 : Int) - 1186))) = true := by
  decide +kernel
theorem expOk_chunk7 : (List.range 100).all (fun j => expOk ((j : Int) + (100 * (7 : Int) - 1186))) = true := by
  decide +kernel
theorem expOk_chunk8 : (List.range 100).all (fun j => expOk ((j : Int) + (100 * (8 : Int) - 1186))) = true := by
  decide +kernel
theorem expOk_chunk9 : (List.range 100).all (fun j => expOk ((j : Int) + (100 * (9 : Int) - 1186))) = true := by
  decide +kernel
theorem expOk_chunk10 : (List.range 100).all (fun j => expOk ((j : Int) + (100 * (10 : Int) - 1186))) = true := by
  decide +kernel
theorem expOk_chunk11 : (List.range 100).all (fun j => expOk ((j : Int) + (100 * (11 : Int) - 1186))) = true := by
  decide +kernel
theorem expOk_chunk12 : (List.range 100).all (fun j => expOk ((j : Int) + (100 * (12 : Int) - 1186))) = true := by
  decide +kernel
theorem expOk_chunk13 : (List.range 100).all (fun j => expOk ((j : Int) + (100 * (13 : Int) - 1186))) = true := by
  decide +kernel
theorem expOk_chunk14 : (List.range 100).all (fun j => expOk ((j : Int) + (100 * (14 : Int) - 1186))) = true := by
  decide +kernel
theorem expOk_chunk15 : (List.range 100).all (fun j => expOk ((j : Int) + (100 * (15 : Int) - 1186))) = true := by
  decide +kernel
theorem expOk_chunk16 : (List.range 100).all (fun j => expOk ((j : Int) + (100 * (16 : Int) - 1186))) = true := by
  decide +kernel
theorem expOk_chunk17 : (List.range 100).all (fun j => expOk ((j : Int) + (100 * (17 : Int) - 1186))) = true := by
  decide +kernel
theorem expOk_chunk18 : (List.range 100).all (fun j => expOk ((j : Int) + (100 * (18 : Int) - 1186))) = true := by
  decide +kernel
theorem expOk_chunk19 : (List.range 100).all (fun j => expOk ((j : Int) + (100 * (19 : Int) - 1186))) = true := by
  decide +kernel
theorem expOk_chunk20 : (List.range 100).all (fun j => expOk ((j : Int) + (100 * (20 : Int) - 1186))) = true := by
  decide +kernel

theorem expOk_chunks : ∀ k : Nat, k < 21 →
    (List.range 100).all (fun j => expOk ((j : Int) + (100 * (k : Int) - 1186))) = true
  | 0, _ => expOk_chunk0
  | 1, _ => expOk_chunk1
  | 2, _ => expOk_chunk2
  | 3, _ => expOk_chunk3
  | 4, _ => expOk_chunk4
  | 5, _ => expOk_chunk5
  | 6, _ => expOk_chunk6
  | 7, _ => expOk_chunk7
  | 8, _ => expOk_chunk8
  | 9, _ => expOk_chunk9
  | 10, _ => expOk_chunk10
  | 11, _ => expOk_chunk11
  | 12, _ => expOk_chunk12
  | 13, _ => expOk_chunk13
  | 14, _ => expOk_chunk14
  | 15, _ => expOk_chunk15
  | 16, _ => expOk_chunk16
  | 17, _ => expOk_chunk17
  | 18, _ => expOk_chunk18
  | 19, _ => expOk_chunk19
  | 20, _ => expOk_chunk20
  | n + 21, h => absurd h (by omega)

/-- the facts hold for every quad exponent a binary64 (or binary32) input can have -/
theorem expOk_all (e : Int) (h1 : -1186 ≤ e) (h2 : e ≤ 911) : expOk e = true := by
  obtain ⟨k, j, hj, hk, rfl⟩ : ∃ k j : Nat, j < 100 ∧ k < 21 ∧ e = (j : Int) + (100 * (k : Int) - 1186) :=
    ⟨(e + 1186).toNat / 100, (e + 1186).toNat % 100, Nat.mod_lt _ (by decide), by omega, by omega⟩
  exact List.all_eq_true.1 (expOk_chunks k hk) j (List.mem_range.2 hj)

/-! ### 2. The multi-word helpers of bid_binarydecimal.rs -/

/-- the six-word value of a `BID_UINT512` whose words 6, 7 are zero -/
theorem val512_384 {P : U512} (h6 : P.w6 = 0) (h7 : P.w7 = 0) :
    P.val = P.w0 + W * P.w1 + W * W * P.w2 + W * W * W * P.w3 + W * W * W * W * P.w4 + W * W * W * W * W * P.w5 := by
  simp only [U512.val, h6, h7, Nat.mul_zero, Nat.add_zero]

/-- `__mul_128x256_to_384`: the exact 384-bit product, words 6 and 7 zero — for all words -/
theorem mul128x256to384_spec {A : U128} {B : U256} (hA : A.wf) (hB : B.wf) :
    (mul128x256to384 A B).val = A.val * B.val ∧ (mul128x256to384 A B).wf ∧
      (mul128x256to384 A B).w6 = 0 ∧ (mul128x256to384 A B).w7 = 0 := by
  obtain ⟨hA0, hA1⟩ := hA
  obtain ⟨v0, ⟨w00, w01, w02, w03, w04, -, -, -⟩, z05, z06, z07⟩ := mul64x256to320_spec hA0 hB
  obtain ⟨v1, ⟨w10, w11, w12, w13, w14, -, -, -⟩, z15, z16, z17⟩ := mul64x256to320_spec hA1 hB
  rw [val512_320 z05 z06 z07] at v0
  rw [val512_320 z15 z16 z17] at v1
  have hBv : B.val < W * W * W * W := by
    obtain ⟨h0, h1, h2, h3⟩ := hB; simp only [U256.val]; omega
  have q1 := mul_le_W5 hA1 hBv
  rw [← v1] at q1
  have hsplit : A.val * B.val = A.w0 * B.val + W * (A.w1 * B.val) := by
    simp only [U128.val]; ring
  rw [hsplit, ← v0, ← v1]
  refine ⟨?_, ?_, rfl, rfl⟩
  all_goals
    simp only [mul128x256to384, U512.wf, U512.val]
    generalize mul64x256to320 A.w0 B = P0 at *
    generalize mul64x256to320 A.w1 B = P1 at *
    obtain ⟨eA, a1b, a2b, a3b, a4b, r5b⟩ := add_row5 w01 w02 w03 w04 w10 w11 w12 w13 w14 q1
    generalize addCarryOut P1.w0 P0.w1 = a1 at *
    generalize addCarryInOut P1.w1 P0.w2 a1.2 = a2 at *
    generalize addCarryInOut P1.w2 P0.w3 a2.2 = a3 at *
    generalize addCarryInOut P1.w3 P0.w4 a3.2 = a4 at *
    generalize add64 P1.w4 a4.2 = R5 at *
    clear q1 hsplit hBv v0 v1
  · omega
  · exact ⟨w00, a1b, a2b, a3b, a4b, r5b, by omega, by omega⟩

/-- the words `(hi % 2^n)·2^(64−n) + lo / 2^n` and `hi / 2^n` are the 128-bit number shifted right by `n`, `1 ≤ n ≤ 63`;
the sum does not carry -/
theorem shr_pair_add {a0 a1 n : Nat} (h0 : a0 < W) (hn1 : 1 ≤ n) (hn : n ≤ 63) :
    (a1 * 2 ^ (64 - n)) % W + a0 / 2 ^ n = 2 ^ (64 - n) * (a1 % 2 ^ n) + a0 / 2 ^ n ∧
    2 ^ (64 - n) * (a1 % 2 ^ n) + a0 / 2 ^ n < W := by
  have hPQ := two_pow_split (n := n) (by omega)
  have hP : 0 < 2 ^ n := Nat.pow_pos (by decide)
  generalize 2 ^ n = P at *
  generalize hQ : 2 ^ (64 - n) = Q at *
  have e1 : (a1 * Q) % W = Q * (a1 % P) := by
    rw [← hPQ, Nat.mul_comm a1 Q, Nat.mul_comm P Q, Nat.mul_mod_mul_left]
  have e2 : a0 / P < Q := by
    apply Nat.div_lt_of_lt_mul; rw [hPQ]; exact h0
  have e6 : a1 % P < P := Nat.mod_lt _ hP
  have e7 : Q * (a1 % P) + Q ≤ Q * P := by
    have : Q * (a1 % P + 1) ≤ Q * P := Nat.mul_le_mul_left Q e6
    rwa [Nat.mul_add, Nat.mul_one] at this
  rw [Nat.mul_comm Q P, hPQ] at e7
  constructor
  · rw [e1]
  · omega

/-- a six-word number divided by `P`, `P·Q = 2^64`: word `i` of the quotient is `a_i / P + Q·(a_{i+1} % P)` -/
theorem div6 (P Q a0 a1 a2 a3 a4 a5 : Nat) (hP : 0 < P) (hPQ : P * Q = W) :
    (a0 + W * a1 + W * W * a2 + W * W * W * a3 + W * W * W * W * a4 + W * W * W * W * W * a5) / P =
      (Q * (a1 % P) + a0 / P) + W * (Q * (a2 % P) + a1 / P) + W * W * (Q * (a3 % P) + a2 / P)
        + W * W * W * (Q * (a4 % P) + a3 / P) + W * W * W * W * (Q * (a5 % P) + a4 / P) + W * W * W * W * W * (a5 / P) := by
  have e0 := Nat.div_add_mod a0 P
  have e1 := Nat.div_add_mod a1 P
  have e2 := Nat.div_add_mod a2 P
  have e3 := Nat.div_add_mod a3 P
  have e4 := Nat.div_add_mod a4 P
  have e5 := Nat.div_add_mod a5 P
  have l0 : a0 % P < P := Nat.mod_lt _ hP
  generalize a0 / P = h0 at *; generalize a0 % P = l0' at *
  generalize a1 / P = h1 at *; generalize a1 % P = l1 at *
  generalize a2 / P = h2 at *; generalize a2 % P = l2 at *
  generalize a3 / P = h3 at *; generalize a3 % P = l3 at *
  generalize a4 / P = h4 at *; generalize a4 % P = l4 at *
  generalize a5 / P = h5 at *; generalize a5 % P = l5 at *
  subst e0 e1 e2 e3 e4 e5
  rw [← hPQ]
  have key : P * h0 + l0' + P * Q * (P * h1 + l1) + P * Q * (P * Q) * (P * h2 + l2) + P * Q * (P * Q) * (P * Q) * (P * h3 + l3)
      + P * Q * (P * Q) * (P * Q) * (P * Q) * (P * h4 + l4) + P * Q * (P * Q) * (P * Q) * (P * Q) * (P * Q) * (P * h5 + l5)
      = l0' + P * ((Q * l1 + h0) + P * Q * (Q * l2 + h1) + P * Q * (P * Q) * (Q * l3 + h2)
        + P * Q * (P * Q) * (P * Q) * (Q * l4 + h3) + P * Q * (P * Q) * (P * Q) * (P * Q) * (Q * l5 + h4)
        + P * Q * (P * Q) * (P * Q) * (P * Q) * (P * Q) * h5) := by ring
  rw [key, Nat.add_mul_div_left _ _ hP, Nat.div_eq_of_lt l0, Nat.zero_add]

/-- `srl384_short(&mut x, c)` for `1 ≤ c ≤ 63` on a six-word number: the number shifted right by `c` -/
theorem srl384Short_spec {x : U512} (hx : x.wf) (h6 : x.w6 = 0) (h7 : x.w7 = 0) {c : Int} (hc1 : 1 ≤ c) (hc : c ≤ 63) :
    (srl384Short x c).val = x.val / 2 ^ c.toNat ∧ (srl384Short x c).wf ∧
      (srl384Short x c).w6 = 0 ∧ (srl384Short x c).w7 = 0 := by
  obtain ⟨b0, b1, b2, b3, b4, b5, -, -⟩ := hx
  obtain ⟨n, rfl⟩ : ∃ n : Nat, c = n := ⟨c.toNat, by omega⟩
  have hn1 : 1 ≤ n := by omega
  have hn : n ≤ 63 := by omega
  have s1 : shamt (n : Int) = n := by unfold shamt; omega
  have s2 : shamt (i32w (64 - (n : Int))) = 64 - n := by unfold shamt i32w; omega
  have m1 : n % 64 = n := by omega
  have m2 : (64 - n) % 64 = 64 - n := by omega
  obtain ⟨p0, q0⟩ := shr_pair_add (a1 := x.w1) b0 hn1 hn
  obtain ⟨p1, q1⟩ := shr_pair_add (a1 := x.w2) b1 hn1 hn
  obtain ⟨p2, q2⟩ := shr_pair_add (a1 := x.w3) b2 hn1 hn
  obtain ⟨p3, q3⟩ := shr_pair_add (a1 := x.w4) b3 hn1 hn
  obtain ⟨p4, q4⟩ := shr_pair_add (a1 := x.w5) b4 hn1 hn
  have hP : 0 < 2 ^ n := Nat.pow_pos (by decide)
  have d := div6 (2 ^ n) (2 ^ (64 - n)) x.w0 x.w1 x.w2 x.w3 x.w4 x.w5 hP (two_pow_split (by omega))
  have q5 : x.w5 / 2 ^ n < W := Nat.lt_of_le_of_lt (Nat.div_le_self _ _) b5
  simp only [srl384Short, s1, s2, shr64, shl64, add64, m1, m2, Int.toNat_natCast]
  rw [val512_384 h6 h7, d]
  refine ⟨?_, ?_, h6, h7⟩
  · simp only [U512.val, h6, h7, Nat.mul_zero, Nat.add_zero]
    rw [p0, p1, p2, p3, p4, Nat.mod_eq_of_lt q0, Nat.mod_eq_of_lt q1, Nat.mod_eq_of_lt q2, Nat.mod_eq_of_lt q3,
      Nat.mod_eq_of_lt q4]
  · simp only [U512.wf]
    rw [p0, p1, p2, p3, p4, Nat.mod_eq_of_lt q0, Nat.mod_eq_of_lt q1, Nat.mod_eq_of_lt q2, Nat.mod_eq_of_lt q3,
      Nat.mod_eq_of_lt q4]
    refine ⟨q0, q1, q2, q3, q4, q5, ?_, ?_⟩ <;> omega

/-- `__mul_10x64`: `sum + 2^64·carryout = 10·input + carryin`, `carryout ≤ 9`, for a carry-in of at most 9 -/
theorem mul10x64_spec {x ci : Nat} (hx : x < W) (hci : ci ≤ 9) :
    (mul10x64 x ci).1 + W * (mul10x64 x ci).2 = 10 * x + ci ∧ (mul10x64 x ci).1 < W ∧ (mul10x64 x ci).2 ≤ 9 := by
  have e3 : x &&& 3 = x % 4 := Nat.and_two_pow_sub_one_eq_mod x 2
  unfold mul10x64
  simp only [e3]
  have hs : add64 x (shr64 x 2) = (x + x / 4) % W := by simp only [add64, shr64, Nat.reduceMod, Nat.reducePow]
  rw [hs]
  by_cases hS : x + x / 4 < W
  · have a1 : (x + x / 4) % W = x + x / 4 := Nat.mod_eq_of_lt hS
    rw [a1, if_neg (by omega : ¬ x + x / 4 < x)]
    generalize hSd : x + x / 4 = S at *
    have c0 : add64 (shl64 0 3) (shr64 S 61) = S / 2305843009213693952 := by
      simp only [add64, shl64, shr64, Nat.reduceMod, Nat.reducePow]; omega
    have s3 : add64 (shl64 S 3) (shl64 (x % 4) 1) = 8 * (S % 2305843009213693952) + 2 * (x % 4) := by
      simp only [add64, shl64, Nat.reduceMod, Nat.reducePow]; omega
    rw [c0, s3]
    simp only [add64]
    obtain ⟨T, hT⟩ : ∃ T, T = 8 * (S % 2305843009213693952) + 2 * (x % 4) := ⟨_, rfl⟩
    rw [← hT]
    have hTb : T + ci < 2 * W := by omega
    have hd7 : S / 2305843009213693952 ≤ 7 := by omega
    have hdiv : (T + ci) / W ≤ 1 := by omega
    have hm : (S / 2305843009213693952 + 1) % W = S / 2305843009213693952 + 1 := Nat.mod_eq_of_lt (by omega)
    by_cases hw : (T + ci) % W < T
    · simp only [hw, if_true, hm]; omega
    · simp only [hw, if_false]; omega
  · have a1 : (x + x / 4) % W = x + x / 4 - W := by omega
    rw [a1, if_pos (by omega : x + x / 4 - W < x)]
    generalize hSd : x + x / 4 - W = S at *
    have c0 : add64 (shl64 1 3) (shr64 S 61) = 8 + S / 2305843009213693952 := by
      simp only [add64, shl64, shr64, Nat.reduceMod, Nat.reducePow]; omega
    have s3 : add64 (shl64 S 3) (shl64 (x % 4) 1) = 8 * (S % 2305843009213693952) + 2 * (x % 4) := by
      simp only [add64, shl64, Nat.reduceMod, Nat.reducePow]; omega
    rw [c0, s3]
    simp only [add64]
    obtain ⟨T, hT⟩ : ∃ T, T = 8 * (S % 2305843009213693952) + 2 * (x % 4) := ⟨_, rfl⟩
    rw [← hT]
    have hTb : T + ci < 2 * W := by omega
    have hd7 : S / 2305843009213693952 ≤ 7 := by omega
    have hdiv : (T + ci) / W ≤ 1 := by omega
    have hm : (8 + S / 2305843009213693952 + 1) % W = 8 + S / 2305843009213693952 + 1 := Nat.mod_eq_of_lt (by omega)
    by_cases hw : (T + ci) % W < T
    · simp only [hw, if_true, hm]; omega
    · simp only [hw, if_false]; omega

/-- `__mul_10x384_to_384` on a six-word number: ten times the number, modulo `2^384` -/
theorem mul10x384_spec {p : U512} (hp : p.wf) (h6 : p.w6 = 0) (h7 : p.w7 = 0) :
    (mul10x384 p).val = (10 * p.val) % (W * W * W * W * W * W) ∧ (mul10x384 p).wf ∧
      (mul10x384 p).w6 = 0 ∧ (mul10x384 p).w7 = 0 := by
  obtain ⟨b0, b1, b2, b3, b4, b5, -, -⟩ := hp
  obtain ⟨e0, s0, c0⟩ := mul10x64_spec (ci := 0) b0 (by omega)
  obtain ⟨e1, s1, c1⟩ := mul10x64_spec b1 c0
  obtain ⟨e2, s2, c2⟩ := mul10x64_spec b2 c1
  obtain ⟨e3, s3, c3⟩ := mul10x64_spec b3 c2
  obtain ⟨e4, s4, c4⟩ := mul10x64_spec b4 c3
  obtain ⟨e5, s5, c5⟩ := mul10x64_spec b5 c4
  rw [val512_384 h6 h7]
  simp only [mul10x384, U512.val, U512.wf, h6, h7, Nat.mul_zero, Nat.add_zero]
  generalize mul10x64 p.w0 0 = r0 at *
  generalize mul10x64 p.w1 r0.2 = r1 at *
  generalize mul10x64 p.w2 r1.2 = r2 at *
  generalize mul10x64 p.w3 r2.2 = r3 at *
  generalize mul10x64 p.w4 r3.2 = r4 at *
  generalize mul10x64 p.w5 r4.2 = r5 at *
  refine ⟨?_, ⟨s0, s1, s2, s3, s4, s5, by omega, by omega⟩, trivial, trivial⟩
  omega

/-- `srl128(hi, lo, c)` for `c < 128`: the 128-bit number shifted right by `c` -/
theorem srl128_spec {hi lo c : Nat} (hhi : hi < W) (hlo : lo < W) (hc : c < 128) :
    (srl128 hi lo c).2 + W * (srl128 hi lo c).1 = (lo + W * hi) / 2 ^ c ∧ (srl128 hi lo c).1 < W ∧ (srl128 hi lo c).2 < W := by
  unfold srl128
  by_cases h0 : c = 0
  · subst h0; simp only [beq_self_eq_true, if_true, Nat.pow_zero, Nat.div_one]; exact ⟨trivial, hhi, hlo⟩
  · have hb : (c == 0) = false := by simpa using h0
    rw [hb]
    simp only [Bool.false_eq_true, if_false]
    by_cases h64 : c ≥ 64
    · rw [if_pos h64]
      have e1 : sub64 c 64 = c - 64 := by unfold sub64; omega
      have e2 : (c - 64) % 64 = c - 64 := by omega
      simp only [e1, shr64, e2]
      have e3 : (lo + W * hi) / 2 ^ c = hi / 2 ^ (c - 64) := by
        have : 2 ^ c = W * 2 ^ (c - 64) := by
          have h2 : (2 : Nat) ^ (64 + (c - 64)) = 2 ^ 64 * 2 ^ (c - 64) := Nat.pow_add 2 64 (c - 64)
          have h3 : 64 + (c - 64) = c := by omega
          rw [h3] at h2
          exact h2
        have h4 := Nat.div_div_eq_div_mul (lo + W * hi) W (2 ^ (c - 64))
        have h5 : (lo + W * hi) / 2 ^ c = (lo + W * hi) / (W * 2 ^ (c - 64)) :=
          congrArg (fun d => (lo + W * hi) / d) this
        have h6 : (lo + W * hi) / W = hi := by omega
        exact h5.trans (h4.symm.trans (congrArg (fun d => d / 2 ^ (c - 64)) h6))
      rw [e3]
      have : hi / 2 ^ (c - 64) ≤ hi := Nat.div_le_self _ _
      refine ⟨by omega, by omega, by omega⟩
    · rw [if_neg h64]
      have hc1 : 1 ≤ c := by omega
      have hc2 : c ≤ 63 := by omega
      obtain ⟨p0, q0⟩ := shr_pair_add (a0 := lo) (a1 := hi) hlo hc1 hc2
      have e1 : sub64 64 c = 64 - c := by unfold sub64; omega
      have m1 : c % 64 = c := by omega
      have m2 : (64 - c) % 64 = 64 - c := by omega
      have hP : 0 < 2 ^ c := Nat.pow_pos (by decide)
      have d := div6 (2 ^ c) (2 ^ (64 - c)) lo hi 0 0 0 0 hP (two_pow_split (by omega))
      simp only [Nat.mul_zero, Nat.add_zero, Nat.zero_mod, Nat.zero_div] at d
      simp only [srl128Short, e1, shr64, shl64, add64, m1, m2]
      rw [p0, Nat.mod_eq_of_lt q0, d]
      have : hi / 2 ^ c ≤ hi := Nat.div_le_self _ _
      exact ⟨by omega, by omega, q0⟩

/-- `lt128` compares the two-word numbers -/
theorem lt128_iff {a b c d : Nat} (hb : b < W) (hd : d < W) :
    lt128 a b c d = decide (b + W * a < d + W * c) := by
  unfold lt128
  rw [Bool.eq_iff_iff]
  simp only [Bool.or_eq_true, Bool.and_eq_true, decide_eq_true_eq, beq_iff_eq]
  omega

/-- `le128` compares the two-word numbers -/
theorem le128_iff {a b c d : Nat} (hb : b < W) (hd : d < W) :
    le128 a b c d = decide (b + W * a ≤ d + W * c) := by
  unfold le128
  rw [Bool.eq_iff_iff]
  simp only [Bool.or_eq_true, Bool.and_eq_true, decide_eq_true_eq, beq_iff_eq]
  omega

/-- `return_bid128(s, e, c_hi, c_lo)` for a sign bit, a biased exponent below `2^14` and a coefficient below `2^113`
is the encoding of the finite datum -/
theorem returnBid128_fin (neg : Bool) (e : Int) (c : Nat) (he0 : 0 ≤ e) (he : e < 12288) (hc : c < 2 ^ 113) :
    bitsOf (returnBid128 (if neg then 1 else 0) e (c / W) (c % W)) = encode (.fin neg c (e - 6176)) := by
  obtain ⟨n, rfl⟩ : ∃ n : Nat, e = n := ⟨e.toNat, by omega⟩
  have hs : i32AsU64 (if neg then 1 else 0) = if neg then 1 else 0 := by cases neg <;> rfl
  have he' : i32AsU64 (n : Int) = n := by unfold i32AsU64; omega
  have e1 : ((n : Int) - 6176 + 6176).toNat = n := by omega
  simp only [returnBid128, bitsOf, encode, signBit, hs, he', e1, shl64, add64, Nat.reduceMod, Nat.reducePow]
  cases neg <;> simp only [if_true, if_false, Bool.false_eq_true] <;> omega

/-! ### 3. Counting leading and trailing zeros -/

theorem testBit_top {n i : Nat} (h1 : 2 ^ i ≤ n) (h2 : n < 2 ^ (i + 1)) : n.testBit i = true := by
  rw [Nat.testBit_eq_decide_div_mod_eq, decide_eq_true_eq]
  have : n / 2 ^ i = 1 := by
    apply Nat.div_eq_of_lt_le
    · simpa using h1
    · rw [Nat.pow_succ] at h2; omega
  rw [this]

/-- comparing the two parts of a number under complementary masks tells which mask holds its leading bit -/
theorem and_le_and_iff {n M M' i : Nat} (h1 : 2 ^ i ≤ n) (h2 : n < 2 ^ (i + 1)) (hc : M'.testBit i = !M.testBit i) :
    (n &&& M ≤ n &&& M') ↔ M.testBit i = false := by
  have hn := testBit_top h1 h2
  have hhi : ∀ j, j > i → n.testBit j = false := fun j hj =>
    Nat.testBit_lt_two_pow (Nat.lt_of_lt_of_le h2 (Nat.pow_le_pow_right (by decide) hj))
  have small : ∀ X : Nat, X.testBit i = false → n &&& X < 2 ^ i := by
    intro X hX
    apply Nat.lt_pow_two_of_testBit
    intro j hj
    rw [Nat.testBit_and]
    rcases Nat.eq_or_lt_of_le hj with rfl | hlt
    · rw [hX, Bool.and_false]
    · rw [hhi j hlt, Bool.false_and]
  have big : ∀ X : Nat, X.testBit i = true → 2 ^ i ≤ n &&& X := by
    intro X hX
    apply Nat.ge_two_pow_of_testBit
    rw [Nat.testBit_and, hn, hX]; rfl
  cases hM : M.testBit i
  · rw [hM] at hc
    have := small M hM
    have := big M' (by simpa using hc)
    constructor
    · intro _; rfl
    · intro _; omega
  · rw [hM] at hc
    have := big M hM
    have := small M' (by simpa using hc)
    constructor
    · intro h; omega
    · intro h; cases h

theorem not64_testBit {M i : Nat} (hM : M < 2 ^ 64) (hi : i < 64) : (not64 M).testBit i = !M.testBit i := by
  have e : not64 M = 2 ^ 64 - (M + 1) := by unfold not64; omega
  rw [e, Nat.testBit_two_pow_sub_succ hM, decide_eq_true hi, Bool.true_and]

theorem not32_testBit {M i : Nat} (hM : M < 2 ^ 32) (hi : i < 32) : (not32 M).testBit i = !M.testBit i := by
  have e : not32 M = 2 ^ 32 - (M + 1) := by unfold not32; omega
  rw [e, Nat.testBit_two_pow_sub_succ hM, decide_eq_true hi, Bool.true_and]

/-- `clz64_nz` on a non-zero word: 63 minus the position of its leading bit -/
theorem clz64Nz_eq {n i : Nat} (hi : i < 64) (h1 : 2 ^ i ≤ n) (h2 : n < 2 ^ (i + 1)) : clz64Nz n = 63 - i := by
  have key : ∀ i < 64,
      add64 (add64 (add64 (add64 (add64 (if CLZ64_MASK32.testBit i = false then 32 else 0)
        (if CLZ64_MASK16.testBit i = false then 16 else 0)) (if CLZ64_MASK8.testBit i = false then 8 else 0))
        (if CLZ64_MASK4.testBit i = false then 4 else 0)) (if CLZ64_MASK2.testBit i = false then 2 else 0))
        (if CLZ64_MASK1.testBit i = false then 1 else 0) = 63 - i := by decide
  unfold clz64Nz
  simp only [and_le_and_iff h1 h2 (not64_testBit (by decide : CLZ64_MASK32 < 2 ^ 64) hi),
    and_le_and_iff h1 h2 (not64_testBit (by decide : CLZ64_MASK16 < 2 ^ 64) hi),
    and_le_and_iff h1 h2 (not64_testBit (by decide : CLZ64_MASK8 < 2 ^ 64) hi),
    and_le_and_iff h1 h2 (not64_testBit (by decide : CLZ64_MASK4 < 2 ^ 64) hi),
    and_le_and_iff h1 h2 (not64_testBit (by decide : CLZ64_MASK2 < 2 ^ 64) hi),
    and_le_and_iff h1 h2 (not64_testBit (by decide : CLZ64_MASK1 < 2 ^ 64) hi)]
  exact key i hi

/-- `clz32_nz` on a non-zero word: 31 minus the position of its leading bit -/
theorem clz32Nz_eq {n i : Nat} (hi : i < 32) (h1 : 2 ^ i ≤ n) (h2 : n < 2 ^ (i + 1)) : clz32Nz n = 31 - i := by
  have key : ∀ i < 32,
      add32 (add32 (add32 (add32 (if CLZ32_MASK16.testBit i = false then 16 else 0)
        (if CLZ32_MASK8.testBit i = false then 8 else 0)) (if CLZ32_MASK4.testBit i = false then 4 else 0))
        (if CLZ32_MASK2.testBit i = false then 2 else 0)) (if CLZ32_MASK1.testBit i = false then 1 else 0)
        = 31 - i := by decide
  unfold clz32Nz
  simp only [and_le_and_iff h1 h2 (not32_testBit (by decide : CLZ32_MASK16 < 2 ^ 32) hi),
    and_le_and_iff h1 h2 (not32_testBit (by decide : CLZ32_MASK8 < 2 ^ 32) hi),
    and_le_and_iff h1 h2 (not32_testBit (by decide : CLZ32_MASK4 < 2 ^ 32) hi),
    and_le_and_iff h1 h2 (not32_testBit (by decide : CLZ32_MASK2 < 2 ^ 32) hi),
    and_le_and_iff h1 h2 (not32_testBit (by decide : CLZ32_MASK1 < 2 ^ 32) hi)]
  exact key i hi

theorem two_mul_and (a b : Nat) : (2 * a) &&& (2 * b) = 2 * (a &&& b) := by
  have h := @Nat.shiftLeft_and_distrib 1 a b
  simp only [Nat.shiftLeft_eq, Nat.pow_one] at h
  rw [Nat.mul_comm 2 a, Nat.mul_comm 2 b, Nat.mul_comm 2 _]
  exact h.symm

/-- `n & -n` in two's complement isolates the lowest set bit -/
theorem and_neg_pow (k : Nat) : ∀ n : Nat, 0 < n → n < 2 ^ k →
    ∃ t, t < k ∧ n &&& (2 ^ k - n) = 2 ^ t ∧ 2 ^ t ∣ n ∧ ¬ 2 ^ (t + 1) ∣ n := by
  induction k with
  | zero => intro n h0 h; simp at h; omega
  | succ k ih =>
    intro n h0 h
    rw [Nat.pow_succ] at h
    rcases Nat.mod_two_eq_zero_or_one n with hev | hodd
    · -- even
      obtain ⟨m, rfl⟩ : ∃ m, n = 2 * m := ⟨n / 2, by omega⟩
      obtain ⟨t, ht, hand, hd1, hd2⟩ := ih m (by omega) (by omega)
      refine ⟨t + 1, by omega, ?_, ?_, ?_⟩
      · have e : 2 ^ (k + 1) - 2 * m = 2 * (2 ^ k - m) := by rw [Nat.pow_succ]; omega
        rw [e, two_mul_and, hand, Nat.pow_succ, Nat.mul_comm]
      · rw [Nat.pow_succ, Nat.mul_comm]; exact Nat.mul_dvd_mul_left 2 hd1
      · intro hd
        apply hd2
        rw [Nat.pow_succ, Nat.mul_comm] at hd
        exact Nat.dvd_of_mul_dvd_mul_left (by decide) hd
    · -- odd
      obtain ⟨m, rfl⟩ : ∃ m, n = 2 * m + 1 := ⟨n / 2, by omega⟩
      refine ⟨0, by omega, ?_, by simp, by omega⟩
      have hm : m < 2 ^ k := by omega
      have e : 2 ^ (k + 1) - (2 * m + 1) = 2 * (2 ^ k - (m + 1)) + 1 := by rw [Nat.pow_succ]; omega
      rw [e]
      apply Nat.eq_of_testBit_eq
      intro i
      rw [Nat.testBit_and]
      cases i with
      | zero => simp [Nat.testBit_zero]
      | succ i =>
        rw [Nat.testBit_succ, Nat.testBit_succ]
        have d1 : (2 * m + 1) / 2 = m := by omega
        have d2 : (2 * (2 ^ k - (m + 1)) + 1) / 2 = 2 ^ k - (m + 1) := by omega
        rw [d1, d2, Nat.testBit_two_pow_sub_succ hm]
        have : (2 ^ 0).testBit (i + 1) = false := Nat.testBit_two_pow_of_ne (by omega)
        rw [this]
        cases m.testBit i <;> simp

theorem two_pow_and_mask (t M : Nat) : (2 ^ t &&& M != 0) = M.testBit t := by
  cases hM : M.testBit t
  · have : 2 ^ t &&& M = 0 := by
      apply Nat.eq_of_testBit_eq
      intro i
      rw [Nat.testBit_and, Nat.zero_testBit, Nat.testBit_two_pow]
      by_cases h : t = i
      · subst h; rw [hM, Bool.and_false]
      · rw [decide_eq_false h, Bool.false_and]
    rw [this]; rfl
  · have : (2 ^ t &&& M).testBit t = true := by
      rw [Nat.testBit_and, Nat.testBit_two_pow_self, hM]; rfl
    have hne : 2 ^ t &&& M ≠ 0 := by
      intro h0; rw [h0, Nat.zero_testBit] at this; cases this
    simpa using hne

/-- `ctz64_1bit` on a single bit -/
theorem ctz64OneBit_pow {t : Nat} (ht : t < 64) : ctz64OneBit (2 ^ t) = t := by
  have key : ∀ t < 64,
      add64 (add64 (add64 (add64 (add64 (if (not64 CLZ64_MASK32).testBit t = true then 0 else 32)
        (if (not64 CLZ64_MASK16).testBit t = true then 0 else 16)) (if (not64 CLZ64_MASK8).testBit t = true then 0 else 8))
        (if (not64 CLZ64_MASK4).testBit t = true then 0 else 4)) (if (not64 CLZ64_MASK2).testBit t = true then 0 else 2))
        (if (not64 CLZ64_MASK1).testBit t = true then 0 else 1) = t := by decide
  unfold ctz64OneBit
  simp only [two_pow_and_mask]
  exact key t ht

/-- `ctz32_1bit` on a single bit -/
theorem ctz32OneBit_pow {t : Nat} (ht : t < 32) : ctz32OneBit (2 ^ t) = t := by
  have key : ∀ t < 32,
      add32 (add32 (add32 (add32 (if (not32 CLZ32_MASK16).testBit t = true then 0 else 16)
        (if (not32 CLZ32_MASK8).testBit t = true then 0 else 8)) (if (not32 CLZ32_MASK4).testBit t = true then 0 else 4))
        (if (not32 CLZ32_MASK2).testBit t = true then 0 else 2)) (if (not32 CLZ32_MASK1).testBit t = true then 0 else 1)
        = t := by decide
  unfold ctz32OneBit
  simp only [two_pow_and_mask]
  exact key t ht

/-- `ctz64` on a non-zero word: the number of trailing zero bits -/
theorem ctz64_spec {n : Nat} (h0 : 0 < n) (h : n < 2 ^ 64) :
    ctz64 n < 64 ∧ 2 ^ ctz64 n ∣ n ∧ ¬ 2 ^ (ctz64 n + 1) ∣ n := by
  obtain ⟨t, ht, hand, hd1, hd2⟩ := and_neg_pow 64 n h0 h
  have e : neg64 n = 2 ^ 64 - n := by unfold neg64; omega
  have hb : (n == 0) = false := by simpa using (by omega : n ≠ 0)
  have : ctz64 n = t := by
    unfold ctz64
    rw [hb, e, hand]
    simp only [Bool.false_eq_true, if_false]
    exact ctz64OneBit_pow ht
  rw [this]
  exact ⟨ht, hd1, hd2⟩

/-- `ctz32` on a non-zero word -/
theorem ctz32_spec {n : Nat} (h0 : 0 < n) (h : n < 2 ^ 32) :
    ctz32 n < 32 ∧ 2 ^ ctz32 n ∣ n ∧ ¬ 2 ^ (ctz32 n + 1) ∣ n := by
  obtain ⟨t, ht, hand, hd1, hd2⟩ := and_neg_pow 32 n h0 h
  have e : neg32 n = 2 ^ 32 - n := by unfold neg32; omega
  have hb : (n == 0) = false := by simpa using (by omega : n ≠ 0)
  have : ctz32 n = t := by
    unfold ctz32
    rw [hb, e, hand]
    simp only [Bool.false_eq_true, if_false]
    exact ctz32OneBit_pow ht
  rw [this]
  exact ⟨ht, hd1, hd2⟩

example : ctz64 0x0010000000000000 = 52 ∧ ctz64 0x001fffffffffff00 = 8 ∧ ctz32 0x00800000 = 23 := by decide

example : clz64Nz 0x000fffffffffffff = 12 ∧ clz64Nz 1 = 63 ∧ clz32Nz 0x7fffff = 9 := by decide

/-! ### 4. Unpacking -/

theorem i32OfWord_small {w : Nat} (h : w < 2147483648) : i32OfWord w = (w : Int) := by
  unfold i32OfWord i32w; omega

theorem and_field (x a b : Nat) : x &&& ((2 ^ b - 1) * 2 ^ a) = (x / 2 ^ a % 2 ^ b) * 2 ^ a := by
  apply Nat.eq_of_testBit_eq
  intro i
  rw [Nat.testBit_and, Nat.testBit_mul_two_pow, Nat.testBit_mul_two_pow, Nat.testBit_two_pow_sub_one,
    Nat.testBit_mod_two_pow, Nat.testBit_div_two_pow]
  by_cases h : a ≤ i
  · rw [Nat.sub_add_cancel h]
    cases x.testBit i <;> simp [h]
  · simp [h]

/-- the three fields of a binary64 pattern as the code extracts them (lines 235–237) -/
theorem fields64 (bits : Nat) (h : bits < 2 ^ 64) :
    i32OfWord (shr64 bits 52 &&& sub64 (shl64 1 11) 1) = ((bits / 2 ^ 52 % 2 ^ 11 : Nat) : Int) ∧
    i32OfWord (shr64 bits 63) = ((bits / 2 ^ 63 : Nat) : Int) ∧
    bits &&& sub64 (shl64 1 52) 1 = bits % 2 ^ 52 := by
  have m1 : sub64 (shl64 1 11) 1 = 2 ^ 11 - 1 := by decide
  have m2 : sub64 (shl64 1 52) 1 = 2 ^ 52 - 1 := by decide
  rw [m1, m2, Nat.and_two_pow_sub_one_eq_mod, Nat.and_two_pow_sub_one_eq_mod]
  have e1 : shr64 bits 52 = bits / 2 ^ 52 := by simp [shr64]
  have e2 : shr64 bits 63 = bits / 2 ^ 63 := by simp [shr64]
  rw [e1, e2]
  refine ⟨i32OfWord_small ?_, i32OfWord_small ?_, rfl⟩ <;> omega

/-- a zero -/
theorem unpack64_zero (bits : Nat) (h : bits < 2 ^ 64) (hex : bits / 2 ^ 52 % 2 ^ 11 = 0) (hfr : bits % 2 ^ 52 = 0) :
    unpackBinary64 bits = .ret (returnBid128Zero ((bits / 2 ^ 63 : Nat) : Int)) 0 := by
  obtain ⟨f1, f2, f3⟩ := fields64 bits h
  unfold unpackBinary64
  simp only [f1, f2, f3, hex, hfr]
  rfl

theorem shamt_nat {l : Nat} (h : l < 64) : shamt (l : Int) = l := by unfold shamt; omega
theorem neg_e_i32 {l k : Nat} (h : l < 64) (hk : k < 2000) : i32w (-(i32w ((l : Int) + k))) = -((l : Int) + k) := by
  unfold i32w; omega

/-- normalising a non-zero `fr < 2^w` with `l = w − log2 fr` -/
theorem norm_shift (w fr : Nat) (hfr : fr ≠ 0) (hlt : fr < 2 ^ w) :
    ∃ l : Nat, 1 ≤ l ∧ l ≤ w ∧ fr.log2 = w - l ∧ 2 ^ w ≤ fr * 2 ^ l ∧ fr * 2 ^ l < 2 ^ (w + 1) := by
  have hlog : fr.log2 < w := (Nat.log2_lt hfr).2 hlt
  have hlo : 2 ^ fr.log2 ≤ fr := Nat.log2_self_le hfr
  have hhi : fr < 2 ^ (fr.log2 + 1) := Nat.lt_log2_self
  refine ⟨w - fr.log2, by omega, by omega, by omega, ?_, ?_⟩
  · have h1 := Nat.pow_add 2 fr.log2 (w - fr.log2)
    have e : fr.log2 + (w - fr.log2) = w := by omega
    rw [e] at h1
    rw [h1]; exact Nat.mul_le_mul_right _ hlo
  · have h1 := Nat.pow_add 2 (fr.log2 + 1) (w - fr.log2)
    have e : fr.log2 + 1 + (w - fr.log2) = w + 1 := by omega
    rw [e] at h1
    rw [h1]; exact Nat.mul_lt_mul_of_pos_right hhi (Nat.pow_pos (by decide))

/-- a subnormal number `fr·2^-1074` is normalised to `c·2^e` with `2^52 ≤ c < 2^53`; `t = 0`, and the denormal flag -/
theorem unpack64_sub (bits : Nat) (h : bits < 2 ^ 64) (hex : bits / 2 ^ 52 % 2 ^ 11 = 0) (hfr : bits % 2 ^ 52 ≠ 0) :
    ∃ l : Nat, 1 ≤ l ∧ l ≤ 52 ∧ 2 ^ 52 ≤ bits % 2 ^ 52 * 2 ^ l ∧ bits % 2 ^ 52 * 2 ^ l < 2 ^ 53 ∧
      unpackBinary64 bits = .go ((bits / 2 ^ 63 : Nat) : Int) (-((l : Int) + 1074)) (bits % 2 ^ 52 * 2 ^ l) 0 fDenormal := by
  obtain ⟨f1, f2, f3⟩ := fields64 bits h
  have hlt : bits % 2 ^ 52 < 2 ^ 52 := Nat.mod_lt _ (by decide)
  generalize bits % 2 ^ 52 = fr at *
  obtain ⟨l, hl1, hl2, hlog, hc1, hc2⟩ := norm_shift 52 fr hfr hlt
  have hlo : 2 ^ fr.log2 ≤ fr := Nat.log2_self_le hfr
  have hhi : fr < 2 ^ (fr.log2 + 1) := Nat.lt_log2_self
  have hclz : clz64 fr = 11 + l := by
    unfold clz64
    have : (fr == 0) = false := by simpa using hfr
    rw [this]; simp only [Bool.false_eq_true, if_false]
    rw [clz64Nz_eq (by omega) hlo hhi, hlog]; omega
  refine ⟨l, hl1, hl2, hc1, hc2, ?_⟩
  unfold unpackBinary64
  simp only [f1, f2, f3, hex]
  have hb : (fr == 0) = false := by simpa using hfr
  have hl : i32OfWord (sub64 (clz64 fr) (sub64 64 53)) = (l : Int) := by
    rw [hclz]
    have : sub64 (11 + l) (sub64 64 53) = l := by unfold sub64; omega
    rw [this]; exact i32OfWord_small (by omega)
  have hl64 : l < 64 := Nat.lt_of_le_of_lt hl2 (by decide)
  have hsh : shamt (l : Int) = l := shamt_nat hl64
  have hc : shl64 fr l = fr * 2 ^ l := by
    unfold shl64
    rw [Nat.mod_eq_of_lt hl64]
    exact Nat.mod_eq_of_lt (Nat.lt_trans hc2 (by decide))
  have he : i32w (-(i32w ((l : Int) + 1074))) = -((l : Int) + 1074) := neg_e_i32 (k := 1074) hl64 (by decide)
  rw [hl, hsh, hc, he]
  simp [hb]

/-- an infinity -/
theorem unpack64_inf (bits : Nat) (h : bits < 2 ^ 64) (hex : bits / 2 ^ 52 % 2 ^ 11 = 2047) (hfr : bits % 2 ^ 52 = 0) :
    unpackBinary64 bits = .ret (returnBid128Inf ((bits / 2 ^ 63 : Nat) : Int)) 0 := by
  obtain ⟨f1, f2, f3⟩ := fields64 bits h
  have h2047 : (i32AsU64 ((2047 : Nat) : Int) == sub64 (shl64 1 11) 1) = true := by decide
  have hne : (((2047 : Nat) : Int) == 0) = false := by decide
  unfold unpackBinary64
  simp only [f1, f2, f3, hex, hfr, h2047, hne, Bool.false_eq_true, if_false, if_true, beq_self_eq_true]

/-- a NaN: the fraction without its quiet bit, shifted to the top of a word, goes to `return_bid128_nan`; a clear quiet bit
raises invalid -/
theorem unpack64_nan (bits : Nat) (h : bits < 2 ^ 64) (hex : bits / 2 ^ 52 % 2 ^ 11 = 2047) (hfr : bits % 2 ^ 52 ≠ 0) :
    unpackBinary64 bits = .ret (returnBid128Nan ((bits / 2 ^ 63 : Nat) : Int) (bits % 2 ^ 51 * 2 ^ 13) 0)
      (if bits / 2 ^ 51 % 2 = 0 then fInvalid else 0) := by
  obtain ⟨f1, f2, f3⟩ := fields64 bits h
  have hlt : bits % 2 ^ 52 < 2 ^ 52 := Nat.mod_lt _ (by decide)
  have e51 : bits % 2 ^ 51 = bits % 2 ^ 52 % 2 ^ 51 := by omega
  have q51 : bits / 2 ^ 51 % 2 = bits % 2 ^ 52 / 2 ^ 51 := by omega
  rw [e51, q51]
  unfold unpackBinary64
  simp only [f1, f2, f3, hex]
  generalize bits % 2 ^ 52 = fr at *
  have hb : (fr == 0) = false := by simpa using hfr
  have hq : (fr &&& shl64 1 51 == 0) = decide (fr / 2 ^ 51 = 0) := by
    have m : shl64 1 51 = (2 ^ 1 - 1) * 2 ^ 51 := by decide
    rw [m, and_field, Bool.eq_iff_iff, beq_iff_eq, decide_eq_true_eq]
    omega
  have hs : shl64 fr 13 = fr % 2 ^ 51 * 2 ^ 13 := by
    simp only [shl64, Nat.reduceMod, Nat.reducePow]; omega
  have h2047 : (i32AsU64 ((2047 : Nat) : Int) == sub64 (shl64 1 11) 1) = true := by decide
  have hne : (((2047 : Nat) : Int) == 0) = false := by decide
  rw [hq, hs]
  simp only [hb, h2047, hne, Bool.false_eq_true, if_false, if_true]
  by_cases hz : fr / 2 ^ 51 = 0
  · simp only [hz, decide_true, if_true]
  · simp only [hz, decide_false, Bool.false_eq_true, if_false]

/-- a normal number: `c = 2^52 + fraction`, `e = exponent field − 1075`, `t` = the number of trailing zero bits of `c` -/
theorem unpack64_normal (bits : Nat) (h : bits < 2 ^ 64) (h1 : 0 < bits / 2 ^ 52 % 2 ^ 11) (h2 : bits / 2 ^ 52 % 2 ^ 11 < 2047) :
    unpackBinary64 bits = .go ((bits / 2 ^ 63 : Nat) : Int) (((bits / 2 ^ 52 % 2 ^ 11 : Nat) : Int) - 1075)
      (bits % 2 ^ 52 + 2 ^ 52) ((ctz64 (bits % 2 ^ 52 + 2 ^ 52) : Nat) : Int) 0 := by
  obtain ⟨f1, f2, f3⟩ := fields64 bits h
  have hlt : bits % 2 ^ 52 < 2 ^ 52 := Nat.mod_lt _ (by decide)
  unfold unpackBinary64
  simp only [f1, f2, f3]
  generalize bits % 2 ^ 52 = fr at *
  generalize bits / 2 ^ 52 % 2 ^ 11 = ex at *
  have hc : add64 fr (shl64 1 52) = fr + 2 ^ 52 := by
    have : shl64 1 52 = 2 ^ 52 := by decide
    rw [this]; unfold add64; omega
  obtain ⟨ht, -, -⟩ := ctz64_spec (n := fr + 2 ^ 52) (by omega) (by omega)
  have b1 : ((ex : Int) == 0) = false := by
    rw [Bool.eq_false_iff]; intro hh; rw [beq_iff_eq] at hh; omega
  have b2 : (i32AsU64 (ex : Int) == sub64 (shl64 1 11) 1) = false := by
    have : sub64 (shl64 1 11) 1 = 2047 := by decide
    rw [this, Bool.eq_false_iff]; intro hh; rw [beq_iff_eq] at hh; unfold i32AsU64 at hh; omega
  have he : i32w ((ex : Int) - 1075) = (ex : Int) - 1075 := by unfold i32w; omega
  rw [hc, i32OfWord_small (by omega : ctz64 (fr + 2 ^ 52) < 2147483648), he]
  simp only [b1, b2, Bool.false_eq_true, if_false]

/-! binary32 -/

/-- the three fields of a binary32 pattern as the code extracts them (lines 198–200) -/
theorem fields32 (bits : Nat) (h : bits < 2 ^ 32) :
    i32OfWord (shr64 bits 23 &&& sub64 (shl64 1 8) 1) = ((bits / 2 ^ 23 % 2 ^ 8 : Nat) : Int) ∧
    i32OfWord (shr64 bits 31) = ((bits / 2 ^ 31 : Nat) : Int) ∧
    bits &&& sub64 (shl64 1 23) 1 = bits % 2 ^ 23 := by
  have m1 : sub64 (shl64 1 8) 1 = 2 ^ 8 - 1 := by decide
  have m2 : sub64 (shl64 1 23) 1 = 2 ^ 23 - 1 := by decide
  rw [m1, m2, Nat.and_two_pow_sub_one_eq_mod, Nat.and_two_pow_sub_one_eq_mod]
  have e1 : shr64 bits 23 = bits / 2 ^ 23 := by simp [shr64]
  have e2 : shr64 bits 31 = bits / 2 ^ 31 := by simp [shr64]
  rw [e1, e2]
  refine ⟨i32OfWord_small ?_, i32OfWord_small ?_, rfl⟩ <;> omega

theorem unpack32_zero (bits : Nat) (h : bits < 2 ^ 32) (hex : bits / 2 ^ 23 % 2 ^ 8 = 0) (hfr : bits % 2 ^ 23 = 0) :
    unpackBinary32 bits = .ret (returnBid128Zero ((bits / 2 ^ 31 : Nat) : Int)) 0 := by
  obtain ⟨f1, f2, f3⟩ := fields32 bits h
  unfold unpackBinary32
  simp only [f1, f2, f3, hex, hfr]
  rfl

theorem unpack32_sub (bits : Nat) (h : bits < 2 ^ 32) (hex : bits / 2 ^ 23 % 2 ^ 8 = 0) (hfr : bits % 2 ^ 23 ≠ 0) :
    ∃ l : Nat, 1 ≤ l ∧ l ≤ 23 ∧ 2 ^ 23 ≤ bits % 2 ^ 23 * 2 ^ l ∧ bits % 2 ^ 23 * 2 ^ l < 2 ^ 24 ∧
      unpackBinary32 bits = .go ((bits / 2 ^ 31 : Nat) : Int) (-((l : Int) + 149)) (bits % 2 ^ 23 * 2 ^ l) 0 fDenormal := by
  obtain ⟨f1, f2, f3⟩ := fields32 bits h
  have hlt : bits % 2 ^ 23 < 2 ^ 23 := Nat.mod_lt _ (by decide)
  generalize bits % 2 ^ 23 = fr at *
  obtain ⟨l, hl1, hl2, hlog, hc1, hc2⟩ := norm_shift 23 fr hfr hlt
  have hlo : 2 ^ fr.log2 ≤ fr := Nat.log2_self_le hfr
  have hhi : fr < 2 ^ (fr.log2 + 1) := Nat.lt_log2_self
  have hl64 : l < 64 := Nat.lt_of_le_of_lt hl2 (by decide)
  have hlo32 : lo32 fr = fr := by unfold lo32; omega
  have hclz : clz32 (lo32 fr) = 8 + l := by
    rw [hlo32]
    unfold clz32
    have : (fr == 0) = false := by simpa using hfr
    rw [this]; simp only [Bool.false_eq_true, if_false]
    rw [clz32Nz_eq (by omega) hlo hhi, hlog]; omega
  refine ⟨l, hl1, hl2, hc1, hc2, ?_⟩
  unfold unpackBinary32
  simp only [f1, f2, f3, hex]
  have hb : (fr == 0) = false := by simpa using hfr
  have hl : i32OfWord (sub32 (clz32 (lo32 fr)) (sub32 32 24)) = (l : Int) := by
    rw [hclz]
    have : sub32 (8 + l) (sub32 32 24) = l := by unfold sub32; omega
    rw [this]; exact i32OfWord_small (by omega)
  have hsh : shamt (l : Int) = l := shamt_nat hl64
  have hc : shl64 fr l = fr * 2 ^ l := by
    unfold shl64
    rw [Nat.mod_eq_of_lt hl64]
    exact Nat.mod_eq_of_lt (Nat.lt_trans hc2 (by decide))
  have he : i32w (-(i32w ((l : Int) + 149))) = -((l : Int) + 149) := neg_e_i32 (k := 149) hl64 (by decide)
  rw [hl, hsh, hc, he]
  simp [hb]

theorem unpack32_inf (bits : Nat) (h : bits < 2 ^ 32) (hex : bits / 2 ^ 23 % 2 ^ 8 = 255) (hfr : bits % 2 ^ 23 = 0) :
    unpackBinary32 bits = .ret (returnBid128Inf ((bits / 2 ^ 31 : Nat) : Int)) 0 := by
  obtain ⟨f1, f2, f3⟩ := fields32 bits h
  have h255 : (i32AsU64 ((255 : Nat) : Int) == sub64 (shl64 1 8) 1) = true := by decide
  have hne : (((255 : Nat) : Int) == 0) = false := by decide
  unfold unpackBinary32
  simp only [f1, f2, f3, hex, hfr, h255, hne, Bool.false_eq_true, if_false, if_true, beq_self_eq_true]

theorem unpack32_nan (bits : Nat) (h : bits < 2 ^ 32) (hex : bits / 2 ^ 23 % 2 ^ 8 = 255) (hfr : bits % 2 ^ 23 ≠ 0) :
    unpackBinary32 bits = .ret (returnBid128Nan ((bits / 2 ^ 31 : Nat) : Int) (bits % 2 ^ 22 * 2 ^ 42) 0)
      (if bits / 2 ^ 22 % 2 = 0 then fInvalid else 0) := by
  obtain ⟨f1, f2, f3⟩ := fields32 bits h
  have hlt : bits % 2 ^ 23 < 2 ^ 23 := Nat.mod_lt _ (by decide)
  have e22 : bits % 2 ^ 22 = bits % 2 ^ 23 % 2 ^ 22 := by omega
  have q22 : bits / 2 ^ 22 % 2 = bits % 2 ^ 23 / 2 ^ 22 := by omega
  rw [e22, q22]
  unfold unpackBinary32
  simp only [f1, f2, f3, hex]
  generalize bits % 2 ^ 23 = fr at *
  have hb : (fr == 0) = false := by simpa using hfr
  have hq : (fr &&& shl64 1 22 == 0) = decide (fr / 2 ^ 22 = 0) := by
    have m : shl64 1 22 = (2 ^ 1 - 1) * 2 ^ 22 := by decide
    rw [m, and_field, Bool.eq_iff_iff, beq_iff_eq, decide_eq_true_eq]
    omega
  have hs : shl64 fr 42 = fr % 2 ^ 22 * 2 ^ 42 := by
    simp only [shl64, Nat.reduceMod, Nat.reducePow]; omega
  have h255 : (i32AsU64 ((255 : Nat) : Int) == sub64 (shl64 1 8) 1) = true := by decide
  have hne : (((255 : Nat) : Int) == 0) = false := by decide
  rw [hq, hs]
  simp only [hb, h255, hne, Bool.false_eq_true, if_false, if_true]
  by_cases hz : fr / 2 ^ 22 = 0
  · simp only [hz, decide_true, if_true]
  · simp only [hz, decide_false, Bool.false_eq_true, if_false]

theorem unpack32_normal (bits : Nat) (h : bits < 2 ^ 32) (h1 : 0 < bits / 2 ^ 23 % 2 ^ 8) (h2 : bits / 2 ^ 23 % 2 ^ 8 < 255) :
    unpackBinary32 bits = .go ((bits / 2 ^ 31 : Nat) : Int) (((bits / 2 ^ 23 % 2 ^ 8 : Nat) : Int) - 150)
      (bits % 2 ^ 23 + 2 ^ 23) ((ctz32 (bits % 2 ^ 23 + 2 ^ 23) : Nat) : Int) 0 := by
  obtain ⟨f1, f2, f3⟩ := fields32 bits h
  have hlt : bits % 2 ^ 23 < 2 ^ 23 := Nat.mod_lt _ (by decide)
  unfold unpackBinary32
  simp only [f1, f2, f3]
  generalize bits % 2 ^ 23 = fr at *
  generalize bits / 2 ^ 23 % 2 ^ 8 = ex at *
  have hc : add64 fr (shl64 1 23) = fr + 2 ^ 23 := by
    have : shl64 1 23 = 2 ^ 23 := by decide
    rw [this]; unfold add64; omega
  have hlo32 : lo32 (fr + 2 ^ 23) = fr + 2 ^ 23 := by unfold lo32; omega
  obtain ⟨ht, -, -⟩ := ctz32_spec (n := fr + 2 ^ 23) (by omega) (by omega)
  have b1 : ((ex : Int) == 0) = false := by
    rw [Bool.eq_false_iff]; intro hh; rw [beq_iff_eq] at hh; omega
  have b2 : (i32AsU64 (ex : Int) == sub64 (shl64 1 8) 1) = false := by
    have : sub64 (shl64 1 8) 1 = 255 := by decide
    rw [this, Bool.eq_false_iff]; intro hh; rw [beq_iff_eq] at hh; unfold i32AsU64 at hh; omega
  have he : i32w ((ex : Int) - 150) = (ex : Int) - 150 := by unfold i32w; omega
  rw [hc, hlo32, i32OfWord_small (by omega : ctz32 (fr + 2 ^ 23) < 2147483648), he]
  simp only [b1, b2, Bool.false_eq_true, if_false]

/-! ### 5. The hard-case bound -/

theorem pw_pos (b : Nat) (hb : 0 < b) (X : Int) : 0 < pw b X := by
  unfold pw; split
  · exact Nat.pow_pos hb
  · exact Nat.one_pos

theorem pwn_pos (b : Nat) (hb : 0 < b) (X : Int) : 0 < pwn b X := by
  unfold pwn; split
  · exact Nat.pow_pos hb
  · exact Nat.one_pos

/-- `pw b X / pwn b X = b^X` -/
theorem pw_div (b : Nat) (hb : 0 < b) (X : Int) : ((pw b X : Nat) : ℚ) / (pwn b X : Nat) = (b : ℚ) ^ X := by
  have hbq : (b : ℚ) ≠ 0 := by exact_mod_cast (by omega : b ≠ 0)
  unfold pw pwn
  by_cases h : X ≥ 0
  · rw [if_pos h, if_neg (by omega)]
    obtain ⟨n, rfl⟩ : ∃ n : Nat, X = n := ⟨X.toNat, by omega⟩
    simp
  · rw [if_neg h, if_pos (by omega)]
    obtain ⟨n, rfl⟩ : ∃ n : Nat, X = -(n : Int) := ⟨(-X).toNat, by omega⟩
    simp

/-- the lattice argument: two fractions `p/a`, `r/b` with `p·b − r·a = ±1` on opposite sides of `P/Q` bound from below
`|c·P − m·Q|` for every `0 < c < b` by `|a·P − p·Q|` -/
theorem cert_bound (P Q a p b r c : ℕ) (m : ℤ) (hok : certOk P Q a p b r = true) (hc0 : 0 < c) (hc : c < 2 ^ 53) :
    (Q : ℤ) ≤ 2 ^ 126 * |(c : ℤ) * P - m * Q| := by
  unfold certOk at hok
  simp only [Bool.and_eq_true, Bool.or_eq_true, decide_eq_true_eq] at hok
  obtain ⟨⟨⟨hb, hdet⟩, hsign⟩, hbound⟩ := hok
  have hcb : (c : ℤ) < b := by exact_mod_cast (Nat.lt_of_lt_of_le hc hb)
  have hc0' : (0 : ℤ) < c := by exact_mod_cast hc0
  have ha0 : (0 : ℤ) ≤ a := by exact_mod_cast Nat.zero_le a
  obtain ⟨Ea, hEa⟩ : ∃ Ea : ℤ, Ea = (a : ℤ) * P - p * Q := ⟨_, rfl⟩
  obtain ⟨Eb, hEb⟩ : ∃ Eb : ℤ, Eb = (b : ℤ) * P - r * Q := ⟨_, rfl⟩
  -- the bound on `Ea`
  have hEabound : (Q : ℤ) ≤ 2 ^ 126 * |Ea| := by
    rcases hbound with h | h
    · have h' : (Q : ℤ) ≤ 2 ^ 126 * ((a * P - p * Q : ℕ) : ℤ) := by exact_mod_cast h
      have : ((a * P - p * Q : ℕ) : ℤ) ≤ |Ea| := by
        rw [hEa]
        by_cases hle : p * Q ≤ a * P
        · rw [Nat.cast_sub hle]; push_cast; exact le_abs_self _
        · have : a * P - p * Q = 0 := by omega
          rw [this]; simp
      nlinarith
    · have h' : (Q : ℤ) ≤ 2 ^ 126 * ((p * Q - a * P : ℕ) : ℤ) := by exact_mod_cast h
      have : ((p * Q - a * P : ℕ) : ℤ) ≤ |Ea| := by
        rw [hEa]
        by_cases hle : a * P ≤ p * Q
        · rw [Nat.cast_sub hle]; push_cast
          have := neg_le_abs ((a : ℤ) * P - p * Q); linarith
        · have : p * Q - a * P = 0 := by omega
          rw [this]; simp
      nlinarith
  -- the signs
  have hs : (0 ≤ Ea ∧ Eb ≤ 0) ∨ (Ea ≤ 0 ∧ 0 ≤ Eb) := by
    rcases hsign with ⟨h1, h2⟩ | ⟨h1, h2⟩
    · left; rw [hEa, hEb]
      have h1' : ((p * Q : ℕ) : ℤ) ≤ ((a * P : ℕ) : ℤ) := by exact_mod_cast h1
      have h2' : ((b * P : ℕ) : ℤ) ≤ ((r * Q : ℕ) : ℤ) := by exact_mod_cast h2
      push_cast at h1' h2'
      constructor <;> linarith
    · right; rw [hEa, hEb]
      have h1' : ((a * P : ℕ) : ℤ) ≤ ((p * Q : ℕ) : ℤ) := by exact_mod_cast h1
      have h2' : ((r * Q : ℕ) : ℤ) ≤ ((b * P : ℕ) : ℤ) := by exact_mod_cast h2
      push_cast at h1' h2'
      constructor <;> linarith
  -- the coordinates of `(c, m)` in the basis `(a, p)`, `(b, r)`
  obtain ⟨u, v, hcu, hmu⟩ : ∃ u v : ℤ, (c : ℤ) = u * a + v * b ∧ m = u * p + v * r := by
    rcases hdet with h | h
    · have h' : (p : ℤ) * b = r * a + 1 := by exact_mod_cast h
      refine ⟨m * b - c * r, p * c - a * m, ?_, ?_⟩
      · have : (m * b - c * r) * a + (p * c - a * m) * b = c * ((p : ℤ) * b - r * a) := by ring
        rw [this, h']; ring
      · have : (m * b - c * r) * p + (p * c - a * m) * r = m * ((p : ℤ) * b - r * a) := by ring
        rw [this, h']; ring
    · have h' : (r : ℤ) * a = p * b + 1 := by exact_mod_cast h
      refine ⟨c * r - m * b, a * m - p * c, ?_, ?_⟩
      · have : (c * r - m * b) * a + (a * m - p * c) * b = c * ((r : ℤ) * a - p * b) := by ring
        rw [this, h']; ring
      · have : (c * r - m * b) * p + (a * m - p * c) * r = m * ((r : ℤ) * a - p * b) := by ring
        rw [this, h']; ring
  have key : (c : ℤ) * P - m * Q = u * Ea + v * Eb := by rw [hEa, hEb, hcu, hmu]; ring
  have hmain : |Ea| ≤ |u * Ea + v * Eb| := by
    rcases lt_trichotomy v 0 with hv | hv | hv
    · -- v ≤ -1, so u ≥ 1
      have hu : 1 ≤ u := by
        by_contra hu
        have hu' : u ≤ 0 := by omega
        have : u * a ≤ 0 := mul_nonpos_of_nonpos_of_nonneg hu' ha0
        have : v * b ≤ -b := by nlinarith
        omega
      rcases hs with ⟨s1, s2⟩ | ⟨s1, s2⟩
      · have t1 : Ea ≤ u * Ea := by nlinarith
        have t2 : 0 ≤ v * Eb := mul_nonneg_of_nonpos_of_nonpos hv.le s2
        rw [abs_of_nonneg s1, abs_of_nonneg (by linarith)]; linarith
      · have t1 : u * Ea ≤ Ea := by nlinarith
        have t2 : v * Eb ≤ 0 := mul_nonpos_of_nonpos_of_nonneg hv.le s2
        rw [abs_of_nonpos s1, abs_of_nonpos (by linarith)]; linarith
    · subst hv
      have hu : 1 ≤ u := by
        by_contra hu
        have hu' : u ≤ 0 := by omega
        have : u * a ≤ 0 := mul_nonpos_of_nonpos_of_nonneg hu' ha0
        omega
      rw [zero_mul, add_zero, abs_mul]
      have : 1 ≤ |u| := by rw [abs_of_nonneg (by omega)]; exact hu
      nlinarith [abs_nonneg Ea]
    · -- v ≥ 1, so u ≤ -1
      have hu : u ≤ -1 := by
        by_contra hu
        have hu' : 0 ≤ u := by omega
        have : 0 ≤ u * a := mul_nonneg hu' ha0
        have : (b : ℤ) ≤ v * b := by nlinarith
        omega
      rcases hs with ⟨s1, s2⟩ | ⟨s1, s2⟩
      · have t1 : u * Ea ≤ -Ea := by nlinarith
        have t2 : v * Eb ≤ 0 := mul_nonpos_of_nonneg_of_nonpos hv.le s2
        rw [abs_of_nonneg s1, abs_of_nonpos (by linarith)]; linarith
      · have t1 : -Ea ≤ u * Ea := by nlinarith
        have t2 : 0 ≤ v * Eb := mul_nonneg hv.le s2
        rw [abs_of_nonpos s1, abs_of_nonneg (by linarith)]; linarith
  rw [key]
  nlinarith

theorem hardPQ_val (e q : Int) :
    ((hardP e q : Nat) : ℚ) / (hardQ e q : Nat) = (2 : ℚ) ^ (e + 61) / (10 : ℚ) ^ q := by
  have h2 := pw_div 2 (by decide) (e + 61 - q)
  have h5 := pw_div 5 (by decide) (-q)
  have q2 : ((pwn 2 (e + 61 - q) : Nat) : ℚ) ≠ 0 := by exact_mod_cast (pwn_pos 2 (by decide) _).ne'
  have q5 : ((pwn 5 (-q) : Nat) : ℚ) ≠ 0 := by exact_mod_cast (pwn_pos 5 (by decide) _).ne'
  unfold hardP hardQ
  push_cast at h2 h5 ⊢
  have e1 : (2 : ℚ) ^ (e + 61) / (10 : ℚ) ^ q = (2 : ℚ) ^ (e + 61 - q) * (5 : ℚ) ^ (-q) := by
    have : (10 : ℚ) = 2 * 5 := by norm_num
    rw [this, mul_zpow, zpow_sub₀ (by norm_num : (2 : ℚ) ≠ 0), zpow_neg]
    field_simp
  rw [e1, ← h2, ← h5]
  field_simp

/-- **The hard-case bound.**  For an exponent pair that passed the kernel's check: for every `0 < c < 2^53`, twice the
scaled value `c·2^(e+61)/10^q` is an integer or at least `2^-126` away from every integer. -/
theorem hard_of_ok (e q : Int) (h : hardOk e q = true) (c : ℕ) (hc0 : 0 < c) (hc : c < 2 ^ 53) (m : ℤ) :
    (c : ℚ) * (2 : ℚ) ^ (e + 61) / (10 : ℚ) ^ q = m ∨
      (2 : ℚ) ^ (-126 : ℤ) ≤ |(c : ℚ) * (2 : ℚ) ^ (e + 61) / (10 : ℚ) ^ q - m| := by
  have hQ0 : 0 < hardQ e q := Nat.mul_pos (pwn_pos 2 (by decide) _) (pwn_pos 5 (by decide) _)
  have hQq : (0 : ℚ) < (hardQ e q : Nat) := by exact_mod_cast hQ0
  have hval : (c : ℚ) * (2 : ℚ) ^ (e + 61) / (10 : ℚ) ^ q = ((c : ℚ) * (hardP e q : Nat)) / (hardQ e q : Nat) := by
    rw [mul_div_assoc, ← hardPQ_val, mul_div_assoc]
  rw [hval]
  unfold hardOk at h
  generalize hardP e q = P at *
  generalize hQdef : hardQ e q = Q at *
  have hdiff : ((c : ℚ) * (P : ℚ)) / Q - m = ((((c : ℤ) * P - m * Q : ℤ)) : ℚ) / Q := by
    push_cast; field_simp
  have h126 : (2 : ℚ) ^ (-126 : ℤ) = 1 / (2 : ℚ) ^ (126 : ℕ) := by
    rw [zpow_neg, one_div]; norm_cast
  -- the integer bound `Q ≤ 2^126 · |c·P − m·Q|`, unless `c·P = m·Q`
  have hint : (c : ℤ) * P - m * Q = 0 ∨ (Q : ℤ) ≤ 2 ^ 126 * |(c : ℤ) * P - m * Q| := by
    by_cases hsmall : Q ≤ 2 ^ 126
    · by_cases hz : (c : ℤ) * P - m * Q = 0
      · exact Or.inl hz
      · right
        have h1 : 1 ≤ |(c : ℤ) * P - m * Q| := Int.one_le_abs hz
        have h2 : (Q : ℤ) ≤ 2 ^ 126 := by exact_mod_cast hsmall
        nlinarith
    · right
      rw [if_neg hsmall] at h
      exact cert_bound _ _ _ _ _ _ c m h hc0 hc
  rcases hint with hz | hb
  · left
    have : ((c : ℚ) * (P : ℚ)) / Q - m = 0 := by rw [hdiff, hz]; simp
    linarith
  · right
    rw [hdiff, abs_div, abs_of_pos hQq, h126, div_le_div_iff₀ (by positivity) hQq]
    have hb' : ((Q : ℤ) : ℚ) ≤ ((2 ^ 126 * |(c : ℤ) * P - m * Q| : ℤ) : ℚ) := by exact_mod_cast hb
    push_cast at hb' ⊢
    linarith

/-! ### 6. From the fixed-point product to the correctly rounded integer -/

/-- **The rounding argument.**  `Z` is `Y·2^256` rounded up with an absolute error of at most `2^120` (what the table
product delivers), and `2·Y` is an integer or at least `2^-126` away from every integer (the hard-case bound).  Then the
integer part `K` of `Z / 2^256` is `⌊Y⌋`, and the top 128 bits `F` of the fraction decide exactly: `F = 0` iff `Y` is an
integer, `F > 2^127` iff the fraction of `Y` is above one half, `F ≥ 2^127` iff it is at least one half. -/
theorem round_core (Y : ℚ) (Z : ℕ) (hlow : Y * 2 ^ 256 ≤ Z) (hup : (Z : ℚ) ≤ Y * 2 ^ 256 + 2 ^ 120)
    (hard : ∀ m : ℤ, 2 * Y = m ∨ (2 : ℚ) ^ (-126 : ℤ) ≤ |2 * Y - m|) :
    ((Z / 2 ^ 256 : ℕ) : ℚ) ≤ Y ∧ Y < (Z / 2 ^ 256 : ℕ) + 1 ∧
    (Z % 2 ^ 256 / 2 ^ 128 = 0 ↔ Y = (Z / 2 ^ 256 : ℕ)) ∧
    (2 ^ 127 < Z % 2 ^ 256 / 2 ^ 128 ↔ (1 : ℚ) / 2 < Y - (Z / 2 ^ 256 : ℕ)) ∧
    (2 ^ 127 ≤ Z % 2 ^ 256 / 2 ^ 128 ↔ (1 : ℚ) / 2 ≤ Y - (Z / 2 ^ 256 : ℕ)) := by
  have hZ := Nat.div_add_mod Z (2 ^ 256)
  have hFr := Nat.div_add_mod (Z % 2 ^ 256) (2 ^ 128)
  have hFrlt : Z % 2 ^ 256 < 2 ^ 256 := Nat.mod_lt _ (by decide)
  have hGlt : Z % 2 ^ 256 % 2 ^ 128 < 2 ^ 128 := Nat.mod_lt _ (by decide)
  generalize Z / 2 ^ 256 = K at *
  generalize Z % 2 ^ 256 % 2 ^ 128 = G at *
  generalize hFdef : Z % 2 ^ 256 / 2 ^ 128 = F at *
  generalize Z % 2 ^ 256 = Fr at *
  have eZ : (Z : ℚ) = 2 ^ 256 * K + 2 ^ 128 * F + G := by
    have : Z = 2 ^ 256 * K + (2 ^ 128 * F + G) := by omega
    rw [this]; push_cast; ring
  have hG0 : (0 : ℚ) ≤ G := Nat.cast_nonneg G
  have hG1 : (G : ℚ) < 2 ^ 128 := by exact_mod_cast hGlt
  have hF0 : (0 : ℚ) ≤ F := Nat.cast_nonneg F
  have hFG : (2 : ℚ) ^ 128 * F + G < 2 ^ 256 := by
    have : 2 ^ 128 * F + G < 2 ^ 256 := by omega
    exact_mod_cast this
  have hδ : (2 : ℚ) ^ (-126 : ℤ) = 1 / 2 ^ 126 := by rw [zpow_neg, one_div]; norm_cast
  rw [hδ] at hard
  have hard0 := hard (2 * (K : ℤ))
  have hard1 := hard (2 * (K : ℤ) + 1)
  push_cast at hard0 hard1
  rw [eZ] at hlow hup
  -- `K ≤ Y`
  have hKY : (K : ℚ) ≤ Y := by
    by_contra hlt
    rw [not_le] at hlt
    rcases hard0 with h | h
    · linarith
    · rw [abs_of_neg (by linarith)] at h
      linarith
  have hYK : Y < (K : ℚ) + 1 := by
    linarith
  refine ⟨hKY, hYK, ?_, ?_, ?_⟩
  · constructor
    · intro hF
      rw [hF, Nat.cast_zero, mul_zero, add_zero] at hlow
      rcases hard0 with h | h
      · linarith
      · rw [abs_of_nonneg (by linarith)] at h
        linarith
    · intro hY
      have : (F : ℚ) < 1 := by
        rw [hY] at hup
        linarith
      have : F < 1 := by exact_mod_cast this
      omega
  · constructor
    · intro hF
      have hF' : (2 : ℚ) ^ 127 + 1 ≤ F := by
        have : 2 ^ 127 + 1 ≤ F := hF
        exact_mod_cast this
      linarith
    · intro hY
      rcases hard1 with h | h
      · linarith
      · rw [abs_of_nonneg (by linarith)] at h
        have : (2 : ℚ) ^ 127 < F := by
          linarith
        exact_mod_cast this
  · constructor
    · intro hF
      have hF' : (2 : ℚ) ^ 127 ≤ F := by exact_mod_cast hF
      rcases hard1 with h | h
      · linarith
      · by_cases hs : 0 ≤ 2 * Y - (2 * (K : ℚ) + 1)
        · linarith
        · rw [abs_of_neg (by linarith)] at h
          linarith
    · intro hY
      have : (2 : ℚ) ^ 127 - 1 < F := by
        linarith
      have h2 : ((2 ^ 127 - 1 : ℕ) : ℚ) < F := by
        have : ((2 ^ 127 - 1 : ℕ) : ℚ) = (2 : ℚ) ^ 127 - 1 := by norm_num
        rw [this]; assumption
      have : 2 ^ 127 - 1 < F := by exact_mod_cast h2
      omega

/-- the round bound by mode, sign and parity of the truncated result: the 128-bit fraction must be strictly above it for
the result to be incremented -/
def rbVal (mode : Mode) (neg odd : Bool) : Nat :=
  match mode with
  | .rne => if odd then 2 ^ 127 - 1 else 2 ^ 127
  | .rdn => if neg then 0 else 2 ^ 128 - 1
  | .rup => if neg then 2 ^ 128 - 1 else 0
  | .rtz => 2 ^ 128 - 1
  | .rna => 2 ^ 127 - 1

/-- line 1148: `BID_ROUNDBOUND_128[(rnd_mode << 2) + ((s & 1) << 1) + (c_prov_lo & 1)]` is that bound -/
theorem roundbound_lookup (mode : Mode) (neg odd : Bool) :
    tbl2 Dec.Gen.BID_ROUNDBOUND_128
      (add64 (add64 (shl64 mode.toNat 2) (shl64 (if neg then 1 else 0) 1)) (if odd then 1 else 0)) =
      some ⟨rbVal mode neg odd % 18446744073709551616, rbVal mode neg odd / 18446744073709551616⟩ := by
  cases mode <;> cases neg <;> cases odd <;> decide

/-- incrementing exactly when the fraction is above the round bound is rounding in `mode` -/
theorem rounded_of_core (mode : Mode) (neg : Bool) (Y : ℚ) (K F : ℕ) (hF : F < 2 ^ 128)
    (h1 : (K : ℚ) ≤ Y) (h2 : Y < K + 1) (h3 : F = 0 ↔ Y = K) (h4 : 2 ^ 127 < F ↔ (1 : ℚ) / 2 < Y - K)
    (h5 : 2 ^ 127 ≤ F ↔ (1 : ℚ) / 2 ≤ Y - K) :
    RoundedTo mode neg Y (if rbVal mode neg (K % 2 == 1) < F then K + 1 else K) := by
  have hF0 : 0 < F ↔ Y ≠ K := by
    rw [Ne, ← h3]; omega
  cases mode
  · -- rne
    simp only [RoundedTo]
    rcases Nat.mod_two_eq_zero_or_one K with hev | hodd
    · have e : rbVal Mode.rne neg (K % 2 == 1) = 2 ^ 127 := by rw [hev]; rfl
      rw [e]
      by_cases hup : 2 ^ 127 < F
      · rw [if_pos hup]
        have := h4.1 hup
        push_cast
        refine ⟨abs_le.mpr ⟨by linarith, by linarith⟩, fun ht => ?_⟩
        rw [abs_of_nonpos (by linarith)] at ht
        linarith
      · rw [if_neg hup]
        have : ¬ (1 : ℚ) / 2 < Y - K := fun h => hup (h4.2 h)
        rw [not_lt] at this
        exact ⟨abs_le.mpr ⟨by linarith, by linarith⟩, fun _ => hev⟩
    · have e : rbVal Mode.rne neg (K % 2 == 1) = 2 ^ 127 - 1 := by rw [hodd]; rfl
      rw [e]
      by_cases hup : 2 ^ 127 - 1 < F
      · rw [if_pos hup]
        have := h5.1 (by omega)
        push_cast
        refine ⟨abs_le.mpr ⟨by linarith, by linarith⟩, fun _ => by omega⟩
      · rw [if_neg hup]
        have : ¬ (1 : ℚ) / 2 ≤ Y - K := fun h => hup (by have := h5.2 h; omega)
        rw [not_le] at this
        refine ⟨abs_le.mpr ⟨by linarith, by linarith⟩, fun ht => ?_⟩
        rw [abs_of_nonneg (by linarith)] at ht
        linarith
  · -- rdn
    simp only [RoundedTo]
    cases neg
    · have e : rbVal Mode.rdn false (K % 2 == 1) = 2 ^ 128 - 1 := rfl
      rw [e]
      simp only [Bool.false_eq_true, if_false]
      rw [if_neg (by omega)]
      exact ⟨h1, h2⟩
    · have e : rbVal Mode.rdn true (K % 2 == 1) = 0 := rfl
      rw [e]
      simp only [if_true]
      by_cases hup : 0 < F
      · rw [if_pos hup]
        have hne := hF0.1 hup
        have : (K : ℚ) < Y := lt_of_le_of_ne h1 (Ne.symm hne)
        push_cast
        exact ⟨by linarith, by linarith⟩
      · rw [if_neg hup]
        have : Y = K := by
          by_contra hne; exact hup (hF0.2 hne)
        rw [this]
        exact ⟨le_refl _, by linarith⟩
  · -- rup
    simp only [RoundedTo]
    cases neg
    · have e : rbVal Mode.rup false (K % 2 == 1) = 0 := rfl
      rw [e]
      simp only [Bool.false_eq_true, if_false]
      by_cases hup : 0 < F
      · rw [if_pos hup]
        have hne := hF0.1 hup
        have : (K : ℚ) < Y := lt_of_le_of_ne h1 (Ne.symm hne)
        push_cast
        exact ⟨by linarith, by linarith⟩
      · rw [if_neg hup]
        have : Y = K := by
          by_contra hne; exact hup (hF0.2 hne)
        rw [this]
        exact ⟨le_refl _, by linarith⟩
    · have e : rbVal Mode.rup true (K % 2 == 1) = 2 ^ 128 - 1 := rfl
      rw [e]
      simp only [if_true]
      rw [if_neg (by omega)]
      exact ⟨h1, h2⟩
  · -- rtz
    simp only [RoundedTo]
    have e : rbVal Mode.rtz neg (K % 2 == 1) = 2 ^ 128 - 1 := rfl
    rw [e, if_neg (by omega)]
    exact ⟨h1, h2⟩
  · -- rna
    simp only [RoundedTo]
    have e : rbVal Mode.rna neg (K % 2 == 1) = 2 ^ 127 - 1 := rfl
    rw [e]
    by_cases hup : 2 ^ 127 - 1 < F
    · rw [if_pos hup]
      have := h5.1 (by omega)
      push_cast
      exact ⟨abs_le.mpr ⟨by linarith, by linarith⟩, fun _ => by linarith⟩
    · rw [if_neg hup]
      have : ¬ (1 : ℚ) / 2 ≤ Y - K := fun h => hup (by have := h5.2 h; omega)
      rw [not_le] at this
      refine ⟨abs_le.mpr ⟨by linarith, by linarith⟩, fun ht => ?_⟩
      rw [abs_of_nonneg (by linarith)] at ht
      linarith

/-! ### 7. The specification side: what `binToDecD` returns -/

theorem P33q : ((P33 : Nat) : ℚ) = (10 : ℚ) ^ (33 : ℤ) := P33_cast
theorem P34q : ((P34 : Nat) : ℚ) = (10 : ℚ) ^ (34 : ℤ) := P34_cast

/-- a non-integer `Y` in `[10^33, 10^34)` times a power of ten is not a member of the format -/
theorem not_member_of_frac {Y : ℚ} {x : ℤ} {K : ℕ} (h33 : (10 : ℚ) ^ (33 : ℤ) ≤ Y) (hK1 : (K : ℚ) ≤ Y) (hK2 : Y < K + 1)
    (hne : Y ≠ K) : ¬ IsMember (Y * (10 : ℚ) ^ x) := by
  rintro ⟨m', x', hr, hv⟩
  rw [fval_false] at hv
  have hle : x ≤ x' := member_ge_x0 hr hv (Or.inr h33)
  have hint := member_int hle hv
  apply hne
  rw [hint] at hK1 hK2 ⊢
  have a : K ≤ m' * 10 ^ (x' - x).toNat := by exact_mod_cast hK1
  have b : m' * 10 ^ (x' - x).toNat < K + 1 := by exact_mod_cast hK2
  have : m' * 10 ^ (x' - x).toNat = K := by omega
  exact_mod_cast this

/-- the inexact result: the rounding of `Y = v / 10^x ∈ [10^33, 10^34)`, carried to the next decade if it reaches `10^34`,
with inexact -/
theorem spec_inexact (mode : Mode) (neg : Bool) {Y : ℚ} {x : ℤ} {K m : ℕ} (h33 : (10 : ℚ) ^ (33 : ℤ) ≤ Y)
    (h34 : Y < (10 : ℚ) ^ (34 : ℤ)) (hK1 : (K : ℚ) ≤ Y) (hK2 : Y < K + 1) (hne : Y ≠ K)
    (hm : RoundedTo mode neg Y m) (hx1 : eMin ≤ x) (hx2 : x + 1 ≤ eMax) :
    FinishSpecStrict mode neg (Y * (10 : ℚ) ^ x) 0
      (if m = P34 then (.fin neg P33 (x + 1), fInexact) else (.fin neg m x, fInexact)) := by
  have hp : (0 : ℚ) < (10 : ℚ) ^ x := zpow_pos ten_pos _
  have hY0 : (0 : ℚ) < Y := lt_of_lt_of_le (zpow_pos ten_pos _) h33
  have hnm := not_member_of_frac (x := x) h33 hK1 hK2 hne
  have hmle : m ≤ P34 := RoundedTo_le (by rw [P34q]; exact h34.le) hm
  have hflag : ¬ Y * (10 : ℚ) ^ x < (10 : ℚ) ^ (-6143 : ℤ) := by
    rw [not_lt]
    have e : (10 : ℚ) ^ (-6143 : ℤ) = (10 : ℚ) ^ (33 : ℤ) * (10 : ℚ) ^ (-6176 : ℤ) := by
      rw [← zpow_add₀ ten_ne]; norm_num
    rw [e]
    have : (10 : ℚ) ^ (-6176 : ℤ) ≤ (10 : ℚ) ^ x := zpow_le_zpow_right₀ one_lt_ten.le (by unfold eMin at hx1; omega)
    exact mul_le_mul h33 this (zpow_pos ten_pos _).le hY0.le
  have hdiv : ∀ x' : ℤ, Y * (10 : ℚ) ^ x / (10 : ℚ) ^ x' = Y * (10 : ℚ) ^ (x - x') := by
    intro x'
    rw [mul_div_assoc, ← zpow_sub₀ ten_ne]
  right; left
  refine ⟨hnm, ?_⟩
  by_cases hc : m = P34
  · rw [if_pos hc]
    refine ⟨P33, x + 1, ?_, by decide, by omega, by omega, ?_, ?_⟩
    · rw [if_neg hflag]
    · rw [hdiv, show x - (x + 1) = -1 by ring, zpow_neg, zpow_one, ← div_eq_mul_inv]
      exact RoundedTo_carry (hc ▸ hm)
    · intro x' M hx'1 hx'2 hM
      rw [hdiv] at hM
      have hge : Y ≤ Y * (10 : ℚ) ^ (x - x') := by
        have : (1 : ℚ) ≤ (10 : ℚ) ^ (x - x') := one_le_zpow₀ one_lt_ten.le (by omega)
        nlinarith
      have := RoundedTo_mono hge hm hM
      omega
  · rw [if_neg hc]
    refine ⟨m, x, ?_, by omega, hx1, by omega, ?_, ?_⟩
    · rw [if_neg hflag]
    · rw [hdiv, sub_self, zpow_zero, mul_one]; exact hm
    · intro x' M hx'1 hx'2 hM
      rw [hdiv] at hM
      have hge : ((P34 : ℕ) : ℚ) ≤ Y * (10 : ℚ) ^ (x - x') := by
        have : (10 : ℚ) ^ (1 : ℤ) ≤ (10 : ℚ) ^ (x - x') := zpow_le_zpow_right₀ one_lt_ten.le (by omega)
        rw [zpow_one] at this
        rw [P34q, show (34 : ℤ) = 33 + 1 by norm_num, zpow_add₀ ten_ne, zpow_one]
        nlinarith
      exact RoundedTo_ge hge hM

/-- the exact result on the main path: an integer `K ∈ [10^33, 10^34)` at a positive exponent -/
theorem spec_exact_main (mode : Mode) (neg : Bool) {x : ℤ} {K : ℕ} (h33 : P33 ≤ K) (h34 : K < P34)
    (hx1 : 1 ≤ x) (hx2 : x ≤ eMax) :
    FinishSpecStrict mode neg ((K : ℚ) * (10 : ℚ) ^ x) 0 (.fin neg K x, 0) := by
  have hr : Representable K x := ⟨h34, by unfold eMin; omega, hx2⟩
  left
  refine ⟨⟨K, x, hr, fval_false K x⟩, K, x, rfl, fval_false K x, hr, ?_⟩
  intro m' x' hr' hv
  rw [fval_false] at hv
  have hle : x ≤ x' := member_ge_x0 hr' hv (Or.inr (by rw [← P33q]; exact_mod_cast h33))
  rw [sub_zero, sub_zero, abs_of_nonneg (by omega), abs_of_nonneg (by omega)]
  exact hle

/-- the exact result for a dyadic fraction: `M·10^-a` with `M` odd is the member of its cohort closest to exponent 0 -/
theorem spec_exact_frac (mode : Mode) (neg : Bool) {a M : ℕ} (hodd : M % 2 = 1) (h34 : M < P34)
    (ha1 : 1 ≤ a) (ha2 : a ≤ 6176) :
    FinishSpecStrict mode neg ((M : ℚ) * (10 : ℚ) ^ (-(a : ℤ))) 0 (.fin neg M (-(a : ℤ)), 0) := by
  have hr : Representable M (-(a : ℤ)) := ⟨h34, by unfold eMin; omega, by unfold eMax; omega⟩
  left
  refine ⟨⟨M, _, hr, fval_false M _⟩, M, _, rfl, fval_false M _, hr, ?_⟩
  intro m' x' hr' hv
  rw [fval_false] at hv
  rw [sub_zero, sub_zero]
  by_contra hlt
  rw [not_le] at hlt
  have hx' : -(a : ℤ) + 1 ≤ x' := by
    rw [abs_neg, Nat.abs_cast] at hlt
    have := (abs_lt.mp hlt).1
    omega
  have hint := member_int (x0 := -(a : ℤ)) (by omega) hv
  have hM : M = m' * 10 ^ (x' - -(a : ℤ)).toNat := by exact_mod_cast hint
  obtain ⟨k, hk⟩ : ∃ k : ℕ, (x' - -(a : ℤ)).toNat = k + 1 := ⟨(x' - -(a : ℤ)).toNat - 1, by omega⟩
  rw [hk, Nat.pow_succ, ← Nat.mul_assoc] at hM
  generalize m' * 10 ^ k = j at hM
  omega

/-- transfer: an outcome satisfying the tight delivery clause for `m·2^E` is what `binToDecD` returns -/
theorem binToDecD_of_spec {mode : Mode} {s : Bool} {m : ℕ} {E : ℤ} (hm : m ≠ 0) {out : Datum × Flags}
    (h : FinishSpecStrict mode s (binVal m E) 0 out) : binToDecD mode s m E = out :=
  (bin_eq_iff mode s m E hm out).mpr h

/-! ### 8. The exact block -/

/-- `BID_COEFFLIMITS_BID128[a] = ⌊10^34 / 5^a⌋`, `BID_POWER_FIVE[a] = 5^a` (each entry, as the two words the code reads) -/
theorem coefflimits_lookup : ∀ a < 49, tbl2 Dec.Gen.BID_COEFFLIMITS_BID128 a =
    some ⟨(10 ^ 34 / 5 ^ a) % W, (10 ^ 34 / 5 ^ a) / W⟩ := by decide +kernel
theorem powerfive_lookup : ∀ a < 49, tbl2 Dec.Gen.BID_POWER_FIVE a = some ⟨5 ^ a % W, 5 ^ a / W⟩ := by
  decide +kernel

/-- shifting the coefficient `c = [0, d·2^11]` (the number `d·2^75`) right by `15 ≤ n ≤ 127` -/
theorem srl_coeff (d n : Nat) (hd : d < 2 ^ 53) (hn : n < 128) :
    (srl128 (d * 2 ^ 11) 0 n).2 = d * 2 ^ 75 / 2 ^ n % W ∧ (srl128 (d * 2 ^ 11) 0 n).1 = d * 2 ^ 75 / 2 ^ n / W := by
  obtain ⟨h1, h2, h3⟩ := srl128_spec (hi := d * 2 ^ 11) (lo := 0) (c := n) (by omega) (by omega) hn
  have e : 0 + W * (d * 2 ^ 11) = d * 2 ^ 75 := by omega
  rw [e] at h1
  generalize d * 2 ^ 75 / 2 ^ n = X at *
  generalize (srl128 (d * 2 ^ 11) 0 n).1 = a at *
  generalize (srl128 (d * 2 ^ 11) 0 n).2 = b at *
  omega

theorem p34_words : 4003012203950112768 + W * 542101086242752 = 10 ^ 34 := by decide

/-- **What the exact block does** (lines 1063–1087), for the coefficient `c = [0, d·2^11]`: with `a = −(e + t)`,
* `a ≤ 0`: `X = ⌊d·2^75 / 2^(15−e)⌋` is returned at exponent 0 if it is below `10^34`;
* `0 < a ≤ 48`: `c' = ⌊d·2^75 / 2^(15+t)⌋` times `5^a` (modulo `2^128`) is returned at exponent `−a` if `c' ≤ ⌊10^34 / 5^a⌋`;
* otherwise the code goes on. -/
theorem exactBlock_eq (s e t : Int) (d : Nat) (hd : d < 2 ^ 53) (he1 : -1186 ≤ e) (he2 : e ≤ 911)
    (ht1 : 60 ≤ t) (ht2 : t ≤ 112) :
    exactBlock s e ⟨0, d * 2 ^ 11⟩ t =
      if e ≤ 0 then
        if -(e + t) ≤ 0 then
          (if d * 2 ^ 75 / 2 ^ (15 - e).toNat < 10 ^ 34 then
            some (some (returnBid128 s 6176 (d * 2 ^ 75 / 2 ^ (15 - e).toNat / W) (d * 2 ^ 75 / 2 ^ (15 - e).toNat % W)))
          else some none)
        else if -(e + t) ≤ 48 then
          (if d * 2 ^ 75 / 2 ^ (15 + t).toNat ≤ 10 ^ 34 / 5 ^ (-(e + t)).toNat then
            some (some (returnBid128 s (6176 - -(e + t))
              (d * 2 ^ 75 / 2 ^ (15 + t).toNat * 5 ^ (-(e + t)).toNat % (W * W) / W)
              (d * 2 ^ 75 / 2 ^ (15 + t).toNat * 5 ^ (-(e + t)).toNat % (W * W) % W)))
          else some none)
        else some none
      else some none := by
  unfold exactBlock
  have ha : i32w (-(i32w (e + t))) = -(e + t) := by unfold i32w; omega
  simp only [ha]
  by_cases h0 : e ≤ 0
  · rw [if_pos h0, if_pos h0]
    by_cases h1 : -(e + t) ≤ 0
    · rw [if_pos h1, if_pos h1]
      have hsh : i32AsU64 (i32w (15 - e)) = (15 - e).toNat := by unfold i32AsU64 i32w; omega
      obtain ⟨r2, r1⟩ := srl_coeff d (15 - e).toNat hd (by omega)
      simp only [hsh]
      rw [r1, r2, lt128_iff (Nat.mod_lt _ (by decide)) (by decide), Nat.mod_add_div, p34_words]
      by_cases hX : d * 2 ^ 75 / 2 ^ (15 - e).toNat < 10 ^ 34
      · simp only [hX, decide_true, if_true]
      · simp only [hX, decide_false, Bool.false_eq_true, if_false]
    · rw [if_neg h1, if_neg h1]
      by_cases h2 : -(e + t) ≤ 48
      · rw [if_pos h2, if_pos h2]
        obtain ⟨a, hadef⟩ : ∃ a : Nat, -(e + t) = a := ⟨(-(e + t)).toNat, by omega⟩
        have ha49 : a < 49 := by omega
        have hidx : i32AsU64 (-(e + t)) = a := by rw [hadef]; unfold i32AsU64; omega
        have hsh : i32AsU64 (i32w (15 + t)) = (15 + t).toNat := by unfold i32AsU64 i32w; omega
        obtain ⟨r2, r1⟩ := srl_coeff d (15 + t).toNat hd (by omega)
        have he6 : i32w (6176 - -(e + t)) = 6176 - -(e + t) := by unfold i32w; omega
        have hat : (-(e + t)).toNat = a := by omega
        rw [hidx, coefflimits_lookup a ha49, powerfive_lookup a ha49, he6, hat]
        simp only [hsh]
        rw [r1, r2, le128_iff (Nat.mod_lt _ (by decide)) (Nat.mod_lt _ (by decide)), Nat.mod_add_div, Nat.mod_add_div]
        generalize d * 2 ^ 75 / 2 ^ (15 + t).toNat = c' at *
        by_cases hle : c' ≤ 10 ^ 34 / 5 ^ a
        · simp only [hle, decide_true, if_true]
          have hlim : 10 ^ 34 / 5 ^ a < W * W := Nat.lt_of_le_of_lt (Nat.div_le_self _ _) (by decide)
          have hc' : c' < W * W := Nat.lt_of_le_of_lt hle hlim
          have h5 : 5 ^ a < W * W := Nat.lt_of_le_of_lt (Nat.pow_le_pow_right (by decide) (Nat.le_of_lt_succ ha49)) (by decide)
          have wfA : (⟨c' % W, c' / W⟩ : U128).wf := ⟨Nat.mod_lt _ (by decide), by show c' / W < W; omega⟩
          have wfB : (⟨5 ^ a % W, 5 ^ a / W⟩ : U128).wf := ⟨Nat.mod_lt _ (by decide), by show 5 ^ a / W < W; omega⟩
          obtain ⟨hv, hw0, hw1⟩ := mul128x128Low_spec wfA wfB
          have vA : (⟨c' % W, c' / W⟩ : U128).val = c' := by simp only [U128.val]; omega
          have vB : (⟨5 ^ a % W, 5 ^ a / W⟩ : U128).val = 5 ^ a := by simp only [U128.val]; omega
          rw [vA, vB] at hv
          simp only [U128.val] at hv
          generalize mul128x128Low ⟨c' % W, c' / W⟩ ⟨5 ^ a % W, 5 ^ a / W⟩ = cc at *
          have e1 : cc.w1 = c' * 5 ^ a % (W * W) / W := by
            generalize c' * 5 ^ a % (W * W) = V at *; omega
          have e0 : cc.w0 = c' * 5 ^ a % (W * W) % W := by
            generalize c' * 5 ^ a % (W * W) = V at *; omega
          rw [e1, e0]
        · simp only [hle, decide_false, Bool.false_eq_true, if_false]
      · rw [if_neg h2, if_neg h2]
  · rw [if_neg h0, if_neg h0]

/-- if `K / 2^a = c' / 10^n … ` — precisely `K·2^a = c'·10^n` with `c'` odd — then `K ≥ c'·5^a` -/
theorem frac_lower (c' a K n : ℕ) (hodd : c' % 2 = 1) (hK : K * 2 ^ a = c' * 10 ^ n) : c' * 5 ^ a ≤ K := by
  have hcop : Nat.Coprime (2 ^ a) c' := by
    apply Nat.Coprime.pow_left
    show Nat.gcd 2 c' = 1
    rw [Nat.gcd_rec, hodd, Nat.gcd_one_left]
  have hdvd : 2 ^ a ∣ c' * 10 ^ n := ⟨K, by rw [← hK, Nat.mul_comm]⟩
  have h10 : 2 ^ a ∣ 10 ^ n := (Nat.Coprime.dvd_mul_left hcop).mp hdvd
  have e10 : 10 ^ n = 2 ^ n * 5 ^ n := by rw [← Nat.mul_pow]
  rw [e10] at h10
  have hcop5 : Nat.Coprime (2 ^ a) (5 ^ n) := Nat.Coprime.pow _ _ (by decide)
  have h2 : 2 ^ a ∣ 2 ^ n := (Nat.Coprime.dvd_mul_right hcop5).mp h10
  have han : a ≤ n := (Nat.pow_dvd_pow_iff_le_right (by decide)).mp h2
  obtain ⟨j, rfl⟩ : ∃ j, n = a + j := ⟨n - a, by omega⟩
  have e : c' * 10 ^ (a + j) = (c' * 5 ^ a * 10 ^ j) * 2 ^ a := by
    rw [Nat.pow_add, show (10 : ℕ) ^ a = 2 ^ a * 5 ^ a by rw [← Nat.mul_pow]]; ring
  rw [e] at hK
  have := Nat.eq_of_mul_eq_mul_right (Nat.pow_pos (by decide)) hK
  rw [this]
  exact Nat.le_mul_of_pos_right _ (Nat.pow_pos (by decide))

/-- a dyadic fraction `c/2^a` (`c` odd) with `c·5^a ≥ 10^34` is not `K/10^n` for any `K < 10^34` -/
theorem frac_not_small (c a K n : ℕ) (hodd : c % 2 = 1) (hbig : 10 ^ 34 ≤ c * 5 ^ a) (hK : K < 10 ^ 34) :
    (K : ℚ) ≠ (c : ℚ) * (2 : ℚ) ^ (-(a : ℤ)) * (10 : ℚ) ^ n := by
  intro h
  have h2 : ((2 : ℚ) ^ a) ≠ 0 := pow_ne_zero _ two_ne
  have e : (K : ℚ) * (2 : ℚ) ^ a = (c : ℚ) * (10 : ℚ) ^ n := by
    rw [h, zpow_neg, zpow_natCast]; field_simp
  have e' : K * 2 ^ a = c * 10 ^ n := by exact_mod_cast e
  have := frac_lower c a K n hodd e'
  omega

/-- the value in terms of the odd part: `d = c·2^u`, `u + E = −a` -/
theorem binVal_odd (d c u a : ℕ) (E : ℤ) (hd : d = c * 2 ^ u) (hE : (u : ℤ) + E = -(a : ℤ)) :
    binVal d E = (c : ℚ) * (2 : ℚ) ^ (-(a : ℤ)) := by
  unfold binVal
  rw [hd, ← hE, zpow_add₀ two_ne, zpow_natCast]
  push_cast; ring

/-- `binToDecD` depends on `(m, E)` only through the value `m·2^E` -/
theorem binToDecD_congr (mode : Mode) (s : Bool) {m m' : ℕ} {E E' : ℤ} (hm : m ≠ 0) (hm' : m' ≠ 0)
    (h : binVal m E = binVal m' E') : binToDecD mode s m E = binToDecD mode s m' E' := by
  apply binToDecD_of_spec hm
  rw [h]
  exact (bin_eq_iff mode s m' E' hm' _).mp rfl

theorem ten34_lt : (10 : ℕ) ^ 34 < 2 ^ 113 := by decide

/-- every positive number is an odd number times a power of two -/
theorem odd_part : ∀ d : ℕ, d ≠ 0 → ∃ u c : ℕ, c % 2 = 1 ∧ d = c * 2 ^ u := by
  intro d
  induction d using Nat.strong_induction_on with
  | _ d ih =>
    intro hd
    rcases Nat.mod_two_eq_zero_or_one d with h | h
    · obtain ⟨k, rfl⟩ : ∃ k, d = 2 * k := ⟨d / 2, by omega⟩
      obtain ⟨u, c, hc, hk⟩ := ih k (by omega) (by omega)
      exact ⟨u + 1, c, hc, by rw [hk, Nat.pow_succ]; ring⟩
    · exact ⟨0, d, h, by simp⟩

/-- **The exact block is right.**  Either it returns, and then what it returns is the encoding of what `binToDecD`
prescribes for `d·2^(e+60)`, with no flag; or the code goes on, and then the value is not `K/10^n` for any natural
`K < 10^34`, `n ≥ 0` (it is not a member of the format at an exponent `≤ 0`). -/
theorem exactBlock_spec (mode : Mode) (neg : Bool) (e t : ℤ) (d : ℕ) (hd1 : 2 ^ 52 ≤ d) (hd2 : d < 2 ^ 53)
    (he1 : -1186 ≤ e) (he2 : e ≤ 911) (ht1 : 60 ≤ t) (ht2 : t ≤ 112)
    (htz : (2 ^ (t - 60).toNat ∣ d ∧ ¬ 2 ^ ((t - 60).toNat + 1) ∣ d) ∨ e < -160) :
    (∃ R, exactBlock (if neg then 1 else 0) e ⟨0, d * 2 ^ 11⟩ t = some (some R) ∧
        bitsOf R = encode (binToDecD mode neg d (e + 60)).1 ∧ (binToDecD mode neg d (e + 60)).2 = 0) ∨
    (exactBlock (if neg then 1 else 0) e ⟨0, d * 2 ^ 11⟩ t = some none ∧
        ∀ K n : ℕ, K < 10 ^ 34 → (K : ℚ) ≠ binVal d (e + 60) * (10 : ℚ) ^ n) := by
  have hd0 : d ≠ 0 := by omega
  rw [exactBlock_eq _ e t d hd2 he1 he2 ht1 ht2]
  -- a value of at least `10^34` is not a `K / 10^n`
  have big : (10 : ℚ) ^ (34 : ℕ) ≤ binVal d (e + 60) → ∀ K n : ℕ, K < 10 ^ 34 → (K : ℚ) ≠ binVal d (e + 60) * (10 : ℚ) ^ n := by
    intro hb K n hK h
    have h1 : (1 : ℚ) ≤ (10 : ℚ) ^ n := one_le_pow₀ (by norm_num)
    have h2 : (K : ℚ) < (10 : ℚ) ^ (34 : ℕ) := by exact_mod_cast hK
    have hpos : (0 : ℚ) ≤ binVal d (e + 60) := (binVal_pos hd0 _).le
    nlinarith
  -- an odd numerator over `2^a`, `a ≥ 49`
  have deep : ∀ (c u a : ℕ), c % 2 = 1 → d = c * 2 ^ u → (u : ℤ) + (e + 60) = -(a : ℤ) → 49 ≤ a →
      ∀ K n : ℕ, K < 10 ^ 34 → (K : ℚ) ≠ binVal d (e + 60) * (10 : ℚ) ^ n := by
    intro c u a hodd hdc hE ha K n hK
    rw [binVal_odd d c u a (e + 60) hdc hE]
    apply frac_not_small c a K n hodd _ hK
    have hc : 1 ≤ c := by omega
    have h5 : (10 : ℕ) ^ 34 ≤ 5 ^ 49 := by decide
    have : 5 ^ 49 ≤ 5 ^ a := Nat.pow_le_pow_right (by decide) ha
    calc 10 ^ 34 ≤ 5 ^ a := le_trans h5 this
      _ = 1 * 5 ^ a := (Nat.one_mul _).symm
      _ ≤ c * 5 ^ a := Nat.mul_le_mul_right _ hc
  by_cases h0 : e ≤ 0
  · rw [if_pos h0]
    by_cases hsub : e < -160
    · -- too small for the exact block: `−(e + t) > 48`
      right
      rw [if_neg (by omega), if_neg (by omega)]
      refine ⟨rfl, ?_⟩
      obtain ⟨u, c, hodd, hdc⟩ := odd_part d hd0
      have hu : u ≤ 52 := by
        by_contra hu
        have h53 : 2 ^ 53 ≤ 2 ^ u := Nat.pow_le_pow_right (by decide) (by omega)
        have hc1 : 1 ≤ c := by omega
        have h2 : 1 * 2 ^ u ≤ c * 2 ^ u := Nat.mul_le_mul_right _ hc1
        rw [← hdc, Nat.one_mul] at h2
        exact absurd (Nat.lt_of_lt_of_le hd2 (le_trans h53 h2)) (lt_irrefl _)
      exact deep c u (-((u : ℤ) + (e + 60))).toNat hodd hdc (by omega) (by omega)
    · -- the trailing-zero count is exact
      have htz' := htz.resolve_right hsub
      obtain ⟨hdv, hndv⟩ := htz'
      obtain ⟨u, hu⟩ : ∃ u : ℕ, t - 60 = u := ⟨(t - 60).toNat, by omega⟩
      have hut : (t - 60).toNat = u := by omega
      rw [hut] at hdv hndv
      obtain ⟨c, hdc⟩ := hdv
      have hcodd : c % 2 = 1 := by
        rcases Nat.mod_two_eq_zero_or_one c with h | h
        · exfalso; apply hndv
          obtain ⟨k, rfl⟩ : ∃ k, c = 2 * k := ⟨c / 2, by omega⟩
          exact ⟨k, by rw [hdc, Nat.pow_succ]; ring⟩
        · exact h
      have hdc' : d = c * 2 ^ u := by rw [hdc, Nat.mul_comm]
      by_cases h1 : -(e + t) ≤ 0
      · rw [if_pos h1]
        -- an integer
        obtain ⟨n, hn⟩ : ∃ n : ℕ, 15 - e = n := ⟨(15 - e).toNat, by omega⟩
        have hnt : (15 - e).toNat = n := by omega
        rw [hnt]
        have hn75 : n ≤ 75 + u := by omega
        have hdiv : 2 ^ n ∣ d * 2 ^ 75 := by
          have h1 : 2 ^ n ∣ 2 ^ (u + 75) := Nat.pow_dvd_pow 2 (by omega)
          have h2 : 2 ^ (u + 75) ∣ d * 2 ^ 75 := by
            rw [Nat.pow_add, hdc]; exact ⟨c, by ring⟩
          exact Nat.dvd_trans h1 h2
        obtain ⟨X, hX⟩ := hdiv
        have hXdiv : d * 2 ^ 75 / 2 ^ n = X := by
          rw [hX]; exact Nat.mul_div_cancel_left _ (Nat.pow_pos (by decide))
        rw [hXdiv]
        have hXq : (X : ℚ) = binVal d (e + 60) := by
          have h2n : ((2 : ℚ) ^ n) ≠ 0 := pow_ne_zero _ two_ne
          have : (d : ℚ) * (2 : ℚ) ^ (75 : ℕ) = (2 : ℚ) ^ n * X := by exact_mod_cast hX
          unfold binVal
          have e1 : (2 : ℚ) ^ (e + 60) = (2 : ℚ) ^ (75 : ℕ) / (2 : ℚ) ^ n := by
            rw [← zpow_natCast, ← zpow_natCast, ← zpow_sub₀ two_ne]; congr 1; omega
          rw [e1, ← mul_div_assoc, this]; field_simp
        by_cases hXs : X < 10 ^ 34
        · left
          rw [if_pos hXs]
          refine ⟨_, rfl, ?_⟩
          have hX0 : X ≠ 0 := by
            intro h; rw [h] at hXq
            have := binVal_pos hd0 (e + 60); rw [← hXq] at this; simp at this
          have hspec : binToDecD mode neg d (e + 60) = (.fin neg X 0, 0) := by
            rw [binToDecD_congr mode neg hd0 hX0 (show binVal d (e + 60) = binVal X 0 by rw [← hXq]; simp [binVal])]
            have := bin_integer mode neg X 0 hX0 (le_refl _) (by simpa [P34] using hXs)
            simpa using this
          rw [hspec]
          refine ⟨?_, rfl⟩
          have := returnBid128_fin neg 6176 X (by decide) (by decide) (Nat.lt_trans hXs ten34_lt)
          simpa using this
        · right
          rw [if_neg hXs]
          refine ⟨rfl, big ?_⟩
          rw [← hXq]; exact_mod_cast Nat.le_of_not_lt hXs
      · rw [if_neg h1]
        obtain ⟨a, ha⟩ : ∃ a : ℕ, -(e + t) = a := ⟨(-(e + t)).toNat, by omega⟩
        have hat : (-(e + t)).toNat = a := by omega
        have hE : (u : ℤ) + (e + 60) = -(a : ℤ) := by omega
        by_cases h2 : -(e + t) ≤ 48
        · rw [if_pos h2, hat]
          -- a dyadic fraction with at most 48 fraction bits
          have hsh : (15 + t).toNat = 75 + u := by omega
          have hc' : d * 2 ^ 75 / 2 ^ (15 + t).toNat = c := by
            rw [hsh, hdc, Nat.pow_add, show 2 ^ u * c * 2 ^ 75 = c * (2 ^ 75 * 2 ^ u) by ring]
            exact Nat.mul_div_cancel _ (Nat.mul_pos (Nat.pow_pos (by decide)) (Nat.pow_pos (by decide)))
          rw [hc']
          have hval : binVal d (e + 60) = (c : ℚ) * (2 : ℚ) ^ (-(a : ℤ)) := binVal_odd d c u a (e + 60) hdc' hE
          by_cases hle : c ≤ 10 ^ 34 / 5 ^ a
          · left
            rw [if_pos hle]
            refine ⟨_, rfl, ?_⟩
            have h5pos : 0 < 5 ^ a := Nat.pow_pos (by decide)
            have hM1 : c * 5 ^ a ≤ 10 ^ 34 := (Nat.le_div_iff_mul_le h5pos).mp hle
            have hModd : c * 5 ^ a % 2 = 1 := by
              have : 5 ^ a % 2 = 1 := by
                rw [Nat.pow_mod]; simp
              rw [Nat.mul_mod, hcodd, this]
            have hM : c * 5 ^ a < 10 ^ 34 := by
              rcases Nat.eq_or_lt_of_le hM1 with h | h
              · rw [h] at hModd; simp at hModd
              · exact h
            have hmod : c * 5 ^ a % (W * W) = c * 5 ^ a := Nat.mod_eq_of_lt (Nat.lt_trans hM (by decide))
            rw [hmod]
            have ha1 : 1 ≤ a := by omega
            have hvalM : binVal d (e + 60) = ((c * 5 ^ a : ℕ) : ℚ) * (10 : ℚ) ^ (-(a : ℤ)) := by
              rw [hval]; push_cast
              rw [show (10 : ℚ) = 2 * 5 by norm_num, mul_zpow, zpow_neg, zpow_neg]
              simp only [zpow_natCast]
              field_simp
            have hspec : binToDecD mode neg d (e + 60) = (.fin neg (c * 5 ^ a) (-(a : ℤ)), 0) := by
              apply binToDecD_of_spec hd0
              rw [hvalM]
              exact spec_exact_frac mode neg hModd (by simpa [P34] using hM) ha1 (by omega)
            rw [hspec]
            refine ⟨?_, rfl⟩
            have := returnBid128_fin neg (6176 - a) (c * 5 ^ a) (by omega) (by omega) (Nat.lt_trans hM ten34_lt)
            have e6 : (6176 : ℤ) - -(e + t) = 6176 - a := by omega
            have e7 : (6176 : ℤ) - a - 6176 = -(a : ℤ) := by ring
            rw [e6]; rw [e7] at this; exact this
          · right
            rw [if_neg hle]
            refine ⟨rfl, ?_⟩
            intro K n hK
            rw [hval]
            apply frac_not_small c a K n hcodd _ hK
            have h5pos : 0 < 5 ^ a := Nat.pow_pos (by decide)
            have h1 := Nat.lt_mul_div_succ (10 ^ 34) h5pos
            have h2 : 10 ^ 34 / 5 ^ a + 1 ≤ c := by omega
            calc 10 ^ 34 ≤ 5 ^ a * (10 ^ 34 / 5 ^ a + 1) := h1.le
              _ ≤ 5 ^ a * c := Nat.mul_le_mul_left _ h2
              _ = c * 5 ^ a := Nat.mul_comm _ _
        · right
          rw [if_neg h2]
          exact ⟨rfl, deep c u a hcodd hdc' hE (by omega)⟩
  · right
    rw [if_neg h0]
    refine ⟨rfl, big ?_⟩
    unfold binVal
    have h1 : (2 : ℚ) ^ (61 : ℤ) ≤ (2 : ℚ) ^ (e + 60) := zpow_le_zpow_right₀ (by norm_num) (by omega)
    have h2 : (2 : ℚ) ^ (52 : ℕ) ≤ d := by exact_mod_cast hd1
    have h3 : (10 : ℚ) ^ (34 : ℕ) ≤ (2 : ℚ) ^ (52 : ℕ) * (2 : ℚ) ^ (61 : ℤ) := by norm_num
    have h4 : (0 : ℚ) < (2 : ℚ) ^ (61 : ℤ) := by positivity
    nlinarith

/-! ### 9. The main block: the words -/

/-- lines 1124–1129: the product of the coefficient `[0, d·2^11]` and the table multiplier, shifted right by
`1 ≤ sh ≤ 63`: no bit is lost, the result is `d·2^(75−sh)·r` -/
theorem prod_shift (d : ℕ) (hd : d < 2 ^ 53) (r : U256) (hr : r.wf) (sh : ℤ) (h1 : 1 ≤ sh) (h2 : sh ≤ 63) :
    (srl384Short (mul128x256to384 ⟨0, d * 2 ^ 11⟩ r) sh).val = d * 2 ^ (75 - sh.toNat) * r.val ∧
    (srl384Short (mul128x256to384 ⟨0, d * 2 ^ 11⟩ r) sh).wf ∧
    (srl384Short (mul128x256to384 ⟨0, d * 2 ^ 11⟩ r) sh).w6 = 0 ∧
    (srl384Short (mul128x256to384 ⟨0, d * 2 ^ 11⟩ r) sh).w7 = 0 := by
  have hA : (⟨0, d * 2 ^ 11⟩ : U128).wf := ⟨by show (0 : ℕ) < W; decide, by show d * 2 ^ 11 < W; omega⟩
  obtain ⟨v, wf, z6, z7⟩ := mul128x256to384_spec hA hr
  obtain ⟨v', wf', z6', z7'⟩ := srl384Short_spec wf z6 z7 h1 h2
  refine ⟨?_, wf', z6', z7'⟩
  rw [v', v]
  have eA : (⟨0, d * 2 ^ 11⟩ : U128).val = d * 2 ^ 75 := by simp only [U128.val]; omega
  rw [eA]
  obtain ⟨n, rfl⟩ : ∃ n : ℕ, sh = n := ⟨sh.toNat, by omega⟩
  simp only [Int.toNat_natCast]
  have hn : n ≤ 75 := by omega
  have e75 : 2 ^ 75 = 2 ^ n * 2 ^ (75 - n) := by rw [← Nat.pow_add]; congr 1; omega
  have : d * 2 ^ 75 * r.val = 2 ^ n * (d * 2 ^ (75 - n) * r.val) := by rw [e75]; ring
  rw [this, Nat.mul_div_cancel_left _ (Nat.pow_pos (by decide))]

/-- the integer part and the top 128 fraction bits of a six-word number `z` read as `z / 2^256` -/
theorem words_of_val (z : U512) (hz : z.wf) (h6 : z.w6 = 0) (h7 : z.w7 = 0) :
    z.w4 + W * z.w5 = z.val / 2 ^ 256 ∧ z.w2 + W * z.w3 = z.val % 2 ^ 256 / 2 ^ 128 := by
  obtain ⟨b0, b1, b2, b3, b4, b5, -, -⟩ := hz
  rw [val512_384 h6 h7]
  constructor <;> omega

/-- lines 1150–1160 on the provisional coefficient `K < 10^34`: the coefficient and exponent after the increment -/
theorem roundProv_spec (up : Bool) (K : ℕ) (eo : ℤ) (hK : K < 10 ^ 34) (heo : eo < 100000) (heo0 : -100000 < eo) :
    let p := roundProv up ⟨K / W, K % W, eo⟩
    let m := if up then K + 1 else K
    p.lo + W * p.hi = (if m = 10 ^ 34 then 10 ^ 33 else m) ∧ p.lo < W ∧
    p.e_out = (if m = 10 ^ 34 then eo + 1 else eo) := by
  intro p m
  have hlo : K % W < W := Nat.mod_lt _ (by decide)
  cases up
  · have hm : m = K := rfl
    have hp : p = ⟨K / W, K % W, eo⟩ := rfl
    rw [hm, hp, if_neg (by omega), if_neg (by omega)]
    refine ⟨?_, ?_, rfl⟩ <;> dsimp only <;> omega
  · have hm : m = K + 1 := rfl
    rw [hm]
    have hi32 : i32w (eo + 1) = eo + 1 := by unfold i32w; omega
    by_cases hc : (K % W + 1) % W = 0
    · have hp : p = ⟨add64 (K / W) 1, add64 (K % W) 1, eo⟩ := by
        show roundProv true _ = _
        unfold roundProv
        have : (add64 (K % W) 1 == 0) = true := by unfold add64; simpa using hc
        simp only [if_true, this]
      have : K + 1 ≠ 10 ^ 34 := by omega
      rw [hp, if_neg this, if_neg this]
      unfold add64
      refine ⟨?_, ?_, rfl⟩ <;> dsimp only <;> omega
    · have h1 : (add64 (K % W) 1 == 0) = false := by unfold add64; simpa using hc
      by_cases hd : K + 1 = 10 ^ 34
      · have hp : p = ⟨54210108624275, 4089650035136921600, eo + 1⟩ := by
          show roundProv true _ = _
          unfold roundProv
          have h2 : (add64 (K % W) 1 == 4003012203950112768 && K / W == 542101086242752) = true := by
            unfold add64
            rw [Bool.and_eq_true, beq_iff_eq, beq_iff_eq]; omega
          simp only [if_true, h1, h2, Bool.false_eq_true, if_false, hi32]
        rw [hp, if_pos hd, if_pos hd]
        refine ⟨?_, ?_, rfl⟩ <;> dsimp only <;> decide
      · have hp : p = ⟨K / W, add64 (K % W) 1, eo⟩ := by
          show roundProv true _ = _
          unfold roundProv
          have h2 : (add64 (K % W) 1 == 4003012203950112768 && K / W == 542101086242752) = false := by
            unfold add64
            rw [Bool.and_eq_false_iff, beq_eq_false_iff_ne, beq_eq_false_iff_ne]; omega
          simp only [if_true, h1, h2, Bool.false_eq_true, if_false]
        rw [hp, if_neg hd, if_neg hd]
        unfold add64
        refine ⟨?_, ?_, rfl⟩ <;> dsimp only <;> omega

theorem p33_words : 4089650035136921600 + W * 54210108624275 = 10 ^ 33 := by decide

/-- **What the rounding step computes** (lines 1141–1170) on a six-word fixed-point number `z` whose integer part
`K = z / 2^256` is below `10^34`: with `F` the top 128 fraction bits, the increment when `F` is above the round bound, the
step to the next decade at `10^34`, inexact iff `F ≠ 0`. -/
theorem roundPack_eq (mode : Mode) (neg : Bool) (z : U512) (hzwf : z.wf) (hz6 : z.w6 = 0) (hz7 : z.w7 = 0)
    (eo : ℤ) (heo1 : eo < 100000) (heo0 : -100000 < eo) (fl : Flags) (hK : z.val / 2 ^ 256 < 10 ^ 34) :
    let K := z.val / 2 ^ 256
    let F := z.val % 2 ^ 256 / 2 ^ 128
    let m := if rbVal mode neg (K % 2 == 1) < F then K + 1 else K
    roundPack mode (if neg then 1 else 0) z eo fl =
      some (returnBid128 (if neg then 1 else 0) (if m = 10 ^ 34 then eo + 1 else eo)
              ((if m = 10 ^ 34 then 10 ^ 33 else m) / W) ((if m = 10 ^ 34 then 10 ^ 33 else m) % W),
            if F ≠ 0 then fl ||| fInexact else fl) := by
  intro K F m
  obtain ⟨kz, fz⟩ := words_of_val z hzwf hz6 hz7
  have hKlt : K < 10 ^ 34 := hK
  have hw4 : z.w4 = K % W := by have := hzwf.2.2.2.2.1; omega
  have hw5 : z.w5 = K / W := by have := hzwf.2.2.2.2.1; omega
  have hs1 : i32AsU64 (if neg then 1 else 0) &&& 1 = if neg then 1 else 0 := by cases neg <;> rfl
  have hpar : z.w4 &&& 1 = if (K % 2 == 1) then 1 else 0 := by
    rw [hw4]
    have : K % W &&& 1 = K % W % 2 := Nat.and_two_pow_sub_one_eq_mod (K % W) 1
    rw [this]
    rcases Nat.mod_two_eq_zero_or_one K with h | h
    · have : (K % 2 == 1) = false := by rw [h]; rfl
      rw [this]; simp only [Bool.false_eq_true, if_false]; omega
    · have : (K % 2 == 1) = true := by rw [h]; rfl
      rw [this]; simp only [if_true]; omega
  unfold roundPack
  simp only []
  rw [hs1, hpar, roundbound_lookup mode neg (K % 2 == 1)]
  simp only []
  have hup : lt128 (rbVal mode neg (K % 2 == 1) / W) (rbVal mode neg (K % 2 == 1) % W) z.w3 z.w2
      = decide (rbVal mode neg (K % 2 == 1) < F) := by
    rw [lt128_iff (Nat.mod_lt _ (by decide)) hzwf.2.2.1, Nat.mod_add_div, fz]
  rw [hup, hw4, hw5]
  obtain ⟨p1, p2, p3⟩ := roundProv_spec (decide (rbVal mode neg (K % 2 == 1) < F)) K eo hKlt heo1 heo0
  have hm : (if decide (rbVal mode neg (K % 2 == 1) < F) = true then K + 1 else K) = m := by
    by_cases h : rbVal mode neg (K % 2 == 1) < F
    · rw [decide_eq_true h, if_pos rfl]; exact (if_pos h).symm
    · rw [decide_eq_false h, if_neg (by decide)]; exact (if_neg h).symm
  rw [hm] at p1 p3
  generalize roundProv (decide (rbVal mode neg (K % 2 == 1) < F)) ⟨K / W, K % W, eo⟩ = p at *
  have hphi : p.hi = (if m = 10 ^ 34 then 10 ^ 33 else m) / W := by omega
  have hplo : p.lo = (if m = 10 ^ 34 then 10 ^ 33 else m) % W := by omega
  rw [p3, hphi, hplo]
  have hfl : (z.w3 != 0 || z.w2 != 0) = decide (F ≠ 0) := by
    rw [Bool.eq_iff_iff]
    simp only [Bool.or_eq_true, bne_iff_ne, decide_eq_true_eq]
    omega
  rw [hfl]
  by_cases hF : F ≠ 0
  · simp only [hF, decide_true, if_true, ne_eq, not_false_eq_true]
  · simp only [hF, decide_false, Bool.false_eq_true, if_false]

/-- **What the main block computes** (lines 1124–1193), in numbers: with `Z0 = d·2^(75−sh)·r` the shifted product,
multiplied by ten when its integer part `Z0 / 2^256` is below `10^33`, then the rounding step on it. -/
theorem mainBlock_eq (mode : Mode) (neg : Bool) (d : ℕ) (hd : d < 2 ^ 53) (e : ℤ) (_he1 : -1186 ≤ e) (_he2 : e ≤ 911)
    (tr : TabR) (fl : Flags) (hwf : tr.r.wf) (s1 : 1 ≤ -(241 + e + tr.f)) (s2 : -(241 + e + tr.f) ≤ 63)
    (e1 : 2 ≤ tr.e_out) (e2 : tr.e_out < 12287) :
    let Z0 := d * 2 ^ (75 - (-(241 + e + tr.f)).toNat) * tr.r.val
    ∃ z : U512, z.wf ∧ z.w6 = 0 ∧ z.w7 = 0 ∧ z.val = (if Z0 / 2 ^ 256 < 10 ^ 33 then 10 * Z0 else Z0) ∧
      mainBlock mode (if neg then 1 else 0) e ⟨0, d * 2 ^ 11⟩ tr fl =
        roundPack mode (if neg then 1 else 0) z (if Z0 / 2 ^ 256 < 10 ^ 33 then tr.e_out - 1 else tr.e_out) fl := by
  intro Z0
  have hsh : i32w (-(i32w (i32w (241 + e) + tr.f))) = -(241 + e + tr.f) := by unfold i32w; omega
  obtain ⟨v0, wf0, z60, z70⟩ := prod_shift d hd tr.r hwf (-(241 + e + tr.f)) s1 s2
  unfold mainBlock
  simp only [hsh]
  generalize hz0 : srl384Short (mul128x256to384 ⟨0, d * 2 ^ 11⟩ tr.r) (-(241 + e + tr.f)) = z0 at *
  have hv0 : z0.val = Z0 := v0
  obtain ⟨k0, f0⟩ := words_of_val z0 wf0 z60 z70
  rw [hv0] at k0 f0
  have hlt : lt128 z0.w5 z0.w4 54210108624275 4089650035136921600 = decide (Z0 / 2 ^ 256 < 10 ^ 33) := by
    rw [lt128_iff wf0.2.2.2.2.1 (by decide), k0, p33_words]
  rw [hlt]
  have hi : i32w (tr.e_out - 1) = tr.e_out - 1 := by unfold i32w; omega
  rw [hi]
  by_cases hl : Z0 / 2 ^ 256 < 10 ^ 33
  · obtain ⟨v1, wf1, z61, z71⟩ := mul10x384_spec wf0 z60 z70
    refine ⟨mul10x384 z0, wf1, z61, z71, ?_, ?_⟩
    · rw [if_pos hl, v1, hv0]
      apply Nat.mod_eq_of_lt
      have : Z0 < 10 ^ 33 * 2 ^ 256 := by
        have := Nat.div_add_mod Z0 (2 ^ 256)
        have := Nat.mod_lt Z0 (by decide : 0 < 2 ^ 256)
        omega
      omega
    · simp only [decide_eq_true hl, if_true, if_pos hl]
  · refine ⟨z0, wf0, z60, z70, ?_, ?_⟩
    · rw [if_neg hl, hv0]
    · simp only [decide_eq_false hl, Bool.false_eq_true, if_false, if_neg hl]

/-! ### 10. The main block: the numbers -/

/-- what `expOk` says -/
theorem expOk_facts (e : ℤ) (h : expOk e = true) :
    ∃ tr, tableR e = some tr ∧ tr.r.wf ∧ 1 ≤ -(241 + e + tr.f) ∧ -(241 + e + tr.f) ≤ 63 ∧ 2 ≤ tr.e_out ∧
      tr.e_out < 12287 ∧ approxOk (6176 - tr.e_out) tr.f tr.r.val = true ∧
      pw 2 (e + 113) * pwn 10 (tr.e_out - 6176 + 34) ≤ pw 10 (tr.e_out - 6176 + 34) * pwn 2 (e + 113) ∧
      pw 10 (tr.e_out - 6176 + 32) * pwn 2 (e + 112) ≤ pw 2 (e + 112) * pwn 10 (tr.e_out - 6176 + 32) ∧
      hardOk e (tr.e_out - 6176) = true ∧ hardOk e (tr.e_out - 6176 - 1) = true := by
  unfold expOk at h
  cases hT : tableR e with
  | none => rw [hT] at h; cases h
  | some tr =>
    rw [hT] at h
    simp only [Bool.and_eq_true, decide_eq_true_eq] at h
    obtain ⟨⟨⟨⟨⟨⟨⟨⟨⟨⟨⟨⟨w0, w1⟩, w2⟩, w3⟩, s1⟩, s2⟩, e1⟩, e2⟩, ap⟩, r1⟩, r2⟩, k1⟩, k2⟩ := h
    exact ⟨tr, rfl, ⟨w0, w1, w2, w3⟩, s1, s2, e1, e2, ap, r1, r2, k1, k2⟩

/-- a comparison of powers checked on numerators and denominators -/
theorem pw_le {b c : ℕ} (hb : 0 < b) (hc : 0 < c) {X Y : ℤ} (h : pw b X * pwn c Y ≤ pw c Y * pwn b X) :
    (b : ℚ) ^ X ≤ (c : ℚ) ^ Y := by
  rw [← pw_div b hb X, ← pw_div c hc Y]
  have h1 : (0 : ℚ) < (pwn b X : ℕ) := by exact_mod_cast pwn_pos b hb X
  have h2 : (0 : ℚ) < (pwn c Y : ℕ) := by exact_mod_cast pwn_pos c hc Y
  rw [div_le_div_iff₀ h1 h2]
  exact_mod_cast h

/-- what `approxOk` says: `10^p ≤ r·2^f ≤ 10^p·(1 + 2^-250)` -/
theorem approx_facts {p f : ℤ} {r : ℕ} (h : approxOk p f r = true) :
    (10 : ℚ) ^ p ≤ (r : ℚ) * (2 : ℚ) ^ f ∧ (r : ℚ) * (2 : ℚ) ^ f ≤ (10 : ℚ) ^ p * (1 + 1 / 2 ^ 250) := by
  unfold approxOk at h
  simp only [Bool.and_eq_true, decide_eq_true_eq] at h
  obtain ⟨h1, h2⟩ := h
  have e10 := pw_div 10 (by decide) p
  have e2 := pw_div 2 (by decide) f
  have a1 : (0 : ℚ) < (pw 10 p : ℕ) := by exact_mod_cast pw_pos 10 (by decide) p
  have a2 : (0 : ℚ) < (pwn 10 p : ℕ) := by exact_mod_cast pwn_pos 10 (by decide) p
  have a3 : (0 : ℚ) < (pw 2 f : ℕ) := by exact_mod_cast pw_pos 2 (by decide) f
  have a4 : (0 : ℚ) < (pwn 2 f : ℕ) := by exact_mod_cast pwn_pos 2 (by decide) f
  push_cast at e10 e2
  rw [← e10, ← e2]
  have h1q : ((pw 10 p : ℕ) : ℚ) * (pwn 2 f : ℕ) ≤ (r : ℚ) * ((pwn 10 p : ℕ) * (pw 2 f : ℕ)) := by exact_mod_cast h1
  have h2q : (((r * (pwn 10 p * pw 2 f) - pw 10 p * pwn 2 f : ℕ) : ℚ)) * 2 ^ 250 ≤ ((pw 10 p * pwn 2 f : ℕ) : ℚ) := by
    exact_mod_cast h2
  rw [Nat.cast_sub h1] at h2q
  push_cast at h2q
  generalize ((pw 10 p : ℕ) : ℚ) = A10 at *
  generalize ((pwn 10 p : ℕ) : ℚ) = B10 at *
  generalize ((pw 2 f : ℕ) : ℚ) = A2 at *
  generalize ((pwn 2 f : ℕ) : ℚ) = B2 at *
  have hBB : (0 : ℚ) < B10 * B2 := mul_pos a2 a4
  constructor
  · have key : (r : ℚ) * (A2 / B2) - A10 / B10 = ((r : ℚ) * (B10 * A2) - A10 * B2) / (B10 * B2) := by
      field_simp
    have : (0 : ℚ) ≤ ((r : ℚ) * (B10 * A2) - A10 * B2) / (B10 * B2) := div_nonneg (by linarith) hBB.le
    linarith
  · have key : A10 / B10 * (1 + 1 / 2 ^ 250) - (r : ℚ) * (A2 / B2)
        = (A10 * B2 - ((r : ℚ) * (B10 * A2) - A10 * B2) * 2 ^ 250) / (B10 * B2 * 2 ^ 250) := by
      field_simp; ring
    have : (0 : ℚ) ≤ (A10 * B2 - ((r : ℚ) * (B10 * A2) - A10 * B2) * 2 ^ 250) / (B10 * B2 * 2 ^ 250) :=
      div_nonneg (by linarith) (by positivity)
    linarith

/-! ### 11. The main block is right -/

/-- the shifted product as a fixed-point number: `Z0 / 2^256` is `x / 10^q0` rounded up with relative error `≤ 2^-250` -/
theorem fixed_point_bounds (d : ℕ) (e f q0 : ℤ) (r sh : ℕ) (hsh : (sh : ℤ) = -(241 + e + f)) (h75 : sh ≤ 75)
    (h1 : (10 : ℚ) ^ (-q0) ≤ (r : ℚ) * (2 : ℚ) ^ f) (h2 : (r : ℚ) * (2 : ℚ) ^ f ≤ (10 : ℚ) ^ (-q0) * (1 + 1 / 2 ^ 250)) :
    binVal d (e + 60) / (10 : ℚ) ^ q0 * 2 ^ 256 ≤ ((d * 2 ^ (75 - sh) * r : ℕ) : ℚ) ∧
    ((d * 2 ^ (75 - sh) * r : ℕ) : ℚ) ≤ binVal d (e + 60) / (10 : ℚ) ^ q0 * 2 ^ 256 * (1 + 1 / 2 ^ 250) := by
  have e1 : ((2 : ℚ) ^ (75 - sh : ℕ)) = (2 : ℚ) ^ (316 + e) * (2 : ℚ) ^ f := by
    rw [← zpow_natCast, ← zpow_add₀ two_ne]; congr 1; omega
  have e2 : binVal d (e + 60) / (10 : ℚ) ^ q0 * 2 ^ 256 = (d : ℚ) * (2 : ℚ) ^ (316 + e) * (10 : ℚ) ^ (-q0) := by
    unfold binVal
    have : (2 : ℚ) ^ (316 + e) = (2 : ℚ) ^ (e + 60) * (2 : ℚ) ^ (256 : ℕ) := by
      rw [← zpow_natCast, ← zpow_add₀ two_ne]; congr 1; push_cast; ring
    rw [this, zpow_neg]; field_simp
  have e3 : ((d * 2 ^ (75 - sh) * r : ℕ) : ℚ) = (d : ℚ) * (2 : ℚ) ^ (316 + e) * ((r : ℚ) * (2 : ℚ) ^ f) := by
    push_cast; rw [e1]; ring
  have hG : (0 : ℚ) ≤ (d : ℚ) * (2 : ℚ) ^ (316 + e) :=
    mul_nonneg (Nat.cast_nonneg d) (zpow_pos (by norm_num) _).le
  rw [e2, e3]
  constructor
  · exact mul_le_mul_of_nonneg_left h1 hG
  · rw [mul_assoc ((d : ℚ) * (2 : ℚ) ^ (316 + e))]
    exact mul_le_mul_of_nonneg_left h2 hG

/-- **The main block is right.**  For an exponent that passed the kernel's check and a value that the exact block let
through, the table path returns the encoding of what `binToDecD` prescribes, and raises exactly its flags. -/
theorem mainBlock_spec (mode : Mode) (neg : Bool) (d : ℕ) (hd1 : 2 ^ 52 ≤ d) (hd2 : d < 2 ^ 53) (e : ℤ)
    (he1 : -1186 ≤ e) (he2 : e ≤ 911) (tr : TabR) (fl : Flags) (hwf : tr.r.wf)
    (s1 : 1 ≤ -(241 + e + tr.f)) (s2 : -(241 + e + tr.f) ≤ 63) (e1 : 2 ≤ tr.e_out) (e2 : tr.e_out < 12287)
    (ap : approxOk (6176 - tr.e_out) tr.f tr.r.val = true)
    (r1 : pw 2 (e + 113) * pwn 10 (tr.e_out - 6176 + 34) ≤ pw 10 (tr.e_out - 6176 + 34) * pwn 2 (e + 113))
    (r2 : pw 10 (tr.e_out - 6176 + 32) * pwn 2 (e + 112) ≤ pw 2 (e + 112) * pwn 10 (tr.e_out - 6176 + 32))
    (k1 : hardOk e (tr.e_out - 6176) = true) (k2 : hardOk e (tr.e_out - 6176 - 1) = true)
    (hFT : ∀ K n : ℕ, K < 10 ^ 34 → (K : ℚ) ≠ binVal d (e + 60) * (10 : ℚ) ^ n) :
    ∃ R, mainBlock mode (if neg then 1 else 0) e ⟨0, d * 2 ^ 11⟩ tr fl =
        some (R, fl ||| (binToDecD mode neg d (e + 60)).2) ∧
      bitsOf R = encode (binToDecD mode neg d (e + 60)).1 := by
  have hd0 : d ≠ 0 := by omega
  obtain ⟨q0, hq0⟩ : ∃ q0 : ℤ, q0 = tr.e_out - 6176 := ⟨_, rfl⟩
  obtain ⟨sh, hsh⟩ : ∃ sh : ℕ, (sh : ℤ) = -(241 + e + tr.f) := ⟨(-(241 + e + tr.f)).toNat, by omega⟩
  have hshn : (-(241 + e + tr.f)).toNat = sh := by omega
  have hx0 : (0 : ℚ) < binVal d (e + 60) := binVal_pos hd0 _
  -- the table multiplier and the product
  have hp : (6176 : ℤ) - tr.e_out = -q0 := by omega
  rw [hp] at ap
  obtain ⟨a1, a2⟩ := approx_facts ap
  obtain ⟨b1, b2⟩ := fixed_point_bounds d e tr.f q0 tr.r.val sh hsh (by omega) a1 a2
  -- the range of the scaled value
  rw [← hq0] at r1 r2 k1 k2
  have R1 := pw_le (b := 2) (c := 10) (by decide) (by decide) r1
  have R2 := pw_le (b := 10) (c := 2) (by decide) (by decide) r2
  push_cast at R1 R2
  have hp10 : (0 : ℚ) < (10 : ℚ) ^ q0 := zpow_pos (by norm_num) _
  have hY0lt : binVal d (e + 60) / (10 : ℚ) ^ q0 < (10 : ℚ) ^ (34 : ℕ) := by
    rw [div_lt_iff₀ hp10]
    have h1 : binVal d (e + 60) < (2 : ℚ) ^ (e + 113) := by
      unfold binVal
      have : (2 : ℚ) ^ (e + 113) = (2 : ℚ) ^ (53 : ℕ) * (2 : ℚ) ^ (e + 60) := by
        rw [← zpow_natCast, ← zpow_add₀ two_ne]; congr 1; push_cast; ring
      rw [this]
      have hd2q : (d : ℚ) < (2 : ℚ) ^ (53 : ℕ) := by exact_mod_cast hd2
      exact mul_lt_mul_of_pos_right hd2q (zpow_pos (by norm_num) _)
    have h2 : (10 : ℚ) ^ (q0 + 34) = (10 : ℚ) ^ (34 : ℕ) * (10 : ℚ) ^ q0 := by
      rw [← zpow_natCast, ← zpow_add₀ (by norm_num : (10 : ℚ) ≠ 0)]; congr 1; push_cast; ring
    linarith
  have hY0ge : (10 : ℚ) ^ (32 : ℕ) ≤ binVal d (e + 60) / (10 : ℚ) ^ q0 := by
    rw [le_div_iff₀ hp10]
    have h1 : (2 : ℚ) ^ (e + 112) ≤ binVal d (e + 60) := by
      unfold binVal
      have : (2 : ℚ) ^ (e + 112) = (2 : ℚ) ^ (52 : ℕ) * (2 : ℚ) ^ (e + 60) := by
        rw [← zpow_natCast, ← zpow_add₀ two_ne]; congr 1; push_cast; ring
      rw [this]
      have hd1q : (2 : ℚ) ^ (52 : ℕ) ≤ (d : ℚ) := by exact_mod_cast hd1
      exact mul_le_mul_of_nonneg_right hd1q (zpow_pos (by norm_num) _).le
    have h2 : (10 : ℚ) ^ (q0 + 32) = (10 : ℚ) ^ (32 : ℕ) * (10 : ℚ) ^ q0 := by
      rw [← zpow_natCast, ← zpow_add₀ (by norm_num : (10 : ℚ) ≠ 0)]; congr 1; push_cast; ring
    linarith
  -- what the code computes
  obtain ⟨z, zwf, z6, z7, zval, hmain⟩ := mainBlock_eq mode neg d hd2 e he1 he2 tr fl hwf s1 s2 e1 e2
  rw [hshn] at zval hmain
  generalize hZ0 : d * 2 ^ (75 - sh) * tr.r.val = Z0 at *
  -- the final scaled value `Y`, its exponent `q` and the fixed-point number `Z`
  obtain ⟨q, Y, hq, hYdef, hlow, hup', hY33', hY34, heo, hk⟩ : ∃ (q : ℤ) (Y : ℚ),
      (q = q0 ∨ q = q0 - 1) ∧ Y = binVal d (e + 60) / (10 : ℚ) ^ q ∧ Y * 2 ^ 256 ≤ (z.val : ℚ) ∧
      (z.val : ℚ) ≤ Y * 2 ^ 256 * (1 + 1 / 2 ^ 250) ∧
      ((10 : ℚ) ^ (33 : ℕ) ≤ Y ∨ (10 : ℚ) ^ (33 : ℕ) ≤ ((z.val / 2 ^ 256 : ℕ) : ℚ)) ∧ Y < (10 : ℚ) ^ (34 : ℕ) ∧
      (if Z0 / 2 ^ 256 < 10 ^ 33 then tr.e_out - 1 else tr.e_out) = q + 6176 ∧ hardOk e q = true := by
    by_cases hl : Z0 / 2 ^ 256 < 10 ^ 33
    · rw [if_pos hl] at zval
      have hten : binVal d (e + 60) / (10 : ℚ) ^ (q0 - 1) = 10 * (binVal d (e + 60) / (10 : ℚ) ^ q0) := by
        rw [zpow_sub₀ (by norm_num : (10 : ℚ) ≠ 0), zpow_one]; field_simp
      have hZ0lt : (Z0 : ℚ) < (10 : ℚ) ^ (33 : ℕ) * 2 ^ 256 := by
        have : Z0 < 10 ^ 33 * 2 ^ 256 := by
          have := Nat.div_add_mod Z0 (2 ^ 256)
          have := Nat.mod_lt Z0 (by decide : 0 < 2 ^ 256)
          omega
        exact_mod_cast this
      refine ⟨q0 - 1, _, Or.inr rfl, rfl, ?_, ?_, Or.inl ?_, ?_, ?_, k2⟩
      · rw [hten, zval]; push_cast; linarith
      · rw [hten, zval]; push_cast; nlinarith
      · rw [hten]; linarith
      · rw [hten]
        have : binVal d (e + 60) / (10 : ℚ) ^ q0 < (10 : ℚ) ^ (33 : ℕ) := by
          by_contra h; rw [not_lt] at h
          have : (10 : ℚ) ^ (33 : ℕ) * 2 ^ 256 ≤ binVal d (e + 60) / (10 : ℚ) ^ q0 * 2 ^ 256 :=
            mul_le_mul_of_nonneg_right h (by positivity)
          linarith
        linarith
      · rw [if_pos hl]; omega
    · rw [if_neg hl] at zval
      refine ⟨q0, _, Or.inl rfl, rfl, ?_, ?_, Or.inr ?_, hY0lt, ?_, k1⟩
      · rw [zval]; exact b1
      · rw [zval]; exact b2
      · rw [zval]
        have : 10 ^ 33 ≤ Z0 / 2 ^ 256 := Nat.le_of_not_lt hl
        exact_mod_cast this
      · rw [if_neg hl]; omega
  rw [heo] at hmain
  have hY0' : (0 : ℚ) ≤ Y := by rw [hYdef]; exact div_nonneg hx0.le (zpow_pos (by norm_num) _).le
  have hup : (z.val : ℚ) ≤ Y * 2 ^ 256 + 2 ^ 120 := by
    have h64 : (2 : ℚ) ^ 256 * (1 / 2 ^ 250) = 64 := by
      rw [mul_one_div, div_eq_iff (by positivity)]; norm_num
    have h120 : (10 : ℚ) ^ (34 : ℕ) * 64 ≤ (2 : ℚ) ^ 120 := by norm_num
    have h1 : Y * 2 ^ 256 * (1 / 2 ^ 250) = Y * 64 := by rw [mul_assoc, h64]
    have h2 : Y * 64 ≤ (10 : ℚ) ^ (34 : ℕ) * 64 := mul_le_mul_of_nonneg_right hY34.le (by norm_num)
    have h3 : Y * 2 ^ 256 * (1 + 1 / 2 ^ 250) = Y * 2 ^ 256 + Y * 2 ^ 256 * (1 / 2 ^ 250) := by ring
    rw [h3, h1] at hup'
    linarith
  have hard : ∀ m : ℤ, 2 * Y = m ∨ (2 : ℚ) ^ (-126 : ℤ) ≤ |2 * Y - m| := by
    intro m
    have := hard_of_ok e q hk d (by omega) hd2 m
    have e2 : (d : ℚ) * (2 : ℚ) ^ (e + 61) / (10 : ℚ) ^ q = 2 * Y := by
      rw [hYdef]; unfold binVal
      rw [show e + 61 = e + 60 + 1 by ring, zpow_add_one₀ two_ne]; ring
    rw [e2] at this; exact this
  obtain ⟨c1, c2, c3, c4, c5⟩ := round_core Y z.val hlow hup hard
  generalize hKdef : z.val / 2 ^ 256 = K at *
  generalize hFdef : z.val % 2 ^ 256 / 2 ^ 128 = F at *
  have hF128 : F < 2 ^ 128 := by
    rw [← hFdef]
    exact Nat.div_lt_of_lt_mul (Nat.mod_lt _ (by decide))
  have hK34 : K < 10 ^ 34 := by
    have : (K : ℚ) < (10 : ℚ) ^ (34 : ℕ) := lt_of_le_of_lt c1 hY34
    exact_mod_cast this
  have hY33 : (10 : ℚ) ^ (33 : ℕ) ≤ Y := by
    rcases hY33' with h | h
    · exact h
    · exact le_trans h c1
  have hK33 : 10 ^ 33 ≤ K := by
    have : (10 : ℚ) ^ (33 : ℕ) < (K : ℚ) + 1 := lt_of_le_of_lt hY33 c2
    have : 10 ^ 33 < K + 1 := by exact_mod_cast this
    omega
  have hrp := roundPack_eq mode neg z zwf z6 z7 (q + 6176) (by omega) (by omega) fl (by rw [hKdef]; exact hK34)
  simp only [hKdef, hFdef] at hrp
  rw [hrp] at hmain
  clear hrp
  have hround := rounded_of_core mode neg Y K F hF128 c1 c2 c3 c4 c5
  obtain ⟨m, hm⟩ : ∃ m, m = (if rbVal mode neg (K % 2 == 1) < F then K + 1 else K) := ⟨_, rfl⟩
  rw [← hm] at hmain hround
  have hmle : m ≤ K + 1 := by rw [hm]; split <;> omega
  have hxval : binVal d (e + 60) = Y * (10 : ℚ) ^ q := by
    rw [hYdef]; field_simp
  have hqr : eMin ≤ q ∧ q + 1 ≤ eMax := by unfold eMin eMax; omega
  by_cases hF0 : F = 0
  · -- exact
    have hYK : Y = K := c3.1 hF0
    have hmK : m = K := by
      rw [hm, hF0, if_neg (Nat.not_lt_zero _)]
    have hq1 : 1 ≤ q := by
      by_contra hq1
      obtain ⟨n, hn⟩ : ∃ n : ℕ, -q = n := ⟨(-q).toNat, by omega⟩
      apply hFT K n hK34
      rw [hxval, hYK, mul_assoc, ← zpow_natCast, ← zpow_add₀ (by norm_num : (10 : ℚ) ≠ 0), ← hn]
      simp
    have hspec : binToDecD mode neg d (e + 60) = (.fin neg K q, 0) := by
      apply binToDecD_of_spec hd0
      rw [hxval, hYK]
      exact spec_exact_main mode neg (by rw [P33_eq]; exact hK33) (by rw [P34_eq]; exact hK34) hq1 (by omega)
    rw [hspec]
    rw [hmK, if_neg (show ¬ K = 10 ^ 34 by omega), if_neg (show ¬ K = 10 ^ 34 by omega),
      if_neg (show ¬ F ≠ 0 from fun h => h hF0)] at hmain
    refine ⟨_, by rw [show fl ||| (Datum.fin neg K q, (0 : Flags)).2 = fl from Nat.or_zero fl]; exact hmain, ?_⟩
    have := returnBid128_fin neg (q + 6176) K (by omega) (by omega) (Nat.lt_trans hK34 ten34_lt)
    rw [show q + 6176 - 6176 = q by ring] at this
    exact this
  · -- inexact
    have hYK : Y ≠ K := fun h => hF0 (c3.2 h)
    have hY33z : (10 : ℚ) ^ (33 : ℤ) ≤ Y := by exact_mod_cast hY33
    have hY34z : Y < (10 : ℚ) ^ (34 : ℤ) := by exact_mod_cast hY34
    have hs := spec_inexact mode neg hY33z hY34z c1 c2 hYK hround hqr.1 hqr.2
    rw [← hxval] at hs
    have hspec := binToDecD_of_spec hd0 hs
    rw [if_pos hF0] at hmain
    have e34 : (m = 10 ^ 34) ↔ (m = P34) := by rw [P34_eq]
    by_cases hc : m = 10 ^ 34
    · rw [if_pos (e34.1 hc)] at hspec
      rw [hspec]
      rw [if_pos hc, if_pos hc] at hmain
      refine ⟨_, hmain, ?_⟩
      have := returnBid128_fin neg (q + 6176 + 1) (10 ^ 33) (by omega) (by omega) (by decide)
      rw [show q + 6176 + 1 - 6176 = q + 1 by ring] at this
      rw [show (P33 : ℕ) = 10 ^ 33 from P33_eq]
      exact this
    · rw [if_neg (fun h => hc (e34.2 h))] at hspec
      rw [hspec]
      rw [if_neg hc, if_neg hc] at hmain
      refine ⟨_, hmain, ?_⟩
      have := returnBid128_fin neg (q + 6176) m (by omega) (by omega) (by have := ten34_lt; omega)
      rw [show q + 6176 - 6176 = q by ring] at this
      exact this

/-! ### 12. The conversion proper, and the two routines -/

/-- **Lines 1063–1193 are right**: for a 53-bit coefficient `d` (binary32: its 24 bits times `2^29`), a quad exponent in the
range of the two formats and an exact trailing-zero count (or a value far too small for the exact block), `convTail`
returns the encoding of what `binToDecD` prescribes for `d·2^(e+60)` and adds exactly its flags. -/
theorem convTail_spec (mode : Mode) (neg : Bool) (d : ℕ) (hd1 : 2 ^ 52 ≤ d) (hd2 : d < 2 ^ 53) (e t : ℤ)
    (he1 : -1186 ≤ e) (he2 : e ≤ 911) (ht1 : 60 ≤ t) (ht2 : t ≤ 112)
    (htz : (2 ^ (t - 60).toNat ∣ d ∧ ¬ 2 ^ ((t - 60).toNat + 1) ∣ d) ∨ e < -160) (fl : Flags) :
    ∃ R, convTail mode (if neg then 1 else 0) e ⟨0, d * 2 ^ 11⟩ t fl =
        some (R, fl ||| (binToDecD mode neg d (e + 60)).2) ∧
      bitsOf R = encode (binToDecD mode neg d (e + 60)).1 := by
  unfold convTail
  rcases exactBlock_spec mode neg e t d hd1 hd2 he1 he2 ht1 ht2 htz with ⟨R, hR, hb, hf⟩ | ⟨hR, hFT⟩
  · rw [hR, hf]
    exact ⟨R, by simp, hb⟩
  · rw [hR]
    obtain ⟨tr, htr, hwf, s1, s2, e1, e2, ap, r1, r2, k1, k2⟩ := expOk_facts e (expOk_all e he1 he2)
    rw [htr]
    exact mainBlock_spec mode neg d hd1 hd2 e he1 he2 tr fl hwf s1 s2 e1 e2 ap r1 r2 k1 k2 hFT

theorem sign_cast (x : ℕ) (hx : x < 2) : ((x : ℕ) : ℤ) = if (x % 2 == 1) then 1 else 0 := by
  have : x = 0 ∨ x = 1 := by omega
  rcases this with rfl | rfl <;> rfl

/-- the pattern of an infinity -/
theorem returnBid128Inf_bits (neg : Bool) : bitsOf (returnBid128Inf (if neg then 1 else 0)) = encode (.inf neg) := by
  cases neg <;> decide

/-- packing a quiet NaN with a payload below `2^110` -/
theorem nan_pack (neg : Bool) (hi lo p : ℕ) (h : lo + W * hi = p) (hlo : lo < W) (hp : p < 2 ^ 110) :
    bitsOf (returnBid128 (if neg then 1 else 0) (0x1F * 2 ^ 9) hi lo) = encode (.nan neg false p) := by
  have h1 : shl64 (i32AsU64 (0x1F * 2 ^ 9)) 49 = 8935141660703064064 := by decide
  have hs : shl64 (i32AsU64 (if neg then 1 else 0)) 63 = if neg then 9223372036854775808 else 0 := by
    cases neg <;> decide
  unfold returnBid128 bitsOf encode signBit
  rw [h1, hs]
  simp only [add64, Bool.false_eq_true, if_false, Nat.reducePow, Nat.reduceMul]
  cases neg
  · simp only [Bool.false_eq_true, if_false]; omega
  · simp only [if_true]; omega

/-- `return_bid128_nan(s, c_hi, 0)`: a quiet NaN with the sign `s` whose payload is `c_hi·2^46` if that is below `10^33`,
otherwise zero -/
theorem returnBid128Nan_bits (neg : Bool) (c_hi : ℕ) (hc : c_hi < W) :
    bitsOf (returnBid128Nan (if neg then 1 else 0) c_hi 0) =
      encode (.nan neg false (if c_hi * 2 ^ 46 < P33 then c_hi * 2 ^ 46 else 0)) := by
  unfold returnBid128Nan
  have hlo : add64 (shr64 0 18) (shl64 c_hi 46) = c_hi % 2 ^ 18 * 2 ^ 46 := by
    simp only [add64, shr64, shl64, Nat.reduceMod, Nat.reducePow, Nat.zero_div, Nat.zero_add]; omega
  have hhi : shr64 c_hi 18 = c_hi / 2 ^ 18 := by simp only [shr64, Nat.reduceMod]
  have hlolt : c_hi % 2 ^ 18 * 2 ^ 46 < W := by omega
  rw [hlo, hhi, lt128_iff (by decide) hlolt]
  have hval : c_hi % 2 ^ 18 * 2 ^ 46 + W * (c_hi / 2 ^ 18) = c_hi * 2 ^ 46 := by omega
  have h33 : 4089650035136921599 + W * 54210108624275 = 999999999999999999999999999999999 := by decide
  have hP : P33 = 1000000000000000000000000000000000 := rfl
  rw [hval, h33, hP]
  clear h33 hP hlo hhi
  by_cases hp : c_hi * 2 ^ 46 < 1000000000000000000000000000000000
  · have h1 : ¬ 999999999999999999999999999999999 < c_hi * 2 ^ 46 := by omega
    rw [decide_eq_false h1, if_pos hp, if_neg (by decide)]
    exact nan_pack neg _ _ _ hval hlolt (Nat.lt_trans hp (by decide))
  · have h1 : 999999999999999999999999999999999 < c_hi * 2 ^ 46 := by omega
    rw [decide_eq_true h1, if_neg hp, if_pos rfl]
    exact nan_pack neg 0 0 0 (by decide) (by decide) (by decide)

/-- the payload of the NaN the code returns for a binary64 NaN: the fraction without its quiet bit, at the top of the
110-bit payload field, if that is a canonical payload; otherwise zero -/
def nanPayload64 (bits : ℕ) : ℕ := if bits % 2 ^ 51 * 2 ^ 59 < P33 then bits % 2 ^ 51 * 2 ^ 59 else 0
/-- the same for binary32 -/
def nanPayload32 (bits : ℕ) : ℕ := if bits % 2 ^ 22 * 2 ^ 88 < P33 then bits % 2 ^ 22 * 2 ^ 88 else 0

theorem or_zero' (a : Flags) : a ||| 0 = a := Nat.or_zero a
theorem zero_or' (a : Flags) : 0 ||| a = a := Nat.zero_or a

/-- what the specification prescribes for a bit pattern: the judge's expectation for `convert_from_f64 / _f32`
(`DecModel/Ops.lean`, `binConv`), with the NaN case made exact (the judge only demands a canonical quiet NaN with the
sign of the operand there; `payload` is the payload the code delivers) -/
def binSpec (mode : Mode) (payload : ℕ) : BinDatum → ℕ × Flags
  | .fin s m E sub => (encode (binToDecD mode s m E).1, (binToDecD mode s m E).2 ||| (if sub && m != 0 then fDenormal else 0))
  | .inf s => (encode (.inf s), 0)
  | .nan s sig => (encode (.nan s false payload), if sig then fInvalid else 0)

theorem shl_11 (d : ℕ) (hd : d < 2 ^ 53) : shl64 d 11 = d * 2 ^ 11 := by
  unfold shl64; simp only [Nat.reduceMod, Nat.reducePow]; omega

theorem bin64_zero (mode : Mode) (bits : ℕ) (h : bits < 2 ^ 64) (neg : Bool)
    (hneg : ((bits / 2 ^ 63 : ℕ) : ℤ) = if neg then 1 else 0)
    (hex : bits / 2 ^ 52 % 2 ^ 11 = 0) (hfr : bits % 2 ^ 52 = 0) :
    bin64Code mode bits = some (encode (.fin neg 0 0), 0) := by
  unfold bin64Code binary64ToBid128
  rw [unpack64_zero bits h hex hfr, hneg]
  have hz := returnBid128_fin neg 6176 0 (by decide) (by decide) (by decide)
  have : returnBid128Zero (if neg then 1 else 0) = returnBid128 (if neg then 1 else 0) 6176 (0 / W) (0 % W) := rfl
  simp only [afterUnpack, Option.map_some]
  rw [this, hz]
  rfl

theorem bin64_inf (mode : Mode) (bits : ℕ) (h : bits < 2 ^ 64) (neg : Bool)
    (hneg : ((bits / 2 ^ 63 : ℕ) : ℤ) = if neg then 1 else 0)
    (hex : bits / 2 ^ 52 % 2 ^ 11 = 2047) (hfr : bits % 2 ^ 52 = 0) :
    bin64Code mode bits = some (encode (.inf neg), 0) := by
  unfold bin64Code binary64ToBid128
  rw [unpack64_inf bits h hex hfr, hneg]
  simp only [afterUnpack, Option.map_some, returnBid128Inf_bits]

theorem bin64_nan (mode : Mode) (bits : ℕ) (h : bits < 2 ^ 64) (neg : Bool)
    (hneg : ((bits / 2 ^ 63 : ℕ) : ℤ) = if neg then 1 else 0)
    (hex : bits / 2 ^ 52 % 2 ^ 11 = 2047) (hfr : bits % 2 ^ 52 ≠ 0) :
    bin64Code mode bits = some (encode (.nan neg false (nanPayload64 bits)),
      if bits / 2 ^ 51 % 2 = 0 then fInvalid else 0) := by
  unfold bin64Code binary64ToBid128
  rw [unpack64_nan bits h hex hfr, hneg]
  have hpay := returnBid128Nan_bits neg (bits % 2 ^ 51 * 2 ^ 13) (by omega)
  have e59 : bits % 2 ^ 51 * 2 ^ 13 * 2 ^ 46 = bits % 2 ^ 51 * 2 ^ 59 := by omega
  rw [e59] at hpay
  simp only [afterUnpack, Option.map_some, hpay, nanPayload64]

/-- a subnormal input -/
theorem bin64_sub (mode : Mode) (bits : ℕ) (h : bits < 2 ^ 64) (neg : Bool)
    (hneg : ((bits / 2 ^ 63 : ℕ) : ℤ) = if neg then 1 else 0)
    (hex : bits / 2 ^ 52 % 2 ^ 11 = 0) (hfr : bits % 2 ^ 52 ≠ 0) :
    bin64Code mode bits = some (encode (binToDecD mode neg (bits % 2 ^ 52) (-1074)).1,
      (binToDecD mode neg (bits % 2 ^ 52) (-1074)).2 ||| fDenormal) := by
  obtain ⟨l, hl1, hl2, hc1, hc2, hun⟩ := unpack64_sub bits h hex hfr
  unfold bin64Code binary64ToBid128
  rw [hun, hneg]
  have hl64 : l < 64 := Nat.lt_of_le_of_lt hl2 (by decide)
  have ht : i32w ((0 : ℤ) + (113 - 53)) = 60 := by decide
  have he : i32w (-((l : ℤ) + 1074) - (113 - 53)) = -((l : ℤ) + 1134) := by
    clear hc1 hc2 hun; unfold i32w; omega
  have hr1 : -1186 ≤ -((l : ℤ) + 1134) := by clear hc1 hc2 hun; omega
  have hr2 : -((l : ℤ) + 1134) < -160 := by clear hc1 hc2 hun; omega
  simp only [afterUnpack, shl_11 _ hc2, ht, he]
  obtain ⟨R, hR, hb⟩ := convTail_spec mode neg (bits % 2 ^ 52 * 2 ^ l) hc1 hc2 (-((l : ℤ) + 1134)) 60 hr1
    (le_trans (le_of_lt hr2) (by decide)) (by decide) (by decide) (Or.inr hr2) fDenormal
  have hcongr : binToDecD mode neg (bits % 2 ^ 52 * 2 ^ l) (-((l : ℤ) + 1134) + 60)
      = binToDecD mode neg (bits % 2 ^ 52) (-1074) := by
    apply binToDecD_congr mode neg (Nat.ne_of_gt (Nat.lt_of_lt_of_le (by decide) hc1)) hfr
    unfold binVal
    rw [show -((l : ℤ) + 1134) + 60 = -(l : ℤ) + -1074 by ring, zpow_add₀ two_ne, zpow_neg, zpow_natCast]
    generalize (2 : ℚ) ^ (-1074 : ℤ) = X
    push_cast
    have : ((2 : ℚ) ^ l) ≠ 0 := pow_ne_zero _ two_ne
    field_simp
  rw [hcongr] at hR hb
  rw [hR]
  simp only [Option.map_some, hb]
  rw [Nat.or_comm]

/-- a normal input -/
theorem bin64_normal (mode : Mode) (bits : ℕ) (h : bits < 2 ^ 64) (neg : Bool)
    (hneg : ((bits / 2 ^ 63 : ℕ) : ℤ) = if neg then 1 else 0)
    (h1 : 0 < bits / 2 ^ 52 % 2 ^ 11) (h2 : bits / 2 ^ 52 % 2 ^ 11 < 2047) :
    bin64Code mode bits = some
      (encode (binToDecD mode neg (bits % 2 ^ 52 + 2 ^ 52) (((bits / 2 ^ 52 % 2 ^ 11 : ℕ) : ℤ) - 1075)).1,
       (binToDecD mode neg (bits % 2 ^ 52 + 2 ^ 52) (((bits / 2 ^ 52 % 2 ^ 11 : ℕ) : ℤ) - 1075)).2) := by
  unfold bin64Code binary64ToBid128
  rw [unpack64_normal bits h h1 h2, hneg]
  have hfrlt : bits % 2 ^ 52 < 2 ^ 52 := Nat.mod_lt _ (by decide)
  generalize bits % 2 ^ 52 = fr at *
  generalize bits / 2 ^ 52 % 2 ^ 11 = ex at *
  obtain ⟨d, hd⟩ : ∃ d, d = fr + 2 ^ 52 := ⟨_, rfl⟩
  rw [← hd]
  have hd1 : 2 ^ 52 ≤ d := by omega
  have hd2 : d < 2 ^ 53 := by omega
  obtain ⟨hc1, hc2, hc3⟩ := ctz64_spec (n := d) (by omega) (by omega)
  generalize ctz64 d = tz at *
  have htz52 : tz ≤ 52 := by
    by_contra hgt
    have h53 : 2 ^ 53 ≤ 2 ^ tz := Nat.pow_le_pow_right (by decide) (by omega)
    have hle := Nat.le_of_dvd (by omega) hc2
    exact absurd (Nat.lt_of_lt_of_le hd2 (le_trans h53 hle)) (lt_irrefl _)
  have ht : i32w ((tz : ℤ) + (113 - 53)) = (tz : ℤ) + 60 := by clear hc2 hc3; unfold i32w; omega
  have he : i32w ((ex : ℤ) - 1075 - (113 - 53)) = (ex : ℤ) - 1135 := by clear hc2 hc3; unfold i32w; omega
  simp only [afterUnpack, shl_11 _ hd2, ht, he]
  have htn : ((tz : ℤ) + 60 - 60).toNat = tz := by clear hc2 hc3; omega
  have r1 : -1186 ≤ (ex : ℤ) - 1135 := by clear hc2 hc3; omega
  have r2 : (ex : ℤ) - 1135 ≤ 911 := by clear hc2 hc3; omega
  have r3 : (60 : ℤ) ≤ (tz : ℤ) + 60 := by clear hc2 hc3; omega
  have r4 : (tz : ℤ) + 60 ≤ 112 := by clear hc2 hc3; omega
  obtain ⟨R, hR, hb⟩ := convTail_spec mode neg d hd1 hd2 ((ex : ℤ) - 1135) ((tz : ℤ) + 60) r1 r2 r3 r4
    (Or.inl (by rw [htn]; exact ⟨hc2, hc3⟩)) 0
  have e60 : (ex : ℤ) - 1135 + 60 = (ex : ℤ) - 1075 := by ring
  rw [e60] at hR hb
  rw [hR]
  simp only [Option.map_some, hb, Nat.zero_or]

/-- **C07, code level, binary64.**  For every 64-bit pattern and every rounding mode, the code-shaped model of
`binary64_to_bid128` returns normally, and returns the encoding and the flags the specification prescribes:
* finite: the encoding of `binToDecD mode` of the decoded value (exact with the exponent closest to zero when 34 digits
  suffice, otherwise correctly rounded once) with its flags (inexact), plus the denormal flag for a subnormal input;
* infinity: the infinity of the same sign, no flag;
* NaN: a canonical quiet NaN of the same sign carrying the fraction (without the quiet bit) as payload when that is a
  canonical payload, else payload 0; invalid iff the input is signalling. -/
theorem bin64Code_spec (mode : Mode) (bits : ℕ) (h : bits < 2 ^ 64) :
    bin64Code mode bits = some (binSpec mode (nanPayload64 bits) (decodeBin 11 52 bits)) := by
  have hsgn : bits / 2 ^ 63 < 2 := by omega
  have hneg : ((bits / 2 ^ 63 : ℕ) : ℤ) = if (bits / 2 ^ (11 + 52) % 2 == 1) then 1 else 0 := by
    have : bits / 2 ^ (11 + 52) = bits / 2 ^ 63 := rfl
    rw [this, ← sign_cast _ hsgn]
  by_cases hex0 : bits / 2 ^ 52 % 2 ^ 11 = 0
  · have hdec := decodeBin_subnormal 11 52 bits (by decide) hex0
    have hE : (1 : ℤ) - binBias 11 - (52 : ℕ) = -1074 := by decide
    rw [hE] at hdec
    rw [hdec]
    by_cases hfr : bits % 2 ^ 52 = 0
    · rw [bin64_zero mode bits h _ hneg hex0 hfr, hfr]
      simp [binSpec, binToDecD]
    · rw [bin64_sub mode bits h _ hneg hex0 hfr]
      have : (true && bits % 2 ^ 52 != 0) = true := by simpa using hfr
      simp only [binSpec, this, if_true]
  · by_cases hex1 : bits / 2 ^ 52 % 2 ^ 11 = 2047
    · have hexm : bits / 2 ^ 52 % 2 ^ 11 = 2 ^ 11 - 1 := hex1
      by_cases hfr : bits % 2 ^ 52 = 0
      · have hdec : decodeBin 11 52 bits = .inf (bits / 2 ^ (11 + 52) % 2 == 1) := by
          simp only [decodeBin, if_pos hexm, if_pos hfr]
        rw [hdec, bin64_inf mode bits h _ hneg hex1 hfr]
        rfl
      · have hdec : decodeBin 11 52 bits =
            .nan (bits / 2 ^ (11 + 52) % 2 == 1) ((bits % 2 ^ 52 / 2 ^ (52 - 1)) % 2 == 0) := by
          simp only [decodeBin, if_pos hexm, if_neg hfr]
        rw [hdec, bin64_nan mode bits h _ hneg hex1 hfr]
        have hq : bits % 2 ^ 52 / 2 ^ (52 - 1) % 2 = bits / 2 ^ 51 % 2 := by omega
        simp only [binSpec, hq]
        simp
    · have h1 : 0 < bits / 2 ^ 52 % 2 ^ 11 := by omega
      have h2 : bits / 2 ^ 52 % 2 ^ 11 < 2047 := by omega
      have hdec := decodeBin_normal 11 52 bits h1 (by omega)
      have hE : (((bits / 2 ^ 52 % 2 ^ 11 : ℕ) : ℤ)) - binBias 11 - (52 : ℕ) = ((bits / 2 ^ 52 % 2 ^ 11 : ℕ) : ℤ) - 1075 := by
        have : binBias 11 = 1023 := by decide
        rw [this]; push_cast; ring
      rw [hE] at hdec
      rw [hdec, bin64_normal mode bits h _ hneg h1 h2]
      simp [binSpec]

/-! binary32 -/

theorem shl_40 (c : ℕ) (hc : c < 2 ^ 24) : shl64 c 40 = c * 2 ^ 29 * 2 ^ 11 := by
  unfold shl64; simp only [Nat.reduceMod, Nat.reducePow]; omega

theorem bin32_zero (mode : Mode) (bits : ℕ) (h : bits < 2 ^ 32) (neg : Bool)
    (hneg : ((bits / 2 ^ 31 : ℕ) : ℤ) = if neg then 1 else 0)
    (hex : bits / 2 ^ 23 % 2 ^ 8 = 0) (hfr : bits % 2 ^ 23 = 0) :
    bin32Code mode bits = some (encode (.fin neg 0 0), 0) := by
  unfold bin32Code binary32ToBid128
  rw [unpack32_zero bits h hex hfr, hneg]
  have hz := returnBid128_fin neg 6176 0 (by decide) (by decide) (by decide)
  have : returnBid128Zero (if neg then 1 else 0) = returnBid128 (if neg then 1 else 0) 6176 (0 / W) (0 % W) := rfl
  simp only [afterUnpack, Option.map_some]
  rw [this, hz]
  rfl

theorem bin32_inf (mode : Mode) (bits : ℕ) (h : bits < 2 ^ 32) (neg : Bool)
    (hneg : ((bits / 2 ^ 31 : ℕ) : ℤ) = if neg then 1 else 0)
    (hex : bits / 2 ^ 23 % 2 ^ 8 = 255) (hfr : bits % 2 ^ 23 = 0) :
    bin32Code mode bits = some (encode (.inf neg), 0) := by
  unfold bin32Code binary32ToBid128
  rw [unpack32_inf bits h hex hfr, hneg]
  simp only [afterUnpack, Option.map_some, returnBid128Inf_bits]

theorem bin32_nan (mode : Mode) (bits : ℕ) (h : bits < 2 ^ 32) (neg : Bool)
    (hneg : ((bits / 2 ^ 31 : ℕ) : ℤ) = if neg then 1 else 0)
    (hex : bits / 2 ^ 23 % 2 ^ 8 = 255) (hfr : bits % 2 ^ 23 ≠ 0) :
    bin32Code mode bits = some (encode (.nan neg false (nanPayload32 bits)),
      if bits / 2 ^ 22 % 2 = 0 then fInvalid else 0) := by
  unfold bin32Code binary32ToBid128
  rw [unpack32_nan bits h hex hfr, hneg]
  have hpay := returnBid128Nan_bits neg (bits % 2 ^ 22 * 2 ^ 42) (by omega)
  have e88 : bits % 2 ^ 22 * 2 ^ 42 * 2 ^ 46 = bits % 2 ^ 22 * 2 ^ 88 := by omega
  rw [e88] at hpay
  simp only [afterUnpack, Option.map_some, hpay, nanPayload32]

/-- a subnormal binary32 input -/
theorem bin32_sub (mode : Mode) (bits : ℕ) (h : bits < 2 ^ 32) (neg : Bool)
    (hneg : ((bits / 2 ^ 31 : ℕ) : ℤ) = if neg then 1 else 0)
    (hex : bits / 2 ^ 23 % 2 ^ 8 = 0) (hfr : bits % 2 ^ 23 ≠ 0) :
    bin32Code mode bits = some (encode (binToDecD mode neg (bits % 2 ^ 23) (-149)).1,
      (binToDecD mode neg (bits % 2 ^ 23) (-149)).2 ||| fDenormal) := by
  obtain ⟨l, hl1, hl2, hc1, hc2, hun⟩ := unpack32_sub bits h hex hfr
  unfold bin32Code binary32ToBid128
  rw [hun, hneg]
  have ht : i32w ((0 : ℤ) + (113 - 24)) = 89 := by decide
  have he : i32w (-((l : ℤ) + 149) - (113 - 24)) = -((l : ℤ) + 238) := by
    clear hc1 hc2 hun; unfold i32w; omega
  have hr1 : -1186 ≤ -((l : ℤ) + 238) := by clear hc1 hc2 hun; omega
  have hr2 : -((l : ℤ) + 238) < -160 := by clear hc1 hc2 hun; omega
  simp only [afterUnpack, shl_40 _ hc2, ht, he]
  have hd1 : 2 ^ 52 ≤ bits % 2 ^ 23 * 2 ^ l * 2 ^ 29 := by
    have := Nat.mul_le_mul_right (2 ^ 29) hc1
    exact le_trans (by decide) this
  have hd2 : bits % 2 ^ 23 * 2 ^ l * 2 ^ 29 < 2 ^ 53 := by
    have := Nat.mul_lt_mul_of_pos_right hc2 (by decide : 0 < 2 ^ 29)
    exact lt_of_lt_of_le this (by decide)
  obtain ⟨R, hR, hb⟩ := convTail_spec mode neg (bits % 2 ^ 23 * 2 ^ l * 2 ^ 29) hd1 hd2 (-((l : ℤ) + 238)) 89 hr1
    (le_trans (le_of_lt hr2) (by decide)) (by decide) (by decide) (Or.inr hr2) fDenormal
  have hcongr : binToDecD mode neg (bits % 2 ^ 23 * 2 ^ l * 2 ^ 29) (-((l : ℤ) + 238) + 60)
      = binToDecD mode neg (bits % 2 ^ 23) (-149) := by
    apply binToDecD_congr mode neg (Nat.ne_of_gt (Nat.lt_of_lt_of_le (by decide) hd1)) hfr
    unfold binVal
    rw [show -((l : ℤ) + 238) + 60 = -(l : ℤ) + (-149 + -29) by ring, zpow_add₀ two_ne, zpow_add₀ two_ne, zpow_neg,
      zpow_natCast, zpow_neg (2 : ℚ) 29]
    push_cast
    have : ((2 : ℚ) ^ l) ≠ 0 := pow_ne_zero _ two_ne
    field_simp
  rw [hcongr] at hR hb
  rw [hR]
  simp only [Option.map_some, hb]
  rw [Nat.or_comm]

/-- a normal binary32 input -/
theorem bin32_normal (mode : Mode) (bits : ℕ) (h : bits < 2 ^ 32) (neg : Bool)
    (hneg : ((bits / 2 ^ 31 : ℕ) : ℤ) = if neg then 1 else 0)
    (h1 : 0 < bits / 2 ^ 23 % 2 ^ 8) (h2 : bits / 2 ^ 23 % 2 ^ 8 < 255) :
    bin32Code mode bits = some
      (encode (binToDecD mode neg (bits % 2 ^ 23 + 2 ^ 23) (((bits / 2 ^ 23 % 2 ^ 8 : ℕ) : ℤ) - 150)).1,
       (binToDecD mode neg (bits % 2 ^ 23 + 2 ^ 23) (((bits / 2 ^ 23 % 2 ^ 8 : ℕ) : ℤ) - 150)).2) := by
  unfold bin32Code binary32ToBid128
  rw [unpack32_normal bits h h1 h2, hneg]
  have hfrlt : bits % 2 ^ 23 < 2 ^ 23 := Nat.mod_lt _ (by decide)
  generalize bits % 2 ^ 23 = fr at *
  generalize bits / 2 ^ 23 % 2 ^ 8 = ex at *
  obtain ⟨c, hcdef⟩ : ∃ c, c = fr + 2 ^ 23 := ⟨_, rfl⟩
  rw [← hcdef]
  have hcl : 2 ^ 23 ≤ c := by omega
  have hcu : c < 2 ^ 24 := by omega
  obtain ⟨hc1, hc2, hc3⟩ := ctz32_spec (n := c) (by omega) (by omega)
  generalize ctz32 c = tz at *
  have htz23 : tz ≤ 23 := by
    by_contra hgt
    have h24 : 2 ^ 24 ≤ 2 ^ tz := Nat.pow_le_pow_right (by decide) (by omega)
    have hle := Nat.le_of_dvd (by omega) hc2
    exact absurd (Nat.lt_of_lt_of_le hcu (le_trans h24 hle)) (lt_irrefl _)
  have ht : i32w ((tz : ℤ) + (113 - 24)) = (tz : ℤ) + 89 := by clear hc2 hc3; unfold i32w; omega
  have he : i32w ((ex : ℤ) - 150 - (113 - 24)) = (ex : ℤ) - 239 := by clear hc2 hc3; unfold i32w; omega
  simp only [afterUnpack, shl_40 _ hcu, ht, he]
  have htn : ((tz : ℤ) + 89 - 60).toNat = tz + 29 := by clear hc2 hc3; omega
  have r1 : -1186 ≤ (ex : ℤ) - 239 := by clear hc2 hc3; omega
  have r2 : (ex : ℤ) - 239 ≤ 911 := by clear hc2 hc3; omega
  have r3 : (60 : ℤ) ≤ (tz : ℤ) + 89 := by clear hc2 hc3; omega
  have r4 : (tz : ℤ) + 89 ≤ 112 := by clear hc2 hc3; omega
  have hd1 : 2 ^ 52 ≤ c * 2 ^ 29 := by omega
  have hd2 : c * 2 ^ 29 < 2 ^ 53 := by omega
  have hdv : 2 ^ (tz + 29) ∣ c * 2 ^ 29 := by
    rw [Nat.pow_add]; exact Nat.mul_dvd_mul_right hc2 _
  have hndv : ¬ 2 ^ (tz + 29 + 1) ∣ c * 2 ^ 29 := by
    intro hdvd
    apply hc3
    have e : 2 ^ (tz + 29 + 1) = 2 ^ (tz + 1) * 2 ^ 29 := by rw [← Nat.pow_add]
    rw [e] at hdvd
    exact Nat.dvd_of_mul_dvd_mul_right (by decide) hdvd
  obtain ⟨R, hR, hb⟩ := convTail_spec mode neg (c * 2 ^ 29) hd1 hd2 ((ex : ℤ) - 239) ((tz : ℤ) + 89) r1 r2 r3 r4
    (Or.inl (by rw [htn]; exact ⟨hdv, hndv⟩)) 0
  have hcongr : binToDecD mode neg (c * 2 ^ 29) ((ex : ℤ) - 239 + 60) = binToDecD mode neg c ((ex : ℤ) - 150) := by
    apply binToDecD_congr mode neg (by omega) (by omega)
    unfold binVal
    rw [show (ex : ℤ) - 239 + 60 = (ex : ℤ) - 150 + -29 by ring, zpow_add₀ two_ne, zpow_neg]
    push_cast
    field_simp
  rw [hcongr] at hR hb
  rw [hR]
  simp only [Option.map_some, hb, Nat.zero_or]

/-- **C07, code level, binary32.**  For every 32-bit pattern and every rounding mode, the code-shaped model of
`binary32_to_bid128` returns normally, and returns the encoding and the flags the specification prescribes (as for
binary64). -/
theorem bin32Code_spec (mode : Mode) (bits : ℕ) (h : bits < 2 ^ 32) :
    bin32Code mode bits = some (binSpec mode (nanPayload32 bits) (decodeBin 8 23 bits)) := by
  have hsgn : bits / 2 ^ 31 < 2 := by omega
  have hneg : ((bits / 2 ^ 31 : ℕ) : ℤ) = if (bits / 2 ^ (8 + 23) % 2 == 1) then 1 else 0 := by
    have : bits / 2 ^ (8 + 23) = bits / 2 ^ 31 := rfl
    rw [this, ← sign_cast _ hsgn]
  by_cases hex0 : bits / 2 ^ 23 % 2 ^ 8 = 0
  · have hdec := decodeBin_subnormal 8 23 bits (by decide) hex0
    have hE : (1 : ℤ) - binBias 8 - (23 : ℕ) = -149 := by decide
    rw [hE] at hdec
    rw [hdec]
    by_cases hfr : bits % 2 ^ 23 = 0
    · rw [bin32_zero mode bits h _ hneg hex0 hfr, hfr]
      simp [binSpec, binToDecD]
    · rw [bin32_sub mode bits h _ hneg hex0 hfr]
      have : (true && bits % 2 ^ 23 != 0) = true := by simpa using hfr
      simp only [binSpec, this, if_true]
  · by_cases hex1 : bits / 2 ^ 23 % 2 ^ 8 = 255
    · have hexm : bits / 2 ^ 23 % 2 ^ 8 = 2 ^ 8 - 1 := hex1
      by_cases hfr : bits % 2 ^ 23 = 0
      · have hdec : decodeBin 8 23 bits = .inf (bits / 2 ^ (8 + 23) % 2 == 1) := by
          simp only [decodeBin, if_pos hexm, if_pos hfr]
        rw [hdec, bin32_inf mode bits h _ hneg hex1 hfr]
        rfl
      · have hdec : decodeBin 8 23 bits =
            .nan (bits / 2 ^ (8 + 23) % 2 == 1) ((bits % 2 ^ 23 / 2 ^ (23 - 1)) % 2 == 0) := by
          simp only [decodeBin, if_pos hexm, if_neg hfr]
        rw [hdec, bin32_nan mode bits h _ hneg hex1 hfr]
        have hq : bits % 2 ^ 23 / 2 ^ (23 - 1) % 2 = bits / 2 ^ 22 % 2 := by omega
        simp only [binSpec, hq]
        simp
    · have h1 : 0 < bits / 2 ^ 23 % 2 ^ 8 := by omega
      have h2 : bits / 2 ^ 23 % 2 ^ 8 < 255 := by omega
      have hdec := decodeBin_normal 8 23 bits h1 (by omega)
      have hE : (((bits / 2 ^ 23 % 2 ^ 8 : ℕ) : ℤ)) - binBias 8 - (23 : ℕ) = ((bits / 2 ^ 23 % 2 ^ 8 : ℕ) : ℤ) - 150 := by
        have : binBias 8 = 127 := by decide
        rw [this]; push_cast; ring
      rw [hE] at hdec
      rw [hdec, bin32_normal mode bits h _ hneg h1 h2]
      simp [binSpec]

/-! ### 13. The judge's interface, examples -/

/-- The same under the harness's operation names: `convert_from_f64 / _f32` with the given mode; `from_f64 / from_f32`
(`impl From`) with `NearestEven` and no flag visible. -/
theorem binConvCodeOp_spec (mode : Mode) (bits : ℕ) :
    (bits < 2 ^ 64 → binConvCodeOp "convert_from_f64" mode bits =
        some (some (binSpec mode (nanPayload64 bits) (decodeBin 11 52 bits)))) ∧
    (bits < 2 ^ 32 → binConvCodeOp "convert_from_f32" mode bits =
        some (some (binSpec mode (nanPayload32 bits) (decodeBin 8 23 bits)))) ∧
    (bits < 2 ^ 64 → binConvCodeOp "from_f64" mode bits =
        some (some ((binSpec .rne (nanPayload64 bits) (decodeBin 11 52 bits)).1, 0))) ∧
    (bits < 2 ^ 32 → binConvCodeOp "from_f32" mode bits =
        some (some ((binSpec .rne (nanPayload32 bits) (decodeBin 8 23 bits)).1, 0))) := by
  refine ⟨fun h => ?_, fun h => ?_, fun h => ?_, fun h => ?_⟩
  · show some (bin64Code mode bits) = _
    rw [bin64Code_spec mode bits h]
  · show some (bin32Code mode bits) = _
    rw [bin32Code_spec mode bits h]
  · show some ((bin64Code .rne bits).map fun r => (r.1, 0)) = _
    rw [bin64Code_spec .rne bits h]; rfl
  · show some ((bin32Code .rne bits).map fun r => (r.1, 0)) = _
    rw [bin32Code_spec .rne bits h]; rfl

/-- The conversions never panic. -/
theorem binCode_isSome (mode : Mode) (bits : ℕ) :
    (bits < 2 ^ 64 → (bin64Code mode bits).isSome = true) ∧ (bits < 2 ^ 32 → (bin32Code mode bits).isSome = true) :=
  ⟨fun h => by rw [bin64Code_spec mode bits h]; rfl, fun h => by rw [bin32Code_spec mode bits h]; rfl⟩

/-- For a NaN input the result is a canonical encoding that decodes to a quiet NaN with the sign of the operand — the two
things the judge's predicate `isQuietNaNBits b && (decode b).neg == s` tests. -/
theorem nan_result_ok (s : Bool) (p : ℕ) (hp : p < P33) :
    decode (encode (.nan s false p)) = .nan s false p ∧ isCanonical (encode (.nan s false p)) = true :=
  ⟨decode_encode (d := .nan s false p) hp, isCanonical_encode (d := .nan s false p) hp⟩

theorem nanPayload64_lt (bits : ℕ) : nanPayload64 bits < P33 := by
  unfold nanPayload64; split
  · assumption
  · decide
theorem nanPayload32_lt (bits : ℕ) : nanPayload32 bits < P33 := by
  unfold nanPayload32; split
  · assumption
  · decide

-- 1.0, 0.1 (inexact, rounded up under `rup`), the least subnormal (denormal and inexact), a signalling NaN with payload,
-- 0.1f exactly (27 digits), binary32 infinity
example : bin64Code .rne 0x3ff0000000000000 = some (0x30400000000000000000000000000001, 0) := by decide +kernel
example : bin64Code .rup 0x3fb999999999999a = some (0x2ffc314dc6448d933986922312364ce4, fInexact) := by decide +kernel
example : bin64Code .rne 0x0000000000000001 = some (0x2d76f397da03af06aa833fd25715f6e6, fDenormal ||| fInexact) := by
  decide +kernel
example : bin64Code .rne 0x7ff4000000000001 = some (0x7c002000000000000800000000000000, fInvalid) := by decide +kernel
example : bin32Code .rdn 0x3dcccccd = some (0x300a00000052b7d2f176018a160334b9, 0) := by decide +kernel
example : bin32Code .rtz 0xff800000 = some (0xf8000000000000000000000000000000, 0) := by decide +kernel
-- the theorem instantiated: the code's result for the double nearest 0.1 is the specification's
example : bin64Code .rne 0x3fb999999999999a =
    some (encode (binToDecD .rne false 7205759403792794 (-56)).1, (binToDecD .rne false 7205759403792794 (-56)).2) := by
  rw [bin64Code_spec .rne _ (by decide)]
  have : decodeBin 11 52 0x3fb999999999999a = .fin false 7205759403792794 (-56) false := by rfl
  rw [this]; simp [binSpec]

end Dec.C07BinConvCode
