/-
  C09Q — quantize over ℚ: the result is x rounded (in the requested mode) to the quantum of y;
  inexact iff the value changed; invalid iff the rounded coefficient does not fit 34 digits.
-/
import DecProofs.Core.RoundQ
import DecProofs.Properties.C09

namespace Dec.C09Q

/-- the value of `x = ±c·10^e` measured in units of the target quantum `10^ey` -/
def scaled (s : Bool) (c : Nat) (e ey : Int) : ℚ := |fval s c e| / (10 : ℚ) ^ ey

theorem scaled_of_lt (s : Bool) (c : Nat) (e ey : Int) (h : e < ey) :
    scaled s c e ey = (c : ℚ) / ((10 ^ (ey - e).toNat : Nat) : ℚ) := by
  unfold scaled
  rw [abs_fval, mul_div_assoc, zpow10_div_of_lt e ey (by omega), mul_one_div]

theorem scaled_of_ge (s : Bool) (c : Nat) (e ey : Int) (h : ey ≤ e) :
    scaled s c e ey = ((c * 10 ^ (e - ey).toNat : Nat) : ℚ) := by
  unfold scaled
  rw [abs_fval, mul_div_assoc, zpow10_div_of_ge e ey h]; push_cast; rfl

/-- a datum with exponent `ey` has the value of x iff its coefficient is the scaled value of x -/
theorem fval_eq_iff_scaled (s : Bool) (c m : Nat) (e ey : Int) :
    fval s m ey = fval s c e ↔ (m : ℚ) = scaled s c e ey := by
  have hp : (10 : ℚ) ^ ey ≠ 0 := (zpow_pos (by norm_num) ey).ne'
  have hx : fval s c e = (if s then (-1 : ℚ) else 1) * scaled s c e ey * (10 : ℚ) ^ ey := by
    unfold scaled; rw [abs_fval]; unfold fval; field_simp
  rw [hx]; unfold fval
  exact signed_scale_inj s _ _ ey

/-- **no overflow of the coefficient when digits are dropped**: in the exponent-raising branch the
model does not test `m < 10^34`; it need not: a coefficient below `10^34` with at least one digit
dropped rounds to at most `10^33`. -/
theorem raise_bound (mode : Mode) (s : Bool) (c : Nat) (e ey : Int) (hc : c < P34) (h : e < ey) :
    roundInt mode s (c / 10 ^ (ey - e).toNat) (c % 10 ^ (ey - e).toNat) (10 ^ (ey - e).toNat) ≤ P33 := by
  have hk : 1 ≤ (ey - e).toNat := by omega
  have hD : 10 ^ 1 ≤ 10 ^ (ey - e).toNat := Nat.pow_le_pow_right (by decide) hk
  have h1 : c / 10 ^ (ey - e).toNat ≤ c / 10 ^ 1 := Nat.div_le_div_left hD (by decide)
  have h2 := roundInt_le mode s (c / 10 ^ (ey - e).toNat) (c % 10 ^ (ey - e).toNat) (10 ^ (ey - e).toNat)
  have h3 : c / 10 ^ 1 < P33 := by unfold P34 at hc; unfold P33; omega
  omega

theorem P33_lt_P34 : P33 < P34 := by decide

/-- the rounded coefficient, as the model computes it in the raising branch, is the scaled value
rounded in `mode` -/
theorem raise_RoundedTo (mode : Mode) (s : Bool) (c : Nat) (e ey : Int) (h : e < ey) :
    RoundedTo mode s (scaled s c e ey)
      (roundInt mode s (c / 10 ^ (ey - e).toNat) (c % 10 ^ (ey - e).toNat) (10 ^ (ey - e).toNat)) := by
  rw [scaled_of_lt s c e ey h]
  exact roundInt_divmod_RoundedTo mode s c _ (pow10_pos _)

/-- **C09, quantize of finite operands, x ≠ 0.**  Let `m` be `|x| / 10^ey` rounded to an integer in the
requested mode (for a value with the sign of x) — i.e. x rounded to the quantum of y.

* If `m` fits 34 digits, the result is `(-1)^s · m · 10^ey`: sign of x, exponent of y exactly; the only
  flag possibly raised is inexact, and it is raised iff the result's value differs from x.
* Otherwise the operation is invalid (default NaN, invalid flag).

The hypothesis `c < 10^34` (x is a member of the format) is needed only because the model's
exponent-raising branch omits the 34-digit test (see `raise_bound`). -/
theorem quantize_spec (mode : Mode) (s sy : Bool) (c cy : Nat) (e ey : Int) (hc0 : c ≠ 0) (hc : c < P34)
    (m : Nat) (hm : RoundedTo mode s (scaled s c e ey) m) :
    (m < P34 →
      ∃ f, quantizeD mode (.fin s c e) (.fin sy cy ey) = (.fin s m ey, f) ∧
        (fval s m ey = fval s c e → f = 0) ∧ (fval s m ey ≠ fval s c e → f = fInexact)) ∧
    (¬ m < P34 → quantizeD mode (.fin s c e) (.fin sy cy ey) = invalidResult) := by
  by_cases h : e < ey
  · -- digits are dropped
    rw [C09.quantize_round mode s sy c cy e ey hc0 h]
    have hm' := raise_RoundedTo mode s c e ey h
    have hu := RoundedTo.unique mode s _ _ _ hm hm'
    have hb := raise_bound mode s c e ey hc h
    have hlt : m < P34 := by rw [hu]; exact Nat.lt_of_le_of_lt hb P33_lt_P34
    refine ⟨fun _ => ⟨_, by rw [← hu], ?_, ?_⟩, fun hn => absurd hlt hn⟩
    · intro heq
      rw [fval_eq_iff_scaled, scaled_of_lt s c e ey h] at heq
      have : c % 10 ^ (ey - e).toNat = 0 := (isInt_div_iff c _ (pow10_pos _)).1 ⟨(m : Int), by rw [← heq]; simp⟩
      rw [if_pos this]
    · intro hne
      have : ¬ c % 10 ^ (ey - e).toNat = 0 := by
        intro h0
        apply hne
        rw [fval_eq_iff_scaled, scaled_of_lt s c e ey h, hu, h0, roundInt_zero_rem]
        have := cast_div_add_mod_div c (10 ^ (ey - e).toNat) (pow10_pos _)
        rw [h0] at this; simpa using this
      rw [if_neg this]
  · -- zeros are appended: exact or invalid
    have h' : ey ≤ e := by omega
    rw [C09.quantize_pad mode s sy c cy e ey hc0 h']
    rw [scaled_of_ge s c e ey h', RoundedTo_natCast_iff] at hm
    subst hm
    constructor
    · intro hlt
      refine ⟨0, by rw [if_pos hlt], fun _ => rfl, fun hne => absurd ?_ hne⟩
      rw [fval_eq_iff_scaled, scaled_of_ge s c e ey h']
    · intro hn; rw [if_neg hn]

/-- the rounded coefficient always exists (and is unique by `RoundedTo.unique`), so `quantize_spec`
always applies -/
theorem rounded_exists (mode : Mode) (s : Bool) (c : Nat) (e ey : Int) :
    ∃ m, RoundedTo mode s (scaled s c e ey) m := by
  by_cases h : e < ey
  · exact ⟨_, raise_RoundedTo mode s c e ey h⟩
  · exact ⟨_, by rw [scaled_of_ge s c e ey (by omega)]; exact RoundedTo_natCast mode s _⟩

/-- inexact, as an equivalence: for a finite result, the inexact flag is raised iff the value changed,
and no other flag is ever raised -/
theorem quantize_inexact_iff (mode : Mode) (s sy : Bool) (c cy : Nat) (e ey : Int) (hc0 : c ≠ 0) (hc : c < P34)
    (sr : Bool) (mr : Nat) (er : Int) (f : Flags)
    (hq : quantizeD mode (.fin s c e) (.fin sy cy ey) = (.fin sr mr er, f)) :
    sr = s ∧ er = ey ∧ RoundedTo mode s (scaled s c e ey) mr ∧ mr < P34 ∧
    (f = fInexact ↔ fval sr mr er ≠ fval s c e) ∧ (f = 0 ↔ fval sr mr er = fval s c e) := by
  obtain ⟨m, hm⟩ := rounded_exists mode s c e ey
  obtain ⟨h1, h2⟩ := quantize_spec mode s sy c cy e ey hc0 hc m hm
  by_cases hlt : m < P34
  · obtain ⟨f', hf, hz, hi⟩ := h1 hlt
    rw [hf] at hq
    injection hq with hd hff
    injection hd with hs hmm hee
    subst hs hmm hee hff
    refine ⟨rfl, rfl, hm, hlt, ?_, ?_⟩
    · constructor
      · intro hfi heq; rw [hz heq] at hfi; exact absurd hfi (by decide)
      · exact hi
    · constructor
      · intro hf0; by_contra hne; rw [hi hne] at hf0; exact absurd hf0 (by decide)
      · exact hz
  · rw [h2 hlt] at hq
    simp [invalidResult, defaultNaN] at hq

/-- lowering the exponent (appending zeros) is always exact when it succeeds -/
theorem quantize_pad_exact (mode : Mode) (s sy : Bool) (c cy : Nat) (e ey : Int) (hc0 : c ≠ 0) (h : ey ≤ e)
    (hfit : c * 10 ^ (e - ey).toNat < P34) :
    quantizeD mode (.fin s c e) (.fin sy cy ey) = (.fin s (c * 10 ^ (e - ey).toNat) ey, 0) ∧
    fval s (c * 10 ^ (e - ey).toNat) ey = fval s c e := by
  refine ⟨by rw [C09.quantize_pad mode s sy c cy e ey hc0 h, if_pos hfit], ?_⟩
  rw [fval_eq_iff_scaled, scaled_of_ge s c e ey h]

/-- invalid iff the rounded coefficient needs more than 34 digits -/
theorem quantize_invalid_iff (mode : Mode) (s sy : Bool) (c cy : Nat) (e ey : Int) (hc0 : c ≠ 0) (hc : c < P34)
    (m : Nat) (hm : RoundedTo mode s (scaled s c e ey) m) :
    quantizeD mode (.fin s c e) (.fin sy cy ey) = invalidResult ↔ ¬ m < P34 := by
  obtain ⟨h1, h2⟩ := quantize_spec mode s sy c cy e ey hc0 hc m hm
  constructor
  · intro hinv hlt
    obtain ⟨f, hf, _⟩ := h1 hlt
    rw [hf] at hinv; simp [invalidResult, defaultNaN] at hinv
  · exact h2

/-- a zero operand takes y's exponent and keeps its sign, exactly -/
theorem quantize_zero (mode : Mode) (s sy : Bool) (cy : Nat) (e ey : Int) :
    quantizeD mode (.fin s 0 e) (.fin sy cy ey) = (.fin s 0 ey, 0) := by
  simp [quantizeD]

-- 123.45 quantized to exponent 0 under nearest-even: coefficient 123, inexact
example : RoundedTo .rne false (scaled false 12345 (-2) 0) 123 := by
  have := raise_RoundedTo .rne false 12345 (-2) 0 (by decide)
  have e : roundInt .rne false (12345 / 10 ^ ((0 : Int) - (-2)).toNat) (12345 % 10 ^ ((0 : Int) - (-2)).toNat)
      (10 ^ ((0 : Int) - (-2)).toNat) = 123 := by decide
  rwa [e] at this

-- 1 quantized to exponent -34 would need 35 digits
example : RoundedTo .rne false (scaled false 1 0 (-34)) (10 ^ 34) ∧ ¬ (10 ^ 34 < P34) := by
  refine ⟨?_, by decide⟩
  rw [scaled_of_ge _ _ _ _ (by decide)]
  exact RoundedTo_natCast _ _ _

end Dec.C09Q
