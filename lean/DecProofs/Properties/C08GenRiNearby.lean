/-
  C08GenRiNearby — `bid128_nearbyint` as translated in `DecGen/Code.lean` computes `toIntegralD mode` of the decoded operand in
  each of the five rounding modes without raising `inexact`, for ALL 128-bit patterns and status words (`nearbyint_spec`).
-/
import DecProofs.Properties.C08GenRiExact

set_option linter.unusedSimpArgs false
set_option linter.unusedVariables false

namespace Dec.C08GenRoundIntegral
open Dec.Rs Dec.Gen.Code Dec.C03GenCompare

/-! ## `bid128_nearbyint`: structure -/

/-- digit removal of `bid128_nearbyint`, nearest-even (the translated block) -/
def nbEvenMain (C1_ : U128) (x_sign : UInt64) (exp : Int32) (pfpsf_ : UInt32) : Except String (U128 × UInt32) := do
  let mut res : U128 := (⟨(0xbaddbaddbaddbadd : UInt64), (0xbaddbaddbaddbadd : UInt64)⟩ : U128)
  let mut fstar : U256 := default
  let mut shift : Int32 := default
  let mut ind : Int32 := default
  let mut tmp64 : UInt64 := default
  let mut P256 : U256 := default
  let mut C1 : U128 := C1_
  let mut pfpsf : UInt32 := pfpsf_
  ind := (-exp)
  tmp64 := C1.w0
  if (decide (ind ≤ (0x13 : Int32))) then
    C1 := { C1 with w0 := (C1.w0 + (← tbl64 Dec.Gen.BID_MIDPOINT64 (UInt64.ofInt (toI ((ind - (1 : Int32))))))) }
  else
    C1 := { C1 with w0 := (C1.w0 + (← tbl128 Dec.Gen.BID_MIDPOINT128 (UInt64.ofInt (toI ((ind - (0x14 : Int32)))))).w0) }
    C1 := { C1 with w1 := (C1.w1 + (← tbl128 Dec.Gen.BID_MIDPOINT128 (UInt64.ofInt (toI ((ind - (0x14 : Int32)))))).w1) }
  if (decide (C1.w0 < tmp64)) then
    C1 := { C1 with w1 := (C1.w1 + 1) }
  P256 := (← mul_128x128_to_256 C1 (← tbl128 Dec.Gen.BID_TEN2MK128 (UInt64.ofInt (toI ((ind - (1 : Int32)))))))
  if (decide ((ind - (1 : Int32)) ≤ (2 : Int32))) then
    res := { res with w1 := P256.w3 }
    res := { res with w0 := P256.w2 }
    fstar := { fstar with w1 := P256.w1 }
    fstar := { fstar with w0 := P256.w0 }
    if (← (if (((res.w0 &&& (1 : UInt64))) == (1 : UInt64)) then (do pure ((← (if ((decide (fstar.w1 < ((← tbl128 Dec.Gen.BID_TEN2MK128 (UInt64.ofInt (toI ((ind - (1 : Int32)))))).w1)))) then pure true else (do pure ((← (if ((fstar.w1 == (← tbl128 Dec.Gen.BID_TEN2MK128 (UInt64.ofInt (toI ((ind - (1 : Int32)))))).w1)) then (do pure ((decide (fstar.w0 < (← tbl128 Dec.Gen.BID_TEN2MK128 (UInt64.ofInt (toI ((ind - (1 : Int32)))))).w0)))) else pure false)))))))) else pure false)) then
      res := { res with w0 := (res.w0 - 1) }
  else
    if (decide ((ind - (1 : Int32)) ≤ (0x15 : Int32))) then
      shift := (← tblI32 Dec.Gen.BID_SHIFTRIGHT128 (UInt64.ofInt (toI ((ind - (1 : Int32))))))
      res := { res with w1 := (P256.w3 >>> (UInt64.ofInt (toI shift))) }
      res := { res with w0 := (((P256.w3 <<< (UInt64.ofInt (toI (((0x40 : Int32) - shift)))))) ||| ((P256.w2 >>> (UInt64.ofInt (toI shift))))) }
      fstar := { fstar with w2 := (P256.w2 &&& (← tbl64 Dec.Gen.BID_MASKHIGH128 (UInt64.ofInt (toI ((ind - (1 : Int32))))))) }
      fstar := { fstar with w1 := P256.w1 }
      fstar := { fstar with w0 := P256.w0 }
      if (← (if ((((res.w0 &&& (1 : UInt64))) == (1 : UInt64)) && (fstar.w2 == (0 : UInt64))) then (do pure ((← (if (decide (fstar.w1 < (← tbl128 Dec.Gen.BID_TEN2MK128 (UInt64.ofInt (toI ((ind - (1 : Int32)))))).w1)) then pure true else (do pure ((← (if (fstar.w1 == (← tbl128 Dec.Gen.BID_TEN2MK128 (UInt64.ofInt (toI ((ind - (1 : Int32)))))).w1) then (do pure (decide (fstar.w0 < (← tbl128 Dec.Gen.BID_TEN2MK128 (UInt64.ofInt (toI ((ind - (1 : Int32)))))).w0))) else pure false)))))))) else pure false)) then
        res := { res with w0 := (res.w0 - 1) }
    else
      shift := ((← tblI32 Dec.Gen.BID_SHIFTRIGHT128 (UInt64.ofInt (toI ((ind - (1 : Int32)))))) - (0x40 : Int32))
      res := { res with w1 := (0 : UInt64) }
      res := { res with w0 := (P256.w3 >>> (UInt64.ofInt (toI shift))) }
      fstar := { fstar with w3 := (P256.w3 &&& (← tbl64 Dec.Gen.BID_MASKHIGH128 (UInt64.ofInt (toI ((ind - (1 : Int32))))))) }
      fstar := { fstar with w2 := P256.w2 }
      fstar := { fstar with w1 := P256.w1 }
      fstar := { fstar with w0 := P256.w0 }
      if (← (if (((((res.w0 &&& (1 : UInt64))) == (1 : UInt64)) && (fstar.w3 == (0 : UInt64))) && (fstar.w2 == (0 : UInt64))) then (do pure ((← (if (decide (fstar.w1 < (← tbl128 Dec.Gen.BID_TEN2MK128 (UInt64.ofInt (toI ((ind - (1 : Int32)))))).w1)) then pure true else (do pure ((← (if (fstar.w1 == (← tbl128 Dec.Gen.BID_TEN2MK128 (UInt64.ofInt (toI ((ind - (1 : Int32)))))).w1) then (do pure (decide (fstar.w0 < (← tbl128 Dec.Gen.BID_TEN2MK128 (UInt64.ofInt (toI ((ind - (1 : Int32)))))).w0))) else pure false)))))))) else pure false)) then
        res := { res with w0 := (res.w0 - 1) }
  res := { res with w1 := (res.w1 ||| (x_sign ||| (0x3040000000000000 : UInt64))) }
  return (res, pfpsf)

/-- digit removal of `bid128_nearbyint`, nearest-away (the translated block) -/
def nbAwayMain (C1_ : U128) (x_sign : UInt64) (exp : Int32) (pfpsf_ : UInt32) : Except String (U128 × UInt32) := do
  let mut res : U128 := (⟨(0xbaddbaddbaddbadd : UInt64), (0xbaddbaddbaddbadd : UInt64)⟩ : U128)
  let mut fstar : U256 := default
  let mut shift : Int32 := default
  let mut ind : Int32 := default
  let mut tmp64 : UInt64 := default
  let mut P256 : U256 := default
  let mut C1 : U128 := C1_
  let mut pfpsf : UInt32 := pfpsf_
  ind := (-exp)
  tmp64 := C1.w0
  if (decide (ind ≤ (0x13 : Int32))) then
    C1 := { C1 with w0 := (C1.w0 + (← tbl64 Dec.Gen.BID_MIDPOINT64 (UInt64.ofInt (toI ((ind - (1 : Int32))))))) }
  else
    C1 := { C1 with w0 := (C1.w0 + (← tbl128 Dec.Gen.BID_MIDPOINT128 (UInt64.ofInt (toI ((ind - (0x14 : Int32)))))).w0) }
    C1 := { C1 with w1 := (C1.w1 + (← tbl128 Dec.Gen.BID_MIDPOINT128 (UInt64.ofInt (toI ((ind - (0x14 : Int32)))))).w1) }
  if (decide (C1.w0 < tmp64)) then
    C1 := { C1 with w1 := (C1.w1 + 1) }
  P256 := (← mul_128x128_to_256 C1 (← tbl128 Dec.Gen.BID_TEN2MK128 (UInt64.ofInt (toI ((ind - (1 : Int32)))))))
  if (decide ((ind - (1 : Int32)) ≤ (2 : Int32))) then
    res := { res with w1 := P256.w3 }
    res := { res with w0 := P256.w2 }
  else
    if (decide ((ind - (1 : Int32)) ≤ (0x15 : Int32))) then
      shift := (← tblI32 Dec.Gen.BID_SHIFTRIGHT128 (UInt64.ofInt (toI ((ind - (1 : Int32))))))
      res := { res with w1 := (P256.w3 >>> (UInt64.ofInt (toI shift))) }
      res := { res with w0 := (((P256.w3 <<< (UInt64.ofInt (toI (((0x40 : Int32) - shift)))))) ||| ((P256.w2 >>> (UInt64.ofInt (toI shift))))) }
    else
      shift := ((← tblI32 Dec.Gen.BID_SHIFTRIGHT128 (UInt64.ofInt (toI ((ind - (1 : Int32)))))) - (0x40 : Int32))
      res := { res with w1 := (0 : UInt64) }
      res := { res with w0 := (P256.w3 >>> (UInt64.ofInt (toI shift))) }
  res := { res with w1 := (res.w1 ||| (x_sign ||| (0x3040000000000000 : UInt64))) }
  return (res, pfpsf)

/-- digit removal of `bid128_nearbyint`, downward (the translated block) -/
def nbFloorMain (C1_ : U128) (x_sign : UInt64) (exp : Int32) (pfpsf_ : UInt32) : Except String (U128 × UInt32) := do
  let mut res : U128 := (⟨(0xbaddbaddbaddbadd : UInt64), (0xbaddbaddbaddbadd : UInt64)⟩ : U128)
  let mut fstar : U256 := default
  let mut shift : Int32 := default
  let mut ind : Int32 := default
  let mut tmp64 : UInt64 := default
  let mut P256 : U256 := default
  let mut C1 : U128 := C1_
  let mut pfpsf : UInt32 := pfpsf_
  ind := (-exp)
  P256 := (← mul_128x128_to_256 C1 (← tbl128 Dec.Gen.BID_TEN2MK128 (UInt64.ofInt (toI ((ind - (1 : Int32)))))))
  if (decide ((ind - (1 : Int32)) ≤ (2 : Int32))) then
    res := { res with w1 := P256.w3 }
    res := { res with w0 := P256.w2 }
    if (← (if ((decide (P256.w1 > (← tbl128 Dec.Gen.BID_TEN2MK128 (UInt64.ofInt (toI ((ind - (1 : Int32)))))).w1))) then pure true else (do pure ((← (if (P256.w1 == (← tbl128 Dec.Gen.BID_TEN2MK128 (UInt64.ofInt (toI ((ind - (1 : Int32)))))).w1) then (do pure ((decide (P256.w0 ≥ (← tbl128 Dec.Gen.BID_TEN2MK128 (UInt64.ofInt (toI ((ind - (1 : Int32)))))).w0)))) else pure false)))))) then
      if (x_sign != (0 : UInt64)) then
        res := { res with w0 := (res.w0 + 1) }
        if (res.w0 == (0 : UInt64)) then
          res := { res with w1 := (res.w1 + 1) }
  else
    if (decide ((ind - (1 : Int32)) ≤ (0x15 : Int32))) then
      shift := (← tblI32 Dec.Gen.BID_SHIFTRIGHT128 (UInt64.ofInt (toI ((ind - (1 : Int32))))))
      res := { res with w1 := (P256.w3 >>> (UInt64.ofInt (toI shift))) }
      res := { res with w0 := (((P256.w3 <<< (UInt64.ofInt (toI (((0x40 : Int32) - shift)))))) ||| ((P256.w2 >>> (UInt64.ofInt (toI shift))))) }
      fstar := { fstar with w2 := (P256.w2 &&& (← tbl64 Dec.Gen.BID_MASKHIGH128 (UInt64.ofInt (toI ((ind - (1 : Int32))))))) }
      fstar := { fstar with w1 := P256.w1 }
      fstar := { fstar with w0 := P256.w0 }
      if (← (if (← (if (fstar.w2 != (0 : UInt64)) then pure true else (do pure (decide (fstar.w1 > (← tbl128 Dec.Gen.BID_TEN2MK128 (UInt64.ofInt (toI ((ind - (1 : Int32)))))).w1))))) then pure true else (do pure ((← (if (fstar.w1 == (← tbl128 Dec.Gen.BID_TEN2MK128 (UInt64.ofInt (toI ((ind - (1 : Int32)))))).w1) then (do pure (decide (fstar.w0 ≥ (← tbl128 Dec.Gen.BID_TEN2MK128 (UInt64.ofInt (toI ((ind - (1 : Int32)))))).w0))) else pure false)))))) then
        if (x_sign != (0 : UInt64)) then
          res := { res with w0 := (res.w0 + 1) }
          if (res.w0 == (0 : UInt64)) then
            res := { res with w1 := (res.w1 + 1) }
    else
      shift := ((← tblI32 Dec.Gen.BID_SHIFTRIGHT128 (UInt64.ofInt (toI ((ind - (1 : Int32)))))) - (0x40 : Int32))
      res := { res with w1 := (0 : UInt64) }
      res := { res with w0 := (P256.w3 >>> (UInt64.ofInt (toI shift))) }
      fstar := { fstar with w3 := (P256.w3 &&& (← tbl64 Dec.Gen.BID_MASKHIGH128 (UInt64.ofInt (toI ((ind - (1 : Int32))))))) }
      fstar := { fstar with w2 := P256.w2 }
      fstar := { fstar with w1 := P256.w1 }
      fstar := { fstar with w0 := P256.w0 }
      if (← (if (← (if ((fstar.w3 != (0 : UInt64)) || (fstar.w2 != (0 : UInt64))) then pure true else (do pure (decide (fstar.w1 > (← tbl128 Dec.Gen.BID_TEN2MK128 (UInt64.ofInt (toI ((ind - (1 : Int32)))))).w1))))) then pure true else (do pure ((← (if (fstar.w1 == (← tbl128 Dec.Gen.BID_TEN2MK128 (UInt64.ofInt (toI ((ind - (1 : Int32)))))).w1) then (do pure (decide (fstar.w0 ≥ (← tbl128 Dec.Gen.BID_TEN2MK128 (UInt64.ofInt (toI ((ind - (1 : Int32)))))).w0))) else pure false)))))) then
        if (x_sign != (0 : UInt64)) then
          res := { res with w0 := (res.w0 + 1) }
          if (res.w0 == (0 : UInt64)) then
            res := { res with w1 := (res.w1 + 1) }
  res := { res with w1 := (res.w1 ||| (x_sign ||| (0x3040000000000000 : UInt64))) }
  return (res, pfpsf)

/-- digit removal of `bid128_nearbyint`, upward (the translated block) -/
def nbCeilMain (C1_ : U128) (x_sign : UInt64) (exp : Int32) (pfpsf_ : UInt32) : Except String (U128 × UInt32) := do
  let mut res : U128 := (⟨(0xbaddbaddbaddbadd : UInt64), (0xbaddbaddbaddbadd : UInt64)⟩ : U128)
  let mut fstar : U256 := default
  let mut shift : Int32 := default
  let mut ind : Int32 := default
  let mut tmp64 : UInt64 := default
  let mut P256 : U256 := default
  let mut C1 : U128 := C1_
  let mut pfpsf : UInt32 := pfpsf_
  ind := (-exp)
  P256 := (← mul_128x128_to_256 C1 (← tbl128 Dec.Gen.BID_TEN2MK128 (UInt64.ofInt (toI ((ind - (1 : Int32)))))))
  if (decide ((ind - (1 : Int32)) ≤ (2 : Int32))) then
    res := { res with w1 := P256.w3 }
    res := { res with w0 := P256.w2 }
    if (← (if ((decide (P256.w1 > (← tbl128 Dec.Gen.BID_TEN2MK128 (UInt64.ofInt (toI ((ind - (1 : Int32)))))).w1))) then pure true else (do pure ((← (if (P256.w1 == (← tbl128 Dec.Gen.BID_TEN2MK128 (UInt64.ofInt (toI ((ind - (1 : Int32)))))).w1) then (do pure ((decide (P256.w0 ≥ (← tbl128 Dec.Gen.BID_TEN2MK128 (UInt64.ofInt (toI ((ind - (1 : Int32)))))).w0)))) else pure false)))))) then
      if (x_sign == (0 : UInt64)) then
        res := { res with w0 := (res.w0 + 1) }
        if (res.w0 == (0 : UInt64)) then
          res := { res with w1 := (res.w1 + 1) }
  else
    if (decide ((ind - (1 : Int32)) ≤ (0x15 : Int32))) then
      shift := (← tblI32 Dec.Gen.BID_SHIFTRIGHT128 (UInt64.ofInt (toI ((ind - (1 : Int32))))))
      res := { res with w1 := (P256.w3 >>> (UInt64.ofInt (toI shift))) }
      res := { res with w0 := (((P256.w3 <<< (UInt64.ofInt (toI (((0x40 : Int32) - shift)))))) ||| ((P256.w2 >>> (UInt64.ofInt (toI shift))))) }
      fstar := { fstar with w2 := (P256.w2 &&& (← tbl64 Dec.Gen.BID_MASKHIGH128 (UInt64.ofInt (toI ((ind - (1 : Int32))))))) }
      fstar := { fstar with w1 := P256.w1 }
      fstar := { fstar with w0 := P256.w0 }
      if (← (if (← (if (fstar.w2 != (0 : UInt64)) then pure true else (do pure (decide (fstar.w1 > (← tbl128 Dec.Gen.BID_TEN2MK128 (UInt64.ofInt (toI ((ind - (1 : Int32)))))).w1))))) then pure true else (do pure ((← (if (fstar.w1 == (← tbl128 Dec.Gen.BID_TEN2MK128 (UInt64.ofInt (toI ((ind - (1 : Int32)))))).w1) then (do pure (decide (fstar.w0 ≥ (← tbl128 Dec.Gen.BID_TEN2MK128 (UInt64.ofInt (toI ((ind - (1 : Int32)))))).w0))) else pure false)))))) then
        if (x_sign == (0 : UInt64)) then
          res := { res with w0 := (res.w0 + 1) }
          if (res.w0 == (0 : UInt64)) then
            res := { res with w1 := (res.w1 + 1) }
    else
      shift := ((← tblI32 Dec.Gen.BID_SHIFTRIGHT128 (UInt64.ofInt (toI ((ind - (1 : Int32)))))) - (0x40 : Int32))
      res := { res with w1 := (0 : UInt64) }
      res := { res with w0 := (P256.w3 >>> (UInt64.ofInt (toI shift))) }
      fstar := { fstar with w3 := (P256.w3 &&& (← tbl64 Dec.Gen.BID_MASKHIGH128 (UInt64.ofInt (toI ((ind - (1 : Int32))))))) }
      fstar := { fstar with w2 := P256.w2 }
      fstar := { fstar with w1 := P256.w1 }
      fstar := { fstar with w0 := P256.w0 }
      if (← (if (← (if ((fstar.w3 != (0 : UInt64)) || (fstar.w2 != (0 : UInt64))) then pure true else (do pure (decide (fstar.w1 > (← tbl128 Dec.Gen.BID_TEN2MK128 (UInt64.ofInt (toI ((ind - (1 : Int32)))))).w1))))) then pure true else (do pure ((← (if (fstar.w1 == (← tbl128 Dec.Gen.BID_TEN2MK128 (UInt64.ofInt (toI ((ind - (1 : Int32)))))).w1) then (do pure (decide (fstar.w0 ≥ (← tbl128 Dec.Gen.BID_TEN2MK128 (UInt64.ofInt (toI ((ind - (1 : Int32)))))).w0))) else pure false)))))) then
        if (x_sign == (0 : UInt64)) then
          res := { res with w0 := (res.w0 + 1) }
          if (res.w0 == (0 : UInt64)) then
            res := { res with w1 := (res.w1 + 1) }
  res := { res with w1 := (res.w1 ||| (x_sign ||| (0x3040000000000000 : UInt64))) }
  return (res, pfpsf)

/-- digit removal of `bid128_nearbyint`, toward zero (the translated block) -/
def nbTruncMain (C1_ : U128) (x_sign : UInt64) (exp : Int32) (pfpsf_ : UInt32) : Except String (U128 × UInt32) := do
  let mut res : U128 := (⟨(0xbaddbaddbaddbadd : UInt64), (0xbaddbaddbaddbadd : UInt64)⟩ : U128)
  let mut fstar : U256 := default
  let mut shift : Int32 := default
  let mut ind : Int32 := default
  let mut tmp64 : UInt64 := default
  let mut P256 : U256 := default
  let mut C1 : U128 := C1_
  let mut pfpsf : UInt32 := pfpsf_
  ind := (-exp)
  P256 := (← mul_128x128_to_256 C1 (← tbl128 Dec.Gen.BID_TEN2MK128 (UInt64.ofInt (toI ((ind - (1 : Int32)))))))
  if (decide ((ind - (1 : Int32)) ≤ (2 : Int32))) then
    res := { res with w1 := P256.w3 }
    res := { res with w0 := P256.w2 }
  else
    if (decide ((ind - (1 : Int32)) ≤ (0x15 : Int32))) then
      shift := (← tblI32 Dec.Gen.BID_SHIFTRIGHT128 (UInt64.ofInt (toI ((ind - (1 : Int32))))))
      res := { res with w1 := (P256.w3 >>> (UInt64.ofInt (toI shift))) }
      res := { res with w0 := (((P256.w3 <<< (UInt64.ofInt (toI (((0x40 : Int32) - shift)))))) ||| ((P256.w2 >>> (UInt64.ofInt (toI shift))))) }
    else
      shift := ((← tblI32 Dec.Gen.BID_SHIFTRIGHT128 (UInt64.ofInt (toI ((ind - (1 : Int32)))))) - (0x40 : Int32))
      res := { res with w1 := (0 : UInt64) }
      res := { res with w0 := (P256.w3 >>> (UInt64.ofInt (toI shift))) }
  res := { res with w1 := (res.w1 ||| (x_sign ||| (0x3040000000000000 : UInt64))) }
  return (res, pfpsf)

/-- `bid128_nearbyint`, nearest-even, after the midpoint addition (the translated block) -/
def nbEvenTail (C1_ : U128) (x_sign : UInt64) (exp : Int32) (pfpsf_ : UInt32) : Except String (U128 × UInt32) := do
  let mut res : U128 := (⟨(0xbaddbaddbaddbadd : UInt64), (0xbaddbaddbaddbadd : UInt64)⟩ : U128)
  let mut fstar : U256 := default
  let mut shift : Int32 := default
  let mut ind : Int32 := default
  let mut tmp64 : UInt64 := default
  let mut P256 : U256 := default
  let mut C1 : U128 := C1_
  let mut pfpsf : UInt32 := pfpsf_
  ind := (-exp)
  P256 := (← mul_128x128_to_256 C1 (← tbl128 Dec.Gen.BID_TEN2MK128 (UInt64.ofInt (toI ((ind - (1 : Int32)))))))
  if (decide ((ind - (1 : Int32)) ≤ (2 : Int32))) then
    res := { res with w1 := P256.w3 }
    res := { res with w0 := P256.w2 }
    fstar := { fstar with w1 := P256.w1 }
    fstar := { fstar with w0 := P256.w0 }
    if (← (if (((res.w0 &&& (1 : UInt64))) == (1 : UInt64)) then (do pure ((← (if ((decide (fstar.w1 < ((← tbl128 Dec.Gen.BID_TEN2MK128 (UInt64.ofInt (toI ((ind - (1 : Int32)))))).w1)))) then pure true else (do pure ((← (if ((fstar.w1 == (← tbl128 Dec.Gen.BID_TEN2MK128 (UInt64.ofInt (toI ((ind - (1 : Int32)))))).w1)) then (do pure ((decide (fstar.w0 < (← tbl128 Dec.Gen.BID_TEN2MK128 (UInt64.ofInt (toI ((ind - (1 : Int32)))))).w0)))) else pure false)))))))) else pure false)) then
      res := { res with w0 := (res.w0 - 1) }
  else
    if (decide ((ind - (1 : Int32)) ≤ (0x15 : Int32))) then
      shift := (← tblI32 Dec.Gen.BID_SHIFTRIGHT128 (UInt64.ofInt (toI ((ind - (1 : Int32))))))
      res := { res with w1 := (P256.w3 >>> (UInt64.ofInt (toI shift))) }
      res := { res with w0 := (((P256.w3 <<< (UInt64.ofInt (toI (((0x40 : Int32) - shift)))))) ||| ((P256.w2 >>> (UInt64.ofInt (toI shift))))) }
      fstar := { fstar with w2 := (P256.w2 &&& (← tbl64 Dec.Gen.BID_MASKHIGH128 (UInt64.ofInt (toI ((ind - (1 : Int32))))))) }
      fstar := { fstar with w1 := P256.w1 }
      fstar := { fstar with w0 := P256.w0 }
      if (← (if ((((res.w0 &&& (1 : UInt64))) == (1 : UInt64)) && (fstar.w2 == (0 : UInt64))) then (do pure ((← (if (decide (fstar.w1 < (← tbl128 Dec.Gen.BID_TEN2MK128 (UInt64.ofInt (toI ((ind - (1 : Int32)))))).w1)) then pure true else (do pure ((← (if (fstar.w1 == (← tbl128 Dec.Gen.BID_TEN2MK128 (UInt64.ofInt (toI ((ind - (1 : Int32)))))).w1) then (do pure (decide (fstar.w0 < (← tbl128 Dec.Gen.BID_TEN2MK128 (UInt64.ofInt (toI ((ind - (1 : Int32)))))).w0))) else pure false)))))))) else pure false)) then
        res := { res with w0 := (res.w0 - 1) }
    else
      shift := ((← tblI32 Dec.Gen.BID_SHIFTRIGHT128 (UInt64.ofInt (toI ((ind - (1 : Int32)))))) - (0x40 : Int32))
      res := { res with w1 := (0 : UInt64) }
      res := { res with w0 := (P256.w3 >>> (UInt64.ofInt (toI shift))) }
      fstar := { fstar with w3 := (P256.w3 &&& (← tbl64 Dec.Gen.BID_MASKHIGH128 (UInt64.ofInt (toI ((ind - (1 : Int32))))))) }
      fstar := { fstar with w2 := P256.w2 }
      fstar := { fstar with w1 := P256.w1 }
      fstar := { fstar with w0 := P256.w0 }
      if (← (if (((((res.w0 &&& (1 : UInt64))) == (1 : UInt64)) && (fstar.w3 == (0 : UInt64))) && (fstar.w2 == (0 : UInt64))) then (do pure ((← (if (decide (fstar.w1 < (← tbl128 Dec.Gen.BID_TEN2MK128 (UInt64.ofInt (toI ((ind - (1 : Int32)))))).w1)) then pure true else (do pure ((← (if (fstar.w1 == (← tbl128 Dec.Gen.BID_TEN2MK128 (UInt64.ofInt (toI ((ind - (1 : Int32)))))).w1) then (do pure (decide (fstar.w0 < (← tbl128 Dec.Gen.BID_TEN2MK128 (UInt64.ofInt (toI ((ind - (1 : Int32)))))).w0))) else pure false)))))))) else pure false)) then
        res := { res with w0 := (res.w0 - 1) }
  res := { res with w1 := (res.w1 ||| (x_sign ||| (0x3040000000000000 : UInt64))) }
  return (res, pfpsf)

/-- `bid128_nearbyint`, nearest-away, after the midpoint addition (the translated block) -/
def nbAwayTail (C1_ : U128) (x_sign : UInt64) (exp : Int32) (pfpsf_ : UInt32) : Except String (U128 × UInt32) := do
  let mut res : U128 := (⟨(0xbaddbaddbaddbadd : UInt64), (0xbaddbaddbaddbadd : UInt64)⟩ : U128)
  let mut fstar : U256 := default
  let mut shift : Int32 := default
  let mut ind : Int32 := default
  let mut tmp64 : UInt64 := default
  let mut P256 : U256 := default
  let mut C1 : U128 := C1_
  let mut pfpsf : UInt32 := pfpsf_
  ind := (-exp)
  P256 := (← mul_128x128_to_256 C1 (← tbl128 Dec.Gen.BID_TEN2MK128 (UInt64.ofInt (toI ((ind - (1 : Int32)))))))
  if (decide ((ind - (1 : Int32)) ≤ (2 : Int32))) then
    res := { res with w1 := P256.w3 }
    res := { res with w0 := P256.w2 }
  else
    if (decide ((ind - (1 : Int32)) ≤ (0x15 : Int32))) then
      shift := (← tblI32 Dec.Gen.BID_SHIFTRIGHT128 (UInt64.ofInt (toI ((ind - (1 : Int32))))))
      res := { res with w1 := (P256.w3 >>> (UInt64.ofInt (toI shift))) }
      res := { res with w0 := (((P256.w3 <<< (UInt64.ofInt (toI (((0x40 : Int32) - shift)))))) ||| ((P256.w2 >>> (UInt64.ofInt (toI shift))))) }
    else
      shift := ((← tblI32 Dec.Gen.BID_SHIFTRIGHT128 (UInt64.ofInt (toI ((ind - (1 : Int32)))))) - (0x40 : Int32))
      res := { res with w1 := (0 : UInt64) }
      res := { res with w0 := (P256.w3 >>> (UInt64.ofInt (toI shift))) }
  res := { res with w1 := (res.w1 ||| (x_sign ||| (0x3040000000000000 : UInt64))) }
  return (res, pfpsf)


def nbNEFin (x : U128) (f : UInt32) (s e : UInt64) (C : U128) : Except String (U128 × UInt32) :=
  if decide (e ≤ 0x2ffa000000000000) = true then .ok (⟨0, s ||| 0x3040000000000000⟩, f)
  else
    withQ C fun q =>
      if decide (expOf e ≥ 0) = true then .ok (⟨x.w0, x.w1⟩, f)
      else if decide (q + expOf e ≥ 0) = true then nbEvenMain C s (expOf e) f
      else .ok (⟨0, s ||| 0x3040000000000000⟩, f)

def nbNAFin (x : U128) (f : UInt32) (s e : UInt64) (C : U128) : Except String (U128 × UInt32) :=
  if decide (e ≤ 0x2ffa000000000000) = true then .ok (⟨0, s ||| 0x3040000000000000⟩, f)
  else
    withQ C fun q =>
      if decide (expOf e ≥ 0) = true then .ok (⟨x.w0, x.w1⟩, f)
      else if decide (q + expOf e ≥ 0) = true then nbAwayMain C s (expOf e) f
      else .ok (⟨0, s ||| 0x3040000000000000⟩, f)

def nbDownFin (x : U128) (f : UInt32) (s e : UInt64) (C : U128) : Except String (U128 × UInt32) :=
  if decide (e ≤ 0x2ffc000000000000) = true then
    if (s != 0) = true then .ok (⟨1, 0xb040000000000000⟩, f) else .ok (⟨0, 0x3040000000000000⟩, f)
  else
    withQ C fun q =>
      if decide (expOf e ≥ 0) = true then .ok (⟨x.w0, x.w1⟩, f)
      else if decide (q + expOf e > 0) = true then nbFloorMain C s (expOf e) f
      else if (s != 0) = true then .ok (⟨1, 0xb040000000000000⟩, f) else .ok (⟨0, 0x3040000000000000⟩, f)

def nbUpFin (x : U128) (f : UInt32) (s e : UInt64) (C : U128) : Except String (U128 × UInt32) :=
  if decide (e ≤ 0x2ffc000000000000) = true then
    if (s != 0) = true then .ok (⟨0, 0xb040000000000000⟩, f) else .ok (⟨1, 0x3040000000000000⟩, f)
  else
    withQ C fun q =>
      if decide (expOf e ≥ 0) = true then .ok (⟨x.w0, x.w1⟩, f)
      else if decide (q + expOf e > 0) = true then nbCeilMain C s (expOf e) f
      else if (s != 0) = true then .ok (⟨0, 0xb040000000000000⟩, f) else .ok (⟨1, 0x3040000000000000⟩, f)

def nbTZFin (x : U128) (f : UInt32) (s e : UInt64) (C : U128) : Except String (U128 × UInt32) :=
  if decide (e ≤ 0x2ffc000000000000) = true then .ok (⟨0, s ||| 0x3040000000000000⟩, f)
  else
    withQ C fun q =>
      if decide (expOf e ≥ 0) = true then .ok (⟨x.w0, x.w1⟩, f)
      else if decide (q + expOf e > 0) = true then nbTruncMain C s (expOf e) f
      else .ok (⟨0, s ||| 0x3040000000000000⟩, f)

theorem nbNE_unfold (x : U128) (f : UInt32) :
    bid128_nearbyint x .NearestEven f = frontEnd x f (nbNEFin x f) := by
  simp only [bid128_nearbyint, beq_self_eq_true, rm_NE_NA, rm_NE_Dn, rm_NE_Up, rm_NE_TZ, Bool.or_false, Bool.or_true, Bool.true_or,
    Bool.false_or, if_true, if_false, Bool.false_eq_true]
  simp only [frontEnd, nbNEFin, nbEvenMain, specialRes, zeroRes, withQ, expOf, bind, Except.bind, pure, Except.pure, beq_self_eq_true,
    Bool.and_self, if_true]

theorem nbNA_unfold (x : U128) (f : UInt32) :
    bid128_nearbyint x .NearestAway f = frontEnd x f (nbNAFin x f) := by
  simp only [bid128_nearbyint, beq_self_eq_true, rm_NA_NE, rm_NA_Dn, rm_NA_Up, rm_NA_TZ, Bool.or_false, Bool.or_true, Bool.true_or,
    Bool.false_or, if_true, if_false, Bool.false_eq_true]
  simp only [frontEnd, nbNAFin, nbAwayMain, specialRes, zeroRes, withQ, expOf, bind, Except.bind, pure, Except.pure, beq_self_eq_true,
    Bool.and_self, if_true]

theorem nbDn_unfold (x : U128) (f : UInt32) :
    bid128_nearbyint x .Downward f = frontEnd x f (nbDownFin x f) := by
  simp only [bid128_nearbyint, beq_self_eq_true, rm_Dn_NE, rm_Dn_NA, rm_Dn_Up, rm_Dn_TZ, Bool.or_false, Bool.or_true, Bool.true_or,
    Bool.false_or, if_true, if_false, Bool.false_eq_true]
  simp only [frontEnd, nbDownFin, nbFloorMain, specialRes, zeroRes, withQ, expOf, bind, Except.bind, pure, Except.pure, beq_self_eq_true,
    Bool.and_self, if_true]

theorem nbUp_unfold (x : U128) (f : UInt32) :
    bid128_nearbyint x .Upward f = frontEnd x f (nbUpFin x f) := by
  simp only [bid128_nearbyint, beq_self_eq_true, rm_Up_NE, rm_Up_NA, rm_Up_Dn, rm_Up_TZ, Bool.or_false, Bool.or_true, Bool.true_or,
    Bool.false_or, if_true, if_false, Bool.false_eq_true]
  simp only [frontEnd, nbUpFin, nbCeilMain, specialRes, zeroRes, withQ, expOf, bind, Except.bind, pure, Except.pure, beq_self_eq_true,
    Bool.and_self, if_true]

theorem nbTZ_unfold (x : U128) (f : UInt32) :
    bid128_nearbyint x .TowardZero f = frontEnd x f (nbTZFin x f) := by
  simp only [bid128_nearbyint, beq_self_eq_true, rm_TZ_NE, rm_TZ_NA, rm_TZ_Dn, rm_TZ_Up, Bool.or_false, Bool.or_true, Bool.true_or,
    Bool.false_or, if_true, if_false, Bool.false_eq_true]
  simp only [frontEnd, nbTZFin, nbTruncMain, specialRes, zeroRes, withQ, expOf, bind, Except.bind, pure, Except.pure, beq_self_eq_true,
    Bool.and_self, if_true]


/-! ## `bid128_nearbyint`: semantics -/

theorem nbAwayMain_eq (C : U128) (S : UInt64) (exp : Int32) (f : UInt32) :
    nbAwayMain C S exp f = (addMid C exp).bind fun C' => nbAwayTail C' S exp f := by
  ri_mid C exp [nbAwayMain, nbAwayTail]

theorem nbEvenMain_eq (C : U128) (S : UInt64) (exp : Int32) (f : UInt32) :
    nbEvenMain C S exp f = (addMid C exp).bind fun C' => nbEvenTail C' S exp f := by
  ri_mid C exp [nbEvenMain, nbEvenTail]

theorem nbAwayTail_spec (C : U128) (S : UInt64) (exp : Int32) (f : UInt32) (s : Bool) (c x : Nat)
    (hc : val128 C = c) (hlt : c < 10 ^ 35) (hx1 : 1 ≤ x) (hx2 : x ≤ 34) (hexp : exp.toInt = -(x : Int))
    (hS : S.toNat = if s then 2^63 else 0) :
    nbAwayTail C S exp f = .ok (ofBits (encode (.fin s (c / 10 ^ x) 0)), f) := by
  obtain ⟨t, v, sh, mk, oh, sN, δ, R⟩ := recip_exists C exp c x hc hlt hx1 hx2 hexp
  have hm := quot_lt c x hlt hx1
  simp only [nbAwayTail, bind, pure, Except.pure, bind_ok', ite_ok, R.ht, R.hv, R.hsh, ite_true_bool, ite_false_bool,
    Bool.decide_eq_true]
  by_cases b1 : x ≤ 3
  · rw [if_pos (R.c1.2 b1), mk_result S s hS ⟨v.w2, v.w3⟩ _ (R.qA b1) hm]
  · rw [if_neg (fun h => b1 (R.c1.1 h))]
    by_cases b2 : x ≤ 22
    · rw [if_pos (R.c2.2 b2)]
      exact congrArg (fun r => Except.ok (r, f)) (mk_result S s hS _ _ (R.qB (by omega) b2) hm)
    · rw [if_neg (fun h => b2 (R.c2.1 h))]
      exact congrArg (fun r => Except.ok (r, f)) (mk_result S s hS _ _ (R.qC (by omega)) hm)

theorem nbEvenTail_spec (C : U128) (S : UInt64) (exp : Int32) (f : UInt32) (s : Bool) (c x : Nat)
    (hc : val128 C = c) (hlt : c < 10 ^ 35) (hx1 : 1 ≤ x) (hx2 : x ≤ 34) (hexp : exp.toInt = -(x : Int))
    (hS : S.toNat = if s then 2^63 else 0) :
    nbEvenTail C S exp f = .ok (ofBits (encode (.fin s
      (if c % 10 ^ x = 0 ∧ c / 10 ^ x % 2 = 1 then c / 10 ^ x - 1 else c / 10 ^ x) 0)), f) := by
  obtain ⟨t, v, sh, mk, oh, sN, δ, R⟩ := recip_exists C exp c x hc hlt hx1 hx2 hexp
  have hm := quot_lt c x hlt hx1
  simp only [nbEvenTail, bind, pure, Except.pure, bind_ok', ite_ok, R.ht, R.hv, R.hsh, R.hmk, ite_true_bool, ite_false_bool,
    Bool.decide_eq_true, Bool.and_assoc]
  by_cases b1 : x ≤ 3
  · rw [if_pos (R.c1.2 b1), R.ltA b1]
    exact congrArg Except.ok (even_finish S s hS ⟨v.w2, v.w3⟩ _ _ (R.qA b1) hm f)
  · rw [if_neg (fun h => b1 (R.c1.1 h))]
    by_cases b2 : x ≤ 22
    · rw [if_pos (R.c2.2 b2), R.ltB (by omega) b2]
      exact congrArg Except.ok (even_finish S s hS _ _ _ (R.qB (by omega) b2) hm f)
    · rw [if_neg (fun h => b2 (R.c2.1 h)), R.ltC (by omega)]
      exact congrArg Except.ok (even_finish S s hS _ _ _ (R.qC (by omega)) hm f)

theorem nbTruncMain_spec (C : U128) (S : UInt64) (exp : Int32) (f : UInt32) (s : Bool) (c x : Nat)
    (hc : val128 C = c) (hlt : c < P34) (hx1 : 1 ≤ x) (hx2 : x ≤ 33) (hexp : exp.toInt = -(x : Int))
    (hS : S.toNat = if s then 2^63 else 0) :
    nbTruncMain C S exp f = .ok (ofBits (encode (.fin s (c / 10 ^ x) 0)), f) := by
  have hlt' : c < 10 ^ 35 := Nat.lt_trans hlt (by decide)
  obtain ⟨t, v, sh, mk, oh, sN, δ, R⟩ := recip_exists C exp c x hc hlt' hx1 (by omega) hexp
  have hm := quot_lt c x hlt' hx1
  simp only [nbTruncMain, bind, pure, Except.pure, bind_ok', ite_ok, R.ht, R.hv, R.hsh, R.hmk, ite_true_bool, ite_false_bool,
    Bool.decide_eq_true]
  by_cases b1 : x ≤ 3
  · rw [if_pos (R.c1.2 b1), mk_result S s hS ⟨v.w2, v.w3⟩ _ (R.qA b1) hm]
  · rw [if_neg (fun h => b1 (R.c1.1 h))]
    by_cases b2 : x ≤ 22
    · rw [if_pos (R.c2.2 b2)]
      exact congrArg (fun r => Except.ok (r, f)) (mk_result S s hS _ _ (R.qB (by omega) b2) hm)
    · rw [if_neg (fun h => b2 (R.c2.1 h))]
      exact congrArg (fun r => Except.ok (r, f)) (mk_result S s hS _ _ (R.qC (by omega)) hm)

theorem nbFloorMain_spec (C : U128) (S : UInt64) (exp : Int32) (f : UInt32) (s : Bool) (c x : Nat)
    (hc : val128 C = c) (hlt : c < P34) (hx1 : 1 ≤ x) (hx2 : x ≤ 33) (hexp : exp.toInt = -(x : Int))
    (hS : S.toNat = if s then 2^63 else 0) :
    nbFloorMain C S exp f = .ok (ofBits (encode (.fin s (roundInt .rdn s (c / 10 ^ x) (c % 10 ^ x) (10 ^ x)) 0)), f) := by
  obtain ⟨t, v, sh, mk, oh, sN, δ, R⟩ := recip_exists C exp c x hc (Nat.lt_trans hlt (by decide)) hx1 (by omega) hexp
  have hm : c / 10 ^ x + 1 < 2 ^ 113 := by
    have : c / 10 ^ x ≤ c := Nat.div_le_self _ _
    have : c < 2^113 - 1 := Nat.lt_trans hlt (by decide)
    omega
  simp only [nbFloorMain, bind, pure, Except.pure, bind_ok', ite_ok, R.ht, R.hv, R.hsh, R.hmk, ite_true_bool, ite_false_bool,
    Bool.decide_eq_true]
  rw [sign_ne_zero S s hS, roundInt_rdn]
  have hfl : (if c % 10 ^ x ≠ 0 then f else f) = f := ite_self _
  by_cases b1 : x ≤ 3
  · rw [if_pos (R.c1.2 b1), R.geA b1, inc_res]
    exact congrArg Except.ok ((exfloor_finish S s hS ⟨v.w2, v.w3⟩ _ _ (R.qA b1) hm f f).trans (by rw [hfl]))
  · rw [if_neg (fun h => b1 (R.c1.1 h))]
    by_cases b2 : x ≤ 22
    · rw [if_pos (R.c2.2 b2), R.geB (by omega) b2, inc_res]
      exact congrArg Except.ok ((exfloor_finish S s hS _ _ _ (R.qB (by omega) b2) hm f f).trans (by rw [hfl]))
    · rw [if_neg (fun h => b2 (R.c2.1 h)), R.geC (by omega), inc_res]
      exact congrArg Except.ok ((exfloor_finish S s hS _ _ _ (R.qC (by omega)) hm f f).trans (by rw [hfl]))

theorem nbCeilMain_spec (C : U128) (S : UInt64) (exp : Int32) (f : UInt32) (s : Bool) (c x : Nat)
    (hc : val128 C = c) (hlt : c < P34) (hx1 : 1 ≤ x) (hx2 : x ≤ 33) (hexp : exp.toInt = -(x : Int))
    (hS : S.toNat = if s then 2^63 else 0) :
    nbCeilMain C S exp f = .ok (ofBits (encode (.fin s (roundInt .rup s (c / 10 ^ x) (c % 10 ^ x) (10 ^ x)) 0)), f) := by
  obtain ⟨t, v, sh, mk, oh, sN, δ, R⟩ := recip_exists C exp c x hc (Nat.lt_trans hlt (by decide)) hx1 (by omega) hexp
  have hm : c / 10 ^ x + 1 < 2 ^ 113 := by
    have : c / 10 ^ x ≤ c := Nat.div_le_self _ _
    have : c < 2^113 - 1 := Nat.lt_trans hlt (by decide)
    omega
  simp only [nbCeilMain, bind, pure, Except.pure, bind_ok', ite_ok, R.ht, R.hv, R.hsh, R.hmk, ite_true_bool, ite_false_bool,
    Bool.decide_eq_true]
  rw [sign_eq_zero S s hS, roundInt_rup]
  have hfl : (if c % 10 ^ x ≠ 0 then f else f) = f := ite_self _
  by_cases b1 : x ≤ 3
  · rw [if_pos (R.c1.2 b1), R.geA b1, inc_res]
    exact congrArg Except.ok ((exceil_finish S s hS ⟨v.w2, v.w3⟩ _ _ (R.qA b1) hm f f).trans (by rw [hfl]))
  · rw [if_neg (fun h => b1 (R.c1.1 h))]
    by_cases b2 : x ≤ 22
    · rw [if_pos (R.c2.2 b2), R.geB (by omega) b2, inc_res]
      exact congrArg Except.ok ((exceil_finish S s hS _ _ _ (R.qB (by omega) b2) hm f f).trans (by rw [hfl]))
    · rw [if_neg (fun h => b2 (R.c2.1 h)), R.geC (by omega), inc_res]
      exact congrArg Except.ok ((exceil_finish S s hS _ _ _ (R.qC (by omega)) hm f f).trans (by rw [hfl]))

/-- **`bid128_nearbyint`, rne, on finite non-zero operands** -/
theorem nbNEFin_spec (x : U128) (f : UInt32) (s : Bool) (c E : Nat) (hv : FinView x s c E) :
    nbNEFin x f (x.w1 &&& c_MASK_SIGN) (x.w1 &&& c_MASK_EXP) ⟨x.w0, x.w1 &&& c_MASK_COEFF⟩
      = .ok (ofBits (encode (riD .rne (decode (bitsOf x)))), riFlags f (decode (bitsOf x))) := by
  obtain ⟨hdec, hpos, hlt, hE, hS, he, hc, henc⟩ := hv
  have h34 := ndigits_le_34 c hlt
  rw [hdec, riFlags_fin]
  unfold nbNEFin
  by_cases t1 : E ≤ 6141
  · rw [if_pos ((expword_le _ E he 0x2ffa000000000000 6141 (by decide)).2 t1), riD_neg_exp _ _ _ _ (by omega),
      tiny_nearest .rne (Or.inr rfl) s c _ (by omega) (lt_pow_of_digits c _ (by omega)), mk_zero _ s hS]
  · rw [if_neg (fun h => t1 ((expword_le _ E he 0x2ffa000000000000 6141 (by decide)).1 h))]
    obtain ⟨q, hq, qv⟩ := countQ_spec ⟨x.w0, x.w1 &&& c_MASK_COEFF⟩ (by rw [hc]; exact hpos)
      (by rw [hc]; exact Nat.lt_trans hlt (by decide))
    rw [hc] at qv
    have hexp := expOf_toInt _ E hE he
    simp only [withQ_eq, hq, Except.bind]
    by_cases t2 : 6176 ≤ E
    · rw [if_pos (by rw [decide_eq_true_eq, ge_iff_le, Int32.le_iff_toInt_le, hexp]; show (0 : Int) ≤ _; omega),
        riD_nonneg_exp _ _ _ _ t2, ← henc]
      exact congrArg (fun r => Except.ok (r, f)) (Dec.C06GenFromInt.ofBits_bitsOf x).symm
    · rw [if_neg (by rw [decide_eq_true_eq, ge_iff_le, Int32.le_iff_toInt_le, hexp]; show ¬ (0 : Int) ≤ _; omega),
        riD_neg_exp _ _ _ _ (by omega)]
      have hsum : (q + expOf (x.w1 &&& c_MASK_EXP)).toInt = (ndigits c : Int) + ((E : Int) - 6176) := by
        rw [i32_add _ _ (by omega) (by omega), qv, hexp]
      by_cases t3 : 6176 ≤ ndigits c + E
      · rw [if_pos (by rw [decide_eq_true_eq, ge_iff_le, Int32.le_iff_toInt_le, hsum]; show (0 : Int) ≤ _; omega)]
        have hx1 : 1 ≤ 6176 - E := by omega
        have hexp' : (expOf (x.w1 &&& c_MASK_EXP)).toInt = -((6176 - E : Nat) : Int) := by rw [hexp]; omega
        obtain ⟨C', hadd, hval⟩ := addMid_spec _ _ c (6176 - E) hc hlt hx1 (by omega) hexp'
        have hH : 5 * 10 ^ (6176 - E - 1) ≤ 5 * 10 ^ 33 :=
          Nat.mul_le_mul_left 5 (Nat.pow_le_pow_right (by decide) (by omega))
        have hP : c < 10 ^ 34 := hlt
        rw [nbEvenMain_eq, hadd]
        simp only [Except.bind]
        rw [nbEvenTail_spec C' _ _ f s _ (6176 - E) hval (by omega) hx1 (by omega) hexp' hS,
          rne_formula s c _ _ (half_pow _ hx1) (Nat.mul_pos (by decide) (Nat.pow_pos (by decide)))]
      · rw [if_neg (by rw [decide_eq_true_eq, ge_iff_le, Int32.le_iff_toInt_le, hsum]; show ¬ (0 : Int) ≤ _; omega),
          tiny_nearest .rne (Or.inr rfl) s c _ (by omega) (lt_pow_of_digits c _ (by omega)), mk_zero _ s hS]

/-- **`bid128_nearbyint`, rna, on finite non-zero operands** -/
theorem nbNAFin_spec (x : U128) (f : UInt32) (s : Bool) (c E : Nat) (hv : FinView x s c E) :
    nbNAFin x f (x.w1 &&& c_MASK_SIGN) (x.w1 &&& c_MASK_EXP) ⟨x.w0, x.w1 &&& c_MASK_COEFF⟩
      = .ok (ofBits (encode (riD .rna (decode (bitsOf x)))), riFlags f (decode (bitsOf x))) := by
  obtain ⟨hdec, hpos, hlt, hE, hS, he, hc, henc⟩ := hv
  have h34 := ndigits_le_34 c hlt
  rw [hdec, riFlags_fin]
  unfold nbNAFin
  by_cases t1 : E ≤ 6141
  · rw [if_pos ((expword_le _ E he 0x2ffa000000000000 6141 (by decide)).2 t1), riD_neg_exp _ _ _ _ (by omega),
      tiny_nearest .rna (Or.inl rfl) s c _ (by omega) (lt_pow_of_digits c _ (by omega)), mk_zero _ s hS]
  · rw [if_neg (fun h => t1 ((expword_le _ E he 0x2ffa000000000000 6141 (by decide)).1 h))]
    obtain ⟨q, hq, qv⟩ := countQ_spec ⟨x.w0, x.w1 &&& c_MASK_COEFF⟩ (by rw [hc]; exact hpos)
      (by rw [hc]; exact Nat.lt_trans hlt (by decide))
    rw [hc] at qv
    have hexp := expOf_toInt _ E hE he
    simp only [withQ_eq, hq, Except.bind]
    by_cases t2 : 6176 ≤ E
    · rw [if_pos (by rw [decide_eq_true_eq, ge_iff_le, Int32.le_iff_toInt_le, hexp]; show (0 : Int) ≤ _; omega),
        riD_nonneg_exp _ _ _ _ t2, ← henc]
      exact congrArg (fun r => Except.ok (r, f)) (Dec.C06GenFromInt.ofBits_bitsOf x).symm
    · rw [if_neg (by rw [decide_eq_true_eq, ge_iff_le, Int32.le_iff_toInt_le, hexp]; show ¬ (0 : Int) ≤ _; omega),
        riD_neg_exp _ _ _ _ (by omega)]
      have hsum : (q + expOf (x.w1 &&& c_MASK_EXP)).toInt = (ndigits c : Int) + ((E : Int) - 6176) := by
        rw [i32_add _ _ (by omega) (by omega), qv, hexp]
      by_cases t3 : 6176 ≤ ndigits c + E
      · rw [if_pos (by rw [decide_eq_true_eq, ge_iff_le, Int32.le_iff_toInt_le, hsum]; show (0 : Int) ≤ _; omega)]
        have hx1 : 1 ≤ 6176 - E := by omega
        have hexp' : (expOf (x.w1 &&& c_MASK_EXP)).toInt = -((6176 - E : Nat) : Int) := by rw [hexp]; omega
        obtain ⟨C', hadd, hval⟩ := addMid_spec _ _ c (6176 - E) hc hlt hx1 (by omega) hexp'
        have hH : 5 * 10 ^ (6176 - E - 1) ≤ 5 * 10 ^ 33 :=
          Nat.mul_le_mul_left 5 (Nat.pow_le_pow_right (by decide) (by omega))
        have hP : c < 10 ^ 34 := hlt
        rw [nbAwayMain_eq, hadd]
        simp only [Except.bind]
        rw [nbAwayTail_spec C' _ _ f s _ (6176 - E) hval (by omega) hx1 (by omega) hexp' hS,
          rna_formula s c _ _ (half_pow _ hx1) (Nat.mul_pos (by decide) (Nat.pow_pos (by decide)))]
      · rw [if_neg (by rw [decide_eq_true_eq, ge_iff_le, Int32.le_iff_toInt_le, hsum]; show ¬ (0 : Int) ≤ _; omega),
          tiny_nearest .rna (Or.inl rfl) s c _ (by omega) (lt_pow_of_digits c _ (by omega)), mk_zero _ s hS]

/-- **`bid128_nearbyint`, downward, on finite non-zero operands** -/
theorem nbDownFin_spec (x : U128) (f : UInt32) (s : Bool) (c E : Nat) (hv : FinView x s c E) :
    nbDownFin x f (x.w1 &&& c_MASK_SIGN) (x.w1 &&& c_MASK_EXP) ⟨x.w0, x.w1 &&& c_MASK_COEFF⟩
      = .ok (ofBits (encode (riD .rdn (decode (bitsOf x)))), riFlags f (decode (bitsOf x))) := by
  obtain ⟨hdec, hpos, hlt, hE, hS, he, hc, henc⟩ := hv
  have h34 := ndigits_le_34 c hlt
  rw [hdec, riFlags_fin]
  unfold nbDownFin
  by_cases t1 : E ≤ 6142
  · have hsm := lt_pow_of_digits c (6176 - E) (by omega)
    rw [if_pos ((expword_le _ E he 0x2ffc000000000000 6142 (by decide)).2 t1), riD_neg_exp _ _ _ _ (by omega)]
    exact below_one_floor _ s hS f c _ hpos hsm
  · rw [if_neg (fun h => t1 ((expword_le _ E he 0x2ffc000000000000 6142 (by decide)).1 h))]
    obtain ⟨q, hq, qv⟩ := countQ_spec ⟨x.w0, x.w1 &&& c_MASK_COEFF⟩ (by rw [hc]; exact hpos)
      (by rw [hc]; exact Nat.lt_trans hlt (by decide))
    rw [hc] at qv
    have hexp := expOf_toInt _ E hE he
    simp only [withQ_eq, hq, Except.bind]
    by_cases t2 : 6176 ≤ E
    · rw [if_pos (by rw [decide_eq_true_eq, ge_iff_le, Int32.le_iff_toInt_le, hexp]; show (0 : Int) ≤ _; omega),
        riD_nonneg_exp _ _ _ _ t2, ← henc]
      exact congrArg (fun r => Except.ok (r, f)) (Dec.C06GenFromInt.ofBits_bitsOf x).symm
    · rw [if_neg (by rw [decide_eq_true_eq, ge_iff_le, Int32.le_iff_toInt_le, hexp]; show ¬ (0 : Int) ≤ _; omega),
        riD_neg_exp _ _ _ _ (by omega)]
      have hsum : (q + expOf (x.w1 &&& c_MASK_EXP)).toInt = (ndigits c : Int) + ((E : Int) - 6176) := by
        rw [i32_add _ _ (by omega) (by omega), qv, hexp]
      by_cases t3 : 6176 < ndigits c + E
      · rw [if_pos (by rw [decide_eq_true_eq, gt_iff_lt, Int32.lt_iff_toInt_lt, hsum]; show (0 : Int) < _; omega)]
        exact nbFloorMain_spec _ _ _ f s c (6176 - E) hc hlt (by omega) (by omega) (by rw [hexp]; omega) hS
      · have hsm := lt_pow_of_digits c (6176 - E) (by omega)
        rw [if_neg (by rw [decide_eq_true_eq, gt_iff_lt, Int32.lt_iff_toInt_lt, hsum]; show ¬ (0 : Int) < _; omega)]
        exact below_one_floor _ s hS f c _ hpos hsm

/-- **`bid128_nearbyint`, upward, on finite non-zero operands** -/
theorem nbUpFin_spec (x : U128) (f : UInt32) (s : Bool) (c E : Nat) (hv : FinView x s c E) :
    nbUpFin x f (x.w1 &&& c_MASK_SIGN) (x.w1 &&& c_MASK_EXP) ⟨x.w0, x.w1 &&& c_MASK_COEFF⟩
      = .ok (ofBits (encode (riD .rup (decode (bitsOf x)))), riFlags f (decode (bitsOf x))) := by
  obtain ⟨hdec, hpos, hlt, hE, hS, he, hc, henc⟩ := hv
  have h34 := ndigits_le_34 c hlt
  rw [hdec, riFlags_fin]
  unfold nbUpFin
  by_cases t1 : E ≤ 6142
  · have hsm := lt_pow_of_digits c (6176 - E) (by omega)
    rw [if_pos ((expword_le _ E he 0x2ffc000000000000 6142 (by decide)).2 t1), riD_neg_exp _ _ _ _ (by omega)]
    exact below_one_ceil _ s hS f c _ hpos hsm
  · rw [if_neg (fun h => t1 ((expword_le _ E he 0x2ffc000000000000 6142 (by decide)).1 h))]
    obtain ⟨q, hq, qv⟩ := countQ_spec ⟨x.w0, x.w1 &&& c_MASK_COEFF⟩ (by rw [hc]; exact hpos)
      (by rw [hc]; exact Nat.lt_trans hlt (by decide))
    rw [hc] at qv
    have hexp := expOf_toInt _ E hE he
    simp only [withQ_eq, hq, Except.bind]
    by_cases t2 : 6176 ≤ E
    · rw [if_pos (by rw [decide_eq_true_eq, ge_iff_le, Int32.le_iff_toInt_le, hexp]; show (0 : Int) ≤ _; omega),
        riD_nonneg_exp _ _ _ _ t2, ← henc]
      exact congrArg (fun r => Except.ok (r, f)) (Dec.C06GenFromInt.ofBits_bitsOf x).symm
    · rw [if_neg (by rw [decide_eq_true_eq, ge_iff_le, Int32.le_iff_toInt_le, hexp]; show ¬ (0 : Int) ≤ _; omega),
        riD_neg_exp _ _ _ _ (by omega)]
      have hsum : (q + expOf (x.w1 &&& c_MASK_EXP)).toInt = (ndigits c : Int) + ((E : Int) - 6176) := by
        rw [i32_add _ _ (by omega) (by omega), qv, hexp]
      by_cases t3 : 6176 < ndigits c + E
      · rw [if_pos (by rw [decide_eq_true_eq, gt_iff_lt, Int32.lt_iff_toInt_lt, hsum]; show (0 : Int) < _; omega)]
        exact nbCeilMain_spec _ _ _ f s c (6176 - E) hc hlt (by omega) (by omega) (by rw [hexp]; omega) hS
      · have hsm := lt_pow_of_digits c (6176 - E) (by omega)
        rw [if_neg (by rw [decide_eq_true_eq, gt_iff_lt, Int32.lt_iff_toInt_lt, hsum]; show ¬ (0 : Int) < _; omega)]
        exact below_one_ceil _ s hS f c _ hpos hsm

/-- **`bid128_nearbyint`, toward zero, on finite non-zero operands** -/
theorem nbTZFin_spec (x : U128) (f : UInt32) (s : Bool) (c E : Nat) (hv : FinView x s c E) :
    nbTZFin x f (x.w1 &&& c_MASK_SIGN) (x.w1 &&& c_MASK_EXP) ⟨x.w0, x.w1 &&& c_MASK_COEFF⟩
      = .ok (ofBits (encode (riD .rtz (decode (bitsOf x)))), riFlags f (decode (bitsOf x))) := by
  obtain ⟨hdec, hpos, hlt, hE, hS, he, hc, henc⟩ := hv
  have h34 := ndigits_le_34 c hlt
  rw [hdec, riFlags_fin]
  unfold nbTZFin
  by_cases t1 : E ≤ 6142
  · have hsm := lt_pow_of_digits c (6176 - E) (by omega)
    rw [if_pos ((expword_le _ E he 0x2ffc000000000000 6142 (by decide)).2 t1), riD_neg_exp _ _ _ _ (by omega)]
    rw [roundInt_rtz, (small_quot c (6176 - E) (by omega)).1, mk_zero _ s hS]
  · rw [if_neg (fun h => t1 ((expword_le _ E he 0x2ffc000000000000 6142 (by decide)).1 h))]
    obtain ⟨q, hq, qv⟩ := countQ_spec ⟨x.w0, x.w1 &&& c_MASK_COEFF⟩ (by rw [hc]; exact hpos)
      (by rw [hc]; exact Nat.lt_trans hlt (by decide))
    rw [hc] at qv
    have hexp := expOf_toInt _ E hE he
    simp only [withQ_eq, hq, Except.bind]
    by_cases t2 : 6176 ≤ E
    · rw [if_pos (by rw [decide_eq_true_eq, ge_iff_le, Int32.le_iff_toInt_le, hexp]; show (0 : Int) ≤ _; omega),
        riD_nonneg_exp _ _ _ _ t2, ← henc]
      exact congrArg (fun r => Except.ok (r, f)) (Dec.C06GenFromInt.ofBits_bitsOf x).symm
    · rw [if_neg (by rw [decide_eq_true_eq, ge_iff_le, Int32.le_iff_toInt_le, hexp]; show ¬ (0 : Int) ≤ _; omega),
        riD_neg_exp _ _ _ _ (by omega)]
      have hsum : (q + expOf (x.w1 &&& c_MASK_EXP)).toInt = (ndigits c : Int) + ((E : Int) - 6176) := by
        rw [i32_add _ _ (by omega) (by omega), qv, hexp]
      by_cases t3 : 6176 < ndigits c + E
      · rw [if_pos (by rw [decide_eq_true_eq, gt_iff_lt, Int32.lt_iff_toInt_lt, hsum]; show (0 : Int) < _; omega)]
        rw [roundInt_rtz]
        exact nbTruncMain_spec _ _ _ f s c (6176 - E) hc hlt (by omega) (by omega) (by rw [hexp]; omega) hS
      · have hsm := lt_pow_of_digits c (6176 - E) (by omega)
        rw [if_neg (by rw [decide_eq_true_eq, gt_iff_lt, Int32.lt_iff_toInt_lt, hsum]; show ¬ (0 : Int) < _; omega)]
        rw [roundInt_rtz, (small_quot c (6176 - E) (by omega)).1, mk_zero _ s hS]

/-- **`bid128_nearbyint`** (round to integral in the given rounding mode, not signalling inexact), ALL 128-bit patterns, all five
rounding modes, every incoming status word: the same result as `bid128_round_integral_exact` — the canonical encoding of
`toIntegralD mode` of the decoded operand — and the status word gets only `invalid` (0x01), iff the operand is a signalling
NaN; `inexact` is never raised; the routine never panics. -/
theorem nearbyint_spec (x : U128) (m : RoundingMode) (f : UInt32) :
    bid128_nearbyint x m f =
      .ok (ofBits (encode (riD (modeOf m) (decode (bitsOf x)))), riFlags f (decode (bitsOf x))) := by
  cases m
  · rw [nbNE_unfold]
    rcases frontEnd_cases .rne x f (nbNEFin x f) with ⟨h, hu⟩ | ⟨s, c, E, hv, h⟩
    · exact h
    · rw [h]; exact nbNEFin_spec x f s c E hv
  · rw [nbDn_unfold]
    rcases frontEnd_cases .rdn x f (nbDownFin x f) with ⟨h, hu⟩ | ⟨s, c, E, hv, h⟩
    · exact h
    · rw [h]; exact nbDownFin_spec x f s c E hv
  · rw [nbUp_unfold]
    rcases frontEnd_cases .rup x f (nbUpFin x f) with ⟨h, hu⟩ | ⟨s, c, E, hv, h⟩
    · exact h
    · rw [h]; exact nbUpFin_spec x f s c E hv
  · rw [nbTZ_unfold]
    rcases frontEnd_cases .rtz x f (nbTZFin x f) with ⟨h, hu⟩ | ⟨s, c, E, hv, h⟩
    · exact h
    · rw [h]; exact nbTZFin_spec x f s c E hv
  · rw [nbNA_unfold]
    rcases frontEnd_cases .rna x f (nbNAFin x f) with ⟨h, hu⟩ | ⟨s, c, E, hv, h⟩
    · exact h
    · rw [h]; exact nbNAFin_spec x f s c E hv

/-- `nearbyint` and `round_integral_exact` return the same number; their status words differ exactly by the `inexact` bit -/
theorem nearbyint_eq_exact_value (x : U128) (m : RoundingMode) (f : UInt32) :
    ∃ r g g', bid128_nearbyint x m f = .ok (r, g) ∧ bid128_round_integral_exact x m f = .ok (r, g') ∧
      (g' = g ∨ g' = g ||| 0x20) := by
  refine ⟨_, _, _, nearbyint_spec x m f, round_integral_exact_spec x m f, ?_⟩
  unfold riFlagsX riFlags
  by_cases h1 : (decode (bitsOf x)).isSNaN = true
  · left; rw [if_pos h1, if_pos h1]
  · rw [if_neg h1, if_neg h1]
    by_cases h2 : (toIntegralD (modeOf m) (decode (bitsOf x))).2 = true
    · right; rw [if_pos h2]
    · left; rw [if_neg h2]

-- 2.5 in the five modes (no flag), a signalling NaN
example : bid128_nearbyint ⟨25, 0x303e000000000000⟩ .NearestEven 0 = .ok (⟨2, 0x3040000000000000⟩, 0) := by
  rw [nearbyint_spec]; decide +kernel
example : bid128_nearbyint ⟨25, 0x303e000000000000⟩ .NearestAway 0 = .ok (⟨3, 0x3040000000000000⟩, 0) := by rfl
example : bid128_nearbyint ⟨25, 0xb03e000000000000⟩ .Downward 0 = .ok (⟨3, 0xb040000000000000⟩, 0) := by rfl
example : bid128_nearbyint ⟨25, 0xb03e000000000000⟩ .Upward 0 = .ok (⟨2, 0xb040000000000000⟩, 0) := by rfl
example : bid128_nearbyint ⟨25, 0xb03e000000000000⟩ .TowardZero 1 = .ok (⟨2, 0xb040000000000000⟩, 1) := by rfl
example : bid128_nearbyint ⟨7, 0xfe00000000000000⟩ .Upward 0x20 = .ok (⟨7, 0xfc00000000000000⟩, 0x21) := by rfl

end Dec.C08GenRoundIntegral
