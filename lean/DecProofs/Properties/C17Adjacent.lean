/-
  C17Adjacent — next_up returns the adjacent member of the format: for a finite non-zero well-formed
  x, `nextUpD x` is (a) a member of the format or +Inf, (b) strictly greater than x, (c) the least
  member of the format above x (and +Inf only when x = +MAX, above which there is no member), (d) in
  least-exponent form.  `nextDownD (nextUpD x)` has the value of x.
  Zero and infinite operands are covered by `DecProofs.Properties.C17`.
-/
import DecProofs.Core.RoundQ
import DecProofs.Core.Digits
import DecProofs.Properties.C17

namespace Dec.C17Adjacent

/-! ### helpers: magnitudes `c·10^e` over ℚ -/

/-- the magnitude `c·10^e` -/
def mag (c : Nat) (e : Int) : ℚ := (c : ℚ) * (10 : ℚ) ^ e

theorem fval_false (c : Nat) (e : Int) : fval false c e = mag c e := by simp [fval, mag]
theorem fval_true (c : Nat) (e : Int) : fval true c e = -mag c e := by simp [fval, mag]

theorem ten_zpow_pos (e : Int) : (0 : ℚ) < (10 : ℚ) ^ e := zpow_pos (by norm_num) e

theorem mag_nonneg (c : Nat) (e : Int) : 0 ≤ mag c e := mul_nonneg (Nat.cast_nonneg c) (ten_zpow_pos e).le

theorem mag_pos {c : Nat} (h : 0 < c) (e : Int) : 0 < mag c e :=
  mul_pos (by exact_mod_cast h) (ten_zpow_pos e)

theorem mag_zero (e : Int) : mag 0 e = 0 := by simp [mag]

theorem mag_lt_iff (a b : Nat) (e : Int) : mag a e < mag b e ↔ a < b := by
  unfold mag
  constructor
  · intro h
    have := lt_of_mul_lt_mul_right h (ten_zpow_pos e).le
    exact_mod_cast this
  · intro h
    exact mul_lt_mul_of_pos_right (by exact_mod_cast h) (ten_zpow_pos e)

theorem mag_le_iff (a b : Nat) (e : Int) : mag a e ≤ mag b e ↔ a ≤ b := by
  have := mag_lt_iff b a e
  constructor
  · intro h; by_contra hc; exact absurd (this.2 (by omega)) (not_lt.2 h)
  · intro h; exact not_lt.1 (fun hc => absurd (this.1 hc) (by omega))

theorem mag_pad (c : Nat) (e : Int) (k : Nat) : mag (c * 10 ^ k) (e - k) = mag c e := by
  have := fval_pad false c e k
  rwa [fval_false, fval_false] at this

/-- a magnitude with a larger exponent lies on the grid of the smaller exponent -/
theorem mag_grid (c : Nat) (e e' : Int) (h : e' ≤ e) : mag c e = mag (c * 10 ^ (e - e').toNat) e' := by
  have := mag_pad c e (e - e').toNat
  rw [← this]; congr 1; omega

theorem mag_mono_exp (c : Nat) {e e' : Int} (h : e ≤ e') : mag c e ≤ mag c e' := by
  unfold mag
  exact mul_le_mul_of_nonneg_left (zpow_le_zpow_right₀ (by norm_num) h) (Nat.cast_nonneg c)

theorem P34_eq : P34 = P33 * 10 ^ 1 := by decide

/-- a 34-digit coefficient at a smaller exponent stays below `10^33` units of the larger exponent -/
theorem mag_small (c : Nat) (e e' : Int) (hc : c < P34) (h : e < e') : mag c e < mag P33 e' := by
  calc mag c e < mag P34 e := (mag_lt_iff _ _ _).2 hc
    _ ≤ mag P34 (e' - 1) := mag_mono_exp _ (by omega)
    _ = mag P33 e' := by rw [P34_eq]; exact_mod_cast mag_pad P33 e' 1

/-- **Least member above.**  If `(c, e)` is in least-exponent form (`c ≥ 10^33` or `e = eMin`), every
member `(c'', e'')` of the format whose magnitude exceeds `c·10^e` is at least `(c+1)·10^e`. -/
theorem adj_above (c : Nat) (e : Int) (hn : P33 ≤ c ∨ e = eMin) (c'' : Nat) (e'' : Int)
    (hc'' : c'' < P34) (he'' : eMin ≤ e'') (h : mag c e < mag c'' e'') : mag (c + 1) e ≤ mag c'' e'' := by
  by_cases hle : e ≤ e''
  · rw [mag_grid c'' e'' e hle] at h ⊢
    rw [mag_lt_iff] at h; rw [mag_le_iff]; omega
  · exfalso
    have h1 := mag_small c'' e'' e hc'' (by omega)
    have h2 : P33 ≤ c := by rcases hn with hn | hn <;> omega
    have h3 := (mag_le_iff P33 c e).2 h2
    linarith

/-- **Greatest member below.**  If `c > 10^33` or `e = eMin`, every member of the format whose
magnitude is below `c·10^e` is at most `(c-1)·10^e`. -/
theorem adj_below (c : Nat) (e : Int) (hn : P33 < c ∨ e = eMin) (c'' : Nat) (e'' : Int)
    (hc'' : c'' < P34) (he'' : eMin ≤ e'') (h : mag c'' e'' < mag c e) : mag c'' e'' ≤ mag (c - 1) e := by
  by_cases hle : e ≤ e''
  · rw [mag_grid c'' e'' e hle] at h ⊢
    rw [mag_lt_iff] at h; rw [mag_le_iff]; omega
  · have h1 := mag_small c'' e'' e hc'' (by omega)
    have h2 : P33 ≤ c - 1 := by rcases hn with hn | hn <;> omega
    have h3 := (mag_le_iff P33 (c - 1) e).2 h2
    linarith

/-! ### helpers: `normalize` -/

theorem P33_lt_P34' : P33 < P34 := by decide
theorem P34_pow : P34 = 10 ^ 34 := by decide
theorem P33_pow : P33 = 10 ^ 33 := by decide

/-- `normalize` pads with `k` zeros, keeping the value, reaching the least possible exponent -/
theorem normalize_spec (c : Nat) (e : Int) (hc0 : 0 < c) (hc : c < P34) (he : eMin ≤ e) :
    ∃ k : Nat, normalize c e = (c * 10 ^ k, e - k) ∧ c * 10 ^ k < P34 ∧ eMin ≤ e - k ∧
      (P33 ≤ c * 10 ^ k ∨ e - (k : Int) = eMin) := by
  obtain ⟨h1, h2⟩ := ndigits_spec hc0
  have hp := ndigits_pos hc0
  have hnd : ndigits c ≤ 34 := by
    by_contra hcon
    have : 10 ^ 34 ≤ 10 ^ (ndigits c - 1) := Nat.pow_le_pow_right (by decide) (by omega)
    rw [P34_pow] at hc; omega
  by_cases hk : (34 : Int) - (ndigits c : Int) ≤ e - eMin
  · refine ⟨34 - ndigits c, ?_, ?_, by omega, Or.inl ?_⟩
    · simp only [normalize, hk, if_true]
      have : ((34 : Int) - (ndigits c : Int)).toNat = 34 - ndigits c := by omega
      rw [this]; congr 1; omega
    · calc c * 10 ^ (34 - ndigits c) < 10 ^ ndigits c * 10 ^ (34 - ndigits c) :=
            Nat.mul_lt_mul_of_pos_right h2 (pow10_pos _)
        _ = P34 := by rw [← Nat.pow_add, P34_pow]; congr 1; omega
    · calc P33 = 10 ^ (ndigits c - 1) * 10 ^ (34 - ndigits c) := by
            rw [← Nat.pow_add, P33_pow]; congr 1; omega
        _ ≤ c * 10 ^ (34 - ndigits c) := Nat.mul_le_mul_right _ h1
  · refine ⟨(e - eMin).toNat, ?_, ?_, by omega, Or.inr (by omega)⟩
    · simp only [normalize, hk, if_false]
      congr 1; omega
    · have hle : ndigits c + (e - eMin).toNat ≤ 34 := by omega
      calc c * 10 ^ (e - eMin).toNat < 10 ^ ndigits c * 10 ^ (e - eMin).toNat :=
            Nat.mul_lt_mul_of_pos_right h2 (pow10_pos _)
        _ = 10 ^ (ndigits c + (e - eMin).toNat) := by rw [← Nat.pow_add]
        _ ≤ P34 := by rw [P34_pow]; exact Nat.pow_le_pow_right (by decide) hle


/-! ### helpers: unfolding `nextUpD` on non-zero finite data -/

theorem nextUp_fin_pos (c : Nat) (e : Int) (hc0 : c ≠ 0) :
    nextUpD (.fin false c e) =
      if (normalize c e).1 + 1 = P34 then
        (if (normalize c e).2 + 1 > eMax then .inf false else .fin false P33 ((normalize c e).2 + 1))
      else .fin false ((normalize c e).1 + 1) (normalize c e).2 := by
  simp only [nextUpD, hc0, if_false, Bool.not_false, if_true]

theorem nextUp_fin_neg (c : Nat) (e : Int) (hc0 : c ≠ 0) :
    nextUpD (.fin true c e) =
      if (normalize c e).1 = P33 ∧ (normalize c e).2 > eMin then .fin true (P34 - 1) ((normalize c e).2 - 1)
      else .fin true ((normalize c e).1 - 1) (normalize c e).2 := by
  simp only [nextUpD, hc0, if_false, Bool.not_true, Bool.false_eq_true]

theorem fval_le_mag (s : Bool) (c : Nat) (e : Int) : fval s c e ≤ mag c e := by
  cases s
  · rw [fval_false]
  · rw [fval_true]; linarith [mag_nonneg c e]

theorem neg_mag_le_fval (s : Bool) (c : Nat) (e : Int) : -mag c e ≤ fval s c e := by
  cases s
  · rw [fval_false]; linarith [mag_nonneg c e]
  · rw [fval_true]

theorem fval_not (s : Bool) (c : Nat) (e : Int) : fval (!s) c e = -fval s c e := by
  cases s <;> simp [fval_false, fval_true]

/-- every member of the format above `c·10^e` (least-exponent form) is at least `(c+1)·10^e` -/
theorem succ_core (c : Nat) (e : Int) (hn : P33 ≤ c ∨ e = eMin) (s'' : Bool) (c'' : Nat) (e'' : Int)
    (hr : Representable c'' e'') (h : mag c e < fval s'' c'' e'') : mag (c + 1) e ≤ fval s'' c'' e'' := by
  cases s''
  · rw [fval_false] at h ⊢
    exact adj_above c e hn c'' e'' hr.1 hr.2.1 h
  · rw [fval_true] at h
    linarith [mag_nonneg c e, mag_nonneg c'' e'']

/-- every member of the format above `-(c·10^e)` is at least `-((c-1)·10^e)` -/
theorem pred_core (c : Nat) (e : Int) (hn : P33 < c ∨ e = eMin) (s'' : Bool) (c'' : Nat) (e'' : Int)
    (hr : Representable c'' e'') (h : -mag c e < fval s'' c'' e'') : -mag (c - 1) e ≤ fval s'' c'' e'' := by
  cases s''
  · rw [fval_false]
    linarith [mag_nonneg (c - 1) e, mag_nonneg c'' e'']
  · rw [fval_true] at h ⊢
    have := adj_below c e hn c'' e'' hr.1 hr.2.1 (by linarith)
    linarith

/-! ### the property -/

/-- `r` is the successor of the rational `x` in the format: either a finite member of the format,
strictly above `x`, below-or-equal every member of the format that is strictly above `x`, and written
with the least possible exponent (coefficient ≥ 10^33, or exponent = eMin); or `+Inf`, and then no
member of the format exceeds `x`. -/
def IsSucc (x : ℚ) : Datum → Prop
  | .fin s' c' e' => Representable c' e' ∧ x < fval s' c' e' ∧
      (∀ (s'' : Bool) (c'' : Nat) (e'' : Int), Representable c'' e'' → x < fval s'' c'' e'' →
        fval s' c' e' ≤ fval s'' c'' e'') ∧
      (P33 ≤ c' ∨ e' = eMin)
  | .inf s' => s' = false ∧ ∀ (s'' : Bool) (c'' : Nat) (e'' : Int), Representable c'' e'' → fval s'' c'' e'' ≤ x
  | .nan .. => False

/-- next_up of a positive finite non-zero member of the format is its successor -/
theorem nextUp_pos_isSucc (c : Nat) (e : Int) (hc0 : c ≠ 0) (hrep : Representable c e) :
    IsSucc (fval false c e) (nextUpD (.fin false c e)) := by
  obtain ⟨hc, he1, he2⟩ := hrep
  obtain ⟨k, hnorm, hlt, hemin, hform⟩ := normalize_spec c e (by omega) hc he1
  rw [nextUp_fin_pos c e hc0, hnorm, fval_false, ← mag_pad c e k]
  simp only
  have hpos : 0 < c * 10 ^ k := Nat.mul_pos (by omega) (pow10_pos k)
  have hstep : mag (c * 10 ^ k) (e - k) < mag (c * 10 ^ k + 1) (e - k) := (mag_lt_iff _ _ _).2 (by omega)
  split
  · rename_i h34
    have hP : mag P33 (e - k + 1) = mag (c * 10 ^ k + 1) (e - k) := by
      rw [h34, P34_eq]
      have := mag_pad P33 (e - k + 1) 1
      rw [← this]; congr 1; push_cast; ring
    split
    · rename_i hmax
      refine ⟨rfl, fun s'' c'' e'' hr => ?_⟩
      by_contra hcon
      have h1 := succ_core _ _ hform s'' c'' e'' hr (not_le.1 hcon)
      have h2 : fval s'' c'' e'' ≤ mag c'' e'' := fval_le_mag _ _ _
      have h3 : mag c'' e'' ≤ mag c'' (e - k) := mag_mono_exp _ (by have := hr.2.2; omega)
      have h4 : mag c'' (e - k) < mag (c * 10 ^ k + 1) (e - k) := (mag_lt_iff _ _ _).2 (by rw [h34]; exact hr.1)
      linarith
    · rename_i hmax
      refine ⟨⟨P33_lt_P34', by omega, by omega⟩, ?_, fun s'' c'' e'' hr hgt => ?_, Or.inl (le_refl _)⟩
      · rw [fval_false, hP]; exact hstep
      · rw [fval_false, hP]; exact succ_core _ _ hform s'' c'' e'' hr hgt
  · rename_i h34
    refine ⟨⟨by omega, hemin, by omega⟩, ?_, fun s'' c'' e'' hr hgt => ?_, ?_⟩
    · rw [fval_false]; exact hstep
    · rw [fval_false]; exact succ_core _ _ hform s'' c'' e'' hr hgt
    · rcases hform with h | h
      · left; omega
      · right; exact h

/-- next_up of a negative finite non-zero member of the format is its successor -/
theorem nextUp_neg_isSucc (c : Nat) (e : Int) (hc0 : c ≠ 0) (hrep : Representable c e) :
    IsSucc (fval true c e) (nextUpD (.fin true c e)) := by
  obtain ⟨hc, he1, he2⟩ := hrep
  obtain ⟨k, hnorm, hlt, hemin, hform⟩ := normalize_spec c e (by omega) hc he1
  rw [nextUp_fin_neg c e hc0, hnorm, fval_true, ← mag_pad c e k]
  simp only
  have hpos : 0 < c * 10 ^ k := Nat.mul_pos (by omega) (pow10_pos k)
  split
  · rename_i hB
    obtain ⟨hB1, hB2⟩ := hB
    have hP : mag (c * 10 ^ k) (e - k) = mag P34 (e - k - 1) := by
      rw [hB1, P34_eq]; exact (mag_pad P33 (e - k) 1).symm
    have h33 : P33 < P34 := P33_lt_P34'
    have h33' : P33 ≤ P34 - 1 := by unfold P33 P34; omega
    refine ⟨⟨by omega, by omega, by omega⟩, ?_, fun s'' c'' e'' hr hgt => ?_, Or.inl h33'⟩
    · rw [fval_true, hP]
      have : mag (P34 - 1) (e - k - 1) < mag P34 (e - k - 1) := (mag_lt_iff _ _ _).2 (by omega)
      linarith
    · rw [fval_true]; rw [hP] at hgt
      exact pred_core P34 (e - k - 1) (Or.inl h33) s'' c'' e'' hr hgt
  · rename_i hB
    have hn : P33 < c * 10 ^ k ∨ e - (k : Int) = eMin := by
      by_cases h : e - (k : Int) = eMin
      · right; exact h
      · left
        rcases hform with hf | hf
        · have : ¬ (c * 10 ^ k = P33) := fun h' => hB ⟨h', by omega⟩
          omega
        · exact absurd hf h
    refine ⟨⟨by omega, hemin, by omega⟩, ?_, fun s'' c'' e'' hr hgt => ?_, ?_⟩
    · rw [fval_true]
      have : mag (c * 10 ^ k - 1) (e - k) < mag (c * 10 ^ k) (e - k) := (mag_lt_iff _ _ _).2 (by omega)
      linarith
    · rw [fval_true]; exact pred_core _ _ hn s'' c'' e'' hr hgt
    · rcases hn with h | h
      · left; omega
      · right; exact h

/-- **C17, adjacency of next_up.**  For every finite non-zero member `x = (-1)^s·c·10^e` of the format
(`c < 10^34`, `eMin ≤ e ≤ eMax`, any cohort member — not necessarily normalised), `nextUpD x` is the
successor of x in the format in the sense of `IsSucc`: (a) a member of the format or +Inf; (b) strictly
greater than x; (c) no member of the format lies strictly between x and it (if +Inf: no member exceeds
x); (d) written with the least possible exponent. -/
theorem nextUp_isSucc (s : Bool) (c : Nat) (e : Int) (hc0 : c ≠ 0) (hrep : Representable c e) :
    IsSucc (fval s c e) (nextUpD (.fin s c e)) := by
  cases s
  · exact nextUp_pos_isSucc c e hc0 hrep
  · exact nextUp_neg_isSucc c e hc0 hrep

/-- (a) the result is a member of the format or +Inf (never NaN, never -Inf) -/
theorem nextUp_representable (s : Bool) (c : Nat) (e : Int) (hc0 : c ≠ 0) (hrep : Representable c e) :
    (∃ s' c' e', nextUpD (.fin s c e) = .fin s' c' e' ∧ Representable c' e') ∨
    nextUpD (.fin s c e) = .inf false := by
  have H := nextUp_isSucc s c e hc0 hrep
  cases hy : nextUpD (.fin s c e) with
  | fin s' c' e' => rw [hy] at H; exact Or.inl ⟨s', c', e', rfl, H.1⟩
  | inf s' => rw [hy] at H; right; rw [H.1]
  | nan a b p => rw [hy] at H; exact absurd H id

/-- (b) a finite result is strictly greater than x -/
theorem nextUp_gt (s : Bool) (c : Nat) (e : Int) (hc0 : c ≠ 0) (hrep : Representable c e)
    (s' : Bool) (c' : Nat) (e' : Int) (hy : nextUpD (.fin s c e) = .fin s' c' e') :
    fval s c e < fval s' c' e' := by
  have H := nextUp_isSucc s c e hc0 hrep
  rw [hy] at H; exact H.2.1

/-- (c) nothing in between: every member of the format strictly above x is at least the result -/
theorem nextUp_least (s : Bool) (c : Nat) (e : Int) (hc0 : c ≠ 0) (hrep : Representable c e)
    (s' : Bool) (c' : Nat) (e' : Int) (hy : nextUpD (.fin s c e) = .fin s' c' e')
    (s'' : Bool) (c'' : Nat) (e'' : Int) (hr : Representable c'' e'') (hgt : fval s c e < fval s'' c'' e'') :
    fval s' c' e' ≤ fval s'' c'' e'' := by
  have H := nextUp_isSucc s c e hc0 hrep
  rw [hy] at H; exact H.2.2.1 s'' c'' e'' hr hgt

/-- (c, overflow case) the result is infinite only for `x = +MAX = (10^34-1)·10^eMax` exactly, it is
then `+Inf`, and no member of the format exceeds x -/
theorem nextUp_inf (s : Bool) (c : Nat) (e : Int) (hc0 : c ≠ 0) (hrep : Representable c e)
    (s' : Bool) (hy : nextUpD (.fin s c e) = .inf s') :
    s' = false ∧ s = false ∧ c = P34 - 1 ∧ e = eMax ∧
    ∀ (s'' : Bool) (c'' : Nat) (e'' : Int), Representable c'' e'' → fval s'' c'' e'' ≤ fval s c e := by
  have H := nextUp_isSucc s c e hc0 hrep
  rw [hy] at H
  obtain ⟨hc, he1, he2⟩ := hrep
  obtain ⟨k, hnorm, hlt, hemin, hform⟩ := normalize_spec c e (by omega) hc he1
  cases s
  · rw [nextUp_fin_pos c e hc0, hnorm] at hy
    simp only at hy
    split at hy
    · rename_i h34
      split at hy
      · rename_i hmax
        have hk : k = 0 := by omega
        subst hk
        refine ⟨H.1, rfl, by simp at h34; omega, by omega, H.2⟩
      · exact absurd hy (by simp)
    · exact absurd hy (by simp)
  · rw [nextUp_fin_neg c e hc0, hnorm] at hy
    simp only at hy
    split at hy <;> exact absurd hy (by simp)

/-- (d) a finite result is written with the least possible exponent -/
theorem nextUp_least_exponent (s : Bool) (c : Nat) (e : Int) (hc0 : c ≠ 0) (hrep : Representable c e)
    (s' : Bool) (c' : Nat) (e' : Int) (hy : nextUpD (.fin s c e) = .fin s' c' e') :
    P33 ≤ c' ∨ e' = eMin := by
  have H := nextUp_isSucc s c e hc0 hrep
  rw [hy] at H; exact H.2.2.2

-- hypotheses are satisfiable, result non-trivial: 1 ↦ 1.000…001 (cohort member with 34 digits)
example : Representable 1 0 ∧ (1 : Nat) ≠ 0 ∧ nextUpD (.fin false 1 0) = .fin false (P33 + 1) (-33) := by
  refine ⟨⟨by decide, by decide, by decide⟩, by decide, by decide⟩
-- -1 ↦ -0.999…9
example : nextUpD (.fin true 1 0) = .fin true (P34 - 1) (-34) := by decide

/-! ### next_down ∘ next_up -/

theorem nextDown_fin (s : Bool) (c : Nat) (e : Int) :
    nextDownD (.fin s c e) = (nextUpD (.fin (!s) c e)).negate := rfl

theorem negate_fin (s : Bool) (c : Nat) (e : Int) : (Datum.fin s c e).negate = .fin (!s) c e := rfl

/-- **next_down is the mirror image**: for a finite non-zero member x of the format, a finite
`nextDownD x` is a member of the format, strictly below x, above-or-equal every member of the format
that is strictly below x, and in least-exponent form; an infinite result is `-Inf`, only for
`x = -MAX`. -/
theorem nextDown_isPred (s : Bool) (c : Nat) (e : Int) (hc0 : c ≠ 0) (hrep : Representable c e) :
    (∀ s' c' e', nextDownD (.fin s c e) = .fin s' c' e' →
      Representable c' e' ∧ fval s' c' e' < fval s c e ∧
      (∀ (s'' : Bool) (c'' : Nat) (e'' : Int), Representable c'' e'' → fval s'' c'' e'' < fval s c e →
        fval s'' c'' e'' ≤ fval s' c' e') ∧
      (P33 ≤ c' ∨ e' = eMin)) ∧
    (∀ s', nextDownD (.fin s c e) = .inf s' → s' = true ∧ s = true ∧ c = P34 - 1 ∧ e = eMax) ∧
    (∀ a b p, nextDownD (.fin s c e) ≠ .nan a b p) := by
  have H := nextUp_isSucc (!s) c e hc0 hrep
  rw [fval_not] at H
  rw [nextDown_fin]
  cases hz : nextUpD (.fin (!s) c e) with
  | nan a b p => rw [hz] at H; exact absurd H id
  | inf s2 =>
    obtain ⟨h1, h2, h3, h4, _⟩ := nextUp_inf (!s) c e hc0 hrep s2 hz
    refine ⟨fun s' c' e' h => by simp [Datum.negate, Datum.setSign] at h, fun s' h => ?_,
      fun a b p h => by simp [Datum.negate, Datum.setSign] at h⟩
    simp only [Datum.negate, Datum.setSign, Datum.neg, Datum.inf.injEq] at h
    subst h1
    refine ⟨by rw [← h]; rfl, by cases s <;> simp_all, h3, h4⟩
  | fin s2 c2 e2 =>
    rw [hz] at H
    obtain ⟨hzrep, hlt, hleast, hform⟩ := H
    refine ⟨fun s' c' e' h => ?_, fun s' h => by simp [Datum.negate, Datum.setSign] at h,
      fun a b p h => by simp [Datum.negate, Datum.setSign] at h⟩
    simp only [Datum.negate, Datum.setSign, Datum.neg, Datum.fin.injEq] at h
    obtain ⟨hs, hc', he'⟩ := h
    subst hs hc' he'
    refine ⟨hzrep, by rw [fval_not]; linarith, fun s'' c'' e'' hr hlt'' => ?_, hform⟩
    have := hleast (!s'') c'' e'' hr (by rw [fval_not]; linarith)
    rw [fval_not] at this ⊢
    linarith

example : nextDownD (.fin false 1 0) = .fin false (P34 - 1) (-34) := by decide

/-- **next_down undoes next_up in value**, for every finite member of the format (zero included; for
`x = +MAX` the intermediate result is +Inf).  The result need not be the same cohort member as x. -/
theorem nextDown_nextUp (s : Bool) (c : Nat) (e : Int) (hrep : Representable c e) :
    ∃ s' c' e', nextDownD (nextUpD (.fin s c e)) = .fin s' c' e' ∧ fval s' c' e' = fval s c e := by
  by_cases hc0 : c = 0
  · subst hc0
    refine ⟨false, 0, eMin, ?_, by simp [fval]⟩
    rw [(C17.nextUp_boundaries s e).2.2.2.1]; decide
  have H := nextUp_isSucc s c e hc0 hrep
  cases hy : nextUpD (.fin s c e) with
  | nan a b p => rw [hy] at H; exact absurd H id
  | inf sy =>
    obtain ⟨h1, h2, h3, h4, _⟩ := nextUp_inf s c e hc0 hrep sy hy
    subst h1 h2 h3 h4
    exact ⟨false, P34 - 1, eMax, C17.nextDown_boundaries.2.1, rfl⟩
  | fin sy cy ey =>
    rw [hy] at H
    obtain ⟨hyrep, hxy, hleast, _⟩ := H
    by_cases hcy : cy = 0
    · -- x is the negative number closest to zero
      subst hcy
      refine ⟨true, 1, eMin, ?_, ?_⟩
      · rw [nextDown_fin, (C17.nextUp_boundaries (!sy) ey).2.2.2.1]; rfl
      · have hy0 : fval sy 0 ey = 0 := by simp [fval]
        rw [hy0] at hxy hleast
        have hmin : Representable 1 eMin := ⟨by decide, by decide, by decide⟩
        have h1 : fval s c e ≥ fval true 1 eMin := by
          by_contra hcon
          have := hleast true 1 eMin hmin (not_le.1 hcon)
          rw [fval_true] at this
          linarith [mag_pos (show 0 < 1 by decide) eMin]
        have h2 : fval s c e ≤ fval true 1 eMin := by
          cases s
          · rw [fval_false] at hxy; linarith [mag_nonneg c e]
          · rw [fval_true, fval_true]
            have a1 : mag 1 eMin ≤ mag 1 e := mag_mono_exp 1 hrep.2.1
            have a2 : mag 1 e ≤ mag c e := (mag_le_iff _ _ _).2 (by omega)
            linarith
        linarith
    · have H2 := nextUp_isSucc (!sy) cy ey hcy hyrep
      rw [fval_not] at H2
      have hxrep : -fval sy cy ey < fval (!s) c e := by rw [fval_not]; linarith
      rw [nextDown_fin]
      cases hz : nextUpD (.fin (!sy) cy ey) with
      | nan a b p => rw [hz] at H2; exact absurd H2 id
      | inf s2 =>
        rw [hz] at H2
        have := H2.2 (!s) c e hrep
        linarith
      | fin s2 c2 e2 =>
        rw [hz] at H2
        obtain ⟨hzrep, hyz, hleast2, _⟩ := H2
        refine ⟨!s2, c2, e2, rfl, ?_⟩
        rw [fval_not]
        have h1 : fval s2 c2 e2 ≤ fval (!s) c e := hleast2 (!s) c e hrep hxrep
        rw [fval_not] at h1
        have h2 : ¬ fval s c e < -fval s2 c2 e2 := by
          intro hlt
          have := hleast (!s2) c2 e2 hzrep (by rw [fval_not]; exact hlt)
          rw [fval_not] at this
          linarith
        linarith [not_lt.1 h2]

example : nextDownD (nextUpD (.fin false 1 0)) = .fin false P33 (-33) := by decide +kernel

end Dec.C17Adjacent
