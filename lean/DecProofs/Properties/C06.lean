/-
  C06 — conversions to and from 32/64-bit integers are exact and range-checked.
-/
import DecModel.Ops

namespace Dec.C06

/-- an integer converts to coefficient |n|, exponent 0, sign of n -/
theorem fromInt_exact (n : Int) : fromIntD n = .fin (decide (n < 0)) n.natAbs 0 := rfl

theorem sInt_natAbs (n : Int) : sInt (decide (n < 0)) n.natAbs = n := by
  unfold sInt; split <;> rename_i h <;> simp at h <;> omega

/-- rounding an integer-valued datum of exponent 0 returns the integer itself and reports "exact",
in every direction -/
theorem roundToInt_fromInt (mode : Mode) (n : Int) :
    roundToInt mode (decide (n < 0)) n.natAbs 0 = (n, true) := by
  simp [roundToInt, sInt_natAbs]

/-- converting an integer to decimal and back returns it, raising nothing — for **every** integer of
the target range, every direction, with or without inexact signalling -/
theorem toInt_fromInt (mode : Mode) (xflag : Bool) (lo hi indef n : Int) (h : lo ≤ n ∧ n ≤ hi) :
    toIntD mode xflag lo hi indef (fromIntD n) = (n, 0) := by
  simp [toIntD, fromIntD, roundToInt_fromInt, h.1, h.2]

/-- when the rounded integer fits, it is returned; inexact only in the signalling variants and only
when the operand was not an integer -/
theorem toInt_in_range (mode : Mode) (xflag s : Bool) (lo hi indef : Int) (c : Nat) (e : Int)
    (h : lo ≤ (roundToInt mode s c e).1 ∧ (roundToInt mode s c e).1 ≤ hi) :
    toIntD mode xflag lo hi indef (.fin s c e) =
      ((roundToInt mode s c e).1, if xflag && !(roundToInt mode s c e).2 then fInexact else 0) := by
  simp [toIntD, h.1, h.2]

/-- when it does not fit, or the operand is NaN or infinite: the indefinite value and invalid only -/
theorem toInt_out_of_range (mode : Mode) (xflag s : Bool) (lo hi indef : Int) (c : Nat) (e : Int)
    (h : ¬ (lo ≤ (roundToInt mode s c e).1 ∧ (roundToInt mode s c e).1 ≤ hi)) :
    toIntD mode xflag lo hi indef (.fin s c e) = (indef, fInvalid) := by
  simp only [toIntD]
  split
  · rename_i h'; exact absurd h' h
  · rfl

theorem toInt_special (mode : Mode) (xflag s g : Bool) (lo hi indef : Int) (p : Nat) :
    toIntD mode xflag lo hi indef (.inf s) = (indef, fInvalid) ∧
    toIntD mode xflag lo hi indef (.nan s g p) = (indef, fInvalid) := by
  simp [toIntD]

/-- the rounded integer is exact for non-negative exponents, and otherwise is ± the rounded quotient -/
theorem roundToInt_spec (mode : Mode) (s : Bool) (c : Nat) (e : Int) :
    (0 ≤ e → roundToInt mode s c e = (sInt s (c * 10 ^ e.toNat), true)) ∧
    (e < 0 → roundToInt mode s c e =
      (sInt s (roundInt mode s (c / 10 ^ (-e).toNat) (c % 10 ^ (-e).toNat) (10 ^ (-e).toNat)),
       c % 10 ^ (-e).toNat == 0)) := by
  constructor
  · intro h; simp [roundToInt, h]
  · intro h; have : ¬ (e ≥ 0) := by omega
    simp [roundToInt, this]

/-- the indefinite values are the sign-bit-only patterns of each type -/
theorem indefinite_values :
    i32Ty.indef = -2^31 ∧ u32Ty.indef = 2^31 ∧ i64Ty.indef = -2^63 ∧ u64Ty.indef = 2^63 := by decide

example : toIntD .rne true (-2147483648) 2147483647 (-2147483648) (.fin false 25 (-1)) = (2, fInexact) := by decide
example : toIntD .rup false 0 4294967295 2147483648 (.fin true 3 (-1)) = (0, 0) := by decide
example : toIntD .rdn false 0 4294967295 2147483648 (.fin true 3 (-1)) = (2147483648, fInvalid) := by decide

end Dec.C06
