/-
  C04 (code level, numeric phase) — `DecModel/ScanNum.lean` transcribes lines 506–643 of
  `bid128_from_string_clear_status` (coefficient assembly by the ×10 chains in 64-bit halves, the rounding at digit 35,
  the sticky digit kept for results that will be subnormal, `bid_get_BID128`) and composes it with the scanner model
  into `fromStringCode`.  Here: on every well-formed literal of at most 100 significant digits the code-shaped
  pipeline returns the canonical encoding of `parseLiteralSpec` with exactly its flags, and never panics.
-/
import DecModel.ScanNum
import DecProofs.Properties.C04Scan
import DecProofs.Properties.C13PackHelpers
import DecProofs.Properties.C01ArithHelpers
import DecProofs.Core.RoundQ

namespace Dec.C04ScanNum
open Dec.PackH Dec.ScanNum Dec.C13PackHelpers

set_option linter.unnecessarySeqFocus false

/-! ## 1. `buffer`: indices and slices -/

theorem arrOf_length (buf : Bytes) : (arrOf buf).length = 100 := by
  simp [arrOf]

theorem arrOf_take (buf : Bytes) (b : Nat) (hb : b ≤ buf.length) (h100 : buf.length ≤ 100) :
    (arrOf buf).take b = buf.take b := by
  unfold arrOf
  rw [List.take_take, Nat.min_eq_left (by omega), List.take_append_of_le_length hb]

theorem arrOf_getElem? (buf : Bytes) (i : Nat) (hi : i < buf.length) (h100 : buf.length ≤ 100) :
    (arrOf buf)[i]? = buf[i]? := by
  unfold arrOf
  rw [List.getElem?_take_of_lt (by omega), List.getElem?_append_left hi]

theorem slice_arrOf (buf : Bytes) (a b : Nat) (hab : a ≤ b) (hb : b ≤ buf.length) (h100 : buf.length ≤ 100) :
    slice (arrOf buf) a b = some ((buf.take b).drop a) := by
  unfold slice
  rw [arrOf_length, if_pos ⟨hab, by omega⟩, arrOf_take buf b hb h100]

/-! ## 2. the ×10 chains -/

theorem digitWord_digit (d : Nat) (hd : isDigitB d = true) : digitWord d = d - 48 := by
  simp only [isDigitB, Bool.and_eq_true, decide_eq_true_eq] at hd
  unfold digitWord wordOfI32
  have h : ((d : Int) - 48) % 18446744073709551616 = (d : Int) - 48 := Int.emod_eq_of_lt (by omega) (by omega)
  rw [h]
  omega

theorem chainStep_val (c ch : Nat) (hch : 48 ≤ ch) (hb : 10 * c + ch < 2 ^ 64) :
    chainStep c ch = 10 * c + (ch - 48) := by
  simp only [chainStep, AH.add64, AH.sub64, AH.shl64, Nat.reduceMod, Nat.reducePow]
  omega

theorem chain_val (ds : Bytes) (hds : ∀ b ∈ ds, isDigitB b = true) :
    ∀ c, c * 10 ^ ds.length + digitsVal ds < 10 ^ 19 → chain c ds = c * 10 ^ ds.length + digitsVal ds := by
  induction ds with
  | nil => intro c _; simp [chain, digitsVal]
  | cons d t ih =>
    intro c hc
    have hd : isDigitB d = true := hds d (by simp)
    have hd' : 48 ≤ d ∧ d ≤ 57 := by simpa only [isDigitB, Bool.and_eq_true, decide_eq_true_eq] using hd
    have hP : 0 < 10 ^ t.length := Nat.pow_pos (by decide)
    rw [digitsVal_cons, List.length_cons, Nat.pow_succ] at hc ⊢
    have e1 : c * (10 ^ t.length * 10) + ((d - 48) * 10 ^ t.length + digitsVal t)
        = (10 * c + (d - 48)) * 10 ^ t.length + digitsVal t := by ring
    rw [e1] at hc ⊢
    have hle : 10 * c + (d - 48) ≤ (10 * c + (d - 48)) * 10 ^ t.length := Nat.le_mul_of_pos_right _ hP
    have hstep : chainStep c d = 10 * c + (d - 48) := chainStep_val c d hd'.1 (by
      have : (10 : Nat) ^ 19 + 48 < 2 ^ 64 := by norm_num
      omega)
    have := ih (fun b hb => hds b (by simp [hb])) (10 * c + (d - 48)) hc
    simp only [chain, List.foldl_cons] at this ⊢
    rw [hstep, this]

/-- reading a run of digits `buffer[a..b]` (at most 19 of them) gives its value -/
theorem readRun_val (buf : Bytes) (hbuf : ∀ b ∈ buf, isDigitB b = true) (h100 : buf.length ≤ 100) (a b : Nat)
    (hab : a < b) (hb : b ≤ buf.length) (h19 : b - a ≤ 19) :
    readRun (arrOf buf) a b = some (digitsVal ((buf.take b).drop a)) := by
  unfold readRun
  rw [arrOf_getElem? buf a (by omega) h100, slice_arrOf buf (a + 1) b (by omega) hb h100]
  have ha : a < buf.length := by omega
  rw [List.getElem?_eq_getElem ha]
  simp only [Option.bind_eq_bind, Option.bind_some]
  have hmem : buf[a] ∈ buf := List.getElem_mem ha
  have hrun : (buf.take b).drop a = buf[a] :: (buf.take b).drop (a + 1) := by
    have h1 : a < (buf.take b).length := by rw [List.length_take]; omega
    rw [List.drop_eq_getElem_cons h1, List.getElem_take]
  have hdig : ∀ x ∈ (buf.take b).drop (a + 1), isDigitB x = true := fun x hx =>
    hbuf x (List.mem_of_mem_take (List.mem_of_mem_drop hx))
  have hlen : ((buf.take b).drop (a + 1)).length = b - a - 1 := by
    rw [List.length_drop, List.length_take]; omega
  rw [hrun, digitsVal_cons, digitWord_digit _ (hbuf _ hmem)]
  have hlt := digitsVal_lt ((buf.take b).drop (a + 1)) hdig
  have hd' : buf[a] - 48 ≤ 9 := by
    have := hbuf _ hmem
    simp only [isDigitB, Bool.and_eq_true, decide_eq_true_eq] at this; omega
  rw [chain_val _ hdig]
  rw [hlen] at hlt ⊢
  have hp : 10 ^ (b - a - 1) ≤ 10 ^ 18 := Nat.pow_le_pow_right (by decide) (by omega)
  have : (buf[a] - 48) * 10 ^ (b - a - 1) ≤ 9 * 10 ^ 18 := Nat.mul_le_mul hd' hp
  have : (9 : Nat) * 10 ^ 18 + 10 ^ 18 = 10 ^ 19 := by norm_num
  omega

/-! ## 3. assembling the two halves -/

/-- `assemble`: the two words of `coeff_high · scale_high + coeff_low` (both factors below 2^63, as the source comment
of `__mul_64x64_to_128_fast` demands) -/
theorem assemble_val (h s lo : Nat) (hh : h < 2 ^ 63) (hs : s < 2 ^ 63) (hlo : lo < 2 ^ 64) :
    (assemble h s lo).1 < 2 ^ 64 ∧ (assemble h s lo).2 < 2 ^ 64 ∧
      (assemble h s lo).1 + 2 ^ 64 * (assemble h s lo).2 = h * s + lo := by
  have hv := C01ArithHelpers.mul64x64to128Fast_spec (CX := h) (CY := s) (by omega) (by omega)
  obtain ⟨-, hw0, hw1⟩ := C01ArithHelpers.mul64x64to128Fast_general (CX := h) (CY := s) (by omega) (by omega)
  have hP : h * s < 2 ^ 63 * 2 ^ 63 := Nat.mul_lt_mul'' hh hs
  simp only [AH.U128.val] at hv
  simp only [assemble]
  generalize (AH.mul64x64to128Fast h s).w0 = w0 at *
  generalize (AH.mul64x64to128Fast h s).w1 = w1 at *
  generalize h * s = P at *
  have hw1' : w1 < 2 ^ 63 := by omega
  by_cases hcarry : AH.add64 w0 lo < lo
  · rw [if_pos hcarry]
    simp only [AH.add64] at hcarry ⊢
    refine ⟨by omega, by omega, by omega⟩
  · rw [if_neg hcarry]
    simp only [AH.add64] at hcarry ⊢
    refine ⟨by omega, by omega, by omega⟩

/-! ## 4. `bid_get_BID128` returns the canonical encoding of `finish` (clear status word) -/

/-- `get_eq_finish` with the pattern itself (not its decoding): the result of `bid_get_BID128` on a clear status word
is the canonical encoding of the datum `finish` delivers, and the status word is `finish`'s flags. -/
theorem get_finish_bits (sgn : Nat) (e : Int) (c0 c1 : Nat) (mode : Mode) (hs : sgn = 0 ∨ sgn = 2 ^ 63)
    (hc0 : c0 < 2 ^ 64) (hc1 : c1 < 2 ^ 64) (hC0 : 0 < c0 + 2 ^ 64 * c1) (hC : c0 + 2 ^ 64 * c1 ≤ 10 ^ 34)
    (he : -2147483648 ≤ e) (he' : e < 2147483647) :
    ∃ r, get_BID128 sgn e (c0, c1) mode 0
        = some (r, (finish mode (decide (sgn ≠ 0)) (c0 + 2 ^ 64 * c1) 1 (e - 6176) (e - 6176)).2) ∧
      bits r = encode (finish mode (decide (sgn ≠ 0)) (c0 + 2 ^ 64 * c1) 1 (e - 6176) (e - 6176)).1 := by
  have hn := norm34_lt (c0 + 2 ^ 64 * c1) e hC
  rcases lt_trichotomy (norm34 (c0 + 2 ^ 64 * c1) e).2 0 with hlt | heq | hgt
  · obtain ⟨r, m, hget, hround, hbits, hdec⟩ :=
      get_underflow_decode sgn e c0 c1 mode 0 hs hc0 hc1 hC he he' hlt (Or.inl (by omega))
    have hm : m < 10 ^ 34 := by
      have := decode_WF (bits r)
      rw [hdec] at this
      simpa [Datum.WF, P34_eq'] using this.1
    rw [ufFlags_zero] at hget
    by_cases hr : (norm34 (c0 + 2 ^ 64 * c1) e).1 % 10 ^ (-(norm34 (c0 + 2 ^ 64 * c1) e).2).toNat = 0
    · have hD : 0 < 10 ^ (-(norm34 (c0 + 2 ^ 64 * c1) e).2).toNat := Nat.pow_pos (by decide)
      have h2 := roundInt_divmod_spec mode (decide (sgn ≠ 0)) (norm34 (c0 + 2 ^ 64 * c1) e).1 _ hD
      rw [hr, roundInt_zero_rem] at h2
      have hmq := RoundedInt_unique mode _ _ _ _ _ hD hround h2
      rw [finish_uf_exact mode _ _ e hC0 hC hlt hr, ← hmq]
      simp only [hr, decide_true, if_true] at hget
      exact ⟨r, hget, hbits⟩
    · rw [finish_uf_inexact mode _ _ e hC0 hC hlt hr m hm hround]
      simp only [hr, decide_false, Bool.false_eq_true, if_false] at hget
      exact ⟨r, hget, hbits⟩
  · obtain ⟨r, hget, hbits⟩ := get_in_range sgn e c0 c1 mode 0 hs hc0 hc1 hC (by omega) (by omega)
    rw [finish_in_range mode _ _ e hC0 hC (by omega) (by omega)]
    exact ⟨r, hget, hbits⟩
  · by_cases hin : (norm34 (c0 + 2 ^ 64 * c1) e).2 ≤ 12287
    · obtain ⟨r, hget, hbits⟩ := get_in_range sgn e c0 c1 mode 0 hs hc0 hc1 hC (by omega) hin
      rw [finish_in_range mode _ _ e hC0 hC (by omega) hin]
      exact ⟨r, hget, hbits⟩
    · have h0 : (norm34 (c0 + 2 ^ 64 * c1) e).2 > 12287 := by omega
      obtain ⟨hA, hB⟩ := get_overflow sgn e c0 c1 mode 0 hs hc0 hc1 hC he he' h0
      by_cases hpad : (norm34 (c0 + 2 ^ 64 * c1) e).1 * 10 ^ ((norm34 (c0 + 2 ^ 64 * c1) e).2 - 12287).toNat < 10 ^ 34
      · obtain ⟨r, hget, hbits⟩ := hA hpad
        rw [finish_pad mode _ _ e hC0 h0 hpad]
        exact ⟨r, hget, hbits⟩
      · obtain ⟨r, hget, hbits⟩ := hB hpad
        rw [finish_ovf mode _ _ e hC0 h0 hpad]
        rw [Nat.zero_or] at hget
        exact ⟨r, hget, hbits⟩

/-! ## 5. at most 34 digits -/

/-- the sign word `sign_x` -/
def signW (neg : Bool) : Nat := if neg then 0x8000000000000000 else 0

theorem signW_cases (neg : Bool) : signW neg = 0 ∨ signW neg = 2 ^ 63 := by
  cases neg <;> simp [signW]

theorem signW_ne (neg : Bool) : decide (signW neg ≠ 0) = neg := by
  cases neg <;> simp [signW]

/-- what the literal with significant digits `C` and exponent `E` must convert to (`parseLiteralSpec`) -/
def specOf (mode : Mode) (neg : Bool) (C : Nat) (E : Int) : Datum × Flags :=
  if C = 0 then (zeroAt neg E, 0) else finish mode neg C 1 E E

/-- a digit string that does not begin with `0` denotes a positive number -/
theorem digitsVal_pos (sig : Bytes) (hsig : ∀ b ∈ sig, isDigitB b = true) (hne : sig ≠ [])
    (hhead : sig.head? ≠ some 48) : 10 ^ (sig.length - 1) ≤ digitsVal sig := by
  rcases sig with _ | ⟨d, t⟩
  · exact absurd rfl hne
  · have := C04Scan.digitsVal_ge d t (hsig d (by simp)) (by simpa using hhead)
    simpa using this

/-- the zero of line 512 -/
theorem zero_bits (neg : Bool) (E : Int) :
    bits128 (0, signW neg ||| AH.shl64
      (if E + 6176 < 0 then (0 : Int) else if E + 6176 > 12287 then 12287 else E + 6176).toNat 49)
      = encode (zeroAt neg E) := by
  obtain ⟨x, hx, hx2⟩ : ∃ x : Nat, x = (if E + 6176 < 0 then (0 : Int) else if E + 6176 > 12287 then 12287
      else E + 6176).toNat ∧ x ≤ 12287 := ⟨_, rfl, by split_ifs <;> omega⟩
  rw [← hx]
  have hcl : (clampInt eMin eMax E + 6176).toNat = x := by
    rw [hx]; unfold clampInt eMin eMax; split_ifs <;> omega
  have hsh : AH.shl64 x 49 = x * 2 ^ 49 := by
    simp only [AH.shl64, Nat.reduceMod]
    exact Nat.mod_eq_of_lt (by omega)
  rw [hsh]
  simp only [bits128, zeroAt, encode, hcl, signBit]
  cases neg
  · simp only [signW, Bool.false_eq_true, if_false, Nat.zero_or]; omega
  · have := or_eq_add_of_lt 63 1 (x * 2 ^ 49) (by omega)
    simp only [signW, if_true]
    rw [show (0x8000000000000000 : Nat) = 2 ^ 63 * 1 by norm_num, this]
    omega

/-- packing a positive coefficient `≤ 10^34` given by its two words, on a clear status word -/
theorem pack_finish (mode : Mode) (neg : Bool) (E : Int) (c0 c1 C : Nat) (hc0 : c0 < 2 ^ 64) (hc1 : c1 < 2 ^ 64)
    (hC : c0 + 2 ^ 64 * c1 = C) (hC0 : 0 < C) (hC34 : C ≤ 10 ^ 34)
    (hE1 : -2147483648 ≤ E + 6176) (hE2 : E + 6176 < 2147483647) :
    pack (signW neg) (E + 6176) (c0, c1) mode 0
      = some (encode (finish mode neg C 1 E E).1, (finish mode neg C 1 E E).2) := by
  obtain ⟨r, hget, hbits⟩ := get_finish_bits (signW neg) (E + 6176) c0 c1 mode (signW_cases neg)
    hc0 hc1 (by rw [hC]; exact hC0) (by rw [hC]; exact hC34) hE1 hE2
  have hEe : E + 6176 - 6176 = E := by omega
  rw [hC, signW_ne, hEe] at hget hbits
  unfold pack
  rw [hget, Option.map_some, ← hbits]
  rfl

theorem small_le19 (mode : Mode) (neg : Bool) (sig : Bytes) (E : Int)
    (hsig : ∀ b ∈ sig, isDigitB b = true) (hhead : sig.head? ≠ some 48) (h0 : sig.length ≠ 0) (h19 : sig.length ≤ 19)
    (hE1 : -2147483648 ≤ E + 6176) (hE2 : E + 6176 < 2147483647) :
    (readRun (arrOf sig) 0 sig.length).bind (fun coeffHigh => pack (signW neg) (E + 6176) (coeffHigh, 0) mode 0)
      = some (encode (finish mode neg (digitsVal sig) 1 E E).1, (finish mode neg (digitsVal sig) 1 E E).2) := by
  have hne : sig ≠ [] := fun h => h0 (by rw [h]; rfl)
  have hpos := digitsVal_pos sig hsig hne hhead
  have hC0 : 0 < digitsVal sig := lt_of_lt_of_le (Nat.pow_pos (by decide)) hpos
  have hlt := digitsVal_lt sig hsig
  have hC34 : digitsVal sig ≤ 10 ^ 34 :=
    le_of_lt (lt_of_lt_of_le hlt (Nat.pow_le_pow_right (by decide) (by omega)))
  have hc0 : digitsVal sig < 2 ^ 64 :=
    lt_of_lt_of_le hlt (le_trans (Nat.pow_le_pow_right (by decide) h19) (by norm_num))
  rw [readRun_val sig hsig (by omega) 0 sig.length (by omega) (le_refl _) (by omega), List.take_length,
    List.drop_zero, Option.bind_some]
  exact pack_finish mode neg E (digitsVal sig) 0 (digitsVal sig) hc0 (by norm_num) (by omega) hC0 hC34 hE1 hE2

/-- a digit string of `a + 17` digits is its first `a` digits times `10^17` plus its last 17 -/
theorem split17 (sig : Bytes) (h17 : 17 ≤ sig.length) :
    digitsVal sig = digitsVal (sig.take (sig.length - 17)) * 10 ^ 17 + digitsVal (sig.drop (sig.length - 17)) := by
  have := digitsVal_append (sig.take (sig.length - 17)) (sig.drop (sig.length - 17))
  rw [List.take_append_drop] at this
  rw [this, List.length_drop]
  congr 3; omega

theorem small_le34 (mode : Mode) (neg : Bool) (sig : Bytes) (E : Int)
    (hsig : ∀ b ∈ sig, isDigitB b = true) (hhead : sig.head? ≠ some 48) (h19 : ¬ sig.length ≤ 19)
    (hn : sig.length ≤ 34) (hE1 : -2147483648 ≤ E + 6176) (hE2 : E + 6176 < 2147483647) :
    (readRun (arrOf sig) 0 (sig.length - 17)).bind (fun coeffHigh =>
      (readRun (arrOf sig) (sig.length - 17) sig.length).bind (fun coeffLow =>
        pack (signW neg) (E + 6176) (assemble coeffHigh 100000000000000000 coeffLow) mode 0))
      = some (encode (finish mode neg (digitsVal sig) 1 E E).1, (finish mode neg (digitsVal sig) 1 E E).2) := by
  have hne : sig ≠ [] := fun h => h19 (by rw [h]; simp)
  have hpos := digitsVal_pos sig hsig hne hhead
  have hC0 : 0 < digitsVal sig := lt_of_lt_of_le (Nat.pow_pos (by decide)) hpos
  have hlt := digitsVal_lt sig hsig
  have hC34 : digitsVal sig ≤ 10 ^ 34 :=
    le_of_lt (lt_of_lt_of_le hlt (Nat.pow_le_pow_right (by decide) hn))
  have hn17 : sig.length - 17 ≤ sig.length := by omega
  rw [readRun_val sig hsig (by omega) 0 (sig.length - 17) (by omega) hn17 (by omega), List.drop_zero,
    Option.bind_some,
    readRun_val sig hsig (by omega) (sig.length - 17) sig.length (by omega) (le_refl _) (by omega),
    List.take_length, Option.bind_some]
  have hsplit := split17 sig (by omega)
  have hH := digitsVal_lt (sig.take (sig.length - 17)) (fun b hb => hsig b (List.mem_of_mem_take hb))
  have hL := digitsVal_lt (sig.drop (sig.length - 17)) (fun b hb => hsig b (List.mem_of_mem_drop hb))
  rw [List.length_take, Nat.min_eq_left hn17] at hH
  rw [List.length_drop, show sig.length - (sig.length - 17) = 17 by omega] at hL
  have hH' : digitsVal (sig.take (sig.length - 17)) < 10 ^ 17 :=
    lt_of_lt_of_le hH (Nat.pow_le_pow_right (by decide) (by omega))
  generalize digitsVal (sig.take (sig.length - 17)) = H at *
  generalize digitsVal (sig.drop (sig.length - 17)) = L at *
  obtain ⟨a0, a1, aval⟩ := assemble_val H 100000000000000000 L (by omega) (by norm_num) (by omega)
  generalize assemble H 100000000000000000 L = CX at a0 a1 aval
  obtain ⟨c0, c1⟩ := CX
  exact pack_finish mode neg E c0 c1 (digitsVal sig) a0 a1 (by rw [aval, hsplit]; norm_num) hC0 hC34 hE1 hE2

/-- **At most 34 digits** (lines 506–550): the digits are assembled exactly and packed; the result is the canonical
encoding of the literal's `finish` value with exactly its flags (a zero for no digits at all). -/
theorem smallPath_correct (mode : Mode) (neg : Bool) (sig : Bytes) (E : Int)
    (hsig : ∀ b ∈ sig, isDigitB b = true) (hhead : sig.head? ≠ some 48) (hn : sig.length ≤ 34)
    (hE1 : -2147483648 ≤ E + 6176) (hE2 : E + 6176 < 2147483647) :
    smallPath mode (signW neg) (arrOf sig) sig.length (E + 6176)
      = some (encode (specOf mode neg (digitsVal sig) E).1, (specOf mode neg (digitsVal sig) E).2) := by
  unfold smallPath
  by_cases h0 : sig.length = 0
  · rw [if_pos h0]
    have : sig = [] := List.eq_nil_of_length_eq_zero h0
    subst this
    simp only
    rw [zero_bits]
    simp only [specOf, digitsVal_nil, if_true]
  · rw [if_neg h0]
    have hne : sig ≠ [] := fun h => h0 (by rw [h]; rfl)
    have hpos := digitsVal_pos sig hsig hne hhead
    have hC0 : 0 < digitsVal sig := lt_of_lt_of_le (Nat.pow_pos (by decide)) hpos
    have hspec : specOf mode neg (digitsVal sig) E = finish mode neg (digitsVal sig) 1 E E := by
      unfold specOf; rw [if_neg (by omega)]
    rw [hspec]
    by_cases h19 : sig.length ≤ 19
    · rw [if_pos h19]
      exact small_le19 mode neg sig E hsig hhead h0 h19 hE1 hE2
    · rw [if_neg h19]
      exact small_le34 mode neg sig E hsig hhead h19 hn hE1 hE2

/-! ## 6. `finish` on a 34-digit number followed by a non-zero tail: `(C + T/Y)·10^x` -/

theorem finish_congr_val (mode : Mode) (neg : Bool) (n d n' d' : Nat) (e e' pref : Int) (hn : 0 < n) (hd : 0 < d)
    (hn' : 0 < n') (hd' : 0 < d') (hv : (n : ℚ) / d * (10 : ℚ) ^ e = (n' : ℚ) / d' * (10 : ℚ) ^ e') :
    finish mode neg n d e pref = finish mode neg n' d' e' pref := by
  rw [finish_eq_iff mode neg n d e pref hn hd, hv, ← finish_eq_iff mode neg n' d' e' pref hn' hd']

/-- `C + T/Y` lies in `[C, C + 1)` -/
theorem frac_bounds (C Y T : Nat) (hT : T < Y) :
    (C : ℚ) ≤ ((C * Y + T : Nat) : ℚ) / Y ∧ ((C * Y + T : Nat) : ℚ) / Y < (C : ℚ) + 1 := by
  have hY : (0 : ℚ) < Y := by exact_mod_cast (by omega : 0 < Y)
  have hTq : (T : ℚ) < Y := by exact_mod_cast hT
  have hT0 : (0 : ℚ) ≤ T := by positivity
  rw [← quot_add_rem_div C T Y (by omega)]
  constructor
  · have : (0 : ℚ) ≤ (T : ℚ) / Y := by positivity
    linarith
  · have : (T : ℚ) / Y < 1 := by rw [div_lt_one hY]; exact hTq
    linarith

theorem div_zpow_ten (w : ℚ) (x x' : Int) : w * (10 : ℚ) ^ x / (10 : ℚ) ^ x' = w * (10 : ℚ) ^ (x - x') := by
  rw [zpow_sub₀ ten_ne]
  have : (10 : ℚ) ^ x' ≠ 0 := (ten_zpow_pos _).ne'
  field_simp

/-- a 34-digit number with a proper fraction after it is not a member of the format, at any exponent -/
theorem not_member_of_frac (C Y T : Nat) (x : Int) (hC : 10 ^ 33 ≤ C) (hT0 : 0 < T) (hT : T < Y) :
    ¬ IsMember (((C * Y + T : Nat) : ℚ) / Y * (10 : ℚ) ^ x) := by
  rintro ⟨m', x', hr, hv⟩
  rw [fval_false] at hv
  have hY : 0 < Y := by omega
  have hw : (10 : ℚ) ^ (33 : ℤ) ≤ ((C * Y + T : Nat) : ℚ) / Y := by
    refine le_trans ?_ (frac_bounds C Y T hT).1
    exact_mod_cast hC
  have hx := member_ge_x0 hr hv (Or.inr hw)
  have hint := member_int hx hv
  have hYq : (Y : ℚ) ≠ 0 := by exact_mod_cast hY.ne'
  have : ((C * Y + T : Nat) : ℚ) = ((m' * 10 ^ (x' - x).toNat * Y : Nat) : ℚ) := by
    rw [Nat.cast_mul (m' * 10 ^ (x' - x).toNat) Y, ← hint]; field_simp
  have hnat : C * Y + T = m' * 10 ^ (x' - x).toNat * Y := by exact_mod_cast this
  have : T % Y = 0 := by
    have h1 : (C * Y + T) % Y = 0 := by rw [hnat]; exact Nat.mul_mod_left _ _
    rwa [Nat.mul_comm, Nat.mul_add_mod] at h1
  rw [Nat.mod_eq_of_lt hT] at this
  omega

/-- the value is at least `10^33 · 10^x` -/
theorem frac_val_ge (C Y T : Nat) (x : Int) (hC : 10 ^ 33 ≤ C) (hT : T < Y) :
    (10 : ℚ) ^ (33 + x) ≤ ((C * Y + T : Nat) : ℚ) / Y * (10 : ℚ) ^ x := by
  rw [zpow_add₀ ten_ne]
  apply mul_le_mul_of_nonneg_right _ (ten_zpow_pos _).le
  refine le_trans ?_ (frac_bounds C Y T hT).1
  exact_mod_cast hC

/-- rounding `(C + T/Y)·10^k` for `k ≥ 1` gives at least `10^34` -/
theorem frac_scaled_ge (mode : Mode) (neg : Bool) (C Y T : Nat) (d : Int) (hd : 1 ≤ d) (hC : 10 ^ 33 ≤ C) (hT : T < Y)
    (M' : Nat) (h : RoundedTo mode neg (((C * Y + T : Nat) : ℚ) / Y * (10 : ℚ) ^ d) M') : P34 ≤ M' := by
  apply RoundedTo_ge _ h
  have h1 : (10 : ℚ) ^ (1 : ℤ) ≤ (10 : ℚ) ^ d := zpow_le_zpow_right₀ one_lt_ten.le hd
  have h2 : ((10 ^ 33 : Nat) : ℚ) ≤ ((C * Y + T : Nat) : ℚ) / Y :=
    le_trans (by exact_mod_cast hC) (frac_bounds C Y T hT).1
  have h3 : (0 : ℚ) ≤ ((C * Y + T : Nat) : ℚ) / Y := le_trans (by positivity) h2
  calc ((P34 : Nat) : ℚ) = ((10 ^ 33 : Nat) : ℚ) * (10 : ℚ) ^ (1 : ℤ) := by rw [P34_cast]; norm_num
    _ ≤ ((C * Y + T : Nat) : ℚ) / Y * (10 : ℚ) ^ (1 : ℤ) := mul_le_mul_of_nonneg_right h2 (by norm_num)
    _ ≤ ((C * Y + T : Nat) : ℚ) / Y * (10 : ℚ) ^ d := mul_le_mul_of_nonneg_left h1 h3

/-- **normal range, inexact, no carry**: the 34 digits rounded by the tail, at their own exponent; inexact only -/
theorem finish_frac_normal (mode : Mode) (neg : Bool) (C Y T : Nat) (x pref : Int) (hC1 : 10 ^ 33 ≤ C)
    (hT0 : 0 < T) (hT : T < Y) (hx0 : eMin ≤ x) (hx1 : x ≤ eMax) (hM : roundInt mode neg C T Y < 10 ^ 34) :
    finish mode neg (C * Y + T) Y x pref = (.fin neg (roundInt mode neg C T Y) x, fInexact) := by
  have hY : 0 < Y := by omega
  rw [finish_eq_iff mode neg _ Y x pref (by omega) hY]
  right; left
  refine ⟨not_member_of_frac C Y T x hC1 hT0 hT, roundInt mode neg C T Y, x, ?_, by rw [P34_eq']; exact hM, hx0, hx1,
    ?_, ?_⟩
  · have hge := frac_val_ge C Y T x hC1 hT
    have : (10 : ℚ) ^ (-6143 : ℤ) ≤ (10 : ℚ) ^ (33 + x) :=
      zpow_le_zpow_right₀ one_lt_ten.le (by unfold eMin at hx0; omega)
    rw [if_neg (not_lt.2 (le_trans this hge))]
  · rw [div_zpow_ten, sub_self, zpow_zero, mul_one, ← quot_add_rem_div C T Y hY]
    exact roundInt_RoundedTo mode neg C T Y hT
  · intro x' M' h1 h2 h3
    rw [div_zpow_ten] at h3
    exact frac_scaled_ge mode neg C Y T (x - x') (by omega) hC1 hT M' h3

/-- **normal range, inexact, carry to `10^34`**: `10^33` one exponent up -/
theorem finish_frac_carry (mode : Mode) (neg : Bool) (C Y T : Nat) (x pref : Int) (hC1 : 10 ^ 33 ≤ C)
    (hT0 : 0 < T) (hT : T < Y) (hx0 : eMin ≤ x) (hx1 : x + 1 ≤ eMax) (hM : roundInt mode neg C T Y = 10 ^ 34) :
    finish mode neg (C * Y + T) Y x pref = (.fin neg (10 ^ 33) (x + 1), fInexact) := by
  have hY : 0 < Y := by omega
  have hR : RoundedTo mode neg (((C * Y + T : Nat) : ℚ) / Y) P34 := by
    have := roundInt_RoundedTo mode neg C T Y hT
    rwa [quot_add_rem_div C T Y hY, hM, ← P34_eq'] at this
  rw [finish_eq_iff mode neg _ Y x pref (by omega) hY]
  right; left
  refine ⟨not_member_of_frac C Y T x hC1 hT0 hT, 10 ^ 33, x + 1, ?_, by rw [P34_eq']; norm_num, by omega, hx1, ?_, ?_⟩
  · have hge := frac_val_ge C Y T x hC1 hT
    have : (10 : ℚ) ^ (-6143 : ℤ) ≤ (10 : ℚ) ^ (33 + x) :=
      zpow_le_zpow_right₀ one_lt_ten.le (by unfold eMin at hx0; omega)
    rw [if_neg (not_lt.2 (le_trans this hge))]
  · apply inexact_clause_rounded
    right
    refine ⟨P33_eq'.symm, ?_⟩
    rw [div_zpow_ten, show x - (x + 1 - 1) = 0 by ring, zpow_zero, mul_one]
    exact hR
  · intro x' M' h1 h2 h3
    rw [div_zpow_ten] at h3
    have hle : ((C * Y + T : Nat) : ℚ) / Y ≤ ((C * Y + T : Nat) : ℚ) / Y * (10 : ℚ) ^ (x - x') := by
      have h0 : (0 : ℚ) ≤ ((C * Y + T : Nat) : ℚ) / Y := by positivity
      have : (1 : ℚ) ≤ (10 : ℚ) ^ (x - x') := by
        have := zpow_le_zpow_right₀ one_lt_ten.le (show (0 : ℤ) ≤ x - x' by omega)
        simpa using this
      nlinarith
    exact RoundedTo_mono hle hR h3

/-- **above the largest exponent**: overflow -/
theorem finish_frac_ovf (mode : Mode) (neg : Bool) (C Y T : Nat) (x pref : Int) (hC1 : 10 ^ 33 ≤ C)
    (hT0 : 0 < T) (hT : T < Y) (hx : eMax < x ∨ (x = eMax ∧ roundInt mode neg C T Y = 10 ^ 34)) :
    finish mode neg (C * Y + T) Y x pref = (overflowResult mode neg, fOverflow ||| fInexact) := by
  have hY : 0 < Y := by omega
  rw [finish_eq_iff mode neg _ Y x pref (by omega) hY]
  right; right
  refine ⟨not_member_of_frac C Y T x hC1 hT0 hT, rfl, ?_⟩
  rcases hx with hx | ⟨hx, hM⟩
  · have h0 : (0 : ℚ) ≤ ((C * Y + T : Nat) : ℚ) / Y * (10 : ℚ) ^ (x - eMax) :=
      mul_nonneg (by positivity) (ten_zpow_pos _).le
    obtain ⟨M', hM'⟩ := RoundedTo_exists mode neg h0
    refine ⟨M', by rw [div_zpow_ten]; exact hM', frac_scaled_ge mode neg C Y T (x - eMax) (by omega) hC1 hT M' hM'⟩
  · subst hx
    refine ⟨P34, ?_, le_refl _⟩
    rw [div_zpow_ten, sub_self, zpow_zero, mul_one]
    have := roundInt_RoundedTo mode neg C T Y hT
    rwa [quot_add_rem_div C T Y hY, hM, ← P34_eq'] at this

/-- for a coefficient of 34 digits the preferred exponent does not matter as long as it is not above the
coefficient's own exponent: every member of the cohort has a larger or equal exponent -/
theorem finish_pref_34 (mode : Mode) (neg : Bool) (C : Nat) (x p : Int) (hC : 10 ^ 33 ≤ C) (hp : p ≤ x) :
    finish mode neg C 1 x p = finish mode neg C 1 x x := by
  have hC0 : 0 < C := lt_of_lt_of_le (by norm_num) hC
  rw [finish_eq_iff mode neg C 1 x p hC0 (by norm_num)]
  have hs := finish_spec_strict mode neg C 1 x x hC0 (by norm_num)
  have hCq : (10 : ℚ) ^ (33 : ℤ) ≤ (C : ℚ) / ((1 : Nat) : ℚ) := by
    rw [Nat.cast_one, div_one]; exact_mod_cast hC
  rcases hs with ⟨hm, m, xr, ho, hv, hrep, hclose⟩ | h | h
  · left
    refine ⟨hm, m, xr, ho, hv, hrep, fun m' x' hr' hv' => ?_⟩
    have h1 : x ≤ xr := member_ge_x0 hrep (by rw [← fval_false]; exact hv) (Or.inr hCq)
    have h2 : x ≤ x' := member_ge_x0 hr' (by rw [← fval_false]; exact hv') (Or.inr hCq)
    have hcl := hclose m' x' hr' hv'
    rw [abs_of_nonneg (by omega), abs_of_nonneg (by omega)] at hcl
    rw [abs_of_nonneg (by omega), abs_of_nonneg (by omega)]
    omega
  · exact Or.inr (Or.inl h)
  · exact Or.inr (Or.inr h)

/-! ## 7. `bid_get_BID128` on any status word -/

theorem w128_lt (n : Nat) (h : n < 2 ^ 128) : (w128 n).1 < 2 ^ 64 ∧ (w128 n).2 < 2 ^ 64 := by
  simp only [w128]; omega

/-- exponent in range after the `10^34` normalisation: packed as is, status word untouched -/
theorem pack_inrange (mode : Mode) (neg : Bool) (e : Int) (c0 c1 C : Nat) (fpsc : Nat) (hc0 : c0 < 2 ^ 64)
    (hc1 : c1 < 2 ^ 64) (hC : c0 + 2 ^ 64 * c1 = C) (hC34 : C ≤ 10 ^ 34)
    (h0 : 0 ≤ (norm34 C e).2) (h1 : (norm34 C e).2 ≤ 12287) :
    pack (signW neg) e (c0, c1) mode fpsc
      = some (encode (.fin neg (norm34 C e).1 ((norm34 C e).2 - 6176)), fpsc) := by
  obtain ⟨r, hget, hbits⟩ := get_in_range (signW neg) e c0 c1 mode fpsc (signW_cases neg) hc0 hc1
    (by rw [hC]; exact hC34) (by rw [hC]; exact h0) (by rw [hC]; exact h1)
  rw [hC, signW_ne] at hbits
  unfold pack
  rw [hget, Option.map_some, ← hbits]
  rfl

/-- exponent above the maximum, coefficient of 34 digits: overflow -/
theorem pack_ovf (mode : Mode) (neg : Bool) (e : Int) (c0 c1 C : Nat) (fpsc : Nat) (hc0 : c0 < 2 ^ 64)
    (hc1 : c1 < 2 ^ 64) (hC : c0 + 2 ^ 64 * c1 = C) (hC33 : 10 ^ 33 ≤ C) (hC34 : C ≤ 10 ^ 34)
    (he : -2147483648 ≤ e) (he' : e < 2147483647) (h0 : (norm34 C e).2 > 12287) :
    pack (signW neg) e (c0, c1) mode fpsc
      = some (encode (overflowResult mode neg), fpsc ||| (fOverflow ||| fInexact)) := by
  obtain ⟨-, hB⟩ := get_overflow (signW neg) e c0 c1 mode fpsc (signW_cases neg) hc0 hc1
    (by rw [hC]; exact hC34) he he' (by rw [hC]; exact h0)
  rw [hC] at hB
  have hbig : ¬ (norm34 C e).1 * 10 ^ ((norm34 C e).2 - 12287).toNat < 10 ^ 34 := by
    have h33 : 10 ^ 33 ≤ (norm34 C e).1 := by
      unfold norm34; split_ifs
      · simp
      · simpa using hC33
    have h10 : 10 ^ 1 ≤ 10 ^ ((norm34 C e).2 - 12287).toNat := Nat.pow_le_pow_right (by decide) (by omega)
    have := Nat.mul_le_mul h33 h10
    have e34 : (10 : Nat) ^ 33 * 10 ^ 1 = 10 ^ 34 := by norm_num
    omega
  obtain ⟨r, hget, hbits⟩ := hB hbig
  rw [signW_ne] at hbits
  unfold pack
  rw [hget, Option.map_some, ← hbits]
  rfl

/-- negative exponent after the normalisation: one rounding at the least exponent -/
theorem pack_uf (mode : Mode) (neg : Bool) (e : Int) (c0 c1 C : Nat) (fpsc : Nat) (hc0 : c0 < 2 ^ 64)
    (hc1 : c1 < 2 ^ 64) (hC : c0 + 2 ^ 64 * c1 = C) (hC0 : 0 < C) (hC34 : C ≤ 10 ^ 34)
    (he : -2147483648 ≤ e) (he' : e < 2147483647) (h0 : (norm34 C e).2 < 0) :
    ∃ m, pack (signW neg) e (c0, c1) mode fpsc
        = some (encode (.fin neg m eMin),
            ufFlags fpsc (decide ((norm34 C e).1 % 10 ^ (-(norm34 C e).2).toNat = 0))) ∧
      RoundedInt mode neg (norm34 C e).1 (10 ^ (-(norm34 C e).2).toNat) m ∧ m < 10 ^ 34 := by
  obtain ⟨r, m, hget, hround, hbits, hdec⟩ := get_underflow_decode (signW neg) e c0 c1 mode fpsc (signW_cases neg)
    hc0 hc1 (by rw [hC]; exact hC34) he he' (by rw [hC]; exact h0) (Or.inl (by omega))
  simp only [hC, signW_ne] at hget hround hbits hdec
  have hm : m < 10 ^ 34 := by
    have := decode_WF (bits r)
    rw [hdec] at this
    simpa [Datum.WF, P34_eq'] using this.1
  refine ⟨m, ?_, hround, hm⟩
  unfold pack
  rw [hget, Option.map_some, ← hbits]
  rfl

/-- **the sticky-digit call**: a coefficient of 35 digits (`10^34 ≤ CX ≤ 10^35`) at an exponent `−34 … −2`: one rounding
of `CX / 10^(−e)` at the least exponent (a coefficient above `10^34` is outside the domain of `get_underflow`, but
`handle_UF_128`'s tables have the room) -/
theorem pack_scaled (mode : Mode) (neg : Bool) (x : Nat) (c0 c1 CX : Nat) (fpsc : Nat) (hc0 : c0 < 2 ^ 64)
    (hc1 : c1 < 2 ^ 64) (hC : c0 + 2 ^ 64 * c1 = CX) (h1 : 10 ^ 34 ≤ CX) (h2 : CX ≤ 10 ^ 35)
    (hx1 : 2 ≤ x) (hx2 : x ≤ 34) :
    pack (signW neg) (-(x : Int)) (c0, c1) mode fpsc
      = some (encode (.fin neg (roundInt mode neg (CX / 10 ^ x) (CX % 10 ^ x) (10 ^ x)) eMin),
              ufFlags fpsc (decide (CX % 10 ^ x = 0))) := by
  have hsw := signW_cases neg
  unfold pack
  rw [get_unfold (signW neg) _ c0 c1 mode fpsc hc0 hc1 (by omega) (by omega), hC]
  by_cases h34 : CX = 10 ^ 34
  · subst h34
    have hn : norm34 (10 ^ 34) (-(x : Int)) = (10 ^ 33, -(x : Int) + 1) := by simp [norm34]
    simp only [hn]
    rw [if_neg (by omega), if_pos (by omega)]
    have hw := w128_val (10 ^ 33)
    have hwl := w128_lt (10 ^ 33) (by norm_num)
    have hspec := handle_uf_spec (signW neg) (-(x : Int) + 1) (w128 (10 ^ 33)).1 (w128 (10 ^ 33)).2 mode fpsc
      (by omega) (by omega) hwl.1 hwl.2 (by rw [hw]; norm_num) (Or.inl (by rw [hw]; norm_num))
    rw [hw, signW_ne, show (-(-(x : Int) + 1)).toNat = x - 1 by omega] at hspec
    have hdvd : (10 : Nat) ^ 33 % 10 ^ (x - 1) = 0 :=
      Nat.mod_eq_zero_of_dvd (Nat.pow_dvd_pow 10 (by omega))
    have hdvd' : (10 : Nat) ^ 34 % 10 ^ x = 0 := Nat.mod_eq_zero_of_dvd (Nat.pow_dvd_pow 10 hx2)
    have hq : (10 : Nat) ^ 33 / 10 ^ (x - 1) = 10 ^ 34 / 10 ^ x := by
      rw [Nat.pow_div (by omega) (by norm_num), Nat.pow_div hx2 (by norm_num)]
      congr 1; omega
    rw [hdvd, roundInt_zero_rem, hq] at hspec
    rw [hdvd', roundInt_zero_rem]
    have hm : 10 ^ 34 / 10 ^ x < 10 ^ 34 := Nat.div_lt_self (by norm_num) (Nat.one_lt_pow (by omega) (by norm_num))
    have hb := (uf_bits (signW neg) (10 ^ 34 / 10 ^ x) hsw hm).1
    rw [signW_ne] at hb
    show Option.map _ (handle_UF_128 (signW neg) (-(x : Int) + 1) ((w128 (10 ^ 33)).1, (w128 (10 ^ 33)).2) mode fpsc) = _
    rw [hspec, Option.map_some, ← hb]
    rfl
  · have hn : norm34 CX (-(x : Int)) = (CX, -(x : Int)) := by unfold norm34; rw [if_neg h34]
    simp only [hn]
    rw [if_neg (by omega), if_pos (by omega)]
    have hw := w128_val CX
    have hwl := w128_lt CX (lt_of_le_of_lt h2 (by norm_num))
    have hspec := ufTail_spec (signW neg) x (w128 CX).1 (w128 CX).2 mode fpsc (by omega) (by omega) hwl.1 hwl.2
      (by rw [hw]; exact h2)
    rw [hw, signW_ne] at hspec
    have hm : roundInt mode neg (CX / 10 ^ x) (CX % 10 ^ x) (10 ^ x) < 10 ^ 34 := by
      have h1' := roundInt_le mode neg (CX / 10 ^ x) (CX % 10 ^ x) (10 ^ x)
      have h10 : 10 ^ 2 ≤ 10 ^ x := Nat.pow_le_pow_right (by decide) hx1
      have : CX / 10 ^ x ≤ 10 ^ 35 / 10 ^ 2 :=
        le_trans (Nat.div_le_div_right h2) (Nat.div_le_div_left h10 (by norm_num))
      have : (10 : Nat) ^ 35 / 10 ^ 2 + 1 < 10 ^ 34 := by norm_num
      omega
    have hb := (uf_bits (signW neg) _ hsw hm).1
    rw [signW_ne] at hb
    unfold handle_UF_128
    rw [wrapI32_id _ (by omega) (by omega), if_neg (by omega), wrapI32_id _ (by omega) (by omega),
      show (0 : Int) - -(x : Int) = (x : Int) by omega]
    show Option.map _ (ufTail (signW neg) (x : Int) ((w128 CX).1, (w128 CX).2) mode fpsc) = _
    rw [hspec, Option.map_some, ← hb]
    rfl

/-! ## 8. the carry at digit 35 -/

/-- the rounding decision read off the first tail digit `a`, the rest `t` of the tail, and the parity -/
theorem roundUp_lead (mode : Mode) (neg odd : Bool) (a P t : Nat) (ht : t < P) :
    roundUp mode neg odd (a * P + t) (10 * P) =
      match mode with
      | .rne => if a = 5 ∧ odd = false then decide (0 < t) else decide (5 ≤ a)
      | .rna => decide (5 ≤ a)
      | .rtz => false
      | .rdn => neg && decide (0 < a * P + t)
      | .rup => !neg && decide (0 < a * P + t) := by
  rw [Bool.eq_iff_iff]
  rcases lt_trichotomy a 5 with h | h | h
  · have hA : a * P ≤ 4 * P := Nat.mul_le_mul_right P (by omega)
    have h5 : ¬ a = 5 := by omega
    have h5' : ¬ 5 ≤ a := by omega
    generalize a * P = A at *
    cases mode <;> cases odd <;> cases neg <;> simp [roundUp, h5, h5'] <;> omega
  · subst h
    generalize hA : 5 * P = A at *
    cases mode <;> cases odd <;> cases neg <;> simp [roundUp] <;> omega
  · have hA : 6 * P ≤ a * P := Nat.mul_le_mul_right P (by omega)
    have h5 : ¬ a = 5 := by omega
    have h5' : 5 ≤ a := by omega
    generalize a * P = A at *
    cases mode <;> cases odd <;> cases neg <;> simp [roundUp, h5, h5'] <;> omega

/-- "some digit is not `0`" is "the digit string is not zero" -/
theorem anyAboveZero_iff (ds : Bytes) (hds : ∀ b ∈ ds, isDigitB b = true) :
    anyAboveZero ds = decide (0 < digitsVal ds) := by
  induction ds with
  | nil => simp [anyAboveZero, digitsVal]
  | cons d t ih =>
    have hd : isDigitB d = true := hds d (by simp)
    have hd' : 48 ≤ d ∧ d ≤ 57 := by simpa only [isDigitB, Bool.and_eq_true, decide_eq_true_eq] using hd
    have iht := ih (fun b hb => hds b (by simp [hb]))
    have hP : 0 < 10 ^ t.length := Nat.pow_pos (by decide)
    unfold anyAboveZero at iht ⊢
    rw [List.any_cons, iht, digitsVal_cons, Bool.eq_iff_iff]
    simp only [Bool.or_eq_true, decide_eq_true_eq]
    constructor
    · rintro (h | h)
      · have : 0 < (d - 48) * 10 ^ t.length := Nat.mul_pos (by omega) hP
        omega
      · omega
    · intro h
      by_cases hd0 : d > 48
      · exact Or.inl hd0
      · right
        have : d - 48 = 0 := by omega
        rw [this, Nat.zero_mul] at h
        omega

/-- the shape of a digit string of more than 34 digits around digit 35 -/
theorem tail_shape (sig : Bytes) (hsig : ∀ b ∈ sig, isDigitB b = true) (hn : 35 ≤ sig.length) :
    ∃ d35 t', sig.drop 34 = d35 :: t' ∧ sig.drop 35 = t' ∧ sig[34]? = some d35 ∧ isDigitB d35 = true ∧
      (∀ b ∈ t', isDigitB b = true) ∧ t'.length = sig.length - 35 := by
  have h34 : 34 < sig.length := by omega
  refine ⟨sig[34], sig.drop 35, List.drop_eq_getElem_cons h34, rfl, List.getElem?_eq_getElem h34,
    hsig _ (List.getElem_mem h34), fun b hb => hsig b (List.mem_of_mem_drop hb), by rw [List.length_drop]⟩

/-- the carry the code computes when the exponent is not negative: the rounding of the 34 digits by the tail -/
theorem carryOf_nonneg (mode : Mode) (neg : Bool) (sig : Bytes) (hsig : ∀ b ∈ sig, isDigitB b = true)
    (hn1 : 35 ≤ sig.length) (hn2 : sig.length ≤ 100) (e : Int) (he : 0 ≤ e) (L : Nat) :
    carryOf mode (signW neg) (arrOf sig) sig.length e L
      = some (if roundUp mode neg (L % 2 == 1) (digitsVal (sig.drop 34)) (10 ^ (sig.length - 34)) then 1 else 0) := by
  obtain ⟨d35, t', hdrop, hdrop', hget, hd, ht', hlen⟩ := tail_shape sig hsig hn1
  have hd' : 48 ≤ d35 ∧ d35 ≤ 57 := by simpa only [isDigitB, Bool.and_eq_true, decide_eq_true_eq] using hd
  have harr : (arrOf sig)[34]? = some d35 := by rw [arrOf_getElem? sig 34 (by omega) hn2, hget]
  have hs34 : slice (arrOf sig) 34 sig.length = some (d35 :: t') := by
    rw [slice_arrOf sig 34 sig.length (by omega) (le_refl _) hn2, List.take_length, hdrop]
  have hs35 : slice (arrOf sig) 35 sig.length = some t' := by
    rw [slice_arrOf sig 35 sig.length (by omega) (le_refl _) hn2, List.take_length, hdrop']
  have hY : 10 ^ (sig.length - 34) = 10 * 10 ^ t'.length := by
    rw [hlen, show sig.length - 34 = (sig.length - 35) + 1 by omega, Nat.pow_succ, Nat.mul_comm]
  have htl := digitsVal_lt t' ht'
  have hany : anyAboveZero (d35 :: t') = decide (0 < (d35 - 48) * 10 ^ t'.length + digitsVal t') := by
    rw [anyAboveZero_iff _ (by intro b hb; rcases List.mem_cons.1 hb with rfl | hb; exact hd; exact ht' b hb),
      digitsVal_cons]
  have hany' : anyAboveZero t' = decide (0 < digitsVal t') := anyAboveZero_iff t' ht'
  have hne : ¬ e < 0 := by omega
  rw [hdrop, digitsVal_cons, hY, roundUp_lead mode neg _ (d35 - 48) _ _ htl]
  have hsw : (signW neg ≠ 0) = (neg = true) := by cases neg <;> simp [signW]
  have hsw' : (signW neg = 0) = (neg = false) := by cases neg <;> simp [signW]
  cases mode
  · -- NearestEven
    simp only [carryOf, harr, Option.bind_eq_bind, Option.bind_some, hne, decide_false, Bool.or_false,
      Nat.and_one_is_mod]
    by_cases h53 : d35 = 53
    · subst h53
      by_cases hodd : L % 2 = 1
      · simp [hodd]
      · have hev : L % 2 = 0 := by omega
        simp [hev, he, hs35, hany']
    · have h5 : ¬ d35 - 48 = 5 := by omega
      have hb : (d35 == 53) = false := by simpa using h53
      simp only [hb, Bool.false_and, Bool.false_eq_true, if_false, h5, false_and]
      by_cases hge : 5 ≤ d35 - 48
      · have : (52 : Int) - (d35 : Int) < 0 := by omega
        simp [this, hge]
      · have : ¬ (52 : Int) - (d35 : Int) < 0 := by omega
        simp [this, hge]
  · -- Downward
    cases neg <;> simp [carryOf, signW, hs34, hany]
  · -- Upward
    cases neg <;> simp [carryOf, signW, hs34, hany]
  · -- TowardZero
    simp [carryOf]
  · -- NearestAway
    have hdig : toDigit10 d35 = some (d35 - 48) := by simp [toDigit10, hd]
    simp only [carryOf, harr, hdig, Option.bind_eq_bind, Option.bind_some, hne, if_false]
    by_cases hge : 5 ≤ d35 - 48
    · have : (4 : Int) - ((d35 - 48 : Nat) : Int) < 0 := by omega
      simp [this, hge]
    · have : ¬ (4 : Int) - ((d35 - 48 : Nat) : Int) < 0 := by omega
      simp [this, hge]

/-- the sticky unit the code passes on when the exponent is negative (`T` = the tail, `e` = the exponent) -/
def stickyOf (mode : Mode) (neg : Bool) (e : Int) (T : Nat) : Nat :=
  match mode with
  | .rne => if 0 < T then 1 else 0
  | .rna => if -34 < e ∧ 0 < T then 1 else 0
  | .rdn => if neg = true ∧ 0 < T then 1 else 0
  | .rup => if neg = false ∧ 0 < T then 1 else 0
  | .rtz => 0

theorem carryOf_neg (mode : Mode) (neg : Bool) (sig : Bytes) (hsig : ∀ b ∈ sig, isDigitB b = true)
    (hn1 : 35 ≤ sig.length) (hn2 : sig.length ≤ 100) (e : Int) (he : e < 0) (L : Nat) :
    carryOf mode (signW neg) (arrOf sig) sig.length e L = some (stickyOf mode neg e (digitsVal (sig.drop 34))) := by
  obtain ⟨d35, t', hdrop, hdrop', hget, hd, ht', hlen⟩ := tail_shape sig hsig hn1
  have hd' : 48 ≤ d35 ∧ d35 ≤ 57 := by simpa only [isDigitB, Bool.and_eq_true, decide_eq_true_eq] using hd
  have harr : (arrOf sig)[34]? = some d35 := by rw [arrOf_getElem? sig 34 (by omega) hn2, hget]
  have hs34 : slice (arrOf sig) 34 sig.length = some (d35 :: t') := by
    rw [slice_arrOf sig 34 sig.length (by omega) (le_refl _) hn2, List.take_length, hdrop]
  have hany : anyAboveZero (d35 :: t') = decide (0 < digitsVal (d35 :: t')) :=
    anyAboveZero_iff _ (by intro b hb; rcases List.mem_cons.1 hb with rfl | hb; exact hd; exact ht' b hb)
  have hsw : (signW neg ≠ 0) = (neg = true) := by cases neg <;> simp [signW]
  have hsw' : (signW neg = 0) = (neg = false) := by cases neg <;> simp [signW]
  have hnn : ¬ e ≥ 0 := by omega
  rw [hdrop]
  cases mode
  · -- NearestEven: `i` stays 34, the carry of the digit survives only if everything is zero — and then it is 0
    simp only [carryOf, harr, Option.bind_eq_bind, Option.bind_some, he, decide_true, Bool.or_true, if_true, hnn,
      if_false, hs34, hany, stickyOf, decide_eq_true_eq]
    by_cases hT : 0 < digitsVal (d35 :: t')
    · simp [hT]
    · have h0 : d35 = 48 := by
        rw [digitsVal_cons] at hT
        by_contra hne
        have : 0 < (d35 - 48) * 10 ^ t'.length := Nat.mul_pos (by omega) (Nat.pow_pos (by decide))
        omega
      subst h0
      simp [hT]
  · cases neg <;> simp [carryOf, signW, hs34, hany, stickyOf]
  · cases neg <;> simp [carryOf, signW, hs34, hany, stickyOf]
  · simp [carryOf, stickyOf]
  · have hdig : toDigit10 d35 = some (d35 - 48) := by simp [toDigit10, hd]
    simp only [carryOf, harr, hdig, Option.bind_eq_bind, Option.bind_some, he, if_true, stickyOf]
    by_cases h34 : -34 < e
    · have : e > -34 := h34
      simp [this, hs34, hany]
    · have : ¬ e > -34 := by omega
      simp [this]

/-! ## 9. more than 34 digits: what is handed to `bid_get_BID128` -/

/-- the carry / sticky unit the `match rnd_mode` produces -/
def carrySpec (mode : Mode) (neg : Bool) (e : Int) (C34 T Y : Nat) : Nat :=
  if 0 ≤ e then (if roundUp mode neg (C34 % 2 == 1) T Y then 1 else 0) else stickyOf mode neg e T

theorem carrySpec_le (mode : Mode) (neg : Bool) (e : Int) (C34 T Y : Nat) : carrySpec mode neg e C34 T Y ≤ 1 := by
  unfold carrySpec stickyOf
  split_ifs <;> (try cases mode) <;> simp

/-- the first 34 digits in two halves -/
theorem split34 (sig : Bytes) (hn : 34 ≤ sig.length) :
    digitsVal (sig.take 34) = digitsVal (sig.take 17) * 10 ^ 17 + digitsVal ((sig.take 34).drop 17) := by
  have h := split17 (sig.take 34) (by rw [List.length_take]; omega)
  rw [List.length_take, Nat.min_eq_left hn, List.take_take] at h
  exact h

/-- **Lines 551–641 up to the call of `bid_get_BID128`**: the coefficient handed over is the 34 digits plus the carry
— or, when the result will be subnormal but not by 34 places or more, ten times the 34 digits plus the sticky unit, one
exponent down —; inexact is raised beforehand iff the tail is not zero. -/
theorem largePath_pack (mode : Mode) (neg : Bool) (sig : Bytes) (hsig : ∀ b ∈ sig, isDigitB b = true)
    (hn1 : 35 ≤ sig.length) (hn2 : sig.length ≤ 100) (e : Int) (he1 : -2147483647 ≤ e) (he2 : e < 2147483647) :
    ∃ c0 c1, c0 < 2 ^ 64 ∧ c1 < 2 ^ 64 ∧
      c0 + 2 ^ 64 * c1 =
        (if e < 0 ∧ -34 < e then
          10 * digitsVal (sig.take 34)
            + carrySpec mode neg e (digitsVal (sig.take 34)) (digitsVal (sig.drop 34)) (10 ^ (sig.length - 34))
         else digitsVal (sig.take 34)
            + carrySpec mode neg e (digitsVal (sig.take 34)) (digitsVal (sig.drop 34)) (10 ^ (sig.length - 34))) ∧
      largePath mode (signW neg) (arrOf sig) sig.length e (anyAboveZero (sig.drop 34))
        = pack (signW neg) (if e < 0 ∧ -34 < e then e - 1 else e) (c0, c1) mode
            (if 0 < digitsVal (sig.drop 34) then fInexact else 0) := by
  have hsplit := split34 sig (by omega)
  have hH := digitsVal_lt (sig.take 17) (fun b hb => hsig b (List.mem_of_mem_take hb))
  have hL := digitsVal_lt ((sig.take 34).drop 17)
    (fun b hb => hsig b (List.mem_of_mem_take (List.mem_of_mem_drop hb)))
  rw [List.length_take, Nat.min_eq_left (by omega)] at hH
  rw [List.length_drop, List.length_take, Nat.min_eq_left (by omega)] at hL
  have hpar : digitsVal ((sig.take 34).drop 17) % 2 = digitsVal (sig.take 34) % 2 := by
    rw [hsplit]; have : (10 : Nat) ^ 17 = 2 * 50000000000000000 := by norm_num
    rw [this]; omega
  have hcarry : carryOf mode (signW neg) (arrOf sig) sig.length e (digitsVal ((sig.take 34).drop 17))
      = some (carrySpec mode neg e (digitsVal (sig.take 34)) (digitsVal (sig.drop 34)) (10 ^ (sig.length - 34))) := by
    unfold carrySpec
    by_cases he : 0 ≤ e
    · rw [if_pos he, carryOf_nonneg mode neg sig hsig hn1 hn2 e he, hpar]
    · rw [if_neg he, carryOf_neg mode neg sig hsig hn1 hn2 e (by omega)]
  have hcle := carrySpec_le mode neg e (digitsVal (sig.take 34)) (digitsVal (sig.drop 34)) (10 ^ (sig.length - 34))
  have hinex : anyAboveZero (sig.drop 34) = decide (0 < digitsVal (sig.drop 34)) :=
    anyAboveZero_iff _ (fun b hb => hsig b (List.mem_of_mem_drop hb))
  unfold largePath
  rw [readRun_val sig hsig hn2 0 17 (by omega) (by omega) (by omega), List.drop_zero, Option.bind_eq_bind,
    Option.bind_some, readRun_val sig hsig hn2 17 34 (by omega) (by omega) (by omega), Option.bind_some, hcarry,
    Option.bind_some, hinex]
  generalize carrySpec mode neg e (digitsVal (sig.take 34)) (digitsVal (sig.drop 34)) (10 ^ (sig.length - 34)) = cy at *
  generalize digitsVal (sig.take 17) = H at *
  generalize digitsVal ((sig.take 34).drop 17) = L at *
  generalize digitsVal (sig.take 34) = C34 at *
  by_cases hsc : e < 0 ∧ -34 < e
  · have hb : (decide (e < 0) && decide (e > -34)) = true := by simp [hsc.1, hsc.2]
    simp only [hb, if_true, if_pos hsc, decide_eq_true_eq]
    have hlow : AH.add64 (AH.add64 (AH.shl64 L 3) (AH.shl64 L 1)) cy = 10 * L + cy := by
      simp only [AH.add64, AH.shl64, Nat.reduceMod, Nat.reducePow]; omega
    rw [hlow, wrapI32_id _ (by omega) (by omega)]
    obtain ⟨a0, a1, aval⟩ := assemble_val H 1000000000000000000 (10 * L + cy) (by omega) (by norm_num) (by omega)
    refine ⟨_, _, a0, a1, ?_, rfl⟩
    rw [aval, hsplit]; ring
  · have hb : (decide (e < 0) && decide (e > -34)) = false := by
      rw [Bool.and_eq_false_iff, decide_eq_false_iff_not, decide_eq_false_iff_not]
      by_cases h : e < 0
      · right; intro h'; exact hsc ⟨h, h'⟩
      · left; exact h
    simp only [hb, Bool.false_eq_true, if_false, if_neg hsc, decide_eq_true_eq]
    have hlow : AH.add64 L cy = L + cy := by simp only [AH.add64]; omega
    rw [hlow]
    obtain ⟨a0, a1, aval⟩ := assemble_val H 100000000000000000 (L + cy) (by omega) (by norm_num) (by omega)
    refine ⟨_, _, a0, a1, ?_, rfl⟩
    rw [aval, hsplit]; ring

/-! ## 10. more than 34 digits: the tail is zero -/

theorem carrySpec_zero (mode : Mode) (neg : Bool) (e : Int) (C34 Y : Nat) : carrySpec mode neg e C34 0 Y = 0 := by
  unfold carrySpec stickyOf roundUp
  cases mode <;> simp

theorem norm34_lt34 (C : Nat) (e : Int) (hC : C < 10 ^ 34) : norm34 C e = (C, e) := by
  unfold norm34; rw [if_neg (by omega)]

/-- `roundInt` does not change when remainder and divisor are both multiplied by ten -/
theorem roundInt_scale10 (mode : Mode) (neg : Bool) (q r D : Nat) :
    roundInt mode neg q (10 * r) (10 * D) = roundInt mode neg q r D :=
  roundInt_congr mode neg q (10 * r) (10 * D) r D (by omega) (by omega) (by omega)

/-- zero tail, not rescaled: the 34 digits are packed as they are -/
theorem large_exact_plain (mode : Mode) (neg : Bool) (C : Nat) (e : Int) (c0 c1 : Nat) (hc0 : c0 < 2 ^ 64)
    (hc1 : c1 < 2 ^ 64) (hC : c0 + 2 ^ 64 * c1 = C) (hC0 : 0 < C) (hC34 : C ≤ 10 ^ 34)
    (he1 : -2147483648 ≤ e) (he2 : e < 2147483647) :
    pack (signW neg) e (c0, c1) mode 0
      = some (encode (finish mode neg C 1 (e - 6176) (e - 6176)).1, (finish mode neg C 1 (e - 6176) (e - 6176)).2) := by
  have := pack_finish mode neg (e - 6176) c0 c1 C hc0 hc1 hC hC0 hC34 (by omega) (by omega)
  rwa [show e - 6176 + 6176 = e by omega] at this

/-- zero tail, rescaled (`−34 < e < 0`): ten times the 34 digits one exponent down round to the same subnormal, with
the same flags, as the 34 digits at their own exponent -/
theorem large_exact_scaled (mode : Mode) (neg : Bool) (C : Nat) (k : Nat) (c0 c1 : Nat) (hc0 : c0 < 2 ^ 64)
    (hc1 : c1 < 2 ^ 64) (hC : c0 + 2 ^ 64 * c1 = 10 * C) (hC33 : 10 ^ 33 ≤ C) (hC34 : C < 10 ^ 34)
    (hk1 : 1 ≤ k) (hk2 : k ≤ 33) :
    pack (signW neg) (-(k : Int) - 1) (c0, c1) mode 0
      = some (encode (finish mode neg C 1 (-(k : Int) - 6176) (-(k : Int) - 6176)).1,
              (finish mode neg C 1 (-(k : Int) - 6176) (-(k : Int) - 6176)).2) := by
  have hC0 : 0 < C := lt_of_lt_of_le (by norm_num) hC33
  have hps := pack_scaled mode neg (k + 1) c0 c1 (10 * C) 0 hc0 hc1 hC (by omega) (by omega) (by omega) (by omega)
  rw [show (-(((k + 1 : Nat) : Int))) = -(k : Int) - 1 by push_cast; ring] at hps
  rw [hps]
  have hpow : 10 ^ (k + 1) = 10 * 10 ^ k := by rw [Nat.pow_succ, Nat.mul_comm]
  have hD : 0 < 10 ^ k := Nat.pow_pos (by decide)
  rw [hpow, Nat.mul_div_mul_left _ _ (by norm_num : 0 < 10), Nat.mul_mod_mul_left, roundInt_scale10]
  have hn := norm34_lt34 C (-(k : Int)) hC34
  have h0 : (norm34 C (-(k : Int))).2 < 0 := by rw [hn]; simp; omega
  have hk : (-(norm34 C (-(k : Int))).2).toNat = k := by rw [hn]; simp
  by_cases hr : C % 10 ^ k = 0
  · have hfin := finish_uf_exact mode neg C (-(k : Int)) hC0 (le_of_lt hC34) h0 (by rw [hk, hn]; exact hr)
    rw [hk, hn] at hfin
    rw [hfin, hr, Nat.mul_zero, roundInt_zero_rem, ufFlags_zero]
    simp
  · have hm : roundInt mode neg (C / 10 ^ k) (C % 10 ^ k) (10 ^ k) < 10 ^ 34 := by
      have h1 := roundInt_le mode neg (C / 10 ^ k) (C % 10 ^ k) (10 ^ k)
      have h10 : 10 ^ 1 ≤ 10 ^ k := Nat.pow_le_pow_right (by decide) hk1
      have : C / 10 ^ k ≤ 10 ^ 34 / 10 ^ 1 :=
        le_trans (Nat.div_le_div_right (le_of_lt hC34)) (Nat.div_le_div_left h10 (by norm_num))
      have : (10 : Nat) ^ 34 / 10 ^ 1 + 1 < 10 ^ 34 := by norm_num
      omega
    have hfin := finish_uf_inexact mode neg C (-(k : Int)) hC0 (le_of_lt hC34) h0 (by rw [hk, hn]; exact hr) _ hm
      (by rw [hk, hn]; exact roundInt_divmod_spec mode neg C (10 ^ k) hD)
    rw [hfin, ufFlags_zero]
    have : ¬ 10 * (C % 10 ^ k) = 0 := by omega
    simp [this]

/-! ## 11. more than 34 digits, non-zero tail, exponent not negative: round to 34 digits -/

theorem flags_ovf : fInexact ||| (fOverflow ||| fInexact) = fOverflow ||| fInexact := by decide
theorem flags_uf (b : Bool) : ufFlags fInexact b = fUnderflow ||| fInexact := by cases b <;> decide

theorem large_inexact_nonneg (mode : Mode) (neg : Bool) (C Y T : Nat) (e pref : Int) (c0 c1 : Nat) (hc0 : c0 < 2 ^ 64)
    (hc1 : c1 < 2 ^ 64) (hC : c0 + 2 ^ 64 * c1 = C + carrySpec mode neg e C T Y) (hC33 : 10 ^ 33 ≤ C)
    (hC34 : C < 10 ^ 34) (hT0 : 0 < T) (hT : T < Y) (he0 : 0 ≤ e) (he2 : e < 2147483646) :
    pack (signW neg) e (c0, c1) mode fInexact
      = some (encode (finish mode neg (C * Y + T) Y (e - 6176) pref).1,
              (finish mode neg (C * Y + T) Y (e - 6176) pref).2) := by
  have hM : C + carrySpec mode neg e C T Y = roundInt mode neg C T Y := by
    unfold carrySpec roundInt
    rw [if_pos he0]
    split_ifs <;> rfl
  rw [hM] at hC
  have hMle : roundInt mode neg C T Y ≤ 10 ^ 34 := by
    have := roundInt_le mode neg C T Y; omega
  have hMge : 10 ^ 33 ≤ roundInt mode neg C T Y := le_trans hC33 (le_roundInt mode neg C T Y)
  by_cases hcar : roundInt mode neg C T Y = 10 ^ 34
  · have hn : norm34 (roundInt mode neg C T Y) e = (10 ^ 33, e + 1) := by unfold norm34; rw [if_pos hcar]
    by_cases hin : e + 1 ≤ 12287
    · rw [pack_inrange mode neg e c0 c1 _ fInexact hc0 hc1 hC hMle (by rw [hn]; simp; omega) (by rw [hn]; exact hin),
        finish_frac_carry mode neg C Y T (e - 6176) pref hC33 hT0 hT (by unfold eMin; omega) (by unfold eMax; omega) hcar,
        hn]
      simp only [show e + 1 - 6176 = e - 6176 + 1 by ring]
    · rw [pack_ovf mode neg e c0 c1 _ fInexact hc0 hc1 hC hMge hMle (by omega) (by omega) (by rw [hn]; simp; omega),
        finish_frac_ovf mode neg C Y T (e - 6176) pref hC33 hT0 hT (by
          unfold eMax
          by_cases h : e = 12287
          · right; exact ⟨by omega, hcar⟩
          · left; omega), flags_ovf]
  · have hlt : roundInt mode neg C T Y < 10 ^ 34 := by omega
    have hn : norm34 (roundInt mode neg C T Y) e = (roundInt mode neg C T Y, e) := norm34_lt34 _ e hlt
    by_cases hin : e ≤ 12287
    · rw [pack_inrange mode neg e c0 c1 _ fInexact hc0 hc1 hC hMle (by rw [hn]; exact he0) (by rw [hn]; exact hin),
        finish_frac_normal mode neg C Y T (e - 6176) pref hC33 hT0 hT (by unfold eMin; omega) (by unfold eMax; omega) hlt,
        hn]
    · rw [pack_ovf mode neg e c0 c1 _ fInexact hc0 hc1 hC hMge hMle (by omega) (by omega) (by rw [hn]; simp; omega),
        finish_frac_ovf mode neg C Y T (e - 6176) pref hC33 hT0 hT (by left; unfold eMax; omega), flags_ovf]

/-! ## 12. more than 34 digits, non-zero tail, `−34 < e < 0`: the sticky digit -/

/-- the tail never makes the value a multiple of the rounding unit -/
theorem frac_not_dvd (C Y T k : Nat) (hT0 : 0 < T) (hT : T < Y) : (C * Y + T) % (Y * 10 ^ k) ≠ 0 := by
  intro h
  have h1 : (C * Y + T) % Y = 0 := by
    have := Nat.mod_mul_right_mod (C * Y + T) Y (10 ^ k)
    rw [h] at this; simpa using this.symm
  rw [Nat.mul_comm, Nat.mul_add_mod, Nat.mod_eq_of_lt hT] at h1
  omega

/-- truncation of the 34 digits is the truncation of the whole number -/
theorem floor_frac (C Y T k : Nat) (hT : T < Y) :
    C / 10 ^ k * (Y * 10 ^ k) ≤ C * Y + T ∧ C * Y + T < C / 10 ^ k * (Y * 10 ^ k) + Y * 10 ^ k := by
  have hD : 0 < 10 ^ k := Nat.pow_pos (by decide)
  have hdm := Nat.div_add_mod C (10 ^ k)
  have hr := Nat.mod_lt C hD
  generalize C / 10 ^ k = q at *
  generalize C % 10 ^ k = r at *
  generalize 10 ^ k = P at *
  subst hdm
  constructor
  · nlinarith
  · have : (r + 1) * Y ≤ P * Y := Nat.mul_le_mul_right Y hr
    nlinarith

theorem large_inexact_scaled (mode : Mode) (neg : Bool) (C Y T k : Nat) (pref : Int) (c0 c1 : Nat) (hc0 : c0 < 2 ^ 64)
    (hc1 : c1 < 2 ^ 64) (hC : c0 + 2 ^ 64 * c1 = 10 * C + stickyOf mode neg (-(k : Int)) T) (hC33 : 10 ^ 33 ≤ C)
    (hC34 : C < 10 ^ 34) (hT0 : 0 < T) (hT : T < Y) (hk1 : 1 ≤ k) (hk2 : k ≤ 33) :
    pack (signW neg) (-(k : Int) - 1) (c0, c1) mode fInexact
      = some (encode (finish mode neg (C * Y + T) Y (-(k : Int) - 6176) pref).1,
              (finish mode neg (C * Y + T) Y (-(k : Int) - 6176) pref).2) := by
  have hY : 0 < Y := by omega
  have hsle : stickyOf mode neg (-(k : Int)) T ≤ 1 := by
    unfold stickyOf; cases mode <;> simp <;> split_ifs <;> omega
  have hps := pack_scaled mode neg (k + 1) c0 c1 _ fInexact hc0 hc1 hC (by omega) (by omega) (by omega) (by omega)
  rw [show (-(((k + 1 : Nat) : Int))) = -(k : Int) - 1 by push_cast; ring] at hps
  rw [hps, flags_uf]
  -- the rounded coefficient is the correct rounding of the whole number
  have hm : roundInt mode neg ((10 * C + stickyOf mode neg (-(k : Int)) T) / 10 ^ (k + 1))
      ((10 * C + stickyOf mode neg (-(k : Int)) T) % 10 ^ (k + 1)) (10 ^ (k + 1)) < 10 ^ 34 := by
    have h1' := roundInt_le mode neg ((10 * C + stickyOf mode neg (-(k : Int)) T) / 10 ^ (k + 1))
      ((10 * C + stickyOf mode neg (-(k : Int)) T) % 10 ^ (k + 1)) (10 ^ (k + 1))
    have h10 : 10 ^ 2 ≤ 10 ^ (k + 1) := Nat.pow_le_pow_right (by decide) (by omega)
    have : (10 * C + stickyOf mode neg (-(k : Int)) T) / 10 ^ (k + 1) ≤ 10 ^ 35 / 10 ^ 2 :=
      le_trans (Nat.div_le_div_right (by omega)) (Nat.div_le_div_left h10 (by norm_num))
    have : (10 : Nat) ^ 35 / 10 ^ 2 + 1 < 10 ^ 34 := by norm_num
    omega
  have hround : RoundedInt mode neg (C * Y + T) (Y * 10 ^ k)
      (roundInt mode neg ((10 * C + stickyOf mode neg (-(k : Int)) T) / 10 ^ (k + 1))
        ((10 * C + stickyOf mode neg (-(k : Int)) T) % 10 ^ (k + 1)) (10 ^ (k + 1))) := by
    by_cases hs : stickyOf mode neg (-(k : Int)) T = 1
    · rw [hs]; exact sticky_rounded mode neg C Y T k hk1 hT0 hT
    · have hs0 : stickyOf mode neg (-(k : Int)) T = 0 := by omega
      rw [hs0, Nat.add_zero]
      have hpow : 10 ^ (k + 1) = 10 * 10 ^ k := by rw [Nat.pow_succ, Nat.mul_comm]
      rw [hpow, Nat.mul_div_mul_left _ _ (by norm_num : 0 < 10), Nat.mul_mod_mul_left, roundInt_scale10]
      have hfl := floor_frac C Y T k hT
      have h34 : -34 < -(k : Int) := by omega
      -- no sticky unit although the tail is not zero: the mode truncates
      cases mode <;> cases neg <;> simp [stickyOf, hT0, h34] at hs0 <;>
        simp only [roundInt, roundUp, RoundedInt, Bool.not_true, Bool.false_eq_true, if_false, if_true,
          ite_self] <;> exact hfl
  have hfin := finish_tiny_inexact mode neg (C * Y + T) Y k pref (by omega) hY (frac_not_dvd C Y T k hT0 hT) (by
      have h10 : 10 ^ 34 ≤ 10 ^ (k + 33) := Nat.pow_le_pow_right (by decide) (by omega)
      calc C * Y + T < (C + 1) * Y := by rw [Nat.add_mul, Nat.one_mul]; omega
        _ ≤ 10 ^ 34 * Y := Nat.mul_le_mul_right _ (by omega)
        _ ≤ 10 ^ (k + 33) * Y := Nat.mul_le_mul_right _ h10
        _ = Y * 10 ^ (k + 33) := Nat.mul_comm _ _) _ hm hround
  rw [show eMin - (k : Int) = -(k : Int) - 6176 by unfold eMin; ring] at hfin
  rw [hfin]

/-! ## 13. more than 34 digits, non-zero tail, `e ≤ −34`: the 34 digits alone (plus a unit where that is harmless) -/

/-- a value below the rounding unit rounds to 0 or 1: `roundInt` with quotient 0 -/
theorem roundInt_lt (mode : Mode) (neg : Bool) (V D : Nat) (h : V < D) :
    roundInt mode neg (V / D) (V % D) D = if roundUp mode neg false V D then 1 else 0 := by
  rw [Nat.div_eq_of_lt h, Nat.mod_eq_of_lt h]
  unfold roundInt
  simp

/-- the sticky unit at 34 or more places below the least quantum (non-zero tail) -/
def deepS (mode : Mode) (neg : Bool) : Nat :=
  match mode with
  | .rne => 1 | .rna => 0 | .rdn => if neg then 1 else 0 | .rup => if neg then 0 else 1 | .rtz => 0

theorem stickyOf_deep (mode : Mode) (neg : Bool) (e : Int) (T : Nat) (he : ¬ -34 < e) (hT0 : 0 < T) :
    stickyOf mode neg e T = deepS mode neg := by
  cases mode <;> cases neg <;> simp [stickyOf, deepS, he, hT0]

theorem deepS_le (mode : Mode) (neg : Bool) : deepS mode neg ≤ 1 := by
  cases mode <;> cases neg <;> simp [deepS]

theorem pureA34 (mode : Mode) (neg : Bool) (u Y T D : Nat) (hs : deepS mode neg = 1) (hT0 : 0 < T) (hT : T < Y)
    (hD : D = 10 ^ 34 * Y) (hu : u + Y = 10 ^ 34 * Y) : roundUp mode neg false (u + T) D = true := by
  cases mode <;> cases neg <;> simp [deepS] at hs <;> simp [roundUp] <;> omega

theorem pureA35 (mode : Mode) (neg : Bool) (u Y T D P : Nat) (hT0 : 0 < T) (hT : T < Y)
    (hD : 10 ^ 35 * Y ≤ D) (hu : u + Y ≤ 10 ^ 34 * Y) (hP : 10 ^ 34 ≤ P) :
    roundUp mode neg false (10 ^ 33) P = roundUp mode neg false (u + T) D := by
  cases mode <;> cases neg <;> simp [roundUp] <;>
    first | omega | (rw [Bool.eq_iff_iff]; simp <;> omega)

theorem pureB34 (mode : Mode) (neg : Bool) (C u Y T D : Nat) (hT0 : 0 < T) (hT : T < Y)
    (hD : D = 10 ^ 34 * Y) (hC33 : 10 ^ 33 ≤ C) (hlo : 5 * 10 ^ 33 ≤ C → 5 * 10 ^ 33 * Y ≤ u)
    (hhi : C + 1 ≤ 5 * 10 ^ 33 → u + Y ≤ 5 * 10 ^ 33 * Y)
    (hlt : C + deepS mode neg < 10 ^ 34) :
    roundUp mode neg false (C + deepS mode neg) (10 ^ 34) = roundUp mode neg false (u + T) D := by
  by_cases h5 : 5 * 10 ^ 33 ≤ C
  · have := hlo h5
    cases mode <;> cases neg <;> simp [deepS, roundUp] at hlt ⊢ <;>
      first | omega | (rw [Bool.eq_iff_iff]; simp <;> omega)
  · have := hhi (by omega)
    cases mode <;> cases neg <;> simp [deepS, roundUp] at hlt ⊢ <;>
      first | omega | (rw [Bool.eq_iff_iff]; simp <;> omega)

theorem pureB35 (mode : Mode) (neg : Bool) (C u Y T D P : Nat) (hT0 : 0 < T) (hT : T < Y)
    (hD : 10 ^ 35 * Y ≤ D) (hC33 : 10 ^ 33 ≤ C) (hu2 : u + Y ≤ 10 ^ 34 * Y) (hP : 10 ^ 35 ≤ P)
    (hlt : C + deepS mode neg < 10 ^ 34) :
    roundUp mode neg false (C + deepS mode neg) P = roundUp mode neg false (u + T) D := by
  cases mode <;> cases neg <;> simp [deepS, roundUp] at hlt ⊢ <;>
    first | omega | (rw [Bool.eq_iff_iff]; simp <;> omega)

/-- **34 or more places below the least quantum.**  What the code hands to `bid_get_BID128` — the 34 digits, plus one
under NearestEven and in the directed mode that rounds away — rounds to the same 0 or 1 as the whole number does.
(Adding the unit under NearestAway would not: `4999…9 + 1` is an exact tie at `k = 34`; that was D17.) -/
theorem deep_rounding (mode : Mode) (neg : Bool) (C Y T k : Nat) (hC33 : 10 ^ 33 ≤ C) (hC34 : C < 10 ^ 34)
    (hT0 : 0 < T) (hT : T < Y) (hk : 34 ≤ k) :
    roundInt mode neg
        ((norm34 (C + deepS mode neg) (-(k : Int))).1 / 10 ^ (-(norm34 (C + deepS mode neg) (-(k : Int))).2).toNat)
        ((norm34 (C + deepS mode neg) (-(k : Int))).1 % 10 ^ (-(norm34 (C + deepS mode neg) (-(k : Int))).2).toNat)
        (10 ^ (-(norm34 (C + deepS mode neg) (-(k : Int))).2).toNat)
      = roundInt mode neg ((C * Y + T) / (Y * 10 ^ k)) ((C * Y + T) % (Y * 10 ^ k)) (Y * 10 ^ k) := by
  have hP34 : 10 ^ 34 ≤ 10 ^ k := Nat.pow_le_pow_right (by decide) hk
  have hu2 : C * Y + Y ≤ 10 ^ 34 * Y := by
    have : (C + 1) * Y ≤ 10 ^ 34 * Y := Nat.mul_le_mul_right Y (by omega)
    rwa [Nat.add_mul, Nat.one_mul] at this
  have hlo : 5 * 10 ^ 33 ≤ C → 5 * 10 ^ 33 * Y ≤ C * Y := fun h => Nat.mul_le_mul_right Y h
  have hhi : C + 1 ≤ 5 * 10 ^ 33 → C * Y + Y ≤ 5 * 10 ^ 33 * Y := fun h => by
    have : (C + 1) * Y ≤ 5 * 10 ^ 33 * Y := Nat.mul_le_mul_right Y h
    rwa [Nat.add_mul, Nat.one_mul] at this
  have hD1 : 10 ^ 34 * Y ≤ Y * 10 ^ k := by rw [Nat.mul_comm]; exact Nat.mul_le_mul_left Y hP34
  have hVD : C * Y + T < Y * 10 ^ k := by omega
  rw [roundInt_lt mode neg _ _ hVD]
  by_cases hcar : C + deepS mode neg = 10 ^ 34
  · -- the unit carries to 10^34: the coefficient becomes 10^33, one exponent up
    have hn : norm34 (C + deepS mode neg) (-(k : Int)) = (10 ^ 33, -(k : Int) + 1) := by
      unfold norm34; rw [if_pos hcar]
    rw [hn]
    simp only [show (-(-(k : Int) + 1)).toNat = k - 1 by omega]
    have hs1 : deepS mode neg = 1 := by have := deepS_le mode neg; omega
    have hu5 : C * Y + Y = 10 ^ 34 * Y := by
      have : (C + 1) * Y = 10 ^ 34 * Y := by rw [← hcar, hs1]
      rwa [Nat.add_mul, Nat.one_mul] at this
    by_cases hk34 : k = 34
    · subst hk34
      have e1 : (10 : Nat) ^ 33 / 10 ^ (34 - 1) = 1 := by norm_num
      have e2 : (10 : Nat) ^ 33 % 10 ^ (34 - 1) = 0 := by norm_num
      rw [e1, e2, roundInt_zero_rem,
        pureA34 mode neg (C * Y) Y T (Y * 10 ^ 34) hs1 hT0 hT (Nat.mul_comm _ _) hu5]
      rfl
    · have hPk : 10 ^ 34 ≤ 10 ^ (k - 1) := Nat.pow_le_pow_right (by decide) (by omega)
      have hD3 : 10 ^ 35 * Y ≤ Y * 10 ^ k := by
        rw [Nat.mul_comm]; exact Nat.mul_le_mul_left Y (Nat.pow_le_pow_right (by decide) (by omega))
      rw [roundInt_lt mode neg _ _ (lt_of_lt_of_le (by norm_num) hPk),
        pureA35 mode neg (C * Y) Y T (Y * 10 ^ k) (10 ^ (k - 1)) hT0 hT hD3 hu2 hPk]
  · have hslt : C + deepS mode neg < 10 ^ 34 := by have := deepS_le mode neg; omega
    rw [norm34_lt34 _ _ hslt]
    simp only [Int.neg_neg, Int.toNat_natCast]
    rw [roundInt_lt mode neg _ _ (lt_of_lt_of_le hslt hP34)]
    by_cases hk34 : k = 34
    · subst hk34
      rw [pureB34 mode neg C (C * Y) Y T (Y * 10 ^ 34) hT0 hT (Nat.mul_comm _ _) hC33 hlo hhi hslt]
    · have hD3 : 10 ^ 35 * Y ≤ Y * 10 ^ k := by
        rw [Nat.mul_comm]; exact Nat.mul_le_mul_left Y (Nat.pow_le_pow_right (by decide) (by omega))
      rw [pureB35 mode neg C (C * Y) Y T (Y * 10 ^ k) (10 ^ k) hT0 hT hD3 hC33 hu2
        (Nat.pow_le_pow_right (by decide) (by omega)) hslt]

theorem large_inexact_deep (mode : Mode) (neg : Bool) (C Y T k : Nat) (pref : Int) (c0 c1 : Nat) (hc0 : c0 < 2 ^ 64)
    (hc1 : c1 < 2 ^ 64) (hC : c0 + 2 ^ 64 * c1 = C + stickyOf mode neg (-(k : Int)) T) (hC33 : 10 ^ 33 ≤ C)
    (hC34 : C < 10 ^ 34) (hT0 : 0 < T) (hT : T < Y) (hk1 : 34 ≤ k) (hk2 : k ≤ 2147483647) :
    pack (signW neg) (-(k : Int)) (c0, c1) mode fInexact
      = some (encode (finish mode neg (C * Y + T) Y (-(k : Int) - 6176) pref).1,
              (finish mode neg (C * Y + T) Y (-(k : Int) - 6176) pref).2) := by
  have hY : 0 < Y := by omega
  rw [stickyOf_deep mode neg _ T (by omega) hT0] at hC
  have hsle := deepS_le mode neg
  have hneg : (norm34 (C + deepS mode neg) (-(k : Int))).2 < 0 := by
    unfold norm34; split_ifs <;> simp <;> omega
  obtain ⟨m, hp, hround, hm⟩ := pack_uf mode neg (-(k : Int)) c0 c1 _ fInexact hc0 hc1 hC (by omega) (by omega)
    (by omega) (by omega) hneg
  rw [hp, flags_uf]
  have hD : 0 < 10 ^ (-(norm34 (C + deepS mode neg) (-(k : Int))).2).toNat := Nat.pow_pos (by decide)
  have hmeq := RoundedInt_unique mode neg _ _ _ _ hD hround (roundInt_divmod_spec mode neg _ _ hD)
  rw [deep_rounding mode neg C Y T k hC33 hC34 hT0 hT hk1] at hmeq
  have hDD : 0 < Y * 10 ^ k := Nat.mul_pos hY (Nat.pow_pos (by decide))
  have hround' : RoundedInt mode neg (C * Y + T) (Y * 10 ^ k) m := by
    rw [hmeq]; exact roundInt_divmod_spec mode neg _ _ hDD
  have hfin := finish_tiny_inexact mode neg (C * Y + T) Y k pref (by omega) hY (frac_not_dvd C Y T k hT0 hT) (by
      have h10 : 10 ^ 34 ≤ 10 ^ (k + 33) := Nat.pow_le_pow_right (by decide) (by omega)
      calc C * Y + T < (C + 1) * Y := by rw [Nat.add_mul, Nat.one_mul]; omega
        _ ≤ 10 ^ 34 * Y := Nat.mul_le_mul_right _ (by omega)
        _ ≤ 10 ^ (k + 33) * Y := Nat.mul_le_mul_right _ h10
        _ = Y * 10 ^ (k + 33) := Nat.mul_comm _ _) m hm hround'
  rw [show eMin - (k : Int) = -(k : Int) - 6176 by unfold eMin; ring] at hfin
  rw [hfin]

/-! ## 14. more than 34 digits: the theorem -/

/-- the value of the literal, written on its first 34 digits -/
theorem val_transfer (N C Y T j : Nat) (E : Int) (hN : N = C * Y + T) (hY : Y = 10 ^ j) :
    ((N : Nat) : ℚ) / ((1 : Nat) : ℚ) * (10 : ℚ) ^ E
      = ((C * Y + T : Nat) : ℚ) / ((Y : Nat) : ℚ) * (10 : ℚ) ^ (E + (j : Int)) := by
  subst hN hY
  rw [zpow_add₀ ten_ne, zpow_natCast, Nat.cast_one, div_one]
  have : ((10 ^ j : Nat) : ℚ) = (10 : ℚ) ^ j := by push_cast; rfl
  rw [this]
  have hp : (10 : ℚ) ^ j ≠ 0 := by positivity
  field_simp

/-- **More than 34 digits** (lines 551–643), at most 100: the 34 leading digits are rounded by the tail in the given
mode (with the carry to `10^34`), or — when the result will be subnormal — handed to the packing routine with a sticky
digit so that the value is rounded once; the result is the canonical encoding of the literal's `finish` value, with
exactly its flags. -/
theorem largePath_correct (mode : Mode) (neg : Bool) (sig : Bytes) (E : Int)
    (hsig : ∀ b ∈ sig, isDigitB b = true) (hhead : sig.head? ≠ some 48) (hn1 : 35 ≤ sig.length)
    (hn2 : sig.length ≤ 100) (hE1 : -2147480000 ≤ E) (hE2 : E ≤ 2147470000) :
    largePath mode (signW neg) (arrOf sig) sig.length (E + ((sig.length - 34 : Nat) : Int) + 6176)
        (anyAboveZero (sig.drop 34))
      = some (encode (finish mode neg (digitsVal sig) 1 E E).1, (finish mode neg (digitsVal sig) 1 E E).2) := by
  -- the number in two parts
  have hN : digitsVal sig = digitsVal (sig.take 34) * 10 ^ (sig.length - 34) + digitsVal (sig.drop 34) := by
    have := digitsVal_append (sig.take 34) (sig.drop 34)
    rw [List.take_append_drop, List.length_drop] at this
    exact this
  have hC34 := digitsVal_lt (sig.take 34) (fun b hb => hsig b (List.mem_of_mem_take hb))
  have hT := digitsVal_lt (sig.drop 34) (fun b hb => hsig b (List.mem_of_mem_drop hb))
  rw [List.length_take, Nat.min_eq_left (by omega)] at hC34
  rw [List.length_drop] at hT
  have hC33 : 10 ^ 33 ≤ digitsVal (sig.take 34) := by
    have hne : sig.take 34 ≠ [] := by
      intro h
      have h2 : (sig.take 34).length = 34 := by rw [List.length_take]; omega
      rw [h] at h2; simp at h2
    have hh : (sig.take 34).head? ≠ some 48 := by
      rw [List.head?_take]; simpa using hhead
    have := digitsVal_pos (sig.take 34) (fun b hb => hsig b (List.mem_of_mem_take hb)) hne hh
    rwa [List.length_take, Nat.min_eq_left (by omega)] at this
  obtain ⟨c0, c1, hc0, hc1, hC, hlp⟩ := largePath_pack mode neg sig hsig hn1 hn2
    (E + ((sig.length - 34 : Nat) : Int) + 6176) (by omega) (by omega)
  rw [hlp]
  have hval := val_transfer (digitsVal sig) (digitsVal (sig.take 34)) (10 ^ (sig.length - 34))
    (digitsVal (sig.drop 34)) (sig.length - 34) E hN rfl
  generalize hj : sig.length - 34 = j at *
  generalize digitsVal (sig.take 34) = C at *
  generalize digitsVal (sig.drop 34) = T at *
  generalize digitsVal sig = N at *
  have hY : 0 < 10 ^ j := Nat.pow_pos (by decide)
  have hC0 : 0 < C := lt_of_lt_of_le (by norm_num) hC33
  have hN0 : 0 < N := by rw [hN]; exact lt_of_lt_of_le (Nat.mul_pos hC0 hY) (Nat.le_add_right _ _)
  have hx : E + (j : Int) + 6176 - 6176 = E + (j : Int) := by ring
  by_cases hT0 : T = 0
  · -- the tail is zero: an exact 34-digit number
    subst hT0
    rw [carrySpec_zero, Nat.add_zero, Nat.add_zero] at hC
    rw [if_neg (show ¬ (0 : Nat) < 0 by omega)]
    have hfin : finish mode neg N 1 E E = finish mode neg C 1 (E + (j : Int)) (E + (j : Int)) := by
      rw [← finish_pref_34 mode neg C (E + (j : Int)) E hC33 (by omega)]
      apply finish_congr_val mode neg N 1 C 1 E (E + (j : Int)) E hN0 (by norm_num) hC0 (by norm_num)
      rw [hval, Nat.add_zero, Nat.cast_mul, Nat.cast_one, div_one]
      have : ((10 ^ j : Nat) : ℚ) ≠ 0 := by positivity
      field_simp
    rw [hfin]
    by_cases hsc : E + (j : Int) + 6176 < 0 ∧ -34 < E + (j : Int) + 6176
    · rw [if_pos hsc] at hC ⊢
      obtain ⟨k, hk⟩ : ∃ k : Nat, E + (j : Int) + 6176 = -(k : Int) := ⟨(-(E + (j : Int) + 6176)).toNat, by omega⟩
      have := large_exact_scaled mode neg C k c0 c1 hc0 hc1 hC hC33 hC34 (by omega) (by omega)
      rw [hk, this, show -(k : Int) - 6176 = E + (j : Int) by omega]
    · rw [if_neg hsc] at hC ⊢
      have := large_exact_plain mode neg C (E + (j : Int) + 6176) c0 c1 hc0 hc1 hC hC0 (le_of_lt hC34)
        (by omega) (by omega)
      rw [this, hx]
  · -- a non-zero tail
    have hTpos : 0 < T := by omega
    rw [if_pos hTpos]
    have hfin : finish mode neg N 1 E E = finish mode neg (C * 10 ^ j + T) (10 ^ j) (E + (j : Int)) E :=
      finish_congr_val mode neg N 1 (C * 10 ^ j + T) (10 ^ j) E (E + (j : Int)) E hN0 (by norm_num) (by omega) hY hval
    rw [hfin]
    by_cases he0 : 0 ≤ E + (j : Int) + 6176
    · rw [if_neg (by omega)] at hC ⊢
      have := large_inexact_nonneg mode neg C (10 ^ j) T (E + (j : Int) + 6176) E c0 c1 hc0 hc1 hC hC33 hC34 hTpos hT
        he0 (by omega)
      rw [this, hx]
    · obtain ⟨k, hk⟩ : ∃ k : Nat, E + (j : Int) + 6176 = -(k : Int) := ⟨(-(E + (j : Int) + 6176)).toNat, by omega⟩
      have hcs : carrySpec mode neg (E + (j : Int) + 6176) C T (10 ^ j) = stickyOf mode neg (-(k : Int)) T := by
        unfold carrySpec; rw [if_neg he0, hk]
      rw [hcs] at hC
      by_cases hsc : E + (j : Int) + 6176 < 0 ∧ -34 < E + (j : Int) + 6176
      · rw [if_pos hsc] at hC ⊢
        have := large_inexact_scaled mode neg C (10 ^ j) T k E c0 c1 hc0 hc1 hC hC33 hC34 hTpos hT (by omega) (by omega)
        rw [hk, this, show -(k : Int) - 6176 = E + (j : Int) by omega]
      · rw [if_neg hsc] at hC ⊢
        have := large_inexact_deep mode neg C (10 ^ j) T k E c0 c1 hc0 hc1 hC hC33 hC34 hTpos hT (by omega) (by omega)
        rw [hk, this, show -(k : Int) - 6176 = E + (j : Int) by omega]

/-! ## 15. the numeric phase on what the scanner hands over for a well-formed literal -/

theorem drop_length_takeWhile (p : Nat → Bool) (l : Bytes) : l.drop (l.takeWhile p).length = l.dropWhile p := by
  induction l with
  | nil => rfl
  | cons a t ih =>
    rw [List.takeWhile_cons, List.dropWhile_cons]
    split
    · simpa using ih
    · rfl

/-- the literal the scanner hands over (`scan_agrees_strict`): leading zeros of the integer part dropped -/
def handedOver (l : Literal) : Literal := { l with intDigits := l.intDigits.dropWhile (· == 48) }

/-- the stored digits of the handed-over literal are the significant digits of the literal -/
theorem bufOf_handedOver (l : Literal) : bufOf (handedOver l) = l.sigDigits := by
  unfold bufOf rrlzOf handedOver Literal.sigDigits
  simp only
  rw [List.dropWhile_append]
  by_cases h : (l.intDigits.dropWhile (· == 48)).isEmpty = true
  · rw [if_pos h, if_pos h, drop_length_takeWhile]
    have : l.intDigits.dropWhile (· == 48) = [] := by simpa using h
    rw [this, List.nil_append]
  · rw [if_neg h, if_neg h, List.drop_zero]

/-- **The numeric phase is correct on every well-formed literal of at most 100 significant digits**: given what the
scanner hands over for it, lines 506–643 return the canonical encoding of `parseLiteralSpec` with exactly its flags. -/
theorem numericPhase_correct (mode : Mode) (l : Literal) (hip : ∀ b ∈ l.intDigits, isDigitB b = true)
    (hfp : ∀ b ∈ l.fracDigits, isDigitB b = true) (hd : l.sigDigits.length ≤ 100)
    (he : l.exp.natAbs < 1000000) (hf : l.fracDigits.length < 1000000000) :
    numericPhase mode (handedOver l) false
      = some (encode (parseLiteralSpec mode l).1, (parseLiteralSpec mode l).2) := by
  have hbuf := bufOf_handedOver l
  have hsigd : ∀ b ∈ l.sigDigits, isDigitB b = true := by
    intro b hb
    have : b ∈ l.intDigits ++ l.fracDigits := List.Sublist.mem hb (List.dropWhile_sublist _)
    rcases List.mem_append.1 this with h | h
    · exact hip b h
    · exact hfp b h
  have hhead : l.sigDigits.head? ≠ some 48 := C04Scan.dropZeros_head _
  have hval : digitsVal l.sigDigits = l.coeff := by
    unfold Literal.sigDigits Literal.coeff; exact digitsVal_dropZeros _
  have hspec : parseLiteralSpec mode l = specOf mode l.neg l.coeff l.exp10 := rfl
  have hsw : (if (handedOver l).neg = true then 0x8000000000000000 else 0) = signW l.neg := rfl
  unfold numericPhase
  simp only [hbuf, hsw]
  by_cases h34 : l.sigDigits.length ≤ 34
  · rw [if_pos h34]
    have hexp : wrapI32 ((handedOver l).exp + 6176 - ((handedOver l).fracDigits.length : Int)) = l.exp10 + 6176 := by
      unfold Literal.exp10 handedOver
      simp only
      rw [wrapI32_id _ (by omega) (by omega)]; ring
    rw [hexp, smallPath_correct mode l.neg l.sigDigits l.exp10 hsigd hhead h34
      (by unfold Literal.exp10; omega) (by unfold Literal.exp10; omega), hval, hspec]
  · rw [if_neg h34]
    -- the number of stored digits and the exponent of the 34 leading ones
    have hz : rrlzOf (handedOver l) ≤ l.fracDigits.length := by
      unfold rrlzOf handedOver; simp only
      split
      · exact List.Sublist.length_le (List.takeWhile_sublist _)
      · omega
    have hlen : l.sigDigits.length
        = (l.intDigits.dropWhile (· == 48)).length + (l.fracDigits.length - rrlzOf (handedOver l)) := by
      rw [← hbuf]; unfold bufOf; rw [List.length_append, List.length_drop]; rfl
    have hipl : (l.intDigits.dropWhile (· == 48)).length ≤ 100 := by omega
    have hexp : wrapI32 ((handedOver l).exp + ((handedOver l).intDigits.length : Int) + 6176 - 34
          - (rrlzOf (handedOver l) : Int))
        = l.exp10 + ((l.sigDigits.length - 34 : Nat) : Int) + 6176 := by
      have h1 : (handedOver l).exp = l.exp := rfl
      have h2 : (handedOver l).intDigits = l.intDigits.dropWhile (· == 48) := rfl
      rw [h1, h2, wrapI32_id _ (by omega) (by omega)]
      unfold Literal.exp10
      omega
    have hpos : 0 < l.coeff := by
      rw [← hval]
      exact lt_of_lt_of_le (Nat.pow_pos (by decide))
        (digitsVal_pos l.sigDigits hsigd (by intro h; rw [h] at h34; simp at h34) hhead)
    have hspec' : parseLiteralSpec mode l = finish mode l.neg l.coeff 1 l.exp10 l.exp10 := by
      rw [hspec]; unfold specOf; rw [if_neg (by omega)]
    rw [hexp, Nat.min_eq_left hd, Bool.false_or,
      largePath_correct mode l.neg l.sigDigits l.exp10 hsigd hhead (by omega) hd
        (by unfold Literal.exp10; omega) (by unfold Literal.exp10; omega), hval, hspec']

/-! ## 16. the whole conversion -/

/-- the early-return zero of the scanner is the zero `parseLiteralSpec` asks for -/
theorem early_zero_bits (neg : Bool) (e10 : Int) (h : e10 ≤ 6111) :
    signBit neg + (6176 + max e10 (-6176)).toNat * 2 ^ 113 = encode (zeroAt neg e10) := by
  have hcl : clampInt eMin eMax e10 = max e10 (-6176) := by
    unfold clampInt eMin eMax; split_ifs <;> omega
  have henc : ∀ x : Int, encode (.fin neg 0 x) = signBit neg + (x + 6176).toNat * 2 ^ 113 + 0 := fun _ => rfl
  unfold zeroAt
  rw [hcl, henc, Nat.add_zero, show (6176 : Int) + max e10 (-6176) = max e10 (-6176) + 6176 by ring]

/-- `fromStringCP` once the scanner's outcome is known -/
theorem fromStringCP_zero (mode : Mode) (cps : List Nat) (neg : Bool) (e : Int) (h : scanCP cps = .zero neg e) :
    ScanNum.fromStringCP mode cps = some (signBit neg + (6176 + e).toNat * 2 ^ 113, 0) := by
  unfold ScanNum.fromStringCP; rw [h]

theorem fromStringCP_number (mode : Mode) (cps : List Nat) (l : Literal) (st : Bool)
    (h : scanCP cps = .number l st) : ScanNum.fromStringCP mode cps = numericPhase mode l st := by
  unfold ScanNum.fromStringCP; rw [h]

open C04Grammar C04Scan in
/-- a literal text without exponent letter has exponent 0 -/
theorem exp_zero_of_no_letter (s : List Char) (l : Literal) (h : parseLiteral (textBytes s) = some l)
    (hx : hasExpLetter (textBytes s) = false) : l.exp = 0 := by
  obtain ⟨sh, hwf, hr, hl⟩ := parse_sound _ l h
  have h2 := hasExpLetter_render sh hwf
  rw [hr, hx] at h2
  rw [← hl]
  cases hxx : sh.exp with
  | none => simp [Shape.literal, hxx, expVal]
  | some y => rw [hxx] at h2; simp at h2

open C04Grammar C04Scan in
theorem literal_digits (s : List Char) (l : Literal) (h : parseLiteral (textBytes s) = some l) :
    (∀ b ∈ l.intDigits, isDigitB b = true) ∧ (∀ b ∈ l.fracDigits, isDigitB b = true) := by
  obtain ⟨sh, hwf, hr, hl⟩ := parse_sound _ l h
  rw [← hl]
  exact ⟨hwf.1, hwf.2.1⟩

open C04Scan in
/-- **C04's main clause, about the code-shaped model.**  Let the text be a well-formed literal `l` (strict grammar on
its UTF-8 bytes) with at most 100 significant digits, an exponent below `10^6` in magnitude and fewer than `10^9`
fraction digits (the code counts in `i32`).  Then, in every rounding mode, the code-shaped pipeline — the scanner
model of `DecModel/Scan.lean`, then the numeric phase of `DecModel/ScanNum.lean` transcribed statement by statement,
ending in the word-level model of `bid_get_BID128` — returns, without reaching any panic site, the canonical encoding
of the correctly rounded value `parseLiteralSpec mode l` (an exact zero for a zero literal, else `finish` on
`coeff · 10^exp10`) together with exactly its flags. -/
theorem fromStringCode_correct (mode : Mode) (s : List Char) (l : Literal)
    (h : parseLiteral (textBytes s) = some l) (hd : l.sigDigits.length ≤ 100) (he : l.exp.natAbs < 1000000)
    (hf : l.fracDigits.length < 1000000000) :
    fromStringCode mode s = some (encode (parseLiteralSpec mode l).1, (parseLiteralSpec mode l).2) := by
  have hsc : scanCP (s.map Char.toNat) = _ := scan_agrees_strict s l h hd he
  unfold fromStringCode
  by_cases hc : l.coeff = 0 ∧ hasExpLetter (textBytes s) = false
  · rw [if_pos hc] at hsc
    rw [fromStringCP_zero mode _ _ _ hsc]
    have hexp0 := exp_zero_of_no_letter s l h hc.2
    have hspec : parseLiteralSpec mode l = (zeroAt l.neg l.exp10, 0) := by
      unfold parseLiteralSpec; rw [if_pos hc.1]
    rw [hspec, early_zero_bits l.neg l.exp10 (by unfold Literal.exp10; omega)]
  · rw [if_neg hc] at hsc
    rw [fromStringCP_number mode _ _ _ hsc]
    obtain ⟨hip, hfp⟩ := literal_digits s l h
    exact numericPhase_correct mode l hip hfp hd he hf

/-- … in particular the conversion of such a literal reaches no panic site, in the scanner or in the numeric phase -/
theorem fromStringCode_no_panic (mode : Mode) (s : List Char) (l : Literal)
    (h : parseLiteral (C04Scan.textBytes s) = some l) (hd : l.sigDigits.length ≤ 100) (he : l.exp.natAbs < 1000000)
    (hf : l.fracDigits.length < 1000000000) : fromStringCode mode s ≠ none := by
  rw [fromStringCode_correct mode s l h hd he hf]; simp

/-! ## 17. the judge's interface -/

theorem utf8DecodeLoose_ascii (b : Bytes) : ∀ f, (∀ x ∈ b, x < 128) → b.length ≤ f → utf8DecodeLoose f b = b := by
  induction b with
  | nil => intro f _ _; cases f <;> rfl
  | cons x t ih =>
    intro f hx hf
    obtain ⟨f', rfl⟩ : ∃ f', f = f' + 1 := ⟨f - 1, by simp at hf; omega⟩
    have hx0 : x < 0x80 := hx x (by simp)
    have iht := ih f' (fun y hy => hx y (by simp [hy])) (by simp at hf; omega)
    simp only [utf8DecodeLoose, hx0, if_true, iht]

/-- an ASCII text is its own list of code points -/
theorem utf8Decode_ascii (b : Bytes) (hb : ∀ x ∈ b, x < 128) : utf8Decode? b = some b := by
  unfold utf8Decode?
  rw [utf8DecodeLoose_ascii b _ hb (le_refl _)]
  have h1 : b.all (fun c => c < 0xD800 || (0xE000 ≤ c && c < 0x110000)) = true := by
    rw [List.all_eq_true]
    intro c hc
    have := hb c hc
    simp only [Bool.or_eq_true, decide_eq_true_eq]
    left; omega
  have h2 : (utf8 b == b) = true := by rw [C04Scan.utf8_ascii b hb]; simp
  simp [h1, h2]

open C04Scan in
/-- **The interface agrees with the theorem**: on the UTF-8 bytes of a well-formed literal (in the domain of
`fromStringCode_correct`) `fromStringCodeBits` predicts the canonical encoding of `parseLiteralSpec` and its flags. -/
theorem fromStringCodeBits_correct (mode : Mode) (s : List Char) (l : Literal)
    (h : parseLiteral (textBytes s) = some l) (hd : l.sigDigits.length ≤ 100) (he : l.exp.natAbs < 1000000)
    (hf : l.fracDigits.length < 1000000000) :
    fromStringCodeBits mode (textBytes s)
      = some (some (encode (parseLiteralSpec mode l).1, (parseLiteralSpec mode l).2)) := by
  have hasc : ∀ b ∈ textBytes s, b < 128 := by
    intro b hb
    have := C04Grammar.literal_bytes _ l h b hb
    simp only [isDigitB, Bool.and_eq_true, decide_eq_true_eq] at this
    omega
  have hcp : utf8 (s.map Char.toNat) = s.map Char.toNat := utf8_ascii _ (ascii_of_utf8 _ hasc)
  have hfs := fromStringCode_correct mode s l h hd he hf
  unfold fromStringCodeBits
  rw [show textBytes s = s.map Char.toNat from hcp, utf8Decode_ascii _ (by rw [← hcp]; exact hasc), Option.map_some]
  exact congrArg some hfs

/-- bytes that are not UTF-8 are not a `&str`: no prediction -/
example : fromStringCodeBits .rne [49, 0xC3] = none := by decide
example : fromStringCodeBits .rne [0xC0, 0xB1] = none := by decide        -- an overlong form
example : fromStringCodeBits .rne [0xED, 0xA0, 0x80] = none := by decide  -- a surrogate
-- `nanñ`: well-formed UTF-8, quiet NaN
example : fromStringCodeBits .rne [110, 97, 110, 0xC3, 0xB1] = some (some (0x7c * 2 ^ 120, 0)) := by decide

/-! ## 18. the pipeline on concrete texts

Each line was also run through the real function (`convert_from_decimal_character`, all outputs identical). -/

/-- the decimal digits of `n` as characters -/
def chars (n : Nat) : List Char := (digitBytes n).map Char.ofNat

-- `1.5`: exact
example : fromStringCode .rne ['1', '.', '5'] = some (0x303e000000000000000000000000000f, 0) := by decide +kernel
-- 35 digits, a tie at digit 35 after an even digit: NearestEven keeps, NearestAway goes up; inexact
example : fromStringCode .rne (chars 12345678901234567890123456789012345)
    = some (0x30423cde6fff9732de825cd07e96aff2, 0x20) := by decide +kernel
example : fromStringCode .rna (chars 12345678901234567890123456789012345)
    = some (0x30423cde6fff9732de825cd07e96aff3, 0x20) := by decide +kernel
-- the carry to 10^34: 1.000…E+35
example : fromStringCode .rne (chars 99999999999999999999999999999999995)
    = some (0x3044314dc6448d9338c15b0a00000000, 0x20) := by decide +kernel
-- overflow: infinity, or the largest finite number when rounding toward zero
example : fromStringCode .rne (['1', 'e'] ++ chars 6145) = some (0x78000000000000000000000000000000, 0x28) := by
  decide +kernel
example : fromStringCode .rtz (['-', '1', 'e'] ++ chars 6145) = some (0xdfffed09bead87c0378d8e63ffffffff, 0x28) := by
  decide +kernel
-- 35 digits rounded into the subnormal range, once, through the sticky digit (Upward)
example : fromStringCode .rup (chars 12345678901234567890123456789012345 ++ ['e', '-'] ++ chars 6200)
    = some (0x2dfdc1c36, 0x30) := by decide +kernel
-- D17 (repaired): just below half of the least subnormal, NearestAway: 0, not 1
example : fromStringCode .rna (chars 49999999999999999999999999999999991 ++ ['e', '-'] ++ chars 6211)
    = some (0, 0x30) := by decide +kernel
-- a zero literal far below the exponent range: an exact zero at the least exponent, whatever the mode (D10, repaired)
example : fromStringCode .rup (['0', 'e', '-'] ++ chars 7000) = some (0, 0) := by decide +kernel
-- 35 digits with a fraction at the largest exponent
example : fromStringCode .rne (chars 1234567890123456789012345678901234 ++ ['.', '5', 'e'] ++ chars 6111)
    = some (0x5ffe3cde6fff9732de825cd07e96aff2, 0x20) := by decide +kernel
-- an exact subnormal: no flag
example : fromStringCode .rdn (['-', '0', '.', '0', '0', '0', '0', '0', '1', 'e', '-'] ++ chars 6170)
    = some (0x80000000000000000000000000000001, 0) := by decide +kernel
-- the special spellings and the lenient texts go through the same function
example : fromStringCode .rne ['-', 'I', 'n', 'f'] = some (0xf8 * 2 ^ 120, 0) := by decide +kernel
example : fromStringCode .rne ['1', 'e', '5', 'x'] = some (0x304a0000000000000000000000000001, 0) := by decide +kernel
example : fromStringCode .rne ['-', '1', 'x'] = some (0x7c * 2 ^ 120, 0) := by decide +kernel

/-! ### the hypotheses of `fromStringCode_correct` are satisfiable, and its conclusion is the value above -/

example :
    parseLiteral (C04Scan.textBytes (chars 12345678901234567890123456789012345 ++ ['e', '-'] ++ chars 6200))
        = some ⟨false, digitBytes 12345678901234567890123456789012345, [], -6200⟩ ∧
      (⟨false, digitBytes 12345678901234567890123456789012345, [], -6200⟩ : Literal).sigDigits.length ≤ 100 ∧
      (encode (parseLiteralSpec .rup ⟨false, digitBytes 12345678901234567890123456789012345, [], -6200⟩).1,
        (parseLiteralSpec .rup ⟨false, digitBytes 12345678901234567890123456789012345, [], -6200⟩).2)
        = (0x2dfdc1c36, 0x30) := by
  decide +kernel

/-! ### the panic sites of the numeric phase are live -/

-- `buffer[i..n]` with `i > n`: the code forms `buffer[35..]` only when there are at least 35 digits
example : slice (arrOf [49, 50]) 35 34 = none := by decide
-- `char::to_digit(buffer[34], 10).unwrap()` on the blank of an unused entry: reached only with more than 34 digits
example : (arrOf [49, 50])[34]? = some 32 ∧ toDigit10 32 = none := by decide
-- a slice beyond the 100 entries
example : slice (arrOf [49, 50]) 34 101 = none := by decide

end Dec.C04ScanNum