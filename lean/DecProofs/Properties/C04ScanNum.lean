/-
  C04 (code level, numeric phase) — `DecModel/ScanNum.lean` transcribes lines 506–643 of
  `bid128_from_string_clear_status` (coefficient assembly by the ×10 chains in 64-bit halves, the rounding at digit 35,
  the sticky digit kept for results that will be subnormal, `bid_get_BID128`) and composes it with the scanner model
  into `fromStringCode`.  Here: on every well-formed literal of at most 100 significant digits the code-shaped
  pipeline returns the canonical encoding of `parseLiteralSpec` with exactly its flags, and never panics.
-/
import DecModel.ScanNum
import DecProofs.Properties.C04Scan
import DecProofs.Properties.C13PackHelpers
import DecProofs.Properties.C01ArithHelpers

namespace Dec.C04ScanNum
open Dec.PackH Dec.ScanNum Dec.C13PackHelpers

/-! ## 1. `buffer`: indices and slices -/

theorem arrOf_length (buf : Bytes) : (arrOf buf).length = 100 := by
  simp [arrOf]

theorem arrOf_take (buf : Bytes) (b : Nat) (hb : b ≤ buf.length) (h100 : buf.length ≤ 100) :
    (arrOf buf).take b = buf.take b := by
  unfold arrOf
  rw [List.take_take, Nat.min_eq_left (by omega), List.take_append_of_le_length hb]

theorem arrOf_getElem? (buf : Bytes) (i : Nat) (hi : i < buf.length) (h100 : buf.length ≤ 100) :
    (arrOf buf)[i]? = buf[i]? := by
  unfold arrOf
  rw [List.getElem?_take_of_lt (by omega), List.getElem?_append_left hi]

theorem slice_arrOf (buf : Bytes) (a b : Nat) (hab : a ≤ b) (hb : b ≤ buf.length) (h100 : buf.length ≤ 100) :
    slice (arrOf buf) a b = some ((buf.take b).drop a) := by
  unfold slice
  rw [arrOf_length, if_pos ⟨hab, by omega⟩, arrOf_take buf b hb h100]

/-! ## 2. the ×10 chains -/

theorem digitWord_digit (d : Nat) (hd : isDigitB d = true) : digitWord d = d - 48 := by
  simp only [isDigitB, Bool.and_eq_true, decide_eq_true_eq] at hd
  unfold digitWord wordOfI32
  omega

theorem chainStep_val (c ch : Nat) (hch : 48 ≤ ch) (hb : 10 * c + ch < 2 ^ 64) :
    chainStep c ch = 10 * c + (ch - 48) := by
  simp only [chainStep, add64, sub64, shl64, W64, Nat.shiftLeft_eq]
  omega

theorem chain_val (ds : Bytes) (hds : ∀ b ∈ ds, isDigitB b = true) :
    ∀ c, c * 10 ^ ds.length + digitsVal ds < 10 ^ 19 → chain c ds = c * 10 ^ ds.length + digitsVal ds := by
  induction ds with
  | nil => intro c _; simp [chain, digitsVal]
  | cons d t ih =>
    intro c hc
    have hd : isDigitB d = true := hds d (by simp)
    have hd' : 48 ≤ d ∧ d ≤ 57 := by simpa only [isDigitB, Bool.and_eq_true, decide_eq_true_eq] using hd
    have hP : 0 < 10 ^ t.length := Nat.pow_pos (by decide)
    rw [digitsVal_cons, List.length_cons, Nat.pow_succ] at hc ⊢
    have e1 : c * (10 ^ t.length * 10) + ((d - 48) * 10 ^ t.length + digitsVal t)
        = (10 * c + (d - 48)) * 10 ^ t.length + digitsVal t := by ring
    rw [e1] at hc ⊢
    have hle : 10 * c + (d - 48) ≤ (10 * c + (d - 48)) * 10 ^ t.length := Nat.le_mul_of_pos_right _ hP
    have hstep : chainStep c d = 10 * c + (d - 48) := chainStep_val c d hd'.1 (by
      have : (10 : Nat) ^ 19 + 48 < 2 ^ 64 := by norm_num
      omega)
    have := ih (fun b hb => hds b (by simp [hb])) (10 * c + (d - 48)) hc
    simp only [chain, List.foldl_cons] at this ⊢
    rw [hstep, this]

/-- reading a run of digits `buffer[a..b]` (at most 19 of them) gives its value -/
theorem readRun_val (buf : Bytes) (hbuf : ∀ b ∈ buf, isDigitB b = true) (h100 : buf.length ≤ 100) (a b : Nat)
    (hab : a < b) (hb : b ≤ buf.length) (h19 : b - a ≤ 19) :
    readRun (arrOf buf) a b = some (digitsVal ((buf.take b).drop a)) := by
  unfold readRun
  rw [arrOf_getElem? buf a (by omega) h100, slice_arrOf buf (a + 1) b (by omega) hb h100]
  have ha : a < buf.length := by omega
  rw [List.getElem?_eq_getElem ha]
  simp only [Option.bind_eq_bind, Option.bind_some]
  have hmem : buf[a] ∈ buf := List.getElem_mem ha
  have hrun : (buf.take b).drop a = buf[a] :: (buf.take b).drop (a + 1) := by
    have h1 : a < (buf.take b).length := by rw [List.length_take]; omega
    rw [List.drop_eq_getElem_cons h1, List.getElem_take]
  have hdig : ∀ x ∈ (buf.take b).drop (a + 1), isDigitB x = true := fun x hx =>
    hbuf x (List.mem_of_mem_take (List.mem_of_mem_drop hx))
  have hlen : ((buf.take b).drop (a + 1)).length = b - a - 1 := by
    rw [List.length_drop, List.length_take]; omega
  rw [hrun, digitsVal_cons, digitWord_digit _ (hbuf _ hmem)]
  have hlt := digitsVal_lt ((buf.take b).drop (a + 1)) hdig
  have hd' : buf[a] - 48 ≤ 9 := by
    have := hbuf _ hmem
    simp only [isDigitB, Bool.and_eq_true, decide_eq_true_eq] at this; omega
  rw [chain_val _ hdig]
  rw [hlen] at hlt ⊢
  have hp : 10 ^ (b - a - 1) ≤ 10 ^ 18 := Nat.pow_le_pow_right (by decide) (by omega)
  have : (buf[a] - 48) * 10 ^ (b - a - 1) ≤ 9 * 10 ^ 18 := Nat.mul_le_mul hd' hp
  have : (9 : Nat) * 10 ^ 18 + 10 ^ 18 = 10 ^ 19 := by norm_num
  omega

end Dec.C04ScanNum
