/-
  C01GenDivClosed — the division of the translated source, with no residual hypothesis.

  `C01GenDivFinal` proves `bid128_div = divD` on all operands, and the property sentences about `Api.run "division"`, under the one
  named hypothesis `CornerMargin` (a float margin of the 256-by-128-bit long division, needed only for quotients in
  [2^100 − 2^49, 2^100)); `C01GenDiv256Corner.corner_ok` proves that margin.  This file puts the two together.
-/
import DecProofs.Properties.C01GenDivFinal
import DecProofs.Properties.C01GenDiv256Corner

namespace Dec.C01GenDivClosed
open Dec Dec.Rs Dec.Gen.Code Dec.Gen.Api Dec.C01GenDivFinal Dec.C13GenPack
open Dec Dec.Rs Dec.Gen.Code Dec.C13GenPack Dec.C01GenDiv Dec.C12GenNaN
open Dec.C13PackHelpers (norm34 bits)
open Dec.C06GenFromInt (ofBits)
open Dec.C01GenMul (dOf)
open Dec.C10GenRem (lval)
open Dec.C01GenDiv256 (lval3)
open Dec.C10GenFmodRem (binSpec binSpec_nonnan result_datum dnan_word inv_flag no_flag)

/-- the float margin holds for every divisor below 2^113 and every dividend -/
theorem cornerMargin : CornerMargin := fun X Y _ hY => Dec.C01GenDiv256.corner_ok X Y hY

/-- **`bid128_div` of the translated source is the specification**: for every pair of patterns (NaN included), every rounding mode
and every status word on entry it returns — never panics — the canonical encoding of `divD`'s datum and ORs `divD`'s flags into the
status word. -/
theorem bid128_div_spec (x y : U128) (m : RoundingMode) (f : UInt32) :
    bid128_div x y m f = .ok (binSpec (divD (md m)) x y f) :=
  Dec.C01GenDivFinal.bid128_div_spec cornerMargin x y m f

/-- the public method `division`, as dispatched by the regenerated `DecGen/Api.lean` -/
theorem api_division (m : RoundingMode) (f : UInt32) (x y : U128) :
    run "division" m f [.d x, .d y]
      = some (.ok ([.d (binSpec (divD (md m)) x y f).1], (binSpec (divD (md m)) x y f).2)) :=
  Dec.C01GenDivFinal.api_division cornerMargin m f x y

/-- the C01 sentence for division, hypothesis-free: `C01GenDivFinal.quotient_property` at the proved margin (correctly rounded
quotient with the xor sign and preferred exponent e1 − e2, canonical; no flag iff exactly representable) -/
theorem quotient_property (m : RoundingMode) (f : UInt32) (x y : U128) (s1 s2 : Bool) (c1 c2 : Nat)
    (e1 e2 : Int) (hx : dOf x = .fin s1 c1 e1) (hy : dOf y = .fin s2 c2 e2) (hc1 : c1 ≠ 0) (hc2 : c2 ≠ 0) :
    ∃ (r : U128) (F : Flags), run "division" m f [.d x, .d y] = some (.ok ([.d r], f ||| UInt32.ofNat F)) ∧
      isCanonical (bitsOf r) = true ∧
      decide (fval s1 c1 e1 / fval s2 c2 e2 < 0) = (s1 != s2) ∧
      FinishSpecStrict (md m) (s1 != s2) |fval s1 c1 e1 / fval s2 c2 e2| (e1 - e2) (dOf r, F) ∧
      ((F = 0 ∧ IsMember |fval s1 c1 e1 / fval s2 c2 e2|) ∨
        (¬ IsMember |fval s1 c1 e1 / fval s2 c2 e2| ∧
          (F = fInexact ∨ F = fUnderflow ||| fInexact ∨ F = fOverflow ||| fInexact))) :=
  Dec.C01GenDivFinal.quotient_property cornerMargin m f x y s1 s2 c1 c2 e1 e2 hx hy hc1 hc2

end Dec.C01GenDivClosed
