/-
  JudgeSound — what an `ok` verdict of the judge means.

  The judge is the comparator of the correspondence check; these theorems say that it accepts an
  observation exactly when the observed results and the outgoing status word are what the model
  prescribes, and connect the op-name dispatch (`expect`) to the datum-level definitions the property
  theorems talk about.  So "the judge said ok on this call of `addition`" *means* "the bits returned
  are `encode` of the model's sum and the status word is the incoming one OR-ed with the model's raised
  set" — and the model's sum is characterised by the theorems of C01 etc.
-/
import DecModel.Judge
import DecProofs.Properties.C12
import DecProofs.Properties.C14

namespace Dec.JudgeSound

/-- accepted against `oneOf` ⇔ returned normally, results among the alternatives, flags exactly
incoming ∪ raised -/
theorem ok_oneOf_iff (alts : List (List Val)) (raised : Flags) (o : Obs) :
    (∃ c, judgeWith (.oneOf alts raised) o = .ok c) ↔
      ∃ res fout, o.out = some (res, fout) ∧ res ∈ alts ∧ fout = o.flagsIn ||| raised := by
  constructor
  · rintro ⟨c, hc⟩
    rcases hout : o.out with _ | ⟨res, fout⟩
    · exact absurd hc (by unfold judgeWith; rw [hout]; simp)
    · have := Dec.C14.judge_flags_exact alts raised o res fout hout c hc
      exact ⟨res, fout, rfl, this.2, this.1⟩
  · rintro ⟨res, fout, hout, hmem, hf⟩
    unfold judgeWith
    rw [hout]
    have h1 : alts.contains res = true := by simpa [List.contains_iff_mem] using hmem
    simp only [h1, Bool.not_true, Bool.false_eq_true, if_false, hf, ne_eq, not_true_eq_false]
    exact ⟨_, rfl⟩

/-- the special case of a single acceptable result -/
theorem ok_exact_iff (vs : List Val) (raised : Flags) (o : Obs) :
    (∃ c, judgeWith (exactly vs raised) o = .ok c) ↔ o.out = some (vs, o.flagsIn ||| raised) := by
  unfold exactly
  rw [ok_oneOf_iff]
  constructor
  · rintro ⟨res, fout, hout, hmem, hf⟩
    simp only [List.mem_singleton] at hmem
    rw [hout, hmem, hf]
  · intro h; exact ⟨vs, _, h, by simp, rfl⟩

/-- `accepts` is `judgeWith` of the dispatched expectation -/
theorem accepts_def (ta : Bool) (o : Obs) : accepts ta o = judgeWith (expect o.op o.mode o.args ta) o := rfl

/-! ### dispatch: the expectation attached to an operation name is the datum-level definition -/

theorem dispatch_addition (m : Mode) (x y : Nat) (ta : Bool) :
    expect "addition" m [.d x, .d y] ta = bin x y (fun a b => exactD (addD m a b)) := rfl
theorem dispatch_subtraction (m : Mode) (x y : Nat) (ta : Bool) :
    expect "subtraction" m [.d x, .d y] ta = bin x y (fun a b => exactD (subD m a b)) := rfl
theorem dispatch_multiplication (m : Mode) (x y : Nat) (ta : Bool) :
    expect "multiplication" m [.d x, .d y] ta = bin x y (fun a b => exactD (mulD m a b)) := rfl
theorem dispatch_division (m : Mode) (x y : Nat) (ta : Bool) :
    expect "division" m [.d x, .d y] ta = bin x y (fun a b => exactD (divD m a b)) := rfl
theorem dispatch_square_root (m : Mode) (x : Nat) (ta : Bool) :
    expect "square_root" m [.d x] ta = un x (fun a => exactD (sqrtD m a)) := rfl
theorem dispatch_fma (m : Mode) (x y z : Nat) (ta : Bool) :
    expect "fused_multiply_add" m [.d x, .d y, .d z] ta =
      nanRule [decode x, decode y, decode z] (fun _ => exactD (fmaD m ta (decode x) (decode y) (decode z))) := rfl
theorem dispatch_quantize (m : Mode) (x y : Nat) (ta : Bool) :
    expect "quantize" m [.d x, .d y] ta = bin x y (fun a b => exactD (quantizeD m a b)) := rfl
theorem dispatch_remainder (m : Mode) (x y : Nat) (ta : Bool) :
    expect "remainder" m [.d x, .d y] ta = bin x y (fun a b => exactD (remD a b)) := rfl
theorem dispatch_fmod (m : Mode) (x y : Nat) (ta : Bool) :
    expect "fmod" m [.d x, .d y] ta = bin x y (fun a b => exactD (fmodD a b)) := rfl
theorem dispatch_scaleb (m : Mode) (x : Nat) (n : Int) (ta : Bool) :
    expect "scaleb" m [.d x, .i n] ta = un x (fun a => exactD (scalebD m n a)) := rfl
theorem dispatch_scalebln (m : Mode) (x : Nat) (n : Int) (ta : Bool) :
    expect "scalebln" m [.d x, .i n] ta = un x (fun a => exactD (scalebD m (clampI32 n) a)) := rfl
theorem dispatch_next_up (m : Mode) (x : Nat) (ta : Bool) :
    expect "next_up" m [.d x] ta = un x (fun a => exactly [.d (encode (nextUpD a))] 0) := rfl
theorem dispatch_next_after (m : Mode) (x y : Nat) (ta : Bool) :
    expect "next_after" m [.d x, .d y] ta = bin x y (fun a b => exactD (nextAfterD a b)) := rfl
theorem dispatch_total_order (m : Mode) (x y : Nat) (ta : Bool) :
    expect "total_order" m [.d x, .d y] ta = boolE (totalLe (decode x) (decode y)) := rfl
theorem dispatch_quiet_less (m : Mode) (x y : Nat) (ta : Bool) :
    expect "compare_quiet_less" m [.d x, .d y] ta = cmpPred true "less" (decode x) (decode y) := rfl
theorem dispatch_signaling_greater_equal (m : Mode) (x y : Nat) (ta : Bool) :
    expect "compare_signaling_greater_equal" m [.d x, .d y] ta = cmpPred false "greater_equal" (decode x) (decode y) := rfl
theorem dispatch_to_i32_floor (m : Mode) (x : Nat) (ta : Bool) :
    expect "convert_to_i32_toward_negative" m [.d x] ta =
      (let r := toIntD .rdn false i32Ty.lo i32Ty.hi i32Ty.indef (decode x); exactly [.i r.1] r.2) := rfl
theorem dispatch_to_u64_xrninta (m : Mode) (x : Nat) (ta : Bool) :
    expect "convert_to_u64_exact_ties_to_away" m [.d x] ta =
      (let r := toIntD .rna true u64Ty.lo u64Ty.hi u64Ty.indef (decode x); exactly [.i r.1] r.2) := rfl
theorem dispatch_from_i64 (m : Mode) (n : Int) (ta : Bool) :
    expect "from_i64" m [.i n] ta = exactly [.d (encode (fromIntD n))] 0 := rfl
theorem dispatch_encode_decimal (m : Mode) (x : Nat) (ta : Bool) :
    expect "encode_decimal" m [.d x] ta = exactly [.d (toDpd x)] 0 := rfl
theorem dispatch_decode_decimal (m : Mode) (x : Nat) (ta : Bool) :
    expect "decode_decimal" m [.d x] ta = exactly [.d (fromDpd x)] 0 := rfl
theorem dispatch_display (m : Mode) (x : Nat) (ta : Bool) :
    expect "display" m [.d x] ta = exactly [.s (format true (decode x))] 0 := rfl
theorem dispatch_op_forms (m : Mode) (x y : Nat) (ta : Bool) :
    expect "op_add_assign_ref" m [.d x, .d y] ta = expect "op_add" m [.d x, .d y] ta ∧
    expect "op_sub_assign" m [.d x, .d y] ta = expect "op_sub" m [.d x, .d y] ta ∧
    expect "op_mul_ref" m [.d x, .d y] ta = expect "op_mul" m [.d x, .d y] ta ∧
    expect "op_div_assign_ref" m [.d x, .d y] ta = expect "op_div" m [.d x, .d y] ta ∧
    expect "op_rem_assign" m [.d x, .d y] ta = expect "op_rem" m [.d x, .d y] ta := ⟨rfl, rfl, rfl, rfl, rfl⟩

/-! ### what acceptance means for a binary arithmetic operation on non-NaN operands -/

/-- If the judge accepts an observed `addition` whose operands are not NaNs, then the call returned
exactly the canonical encoding of the model's sum and the status word is the incoming word OR-ed
with the model's raised set — whatever the incoming word was. -/
theorem accepted_addition (o : Obs) (x y : Nat) (ta : Bool) (hop : o.op = "addition") (hargs : o.args = [.d x, .d y])
    (hx : (decode x).isNaN = false) (hy : (decode y).isNaN = false) :
    (∃ c, accepts ta o = .ok c) ↔
      o.out = some ([.d (encode (addD o.mode (decode x) (decode y)).1)],
                    o.flagsIn ||| (addD o.mode (decode x) (decode y)).2) := by
  rw [accepts_def, hop, hargs, dispatch_addition]
  unfold bin
  rw [Dec.C12.nanRule_no_nan _ _ (by simp [hx, hy])]
  exact ok_exact_iff _ _ o

theorem accepted_division (o : Obs) (x y : Nat) (ta : Bool) (hop : o.op = "division") (hargs : o.args = [.d x, .d y])
    (hx : (decode x).isNaN = false) (hy : (decode y).isNaN = false) :
    (∃ c, accepts ta o = .ok c) ↔
      o.out = some ([.d (encode (divD o.mode (decode x) (decode y)).1)],
                    o.flagsIn ||| (divD o.mode (decode x) (decode y)).2) := by
  rw [accepts_def, hop, hargs, dispatch_division]
  unfold bin
  rw [Dec.C12.nanRule_no_nan _ _ (by simp [hx, hy])]
  exact ok_exact_iff _ _ o

/-- … and with a NaN operand: the result is the quieted canonical copy of one of the NaN operands and
invalid is raised iff some operand is signalling. -/
theorem accepted_addition_nan (o : Obs) (x y : Nat) (ta : Bool) (hop : o.op = "addition") (hargs : o.args = [.d x, .d y])
    (h : (decode x).isNaN = true ∨ (decode y).isNaN = true) :
    (∃ c, accepts ta o = .ok c) ↔
      ∃ res fout, o.out = some (res, fout) ∧
        res ∈ (([decode x, decode y].filter Datum.isNaN).map fun n => [Val.d (encode (quietNaN n))]) ∧
        fout = o.flagsIn ||| (if [decode x, decode y].any Datum.isSNaN then fInvalid else 0) := by
  rw [accepts_def, hop, hargs, dispatch_addition]
  unfold bin
  rw [Dec.C12.nanRule_nan _ _ (by rcases h with h | h <;> simp [h])]
  exact ok_oneOf_iff _ _ o

/-- a total_order observation is accepted iff it returned the model's truth value and left the status
word alone -/
theorem accepted_total_order (o : Obs) (x y : Nat) (ta : Bool) (hop : o.op = "total_order") (hargs : o.args = [.d x, .d y]) :
    (∃ c, accepts ta o = .ok c) ↔ o.out = some ([.b (totalLe (decode x) (decode y))], o.flagsIn ||| 0) := by
  rw [accepts_def, hop, hargs, dispatch_total_order]
  exact ok_exact_iff _ _ o

end Dec.JudgeSound
