/-
  C02 — fused multiply-add rounds x·y + z exactly once.
-/
import DecModel.Ops

namespace Dec.C02

/-- finite operands: the model forms the exact product and the exact sum and rounds once, through the
same `addFin`/`finish` step as addition, with preferred exponent `min (e₁+e₂) e₃` -/
theorem fma_single_rounding (mode : Mode) (s1 s2 s3 : Bool) (c1 c2 c3 : Nat) (e1 e2 e3 : Int) :
    fmaD mode false (.fin s1 c1 e1) (.fin s2 c2 e2) (.fin s3 c3 e3) =
      addFin mode (s1 != s2) (c1 * c2) (e1 + e2) s3 c3 e3 (if e1 + e2 ≤ e3 then e1 + e2 else e3) := by
  simp [fmaD]

/-- `fma x 1 z = x + z` bit for bit (the unit is `+1E0`) -/
theorem fma_one_is_add (mode : Mode) (s1 s3 : Bool) (c1 c3 : Nat) (e1 e3 : Int) :
    fmaD mode false (.fin s1 c1 e1) (.fin false 1 0) (.fin s3 c3 e3) = addD mode (.fin s1 c1 e1) (.fin s3 c3 e3) := by
  simp [fmaD, addD]

/-- `0 × ∞` is invalid whatever the addend; `∞ − ∞` is invalid -/
theorem fma_invalid (mode : Mode) (s1 s2 s3 : Bool) (e : Int) (z : Datum) (c : Nat) (hc : c ≠ 0) :
    fmaD mode false (.fin s1 0 e) (.inf s2) z = invalidResult ∧
    fmaD mode false (.inf s2) (.fin s1 0 e) z = invalidResult ∧
    fmaD mode false (.inf s1) (.fin s2 c e) (.inf (!(s1 != s2))) = invalidResult := by
  refine ⟨?_, ?_, ?_⟩
  · cases z <;> simp [fmaD, mulD, invalidResult, defaultNaN]
  · cases z <;> simp [fmaD, mulD, invalidResult, defaultNaN]
  · cases s1 <;> cases s2 <;> simp [fmaD, mulD, hc, invalidResult, defaultNaN]

/-- an infinite addend with finite factors is returned as is -/
theorem fma_inf_addend (mode : Mode) (s1 s2 s3 : Bool) (c1 c2 : Nat) (e1 e2 : Int) :
    fmaD mode false (.fin s1 c1 e1) (.fin s2 c2 e2) (.inf s3) = (.inf s3, 0) := by
  simp [fmaD]

end Dec.C02
