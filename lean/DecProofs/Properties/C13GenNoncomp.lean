/-
  C13 (generated-code level) — the non-computational routines of /repo/src/bid128_noncomp.rs as translated, statement by
  statement, into `DecGen/Code.lean` (`Dec.Gen.Code.bid128_is_nan` …): for EVERY pair of 64-bit words `x` each routine
  returns `.ok` (never panics) of what the specification-level model (`Dec.decode`, `Dec.isCanonical`, `Dec.isNormalD`,
  `Dec.isSubnormalD`, `Dec.classOf`, `Dec.sameQuantumD`, `Datum.setSign` …) says about the 128-bit pattern
  `bitsOf x = x.w1 · 2^64 + x.w0`; non-canonical encodings included.

  Main theorems (all unconditional):
    is_nan_spec, is_signaling_spec, is_inf_spec, is_finite_spec, is_signed_spec, is_zero_spec, is_canonical_spec,
    is_normal_spec, is_subnormal_spec, class_spec (+ class_index, class_consistent),
    abs_spec / abs_decode, negate_spec / negate_decode, copy_spec, copy_sign_spec / copy_sign_decode, same_quantum_spec.
  (`bid128_radix` is not among the translated routines.)

  Method: every bit-field test on a `UInt64` is characterised arithmetically (`nan_test` …: `w &&& m == m` ↔ a `/ 2^k % 2^j`
  fact about `w.toNat`), `decode (bitsOf x)` is rewritten once and for all as a case analysis on the same fields of the high
  word (`decodeW`, `decode_bitsOf`), and the routines become Boolean combinations of linear facts (`omega`).  The digit count of
  `is_normal` / `is_subnormal` (exponent field of a `u64 → f64` conversion, then `BID_NR_DIGITS`) is reduced to
  `Dec.TableFacts.nrDigits_mechanism_ndigits`; `class` multiplies by a tabulated power of ten with `__mul_128x128_to_256` /
  `__mul_64x128_to_192`, proved exact here for all operands.
-/
import DecGen.Code
import DecModel.Compare
import DecModel.Misc
import DecProofs.Core.Codec
import Mathlib.Tactic.SplitIfs
import Mathlib.Tactic.Ring
import DecProofs.TableFacts.NrDigits
import DecGen.T_BID_TEN2K128
import DecGen.T_BID_TEN2K64

set_option linter.unusedSimpArgs false
set_option linter.unusedVariables false

namespace Dec.C13GenNoncomp
open Dec.Rs Dec.Gen.Code

/-- the 128-bit pattern of a pair of words (`w0` is the low word) -/
def bitsOf (x : U128) : Nat := x.w1.toNat * 2^64 + x.w0.toNat

/-- the pattern `n < 2^128` as a pair of words -/
def ofBits (n : Nat) : U128 := ⟨UInt64.ofNat (n % 2^64), UInt64.ofNat (n / 2^64)⟩

theorem bitsOf_lt (x : U128) : bitsOf x < 2^128 := by
  have hl := x.w0.toNat_lt
  have hh := x.w1.toNat_lt
  unfold bitsOf; omega

theorem bitsOf_ofBits (n : Nat) (h : n < 2^128) : bitsOf (ofBits n) = n := by
  simp only [bitsOf, ofBits, UInt64.toNat_ofNat']
  omega

theorem ofBits_bitsOf (x : U128) : ofBits (bitsOf x) = x := by
  have hl := x.w0.toNat_lt
  have hh := x.w1.toNat_lt
  obtain ⟨a, b⟩ := x
  simp only [ofBits, bitsOf, U128.mk.injEq, ← UInt64.toNat_inj, UInt64.toNat_ofNat'] at *
  omega

/-- a contiguous mask selects a bit-field -/
theorem and_field (h j k : Nat) : h &&& ((2^j - 1) * 2^k) = (h / 2^k % 2^j) * 2^k := by
  apply Nat.eq_of_testBit_eq
  intro i
  simp only [Nat.testBit_and, Nat.testBit_mul_two_pow, Nat.testBit_two_pow_sub_one, Nat.testBit_mod_two_pow,
    Nat.testBit_div_two_pow]
  by_cases hi : k ≤ i
  · have : i - k + k = i := by omega
    simp [hi, this, Bool.and_comm]
  · simp [hi]

theorem toNat_and_field (w m : UInt64) (j k : Nat) (hm : m.toNat = (2^j - 1) * 2^k) :
    (w &&& m).toNat = (w.toNat / 2^k % 2^j) * 2^k := by
  rw [UInt64.toNat_and, hm, and_field]

theorem and_beq_mask (w m : UInt64) (j k : Nat) (hm : m.toNat = (2^j - 1) * 2^k) :
    (w &&& m == m) = decide (w.toNat / 2^k % 2^j = 2^j - 1) := by
  have h1 := toNat_and_field w m j k hm
  have hp : 0 < 2^k := Nat.pow_pos (by decide)
  rw [Bool.eq_iff_iff, beq_iff_eq, decide_eq_true_eq, ← UInt64.toNat_inj, h1, hm]
  constructor
  · intro h; exact Nat.eq_of_mul_eq_mul_right hp h
  · intro h; rw [h]

theorem nan_test (w : UInt64) : (w &&& 0x7c00000000000000 == 0x7c00000000000000) = decide (w.toNat / 2^58 % 32 = 31) :=
  and_beq_mask w _ 5 58 (by decide)
theorem inf_test (w : UInt64) : (w &&& 0x7800000000000000 == 0x7800000000000000) = decide (w.toNat / 2^59 % 16 = 15) :=
  and_beq_mask w _ 4 59 (by decide)
theorem snan_test (w : UInt64) : (w &&& 0x7e00000000000000 == 0x7e00000000000000) = decide (w.toNat / 2^57 % 64 = 63) :=
  and_beq_mask w _ 6 57 (by decide)
theorem sign_test (w : UInt64) : (w &&& 0x8000000000000000 == 0x8000000000000000) = decide (w.toNat / 2^63 % 2 = 1) :=
  and_beq_mask w _ 1 63 (by decide)
theorem steer_test (w : UInt64) : (w &&& 0x6000000000000000 == 0x6000000000000000) = decide (w.toNat / 2^61 % 4 = 3) :=
  and_beq_mask w _ 2 61 (by decide)

/-- `decode` of a pair of words, by the fields of the high word -/
def decodeW (h l : Nat) : Datum :=
  let neg := decide (h / 2^63 % 2 = 1)
  if h / 2^59 % 16 = 15 then
    if h / 2^58 % 2 = 0 then .inf neg
    else .nan neg (decide (h / 2^57 % 2 = 1)) (if h % 2^46 * 2^64 + l < P33 then h % 2^46 * 2^64 + l else 0)
  else if h / 2^61 % 4 = 3 then .fin neg 0 ((h / 2^47 % 2^14 : Nat) - (6176 : Int))
  else .fin neg (if h % 2^49 * 2^64 + l < P34 then h % 2^49 * 2^64 + l else 0) ((h / 2^49 % 2^14 : Nat) - (6176 : Int))

theorem decode_words (h l : Nat) (hh : h < 2^64) (hl : l < 2^64) : decode (h * 2^64 + l) = decodeW h l := by
  have e1 : (h * 2^64 + l) / 2^127 % 2 = h / 2^63 % 2 := by omega
  have e2 : (h * 2^64 + l) / 2^123 % 16 = h / 2^59 % 16 := by omega
  have e3 : (h * 2^64 + l) / 2^122 % 2 = h / 2^58 % 2 := by omega
  have e4 : (h * 2^64 + l) / 2^121 % 2 = h / 2^57 % 2 := by omega
  have e5 : (h * 2^64 + l) % 2^110 = h % 2^46 * 2^64 + l := by omega
  have e6 : (h * 2^64 + l) % 2^113 = h % 2^49 * 2^64 + l := by omega
  have e7 : (h * 2^64 + l) / 2^111 % 2^14 = h / 2^47 % 2^14 := by omega
  have e8 : (h * 2^64 + l) / 2^113 % 2^14 = h / 2^49 % 2^14 := by omega
  have e9 : (h / 2^59 % 16 / 4 == 3) = decide (h / 2^61 % 4 = 3) := by
    rw [Bool.eq_iff_iff, beq_iff_eq, decide_eq_true_eq]; omega
  have b2d : ∀ a b : Nat, (a == b) = decide (a = b) := fun a b => by rw [Bool.eq_iff_iff]; simp
  unfold decode decodeW
  simp only [e1, e2, e3, e4, e5, e6, e7, e8, e9, beq_iff_eq, decide_eq_true_eq]
  simp only [b2d]

theorem decode_bitsOf (x : U128) : decode (bitsOf x) = decodeW x.w1.toNat x.w0.toNat :=
  decode_words _ _ x.w1.toNat_lt x.w0.toNat_lt

/-- **`bid128_is_nan`**: true exactly when the pattern decodes to a NaN (quiet or signalling) — for every pattern -/
theorem is_nan_spec (x : U128) : bid128_is_nan x = .ok (decode (bitsOf x)).isNaN := by
  simp only [bid128_is_nan, c_MASK_NAN, bind, Except.bind, pure, Except.pure, nan_test, decode_bitsOf, decodeW]
  refine congrArg Except.ok ?_
  split_ifs <;> simp only [Datum.isNaN, decide_eq_true_eq, decide_eq_false_iff_not] <;> omega

example : bid128_is_nan ⟨5, 0xfe00000000000001⟩ = .ok true ∧ (decode (bitsOf ⟨5, 0xfe00000000000001⟩)).isNaN = true := by decide +kernel

/-- **`bid128_is_signaling`**: true exactly for signalling NaNs -/
theorem is_signaling_spec (x : U128) : bid128_is_signaling x = .ok (decode (bitsOf x)).isSNaN := by
  simp only [bid128_is_signaling, c_MASK_SNAN, bind, Except.bind, pure, Except.pure, snan_test, decode_bitsOf, decodeW]
  refine congrArg Except.ok ?_
  split_ifs <;> simp only [Datum.isSNaN, decide_eq_true_eq, decide_eq_false_iff_not, decide_eq_decide] <;> omega

example : bid128_is_signaling ⟨5, 0xfe00000000000001⟩ = .ok true ∧ bid128_is_signaling ⟨5, 0x7c00000000000001⟩ = .ok false := by
  decide +kernel

/-- **`bid128_is_inf`**: true exactly for the infinities (whatever their trailing bits) -/
theorem is_inf_spec (x : U128) : bid128_is_inf x = .ok (decode (bitsOf x)).isInf := by
  simp only [bid128_is_inf, c_MASK_INF, c_MASK_NAN, bind, Except.bind, pure, Except.pure, inf_test, nan_test, bne, decode_bitsOf, decodeW]
  refine congrArg Except.ok ?_
  split_ifs <;> simp only [Datum.isInf, Bool.and_eq_true, Bool.not_eq_true', Bool.and_eq_false_iff, Bool.not_eq_false', decide_eq_true_eq, decide_eq_false_iff_not] <;> omega

example : bid128_is_inf ⟨7, 0xf800000000000001⟩ = .ok true ∧ (decode (bitsOf ⟨7, 0xf800000000000001⟩)) = .inf true := by decide +kernel

/-- **`bid128_is_finite`**: true exactly when the pattern decodes to a finite datum (zero, subnormal or normal) -/
theorem is_finite_spec (x : U128) : bid128_is_finite x = .ok (decode (bitsOf x)).isFin := by
  simp only [bid128_is_finite, c_MASK_INF, bind, Except.bind, pure, Except.pure, inf_test, bne, decode_bitsOf, decodeW]
  refine congrArg Except.ok ?_
  split_ifs <;> simp only [Datum.isFin, Bool.not_eq_true', Bool.not_eq_false', decide_eq_true_eq, decide_eq_false_iff_not] <;> omega

example : bid128_is_finite ⟨1, 0x6000000000000000⟩ = .ok true ∧ bid128_is_finite ⟨0, 0x7800000000000000⟩ = .ok false := by decide +kernel

/-- **`bid128_is_signed`**: the sign bit, for every kind of datum (NaNs included) -/
theorem is_signed_spec (x : U128) : bid128_is_signed x = .ok (decode (bitsOf x)).neg := by
  simp only [bid128_is_signed, c_MASK_SIGN, bind, Except.bind, pure, Except.pure, sign_test, decode_bitsOf, decodeW]
  refine congrArg Except.ok ?_
  split_ifs <;> simp only [Datum.neg]


example : bid128_is_signed ⟨0, 0xfc00000000000000⟩ = .ok true ∧ bid128_is_signed ⟨0, 0x3040000000000000⟩ = .ok false := by decide +kernel

theorem gt128 (a b c d : UInt64) :
    (decide (a > c) || (a == c && decide (b > d))) = decide (c.toNat * 2^64 + d.toNat < a.toNat * 2^64 + b.toNat) := by
  have := b.toNat_lt; have := d.toNat_lt
  rw [Bool.eq_iff_iff]
  simp only [Bool.or_eq_true, Bool.and_eq_true, decide_eq_true_eq, beq_iff_eq, gt_iff_lt, UInt64.lt_iff_toNat_lt,
    ← UInt64.toNat_inj]
  omega

theorem lt128 (a b c d : UInt64) :
    (decide (a < c) || (a == c && decide (b < d))) = decide (a.toNat * 2^64 + b.toNat < c.toNat * 2^64 + d.toNat) := by
  have := b.toNat_lt; have := d.toNat_lt
  rw [Bool.eq_iff_iff]
  simp only [Bool.or_eq_true, Bool.and_eq_true, decide_eq_true_eq, beq_iff_eq, UInt64.lt_iff_toNat_lt,
    ← UInt64.toNat_inj]
  omega

theorem zero128 (a b : UInt64) : (a == 0 && b == 0) = decide (a.toNat * 2^64 + b.toNat = 0) := by
  rw [Bool.eq_iff_iff]
  simp only [Bool.and_eq_true, decide_eq_true_eq, beq_iff_eq, ← UInt64.toNat_inj, UInt64.toNat_zero]
  omega

theorem coeff_hi (w : UInt64) : (w &&& 0x1ffffffffffff).toNat = w.toNat % 2^49 := by
  rw [UInt64.toNat_and, show (0x1ffffffffffff : UInt64).toNat = 2^49 - 1 from by decide, Nat.and_two_pow_sub_one_eq_mod]

theorem ite_ok {α : Type} (c : Prop) [Decidable c] (a b : α) :
    (if c then (Except.ok a : Except String α) else Except.ok b) = Except.ok (if c then a else b) := by
  split <;> rfl

theorem ite_bool (c a b : Bool) : (if c = true then a else b) = ((c && a) || (!c && b)) := by
  cases c <;> simp

/-- the five shapes of a decoded pair of words -/
theorem decodeW_cases (h l : Nat) :
    (h / 2^59 % 16 = 15 ∧ h / 2^58 % 2 = 0 ∧ decodeW h l = .inf (decide (h / 2^63 % 2 = 1))) ∨
    (h / 2^59 % 16 = 15 ∧ h / 2^58 % 2 = 1 ∧ h % 2^46 * 2^64 + l < P33 ∧
      decodeW h l = .nan (decide (h / 2^63 % 2 = 1)) (decide (h / 2^57 % 2 = 1)) (h % 2^46 * 2^64 + l)) ∨
    (h / 2^59 % 16 = 15 ∧ h / 2^58 % 2 = 1 ∧ P33 ≤ h % 2^46 * 2^64 + l ∧
      decodeW h l = .nan (decide (h / 2^63 % 2 = 1)) (decide (h / 2^57 % 2 = 1)) 0) ∨
    (h / 2^59 % 16 ≠ 15 ∧ h / 2^61 % 4 = 3 ∧
      decodeW h l = .fin (decide (h / 2^63 % 2 = 1)) 0 ((h / 2^47 % 2^14 : Nat) - (6176 : Int))) ∨
    (h / 2^59 % 16 ≠ 15 ∧ h / 2^61 % 4 ≠ 3 ∧ h % 2^49 * 2^64 + l < P34 ∧
      decodeW h l = .fin (decide (h / 2^63 % 2 = 1)) (h % 2^49 * 2^64 + l) ((h / 2^49 % 2^14 : Nat) - (6176 : Int))) ∨
    (h / 2^59 % 16 ≠ 15 ∧ h / 2^61 % 4 ≠ 3 ∧ P34 ≤ h % 2^49 * 2^64 + l ∧
      decodeW h l = .fin (decide (h / 2^63 % 2 = 1)) 0 ((h / 2^49 % 2^14 : Nat) - (6176 : Int))) := by
  unfold decodeW
  by_cases h1 : h / 2^59 % 16 = 15
  · by_cases h2 : h / 2^58 % 2 = 0
    · exact Or.inl ⟨h1, h2, by simp only [h1, h2, if_true]⟩
    · by_cases h3 : h % 2^46 * 2^64 + l < P33
      · exact Or.inr (Or.inl ⟨h1, by omega, h3, by simp only [h1, h2, h3, if_true, if_false]⟩)
      · exact Or.inr (Or.inr (Or.inl ⟨h1, by omega, by omega, by simp only [h1, h2, h3, if_true, if_false]⟩))
  · by_cases h2 : h / 2^61 % 4 = 3
    · exact Or.inr (Or.inr (Or.inr (Or.inl ⟨h1, h2, by simp only [h1, h2, if_true, if_false]⟩)))
    · by_cases h3 : h % 2^49 * 2^64 + l < P34
      · exact Or.inr (Or.inr (Or.inr (Or.inr (Or.inl ⟨h1, h2, h3, by simp only [h1, h2, h3, if_true, if_false]⟩))))
      · exact Or.inr (Or.inr (Or.inr (Or.inr (Or.inr ⟨h1, h2, by omega, by simp only [h1, h2, h3, if_true, if_false]⟩))))

/-- finish a goal `b₁ = b₂` / `b₁ = true ↔ …` between Boolean combinations of decidable linear-arithmetic facts -/
macro "bool_omega" : tactic => `(tactic| (
  simp only [Bool.or_eq_true, Bool.and_eq_true, Bool.not_eq_true', Bool.not_eq_false', decide_eq_true_eq, decide_eq_false_iff_not,
    Bool.or_eq_false_iff, Bool.and_eq_false_imp, Bool.false_eq_true, and_false, and_true, or_false, false_or, iff_false, iff_true,
    true_and, false_and, or_true, true_or, not_true_eq_false, not_false_eq_true, UInt64.toNat_ofNat,
    Dec.P34, Dec.P33] at * <;> omega))

/-- **`bid128_is_zero`**: true exactly when the datum is a finite zero — that is for a zero coefficient field, for a
coefficient field above 10^34 − 1 and for the large-coefficient form (both non-canonical, both read as zero) -/
theorem is_zero_spec (x : U128) : bid128_is_zero x = .ok (decode (bitsOf x)).isZero := by
  simp only [bid128_is_zero, c_MASK_INF, bind, Except.bind, pure, Except.pure, inf_test, steer_test, gt128, zero128, coeff_hi]
  simp only [UInt64.toNat_ofNat, decode_bitsOf, ite_ok, ite_bool]
  refine congrArg Except.ok ?_
  have hl := x.w0.toNat_lt
  generalize x.w1.toNat = h at *
  generalize x.w0.toNat = l at *
  rcases decodeW_cases h l with ⟨h1, h2, hd⟩ | ⟨h1, h2, h3, hd⟩ | ⟨h1, h2, h3, hd⟩ | ⟨h1, h2, hd⟩ | ⟨h1, h2, h3, hd⟩ | ⟨h1, h2, h3, hd⟩ <;>
  rw [hd, Bool.eq_iff_iff] <;>
  simp only [Datum.isZero, beq_iff_eq] <;> bool_omega


-- a canonical zero, a coefficient field of 10^34 (non-canonical), the large-coefficient form; and 10^34 − 1 is not zero
example : bid128_is_zero ⟨0, 0x3040000000000000⟩ = .ok true ∧ bid128_is_zero ⟨0x378d8e6400000000, 0x0001ed09bead87c0⟩ = .ok true ∧
    bid128_is_zero ⟨1, 0x6000000000000000⟩ = .ok true ∧ bid128_is_zero ⟨0x378d8e63ffffffff, 0x0001ed09bead87c0⟩ = .ok false := by
  decide +kernel

theorem toNat_and_low (w m : UInt64) (j : Nat) (hm : m.toNat = 2^j - 1) : (w &&& m).toNat = w.toNat % 2^j := by
  rw [UInt64.toNat_and, hm, Nat.and_two_pow_sub_one_eq_mod]

theorem u64_beq_zero (a : UInt64) : (a == 0) = decide (a.toNat = 0) := by
  rw [Bool.eq_iff_iff, beq_iff_eq, decide_eq_true_eq, ← UInt64.toNat_inj, UInt64.toNat_zero]

theorem pay_hi (w : UInt64) : (w &&& 0x3fffffffffff).toNat = w.toNat % 2^46 := toNat_and_low w _ 46 (by decide)
theorem inf_rest (w : UInt64) : (w &&& 0x3ffffffffffffff).toNat = w.toNat % 2^58 := toNat_and_low w _ 58 (by decide)
theorem nan_resv (w : UInt64) : (w &&& 0x1ffc00000000000).toNat = (w.toNat / 2^46 % 2^11) * 2^46 :=
  toNat_and_field w _ 11 46 (by decide)

/-- `isCanonical` in terms of the two words -/
theorem isCanonical_words (h l : Nat) (hh : h < 2^64) (hl : l < 2^64) :
    isCanonical (h * 2^64 + l) = true ↔
      (h / 2^59 % 16 = 15 ∧ h / 2^58 % 2 = 0 ∧ h % 2^58 = 0 ∧ l = 0) ∨
      (h / 2^59 % 16 = 15 ∧ h / 2^58 % 2 = 1 ∧ h % 2^46 * 2^64 + l < P33 ∧ h / 2^46 % 2^11 = 0) ∨
      (h / 2^59 % 16 ≠ 15 ∧ h / 2^61 % 4 ≠ 3 ∧ h % 2^49 * 2^64 + l < P34) := by
  rw [isCanonical_characterisation (by omega)]
  have e2 : (h * 2^64 + l) / 2^123 % 16 = h / 2^59 % 16 := by omega
  have e3 : (h * 2^64 + l) / 2^122 % 2 = h / 2^58 % 2 := by omega
  have e5 : (h * 2^64 + l) % 2^110 = h % 2^46 * 2^64 + l := by omega
  have e6 : (h * 2^64 + l) % 2^113 = h % 2^49 * 2^64 + l := by omega
  have e9 : (h * 2^64 + l) % 2^122 = h % 2^58 * 2^64 + l := by omega
  have e10 : (h * 2^64 + l) / 2^110 % 2^11 = h / 2^46 % 2^11 := by omega
  have e11 : h / 2^59 % 16 / 4 = h / 2^61 % 4 := by omega
  have e12 : h % 2^58 * 2^64 + l = 0 ↔ h % 2^58 = 0 ∧ l = 0 := by omega
  rw [e2, e3, e5, e6, e9, e10, e11, e12]

/-- **`bid128_is_canonical`** is the model's `isCanonical` (`encode (decode b) = b`) on every pattern: infinities with all of
bits 121..0 clear, NaNs with payload below 10^33 and the reserved bits clear, finite numbers in the ordinary form with
coefficient below 10^34 -/
theorem is_canonical_spec (x : U128) : bid128_is_canonical x = .ok (isCanonical (bitsOf x)) := by
  simp only [bid128_is_canonical, c_MASK_INF, c_MASK_NAN, bind, Except.bind, pure, Except.pure, inf_test, nan_test, steer_test,
    gt128, lt128, bne, u64_beq_zero, coeff_hi, pay_hi, inf_rest, nan_resv]
  simp only [ite_ok, ite_bool]
  refine congrArg Except.ok ?_
  have hl := x.w0.toNat_lt
  have hh := x.w1.toNat_lt
  unfold bitsOf
  generalize x.w1.toNat = h at *
  generalize x.w0.toNat = l at *
  rw [Bool.eq_iff_iff, isCanonical_words h l hh hl]
  bool_omega


example : bid128_is_canonical ⟨0x378d8e63ffffffff, 0x0001ed09bead87c0⟩ = .ok true ∧
    bid128_is_canonical ⟨0x378d8e6400000000, 0x0001ed09bead87c0⟩ = .ok false ∧
    bid128_is_canonical ⟨1, 0x7800000000000000⟩ = .ok false ∧ bid128_is_canonical ⟨0, 0x7c00400000000000⟩ = .ok false := by
  decide +kernel

/-! ### sign operations -/

theorem sign_clear (w : UInt64) : (w &&& ~~~(0x8000000000000000 : UInt64)).toNat = w.toNat % 2^63 :=
  toNat_and_low w _ 63 (by decide)

theorem sign_keep (w : UInt64) : (w &&& (0x8000000000000000 : UInt64)).toNat = w.toNat / 2^63 % 2 * 2^63 := by
  have := toNat_and_field w 0x8000000000000000 1 63 (by decide)
  simpa using this

theorem sign_flip (w : UInt64) : (w ^^^ (0x8000000000000000 : UInt64)).toNat = (w.toNat + 2^63) % 2^64 := by
  have hw := w.toNat_lt
  rw [UInt64.toNat_xor, show (0x8000000000000000 : UInt64).toNat = 2^63 from by decide]
  have h1 : (w.toNat ^^^ 2^63) % 2^63 = w.toNat % 2^63 := by
    rw [Nat.xor_mod_two_pow, Nat.mod_self, Nat.xor_zero]
  have h2 : (w.toNat ^^^ 2^63) / 2^63 = (w.toNat / 2^63) ^^^ 1 := by
    rw [Nat.xor_div_two_pow, Nat.div_self (by decide)]
  have h3 : w.toNat / 2^63 = 0 ∨ w.toNat / 2^63 = 1 := by omega
  have h4 : (w.toNat ^^^ 2^63) / 2^63 = 1 - w.toNat / 2^63 := by
    rw [h2]; rcases h3 with h | h <;> rw [h] <;> decide
  omega

theorem sign_merge (a b : UInt64) :
    ((a &&& ~~~(0x8000000000000000 : UInt64)) ||| (b &&& 0x8000000000000000)).toNat
      = a.toNat % 2^63 + b.toNat / 2^63 % 2 * 2^63 := by
  rw [UInt64.toNat_or, sign_clear, sign_keep, Nat.or_comm, Nat.mul_comm, ← Nat.two_pow_add_eq_or_of_lt (by omega)]
  omega

theorem u128_ext (a b : U128) (h0 : a.w0.toNat = b.w0.toNat) (h1 : a.w1.toNat = b.w1.toNat) : a = b := by
  obtain ⟨a0, a1⟩ := a; obtain ⟨b0, b1⟩ := b
  simp only [U128.mk.injEq, ← UInt64.toNat_inj]
  exact ⟨h0, h1⟩

/-- **`bid128_abs`**: the input bits with the sign bit cleared, nothing else touched -/
theorem abs_spec (x : U128) : bid128_abs x = .ok (ofBits (bitsOf x % 2^127)) := by
  simp only [bid128_abs, c_MASK_SIGN, bind, Except.bind, pure, Except.pure]
  refine congrArg Except.ok ?_
  have hl := x.w0.toNat_lt
  have hh := x.w1.toNat_lt
  apply u128_ext <;> simp only [ofBits, bitsOf, UInt64.toNat_ofNat', sign_clear] <;> omega

/-- **`bid128_negate`**: the input bits with the sign bit flipped (adding 2^127 modulo 2^128), nothing else touched -/
theorem negate_spec (x : U128) : bid128_negate x = .ok (ofBits ((bitsOf x + 2^127) % 2^128)) := by
  simp only [bid128_negate, c_MASK_SIGN, bind, Except.bind, pure, Except.pure]
  refine congrArg Except.ok ?_
  have hl := x.w0.toNat_lt
  have hh := x.w1.toNat_lt
  apply u128_ext <;> simp only [ofBits, bitsOf, UInt64.toNat_ofNat', sign_flip] <;> omega

/-- **`bid128_copy`**: the identity on bit patterns (no canonicalisation) -/
theorem copy_spec (x : U128) : bid128_copy x = .ok x := rfl

/-- **`bid128_copy_sign`**: the bits of `x` below the sign bit, with the sign bit of `y` -/
theorem copy_sign_spec (x y : U128) :
    bid128_copy_sign x y = .ok (ofBits (bitsOf x % 2^127 + bitsOf y / 2^127 * 2^127)) := by
  simp only [bid128_copy_sign, c_MASK_SIGN, bind, Except.bind, pure, Except.pure]
  refine congrArg Except.ok ?_
  have hl := x.w0.toNat_lt
  have hh := x.w1.toNat_lt
  have hl' := y.w0.toNat_lt
  have hh' := y.w1.toNat_lt
  apply u128_ext <;> simp only [ofBits, bitsOf, UInt64.toNat_ofNat', sign_merge] <;> omega

/-- the datum of a pair of words whose low 127 bits agree with another: same datum, other sign -/
theorem decodeW_sign (h h' l : Nat) (hm : h' % 2^63 = h % 2^63) :
    decodeW h' l = (decodeW h l).setSign (decide (h' / 2^63 % 2 = 1)) := by
  have f1 : h' / 2^59 % 16 = h / 2^59 % 16 := by omega
  have f2 : h' / 2^58 % 2 = h / 2^58 % 2 := by omega
  have f3 : h' / 2^57 % 2 = h / 2^57 % 2 := by omega
  have f4 : h' % 2^46 = h % 2^46 := by omega
  have f5 : h' / 2^61 % 4 = h / 2^61 % 4 := by omega
  have f6 : h' / 2^47 % 2^14 = h / 2^47 % 2^14 := by omega
  have f7 : h' % 2^49 = h % 2^49 := by omega
  have f8 : h' / 2^49 % 2^14 = h / 2^49 % 2^14 := by omega
  unfold decodeW
  simp only [f1, f2, f3, f4, f5, f6, f7, f8]
  split_ifs <;> rfl

theorem decodeW_neg (h l : Nat) : (decodeW h l).neg = decide (h / 2^63 % 2 = 1) := by
  unfold decodeW
  split_ifs <;> rfl

/-- the pattern `n` of a pair of words -/
theorem decode_ofBits (n : Nat) (hn : n < 2^128) : decode n = decodeW (n / 2^64) (n % 2^64) := by
  rw [← decode_words _ _ (by omega) (by omega)]
  congr 1; omega

/-- two 128-bit patterns that agree below the sign bit decode to the same datum up to the sign -/
theorem decode_sign_change (b b' : Nat) (hb : b < 2^128) (hb' : b' < 2^128) (hm : b' % 2^127 = b % 2^127) :
    decode b' = (decode b).setSign (decide (2^127 ≤ b')) := by
  have e1 : b' % 2^64 = b % 2^64 := by omega
  have e2 : decide (b' / 2^64 / 2^63 % 2 = 1) = decide (2^127 ≤ b') := by
    rw [decide_eq_decide]; omega
  rw [decode_ofBits b' hb', decode_ofBits b hb, decodeW_sign (b / 2^64) (b' / 2^64) _ (by omega), e1, e2]

theorem decode_neg (b : Nat) (hb : b < 2^128) : (decode b).neg = decide (2^127 ≤ b) := by
  rw [decode_ofBits b hb, decodeW_neg, decide_eq_decide]; omega

/-- `abs` at the level of data: the same datum with sign `+` (NaN payloads, non-canonical bits … unchanged) -/
theorem abs_decode (x : U128) : ∃ r, bid128_abs x = .ok r ∧ bitsOf r = bitsOf x % 2^127 ∧
    decode (bitsOf r) = (decode (bitsOf x)).setSign false := by
  have hb := bitsOf_lt x
  refine ⟨_, abs_spec x, bitsOf_ofBits _ (by omega), ?_⟩
  rw [bitsOf_ofBits _ (by omega), decode_sign_change (bitsOf x) _ hb (by omega) (by omega)]
  have e : decide (2^127 ≤ bitsOf x % 2^127) = false := by rw [decide_eq_false_iff_not]; omega
  rw [e]

example : bid128_abs ⟨7, 0xfe00000000000001⟩ = .ok ⟨7, 0x7e00000000000001⟩ := by decide +kernel

/-- `negate` at the level of data: `Datum.negate` -/
theorem negate_decode (x : U128) : ∃ r, bid128_negate x = .ok r ∧ bitsOf r = (bitsOf x + 2^127) % 2^128 ∧
    decode (bitsOf r) = (decode (bitsOf x)).negate := by
  have hb := bitsOf_lt x
  refine ⟨_, negate_spec x, bitsOf_ofBits _ (by omega), ?_⟩
  rw [bitsOf_ofBits _ (by omega), decode_sign_change (bitsOf x) _ hb (by omega) (by omega), Datum.negate, decode_neg _ hb]
  have e : decide (2^127 ≤ (bitsOf x + 2^127) % 2^128) = !decide (2^127 ≤ bitsOf x) := by
    rw [Bool.eq_iff_iff]; simp only [decide_eq_true_eq, Bool.not_eq_true', decide_eq_false_iff_not]; omega
  rw [e]

example : bid128_negate ⟨7, 0x3040000000000000⟩ = .ok ⟨7, 0xb040000000000000⟩ ∧
    bid128_negate ⟨7, 0xb040000000000000⟩ = .ok ⟨7, 0x3040000000000000⟩ := by decide +kernel

/-- `copy_sign` at the level of data: the datum of `x` with the sign of the datum of `y` -/
theorem copy_sign_decode (x y : U128) : ∃ r, bid128_copy_sign x y = .ok r ∧
    bitsOf r = bitsOf x % 2^127 + bitsOf y / 2^127 * 2^127 ∧
    decode (bitsOf r) = (decode (bitsOf x)).setSign (decode (bitsOf y)).neg := by
  have hb := bitsOf_lt x
  have hy := bitsOf_lt y
  refine ⟨_, copy_sign_spec x y, bitsOf_ofBits _ (by omega), ?_⟩
  rw [bitsOf_ofBits _ (by omega), decode_sign_change (bitsOf x) _ hb (by omega) (by omega), decode_neg _ hy]
  have e : decide (2^127 ≤ bitsOf x % 2^127 + bitsOf y / 2^127 * 2^127) = decide (2^127 ≤ bitsOf y) := by
    rw [decide_eq_decide]; omega
  rw [e]

example : bid128_copy_sign ⟨7, 0x3040000000000000⟩ ⟨0, 0xfc00000000000000⟩ = .ok ⟨7, 0xb040000000000000⟩ ∧
    bid128_copy ⟨7, 0xb040000000000000⟩ = .ok ⟨7, 0xb040000000000000⟩ := by decide +kernel

/-! ### same_quantum -/

theorem exp_eq_test (a b : UInt64) :
    (a &&& 0x7ffe000000000000 == b &&& 0x7ffe000000000000) = decide (a.toNat / 2^49 % 2^14 = b.toNat / 2^49 % 2^14) := by
  rw [Bool.eq_iff_iff, beq_iff_eq, decide_eq_true_eq, ← UInt64.toNat_inj,
    toNat_and_field a _ 14 49 (by decide), toNat_and_field b _ 14 49 (by decide)]
  omega

theorem shl2 (a : UInt64) : (a <<< 2).toNat = a.toNat * 4 % 2^64 := by
  rw [UInt64.toNat_shiftLeft, show (2 : UInt64).toNat % 64 = 2 from by decide, Nat.shiftLeft_eq]

/-- biased exponent of a finite pair of words -/
def expW (h : Nat) : Nat := if h / 2^61 % 4 = 3 then h / 2^47 % 2^14 else h / 2^49 % 2^14

theorem decodeW_kind (h l : Nat) :
    (h / 2^58 % 32 = 31 ∧ h / 2^59 % 16 = 15 ∧ ∃ s g p, decodeW h l = .nan s g p) ∨
    (h / 2^58 % 32 ≠ 31 ∧ h / 2^59 % 16 = 15 ∧ ∃ s, decodeW h l = .inf s) ∨
    (h / 2^58 % 32 ≠ 31 ∧ h / 2^59 % 16 ≠ 15 ∧ ∃ s c, decodeW h l = .fin s c ((expW h : Nat) - (6176 : Int))) := by
  unfold expW
  rcases decodeW_cases h l with ⟨h1, h2, hd⟩ | ⟨h1, h2, h3, hd⟩ | ⟨h1, h2, h3, hd⟩ | ⟨h1, h2, hd⟩ | ⟨h1, h2, h3, hd⟩ | ⟨h1, h2, h3, hd⟩
  · exact Or.inr (Or.inl ⟨by omega, h1, _, hd⟩)
  · exact Or.inl ⟨by omega, h1, _, _, _, hd⟩
  · exact Or.inl ⟨by omega, h1, _, _, _, hd⟩
  · exact Or.inr (Or.inr ⟨by omega, h1, _, _, by rw [hd, if_pos h2]⟩)
  · exact Or.inr (Or.inr ⟨by omega, h1, _, _, by rw [hd, if_neg h2]⟩)
  · exact Or.inr (Or.inr ⟨by omega, h1, _, _, by rw [hd, if_neg h2]⟩)

theorem exp_large (h : Nat) (hh : h < 2^64) : h * 4 % 2^64 / 2^49 % 2^14 = h / 2^47 % 2^14 := by omega

/-- **`bid128_same_quantum`** is the model's `sameQuantumD`: both NaN, or both infinite, or both finite with the same
exponent — where the exponent of a non-canonical finite encoding is the one `decode` reads (bits 124..111 in the
large-coefficient form) -/
theorem same_quantum_spec (x y : U128) :
    bid128_same_quantum x y = .ok (sameQuantumD (decode (bitsOf x)) (decode (bitsOf y))) := by
  simp only [bid128_same_quantum, c_MASK_INF, c_MASK_NAN, c_MASK_EXP, bind, Except.bind, pure, Except.pure,
    nan_test, inf_test, steer_test, exp_eq_test, shl2]
  simp only [ite_ok, decode_bitsOf, exp_large _ x.w1.toNat_lt, exp_large _ y.w1.toNat_lt]
  refine congrArg Except.ok ?_
  generalize x.w1.toNat = h at *
  generalize x.w0.toNat = l at *
  generalize y.w1.toNat = h' at *
  generalize y.w0.toNat = l' at *
  rcases decodeW_kind h l with ⟨hN, hI, s, g, p, hd⟩ | ⟨hN, hI, s, hd⟩ | ⟨hN, hI, s, c, hd⟩ <;>
  rcases decodeW_kind h' l' with ⟨kN, kI, s', g', p', kd⟩ | ⟨kN, kI, s', kd⟩ | ⟨kN, kI, s', c', kd⟩ <;>
  rw [hd, kd] <;>
  simp only [sameQuantumD, hN, hI, kN, kI, decide_true, decide_false, Bool.or_true, Bool.true_or, Bool.or_false, Bool.and_true,
    Bool.and_false, Bool.true_and, Bool.false_and, Bool.or_self, Bool.and_self, if_true, if_false, Bool.false_eq_true, ne_eq,
    not_false_eq_true, not_true_eq_false]
  unfold expW
  by_cases hs : h / 2^61 % 4 = 3 <;> by_cases ks : h' / 2^61 % 4 = 3 <;>
  simp only [hs, ks, decide_true, decide_false, if_true, if_false, Bool.false_eq_true] <;>
  rw [Bool.eq_iff_iff] <;> simp only [decide_eq_true_eq, beq_iff_eq] <;> omega

-- 1·10^0 and 5·10^0; 1·10^0 and the large-coefficient form with the same exponent field; a NaN and an infinity
example : bid128_same_quantum ⟨1, 0x3040000000000000⟩ ⟨5, 0xb040000000000000⟩ = .ok true ∧
    bid128_same_quantum ⟨1, 0x3040000000000000⟩ ⟨9, 0x6c10000000000000⟩ = .ok true ∧
    bid128_same_quantum ⟨1, 0x7c00000000000000⟩ ⟨9, 0x7800000000000000⟩ = .ok false := by decide +kernel

/-! ## is_normal / is_subnormal -/

theorem float_exp (n : Nat) (h0 : 0 < n) (h : n < 2^53) :
    floatBitsOfNat 52 1023 n / 2^52 = n.log2 + 1023 ∧ floatBitsOfNat 52 1023 n < 2^63 := by
  have hne : n ≠ 0 := by omega
  have hl : n.log2 < 53 := (Nat.log2_lt hne).2 h
  have hlo : 2 ^ n.log2 ≤ n := Nat.log2_self_le hne
  have hhi : n < 2 ^ (n.log2 + 1) := Nat.lt_log2_self
  unfold floatBitsOfNat
  simp only [hne, if_false, show n.log2 ≤ 52 from by omega, if_true]
  generalize n.log2 = l at *
  have e : 2 ^ l * 2 ^ (52 - l) = 2 ^ 52 := by rw [← Nat.pow_add]; congr 1; omega
  have hp : 0 < 2 ^ (52 - l) := Nat.pow_pos (by decide)
  have h1 : 2 ^ 52 ≤ n * 2 ^ (52 - l) := by rw [← e]; exact Nat.mul_le_mul_right _ hlo
  have h2 : n * 2 ^ (52 - l) < 2 * 2 ^ 52 := by
    rw [← e, ← Nat.mul_assoc, ← Nat.pow_succ']; exact Nat.mul_lt_mul_of_pos_right hhi hp
  generalize n * 2 ^ (52 - l) = m at *
  constructor
  · omega
  · omega

theorem u64_ofInt_nat (n : Nat) : UInt64.ofInt (n : Int) = UInt64.ofNat n := by
  rw [← UInt64.toNat_inj]
  simp only [UInt64.ofInt, UInt64.toNat_ofNat']
  omega

theorem u32_ofInt_nat (n : Nat) : UInt32.ofInt (n : Int) = UInt32.ofNat n := by
  rw [← UInt32.toNat_inj]
  simp only [UInt32.ofInt, UInt32.toNat_ofNat']
  omega

theorem toI_u64 (a : UInt64) : toI a = (a.toNat : Int) := rfl
theorem toI_u32 (a : UInt32) : toI a = (a.toNat : Int) := rfl
theorem toI_i32 (a : Int32) : toI a = a.toInt := rfl

theorem bmod32 (n : Int) (h1 : -2^31 ≤ n) (h2 : n < 2^31) : n.bmod (2^32) = n :=
  Int.bmod_eq_of_le (by omega) (by omega)

/-- the code's bit-length computation through the exponent field of a double -/
theorem nr_bits_idx (v : UInt64) (K : UInt32) (h0 : 0 < v.toNat) (h53 : v.toNat < 2^53) (hK1 : 1 ≤ K.toNat) (hK2 : K.toNat ≤ 65) :
    (UInt64.ofInt (toI (Int32.ofInt (toI (K + (((UInt32.ofInt (toI ((F64U.ofU64 (UInt64.ofInt (toI v))).bits >>> 52))) &&& 2047) - 1023))) - 1)))
      = UInt64.ofNat (K.toNat - 1 + v.toNat.log2) := by
  obtain ⟨f1, f2⟩ := float_exp v.toNat h0 h53
  have hl : v.toNat.log2 < 53 := (Nat.log2_lt (by omega)).2 h53
  have e1 : (UInt64.ofInt (toI v)) = v := by rw [toI_u64, u64_ofInt_nat, UInt64.ofNat_toNat]
  have e2 : ((F64U.ofU64 v).bits >>> 52).toNat = v.toNat.log2 + 1023 := by
    rw [UInt64.toNat_shiftRight, F64U.ofU64, UInt64.toNat_ofNat', Nat.mod_eq_of_lt (by omega),
      show (52 : UInt64).toNat % 64 = 52 from by decide, Nat.shiftRight_eq_div_pow, f1]
  have e3 : (K + (((UInt32.ofInt (toI ((F64U.ofU64 v).bits >>> 52))) &&& 2047) - 1023)).toNat = K.toNat + v.toNat.log2 := by
    rw [UInt32.toNat_add, UInt32.toNat_sub, UInt32.toNat_and, toI_u64, u32_ofInt_nat, UInt32.toNat_ofNat', e2,
      show (2047 : UInt32).toNat = 2^11 - 1 from by decide, Nat.and_two_pow_sub_one_eq_mod,
      show (1023 : UInt32).toNat = 1023 from by decide]
    omega
  rw [e1, toI_i32, Int32.toInt_sub, toI_u32, e3, Int32.toInt_ofInt_of_le (by omega) (by omega),
    show (1 : Int32).toInt = 1 from by decide]
  have : ((K.toNat + v.toNat.log2 : Nat) - 1 : Int).bmod (2^32) = ((K.toNat - 1 + v.toNat.log2 : Nat) : Int) := by
    rw [bmod32 _ (by omega) (by omega)]; omega
  rw [this, u64_ofInt_nat]

theorem nr_len : Dec.Gen.BID_NR_DIGITS.length = 452 := by decide +kernel

theorem getElem?_getD (t : List Nat) (k : Nat) (h : k < t.length) : t[k]? = some (t.getD k 0) := by
  rw [List.getD_eq_getElem?_getD, List.getElem?_eq_getElem h, Option.getD_some]

/-- the table access of the code, on the index range the code uses -/
theorem tblDD_nr (i : Nat) (hi : i < 113) :
    tblDD Dec.Gen.BID_NR_DIGITS (UInt64.ofNat i) =
      .ok ⟨UInt32.ofNat (Dec.Gen.BID_NR_DIGITS.getD (i * 4 + 0) 0), UInt64.ofNat (Dec.Gen.BID_NR_DIGITS.getD (i * 4 + 1) 0),
        UInt64.ofNat (Dec.Gen.BID_NR_DIGITS.getD (i * 4 + 2) 0), UInt32.ofNat (Dec.Gen.BID_NR_DIGITS.getD (i * 4 + 3) 0)⟩ := by
  unfold tblDD
  rw [UInt64.toNat_ofNat', Nat.mod_eq_of_lt (by omega)]
  rw [getElem?_getD _ (4 * i) (by rw [nr_len]; omega), getElem?_getD _ (4 * i + 1) (by rw [nr_len]; omega),
    getElem?_getD _ (4 * i + 2) (by rw [nr_len]; omega), getElem?_getD _ (4 * i + 3) (by rw [nr_len]; omega)]
  simp only [Nat.mul_comm 4 i, Nat.add_zero]

/-- bit length of the low word through its top 32 bits -/
theorem log2_shift (l : Nat) (h : 2^53 ≤ l) : 32 + (l / 2^32).log2 = l.log2 := by
  have hne : l / 2^32 ≠ 0 := by omega
  have h1 := Nat.log2_self_le hne
  have h2 := @Nat.lt_log2_self (l / 2^32)
  symm
  rw [Nat.log2_eq_iff (by omega)]
  generalize (l / 2^32).log2 = k at *
  rw [show 32 + k + 1 = 32 + (k + 1) from rfl, Nat.pow_add, Nat.pow_add]
  generalize 2^k = A at *
  generalize 2^(k+1) = B at *
  omega

theorem log2_hi (hi l : Nat) (h0 : hi ≠ 0) (hl : l < 2^64) : 64 + hi.log2 = (hi * 2^64 + l).log2 := by
  have h1 := Nat.log2_self_le h0
  have h2 := @Nat.lt_log2_self hi
  symm
  rw [Nat.log2_eq_iff (by omega)]
  generalize hi.log2 = k at *
  rw [show 64 + k + 1 = 64 + (k + 1) from rfl, Nat.pow_add, Nat.pow_add]
  generalize 2^k = A at *
  generalize 2^(k+1) = B at *
  omega

theorem u64_ge (a b : UInt64) : decide (a ≥ b) = decide (b.toNat ≤ a.toNat) := by
  rw [decide_eq_decide, ge_iff_le, UInt64.le_iff_toNat_le]

theorem shr32 (a : UInt64) : (a >>> 32).toNat = a.toNat / 2^32 := by
  rw [UInt64.toNat_shiftRight, show (32 : UInt64).toNat % 64 = 32 from by decide, Nat.shiftRight_eq_div_pow]

/-- the digit-count tail of `is_normal` / `is_subnormal` as the translation writes it (five reads of the same table
entry `t`), `k` the final test -/
def nrTail (t : Except String DecDigits) (hi lo : UInt64) (k : Int32 → Bool) : Except String Bool :=
  Except.bind t (fun v =>
    if (Int32.ofInt (toI v.digits) == 0) = true then
      Except.bind t (fun v =>
        Except.bind t (fun v_1 =>
          Except.bind
            (if decide (hi > v_1.threshold_hi) = true then Except.ok true
              else
                Except.bind t (fun v =>
                  if (hi == v.threshold_hi) = true then
                    Except.bind t (fun v => Except.ok (decide (lo ≥ v.threshold_lo)))
                  else Except.ok false))
            (fun v_2 =>
              if v_2 = true then Except.ok (k (Int32.ofInt (toI v.digits1) + 1))
              else Except.ok (k (Int32.ofInt (toI v.digits1))))))
    else Except.ok (k (Int32.ofInt (toI v.digits))))

/-- the code's index into `BID_NR_DIGITS`: bit length − 1 of `v`, through the exponent field of `v as f64` -/
def idxExpr (K : UInt32) (v : UInt64) : UInt64 :=
  UInt64.ofInt (toI (Int32.ofInt (toI (K + (((UInt32.ofInt (toI ((F64U.ofU64 (UInt64.ofInt (toI v))).bits >>> 52))) &&& 2047) - 1023))) - 1))

def nrIdx (x : U128) : UInt64 :=
  if (x.w1 &&& 0x1ffffffffffff == 0) = true then
    if decide (x.w0 ≥ 0x20000000000000) = true then idxExpr 33 (x.w0 >>> 32) else idxExpr 1 x.w0
  else idxExpr 65 (x.w1 &&& 0x1ffffffffffff)

theorem is_normal_shape (x : U128) : bid128_is_normal x =
    if (x.w1 &&& 0x7800000000000000 == 0x7800000000000000) = true then .ok false
    else if (x.w1 &&& 0x1ffffffffffff == 0 && x.w0 == 0) = true then .ok false
    else if ((decide (x.w1 &&& 0x1ffffffffffff > 0x1ed09bead87c0) ||
              x.w1 &&& 0x1ffffffffffff == 0x1ed09bead87c0 && decide (x.w0 > 0x378d8e63ffffffff)) &&
            x.w1 &&& 0x6000000000000000 != 0x6000000000000000 ||
          x.w1 &&& 0x6000000000000000 == 0x6000000000000000) = true then .ok false
    else nrTail (tblDD Dec.Gen.BID_NR_DIGITS (nrIdx x)) (x.w1 &&& 0x1ffffffffffff) x.w0
      (fun q => decide (Int32.ofInt (toI ((x.w1 &&& 0x7ffe000000000000) >>> 49)) - 6176 + q > -6143)) := by
  unfold bid128_is_normal nrIdx nrTail idxExpr
  delta c_MASK_SPECIAL c_MASK_EXP c_MASK_COEFF
  simp only [bind, Except.bind, pure, Except.pure]
  by_cases h1 : (x.w1 &&& 0x7800000000000000 == 0x7800000000000000) = true
  · rw [if_pos h1, if_pos h1]
  rw [if_neg h1, if_neg h1]
  by_cases h2 : (x.w1 &&& 0x1ffffffffffff == 0 && x.w0 == 0) = true
  · rw [if_pos h2, if_pos h2]
  rw [if_neg h2, if_neg h2]
  by_cases h3 : ((decide (x.w1 &&& 0x1ffffffffffff > 0x1ed09bead87c0) ||
              x.w1 &&& 0x1ffffffffffff == 0x1ed09bead87c0 && decide (x.w0 > 0x378d8e63ffffffff)) &&
            x.w1 &&& 0x6000000000000000 != 0x6000000000000000 ||
          x.w1 &&& 0x6000000000000000 == 0x6000000000000000) = true
  · rw [if_pos h3, if_pos h3]
  rw [if_neg h3, if_neg h3]
  by_cases h4 : (x.w1 &&& 0x1ffffffffffff == 0) = true
  · rw [if_pos h4, if_pos h4]
    by_cases h5 : decide (x.w0 ≥ 0x20000000000000) = true
    · rw [if_pos h5, if_pos h5]
    · rw [if_neg h5, if_neg h5]
  · rw [if_neg h4, if_neg h4]

/-- the tail once the table entry is known -/
theorem nrTail_eval (D D1 : UInt32) (THI TLO hi lo : UInt64) (k : Int32 → Bool) :
    nrTail (.ok ⟨D, THI, TLO, D1⟩) hi lo k =
      Except.ok (k (if Int32.ofInt (toI D) = 0 then
        (if THI.toNat * 2^64 + TLO.toNat ≤ hi.toNat * 2^64 + lo.toNat then Int32.ofInt (toI D1) + 1 else Int32.ofInt (toI D1))
        else Int32.ofInt (toI D))) := by
  have := lo.toNat_lt; have := TLO.toNat_lt
  simp only [nrTail, Except.bind]
  by_cases h0 : Int32.ofInt (toI D) = 0
  · simp only [h0, beq_self_eq_true, if_true]
    by_cases h1 : hi > THI
    · have : THI.toNat * 2^64 + TLO.toNat ≤ hi.toNat * 2^64 + lo.toNat := by
        rw [gt_iff_lt, UInt64.lt_iff_toNat_lt] at h1; omega
      simp only [h1, decide_true, if_true, this]
    · by_cases h2 : hi = THI
      · subst h2
        by_cases h3 : lo ≥ TLO
        · have : hi.toNat * 2^64 + TLO.toNat ≤ hi.toNat * 2^64 + lo.toNat := by
            rw [ge_iff_le, UInt64.le_iff_toNat_le] at h3; omega
          simp only [h1, decide_false, Bool.false_eq_true, if_false, beq_self_eq_true, if_true, h3, decide_true, this]
        · have : ¬ hi.toNat * 2^64 + TLO.toNat ≤ hi.toNat * 2^64 + lo.toNat := by
            rw [ge_iff_le, UInt64.le_iff_toNat_le] at h3; omega
          simp only [h1, decide_false, Bool.false_eq_true, if_false, beq_self_eq_true, if_true, h3, this]
      · have : ¬ THI.toNat * 2^64 + TLO.toNat ≤ hi.toNat * 2^64 + lo.toNat := by
          rw [gt_iff_lt, UInt64.lt_iff_toNat_lt] at h1
          rw [← UInt64.toNat_inj] at h2
          omega
        have h2' : (hi == THI) = false := by rw [beq_eq_false_iff_ne]; exact h2
        simp only [h1, decide_false, Bool.false_eq_true, if_false, h2', this]
  · have h0' : (Int32.ofInt (toI D) == 0) = false := by rw [beq_eq_false_iff_ne]; exact h0
    simp only [h0', Bool.false_eq_true, if_false, h0]

/-- every row `(digits, threshold_hi, threshold_lo, digits1)` of a flattened table has small digit counts and word-sized
thresholds -/
def rowsOk : List Nat → Bool
  | a :: b :: c :: d :: rest => decide (a < 64) && decide (b < 2^64) && decide (c < 2^64) && decide (d < 64) && rowsOk rest
  | [] => true
  | _ => false

theorem rowsOk_get : ∀ (t : List Nat) (i : Nat), rowsOk t = true → i * 4 + 3 < t.length →
    t.getD (i * 4 + 0) 0 < 64 ∧ t.getD (i * 4 + 1) 0 < 2^64 ∧ t.getD (i * 4 + 2) 0 < 2^64 ∧ t.getD (i * 4 + 3) 0 < 64
  | a :: b :: c :: d :: rest, 0, h, _ => by
    simp only [rowsOk, Bool.and_eq_true, decide_eq_true_eq] at h
    simp only [Nat.zero_mul, Nat.zero_add, List.getD_cons_zero, List.getD_cons_succ]
    exact ⟨h.1.1.1.1, h.1.1.1.2, h.1.1.2, h.1.2⟩
  | a :: b :: c :: d :: rest, i + 1, h, hl => by
    simp only [rowsOk, Bool.and_eq_true, decide_eq_true_eq] at h
    have := rowsOk_get rest i h.2 (by simp only [List.length_cons] at hl; omega)
    have e : ∀ j, (i + 1) * 4 + j = (i * 4 + j) + 1 + 1 + 1 + 1 := by intro j; omega
    simp only [e, List.getD_cons_succ]
    exact this
  | [], i, _, hl => by simp at hl
  | [_], i, h, _ => by simp [rowsOk] at h
  | [_, _], i, h, _ => by simp [rowsOk] at h
  | [_, _, _], i, h, _ => by simp [rowsOk] at h

theorem nr_rowsOk : rowsOk Dec.Gen.BID_NR_DIGITS = true := by decide +kernel

theorem nr_bound (i : Nat) (hi : i < 113) :
    Dec.Gen.BID_NR_DIGITS.getD (i * 4 + 0) 0 < 64 ∧ Dec.Gen.BID_NR_DIGITS.getD (i * 4 + 1) 0 < 2^64 ∧
    Dec.Gen.BID_NR_DIGITS.getD (i * 4 + 2) 0 < 2^64 ∧ Dec.Gen.BID_NR_DIGITS.getD (i * 4 + 3) 0 < 64 :=
  rowsOk_get _ i nr_rowsOk (by rw [nr_len]; omega)

theorem i32_of_small (n : Nat) (h : n < 2^31) : (Int32.ofInt (toI (UInt32.ofNat n))).toInt = n := by
  rw [toI_u32, UInt32.toNat_ofNat', Nat.mod_eq_of_lt (by omega), Int32.toInt_ofInt_of_le (by omega) (by omega)]

/-- the digit count the code derives from the table entry of the bit length of `C` is `ndigits C` -/
theorem nr_q (C : Nat) (h0 : 0 < C) (hC : C < 2^113) :
    (if Int32.ofInt (toI (UInt32.ofNat (Dec.Gen.BID_NR_DIGITS.getD (C.log2 * 4 + 0) 0))) = 0 then
      (if (UInt64.ofNat (Dec.Gen.BID_NR_DIGITS.getD (C.log2 * 4 + 1) 0)).toNat * 2^64
            + (UInt64.ofNat (Dec.Gen.BID_NR_DIGITS.getD (C.log2 * 4 + 2) 0)).toNat ≤ C
        then Int32.ofInt (toI (UInt32.ofNat (Dec.Gen.BID_NR_DIGITS.getD (C.log2 * 4 + 3) 0))) + 1
        else Int32.ofInt (toI (UInt32.ofNat (Dec.Gen.BID_NR_DIGITS.getD (C.log2 * 4 + 3) 0))))
      else Int32.ofInt (toI (UInt32.ofNat (Dec.Gen.BID_NR_DIGITS.getD (C.log2 * 4 + 0) 0)))).toInt = (ndigits C : Int) := by
  have hL : C.log2 < 113 := (Nat.log2_lt (by omega)).2 hC
  obtain ⟨b0, b1, b2, b3⟩ := nr_bound _ hL
  rw [← Dec.TableFacts.nrDigits_mechanism_ndigits h0 hC]
  unfold Dec.TableFacts.nrDigitsLookup
  simp only []
  rw [UInt64.toNat_ofNat', UInt64.toNat_ofNat', Nat.mod_eq_of_lt b1, Nat.mod_eq_of_lt b2]
  generalize Dec.Gen.BID_NR_DIGITS.getD (C.log2 * 4 + 0) 0 = d at *
  generalize Dec.Gen.BID_NR_DIGITS.getD (C.log2 * 4 + 1) 0 = thi at *
  generalize Dec.Gen.BID_NR_DIGITS.getD (C.log2 * 4 + 2) 0 = tlo at *
  generalize Dec.Gen.BID_NR_DIGITS.getD (C.log2 * 4 + 3) 0 = d1 at *
  have e0 : (Int32.ofInt (toI (UInt32.ofNat d)) = 0) ↔ d = 0 := by
    rw [← Int32.toInt_inj, i32_of_small d (by omega)]
    simp
  by_cases hd : d = 0
  · rw [if_pos (e0.2 hd), if_neg (show ¬ d ≠ 0 from fun h => h hd)]
    by_cases ht : thi * 2^64 + tlo ≤ C
    · rw [if_pos ht, if_pos (show C ≥ thi * 2^64 + tlo from ht), Int32.toInt_add, i32_of_small d1 (by omega),
        show (1 : Int32).toInt = 1 from by decide, bmod32 _ (by omega) (by omega)]
      omega
    · rw [if_neg ht, if_neg (show ¬ C ≥ thi * 2^64 + tlo from ht), i32_of_small d1 (by omega)]
  · rw [if_neg (fun h => hd (e0.1 h)), if_pos hd, i32_of_small d (by omega)]

/-- the biased exponent as the code extracts it in `is_normal` / `is_subnormal` -/
theorem exp_i32 (w : UInt64) :
    (Int32.ofInt (toI ((w &&& 0x7ffe000000000000) >>> 49)) - 6176).toInt = ((w.toNat / 2^49 % 2^14 : Nat) : Int) - 6176 := by
  have e : ((w &&& 0x7ffe000000000000) >>> 49).toNat = w.toNat / 2^49 % 2^14 := by
    rw [UInt64.toNat_shiftRight, toNat_and_field w _ 14 49 (by decide), show (49 : UInt64).toNat % 64 = 49 from by decide,
      Nat.shiftRight_eq_div_pow, Nat.mul_div_cancel _ (by decide)]
  rw [Int32.toInt_sub, toI_u64, e, Int32.toInt_ofInt_of_le (by omega) (by omega), show (6176 : Int32).toInt = 6176 from by decide,
    bmod32 _ (by omega) (by omega)]

/-- a finite canonical non-zero pair of words -/
theorem decodeW_canon (h l : Nat) (c1 : ¬ h / 2^59 % 16 = 15) (c3 : ¬ h / 2^61 % 4 = 3) (c4 : ¬ P34 ≤ h % 2^49 * 2^64 + l) :
    decodeW h l = .fin (decide (h / 2^63 % 2 = 1)) (h % 2^49 * 2^64 + l) ((h / 2^49 % 2^14 : Nat) - (6176 : Int)) := by
  unfold decodeW
  rw [if_neg c1, if_neg c3, if_pos (by omega)]

theorem normal_final (x : U128) (Q : Int32)
    (c1 : ¬ x.w1.toNat / 2^59 % 16 = 15) (c2 : ¬ x.w1.toNat % 2^49 * 2^64 + x.w0.toNat = 0)
    (c3 : ¬ x.w1.toNat / 2^61 % 4 = 3) (c4 : ¬ P34 ≤ x.w1.toNat % 2^49 * 2^64 + x.w0.toNat)
    (hQ : Q.toInt = (ndigits (x.w1.toNat % 2^49 * 2^64 + x.w0.toNat) : Int)) :
    decide (Int32.ofInt (toI ((x.w1 &&& 0x7ffe000000000000) >>> 49)) - 6176 + Q > -6143)
      = isNormalD (decodeW x.w1.toNat x.w0.toNat) := by
  have hq : ndigits (x.w1.toNat % 2^49 * 2^64 + x.w0.toNat) ≤ 34 := by
    rw [ndigits_le_iff (by omega)]; simp only [P34] at c4; omega
  rw [decodeW_canon _ _ c1 c3 c4, isNormalD, Bool.eq_iff_iff]
  simp only [gt_iff_lt, Int32.lt_iff_toInt_lt, Int32.toInt_add, exp_i32, hQ, show (-6143 : Int32).toInt = -6143 from by decide,
    decide_eq_true_eq, Bool.and_eq_true, bne_iff_ne, ne_eq]
  rw [bmod32 _ (by omega) (by omega)]
  omega


/-- the code's table index is the bit length − 1 of the coefficient -/
theorem nrIdx_eq (x : U128) (hC0 : 0 < x.w1.toNat % 2^49 * 2^64 + x.w0.toNat) :
    nrIdx x = UInt64.ofNat (x.w1.toNat % 2^49 * 2^64 + x.w0.toNat).log2 := by
  have hl := x.w0.toNat_lt
  unfold nrIdx idxExpr
  by_cases c5 : x.w1.toNat % 2^49 = 0
  · rw [if_pos (by rw [u64_beq_zero, coeff_hi]; simpa using c5)]
    by_cases c6 : 2^53 ≤ x.w0.toNat
    · rw [if_pos (by rw [u64_ge]; simpa using c6),
        nr_bits_idx _ 33 (by rw [shr32]; omega) (by rw [shr32]; omega) (by decide) (by decide)]
      rw [shr32, show UInt32.toNat 33 - 1 = 32 from by decide, log2_shift _ c6, c5]
      simp only [Nat.zero_mul, Nat.zero_add]
    · rw [if_neg (by rw [u64_ge]; simpa using c6),
        nr_bits_idx _ 1 (by omega) (by omega) (by decide) (by decide)]
      rw [show UInt32.toNat 1 - 1 = 0 from by decide, c5]
      simp only [Nat.zero_mul, Nat.zero_add]
  · rw [if_neg (by rw [u64_beq_zero, coeff_hi]; simpa using c5),
      nr_bits_idx _ 65 (by rw [coeff_hi]; omega) (by rw [coeff_hi]; omega) (by decide) (by decide)]
    rw [show UInt32.toNat 65 - 1 = 64 from by decide, coeff_hi, log2_hi _ _ c5 hl]

/-- **digit count**: for a non-zero coefficient below 2^113 the tail of `is_normal` / `is_subnormal` applies the final test
`k` to the number of decimal digits of the coefficient (and no table access panics) -/
theorem nr_core (x : U128) (k : Int32 → Bool) (hC0 : 0 < x.w1.toNat % 2^49 * 2^64 + x.w0.toNat)
    (hC : x.w1.toNat % 2^49 * 2^64 + x.w0.toNat < 2^113) :
    ∃ Q : Int32, Q.toInt = (ndigits (x.w1.toNat % 2^49 * 2^64 + x.w0.toNat) : Int) ∧
      nrTail (tblDD Dec.Gen.BID_NR_DIGITS (nrIdx x)) (x.w1 &&& 0x1ffffffffffff) x.w0 k = .ok (k Q) := by
  have hL : (x.w1.toNat % 2^49 * 2^64 + x.w0.toNat).log2 < 113 := (Nat.log2_lt (by omega)).2 hC
  rw [nrIdx_eq x hC0, tblDD_nr _ hL, nrTail_eval, coeff_hi]
  exact ⟨_, nr_q _ hC0 hC, rfl⟩

/-- a finite pair of words whose datum is a zero: non-canonical or zero coefficient -/
theorem decodeW_zero (h l : Nat) (c1 : ¬ h / 2^59 % 16 = 15)
    (hz : h / 2^61 % 4 = 3 ∨ P34 ≤ h % 2^49 * 2^64 + l ∨ h % 2^49 * 2^64 + l = 0) :
    ∃ s e, decodeW h l = .fin s 0 e := by
  unfold decodeW
  rw [if_neg c1]
  by_cases c3 : h / 2^61 % 4 = 3
  · rw [if_pos c3]; exact ⟨_, _, rfl⟩
  · rw [if_neg c3]
    rcases hz with hz | hz | hz
    · exact absurd hz c3
    · rw [if_neg (by omega)]; exact ⟨_, _, rfl⟩
    · rw [hz]; simp only [P34]; exact ⟨_, _, rfl⟩

/-- a special pair of words is not finite -/
theorem decodeW_special (h l : Nat) (c1 : h / 2^59 % 16 = 15) :
    (∃ s, decodeW h l = .inf s) ∨ (∃ s g p, decodeW h l = .nan s g p) := by
  unfold decodeW
  rw [if_pos c1]
  by_cases c2 : h / 2^58 % 2 = 0
  · rw [if_pos c2]; exact Or.inl ⟨_, rfl⟩
  · rw [if_neg c2]; exact Or.inr ⟨_, _, _, rfl⟩

/-- **`bid128_is_normal`**: true exactly when the datum is finite, non-zero and its adjusted exponent
`digits + exp − 1` is at least −6143 (`Dec.isNormalD`); the routine never panics (no table index is out of range) -/
theorem is_normal_spec (x : U128) : bid128_is_normal x = .ok (isNormalD (decode (bitsOf x))) := by
  rw [is_normal_shape, decode_bitsOf]
  simp only [inf_test, steer_test, gt128, zero128, coeff_hi, bne, UInt64.toNat_ofNat]
  have hl := x.w0.toNat_lt
  have hh := x.w1.toNat_lt
  by_cases c1 : x.w1.toNat / 2^59 % 16 = 15
  · rw [if_pos (by simpa using c1)]
    rcases decodeW_special _ x.w0.toNat c1 with ⟨s, hd⟩ | ⟨s, g, p, hd⟩ <;> rw [hd] <;> rfl
  rw [if_neg (by simpa using c1)]
  by_cases c2 : x.w1.toNat % 2^49 * 2^64 + x.w0.toNat = 0
  · rw [if_pos (by simpa using c2)]
    obtain ⟨s, e, hd⟩ := decodeW_zero _ _ c1 (Or.inr (Or.inr c2))
    rw [hd]; rfl
  rw [if_neg (by simpa using c2)]
  by_cases c3 : x.w1.toNat / 2^61 % 4 = 3
  · rw [if_pos (by simp only [c3, decide_true, Bool.or_true])]
    obtain ⟨s, e, hd⟩ := decodeW_zero _ x.w0.toNat c1 (Or.inl c3)
    rw [hd]; rfl
  by_cases c4 : P34 ≤ x.w1.toNat % 2^49 * 2^64 + x.w0.toNat
  · rw [if_pos (by
      simp only [P34] at c4
      simp only [c3, decide_false, Bool.not_false, Bool.and_true, Bool.or_false, decide_eq_true_eq]; omega)]
    obtain ⟨s, e, hd⟩ := decodeW_zero _ _ c1 (Or.inr (Or.inl c4))
    rw [hd]; rfl
  rw [if_neg (by
    simp only [P34] at c4
    simp only [c3, decide_false, Bool.not_false, Bool.and_true, Bool.or_false, decide_eq_true_eq]; omega)]
  have hC0 : 0 < x.w1.toNat % 2^49 * 2^64 + x.w0.toNat := by omega
  have hC : x.w1.toNat % 2^49 * 2^64 + x.w0.toNat < 2^113 := by simp only [P34] at c4; omega
  obtain ⟨Q, hQ, hk⟩ := nr_core x (fun q => decide (Int32.ofInt (toI ((x.w1 &&& 0x7ffe000000000000) >>> 49)) - 6176 + q > -6143)) hC0 hC
  rw [hk]
  exact congrArg Except.ok (normal_final x Q c1 c2 c3 c4 hQ)

-- 10^33·10^-6176 is the smallest normal number, (10^33 − 1)·10^-6176 is subnormal
example : bid128_is_normal ⟨0x38c15b0a00000000, 0x0000314dc6448d93⟩ = .ok true ∧
    bid128_is_normal ⟨0x38c15b09ffffffff, 0x0000314dc6448d93⟩ = .ok false := by decide +kernel

theorem is_subnormal_shape (x : U128) : bid128_is_subnormal x =
    if (x.w1 &&& 0x7800000000000000 == 0x7800000000000000) = true then .ok false
    else if (x.w1 &&& 0x1ffffffffffff == 0 && x.w0 == 0) = true then .ok false
    else if ((decide (x.w1 &&& 0x1ffffffffffff > 0x1ed09bead87c0) ||
              x.w1 &&& 0x1ffffffffffff == 0x1ed09bead87c0 && decide (x.w0 > 0x378d8e63ffffffff)) &&
            x.w1 &&& 0x6000000000000000 != 0x6000000000000000 ||
          x.w1 &&& 0x6000000000000000 == 0x6000000000000000) = true then .ok false
    else nrTail (tblDD Dec.Gen.BID_NR_DIGITS (nrIdx x)) (x.w1 &&& 0x1ffffffffffff) x.w0
      (fun q => decide (Int32.ofInt (toI ((x.w1 &&& 0x7ffe000000000000) >>> 49)) - 6176 + q ≤ -6143)) := by
  unfold bid128_is_subnormal nrIdx nrTail idxExpr
  delta c_MASK_SPECIAL c_MASK_EXP c_MASK_COEFF
  simp only [bind, Except.bind, pure, Except.pure]
  by_cases h1 : (x.w1 &&& 0x7800000000000000 == 0x7800000000000000) = true
  · rw [if_pos h1, if_pos h1]
  rw [if_neg h1, if_neg h1]
  by_cases h2 : (x.w1 &&& 0x1ffffffffffff == 0 && x.w0 == 0) = true
  · rw [if_pos h2, if_pos h2]
  rw [if_neg h2, if_neg h2]
  by_cases h3 : ((decide (x.w1 &&& 0x1ffffffffffff > 0x1ed09bead87c0) ||
              x.w1 &&& 0x1ffffffffffff == 0x1ed09bead87c0 && decide (x.w0 > 0x378d8e63ffffffff)) &&
            x.w1 &&& 0x6000000000000000 != 0x6000000000000000 ||
          x.w1 &&& 0x6000000000000000 == 0x6000000000000000) = true
  · rw [if_pos h3, if_pos h3]
  rw [if_neg h3, if_neg h3]
  by_cases h4 : (x.w1 &&& 0x1ffffffffffff == 0) = true
  · rw [if_pos h4, if_pos h4]
    by_cases h5 : decide (x.w0 ≥ 0x20000000000000) = true
    · rw [if_pos h5, if_pos h5]
    · rw [if_neg h5, if_neg h5]
  · rw [if_neg h4, if_neg h4]


theorem subnormal_final (x : U128) (Q : Int32)
    (c1 : ¬ x.w1.toNat / 2^59 % 16 = 15) (c2 : ¬ x.w1.toNat % 2^49 * 2^64 + x.w0.toNat = 0)
    (c3 : ¬ x.w1.toNat / 2^61 % 4 = 3) (c4 : ¬ P34 ≤ x.w1.toNat % 2^49 * 2^64 + x.w0.toNat)
    (hQ : Q.toInt = (ndigits (x.w1.toNat % 2^49 * 2^64 + x.w0.toNat) : Int)) :
    decide (Int32.ofInt (toI ((x.w1 &&& 0x7ffe000000000000) >>> 49)) - 6176 + Q ≤ -6143)
      = isSubnormalD (decodeW x.w1.toNat x.w0.toNat) := by
  have hq : ndigits (x.w1.toNat % 2^49 * 2^64 + x.w0.toNat) ≤ 34 := by
    rw [ndigits_le_iff (by omega)]; simp only [P34] at c4; omega
  rw [decodeW_canon _ _ c1 c3 c4, isSubnormalD, Bool.eq_iff_iff]
  simp only [Int32.le_iff_toInt_le, Int32.toInt_add, exp_i32, hQ, show (-6143 : Int32).toInt = -6143 from by decide,
    decide_eq_true_eq, Bool.and_eq_true, bne_iff_ne, ne_eq]
  rw [bmod32 _ (by omega) (by omega)]
  omega



/-- **`bid128_is_subnormal`**: true exactly when the datum is finite, non-zero and its adjusted exponent is below −6143
(`Dec.isSubnormalD`) -/
theorem is_subnormal_spec (x : U128) : bid128_is_subnormal x = .ok (isSubnormalD (decode (bitsOf x))) := by
  rw [is_subnormal_shape, decode_bitsOf]
  simp only [inf_test, steer_test, gt128, zero128, coeff_hi, bne, UInt64.toNat_ofNat]
  have hl := x.w0.toNat_lt
  have hh := x.w1.toNat_lt
  by_cases c1 : x.w1.toNat / 2^59 % 16 = 15
  · rw [if_pos (by simpa using c1)]
    rcases decodeW_special _ x.w0.toNat c1 with ⟨s, hd⟩ | ⟨s, g, p, hd⟩ <;> rw [hd] <;> rfl
  rw [if_neg (by simpa using c1)]
  by_cases c2 : x.w1.toNat % 2^49 * 2^64 + x.w0.toNat = 0
  · rw [if_pos (by simpa using c2)]
    obtain ⟨s, e, hd⟩ := decodeW_zero _ _ c1 (Or.inr (Or.inr c2))
    rw [hd]; rfl
  rw [if_neg (by simpa using c2)]
  by_cases c3 : x.w1.toNat / 2^61 % 4 = 3
  · rw [if_pos (by simp only [c3, decide_true, Bool.or_true])]
    obtain ⟨s, e, hd⟩ := decodeW_zero _ x.w0.toNat c1 (Or.inl c3)
    rw [hd]; rfl
  by_cases c4 : P34 ≤ x.w1.toNat % 2^49 * 2^64 + x.w0.toNat
  · rw [if_pos (by
      simp only [P34] at c4
      simp only [c3, decide_false, Bool.not_false, Bool.and_true, Bool.or_false, decide_eq_true_eq]; omega)]
    obtain ⟨s, e, hd⟩ := decodeW_zero _ _ c1 (Or.inr (Or.inl c4))
    rw [hd]; rfl
  rw [if_neg (by
    simp only [P34] at c4
    simp only [c3, decide_false, Bool.not_false, Bool.and_true, Bool.or_false, decide_eq_true_eq]; omega)]
  have hC0 : 0 < x.w1.toNat % 2^49 * 2^64 + x.w0.toNat := by omega
  have hC : x.w1.toNat % 2^49 * 2^64 + x.w0.toNat < 2^113 := by simp only [P34] at c4; omega
  obtain ⟨Q, hQ, hk⟩ := nr_core x (fun q => decide (Int32.ofInt (toI ((x.w1 &&& 0x7ffe000000000000) >>> 49)) - 6176 + q ≤ -6143)) hC0 hC
  rw [hk]
  exact congrArg Except.ok (subnormal_final x Q c1 c2 c3 c4 hQ)

example : bid128_is_subnormal ⟨0x38c15b09ffffffff, 0x0000314dc6448d93⟩ = .ok true ∧
    bid128_is_subnormal ⟨0x38c15b0a00000000, 0x0000314dc6448d93⟩ = .ok false ∧ bid128_is_subnormal ⟨0, 0x0000000000000000⟩ = .ok false := by
  decide +kernel

/-! ## multi-word products -/

/-- `x as u32 as u64`: the low 32 bits -/
theorem lo32 (a : UInt64) : (UInt64.ofInt (toI (UInt32.ofInt (toI a)))).toNat = a.toNat % 2^32 := by
  show (UInt64.ofInt ((UInt32.ofInt (a.toNat : Int)).toNat : Int)).toNat = _
  rw [u32_ofInt_nat, u64_ofInt_nat, UInt64.toNat_ofNat', UInt32.toNat_ofNat']
  omega

theorem shr32' (a : UInt64) : (a >>> 0x20).toNat = a.toNat / 2^32 := by
  rw [UInt64.toNat_shiftRight, show (0x20 : UInt64).toNat % 64 = 32 from by decide, Nat.shiftRight_eq_div_pow]

theorem shl32' (a : UInt64) : (a <<< 0x20).toNat = a.toNat * 2^32 % 2^64 := by
  rw [UInt64.toNat_shiftLeft, show (0x20 : UInt64).toNat % 64 = 32 from by decide, Nat.shiftLeft_eq]

/-- `__mul_64x64_to_128` is the exact product -/
theorem mul_64x64_to_128_ok (a b : UInt64) :
    ∃ r, mul_64x64_to_128 a b = .ok r ∧ r.w1.toNat * 2^64 + r.w0.toNat = a.toNat * b.toNat := by
  refine ⟨_, rfl, ?_⟩
  have ha := a.toNat_lt; have hb := b.toNat_lt
  simp only [UInt64.toNat_add, UInt64.toNat_mul, shr32', shl32', lo32]
  generalize a.toNat = cx at *
  generalize b.toNat = cy at *
  obtain ⟨p, q, rfl, hp, hq⟩ : ∃ p q, cx = 4294967296 * p + q ∧ p < 4294967296 ∧ q < 4294967296 :=
    ⟨cx / 4294967296, cx % 4294967296, by omega, by omega, by omega⟩
  obtain ⟨c, d, rfl, hc, hd⟩ : ∃ c d, cy = 4294967296 * c + d ∧ c < 4294967296 ∧ d < 4294967296 :=
    ⟨cy / 4294967296, cy % 4294967296, by omega, by omega, by omega⟩
  have hac : p * c ≤ 4294967295 * 4294967295 := Nat.mul_le_mul (by omega) (by omega)
  have had : p * d ≤ 4294967295 * 4294967295 := Nat.mul_le_mul (by omega) (by omega)
  have hbc : q * c ≤ 4294967295 * 4294967295 := Nat.mul_le_mul (by omega) (by omega)
  have hbd : q * d ≤ 4294967295 * 4294967295 := Nat.mul_le_mul (by omega) (by omega)
  have hprod : (4294967296 * p + q) * (4294967296 * c + d)
      = 18446744073709551616 * (p * c) + 4294967296 * (p * d) + 4294967296 * (q * c) + q * d := by ring
  have e1 : (4294967296 * p + q) / 2^32 = p := by omega
  have e2 : (4294967296 * c + d) / 2^32 = c := by omega
  have e3 : (4294967296 * p + q) % 2^32 = q := by omega
  have e4 : (4294967296 * c + d) % 2^32 = d := by omega
  rw [hprod]
  simp only [e1, e2, e3, e4]
  generalize p * c = A at *
  generalize p * d = B at *
  generalize q * c = C at *
  generalize q * d = D at *
  omega

/-- `__add_128_64`: the sum modulo 2^128 -/
theorem add_128_64_ok (A : U128) (b : UInt64) :
    ∃ r, add_128_64 A b = .ok r ∧ r.w1.toNat * 2^64 + r.w0.toNat = (A.w1.toNat * 2^64 + A.w0.toNat + b.toNat) % 2^128 := by
  have h0 := A.w0.toNat_lt; have h1 := A.w1.toNat_lt; have hb := b.toNat_lt
  simp only [add_128_64, bind, Except.bind, pure, Except.pure]
  by_cases h : b + A.w0 < b
  · simp only [h, decide_true, if_true]
    refine ⟨_, rfl, ?_⟩
    rw [UInt64.lt_iff_toNat_lt, UInt64.toNat_add] at h
    simp only [UInt64.toNat_add, UInt64.toNat_one]
    omega
  · simp only [h, decide_false, Bool.false_eq_true, if_false]
    refine ⟨_, rfl, ?_⟩
    rw [UInt64.lt_iff_toNat_lt, UInt64.toNat_add] at h
    simp only [UInt64.toNat_add]
    omega

/-- `__mul_64x128_full`: the exact 192-bit product, high word and low 128 bits -/
theorem mul_64x128_full_ok (a : UInt64) (B : U128) :
    ∃ ph ql, mul_64x128_full a B = .ok (ph, ql) ∧
      ph.toNat * 2^128 + ql.w1.toNat * 2^64 + ql.w0.toNat = a.toNat * (B.w1.toNat * 2^64 + B.w0.toNat) := by
  obtain ⟨r1, e1, v1⟩ := mul_64x64_to_128_ok a B.w1
  obtain ⟨r0, e0, v0⟩ := mul_64x64_to_128_ok a B.w0
  obtain ⟨r2, e2, v2⟩ := add_128_64_ok r1 r0.w1
  simp only [mul_64x128_full, bind, Except.bind, pure, Except.pure, e1, e0, e2]
  refine ⟨r2.w1, ⟨r0.w0, r2.w0⟩, ?_, ?_⟩
  · exact rfl
  have := a.toNat_lt; have := B.w0.toNat_lt; have := B.w1.toNat_lt
  have := r0.w0.toNat_lt; have := r0.w1.toNat_lt; have := r1.w0.toNat_lt; have := r1.w1.toNat_lt
  have := r2.w0.toNat_lt; have := r2.w1.toNat_lt
  have hb : a.toNat * B.w1.toNat ≤ 340282366920938463426481119284349108225 :=
    Nat.le_trans (Nat.mul_le_mul (show a.toNat ≤ 18446744073709551615 by omega) (show B.w1.toNat ≤ 18446744073709551615 by omega))
      (by decide +kernel)
  have hd : a.toNat * (B.w1.toNat * 2^64 + B.w0.toNat) = a.toNat * B.w1.toNat * 2^64 + a.toNat * B.w0.toNat := by ring
  rw [hd]
  simp only []
  have hv2 : r2.w1.toNat * 2^64 + r2.w0.toNat = a.toNat * B.w1.toNat + r0.w1.toNat := by
    rw [v2, v1, Nat.mod_eq_of_lt]; omega
  calc r2.w1.toNat * 2^128 + r2.w0.toNat * 2^64 + r0.w0.toNat
      = (r2.w1.toNat * 2^64 + r2.w0.toNat) * 2^64 + r0.w0.toNat := by ring
    _ = a.toNat * B.w1.toNat * 2^64 + (r0.w1.toNat * 2^64 + r0.w0.toNat) := by rw [hv2]; ring
    _ = a.toNat * B.w1.toNat * 2^64 + a.toNat * B.w0.toNat := by rw [v0]

/-- `__mul_64x128_to_192`: the exact product -/
theorem mul_64x128_to_192_ok (a : UInt64) (B : U128) :
    ∃ q, mul_64x128_to_192 a B = .ok q ∧
      q.w2.toNat * 2^128 + q.w1.toNat * 2^64 + q.w0.toNat = a.toNat * (B.w1.toNat * 2^64 + B.w0.toNat) := by
  obtain ⟨r1, e1, v1⟩ := mul_64x64_to_128_ok a B.w1
  obtain ⟨r0, e0, v0⟩ := mul_64x64_to_128_ok a B.w0
  obtain ⟨r2, e2, v2⟩ := add_128_64_ok r1 r0.w1
  simp only [mul_64x128_to_192, bind, Except.bind, pure, Except.pure, e1, e0, e2]
  refine ⟨⟨r0.w0, r2.w0, r2.w1⟩, ?_, ?_⟩
  · exact rfl
  have := a.toNat_lt; have := B.w0.toNat_lt; have := B.w1.toNat_lt
  have := r0.w0.toNat_lt; have := r0.w1.toNat_lt; have := r1.w0.toNat_lt; have := r1.w1.toNat_lt
  have := r2.w0.toNat_lt; have := r2.w1.toNat_lt
  have hb : a.toNat * B.w1.toNat ≤ 340282366920938463426481119284349108225 :=
    Nat.le_trans (Nat.mul_le_mul (show a.toNat ≤ 18446744073709551615 by omega) (show B.w1.toNat ≤ 18446744073709551615 by omega))
      (by decide +kernel)
  have hd : a.toNat * (B.w1.toNat * 2^64 + B.w0.toNat) = a.toNat * B.w1.toNat * 2^64 + a.toNat * B.w0.toNat := by ring
  rw [hd]
  simp only []
  have hv2 : r2.w1.toNat * 2^64 + r2.w0.toNat = a.toNat * B.w1.toNat + r0.w1.toNat := by
    rw [v2, v1, Nat.mod_eq_of_lt]; omega
  calc r2.w1.toNat * 2^128 + r2.w0.toNat * 2^64 + r0.w0.toNat
      = (r2.w1.toNat * 2^64 + r2.w0.toNat) * 2^64 + r0.w0.toNat := by ring
    _ = a.toNat * B.w1.toNat * 2^64 + (r0.w1.toNat * 2^64 + r0.w0.toNat) := by rw [hv2]; ring
    _ = a.toNat * B.w1.toNat * 2^64 + a.toNat * B.w0.toNat := by rw [v0]


theorem add_carry_out_ok (X Y : UInt64) :
    ∃ s c, add_carry_out X Y = .ok (s, c) ∧ s.toNat + 2^64 * c.toNat = X.toNat + Y.toNat ∧ c.toNat ≤ 1 := by
  have hx := X.toNat_lt; have hy := Y.toNat_lt
  simp only [add_carry_out, bind, Except.bind, pure, Except.pure]
  by_cases h : X + Y < X
  · simp only [h, decide_true, if_true]
    refine ⟨_, _, rfl, ?_, ?_⟩
    · rw [UInt64.lt_iff_toNat_lt, UInt64.toNat_add] at h
      simp only [UInt64.toNat_add, UInt64.toNat_one]; omega
    · simp only [UInt64.toNat_one]; omega
  · simp only [h, decide_false, Bool.false_eq_true, if_false]
    refine ⟨_, _, rfl, ?_, ?_⟩
    · rw [UInt64.lt_iff_toNat_lt, UInt64.toNat_add] at h
      simp only [UInt64.toNat_add, UInt64.toNat_zero]; omega
    · simp only [UInt64.toNat_zero]; omega

theorem add_carry_in_out_ok (X Y CI : UInt64) (hci : CI.toNat ≤ 1) :
    ∃ s c, add_carry_in_out X Y CI = .ok (s, c) ∧ s.toNat + 2^64 * c.toNat = X.toNat + Y.toNat + CI.toNat ∧ c.toNat ≤ 1 := by
  have hx := X.toNat_lt; have hy := Y.toNat_lt
  simp only [add_carry_in_out, bind, Except.bind, pure, Except.pure]
  by_cases h : (decide (X + CI + Y < X + CI) || decide (X + CI < CI)) = true
  · simp only [h, if_true]
    refine ⟨_, _, rfl, ?_, ?_⟩
    · simp only [Bool.or_eq_true, decide_eq_true_eq, UInt64.lt_iff_toNat_lt, UInt64.toNat_add] at h
      simp only [UInt64.toNat_add, UInt64.toNat_one]; omega
    · simp only [UInt64.toNat_one]; omega
  · simp only [h, Bool.false_eq_true, if_false]
    refine ⟨_, _, rfl, ?_, ?_⟩
    · simp only [Bool.or_eq_true, decide_eq_true_eq, UInt64.lt_iff_toNat_lt, UInt64.toNat_add, not_or] at h
      simp only [UInt64.toNat_add, UInt64.toNat_zero]; omega
    · simp only [UInt64.toNat_zero]; omega

/-- the value of a 256-bit quantity -/
def val256 (p : U256) : Nat := p.w3.toNat * 2^192 + p.w2.toNat * 2^128 + p.w1.toNat * 2^64 + p.w0.toNat
def val192 (p : U192) : Nat := p.w2.toNat * 2^128 + p.w1.toNat * 2^64 + p.w0.toNat

/-- `__mul_128x128_to_256` is the exact product -/
theorem mul_128x128_to_256_ok (A B : U128) :
    ∃ p, mul_128x128_to_256 A B = .ok p ∧ val256 p = bitsOf A * bitsOf B := by
  obtain ⟨phl, qll, e1, f1⟩ := mul_64x128_full_ok A.w0 B
  obtain ⟨phh, qlh, e2, f2⟩ := mul_64x128_full_ok A.w1 B
  obtain ⟨s1, cy1, e3, c1, b1⟩ := add_carry_out_ok qlh.w0 qll.w1
  obtain ⟨s2, cy2, e4, c2, b2⟩ := add_carry_in_out_ok qlh.w1 phl cy1 b1
  simp only [mul_128x128_to_256, bind, Except.bind, pure, Except.pure, e1, e2, e3, e4]
  refine ⟨⟨qll.w0, s1, s2, phh + cy2⟩, ?_, ?_⟩
  · exact rfl
  have hB := bitsOf_lt B
  have hA1 := A.w1.toNat_lt
  -- no carry out of the top word
  have hphh : phh.toNat + cy2.toNat < 2^64 := by
    have h1 : phh.toNat * 2^128 ≤ A.w1.toNat * bitsOf B := by unfold bitsOf; rw [← f2]; omega
    have h2 : A.w1.toNat * bitsOf B ≤ (2^64 - 1) * bitsOf B := Nat.mul_le_mul_right _ (by omega)
    have h3 : (2^64 - 1) * bitsOf B < (2^64 - 1) * 2^128 := Nat.mul_lt_mul_of_pos_left hB (by decide)
    have h4 : phh.toNat < 2^64 - 1 := by
      have : phh.toNat * 2^128 < (2^64 - 1) * 2^128 := by omega
      exact Nat.lt_of_mul_lt_mul_right this
    omega
  unfold val256 bitsOf at *
  simp only [UInt64.toNat_add, Nat.mod_eq_of_lt hphh]
  have hd : (A.w1.toNat * 2^64 + A.w0.toNat) * (B.w1.toNat * 2^64 + B.w0.toNat)
      = A.w1.toNat * (B.w1.toNat * 2^64 + B.w0.toNat) * 2^64 + A.w0.toNat * (B.w1.toNat * 2^64 + B.w0.toNat) := by ring
  rw [hd, ← f1, ← f2]
  have g1 : s1.toNat + 2^64 * cy1.toNat = qlh.w0.toNat + qll.w1.toNat := c1
  have g2 : s2.toNat + 2^64 * cy2.toNat = qlh.w1.toNat + phl.toNat + cy1.toNat := c2
  calc (phh.toNat + cy2.toNat) * 2^192 + s2.toNat * 2^128 + s1.toNat * 2^64 + qll.w0.toNat
      = phh.toNat * 2^192 + (s2.toNat + 2^64 * cy2.toNat) * 2^128 + s1.toNat * 2^64 + qll.w0.toNat := by ring
    _ = phh.toNat * 2^192 + (qlh.w1.toNat + phl.toNat) * 2^128 + (s1.toNat + 2^64 * cy1.toNat) * 2^64 + qll.w0.toNat := by
        rw [g2]; ring
    _ = (phh.toNat * 2^128 + qlh.w1.toNat * 2^64 + qlh.w0.toNat) * 2^64
          + (phl.toNat * 2^128 + qll.w1.toNat * 2^64 + qll.w0.toNat) := by rw [g1]; ring

/-! ## class -/

theorem ten2k128_all : (List.range 13).all (fun j =>
    match tbl128 Dec.Gen.BID_TEN2K128 (UInt64.ofNat j) with
    | .ok v => decide (bitsOf v = 10^(j+20))
    | .error _ => false) = true := by
  decide +kernel

theorem ten2k64_all : (List.range 20).all (fun j =>
    match tbl64 Dec.Gen.BID_TEN2K64 (UInt64.ofNat j) with
    | .ok v => decide (v.toNat = 10^j)
    | .error _ => false) = true := by
  decide +kernel

theorem ten2k128_get (j : Nat) (hj : j < 13) : ∃ v, tbl128 Dec.Gen.BID_TEN2K128 (UInt64.ofNat j) = .ok v ∧ bitsOf v = 10^(j+20) := by
  have h := List.all_eq_true.1 ten2k128_all j (List.mem_range.2 hj)
  cases ht : tbl128 Dec.Gen.BID_TEN2K128 (UInt64.ofNat j) with
  | error e => rw [ht] at h; exact absurd h (by simp)
  | ok v => rw [ht] at h; exact ⟨v, rfl, by simpa using h⟩

theorem ten2k64_get (j : Nat) (hj : j < 20) : ∃ v, tbl64 Dec.Gen.BID_TEN2K64 (UInt64.ofNat j) = .ok v ∧ v.toNat = 10^j := by
  have h := List.all_eq_true.1 ten2k64_all j (List.mem_range.2 hj)
  cases ht : tbl64 Dec.Gen.BID_TEN2K64 (UInt64.ofNat j) with
  | error e => rw [ht] at h; exact absurd h (by simp)
  | ok v => rw [ht] at h; exact ⟨v, rfl, by simpa using h⟩

/-- the class the property text assigns to a datum (same case analysis as the model's `classOf`) -/
def classType : Datum → ClassTypes
  | .nan _ true _ => .SignalingNaN
  | .nan _ false _ => .QuietNaN
  | .inf true => .NegativeInfinity
  | .inf false => .PositiveInfinity
  | .fin s c e =>
    if c = 0 then (if s then .NegativeZero else .PositiveZero)
    else if (ndigits c : Int) + e - 1 ≥ -6143 then (if s then .NegativeNormal else .PositiveNormal)
    else (if s then .NegativeSubnormal else .PositiveSubnormal)

/-- the discriminant of `d128::ClassTypes` -/
def classIdx : ClassTypes → Nat
  | .SignalingNaN => 0 | .QuietNaN => 1 | .NegativeInfinity => 2 | .NegativeNormal => 3 | .NegativeSubnormal => 4
  | .NegativeZero => 5 | .PositiveZero => 6 | .PositiveSubnormal => 7 | .PositiveNormal => 8 | .PositiveInfinity => 9

theorem classIdx_classType (d : Datum) : classIdx (classType d) = classOf d := by
  cases d with
  | nan s g p => cases g <;> rfl
  | inf s => cases s <;> rfl
  | fin s c e =>
    unfold classType classOf
    by_cases hc : c = 0
    · simp only [hc, if_true]; cases s <;> rfl
    · simp only [hc, if_false]
      by_cases hn : (ndigits c : Int) + e - 1 ≥ -6143
      · simp only [hn, if_true, decide_true]; cases s <;> rfl
      · simp only [hn, if_false, decide_false]; cases s <;> simp [classIdx]

/-- the biased exponent as `class` extracts it -/
theorem exp_field (w : UInt64) : (Int32.ofInt (toI (w >>> 49 &&& 16383))).toInt = ((w.toNat / 2^49 % 2^14 : Nat) : Int) := by
  have e : (w >>> 49 &&& 16383).toNat = w.toNat / 2^49 % 2^14 := by
    rw [UInt64.toNat_and, UInt64.toNat_shiftRight, show (49 : UInt64).toNat % 64 = 49 from by decide,
      show (16383 : UInt64).toNat = 2^14 - 1 from by decide, Nat.and_two_pow_sub_one_eq_mod, Nat.shiftRight_eq_div_pow]
  rw [toI_u64, e, Int32.toInt_ofInt_of_le (by omega) (by omega)]

theorem i32_lt_lit (a : Int32) (n : Int32) : decide (a < n) = decide (a.toInt < n.toInt) := by
  rw [decide_eq_decide, Int32.lt_iff_toInt_lt]

theorem idx128 (a : Int32) (E : Nat) (ha : a.toInt = E) (h1 : 20 ≤ E) (h2 : E < 2^14) :
    UInt64.ofInt (toI (a - 20)) = UInt64.ofNat (E - 20) := by
  rw [toI_i32, Int32.toInt_sub, ha, show (20 : Int32).toInt = 20 from by decide, bmod32 _ (by omega) (by omega),
    show ((E : Int) - 20) = ((E - 20 : Nat) : Int) from by omega, u64_ofInt_nat]

theorem idx64 (a : Int32) (E : Nat) (ha : a.toInt = E) : UInt64.ofInt (toI a) = UInt64.ofNat E := by
  rw [toI_i32, ha, u64_ofInt_nat]

theorem ten33 : (54210108624275 : UInt64).toNat * 2^64 + (4089650035136921600 : UInt64).toNat = 10^33 := by decide +kernel

theorem ten33_lit : (10 : Nat)^33 = 1000000000000000000000000000000000 := by decide +kernel

theorem eq_zero_of_mul_lt {a M T : Nat} (h : a * M < T) (hT : T ≤ M) : a = 0 := by
  rcases Nat.eq_zero_or_pos a with h' | h'
  · exact h'
  · exfalso
    have : 1 * M ≤ a * M := Nat.mul_le_mul_right _ h'
    omega

theorem lt256_nat (a3 a2 L T M1 M2 : Nat) (hT : T ≤ M1) (hT' : T ≤ M2) :
    ((a3 = 0 ∧ a2 = 0) ∧ L < T) ↔ a3 * M2 + a2 * M1 + L < T := by
  constructor
  · rintro ⟨⟨a, b⟩, c⟩
    subst a; subst b
    simpa only [Nat.zero_mul, Nat.zero_add] using c
  · intro h
    have h3 : a3 = 0 :=
      eq_zero_of_mul_lt (Nat.lt_of_le_of_lt (Nat.le_trans (Nat.le_add_right _ _) (Nat.le_add_right _ _)) h) hT'
    subst h3
    rw [Nat.zero_mul, Nat.zero_add] at h
    have h2 : a2 = 0 := eq_zero_of_mul_lt (Nat.lt_of_le_of_lt (Nat.le_add_right _ _) h) hT
    subst h2
    rw [Nat.zero_mul, Nat.zero_add] at h
    exact ⟨⟨rfl, rfl⟩, h⟩

theorem lt192_nat (a2 L T M1 : Nat) (hT : T ≤ M1) : (a2 = 0 ∧ L < T) ↔ a2 * M1 + L < T := by
  constructor
  · rintro ⟨a, c⟩
    subst a
    simpa only [Nat.zero_mul, Nat.zero_add] using c
  · intro h
    have h2 : a2 = 0 := eq_zero_of_mul_lt (Nat.lt_of_le_of_lt (Nat.le_add_right _ _) h) hT
    subst h2
    rw [Nat.zero_mul, Nat.zero_add] at h
    exact ⟨rfl, h⟩

/-- the 256-bit comparison with 10^33 -/
theorem lt256_test (p : U256) :
    (p.w3 == 0 && p.w2 == 0 && (decide (p.w1 < 54210108624275) || p.w1 == 54210108624275 && decide (p.w0 < 4089650035136921600)))
      = decide (val256 p < 10^33) := by
  rw [lt128, ten33, Bool.eq_iff_iff]
  simp only [Bool.and_eq_true, beq_iff_eq, decide_eq_true_eq, ← UInt64.toNat_inj, UInt64.toNat_zero, val256, Nat.add_assoc]
  rw [← Nat.add_assoc (p.w3.toNat * 2^192)]
  exact lt256_nat _ _ _ _ _ _ (by decide +kernel) (by decide +kernel)

theorem lt192_test (p : U192) :
    (p.w2 == 0 && (decide (p.w1 < 54210108624275) || p.w1 == 54210108624275 && decide (p.w0 < 4089650035136921600)))
      = decide (val192 p < 10^33) := by
  rw [lt128, ten33, Bool.eq_iff_iff]
  simp only [Bool.and_eq_true, beq_iff_eq, decide_eq_true_eq, ← UInt64.toNat_inj, UInt64.toNat_zero, val192, Nat.add_assoc]
  exact lt192_nat _ _ _ _ (by decide +kernel)

-- the products are exact on the largest operands too (no "assuming no carry-out" restriction)
example : (mul_64x64_to_128 0xffffffffffffffff 0xfedcba9876543210).map bitsOf = .ok (0xffffffffffffffff * 0xfedcba9876543210) ∧
    (mul_128x128_to_256 ⟨0xffffffffffffffff, 0xffffffffffffffff⟩ ⟨0xffffffffffffffff, 0xffffffffffffffff⟩).map val256
      = .ok ((2^128 - 1) * (2^128 - 1)) ∧
    (mul_64x128_to_192 0xffffffffffffffff ⟨0xffffffffffffffff, 0xffffffffffffffff⟩).map val192
      = .ok ((2^64 - 1) * (2^128 - 1)) := by decide +kernel

/-- a non-zero coefficient scaled by its biased exponent stays below 10^33 exactly when the datum is subnormal -/
theorem subnormal_iff (C E : Nat) (hC : 0 < C) (hE : E ≤ 33) :
    C * 10^E < 10^33 ↔ ¬ ((ndigits C : Int) + ((E : Int) - 6176) - 1 ≥ -6143) := by
  have h1 : C * 10^E < 10^33 ↔ C < 10^(33 - E) := by
    have : (10:Nat)^33 = 10^(33 - E) * 10^E := by rw [← Nat.pow_add]; congr 1; omega
    rw [this]
    exact Nat.mul_lt_mul_right (Nat.pow_pos (by decide))
  rw [h1, ← ndigits_le_iff hC]
  omega

theorem classType_canon (h l : Nat) (c1 : ¬ h / 2^59 % 16 = 15) (c3 : ¬ h / 2^61 % 4 = 3) (c4 : ¬ P34 ≤ h % 2^49 * 2^64 + l)
    (c2 : ¬ h % 2^49 * 2^64 + l = 0) :
    classType (decodeW h l) =
      if (ndigits (h % 2^49 * 2^64 + l) : Int) + (((h / 2^49 % 2^14 : Nat) : Int) - 6176) - 1 ≥ -6143
      then (if h / 2^63 % 2 = 1 then .NegativeNormal else .PositiveNormal)
      else (if h / 2^63 % 2 = 1 then .NegativeSubnormal else .PositiveSubnormal) := by
  rw [decodeW_canon _ _ c1 c3 c4, classType, if_neg c2]
  by_cases hs : h / 2^63 % 2 = 1 <;> simp only [hs, decide_true, decide_false, if_true, if_false, Bool.false_eq_true]

theorem zero_test (x : U128) :
    (x.w1 &&& 0x1ffffffffffff == 0 && x.w0 == 0) = decide (x.w1.toNat % 2^49 * 2^64 + x.w0.toNat = 0) := by
  rw [zero128, coeff_hi]

theorem decodeW_nan (h l : Nat) (cN : h / 2^58 % 32 = 31) :
    ∃ s p, decodeW h l = .nan s (decide (h / 2^57 % 2 = 1)) p := by
  unfold decodeW
  rw [if_pos (show h / 2^59 % 16 = 15 from by omega), if_neg (show ¬ h / 2^58 % 2 = 0 from by omega)]
  exact ⟨_, _, rfl⟩

theorem decodeW_inf (h l : Nat) (c1 : h / 2^59 % 16 = 15) (cN : ¬ h / 2^58 % 32 = 31) :
    decodeW h l = .inf (decide (h / 2^63 % 2 = 1)) := by
  unfold decodeW
  rw [if_pos c1, if_pos (show h / 2^58 % 2 = 0 from by omega)]

theorem decodeW_zero' (h l : Nat) (c1 : ¬ h / 2^59 % 16 = 15)
    (hz : h / 2^61 % 4 = 3 ∨ P34 ≤ h % 2^49 * 2^64 + l ∨ h % 2^49 * 2^64 + l = 0) :
    ∃ e, decodeW h l = .fin (decide (h / 2^63 % 2 = 1)) 0 e := by
  unfold decodeW
  rw [if_neg c1]
  by_cases c3 : h / 2^61 % 4 = 3
  · rw [if_pos c3]; exact ⟨_, rfl⟩
  · rw [if_neg c3]
    rcases hz with hz | hz | hz
    · exact absurd hz c3
    · rw [if_neg (by omega)]; exact ⟨_, rfl⟩
    · rw [hz]; simp only [P34]; exact ⟨_, rfl⟩

/-- **`bid128_class`** returns the class of the decoded datum (`classType`, the same case analysis as the model's `classOf`):
signalling / quiet NaN, ±infinity, ±zero (including every non-canonical finite encoding), and for a non-zero finite datum
±normal or ±subnormal according to `digits + exp − 1 ≥ −6143`.  Never panics. -/
theorem class_spec (x : U128) : bid128_class x = .ok (classType (decode (bitsOf x))) := by
  unfold bid128_class
  delta c_MASK_NAN c_MASK_SNAN c_MASK_INF c_MASK_SIGN
  simp only [bind, Except.bind, pure, Except.pure, nan_test, snan_test, inf_test, sign_test, steer_test, gt128, zero_test,
    coeff_hi, UInt64.toNat_ofNat, decode_bitsOf, i32_lt_lit, gt_iff_lt, exp_field, lt256_test, lt192_test,
    show Int32.toInt 33 = 33 from by decide, show Int32.toInt 19 = 19 from by decide]
  have hl := x.w0.toNat_lt
  have hh := x.w1.toNat_lt
  by_cases cN : x.w1.toNat / 2^58 % 32 = 31
  · rw [if_pos (by simpa using cN)]
    refine congrArg Except.ok ?_
    obtain ⟨s, p, hd⟩ := decodeW_nan _ x.w0.toNat cN
    rw [hd]
    by_cases cS : x.w1.toNat / 2^57 % 64 = 63
    · rw [if_pos (by simpa using cS), show decide (x.w1.toNat / 2^57 % 2 = 1) = true from by simp; omega]; rfl
    · rw [if_neg (by simpa using cS), show decide (x.w1.toNat / 2^57 % 2 = 1) = false from by simp; omega]; rfl
  rw [if_neg (by simpa using cN)]
  by_cases c1 : x.w1.toNat / 2^59 % 16 = 15
  · rw [if_pos (by simpa using c1)]
    refine congrArg Except.ok ?_
    rw [decodeW_inf _ _ c1 cN]
    by_cases cs : x.w1.toNat / 2^63 % 2 = 1 <;> simp only [cs, decide_true, decide_false, if_true, if_false, Bool.false_eq_true] <;> rfl
  rw [if_neg (by simpa using c1)]
  by_cases cz : x.w1.toNat / 2^61 % 4 = 3 ∨ P34 ≤ x.w1.toNat % 2^49 * 2^64 + x.w0.toNat ∨ x.w1.toNat % 2^49 * 2^64 + x.w0.toNat = 0
  · rw [if_pos (by
      simp only [P34] at cz
      simp only [Bool.or_eq_true, decide_eq_true_eq]; omega)]
    refine congrArg Except.ok ?_
    obtain ⟨e, hd⟩ := decodeW_zero' _ _ c1 cz
    rw [hd]
    by_cases cs : x.w1.toNat / 2^63 % 2 = 1 <;> simp only [cs, decide_true, decide_false, if_true, if_false, Bool.false_eq_true] <;> rfl
  rw [if_neg (by
      simp only [P34] at cz
      simp only [Bool.or_eq_true, decide_eq_true_eq]; omega)]
  have c3 : ¬ x.w1.toNat / 2^61 % 4 = 3 := fun h => cz (Or.inl h)
  have c4 : ¬ P34 ≤ x.w1.toNat % 2^49 * 2^64 + x.w0.toNat := fun h => cz (Or.inr (Or.inl h))
  have c2 : ¬ x.w1.toNat % 2^49 * 2^64 + x.w0.toNat = 0 := fun h => cz (Or.inr (Or.inr h))
  have hC0 : 0 < x.w1.toNat % 2^49 * 2^64 + x.w0.toNat := by omega
  have hsig : bitsOf ({ w0 := x.w0, w1 := x.w1 &&& 562949953421311 } : U128) = x.w1.toNat % 2^49 * 2^64 + x.w0.toNat := by
    unfold bitsOf; rw [coeff_hi]
  have ha := exp_field x.w1
  have hE : x.w1.toNat / 2^49 % 2^14 < 2^14 := Nat.mod_lt _ (by decide)
  rw [classType_canon _ _ c1 c3 c4 c2]
  generalize x.w1.toNat / 2^49 % 2^14 = E at *
  by_cases e33 : E < 33
  · rw [if_pos (by simpa using e33)]
    by_cases e19 : 19 < E
    · rw [if_pos (by simpa using e19)]
      rw [idx128 _ E ha (by omega) hE]
      obtain ⟨v, hv, bv⟩ := ten2k128_get (E - 20) (by omega)
      rw [hv]
      simp only []
      obtain ⟨p, hp, vp⟩ := mul_128x128_to_256_ok { w0 := x.w0, w1 := x.w1 &&& 562949953421311 } v
      rw [hp]
      simp only []
      rw [vp, hsig, bv, show E - 20 + 20 = E from by omega]
      have hsub := subnormal_iff _ E hC0 (by omega)
      by_cases hlt : (x.w1.toNat % 2^49 * 2^64 + x.w0.toNat) * 10^E < 10^33
      · rw [if_pos (by simpa using hlt), if_neg (hsub.1 hlt)]
        by_cases cs : x.w1.toNat / 2^63 % 2 = 1 <;> simp only [cs, decide_true, decide_false, if_true, if_false, Bool.false_eq_true]
      · rw [if_neg (by simpa using hlt), if_pos (Classical.not_not.1 (fun h => hlt (hsub.2 h)))]
        by_cases cs : x.w1.toNat / 2^63 % 2 = 1 <;> simp only [cs, decide_true, decide_false, if_true, if_false, Bool.false_eq_true]
    · rw [if_neg (by simpa using e19)]
      rw [idx64 _ E ha]
      obtain ⟨v, hv, bv⟩ := ten2k64_get E (by omega)
      rw [hv]
      simp only []
      obtain ⟨p, hp, vp⟩ := mul_64x128_to_192_ok v { w0 := x.w0, w1 := x.w1 &&& 562949953421311 }
      rw [hp]
      simp only []
      have vp' : val192 p = (x.w1.toNat % 2^49 * 2^64 + x.w0.toNat) * 10^E := by
        unfold val192; rw [vp, bv, coeff_hi, Nat.mul_comm]
      rw [vp']
      have hsub := subnormal_iff _ E hC0 (by omega)
      by_cases hlt : (x.w1.toNat % 2^49 * 2^64 + x.w0.toNat) * 10^E < 10^33
      · rw [if_pos (by simpa using hlt), if_neg (hsub.1 hlt)]
        by_cases cs : x.w1.toNat / 2^63 % 2 = 1 <;> simp only [cs, decide_true, decide_false, if_true, if_false, Bool.false_eq_true]
      · rw [if_neg (by simpa using hlt), if_pos (Classical.not_not.1 (fun h => hlt (hsub.2 h)))]
        by_cases cs : x.w1.toNat / 2^63 % 2 = 1 <;> simp only [cs, decide_true, decide_false, if_true, if_false, Bool.false_eq_true]
  · rw [if_neg (by simpa using e33)]
    have hn : (ndigits (x.w1.toNat % 2^49 * 2^64 + x.w0.toNat) : Int) + ((E : Int) - 6176) - 1 ≥ -6143 := by
      have := ndigits_pos hC0
      omega
    rw [if_pos hn]
    by_cases cs : x.w1.toNat / 2^63 % 2 = 1 <;> simp only [cs, decide_true, decide_false, if_true, if_false, Bool.false_eq_true]

/-- the class determines every predicate (and conversely): Datum-level consistency of `classType` with the predicates
of the model -/
theorem classType_pred (d : Datum) :
    d.isSNaN = decide (classType d = .SignalingNaN) ∧
    d.isNaN = decide (classType d = .SignalingNaN ∨ classType d = .QuietNaN) ∧
    d.isInf = decide (classType d = .NegativeInfinity ∨ classType d = .PositiveInfinity) ∧
    d.isZero = decide (classType d = .NegativeZero ∨ classType d = .PositiveZero) ∧
    isNormalD d = decide (classType d = .NegativeNormal ∨ classType d = .PositiveNormal) ∧
    isSubnormalD d = decide (classType d = .NegativeSubnormal ∨ classType d = .PositiveSubnormal) ∧
    d.isFin = decide (classType d = .NegativeZero ∨ classType d = .PositiveZero ∨ classType d = .NegativeNormal ∨
      classType d = .PositiveNormal ∨ classType d = .NegativeSubnormal ∨ classType d = .PositiveSubnormal) ∧
    (d.isNaN = false → d.neg = decide (classType d = .NegativeInfinity ∨ classType d = .NegativeNormal ∨
      classType d = .NegativeSubnormal ∨ classType d = .NegativeZero)) := by
  cases d with
  | nan s g p => cases g <;> simp [classType, Datum.isSNaN, Datum.isNaN, Datum.isInf, Datum.isZero, Datum.isFin, isNormalD, isSubnormalD]
  | inf s => cases s <;> simp [classType, Datum.isSNaN, Datum.isNaN, Datum.isInf, Datum.isZero, Datum.isFin, isNormalD, isSubnormalD, Datum.neg]
  | fin s c e =>
    by_cases hc : c = 0
    · cases s <;> simp [classType, hc, Datum.isSNaN, Datum.isNaN, Datum.isInf, Datum.isZero, Datum.isFin, isNormalD, isSubnormalD, Datum.neg]
    · by_cases hn : (ndigits c : Int) + e - 1 ≥ -6143
      · have hn' : ¬ ((ndigits c : Int) + e - 1 < -6143) := by omega
        cases s <;> simp [classType, hc, hn, hn', Datum.isSNaN, Datum.isNaN, Datum.isInf, Datum.isZero, Datum.isFin, isNormalD, isSubnormalD, Datum.neg]
      · have hn' : (ndigits c : Int) + e - 1 < -6143 := by omega
        cases s <;> simp [classType, hc, hn, hn', Datum.isSNaN, Datum.isNaN, Datum.isInf, Datum.isZero, Datum.isFin, isNormalD, isSubnormalD, Datum.neg]

/-- `class` in the numbering of the model (`Dec.classOf`, the discriminants of `d128::ClassTypes`) -/
theorem class_index (x : U128) : ∃ c, bid128_class x = .ok c ∧ classIdx c = classOf (decode (bitsOf x)) :=
  ⟨_, class_spec x, classIdx_classType _⟩

/-- **`class` and the predicates agree**, for every pattern: the class returned (exactly one of the ten) determines the
answers of `is_signaling`, `is_nan`, `is_inf`, `is_zero`, `is_normal`, `is_subnormal`, `is_finite`, and — except for NaNs,
whose class does not record the sign — of `is_signed`. -/
theorem class_consistent (x : U128) : ∃ c, bid128_class x = .ok c ∧
    bid128_is_signaling x = .ok (decide (c = .SignalingNaN)) ∧
    bid128_is_nan x = .ok (decide (c = .SignalingNaN ∨ c = .QuietNaN)) ∧
    bid128_is_inf x = .ok (decide (c = .NegativeInfinity ∨ c = .PositiveInfinity)) ∧
    bid128_is_zero x = .ok (decide (c = .NegativeZero ∨ c = .PositiveZero)) ∧
    bid128_is_normal x = .ok (decide (c = .NegativeNormal ∨ c = .PositiveNormal)) ∧
    bid128_is_subnormal x = .ok (decide (c = .NegativeSubnormal ∨ c = .PositiveSubnormal)) ∧
    bid128_is_finite x = .ok (decide (c = .NegativeZero ∨ c = .PositiveZero ∨ c = .NegativeNormal ∨ c = .PositiveNormal ∨
      c = .NegativeSubnormal ∨ c = .PositiveSubnormal)) ∧
    (c ≠ .SignalingNaN → c ≠ .QuietNaN → bid128_is_signed x = .ok (decide (c = .NegativeInfinity ∨ c = .NegativeNormal ∨
      c = .NegativeSubnormal ∨ c = .NegativeZero))) := by
  obtain ⟨h1, h2, h3, h4, h5, h6, h7, h8⟩ := classType_pred (decode (bitsOf x))
  refine ⟨_, class_spec x, ?_, ?_, ?_, ?_, ?_, ?_, ?_, ?_⟩
  · rw [is_signaling_spec, h1]
  · rw [is_nan_spec, h2]
  · rw [is_inf_spec, h3]
  · rw [is_zero_spec, h4]
  · rw [is_normal_spec, h5]
  · rw [is_subnormal_spec, h6]
  · rw [is_finite_spec, h7]
  · intro n1 n2
    rw [is_signed_spec, h8]
    rw [h2]
    simp only [decide_eq_false_iff_not, not_or]
    exact ⟨n1, n2⟩

-- one pattern of each class: sNaN, qNaN, −Inf, −(10^33)·10^-6176 (smallest normal), −(10^33 − 1)·10^-6176 (largest subnormal),
-- −0 written with a coefficient field of 10^34 (non-canonical), +0 in the large-coefficient form, +1·10^-6176, +1·10^0, +Inf
example : bid128_class ⟨1, 0x7e00000000000000⟩ = .ok .SignalingNaN ∧ bid128_class ⟨1, 0xfc00000000000000⟩ = .ok .QuietNaN ∧
    bid128_class ⟨9, 0xf800000000000000⟩ = .ok .NegativeInfinity ∧
    bid128_class ⟨0x38c15b0a00000000, 0x8000314dc6448d93⟩ = .ok .NegativeNormal ∧
    bid128_class ⟨0x38c15b09ffffffff, 0x8000314dc6448d93⟩ = .ok .NegativeSubnormal ∧
    bid128_class ⟨0x378d8e6400000000, 0x8001ed09bead87c0⟩ = .ok .NegativeZero ∧
    bid128_class ⟨1, 0x6000000000000000⟩ = .ok .PositiveZero ∧
    bid128_class ⟨1, 0x0000000000000000⟩ = .ok .PositiveSubnormal ∧
    bid128_class ⟨1, 0x3040000000000000⟩ = .ok .PositiveNormal ∧
    bid128_class ⟨0, 0x7800000000000000⟩ = .ok .PositiveInfinity := by decide +kernel

-- the two multiplication branches of `class`: biased exponent 25 (128×128 → 256 bits) and 10 (64×128 → 192 bits)
example : bid128_class ⟨99999999, 0x0032000000000000⟩ = .ok .PositiveSubnormal ∧
    bid128_class ⟨100000000, 0x0032000000000000⟩ = .ok .PositiveNormal ∧
    bid128_class ⟨0x02c7e14af67fffff, 0x001400000000152d⟩ = .ok .PositiveSubnormal ∧   -- (10^23 − 1)·10^(10−6176)
    bid128_class ⟨0x02c7e14af6800000, 0x001400000000152d⟩ = .ok .PositiveNormal := by decide +kernel

end Dec.C13GenNoncomp
