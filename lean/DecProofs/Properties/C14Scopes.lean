/-
  C14Scopes — why "every operation is a pure function returning (result, raised)" is a sound view of routines that
  take a mutable status word `*p`.

  A routine body is a program over one mutable word (flags as a bit set, `|||` is union) built from the only kinds of
  access that occur in the library (DecGen/FlagAccess.lean lists every access that is not an OR-write):

    raise bits            *p |= bits
    call f                pass p to a callee that itself is pure in the sense below
    saveRestore body      t = *p; body; *p = t                 (fdim, nextafter)
    saveClearOrBack body  t = *p; *p = 0; body; *p |= t         (fma; the repaired div/scalbn/ldexp/from_string wrappers)
    read                  v = *p; continue depending on v       (fma's and handle_UF_128's `if is_inexact(*p)`)

  `Scoped false body` says: every `read` is inside some `saveClearOrBack`.  Theorem `run_pure`: such a body is `Pure` —
  its result does not depend on the incoming word and its outgoing word is the incoming one OR-ed with what it raises
  from a clear word (this is exactly `Dec.C14.call`).  Inside `saveClearOrBack` the body may read the word and do anything
  with what it sees: it only ever sees a word that started at 0.  A read outside such a scope breaks the property
  (`naked_read_not_pure`; this was defect D4: `handle_UF_128` read the caller's stale inexact flag).
-/
import DecProofs.Properties.C14

namespace Dec.C14Scopes

/-- The property of a routine `f : incoming word → (result, outgoing word)`: the result does not depend on the incoming
word, bits set on entry stay set, and the newly raised bits do not depend on the incoming word. -/
def Pure {ρ : Type} (f : Flags → ρ × Flags) : Prop := ∀ s, f s = ((f 0).1, s ||| (f 0).2)

/-- Routine bodies, in continuation style; `ρ` is the type of (intermediate) results. -/
inductive Prog (ρ : Type) where
  /-- return `r` -/
  | ret (r : ρ)
  /-- `*p |= bits; k` -/
  | raise (bits : Flags) (k : Prog ρ)
  /-- `r = f(…, p); k r` for a callee `f` -/
  | call (f : Flags → ρ × Flags) (k : ρ → Prog ρ)
  /-- `v = *p; k v`: anything may depend on the value read -/
  | read (k : Flags → Prog ρ)
  /-- `t = *p; r = body; *p = t; k r` -/
  | saveRestore (body : Prog ρ) (k : ρ → Prog ρ)
  /-- `t = *p; *p = 0; r = body; *p |= t; k r` -/
  | saveClearOrBack (body : Prog ρ) (k : ρ → Prog ρ)

/-- semantics: result and outgoing word for a given incoming word -/
def run {ρ : Type} : Prog ρ → Flags → ρ × Flags
  | .ret r, s => (r, s)
  | .raise b k, s => run k (s ||| b)
  | .call f k, s => run (k (f s).1) (f s).2
  | .read k, s => run (k s) s
  | .saveRestore body k, s => run (k (run body s).1) s
  | .saveClearOrBack body k, s => run (k (run body 0).1) ((run body 0).2 ||| s)

/-- Scoping discipline. `cleared = true` means "inside a `saveClearOrBack` body". Reads are allowed only there; callees must
be `Pure`. (A `saveRestore` does not license reads: it protects the word, not the result — see `saveRestore_read_leaks`.) -/
def Scoped {ρ : Type} (cleared : Bool) : Prog ρ → Prop
  | .ret _ => True
  | .raise _ k => Scoped cleared k
  | .call f k => Pure f ∧ ∀ r, Scoped cleared (k r)
  | .read k => cleared = true ∧ ∀ v, Scoped cleared (k v)
  | .saveRestore body k => Scoped cleared body ∧ ∀ r, Scoped cleared (k r)
  | .saveClearOrBack body k => Scoped true body ∧ ∀ r, Scoped cleared (k r)

/-- **OR-form for well-scoped bodies.** If every read of the status word happens inside a save-clear-OR-back scope and every
callee is pure, the routine is pure: for every incoming word `s`, the result is the one obtained from a clear word and the
outgoing word is `s ||| (what the routine raises from a clear word)`. No hypothesis is needed about what the body does with
the values it reads inside a cleared scope. -/
theorem run_pure {ρ : Type} (p : Prog ρ) (h : Scoped false p) : Pure (run p) := by
  induction p with
  | ret r => intro s; simp [run]
  | raise b k ih =>
    intro s
    simp only [run]
    rw [ih h (s ||| b), ih h (0 ||| b), Nat.zero_or, Nat.or_assoc]
  | call f k ih =>
    obtain ⟨hf, hk⟩ := h
    intro s
    simp only [run]
    rw [hf s]
    simp only
    rw [ih _ (hk _) (s ||| (f 0).2), ih _ (hk _) (f 0).2, Nat.or_assoc]
  | read k ih => exact absurd h.1 (by decide)
  | saveRestore body k ihb ihk =>
    obtain ⟨hb, hk⟩ := h
    intro s
    simp only [run]
    rw [ihb hb s]
    simp only
    rw [ihk _ (hk _) s]
  | saveClearOrBack body k ihb ihk =>
    obtain ⟨-, hk⟩ := h
    intro s
    simp only [run]
    rw [ihk _ (hk _) ((run body 0).2 ||| s), ihk _ (hk _) ((run body 0).2 ||| 0), Nat.or_zero,
      Nat.or_comm (run body 0).2 s, Nat.or_assoc]

/-- The conclusion is exactly the API-call form used in C14: `run body s = call s (model outcome)`, where the model outcome
`(result, raised)` is the body run from a clear word. -/
theorem run_eq_call {ρ : Type} (p : Prog ρ) (h : Scoped false p) (s : Flags) :
    run p s = Dec.C14.call s (run p 0) := run_pure p h s

/-- bits set on entry stay set -/
theorem run_mono {ρ : Type} (p : Prog ρ) (h : Scoped false p) (s : Flags) (i : Nat) (hs : s.testBit i = true) :
    (run p s).2.testBit i = true := by
  rw [run_eq_call p h s]; exact Dec.C14.call_mono s _ i hs

/-- The theorem is compositional: a well-scoped routine may itself be used as a callee. -/
theorem scoped_call_of_scoped {ρ : Type} (callee : Prog ρ) (h : Scoped false callee) (k : ρ → Prog ρ)
    (hk : ∀ r, Scoped false (k r)) : Scoped false (.call (run callee) k) := ⟨run_pure callee h, hk⟩

/-! ### the defect (D4) and its repair, in miniature -/

/-- `handle_UF_128`: `if is_inexact(*p) { *p |= UNDERFLOW }` — meant to look at the inexact flag raised by the current
operation's own rounding. -/
def handleUF : Prog Unit :=
  .read (fun w => if w &&& fInexact ≠ 0 then .raise fUnderflow (.ret ()) else .ret ())

/-- a tiny-result path of a routine such as div: raise inexact iff the own rounding was inexact, then `handle_UF_128` -/
def tinyPath (ownInexact : Bool) : Prog Unit :=
  if ownInexact then .raise fInexact handleUF else handleUF

/-- as shipped (defect D4): the read sees the caller's word -/
def divDefect (ownInexact : Bool) : Prog Unit := tinyPath ownInexact

/-- repaired: `t = *p; *p = 0; …; *p |= t` around the same body -/
def divRepaired (ownInexact : Bool) : Prog Unit := .saveClearOrBack (tinyPath ownInexact) (fun _ => .ret ())

/-- **A naked read breaks the OR-form**: with inexact already set by an earlier operation, an exact tiny result raises
underflow, which it does not from a clear word. -/
theorem naked_read_not_pure : ¬ Pure (run (divDefect false)) := by
  intro h
  have := h fInexact
  revert this
  decide

/-- the concrete misbehaviour: stale inexact in, spurious underflow out; from a clear word nothing is raised -/
example : run (divDefect false) fInexact = ((), fInexact ||| fUnderflow) ∧ run (divDefect false) 0 = ((), 0) := by decide

/-- the repaired wrapper is well scoped (the read is inside the cleared scope) … -/
theorem divRepaired_scoped (b : Bool) : Scoped false (divRepaired b) := by
  refine ⟨?_, fun _ => trivial⟩
  have hUF : Scoped true handleUF := by
    refine ⟨rfl, fun v => ?_⟩
    by_cases hv : v &&& fInexact ≠ 0 <;> simp [hv, Scoped]
  cases b
  · exact hUF
  · exact hUF

/-- … hence pure, although its body reads the word and branches on it: underflow is raised iff the operation's own
rounding was inexact, whatever the caller's word contains. -/
theorem divRepaired_pure (b : Bool) : Pure (run (divRepaired b)) := run_pure _ (divRepaired_scoped b)

example (s : Flags) : run (divRepaired true) s = ((), s ||| (fInexact ||| fUnderflow)) := by
  rw [divRepaired_pure true s]; rfl

example (s : Flags) : run (divRepaired false) s = ((), s) := by
  have h0 : run (divRepaired false) 0 = ((), 0) := by decide
  rw [divRepaired_pure false s, h0, Nat.or_zero]

/-- A read inside a mere `saveRestore` keeps the *word* in OR-form (the scope's effects are discarded) but leaks the incoming
word into the *result*; this is why `Scoped` licenses reads only in cleared scopes. -/
theorem saveRestore_read_leaks : ¬ Pure (run (Prog.saveRestore (.read (fun w => .ret w)) (fun r => .ret r))) := by
  intro h
  have := h 1
  revert this
  decide

/-- non-vacuity of `run_pure` on a body using every constructor: fma-like (`saveClearOrBack` with a read inside), an
fdim-like `saveRestore` around a pure callee, and a plain raise. -/
example : ∃ p : Prog Nat, Scoped false p ∧ run p 0x08 = (7, 0x08 ||| 0x31) ∧ run p 0 = (7, 0x31) := by
  refine ⟨.saveClearOrBack (.raise 0x20 (.read (fun w => if w &&& 0x20 ≠ 0 then .raise 0x10 (.ret 3) else .ret 4)))
      (fun r => .saveRestore (.call (fun s => (r + 1, s ||| 0x04)) (fun r' => .ret r'))
        (fun r' => .raise 0x01 (.ret (r + r')))), ?_, by decide, by decide⟩
  refine ⟨⟨rfl, fun v => ?_⟩, fun r => ⟨⟨fun s => by simp, fun _ => trivial⟩, fun _ => trivial⟩⟩
  by_cases hv : v &&& 0x20 ≠ 0 <;> simp [hv, Scoped]

end Dec.C14Scopes
