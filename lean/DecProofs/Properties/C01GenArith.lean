/-
  C01 (bridge) — the multi-word integer primitives of the machine-translated source `DecGen/Code.lean`
  (`Dec.Gen.Code.shr_128`, `add_128_128`, `mul_64x64_to_128`, `mul_128x128_to_256`, `mul_256x256_to_512`, …: the 40
  routines at the end of /repo/src/bid_internal.rs, regenerated from the Rust on every run) tied to the word-level
  model `DecModel/ArithHelpers.lean` (`Dec.AH.*`) and, through `DecProofs/Properties/C01ArithHelpers.lean`, to plain
  integer arithmetic.

  For every routine there is
  * a BRIDGE theorem `<routine>_bridge`: for ALL arguments the translated routine returns `.ok r` (it never panics) and
    the words of `r`, through `UInt64.toNat`, are exactly the model's result on the `toNat` words
    (`n128 r = AH.<routine> …`; `n128`, `n192`, … map a `Dec.Rs.U128` … to the model's `Dec.AH.U128` … word by word);
  * one or more `gen_<routine>` corollaries in integer form (`r.toNat' = a.toNat * b.toNat`, …), stated for clients
    that reason about the translated callers; `x.toNat'` is the integer `w0 + 2^64·w1 + …` of a `Dec.Rs.U128/U192/…`.

  The routines that are not what their name says on part of their input space (see the header of
  `C01ArithHelpers.lean`: `shr_128`/`shr_128_long`/`shl_128_long` at `k = 0` and outside their count range, `shr_256`,
  `sub_256_128_to_256`, `mul_64x256_to_256`, `mul_128x128_high/full`, `mul_64x64_to_128_fast`) get the same exact
  characterisations here, with the domains stated as hypotheses.  Nothing is left as `_partial`.
-/
import DecGen.Code
import DecProofs.Properties.C01ArithHelpers

/-! ### integers of the prelude's word structures -/

/-- the integer `w0 + 2^64·w1` -/
def Dec.Rs.U128.toNat' (x : Dec.Rs.U128) : Nat := x.w0.toNat + 2 ^ 64 * x.w1.toNat
/-- the integer `w0 + 2^64·w1 + 2^128·w2` (for `U384`, `U512` the powers above 2^256 are written as products, Lean's
elaborator does not evaluate exponents above 256 by default) -/
def Dec.Rs.U192.toNat' (x : Dec.Rs.U192) : Nat := x.w0.toNat + 2 ^ 64 * x.w1.toNat + 2 ^ 128 * x.w2.toNat
def Dec.Rs.U256.toNat' (x : Dec.Rs.U256) : Nat :=
  x.w0.toNat + 2 ^ 64 * x.w1.toNat + 2 ^ 128 * x.w2.toNat + 2 ^ 192 * x.w3.toNat
def Dec.Rs.U384.toNat' (x : Dec.Rs.U384) : Nat :=
  x.w0.toNat + 2 ^ 64 * x.w1.toNat + 2 ^ 128 * x.w2.toNat + 2 ^ 192 * x.w3.toNat + 2 ^ 256 * x.w4.toNat
    + 2 ^ 256 * 2 ^ 64 * x.w5.toNat
def Dec.Rs.U512.toNat' (x : Dec.Rs.U512) : Nat :=
  x.w0.toNat + 2 ^ 64 * x.w1.toNat + 2 ^ 128 * x.w2.toNat + 2 ^ 192 * x.w3.toNat + 2 ^ 256 * x.w4.toNat
    + 2 ^ 256 * 2 ^ 64 * x.w5.toNat + 2 ^ 256 * 2 ^ 128 * x.w6.toNat + 2 ^ 256 * 2 ^ 192 * x.w7.toNat

namespace Dec.C01GenArith
open Dec.Rs (toI)
open Dec.Gen
open Dec.C01ArithHelpers

/-- 2^64 -/
local notation "W" => (18446744073709551616 : Nat)

/-! ### from the prelude's structures to the model's -/

/-- a `Dec.Rs.U128` as the model's `Dec.AH.U128`, word by word -/
abbrev n128 (x : Rs.U128) : AH.U128 := ⟨x.w0.toNat, x.w1.toNat⟩
abbrev n192 (x : Rs.U192) : AH.U192 := ⟨x.w0.toNat, x.w1.toNat, x.w2.toNat⟩
abbrev n256 (x : Rs.U256) : AH.U256 := ⟨x.w0.toNat, x.w1.toNat, x.w2.toNat, x.w3.toNat⟩
abbrev n384 (x : Rs.U384) : AH.U384 := ⟨x.w0.toNat, x.w1.toNat, x.w2.toNat, x.w3.toNat, x.w4.toNat, x.w5.toNat⟩
abbrev n512 (x : Rs.U512) : AH.U512 :=
  ⟨x.w0.toNat, x.w1.toNat, x.w2.toNat, x.w3.toNat, x.w4.toNat, x.w5.toNat, x.w6.toNat, x.w7.toNat⟩

theorem n128_w0 (x : Rs.U128) : (n128 x).w0 = x.w0.toNat := rfl
theorem n128_w1 (x : Rs.U128) : (n128 x).w1 = x.w1.toNat := rfl
theorem n192_w0 (x : Rs.U192) : (n192 x).w0 = x.w0.toNat := rfl
theorem n192_w1 (x : Rs.U192) : (n192 x).w1 = x.w1.toNat := rfl
theorem n192_w2 (x : Rs.U192) : (n192 x).w2 = x.w2.toNat := rfl
theorem n256_w0 (x : Rs.U256) : (n256 x).w0 = x.w0.toNat := rfl
theorem n256_w1 (x : Rs.U256) : (n256 x).w1 = x.w1.toNat := rfl
theorem n256_w2 (x : Rs.U256) : (n256 x).w2 = x.w2.toNat := rfl
theorem n256_w3 (x : Rs.U256) : (n256 x).w3 = x.w3.toNat := rfl
theorem n384_w0 (x : Rs.U384) : (n384 x).w0 = x.w0.toNat := rfl
theorem n384_w1 (x : Rs.U384) : (n384 x).w1 = x.w1.toNat := rfl
theorem n384_w2 (x : Rs.U384) : (n384 x).w2 = x.w2.toNat := rfl
theorem n384_w3 (x : Rs.U384) : (n384 x).w3 = x.w3.toNat := rfl
theorem n384_w4 (x : Rs.U384) : (n384 x).w4 = x.w4.toNat := rfl
theorem n384_w5 (x : Rs.U384) : (n384 x).w5 = x.w5.toNat := rfl
theorem n512_w0 (x : Rs.U512) : (n512 x).w0 = x.w0.toNat := rfl
theorem n512_w1 (x : Rs.U512) : (n512 x).w1 = x.w1.toNat := rfl
theorem n512_w2 (x : Rs.U512) : (n512 x).w2 = x.w2.toNat := rfl
theorem n512_w3 (x : Rs.U512) : (n512 x).w3 = x.w3.toNat := rfl
theorem n512_w4 (x : Rs.U512) : (n512 x).w4 = x.w4.toNat := rfl
theorem n512_w5 (x : Rs.U512) : (n512 x).w5 = x.w5.toNat := rfl
theorem n512_w6 (x : Rs.U512) : (n512 x).w6 = x.w6.toNat := rfl
theorem n512_w7 (x : Rs.U512) : (n512 x).w7 = x.w7.toNat := rfl

theorem lt_W (x : UInt64) : x.toNat < W := x.toNat_lt
theorem n128_wf (x : Rs.U128) : (n128 x).wf := ⟨lt_W _, lt_W _⟩
theorem n192_wf (x : Rs.U192) : (n192 x).wf := ⟨lt_W _, lt_W _, lt_W _⟩
theorem n256_wf (x : Rs.U256) : (n256 x).wf := ⟨lt_W _, lt_W _, lt_W _, lt_W _⟩
theorem n384_wf (x : Rs.U384) : (n384 x).wf := ⟨lt_W _, lt_W _, lt_W _, lt_W _, lt_W _, lt_W _⟩
theorem n512_wf (x : Rs.U512) : (n512 x).wf := ⟨lt_W _, lt_W _, lt_W _, lt_W _, lt_W _, lt_W _, lt_W _, lt_W _⟩

theorem n128_val (x : Rs.U128) : (n128 x).val = x.toNat' := rfl
theorem n192_val (x : Rs.U192) : (n192 x).val = x.toNat' := rfl
theorem n256_val (x : Rs.U256) : (n256 x).val = x.toNat' := rfl
theorem n384_val (x : Rs.U384) : (n384 x).val = x.toNat' := by
  simp only [AH.U384.val, Rs.U384.toNat']; norm_num
theorem n512_val (x : Rs.U512) : (n512 x).val = x.toNat' := by
  simp only [AH.U512.val, Rs.U512.toNat']; norm_num

theorem toNat'_lt128 (x : Rs.U128) : x.toNat' < 2 ^ 128 := by
  have := U128.val_lt (n128_wf x); rw [n128_val] at this; omega

/-! ### `UInt64` / `Int32` operations as the model's word operations -/

theorem tn_add (a b : UInt64) : (a + b).toNat = AH.add64 a.toNat b.toNat := by
  rw [UInt64.toNat_add]; rfl
theorem tn_mul (a b : UInt64) : (a * b).toNat = AH.mul64 a.toNat b.toNat := by
  rw [UInt64.toNat_mul]; rfl
theorem tn_sub (a b : UInt64) : (a - b).toNat = AH.sub64 a.toNat b.toNat := by
  rw [UInt64.toNat_sub]; simp only [AH.sub64]
  have := a.toNat_lt; have := b.toNat_lt
  omega
theorem tn_shr (a b : UInt64) : (a >>> b).toNat = AH.shr64 a.toNat b.toNat := by
  rw [UInt64.toNat_shiftRight, Nat.shiftRight_eq_div_pow]; rfl
theorem tn_shl (a b : UInt64) : (a <<< b).toNat = AH.shl64 a.toNat b.toNat := by
  rw [UInt64.toNat_shiftLeft, Nat.shiftLeft_eq]; rfl
theorem tn_or (a b : UInt64) : (a ||| b).toNat = a.toNat ||| b.toNat := UInt64.toNat_or a b
theorem toNat_ofInt64 (i : Int) : (UInt64.ofInt i).toNat = (i % 18446744073709551616).toNat := by
  simp only [UInt64.ofInt, UInt64.toNat_ofNat']
  omega
theorem toNat_ofInt32 (i : Int) : (UInt32.ofInt i).toNat = (i % 4294967296).toNat := by
  simp only [UInt32.ofInt, UInt32.toNat_ofNat']
  omega
theorem toI_u64 (x : UInt64) : toI x = (x.toNat : Int) := rfl
theorem toI_u32 (x : UInt32) : toI x = (x.toNat : Int) := rfl
theorem toI_i32 (x : Int32) : toI x = x.toInt := rfl
/-- `(x as u32) as u64` -/
theorem tn_lo32 (x : UInt64) : (UInt64.ofInt (toI (UInt32.ofInt (toI x)))).toNat = AH.lo32 x.toNat := by
  simp only [toI_u64, toI_u32, toNat_ofInt64, toNat_ofInt32, AH.lo32]
  omega
theorem tn_32 : (0x20 : UInt64).toNat = 32 := rfl
theorem tn_63 : (0x3f : UInt64).toNat = 63 := rfl
theorem tn_ite (c : Prop) [Decidable c] (a b : UInt64) :
    (if c then a else b).toNat = if c then a.toNat else b.toNat := by
  split <;> rfl
theorem dec_lt (a b : UInt64) : decide (a < b) = decide (a.toNat < b.toNat) := by
  simp only [UInt64.lt_iff_toNat_lt]
theorem dec_le (a b : UInt64) : decide (a ≤ b) = decide (a.toNat ≤ b.toNat) := by
  simp only [UInt64.le_iff_toNat_le]
theorem beq_u64 (a b : UInt64) : (a == b) = decide (a.toNat = b.toNat) := by
  simp only [UInt64.toNat_inj, Bool.beq_eq_decide_eq]

/-- a `u64` shift by `k as u64` (`k : i32`) uses the model's `shamt k` -/
theorem shr_cast (x : Nat) (k : Int32) : AH.shr64 x (UInt64.ofInt (toI k)).toNat = AH.shr64 x (AH.shamt k.toInt) := by
  have h : (UInt64.ofInt (toI k)).toNat % 64 = AH.shamt k.toInt % 64 := by
    simp only [toI_i32, toNat_ofInt64, AH.shamt]; omega
  simp only [AH.shr64, h]
theorem shl_cast (x : Nat) (k : Int32) : AH.shl64 x (UInt64.ofInt (toI k)).toNat = AH.shl64 x (AH.shamt k.toInt) := by
  have h : (UInt64.ofInt (toI k)).toNat % 64 = AH.shamt k.toInt % 64 := by
    simp only [toI_i32, toNat_ofInt64, AH.shamt]; omega
  simp only [AH.shl64, h]
/-- `i32` subtraction is the model's wrapped subtraction -/
theorem i32_sub (a b : Int32) : (a - b).toInt = AH.i32w (a.toInt - b.toInt) := by
  rw [Int32.toInt_sub]
  simp only [AH.i32w, Int.bmod]
  split <;> omega
theorem i32_64 : (0x40 : Int32).toInt = 64 := by decide
theorem dec_lt_i32 (a b : Int32) : decide (a < b) = decide (a.toInt < b.toInt) := by
  simp only [Int32.lt_iff_toInt_lt]

theorem dflt256_w2 : (default : Rs.U256).w2 = 0 := rfl
theorem dflt256_w3 : (default : Rs.U256).w3 = 0 := rfl
theorem dflt512_w5 : (default : Rs.U512).w5 = 0 := rfl
theorem dflt512_w6 : (default : Rs.U512).w6 = 0 := rfl
theorem dflt512_w7 : (default : Rs.U512).w7 = 0 := rfl

/-! ### Bridges: carries and borrows -/

theorem add_carry_out_bridge (x y : UInt64) :
    ∃ r, Code.add_carry_out x y = .ok r ∧ (r.1.toNat, r.2.toNat) = AH.addCarryOut x.toNat y.toNat := by
  refine ⟨_, rfl, ?_⟩
  simp only [AH.addCarryOut, tn_add, tn_ite, dec_lt, decide_eq_true_eq, UInt64.toNat_one, UInt64.toNat_zero]

theorem add_carry_in_out_bridge (x y ci : UInt64) :
    ∃ r, Code.add_carry_in_out x y ci = .ok r
      ∧ (r.1.toNat, r.2.toNat) = AH.addCarryInOut x.toNat y.toNat ci.toNat := by
  refine ⟨_, rfl, ?_⟩
  simp only [AH.addCarryInOut, tn_add, tn_ite, dec_lt, UInt64.toNat_one, UInt64.toNat_zero]

theorem sub_borrow_out_bridge (x y : UInt64) :
    ∃ r, Code.sub_borrow_out x y = .ok r ∧ (r.1.toNat, r.2.toNat) = AH.subBorrowOut x.toNat y.toNat := by
  refine ⟨_, rfl, ?_⟩
  simp only [AH.subBorrowOut, tn_sub, tn_ite, dec_lt, gt_iff_lt, decide_eq_true_eq, UInt64.toNat_one,
    UInt64.toNat_zero]

theorem sub_borrow_in_out_bridge (x y ci : UInt64) :
    ∃ r, Code.sub_borrow_in_out x y ci = .ok r
      ∧ (r.1.toNat, r.2.toNat) = AH.subBorrowInOut x.toNat y.toNat ci.toNat := by
  refine ⟨_, rfl, ?_⟩
  simp only [AH.subBorrowInOut, tn_sub, tn_ite, dec_lt, gt_iff_lt, UInt64.toNat_one, UInt64.toNat_zero]

/-! ### Bridges: 128-bit add / subtract / compare -/

theorem add_128_64_bridge (A : Rs.U128) (b : UInt64) :
    ∃ r, Code.add_128_64 A b = .ok r ∧ n128 r = AH.add128_64 (n128 A) b.toNat := by
  simp only [Code.add_128_64]
  split
  all_goals
    rename_i h
    refine ⟨_, rfl, ?_⟩
    simp only [decide_eq_true_eq, UInt64.lt_iff_toNat_lt, tn_add] at h
    simp only [n128, AH.add128_64, tn_add, UInt64.toNat_one, h, ↓reduceIte]

theorem sub_128_64_bridge (A : Rs.U128) (b : UInt64) :
    ∃ r, Code.sub_128_64 A b = .ok r ∧ n128 r = AH.sub128_64 (n128 A) b.toNat := by
  simp only [Code.sub_128_64]
  split
  all_goals
    rename_i h
    refine ⟨_, rfl, ?_⟩
    simp only [decide_eq_true_eq, UInt64.lt_iff_toNat_lt] at h
    simp only [n128, AH.sub128_64, tn_sub, UInt64.toNat_one, h, ↓reduceIte]

theorem add_128_128_bridge (A B : Rs.U128) :
    ∃ r, Code.add_128_128 A B = .ok r ∧ n128 r = AH.add128_128 (n128 A) (n128 B) := by
  simp only [Code.add_128_128]
  split
  all_goals
    rename_i h
    refine ⟨_, rfl, ?_⟩
    simp only [decide_eq_true_eq, UInt64.lt_iff_toNat_lt, tn_add] at h
    simp only [n128, AH.add128_128, tn_add, UInt64.toNat_one, h, ↓reduceIte]

theorem sub_128_128_bridge (A B : Rs.U128) :
    ∃ r, Code.sub_128_128 A B = .ok r ∧ n128 r = AH.sub128_128 (n128 A) (n128 B) := by
  simp only [Code.sub_128_128]
  split
  all_goals
    rename_i h
    refine ⟨_, rfl, ?_⟩
    simp only [decide_eq_true_eq, UInt64.lt_iff_toNat_lt] at h
    simp only [n128, AH.sub128_128, tn_sub, UInt64.toNat_one, h, ↓reduceIte]

theorem sub_256_128_to_256_bridge (A : Rs.U256) (B : Rs.U128) :
    ∃ r, Code.sub_256_128_to_256 A B = .ok r ∧ n256 r = AH.sub256_128to256 (n256 A) (n128 B) := by
  simp only [Code.sub_256_128_to_256]
  split
  all_goals
    rename_i h
    refine ⟨_, rfl, ?_⟩
    simp only [decide_eq_true_eq, UInt64.lt_iff_toNat_lt] at h
    simp only [n256, AH.sub256_128to256, tn_sub, UInt64.toNat_one, h, ↓reduceIte, dflt256_w2, dflt256_w3,
      UInt64.toNat_zero]

/-- `__unsigned_compare_gt_128` returns the model's Boolean -/
theorem unsigned_compare_gt_128_bridge (A B : Rs.U128) :
    Code.unsigned_compare_gt_128 A B = .ok (AH.compareGt128 (n128 A) (n128 B)) := by
  simp only [Code.unsigned_compare_gt_128, AH.compareGt128, pure, Except.pure, dec_lt, beq_u64, gt_iff_lt]

theorem unsigned_compare_ge_128_bridge (A B : Rs.U128) :
    Code.unsigned_compare_ge_128 A B = .ok (AH.compareGe128 (n128 A) (n128 B)) := by
  simp only [Code.unsigned_compare_ge_128, AH.compareGe128, pure, Except.pure, dec_lt, dec_le, beq_u64, gt_iff_lt,
    ge_iff_le]

theorem test_equal_128_bridge (A B : Rs.U128) :
    Code.test_equal_128 A B = .ok (AH.testEqual128 (n128 A) (n128 B)) := by
  simp only [Code.test_equal_128, AH.testEqual128, pure, Except.pure, beq_u64]

/-! ### Bridges: shifts -/

theorem shr_128_bridge (A : Rs.U128) (k : Int32) :
    ∃ r, Code.shr_128 A k = .ok r ∧ n128 r = AH.shr128 (n128 A) k.toInt := by
  refine ⟨_, rfl, ?_⟩
  simp only [n128, AH.shr128, tn_shr, tn_shl, tn_or, shr_cast, shl_cast, i32_sub, i32_64]

theorem shr_256_bridge (A : Rs.U256) (k : Int32) :
    ∃ r, Code.shr_256 A k = .ok r ∧ n256 r = AH.shr256 (n256 A) k.toInt := by
  refine ⟨_, rfl, ?_⟩
  simp only [n256, AH.shr256, tn_shr, tn_shl, tn_or, shr_cast, shl_cast, i32_sub, i32_64, dflt256_w2, dflt256_w3,
    UInt64.toNat_zero]

theorem shr_128_long_bridge (A : Rs.U128) (k : Int32) :
    ∃ r, Code.shr_128_long A k = .ok r ∧ n128 r = AH.shr128Long (n128 A) k.toInt := by
  simp only [Code.shr_128_long]
  split
  all_goals
    rename_i h
    refine ⟨_, rfl, ?_⟩
    simp only [decide_eq_true_eq, Int32.lt_iff_toInt_lt, i32_64] at h
    simp only [n128, AH.shr128Long, tn_shr, tn_shl, tn_or, shr_cast, shl_cast, i32_sub, i32_64, h, ↓reduceIte,
      UInt64.toNat_zero]

theorem shl_128_long_bridge (A : Rs.U128) (k : Int32) :
    ∃ r, Code.shl_128_long A k = .ok r ∧ n128 r = AH.shl128Long (n128 A) k.toInt := by
  simp only [Code.shl_128_long]
  split
  all_goals
    rename_i h
    refine ⟨_, rfl, ?_⟩
    simp only [decide_eq_true_eq, Int32.lt_iff_toInt_lt, i32_64] at h
    simp only [n128, AH.shl128Long, tn_shr, tn_shl, tn_or, shr_cast, shl_cast, i32_sub, i32_64, h, ↓reduceIte,
      UInt64.toNat_zero]

/-! ### Bridges: 64×64 multiplies -/

theorem mul_64x64_to_64_bridge (a b : UInt64) :
    ∃ r, Code.mul_64x64_to_64 a b = .ok r ∧ r.toNat = AH.mul64x64to64 a.toNat b.toNat := by
  refine ⟨_, rfl, ?_⟩
  simp only [AH.mul64x64to64, tn_mul]

theorem mul_64x64_to_128_bridge (a b : UInt64) :
    ∃ r, Code.mul_64x64_to_128 a b = .ok r ∧ n128 r = AH.mul64x64to128 a.toNat b.toNat := by
  refine ⟨_, rfl, ?_⟩
  simp only [n128, AH.mul64x64to128, tn_add, tn_mul, tn_shr, tn_shl, tn_lo32, tn_32]

theorem mul_64x64_to_128_full_bridge (a b : UInt64) :
    ∃ r, Code.mul_64x64_to_128_full a b = .ok r ∧ n128 r = AH.mul64x64to128Full a.toNat b.toNat := by
  refine ⟨_, rfl, ?_⟩
  simp only [n128, AH.mul64x64to128Full, tn_add, tn_mul, tn_shr, tn_shl, tn_lo32, tn_32]

theorem mul_64x64_to_128MACH_bridge (a b : UInt64) :
    ∃ r, Code.mul_64x64_to_128MACH a b = .ok r ∧ n128 r = AH.mul64x64to128MACH a.toNat b.toNat := by
  refine ⟨_, rfl, ?_⟩
  simp only [n128, AH.mul64x64to128MACH, tn_add, tn_mul, tn_shr, tn_shl, tn_lo32, tn_32]

theorem mul_64x64_to_128HIGH_bridge (a b : UInt64) :
    ∃ r, Code.mul_64x64_to_128HIGH a b = .ok r ∧ r.toNat = AH.mul64x64to128HIGH a.toNat b.toNat := by
  refine ⟨_, rfl, ?_⟩
  simp only [AH.mul64x64to128HIGH, tn_add, tn_mul, tn_shr, tn_lo32, tn_32]

theorem mul_64x64_to_128_fast_bridge (a b : UInt64) :
    ∃ r, Code.mul_64x64_to_128_fast a b = .ok r ∧ n128 r = AH.mul64x64to128Fast a.toNat b.toNat := by
  refine ⟨_, rfl, ?_⟩
  simp only [n128, AH.mul64x64to128Fast, tn_add, tn_mul, tn_shr, tn_shl, tn_lo32, tn_32]

/-! ### Bridges: multi-word multiplies

Each proof takes the bridges of the sub-calls in program order (`h_i : sub-call = .ok r_i`, `e_i : n r_i = model`),
runs the `do` block with the `h_i`, and folds the unfolded model with the `e_i` read right to left. -/

/-- projections of the conversions and of pairs, and the word operations, as one simp set -/
local macro "fold_model" "[" ls:Lean.Parser.Tactic.simpLemma,* "]" : tactic =>
  `(tactic| (simp only [n128_w0, n128_w1, n192_w0, n192_w1, n192_w2, n256_w0, n256_w1, n256_w2, n256_w3,
      n512_w0, n512_w1, n512_w2, n512_w3, n512_w4, $ls,*] <;>
    try simp only [n128, n192, n256, n384, n512, tn_add, tn_mul, tn_shr, tn_or, tn_63, UInt64.toNat_zero]))

open Lean in
/-- run the `do` block of a translated routine with the results `h_i : sub-call = .ok r_i` of its sub-calls, in program
order, one rewrite at a time (one big `simp` produces a proof the kernel is slow to check) -/
local macro "run_do " f:ident " [" hs:term,* "]" : tactic => do
  let steps ← hs.getElems.mapM fun h => `(tactic| (rw [$h:term]; try dsimp only))
  `(tactic| (unfold $f; simp only [bind, Except.bind]; $[$steps];*; try rfl))

theorem mul_64x128_full_bridge (a : UInt64) (B : Rs.U128) :
    ∃ r, Code.mul_64x128_full a B = .ok r ∧ (r.1.toNat, n128 r.2) = AH.mul64x128Full a.toNat (n128 B) := by
  obtain ⟨r1, h1, e1⟩ := mul_64x64_to_128_bridge a B.w1
  obtain ⟨r2, h2, e2⟩ := mul_64x64_to_128_bridge a B.w0
  obtain ⟨r3, h3, e3⟩ := add_128_64_bridge r1 r2.w1
  refine ⟨_, by run_do Code.mul_64x128_full [h1, h2, h3], ?_⟩
  fold_model [AH.mul64x128Full, ← e1, ← e2, ← e3]

theorem mul_64x128_low_bridge (a : UInt64) (B : Rs.U128) :
    ∃ r, Code.mul_64x128_low a B = .ok r ∧ n128 r = AH.mul64x128Low a.toNat (n128 B) := by
  obtain ⟨r1, h1, e1⟩ := mul_64x64_to_128_bridge a B.w1
  obtain ⟨r2, h2, e2⟩ := mul_64x64_to_128_bridge a B.w0
  obtain ⟨r3, h3, e3⟩ := add_128_64_bridge r1 r2.w1
  refine ⟨_, by run_do Code.mul_64x128_low [h1, h2, h3], ?_⟩
  fold_model [AH.mul64x128Low, ← e1, ← e2, ← e3]

theorem mul_64x128_to_128_bridge (a : UInt64) (B : Rs.U128) :
    ∃ r, Code.mul_64x128_to_128 a B = .ok r ∧ n128 r = AH.mul64x128to128 a.toNat (n128 B) := by
  obtain ⟨r1, h1, e1⟩ := mul_64x64_to_128_bridge a B.w1
  obtain ⟨r2, h2, e2⟩ := mul_64x64_to_128_bridge a B.w0
  obtain ⟨r3, h3, e3⟩ := add_128_64_bridge r1 r2.w1
  refine ⟨_, by run_do Code.mul_64x128_to_128 [h1, h2, h3], ?_⟩
  fold_model [AH.mul64x128to128, ← e1, ← e2, ← e3]

theorem mul_64x128_to_192_bridge (a : UInt64) (B : Rs.U128) :
    ∃ r, Code.mul_64x128_to_192 a B = .ok r ∧ n192 r = AH.mul64x128to_192 a.toNat (n128 B) := by
  obtain ⟨r1, h1, e1⟩ := mul_64x64_to_128_bridge a B.w1
  obtain ⟨r2, h2, e2⟩ := mul_64x64_to_128_bridge a B.w0
  obtain ⟨r3, h3, e3⟩ := add_128_64_bridge r1 r2.w1
  refine ⟨_, by run_do Code.mul_64x128_to_192 [h1, h2, h3], ?_⟩
  fold_model [AH.mul64x128to_192, ← e1, ← e2, ← e3]

theorem mul_64x128_to192_bridge (a : UInt64) (B : Rs.U128) :
    ∃ r, Code.mul_64x128_to192 a B = .ok r ∧ n192 r = AH.mul64x128to192 a.toNat (n128 B) := by
  obtain ⟨r1, h1, e1⟩ := mul_64x64_to_128_bridge a B.w1
  obtain ⟨r2, h2, e2⟩ := mul_64x64_to_128_bridge a B.w0
  obtain ⟨r3, h3, e3⟩ := add_128_64_bridge r1 r2.w1
  refine ⟨_, by run_do Code.mul_64x128_to192 [h1, h2, h3], ?_⟩
  fold_model [AH.mul64x128to192, ← e1, ← e2, ← e3]

theorem mul_64x128_to_256_bridge (a : UInt64) (B : Rs.U128) :
    ∃ r, Code.mul_64x128_to_256 a B = .ok r ∧ n256 r = AH.mul64x128to256 a.toNat (n128 B) := by
  obtain ⟨r1, h1, e1⟩ := mul_64x64_to_128_bridge a B.w1
  obtain ⟨r2, h2, e2⟩ := mul_64x64_to_128_bridge a B.w0
  obtain ⟨r3, h3, e3⟩ := add_128_64_bridge r1 r2.w1
  refine ⟨_, by run_do Code.mul_64x128_to_256 [h1, h2, h3], ?_⟩
  fold_model [AH.mul64x128to256, ← e1, ← e2, ← e3, dflt256_w3, UInt64.toNat_zero]

theorem mul_64x128_short_bridge (a : UInt64) (B : Rs.U128) :
    ∃ r, Code.mul_64x128_short a B = .ok r ∧ n128 r = AH.mul64x128Short a.toNat (n128 B) := by
  obtain ⟨r1, h1, e1⟩ := mul_64x64_to_64_bridge a B.w1
  obtain ⟨r2, h2, e2⟩ := mul_64x64_to_128_bridge a B.w0
  refine ⟨_, by run_do Code.mul_64x128_short [h1, h2], ?_⟩
  fold_model [AH.mul64x128Short, ← e1, ← e2]

theorem mul_128x64_to_128_bridge (a : UInt64) (B : Rs.U128) :
    ∃ r, Code.mul_128x64_to_128 a B = .ok r ∧ n128 r = AH.mul128x64to128 a.toNat (n128 B) := by
  obtain ⟨r2, h2, e2⟩ := mul_64x64_to_128MACH_bridge a B.w0
  refine ⟨_, by run_do Code.mul_128x64_to_128 [h2], ?_⟩
  fold_model [AH.mul128x64to128, ← e2]

theorem mul_128x128_low_bridge (A B : Rs.U128) :
    ∃ r, Code.mul_128x128_low A B = .ok r ∧ n128 r = AH.mul128x128Low (n128 A) (n128 B) := by
  obtain ⟨r1, h1, e1⟩ := mul_64x64_to_128_bridge A.w0 B.w0
  refine ⟨_, by run_do Code.mul_128x128_low [h1], ?_⟩
  fold_model [AH.mul128x128Low, ← e1]

theorem mul_128x128_full_bridge (A B : Rs.U128) :
    ∃ r, Code.mul_128x128_full A B = .ok r ∧ (n128 r.1, n128 r.2) = AH.mul128x128Full (n128 A) (n128 B) := by
  obtain ⟨r1, h1, e1⟩ := mul_64x64_to_128_bridge A.w0 B.w1
  obtain ⟨r2, h2, e2⟩ := mul_64x64_to_128_bridge B.w0 A.w1
  obtain ⟨r3, h3, e3⟩ := mul_64x64_to_128_bridge A.w0 B.w0
  obtain ⟨r4, h4, e4⟩ := mul_64x64_to_128_bridge A.w1 B.w1
  obtain ⟨r5, h5, e5⟩ := add_128_128_bridge r1 r2
  obtain ⟨r6, h6, e6⟩ := add_128_64_bridge r5 r3.w1
  obtain ⟨r7, h7, e7⟩ := add_128_64_bridge r4 r6.w1
  refine ⟨_, by run_do Code.mul_128x128_full [h1, h2, h3, h4, h5, h6, h7], ?_⟩
  fold_model [AH.mul128x128Full, ← e1, ← e2, ← e3, ← e4, ← e5, ← e6, ← e7]

theorem mul_128x128_high_bridge (A B : Rs.U128) :
    ∃ r, Code.mul_128x128_high A B = .ok r ∧ n128 r = AH.mul128x128High (n128 A) (n128 B) := by
  obtain ⟨r1, h1, e1⟩ := mul_64x64_to_128_bridge A.w0 B.w1
  obtain ⟨r2, h2, e2⟩ := mul_64x64_to_128_bridge B.w0 A.w1
  obtain ⟨r3, h3, e3⟩ := mul_64x64_to_128_bridge A.w0 B.w0
  obtain ⟨r4, h4, e4⟩ := mul_64x64_to_128_bridge A.w1 B.w1
  obtain ⟨r5, h5, e5⟩ := add_128_128_bridge r1 r2
  obtain ⟨r6, h6, e6⟩ := add_128_64_bridge r5 r3.w1
  obtain ⟨r7, h7, e7⟩ := add_128_64_bridge r4 r6.w1
  refine ⟨_, by run_do Code.mul_128x128_high [h1, h2, h3, h4, h5, h6, h7], ?_⟩
  fold_model [AH.mul128x128High, ← e1, ← e2, ← e3, ← e4, ← e5, ← e6, ← e7]

theorem mul_128x128_to_256_bridge (A B : Rs.U128) :
    ∃ r, Code.mul_128x128_to_256 A B = .ok r ∧ n256 r = AH.mul128x128to256 (n128 A) (n128 B) := by
  obtain ⟨L, h1, e1⟩ := mul_64x128_full_bridge A.w0 B
  obtain ⟨H, h2, e2⟩ := mul_64x128_full_bridge A.w1 B
  obtain ⟨r3, h3, e3⟩ := add_carry_out_bridge H.2.w0 L.2.w1
  obtain ⟨r4, h4, e4⟩ := add_carry_in_out_bridge H.2.w1 L.1 r3.2
  refine ⟨_, by run_do Code.mul_128x128_to_256 [h1, h2, h3, h4], ?_⟩
  fold_model [AH.mul128x128to256, ← e1, ← e2, ← e3, ← e4]

theorem mul_64x192_to_256_bridge (a : UInt64) (B : Rs.U192) :
    ∃ r, Code.mul_64x192_to_256 a B = .ok r ∧ n256 r = AH.mul64x192to256 a.toNat (n192 B) := by
  obtain ⟨p0, h0, e0⟩ := mul_64x64_to_128_bridge a B.w0
  obtain ⟨p1, h1, e1⟩ := mul_64x64_to_128_bridge a B.w1
  obtain ⟨p2, h2, e2⟩ := mul_64x64_to_128_bridge a B.w2
  obtain ⟨r3, h3, e3⟩ := add_carry_out_bridge p1.w0 p0.w1
  obtain ⟨r4, h4, e4⟩ := add_carry_in_out_bridge p2.w0 p1.w1 r3.2
  refine ⟨_, by run_do Code.mul_64x192_to_256 [h0, h1, h2, h3, h4], ?_⟩
  fold_model [AH.mul64x192to256, ← e0, ← e1, ← e2, ← e3, ← e4]

theorem mul_64x256_to_256_bridge (a : UInt64) (B : Rs.U256) :
    ∃ r, Code.mul_64x256_to_256 a B = .ok r ∧ n256 r = AH.mul64x256to256 a.toNat (n256 B) := by
  obtain ⟨p0, h0, e0⟩ := mul_64x64_to_128_bridge a B.w0
  obtain ⟨p1, h1, e1⟩ := mul_64x64_to_128_bridge a B.w1
  obtain ⟨p2, h2, e2⟩ := mul_64x64_to_128_bridge a B.w2
  obtain ⟨r3, h3, e3⟩ := add_carry_out_bridge p1.w0 p0.w1
  obtain ⟨r4, h4, e4⟩ := add_carry_in_out_bridge p2.w0 p1.w1 r3.2
  refine ⟨_, by run_do Code.mul_64x256_to_256 [h0, h1, h2, h3, h4], ?_⟩
  fold_model [AH.mul64x256to256, ← e0, ← e1, ← e2, ← e3, ← e4]

theorem mul_64x256_to_320_bridge (a : UInt64) (B : Rs.U256) :
    ∃ r, Code.mul_64x256_to_320 a B = .ok r ∧ n512 r = AH.mul64x256to320 a.toNat (n256 B) := by
  obtain ⟨p0, h0, e0⟩ := mul_64x64_to_128_bridge a B.w0
  obtain ⟨p1, h1, e1⟩ := mul_64x64_to_128_bridge a B.w1
  obtain ⟨p2, h2, e2⟩ := mul_64x64_to_128_bridge a B.w2
  obtain ⟨p3, h3, e3⟩ := mul_64x64_to_128_bridge a B.w3
  obtain ⟨r4, h4, e4⟩ := add_carry_out_bridge p1.w0 p0.w1
  obtain ⟨r5, h5, e5⟩ := add_carry_in_out_bridge p2.w0 p1.w1 r4.2
  obtain ⟨r6, h6, e6⟩ := add_carry_in_out_bridge p3.w0 p2.w1 r5.2
  refine ⟨_, by run_do Code.mul_64x256_to_320 [h0, h1, h2, h3, h4, h5, h6], ?_⟩
  fold_model [AH.mul64x256to320, ← e0, ← e1, ← e2, ← e3, ← e4, ← e5, ← e6, dflt512_w5, dflt512_w6, dflt512_w7,
    UInt64.toNat_zero]

theorem mul_192x192_to_384_bridge (A B : Rs.U192) :
    ∃ r, Code.mul_192x192_to_384 A B = .ok r ∧ n384 r = AH.mul192x192to384 (n192 A) (n192 B) := by
  obtain ⟨P0, h0, e0⟩ := mul_64x192_to_256_bridge A.w0 B
  obtain ⟨P1, h1, e1⟩ := mul_64x192_to_256_bridge A.w1 B
  obtain ⟨P2, h2, e2⟩ := mul_64x192_to_256_bridge A.w2 B
  obtain ⟨a1, ha1, ea1⟩ := add_carry_out_bridge P1.w0 P0.w1
  obtain ⟨a2, ha2, ea2⟩ := add_carry_in_out_bridge P1.w1 P0.w2 a1.2
  obtain ⟨a3, ha3, ea3⟩ := add_carry_in_out_bridge P1.w2 P0.w3 a2.2
  obtain ⟨b2, hb2, eb2⟩ := add_carry_out_bridge P2.w0 a2.1
  obtain ⟨b3, hb3, eb3⟩ := add_carry_in_out_bridge P2.w1 a3.1 b2.2
  obtain ⟨b4, hb4, eb4⟩ := add_carry_in_out_bridge P2.w2 (P1.w3 + a3.2) b3.2
  refine ⟨_, by run_do Code.mul_192x192_to_384 [h0, h1, h2, ha1, ha2, ha3, hb2, hb3, hb4],
    ?_⟩
  simp only [tn_add] at eb4
  fold_model [AH.mul192x192to384, ← e0, ← e1, ← e2, ← ea1, ← ea2, ← ea3, ← eb2, ← eb3, ← eb4]

theorem sqr128_to_256_bridge (P : Rs.U256) (A : Rs.U128) :
    ∃ r, Code.sqr128_to_256 P A = .ok r ∧ n256 r = AH.sqr128to256 (n128 A) := by
  obtain ⟨Qhh, h1, e1⟩ := mul_64x64_to_128_bridge A.w1 A.w1
  obtain ⟨Qlh, h2, e2⟩ := mul_64x64_to_128_bridge A.w0 A.w1
  obtain ⟨Qll, h3, e3⟩ := mul_64x64_to_128_bridge A.w0 A.w0
  obtain ⟨r4, h4, e4⟩ := add_carry_out_bridge (Qlh.w0 + Qlh.w0) Qll.w1
  obtain ⟨r5, h5, e5⟩ := add_carry_in_out_bridge ((Qlh.w1 + Qlh.w1) ||| (Qlh.w0 >>> 0x3f)) Qhh.w0 r4.2
  refine ⟨_, by run_do Code.sqr128_to_256 [h1, h2, h3, h4, h5], ?_⟩
  simp only [tn_add, tn_or, tn_shr, tn_63] at e4 e5
  fold_model [AH.sqr128to256, ← e1, ← e2, ← e3, ← e4, ← e5]

theorem mul_256x256_to_512_bridge (A B : Rs.U256) :
    ∃ r, Code.mul_256x256_to_512 A B = .ok r ∧ n512 r = AH.mul256x256to512 (n256 A) (n256 B) := by
  obtain ⟨P0, h0, e0⟩ := mul_64x256_to_320_bridge A.w0 B
  obtain ⟨P1, h1, e1⟩ := mul_64x256_to_320_bridge A.w1 B
  obtain ⟨P2, h2, e2⟩ := mul_64x256_to_320_bridge A.w2 B
  obtain ⟨P3, h3, e3⟩ := mul_64x256_to_320_bridge A.w3 B
  obtain ⟨a1, ha1, ea1⟩ := add_carry_out_bridge P1.w0 P0.w1
  obtain ⟨a2, ha2, ea2⟩ := add_carry_in_out_bridge P1.w1 P0.w2 a1.2
  obtain ⟨a3, ha3, ea3⟩ := add_carry_in_out_bridge P1.w2 P0.w3 a2.2
  obtain ⟨a4, ha4, ea4⟩ := add_carry_in_out_bridge P1.w3 P0.w4 a3.2
  obtain ⟨b2, hb2, eb2⟩ := add_carry_out_bridge P2.w0 a2.1
  obtain ⟨b3, hb3, eb3⟩ := add_carry_in_out_bridge P2.w1 a3.1 b2.2
  obtain ⟨b4, hb4, eb4⟩ := add_carry_in_out_bridge P2.w2 a4.1 b3.2
  obtain ⟨b5, hb5, eb5⟩ := add_carry_in_out_bridge P2.w3 (P1.w4 + a4.2) b4.2
  obtain ⟨c3, hc3, ec3⟩ := add_carry_out_bridge P3.w0 b3.1
  obtain ⟨c4, hc4, ec4⟩ := add_carry_in_out_bridge P3.w1 b4.1 c3.2
  obtain ⟨c5, hc5, ec5⟩ := add_carry_in_out_bridge P3.w2 b5.1 c4.2
  obtain ⟨c6, hc6, ec6⟩ := add_carry_in_out_bridge P3.w3 (P2.w4 + b5.2) c5.2
  refine ⟨_, by run_do Code.mul_256x256_to_512 [h0, h1, h2, h3, ha1, ha2, ha3, ha4, hb2, hb3, hb4, hb5, hc3, hc4, hc5, hc6], ?_⟩
  simp only [tn_add] at eb5 ec6
  fold_model [AH.mul256x256to512, ← e0, ← e1, ← e2, ← e3, ← ea1, ← ea2, ← ea3, ← ea4, ← eb2, ← eb3, ← eb4, ← eb5,
    ← ec3, ← ec4, ← ec5, ← ec6]

/-! ### Integer-level corollaries (`gen_*`): what the translated routines compute, for clients

All for ALL argument words unless a hypothesis says otherwise; every routine returns `.ok` (never panics). -/

theorem W2 : (18446744073709551616 * 18446744073709551616 : Nat) = 2 ^ 128 := by norm_num
theorem W1 : (18446744073709551616 : Nat) = 2 ^ 64 := by norm_num

/-! #### carries -/

/-- `__add_carry_out`: `S + 2^64·CY = X + Y`, `CY ≤ 1`. -/
theorem gen_add_carry_out (x y : UInt64) :
    ∃ r, Code.add_carry_out x y = .ok r ∧ r.1.toNat + 2 ^ 64 * r.2.toNat = x.toNat + y.toNat ∧ r.2.toNat ≤ 1 := by
  obtain ⟨r, h, e⟩ := add_carry_out_bridge x y
  obtain ⟨s1, -, s3⟩ := addCarryOut_spec (lt_W x) (lt_W y)
  rw [← e] at s1 s3
  exact ⟨r, h, by simpa only [W1] using s1, s3⟩
example : Code.add_carry_out 0xffffffffffffffff 2 = .ok (1, 1) := by decide

/-- `__add_carry_in_out` with a carry-in that is 0 or 1 (every call site): `S + 2^64·CY = X + Y + CI`, `CY ≤ 1`. -/
theorem gen_add_carry_in_out (x y ci : UInt64) (hci : ci.toNat ≤ 1) :
    ∃ r, Code.add_carry_in_out x y ci = .ok r
      ∧ r.1.toNat + 2 ^ 64 * r.2.toNat = x.toNat + y.toNat + ci.toNat ∧ r.2.toNat ≤ 1 := by
  obtain ⟨r, h, e⟩ := add_carry_in_out_bridge x y ci
  have hx := lt_W x; have hy := lt_W y
  obtain ⟨s1, -, s3⟩ := addCarryInOut_spec hx hy (lt_W ci) (by omega)
  rw [← e] at s1 s3
  exact ⟨r, h, by simpa only [W1] using s1, s3⟩
example : Code.add_carry_in_out 0xffffffffffffffff 0xffffffffffffffff 1 = .ok (0xffffffffffffffff, 1) := by decide

/-- `__sub_borrow_out`: `X − Y = S − 2^64·CY` (written without subtraction), `CY ≤ 1`. -/
theorem gen_sub_borrow_out (x y : UInt64) :
    ∃ r, Code.sub_borrow_out x y = .ok r ∧ r.1.toNat + y.toNat = x.toNat + 2 ^ 64 * r.2.toNat ∧ r.2.toNat ≤ 1 := by
  obtain ⟨r, h, e⟩ := sub_borrow_out_bridge x y
  obtain ⟨s1, -, s3⟩ := subBorrowOut_spec (lt_W x) (lt_W y)
  rw [← e] at s1 s3
  exact ⟨r, h, by simpa only [W1] using s1, s3⟩
example : Code.sub_borrow_out 1 2 = .ok (0xffffffffffffffff, 1) := by decide

/-- `__sub_borrow_in_out` with a borrow-in that is 0 or 1: `X − Y − CI = S − 2^64·CY`, `CY ≤ 1`. -/
theorem gen_sub_borrow_in_out (x y ci : UInt64) (hci : ci.toNat ≤ 1) :
    ∃ r, Code.sub_borrow_in_out x y ci = .ok r
      ∧ r.1.toNat + y.toNat + ci.toNat = x.toNat + 2 ^ 64 * r.2.toNat ∧ r.2.toNat ≤ 1 := by
  obtain ⟨r, h, e⟩ := sub_borrow_in_out_bridge x y ci
  have hy := lt_W y
  obtain ⟨s1, -, s3⟩ := subBorrowInOut_spec (lt_W x) hy (lt_W ci) (by omega)
  rw [← e] at s1 s3
  exact ⟨r, h, by simpa only [W1] using s1, s3⟩
example : Code.sub_borrow_in_out 0 0xffffffffffffffff 1 = .ok (0, 1) := by decide

/-! #### 128-bit add / subtract / compare -/

/-- `__add_128_64`: `(A + b) mod 2^128`. -/
theorem gen_add_128_64 (A : Rs.U128) (b : UInt64) :
    ∃ r, Code.add_128_64 A b = .ok r ∧ r.toNat' = (A.toNat' + b.toNat) % 2 ^ 128 := by
  obtain ⟨r, h, e⟩ := add_128_64_bridge A b
  have s := (add128_64_spec (A := n128 A) (lt_W _) (lt_W _) (lt_W b)).1
  rw [← e, n128_val, n128_val, W2] at s
  exact ⟨r, h, s⟩
example : Code.add_128_64 ⟨0xffffffffffffffff, 7⟩ 3 = .ok ⟨2, 8⟩ := by decide

/-- `__sub_128_64`: `(A − b) mod 2^128`. -/
theorem gen_sub_128_64 (A : Rs.U128) (b : UInt64) :
    ∃ r, Code.sub_128_64 A b = .ok r ∧ r.toNat' = (A.toNat' + 2 ^ 128 - b.toNat) % 2 ^ 128 := by
  obtain ⟨r, h, e⟩ := sub_128_64_bridge A b
  have s := (sub128_64_spec (A := n128 A) (lt_W _) (lt_W _) (lt_W b)).1
  rw [← e, n128_val, n128_val, W2] at s
  exact ⟨r, h, s⟩
example : Code.sub_128_64 ⟨2, 8⟩ 3 = .ok ⟨0xffffffffffffffff, 7⟩ := by decide

/-- `__add_128_128`: `(A + B) mod 2^128` (the carry out of bit 127 is dropped). -/
theorem gen_add_128_128 (A B : Rs.U128) :
    ∃ r, Code.add_128_128 A B = .ok r ∧ r.toNat' = (A.toNat' + B.toNat') % 2 ^ 128 := by
  obtain ⟨r, h, e⟩ := add_128_128_bridge A B
  have s := (add128_128_spec (A := n128 A) (B := n128 B) (lt_W _) (lt_W _) (lt_W _) (lt_W _)).1
  rw [← e, n128_val, n128_val, n128_val, W2] at s
  exact ⟨r, h, s⟩
/-- … so the sum itself when it fits 128 bits -/
theorem gen_add_128_128_exact (A B : Rs.U128) (hfit : A.toNat' + B.toNat' < 2 ^ 128) :
    ∃ r, Code.add_128_128 A B = .ok r ∧ r.toNat' = A.toNat' + B.toNat' := by
  obtain ⟨r, h, e⟩ := gen_add_128_128 A B
  exact ⟨r, h, by rw [e, Nat.mod_eq_of_lt hfit]⟩
example : Code.add_128_128 ⟨0xffffffffffffffff, 0xffffffffffffffff⟩ ⟨2, 0⟩ = .ok ⟨1, 0⟩ := by decide

/-- `__sub_128_128`: `(A − B) mod 2^128`. -/
theorem gen_sub_128_128 (A B : Rs.U128) :
    ∃ r, Code.sub_128_128 A B = .ok r ∧ r.toNat' = (A.toNat' + 2 ^ 128 - B.toNat') % 2 ^ 128 := by
  obtain ⟨r, h, e⟩ := sub_128_128_bridge A B
  have s := (sub128_128_spec (A := n128 A) (B := n128 B) (lt_W _) (lt_W _) (lt_W _) (lt_W _)).1
  rw [← e, n128_val, n128_val, n128_val, W2] at s
  exact ⟨r, h, s⟩
/-- … so the difference itself when `B ≤ A` -/
theorem gen_sub_128_128_exact (A B : Rs.U128) (hle : B.toNat' ≤ A.toNat') :
    ∃ r, Code.sub_128_128 A B = .ok r ∧ r.toNat' = A.toNat' - B.toNat' := by
  obtain ⟨r, h, e⟩ := gen_sub_128_128 A B
  have := toNat'_lt128 A
  exact ⟨r, h, by rw [e]; omega⟩
example : Code.sub_128_128 ⟨1, 5⟩ ⟨2, 1⟩ = .ok ⟨0xffffffffffffffff, 3⟩ := by decide

/-- `__sub_256_128_to_256`: only the two low words of `A` take part, `r.w2 = r.w3 = 0`; words 0–1 are
`((A mod 2^128) − B) mod 2^128`. -/
theorem gen_sub_256_128_to_256 (A : Rs.U256) (B : Rs.U128) :
    ∃ r, Code.sub_256_128_to_256 A B = .ok r ∧ r.w2 = 0 ∧ r.w3 = 0
      ∧ r.w0.toNat + 2 ^ 64 * r.w1.toNat = (A.w0.toNat + 2 ^ 64 * A.w1.toNat + 2 ^ 128 - B.toNat') % 2 ^ 128 := by
  obtain ⟨r, h, e⟩ := sub_256_128_to_256_bridge A B
  obtain ⟨r', h', e'⟩ := gen_sub_128_128 ⟨A.w0, A.w1⟩ B
  rw [sub256_128to256_eq] at e
  have e0 : r.w0.toNat = _ := congrArg AH.U256.w0 e
  have e1 : r.w1.toNat = _ := congrArg AH.U256.w1 e
  have e2 : r.w2.toNat = 0 := congrArg AH.U256.w2 e
  have e3 : r.w3.toNat = 0 := congrArg AH.U256.w3 e
  obtain ⟨r'', h'', e''⟩ := sub_128_128_bridge ⟨A.w0, A.w1⟩ B
  rw [h'] at h''; cases h''
  have f0 : r'.w0.toNat = _ := congrArg AH.U128.w0 e''
  have f1 : r'.w1.toNat = _ := congrArg AH.U128.w1 e''
  refine ⟨r, h, UInt64.toNat_inj.1 e2, UInt64.toNat_inj.1 e3, ?_⟩
  have g0 : r.w0.toNat = r'.w0.toNat := e0.trans f0.symm
  have g1 : r.w1.toNat = r'.w1.toNat := e1.trans f1.symm
  rw [g0, g1]; exact e'
example : Code.sub_256_128_to_256 ⟨5, 0, 1, 0⟩ ⟨1, 0⟩ = .ok ⟨4, 0, 0, 0⟩ := by decide

/-- `__unsigned_compare_gt_128` decides `A > B` on the integers. -/
theorem gen_unsigned_compare_gt_128 (A B : Rs.U128) :
    Code.unsigned_compare_gt_128 A B = .ok (decide (A.toNat' > B.toNat')) := by
  rw [unsigned_compare_gt_128_bridge]
  congr 1
  rw [Bool.eq_iff_iff, compareGt128_iff (n128_wf A) (n128_wf B), n128_val, n128_val, decide_eq_true_eq]
example : Code.unsigned_compare_gt_128 ⟨0, 2⟩ ⟨0xffffffffffffffff, 1⟩ = .ok true := by decide

/-- `__unsigned_compare_ge_128` decides `A ≥ B` on the integers. -/
theorem gen_unsigned_compare_ge_128 (A B : Rs.U128) :
    Code.unsigned_compare_ge_128 A B = .ok (decide (A.toNat' ≥ B.toNat')) := by
  rw [unsigned_compare_ge_128_bridge]
  congr 1
  rw [Bool.eq_iff_iff, compareGe128_iff (n128_wf A) (n128_wf B), n128_val, n128_val, decide_eq_true_eq]
example : Code.unsigned_compare_ge_128 ⟨5, 2⟩ ⟨5, 2⟩ = .ok true := by decide

/-- `__test_equal_128` decides `A = B` (on the integers, hence on the words). -/
theorem gen_test_equal_128 (A B : Rs.U128) :
    Code.test_equal_128 A B = .ok (decide (A.toNat' = B.toNat')) := by
  rw [test_equal_128_bridge]
  congr 1
  rw [Bool.eq_iff_iff, testEqual128_iff (n128_wf A) (n128_wf B), n128_val, n128_val, decide_eq_true_eq]
example : Code.test_equal_128 ⟨5, 2⟩ ⟨5, 3⟩ = .ok false := by decide

/-- two word pairs stand for the same integer only if they are the same pair -/
theorem toNat'_inj128 {A B : Rs.U128} (h : A.toNat' = B.toNat') : A = B := by
  have a0 := lt_W A.w0; have b0 := lt_W B.w0
  simp only [Rs.U128.toNat'] at h
  have h0 : A.w0.toNat = B.w0.toNat := by omega
  have h1 : A.w1.toNat = B.w1.toNat := by omega
  cases A; cases B
  simp only [Rs.U128.mk.injEq]
  exact ⟨UInt64.toNat_inj.1 h0, UInt64.toNat_inj.1 h1⟩

/-! #### shifts (counts are `i32`; the routines shift only on the stated count ranges, see `C01ArithHelpers`) -/

/-- `__shr_128` for `1 ≤ k ≤ 63`: `⌊A / 2^k⌋`. -/
theorem gen_shr_128 (A : Rs.U128) (k : Int32) (hk1 : 1 ≤ k.toInt) (hk : k.toInt ≤ 63) :
    ∃ r, Code.shr_128 A k = .ok r ∧ r.toNat' = A.toNat' / 2 ^ k.toInt.toNat := by
  obtain ⟨r, h, e⟩ := shr_128_bridge A k
  have s := (shr128_spec (n128_wf A) hk1 hk).1
  rw [← e, n128_val, n128_val] at s
  exact ⟨r, h, s⟩
example : Code.shr_128 ⟨0x123456789abcdef0, 0xfedcba9876543210⟩ 4 = .ok ⟨0x0123456789abcdef, 0x0fedcba987654321⟩ := by
  decide
/-- at `k = 0` the high word is ORed into the low word: NOT the identity (same for the `k < 64` branch of the `_long`
routines) -/
theorem gen_shr_128_zero (A : Rs.U128) : Code.shr_128 A 0 = .ok ⟨A.w0 ||| A.w1, A.w1⟩ := by
  obtain ⟨r, h, e⟩ := shr_128_bridge A 0
  have z : (0 : Int32).toInt = 0 := by decide
  rw [z, shr128_zero (n128_wf A)] at e
  rw [h]; congr 1
  have e0 : r.w0.toNat = (A.w0 ||| A.w1).toNat := by rw [tn_or]; exact congrArg AH.U128.w0 e
  have e1 : r.w1.toNat = A.w1.toNat := congrArg AH.U128.w1 e
  cases r
  simp only [Rs.U128.mk.injEq]
  exact ⟨UInt64.toNat_inj.1 e0, UInt64.toNat_inj.1 e1⟩
example : Code.shr_128 ⟨0, 1⟩ 0 = .ok ⟨1, 1⟩ := by decide

/-- `__shr_256` for `1 ≤ k ≤ 63`: only the two low words of `A` are shifted, `r.w2 = r.w3 = 0`; word 0 is word 0 of the
true 256-bit shift. -/
theorem gen_shr_256 (A : Rs.U256) (k : Int32) (hk1 : 1 ≤ k.toInt) (hk : k.toInt ≤ 63) :
    ∃ r, Code.shr_256 A k = .ok r ∧ r.w2 = 0 ∧ r.w3 = 0
      ∧ r.w0.toNat + 2 ^ 64 * r.w1.toNat = (A.toNat' % 2 ^ 128) / 2 ^ k.toInt.toNat
      ∧ r.w0.toNat = (A.toNat' / 2 ^ k.toInt.toNat) % 2 ^ 64 := by
  obtain ⟨r, h, e⟩ := shr_256_bridge A k
  obtain ⟨s1, s2, -, -, s5, s6⟩ := shr256_spec (n256_wf A) hk1 hk
  rw [← e] at s1 s2 s5 s6
  rw [n256_val, n256_val, W2] at s1
  rw [n256_val] at s2
  have z2 : r.w2.toNat = 0 := s5
  have z3 : r.w3.toNat = 0 := s6
  refine ⟨r, h, UInt64.toNat_inj.1 z2, UInt64.toNat_inj.1 z3, ?_, by rw [← W1]; exact s2⟩
  rw [← s1]
  simp only [Rs.U256.toNat', z2, z3, Nat.mul_zero, Nat.add_zero]
example : Code.shr_256 ⟨0x123456789abcdef0, 0xfedcba9876543210, 0xf, 0⟩ 4
    = .ok ⟨0x0123456789abcdef, 0x0fedcba987654321, 0, 0⟩ := by decide

/-- `__shr_128_long` for `1 ≤ k ≤ 127`: `⌊A / 2^k⌋`. -/
theorem gen_shr_128_long (A : Rs.U128) (k : Int32) (hk1 : 1 ≤ k.toInt) (hk : k.toInt ≤ 127) :
    ∃ r, Code.shr_128_long A k = .ok r ∧ r.toNat' = A.toNat' / 2 ^ k.toInt.toNat := by
  obtain ⟨r, h, e⟩ := shr_128_long_bridge A k
  have s := (shr128Long_spec (n128_wf A) hk1 hk).1
  rw [← e, n128_val, n128_val] at s
  exact ⟨r, h, s⟩
example : Code.shr_128_long ⟨0x123456789abcdef0, 0xfedcba9876543210⟩ 100 = .ok ⟨0xfedcba9, 0⟩ := by decide

/-- `__shl_128_long` for `1 ≤ k ≤ 127`: `A·2^k mod 2^128`. -/
theorem gen_shl_128_long (A : Rs.U128) (k : Int32) (hk1 : 1 ≤ k.toInt) (hk : k.toInt ≤ 127) :
    ∃ r, Code.shl_128_long A k = .ok r ∧ r.toNat' = (A.toNat' * 2 ^ k.toInt.toNat) % 2 ^ 128 := by
  obtain ⟨r, h, e⟩ := shl_128_long_bridge A k
  have s := (shl128Long_spec (n128_wf A) hk1 hk).1
  rw [← e, n128_val, n128_val, W2] at s
  exact ⟨r, h, s⟩
example : Code.shl_128_long ⟨0x123456789abcdef0, 0xfedcba9876543210⟩ 100 = .ok ⟨0, 0xabcdef0000000000⟩ := by decide

/-! #### 64×64 -/

/-- `__mul_64x64_to_64`: the product modulo 2^64. -/
theorem gen_mul_64x64_to_64 (a b : UInt64) : Code.mul_64x64_to_64 a b = .ok (a * b) := rfl

/-- `__mul_64x64_to_128`: the exact 128-bit product. -/
theorem gen_mul_64x64_to_128 (a b : UInt64) :
    ∃ r, Code.mul_64x64_to_128 a b = .ok r ∧ r.toNat' = a.toNat * b.toNat := by
  obtain ⟨r, h, e⟩ := mul_64x64_to_128_bridge a b
  have s := (mul64x64to128_spec (lt_W a) (lt_W b)).1
  rw [← e, n128_val] at s
  exact ⟨r, h, s⟩
example : Code.mul_64x64_to_128 0xffffffffffffffff 0xffffffffffffffff = .ok ⟨1, 0xfffffffffffffffe⟩ := by decide

/-- its two words separately -/
theorem gen_mul_64x64_to_128_words (a b : UInt64) :
    ∃ r, Code.mul_64x64_to_128 a b = .ok r ∧ r.w0.toNat = (a.toNat * b.toNat) % 2 ^ 64
      ∧ r.w1.toNat = (a.toNat * b.toNat) / 2 ^ 64 := by
  obtain ⟨r, h, e⟩ := mul_64x64_to_128_bridge a b
  obtain ⟨s0, s1⟩ := mul64_core (lt_W a) (lt_W b)
  rw [← e] at s0 s1
  exact ⟨r, h, by rw [← W1]; exact s0, by rw [← W1]; exact s1⟩

theorem gen_mul_64x64_to_128_full (a b : UInt64) :
    ∃ r, Code.mul_64x64_to_128_full a b = .ok r ∧ r.toNat' = a.toNat * b.toNat := by
  obtain ⟨r, h, e⟩ := mul_64x64_to_128_full_bridge a b
  have s := (mul64x64to128Full_spec (lt_W a) (lt_W b)).1
  rw [← e, n128_val] at s
  exact ⟨r, h, s⟩

theorem gen_mul_64x64_to_128MACH (a b : UInt64) :
    ∃ r, Code.mul_64x64_to_128MACH a b = .ok r ∧ r.toNat' = a.toNat * b.toNat := by
  obtain ⟨r, h, e⟩ := mul_64x64_to_128MACH_bridge a b
  have s := (mul64x64to128MACH_spec (lt_W a) (lt_W b)).1
  rw [← e, n128_val] at s
  exact ⟨r, h, s⟩
example : Code.mul_64x64_to_128MACH 0xfedcba9876543210 0xffffffffffffffff
    = .ok ⟨0x0123456789abcdf0, 0xfedcba987654320f⟩ := by decide

/-- `__mul_64x64_to_128HIGH`: `⌊a·b / 2^64⌋`. -/
theorem gen_mul_64x64_to_128HIGH (a b : UInt64) :
    ∃ r, Code.mul_64x64_to_128HIGH a b = .ok r ∧ r.toNat = (a.toNat * b.toNat) / 2 ^ 64 := by
  obtain ⟨r, h, e⟩ := mul_64x64_to_128HIGH_bridge a b
  have s := (mul64x64to128HIGH_spec (lt_W a) (lt_W b)).1
  rw [← e] at s
  exact ⟨r, h, by rw [← W1]; exact s⟩

/-- `__mul_64x64_to_128_fast` for operands below 2^63: the exact product (above that its middle sum can wrap and
the result is 2^96 short: `mul64x64to128Fast_general`). -/
theorem gen_mul_64x64_to_128_fast (a b : UInt64) (ha : a.toNat < 2 ^ 63) (hb : b.toNat < 2 ^ 63) :
    ∃ r, Code.mul_64x64_to_128_fast a b = .ok r ∧ r.toNat' = a.toNat * b.toNat := by
  obtain ⟨r, h, e⟩ := mul_64x64_to_128_fast_bridge a b
  have s := mul64x64to128Fast_spec (CX := a.toNat) (CY := b.toNat) (by omega) (by omega)
  rw [← e, n128_val] at s
  exact ⟨r, h, s⟩
example : Code.mul_64x64_to_128_fast 0xffffffffffffffff 0xffffffffffffffff = .ok ⟨1, 0xfffffffefffffffe⟩ := by decide

/-! #### 64×128 -/

/-- `__mul_64x128_full`: `(Ph, Ql)` with `Ql + 2^128·Ph = a·B`. -/
theorem gen_mul_64x128_full (a : UInt64) (B : Rs.U128) :
    ∃ r, Code.mul_64x128_full a B = .ok r ∧ r.2.toNat' + 2 ^ 128 * r.1.toNat = a.toNat * B.toNat' := by
  obtain ⟨r, h, e⟩ := mul_64x128_full_bridge a B
  have s := (mul64x128Full_spec (lt_W a) (n128_wf B)).1
  rw [← e, n128_val, W2] at s
  exact ⟨r, h, by rw [← n128_val]; exact s⟩

/-- `__mul_64x128_to_192`: the exact 192-bit product. -/
theorem gen_mul_64x128_to_192 (a : UInt64) (B : Rs.U128) :
    ∃ r, Code.mul_64x128_to_192 a B = .ok r ∧ r.toNat' = a.toNat * B.toNat' := by
  obtain ⟨r, h, e⟩ := mul_64x128_to_192_bridge a B
  have s := (mul64x128to_192_spec (lt_W a) (n128_wf B)).1
  rw [← e, n192_val, n128_val] at s
  exact ⟨r, h, s⟩
example : Code.mul_64x128_to_192 0xffffffffffffffff ⟨0xffffffffffffffff, 0xffffffffffffffff⟩
    = .ok ⟨1, 0xffffffffffffffff, 0xfffffffffffffffe⟩ := by decide

theorem gen_mul_64x128_to192 (a : UInt64) (B : Rs.U128) :
    ∃ r, Code.mul_64x128_to192 a B = .ok r ∧ r.toNat' = a.toNat * B.toNat' := by
  obtain ⟨r, h, e⟩ := mul_64x128_to192_bridge a B
  have s := (mul64x128to192_spec (lt_W a) (n128_wf B)).1
  rw [← e, n192_val, n128_val] at s
  exact ⟨r, h, s⟩

/-- `__mul_64x128_to_256`: the exact product, `r.w3 = 0`. -/
theorem gen_mul_64x128_to_256 (a : UInt64) (B : Rs.U128) :
    ∃ r, Code.mul_64x128_to_256 a B = .ok r ∧ r.toNat' = a.toNat * B.toNat' ∧ r.w3 = 0 := by
  obtain ⟨r, h, e⟩ := mul_64x128_to_256_bridge a B
  obtain ⟨s, -, s3⟩ := mul64x128to256_spec (lt_W a) (n128_wf B)
  rw [← e] at s s3
  rw [n256_val, n128_val] at s
  have z3 : r.w3.toNat = 0 := s3
  exact ⟨r, h, s, UInt64.toNat_inj.1 z3⟩

/-- `__mul_64x128_low`, `__mul_64x128_to_128`, `__mul_64x128_short`, `__mul_128x64_to_128`: `a·B mod 2^128`. -/
theorem gen_mul_64x128_low (a : UInt64) (B : Rs.U128) :
    ∃ r, Code.mul_64x128_low a B = .ok r ∧ r.toNat' = (a.toNat * B.toNat') % 2 ^ 128 := by
  obtain ⟨r, h, e⟩ := mul_64x128_low_bridge a B
  have s := (mul64x128Low_spec (lt_W a) (n128_wf B)).1
  rw [← e, n128_val, n128_val, W2] at s
  exact ⟨r, h, s⟩
theorem gen_mul_64x128_to_128 (a : UInt64) (B : Rs.U128) :
    ∃ r, Code.mul_64x128_to_128 a B = .ok r ∧ r.toNat' = (a.toNat * B.toNat') % 2 ^ 128 := by
  obtain ⟨r, h, e⟩ := mul_64x128_to_128_bridge a B
  have s := (mul64x128to128_spec (lt_W a) (n128_wf B)).1
  rw [← e, n128_val, n128_val, W2] at s
  exact ⟨r, h, s⟩
theorem gen_mul_64x128_short (a : UInt64) (B : Rs.U128) :
    ∃ r, Code.mul_64x128_short a B = .ok r ∧ r.toNat' = (a.toNat * B.toNat') % 2 ^ 128 := by
  obtain ⟨r, h, e⟩ := mul_64x128_short_bridge a B
  have s := (mul64x128Short_spec (lt_W a) (n128_wf B)).1
  rw [← e, n128_val, n128_val, W2] at s
  exact ⟨r, h, s⟩
theorem gen_mul_128x64_to_128 (a : UInt64) (B : Rs.U128) :
    ∃ r, Code.mul_128x64_to_128 a B = .ok r ∧ r.toNat' = (a.toNat * B.toNat') % 2 ^ 128 := by
  obtain ⟨r, h, e⟩ := mul_128x64_to_128_bridge a B
  have s := (mul128x64to128_spec (lt_W a) (n128_wf B)).1
  rw [← e, n128_val, n128_val, W2] at s
  exact ⟨r, h, s⟩
/-- … so the product itself when it is below 2^128 -/
theorem gen_mul_128x64_to_128_exact (a : UInt64) (B : Rs.U128) (hfit : a.toNat * B.toNat' < 2 ^ 128) :
    ∃ r, Code.mul_128x64_to_128 a B = .ok r ∧ r.toNat' = a.toNat * B.toNat' := by
  obtain ⟨r, h, e⟩ := gen_mul_128x64_to_128 a B
  exact ⟨r, h, by rw [e, Nat.mod_eq_of_lt hfit]⟩
theorem gen_mul_64x128_short_exact (a : UInt64) (B : Rs.U128) (hfit : a.toNat * B.toNat' < 2 ^ 128) :
    ∃ r, Code.mul_64x128_short a B = .ok r ∧ r.toNat' = a.toNat * B.toNat' := by
  obtain ⟨r, h, e⟩ := gen_mul_64x128_short a B
  exact ⟨r, h, by rw [e, Nat.mod_eq_of_lt hfit]⟩
example : Code.mul_128x64_to_128 10 ⟨0xffffffffffffffff, 1⟩ = .ok ⟨0xfffffffffffffff6, 0x13⟩ := by decide

/-! #### 128×128 -/

/-- `__mul_128x128_low`: `A·B mod 2^128`. -/
theorem gen_mul_128x128_low (A B : Rs.U128) :
    ∃ r, Code.mul_128x128_low A B = .ok r ∧ r.toNat' = (A.toNat' * B.toNat') % 2 ^ 128 := by
  obtain ⟨r, h, e⟩ := mul_128x128_low_bridge A B
  have s := (mul128x128Low_spec (n128_wf A) (n128_wf B)).1
  rw [← e, n128_val, n128_val, n128_val, W2] at s
  exact ⟨r, h, s⟩
theorem gen_mul_128x128_low_exact (A B : Rs.U128) (hfit : A.toNat' * B.toNat' < 2 ^ 128) :
    ∃ r, Code.mul_128x128_low A B = .ok r ∧ r.toNat' = A.toNat' * B.toNat' := by
  obtain ⟨r, h, e⟩ := gen_mul_128x128_low A B
  exact ⟨r, h, by rw [e, Nat.mod_eq_of_lt hfit]⟩

/-- `__mul_128x128_to_256`: the exact 256-bit product, for all words. -/
theorem gen_mul_128x128_to_256 (A B : Rs.U128) :
    ∃ r, Code.mul_128x128_to_256 A B = .ok r ∧ r.toNat' = A.toNat' * B.toNat' := by
  obtain ⟨r, h, e⟩ := mul_128x128_to_256_bridge A B
  have s := (mul128x128to256_spec (n128_wf A) (n128_wf B)).1
  rw [← e, n256_val, n128_val, n128_val] at s
  exact ⟨r, h, s⟩
example : Code.mul_128x128_to_256 ⟨0xffffffffffffffff, 0xffffffffffffffff⟩ ⟨0xffffffffffffffff, 0xffffffffffffffff⟩
    = .ok ⟨1, 0, 0xfffffffffffffffe, 0xffffffffffffffff⟩ := by decide

/-- `__mul_128x128_full` when `A.w1 + B.w1 ≤ 2^64` (every call site): `(Qh, Ql)` with `Ql + 2^128·Qh = A·B`.
Without the hypothesis the carry out of `ALBH + AHBL` is dropped and the pair can be 2^192 short
(`mul128x128Full_general`; `(2^128−1)^2` is a witness). -/
theorem gen_mul_128x128_full (A B : Rs.U128) (hdom : A.w1.toNat + B.w1.toNat ≤ 2 ^ 64) :
    ∃ r, Code.mul_128x128_full A B = .ok r ∧ r.2.toNat' + 2 ^ 128 * r.1.toNat' = A.toNat' * B.toNat' := by
  obtain ⟨r, h, e⟩ := mul_128x128_full_bridge A B
  have s := (mul128x128Full_spec (n128_wf A) (n128_wf B) (by simpa only [n128_w1, W1] using hdom)).1
  rw [← e, n128_val, n128_val, W2] at s
  exact ⟨r, h, by rw [← n128_val, ← n128_val r.1]; exact s⟩

/-- `__mul_128x128_high` under the same condition: `⌊A·B / 2^128⌋`. -/
theorem gen_mul_128x128_high (A B : Rs.U128) (hdom : A.w1.toNat + B.w1.toNat ≤ 2 ^ 64) :
    ∃ r, Code.mul_128x128_high A B = .ok r ∧ r.toNat' = (A.toNat' * B.toNat') / 2 ^ 128 := by
  obtain ⟨r, h, e⟩ := mul_128x128_high_bridge A B
  have s := (mul128x128High_spec (n128_wf A) (n128_wf B) (by simpa only [n128_w1, W1] using hdom)).1
  rw [← e, n128_val, n128_val, n128_val, W2] at s
  exact ⟨r, h, s⟩
example : Code.mul_128x128_high ⟨0xffffffffffffffff, 0xffffffffffffffff⟩ ⟨0xffffffffffffffff, 0xffffffffffffffff⟩
    = .ok ⟨0xfffffffffffffffe, 0xfffffffffffffffe⟩ := by decide
example : Code.mul_128x128_high ⟨0x378d8e63ffffffff, 0x0001ed09bead87c0⟩ ⟨0x9DB22D0E56041894, 0x4189374BC6A7EF⟩
    = .ok ⟨0xc0914b267fffffff, 0x7e37be2022⟩ := by decide

/-! #### wider products -/

/-- `__mul_64x192_to_256`: the exact 256-bit product. -/
theorem gen_mul_64x192_to_256 (a : UInt64) (B : Rs.U192) :
    ∃ r, Code.mul_64x192_to_256 a B = .ok r ∧ r.toNat' = a.toNat * B.toNat' := by
  obtain ⟨r, h, e⟩ := mul_64x192_to_256_bridge a B
  have s := (mul64x192to256_spec (lt_W a) (n192_wf B)).1
  rw [← e, n256_val, n192_val] at s
  exact ⟨r, h, s⟩

/-- `__mul_64x256_to_256` never reads `B.w3`: it is `a · (B mod 2^192)`; the product when `B.w3 = 0` (all call
sites). -/
theorem gen_mul_64x256_to_256 (a : UInt64) (B : Rs.U256) :
    ∃ r, Code.mul_64x256_to_256 a B = .ok r ∧ r.toNat' = a.toNat * (B.toNat' % 2 ^ 192) := by
  obtain ⟨r, h, e⟩ := mul_64x256_to_256_bridge a B
  have s := (mul64x256to256_spec (lt_W a) (n256_wf B)).1
  rw [← e, n256_val, n256_val] at s
  exact ⟨r, h, by rw [s]; norm_num⟩
theorem gen_mul_64x256_to_256_exact (a : UInt64) (B : Rs.U256) (h3 : B.w3 = 0) :
    ∃ r, Code.mul_64x256_to_256 a B = .ok r ∧ r.toNat' = a.toNat * B.toNat' := by
  obtain ⟨r, h, e⟩ := mul_64x256_to_256_bridge a B
  have s := mul64x256to256_exact (lt_W a) (n256_wf B) (by rw [n256_w3, h3]; rfl)
  rw [← e, n256_val, n256_val] at s
  exact ⟨r, h, s⟩
example : Code.mul_64x256_to_256 1 ⟨0, 0, 0, 1⟩ = .ok ⟨0, 0, 0, 0⟩ := by decide

/-- `__mul_64x256_to_320`: the exact 320-bit product in a `U512` whose words 5–7 are 0. -/
theorem gen_mul_64x256_to_320 (a : UInt64) (B : Rs.U256) :
    ∃ r, Code.mul_64x256_to_320 a B = .ok r ∧ r.toNat' = a.toNat * B.toNat' ∧ r.w5 = 0 ∧ r.w6 = 0 ∧ r.w7 = 0 := by
  obtain ⟨r, h, e⟩ := mul_64x256_to_320_bridge a B
  obtain ⟨s, -, s5, s6, s7⟩ := mul64x256to320_spec (lt_W a) (n256_wf B)
  rw [← e] at s s5 s6 s7
  rw [n512_val, n256_val] at s
  have z5 : r.w5.toNat = 0 := s5
  have z6 : r.w6.toNat = 0 := s6
  have z7 : r.w7.toNat = 0 := s7
  exact ⟨r, h, s, UInt64.toNat_inj.1 z5, UInt64.toNat_inj.1 z6, UInt64.toNat_inj.1 z7⟩

/-- `__mul_192x192_to_384`: the exact 384-bit product, for all words. -/
theorem gen_mul_192x192_to_384 (A B : Rs.U192) :
    ∃ r, Code.mul_192x192_to_384 A B = .ok r ∧ r.toNat' = A.toNat' * B.toNat' := by
  obtain ⟨r, h, e⟩ := mul_192x192_to_384_bridge A B
  have s := (mul192x192to384_spec (n192_wf A) (n192_wf B)).1
  rw [← e, n384_val, n192_val, n192_val] at s
  exact ⟨r, h, s⟩
example : Code.mul_192x192_to_384 ⟨0xffffffffffffffff, 0xffffffffffffffff, 0xffffffffffffffff⟩
      ⟨0xffffffffffffffff, 0xffffffffffffffff, 0xffffffffffffffff⟩
    = .ok ⟨1, 0, 0, 0xfffffffffffffffe, 0xffffffffffffffff, 0xffffffffffffffff⟩ := by decide

/-- `__sqr128_to_256`: the exact square, whatever the out-parameter held. -/
theorem gen_sqr128_to_256 (P : Rs.U256) (A : Rs.U128) :
    ∃ r, Code.sqr128_to_256 P A = .ok r ∧ r.toNat' = A.toNat' * A.toNat' := by
  obtain ⟨r, h, e⟩ := sqr128_to_256_bridge P A
  have s := (sqr128to256_spec (n128_wf A)).1
  rw [← e, n256_val, n128_val] at s
  exact ⟨r, h, s⟩
example : Code.sqr128_to_256 ⟨7, 7, 7, 7⟩ ⟨0xffffffffffffffff, 0xffffffffffffffff⟩
    = .ok ⟨1, 0, 0xfffffffffffffffe, 0xffffffffffffffff⟩ := by decide

/-- `__mul_256x256_to_512`: the exact 512-bit product, for all words. -/
theorem gen_mul_256x256_to_512 (A B : Rs.U256) :
    ∃ r, Code.mul_256x256_to_512 A B = .ok r ∧ r.toNat' = A.toNat' * B.toNat' := by
  obtain ⟨r, h, e⟩ := mul_256x256_to_512_bridge A B
  have s := (mul256x256to512_spec (n256_wf A) (n256_wf B)).1
  rw [← e, n512_val, n256_val, n256_val] at s
  exact ⟨r, h, s⟩
example : Code.mul_256x256_to_512 ⟨0xffffffffffffffff, 0xffffffffffffffff, 0xffffffffffffffff, 0xffffffffffffffff⟩
      ⟨0xffffffffffffffff, 0xffffffffffffffff, 0xffffffffffffffff, 0xffffffffffffffff⟩
    = .ok ⟨1, 0, 0, 0, 0xfffffffffffffffe, 0xffffffffffffffff, 0xffffffffffffffff, 0xffffffffffffffff⟩ := by decide

end Dec.C01GenArith
