/-
  C01Strict — add, sub, mul, div are correctly rounded: the strict, outcome-determining forms, and what an
  `ok` verdict of the judge on one of these operations *means* in IEEE terms.

  `C01Q` states correct rounding with the clause `FinishSpec`, which (see `FinishSpec_not_unique`) allows a
  spurious second outcome in one corner of its inexact case.  `FinishSpecStrict`
  (`DecProofs.Core.FinishUnique`) is single-valued, so here each operation is *characterised*:

      op mode x y = out   ↔   FinishSpecStrict mode (sign of V) |V| pref out

  for the exact (rational) result `V ≠ 0` of the operation.  Composed with `JudgeSound`, the judge accepts an
  observed call iff the returned bits are the canonical encoding of THE datum, and the outgoing status word is
  the incoming one OR-ed with THE flag set, that the declarative IEEE clause prescribes.
-/
import DecProofs.Properties.C02Q
import DecProofs.Properties.JudgeSound

namespace Dec.C01Strict

open Dec.C01Q Dec.C02Q Dec.JudgeSound

/-! ### the strict clause has exactly one solution -/

/-- **At most one outcome** satisfies the strict delivery clause for a non-zero exact value `V`. -/
theorem strict_unique {mode : Mode} {V : ℚ} {pref : Int} (hV : V ≠ 0) {out out' : Datum × Flags}
    (h : FinishSpecStrict mode (decide (V < 0)) |V| pref out)
    (h' : FinishSpecStrict mode (decide (V < 0)) |V| pref out') : out = out' :=
  FinishSpecStrict_unique (abs_pos.mpr hV) h h'

/-- **Exactly one outcome**: for every positive rational magnitude `v`, every sign, rounding mode and preferred
exponent, the strict delivery clause has one and only one solution (the value `finish` computes on any
fraction representing `v`).  So "the `(r, f)` satisfying `FinishSpecStrict …`" below denotes. -/
theorem strict_exists_unique (mode : Mode) (neg : Bool) {v : ℚ} (hv : 0 < v) (pref : Int) :
    ∃ out, FinishSpecStrict mode neg v pref out ∧ ∀ out', FinishSpecStrict mode neg v pref out' → out' = out := by
  have hn : 0 < v.num := Rat.num_pos.mpr hv
  have hnq : (0 : ℚ) < (v.num : ℚ) := by exact_mod_cast hn
  have e : ((v.num.natAbs : Nat) : ℚ) / ((v.den : Nat) : ℚ) * (10 : ℚ) ^ (0 : ℤ) = v := by
    rw [zpow_zero, mul_one, Nat.cast_natAbs, Int.cast_abs, abs_of_pos hnq]
    exact Rat.num_div_den v
  have h := finish_spec_strict mode neg v.num.natAbs v.den 0 pref (by omega) v.den_pos
  rw [e] at h
  exact ⟨_, h, fun out' h' => FinishSpecStrict_unique hv h' h⟩

/-! ### addition / subtraction -/

theorem addD_fin (mode : Mode) (s1 : Bool) (c1 : Nat) (e1 : Int) (s2 : Bool) (c2 : Nat) (e2 : Int) :
    addD mode (.fin s1 c1 e1) (.fin s2 c2 e2) = addFin mode s1 c1 e1 s2 c2 e2 (min e1 e2) := by
  rw [Int.min_def]; rfl

/-- **Addition, strict form.**  For finite operands with non-zero exact sum `V`, the result is the strict
correct delivery of `V` with preferred exponent `min e1 e2`. -/
theorem add_correct_strict (mode : Mode) (s1 : Bool) (c1 : Nat) (e1 : Int) (s2 : Bool) (c2 : Nat) (e2 : Int) :
    let V : ℚ := fval s1 c1 e1 + fval s2 c2 e2
    V ≠ 0 → FinishSpecStrict mode (decide (V < 0)) |V| (min e1 e2)
      (addD mode (.fin s1 c1 e1) (.fin s2 c2 e2)) := by
  intro V h0
  rw [addD_fin]
  exact addFin_correct_strict mode s1 c1 e1 s2 c2 e2 (min e1 e2) h0

/-- **Addition is characterised by correct rounding.**  For finite operands with non-zero exact sum `V`
(computed in ℚ): an outcome `out` (datum and raised flags) is the model's sum *iff* it is the single-valued
correct delivery of `V` — `V` itself with the cohort exponent closest to `min e1 e2` and no flag when `V` is
a member of the format; otherwise `V` rounded once in `mode` at the least exponent at which the rounding
fits in 34 digits, with inexact (and underflow iff `|V| < 10^-6143`); or the mode's overflow result with
overflow and inexact. -/
theorem add_eq_iff (mode : Mode) (s1 : Bool) (c1 : Nat) (e1 : Int) (s2 : Bool) (c2 : Nat) (e2 : Int)
    (out : Datum × Flags) :
    let V : ℚ := fval s1 c1 e1 + fval s2 c2 e2
    V ≠ 0 →
    (addD mode (.fin s1 c1 e1) (.fin s2 c2 e2) = out ↔
      FinishSpecStrict mode (decide (V < 0)) |V| (min e1 e2) out) := by
  intro V h0
  exact (add_correct_strict mode s1 c1 e1 s2 c2 e2 h0).eq_iff (abs_pos.mpr h0) out

-- 1 + 2.5 = 3.5 exactly; (10^34 - 1) + 0.6 rounds (carry) to 10^33·10^1 with inexact
example : (fval false 1 0 + fval false 25 (-1) : ℚ) ≠ 0 := by rw [fval_false, fval_false]; positivity
example : addD .rne (.fin false 1 0) (.fin false 25 (-1)) = (.fin false 35 (-1), 0) := by decide +kernel
example : FinishSpecStrict .rne (decide ((fval false 1 0 + fval false 25 (-1) : ℚ) < 0))
    |(fval false 1 0 + fval false 25 (-1) : ℚ)| (min 0 (-1)) (.fin false 35 (-1), 0) :=
  (add_eq_iff .rne false 1 0 false 25 (-1) _ (by rw [fval_false, fval_false]; positivity)).mp (by decide +kernel)

/-- **Subtraction, strict form.** -/
theorem sub_correct_strict (mode : Mode) (s1 : Bool) (c1 : Nat) (e1 : Int) (s2 : Bool) (c2 : Nat) (e2 : Int) :
    let V : ℚ := fval s1 c1 e1 - fval s2 c2 e2
    V ≠ 0 → FinishSpecStrict mode (decide (V < 0)) |V| (min e1 e2)
      (subD mode (.fin s1 c1 e1) (.fin s2 c2 e2)) := by
  have h : subD mode (.fin s1 c1 e1) (.fin s2 c2 e2) = addD mode (.fin s1 c1 e1) (.fin (!s2) c2 e2) := rfl
  have hv : fval s1 c1 e1 - fval s2 c2 e2 = fval s1 c1 e1 + fval (!s2) c2 e2 := by
    rw [fval_not]; ring
  rw [h, hv]
  exact add_correct_strict mode s1 c1 e1 (!s2) c2 e2

/-- **Subtraction is characterised by correct rounding**: as `add_eq_iff`, for the exact difference. -/
theorem sub_eq_iff (mode : Mode) (s1 : Bool) (c1 : Nat) (e1 : Int) (s2 : Bool) (c2 : Nat) (e2 : Int)
    (out : Datum × Flags) :
    let V : ℚ := fval s1 c1 e1 - fval s2 c2 e2
    V ≠ 0 →
    (subD mode (.fin s1 c1 e1) (.fin s2 c2 e2) = out ↔
      FinishSpecStrict mode (decide (V < 0)) |V| (min e1 e2) out) := by
  intro V h0
  exact (sub_correct_strict mode s1 c1 e1 s2 c2 e2 h0).eq_iff (abs_pos.mpr h0) out

example : subD .rne (.fin false 1 0) (.fin false 25 (-1)) = (.fin true 15 (-1), 0) := by decide +kernel

/-! ### multiplication -/

/-- **Multiplication, strict form.**  For finite operands with non-zero exact product `V`, the result is the
strict correct delivery of `V` with preferred exponent `e1 + e2` (and the sign of `V` is `s1 xor s2`). -/
theorem mul_correct_strict (mode : Mode) (s1 : Bool) (c1 : Nat) (e1 : Int) (s2 : Bool) (c2 : Nat) (e2 : Int) :
    let V : ℚ := fval s1 c1 e1 * fval s2 c2 e2
    V ≠ 0 → decide (V < 0) = (s1 != s2) ∧
      FinishSpecStrict mode (decide (V < 0)) |V| (e1 + e2) (mulD mode (.fin s1 c1 e1) (.fin s2 c2 e2)) := by
  intro V h0
  have hsign : decide (V < 0) = (s1 != s2) := ((mul_correct mode s1 c1 e1 s2 c2 e2).2 h0).1
  refine ⟨hsign, ?_⟩
  have hc : c1 * c2 ≠ 0 := by
    intro h
    apply h0
    show fval s1 c1 e1 * fval s2 c2 e2 = 0
    rw [mul_eq_zero, fval_eq_zero_iff, fval_eq_zero_iff]
    exact Nat.mul_eq_zero.mp h
  have hfin : mulD mode (.fin s1 c1 e1) (.fin s2 c2 e2) =
      if c1 * c2 = 0 then (zeroAt (s1 != s2) (e1 + e2), 0)
      else finish mode (s1 != s2) (c1 * c2) 1 (e1 + e2) (e1 + e2) := rfl
  have habs : |V| = ((c1 * c2 : Nat) : ℚ) / ((1 : Nat) : ℚ) * (10 : ℚ) ^ (e1 + e2) := by
    show |fval s1 c1 e1 * fval s2 c2 e2| = _
    rw [abs_mul, abs_fval, abs_fval, zpow_add₀ ten_ne]; push_cast; ring
  rw [hfin, if_neg hc, hsign, habs]
  exact finish_spec_strict mode _ _ 1 _ _ (Nat.pos_of_ne_zero hc) (by omega)

/-- **Multiplication is characterised by correct rounding**: for finite operands with non-zero exact
product `V`, an outcome is the model's product iff it is the single-valued correct delivery of `V` with
preferred exponent `e1 + e2`. -/
theorem mul_eq_iff (mode : Mode) (s1 : Bool) (c1 : Nat) (e1 : Int) (s2 : Bool) (c2 : Nat) (e2 : Int)
    (out : Datum × Flags) :
    let V : ℚ := fval s1 c1 e1 * fval s2 c2 e2
    V ≠ 0 →
    (mulD mode (.fin s1 c1 e1) (.fin s2 c2 e2) = out ↔
      FinishSpecStrict mode (decide (V < 0)) |V| (e1 + e2) out) := by
  intro V h0
  exact (mul_correct_strict mode s1 c1 e1 s2 c2 e2 h0).2.eq_iff (abs_pos.mpr h0) out

example : mulD .rne (.fin false 12 (-1)) (.fin true 5 (-1)) = (.fin true 60 (-2), 0) := by decide +kernel

/-! ### division -/

/-- **Division, strict form.**  For finite operands with non-zero divisor and non-zero exact quotient `V`,
the result is the strict correct delivery of `V` with preferred exponent `e1 - e2`. -/
theorem div_correct_strict (mode : Mode) (s1 : Bool) (c1 : Nat) (e1 : Int) (s2 : Bool) (c2 : Nat) (e2 : Int)
    (hc2 : c2 ≠ 0) :
    let V : ℚ := fval s1 c1 e1 / fval s2 c2 e2
    V ≠ 0 → decide (V < 0) = (s1 != s2) ∧
      FinishSpecStrict mode (decide (V < 0)) |V| (e1 - e2) (divD mode (.fin s1 c1 e1) (.fin s2 c2 e2)) := by
  intro V h0
  have hsign : decide (V < 0) = (s1 != s2) := ((div_correct mode s1 c1 e1 s2 c2 e2 hc2).2 h0).1
  refine ⟨hsign, ?_⟩
  have hc1 : c1 ≠ 0 := by
    intro h
    apply h0
    show fval s1 c1 e1 / fval s2 c2 e2 = 0
    rw [div_eq_zero_iff, fval_eq_zero_iff]
    exact Or.inl h
  have hfin : divD mode (.fin s1 c1 e1) (.fin s2 c2 e2) =
      if c1 = 0 then (zeroAt (s1 != s2) (e1 - e2), 0)
      else finish mode (s1 != s2) c1 c2 (e1 - e2) (e1 - e2) := by
    simp only [divD, hc2, if_false]
  have hc2q : (c2 : ℚ) ≠ 0 := by exact_mod_cast hc2
  have hp2 : (10 : ℚ) ^ e2 ≠ 0 := (zpow_pos ten_pos _).ne'
  have habs : |V| = ((c1 : Nat) : ℚ) / ((c2 : Nat) : ℚ) * (10 : ℚ) ^ (e1 - e2) := by
    show |fval s1 c1 e1 / fval s2 c2 e2| = _
    rw [abs_div, abs_fval, abs_fval, zpow_sub₀ ten_ne]; field_simp
  rw [hfin, if_neg hc1, hsign, habs]
  exact finish_spec_strict mode _ _ _ _ _ (Nat.pos_of_ne_zero hc1) (Nat.pos_of_ne_zero hc2)

/-- **Division is characterised by correct rounding**: for finite operands, a non-zero divisor and a
non-zero exact quotient `V`, an outcome is the model's quotient iff it is the single-valued correct delivery
of `V` with preferred exponent `e1 - e2`. -/
theorem div_eq_iff (mode : Mode) (s1 : Bool) (c1 : Nat) (e1 : Int) (s2 : Bool) (c2 : Nat) (e2 : Int)
    (hc2 : c2 ≠ 0) (out : Datum × Flags) :
    let V : ℚ := fval s1 c1 e1 / fval s2 c2 e2
    V ≠ 0 →
    (divD mode (.fin s1 c1 e1) (.fin s2 c2 e2) = out ↔
      FinishSpecStrict mode (decide (V < 0)) |V| (e1 - e2) out) := by
  intro V h0
  exact (div_correct_strict mode s1 c1 e1 s2 c2 e2 hc2 h0).2.eq_iff (abs_pos.mpr h0) out

example : divD .rne (.fin false 1 0) (.fin true 3 0) =
    (.fin true 3333333333333333333333333333333333 (-34), fInexact) := by decide +kernel

/-! ### what an `ok` verdict means, in IEEE terms -/

theorem accepted_subtraction (o : Obs) (x y : Nat) (ta : Bool) (hop : o.op = "subtraction")
    (hargs : o.args = [.d x, .d y]) (hx : (decode x).isNaN = false) (hy : (decode y).isNaN = false) :
    (∃ c, accepts ta o = .ok c) ↔
      o.out = some ([.d (encode (subD o.mode (decode x) (decode y)).1)],
                    o.flagsIn ||| (subD o.mode (decode x) (decode y)).2) := by
  rw [accepts_def, hop, hargs, dispatch_subtraction]
  unfold bin
  rw [Dec.C12.nanRule_no_nan _ _ (by simp [hx, hy])]
  exact ok_exact_iff _ _ o

theorem accepted_multiplication (o : Obs) (x y : Nat) (ta : Bool) (hop : o.op = "multiplication")
    (hargs : o.args = [.d x, .d y]) (hx : (decode x).isNaN = false) (hy : (decode y).isNaN = false) :
    (∃ c, accepts ta o = .ok c) ↔
      o.out = some ([.d (encode (mulD o.mode (decode x) (decode y)).1)],
                    o.flagsIn ||| (mulD o.mode (decode x) (decode y)).2) := by
  rw [accepts_def, hop, hargs, dispatch_multiplication]
  unfold bin
  rw [Dec.C12.nanRule_no_nan _ _ (by simp [hx, hy])]
  exact ok_exact_iff _ _ o

/-- the shape of the right-hand sides below: "the call returned the encoding of `r` and the status word is
the incoming one OR-ed with `f`, for the `(r, f)` satisfying `P`", given that `P` holds of exactly `res` -/
private theorem out_iff_spec {P : Datum × Flags → Prop} {res : Datum × Flags} (o : Obs)
    (hP : ∀ out, res = out ↔ P out) :
    o.out = some ([.d (encode res.1)], o.flagsIn ||| res.2) ↔
      ∃ r f, P (r, f) ∧ o.out = some ([.d (encode r)], o.flagsIn ||| f) := by
  constructor
  · intro h
    exact ⟨res.1, res.2, (hP _).mp rfl, h⟩
  · rintro ⟨r, f, hp, h⟩
    have := (hP _).mpr hp
    rw [this]; exact h

/-- **An accepted `addition` is an IEEE-correct addition.**  For an observed call of `addition` whose
operands decode to finite numbers `x = (-1)^s1·c1·10^e1`, `y = (-1)^s2·c2·10^e2` with exact sum `V ≠ 0`:
the judge accepts the observation **iff** the call returned the canonical encoding of `r` and left the status
word equal to the incoming word OR-ed with `f`, where `(r, f)` is *the* (by `strict_unique`, unique) pair
satisfying the declarative clause `FinishSpecStrict mode (V<0) |V| (min e1 e2)` — `V` exactly with the cohort
exponent closest to `min e1 e2` and no flag, or `V` correctly rounded once in the call's rounding mode with
inexact / underflow / overflow as IEEE 754 prescribes.  No reference to the executable model remains on the
right-hand side. -/
theorem accepted_addition_iff_ieee (o : Obs) (x y : Nat) (ta : Bool) (hop : o.op = "addition")
    (hargs : o.args = [.d x, .d y]) (s1 : Bool) (c1 : Nat) (e1 : Int) (s2 : Bool) (c2 : Nat) (e2 : Int)
    (hx : decode x = .fin s1 c1 e1) (hy : decode y = .fin s2 c2 e2) :
    let V : ℚ := fval s1 c1 e1 + fval s2 c2 e2
    V ≠ 0 →
    ((∃ c, accepts ta o = .ok c) ↔
      ∃ r f, FinishSpecStrict o.mode (decide (V < 0)) |V| (min e1 e2) (r, f) ∧
        o.out = some ([.d (encode r)], o.flagsIn ||| f)) := by
  intro V h0
  rw [accepted_addition o x y ta hop hargs (by rw [hx]; rfl) (by rw [hy]; rfl), hx, hy]
  exact out_iff_spec o (fun out => add_eq_iff o.mode s1 c1 e1 s2 c2 e2 out h0)

/-- **An accepted `subtraction` is an IEEE-correct subtraction** (as `accepted_addition_iff_ieee`, for the
exact difference). -/
theorem accepted_subtraction_iff_ieee (o : Obs) (x y : Nat) (ta : Bool) (hop : o.op = "subtraction")
    (hargs : o.args = [.d x, .d y]) (s1 : Bool) (c1 : Nat) (e1 : Int) (s2 : Bool) (c2 : Nat) (e2 : Int)
    (hx : decode x = .fin s1 c1 e1) (hy : decode y = .fin s2 c2 e2) :
    let V : ℚ := fval s1 c1 e1 - fval s2 c2 e2
    V ≠ 0 →
    ((∃ c, accepts ta o = .ok c) ↔
      ∃ r f, FinishSpecStrict o.mode (decide (V < 0)) |V| (min e1 e2) (r, f) ∧
        o.out = some ([.d (encode r)], o.flagsIn ||| f)) := by
  intro V h0
  rw [accepted_subtraction o x y ta hop hargs (by rw [hx]; rfl) (by rw [hy]; rfl), hx, hy]
  exact out_iff_spec o (fun out => sub_eq_iff o.mode s1 c1 e1 s2 c2 e2 out h0)

/-- **An accepted `multiplication` is an IEEE-correct multiplication**: for finite operands with exact
product `V ≠ 0`, acceptance ⇔ the returned bits / status word are those of *the* strict correct delivery of
`V` with preferred exponent `e1 + e2`. -/
theorem accepted_multiplication_iff_ieee (o : Obs) (x y : Nat) (ta : Bool) (hop : o.op = "multiplication")
    (hargs : o.args = [.d x, .d y]) (s1 : Bool) (c1 : Nat) (e1 : Int) (s2 : Bool) (c2 : Nat) (e2 : Int)
    (hx : decode x = .fin s1 c1 e1) (hy : decode y = .fin s2 c2 e2) :
    let V : ℚ := fval s1 c1 e1 * fval s2 c2 e2
    V ≠ 0 →
    ((∃ c, accepts ta o = .ok c) ↔
      ∃ r f, FinishSpecStrict o.mode (decide (V < 0)) |V| (e1 + e2) (r, f) ∧
        o.out = some ([.d (encode r)], o.flagsIn ||| f)) := by
  intro V h0
  rw [accepted_multiplication o x y ta hop hargs (by rw [hx]; rfl) (by rw [hy]; rfl), hx, hy]
  exact out_iff_spec o (fun out => mul_eq_iff o.mode s1 c1 e1 s2 c2 e2 out h0)

/-- **An accepted `division` is an IEEE-correct division**: for finite operands, a non-zero divisor and
exact quotient `V ≠ 0`, acceptance ⇔ the returned bits / status word are those of *the* strict correct
delivery of `V` with preferred exponent `e1 - e2`. -/
theorem accepted_division_iff_ieee (o : Obs) (x y : Nat) (ta : Bool) (hop : o.op = "division")
    (hargs : o.args = [.d x, .d y]) (s1 : Bool) (c1 : Nat) (e1 : Int) (s2 : Bool) (c2 : Nat) (e2 : Int)
    (hx : decode x = .fin s1 c1 e1) (hy : decode y = .fin s2 c2 e2) (hc2 : c2 ≠ 0) :
    let V : ℚ := fval s1 c1 e1 / fval s2 c2 e2
    V ≠ 0 →
    ((∃ c, accepts ta o = .ok c) ↔
      ∃ r f, FinishSpecStrict o.mode (decide (V < 0)) |V| (e1 - e2) (r, f) ∧
        o.out = some ([.d (encode r)], o.flagsIn ||| f)) := by
  intro V h0
  rw [accepted_division o x y ta hop hargs (by rw [hx]; rfl) (by rw [hy]; rfl), hx, hy]
  exact out_iff_spec o (fun out => div_eq_iff o.mode s1 c1 e1 s2 c2 e2 hc2 out h0)

/-- … and the `(r, f)` on the right-hand sides is unique: the IEEE clause determines the returned bits and
the status word. -/
theorem accepted_outcome_unique {mode : Mode} {V : ℚ} {pref : Int} (hV : V ≠ 0) {r r' : Datum} {f f' : Flags}
    (h : FinishSpecStrict mode (decide (V < 0)) |V| pref (r, f))
    (h' : FinishSpecStrict mode (decide (V < 0)) |V| pref (r', f')) : r = r' ∧ f = f' :=
  Prod.mk.inj (strict_unique hV h h')

-- the hypotheses are satisfiable: 1 + 2.5, observed with result 3.5 and no new flag, is accepted
example : decode 0x30400000000000000000000000000001 = .fin false 1 0 := by decide +kernel
example : decode 0x303e0000000000000000000000000019 = .fin false 25 (-1) := by decide +kernel
example : ∃ c, accepts false ⟨"addition", .rne, 0x20, [.d 0x30400000000000000000000000000001,
      .d 0x303e0000000000000000000000000019], some ([.d 0x303e0000000000000000000000000023], 0x20)⟩ = .ok c := by
  refine (accepted_addition_iff_ieee _ _ _ false rfl rfl false 1 0 false 25 (-1) (by decide +kernel)
    (by decide +kernel) (by rw [fval_false, fval_false]; positivity)).mpr
    ⟨.fin false 35 (-1), 0, ?_, by decide +kernel⟩
  exact (add_eq_iff .rne false 1 0 false 25 (-1) _ (by rw [fval_false, fval_false]; positivity)).mp
    (by decide +kernel)

end Dec.C01Strict
