/-
  C12Ops — the NaN rule holds for every NaN-capable operation of the dispatch table.

  `C12` proves what `nanRule` *says*; this file proves that every computational operation name of the
  dispatch table (`expect`) actually *goes through it*: with a NaN operand the only acceptable results are
  the quieted canonical copies of the NaN operands (payload and sign kept), and the raised set is `invalid`
  iff some operand is signalling — nothing else, whatever the operation, the rounding mode or the other
  operands.  Likewise the four clauses of minNum / maxNum / minNumMag / maxNumMag.
-/
import DecProofs.Properties.C12

namespace Dec.C12Ops

open Dec.C12

/-! ### the generic rule on `un`, `bin`, three operands -/

/-- a signalling NaN is a NaN -/
theorem isNaN_of_isSNaN {d : Datum} (h : d.isSNaN = true) : d.isNaN = true := by
  cases d <;> simp_all [Datum.isSNaN, Datum.isNaN]

/-- one-operand operations: a NaN operand comes back quieted, invalid iff it was signalling -/
theorem un_nan (x : Nat) (k : Datum → Expect) (h : (decode x).isNaN = true) :
    un x k = .oneOf [[.d (encode (quietNaN (decode x)))]] (if (decode x).isSNaN then fInvalid else 0) := by
  unfold un
  rw [nanRule_nan _ _ (by simp [h])]
  simp [h]

/-- two-operand operations: the `nanRule` outcome -/
theorem bin_nan (x y : Nat) (k : Datum → Datum → Expect) (h : (decode x).isNaN = true ∨ (decode y).isNaN = true) :
    bin x y k =
      .oneOf (([decode x, decode y].filter Datum.isNaN).map fun n => [Val.d (encode (quietNaN n))])
        (if [decode x, decode y].any Datum.isSNaN then fInvalid else 0) := by
  unfold bin
  exact nanRule_nan _ _ (by rcases h with h | h <;> simp [h])

/-- … spelled out: only the first operand is a NaN -/
theorem bin_nan_left (x y : Nat) (k : Datum → Datum → Expect) (hx : (decode x).isNaN = true)
    (hy : (decode y).isNaN = false) :
    bin x y k = .oneOf [[.d (encode (quietNaN (decode x)))]] (if (decode x).isSNaN then fInvalid else 0) := by
  rw [bin_nan x y k (Or.inl hx)]
  have : (decode y).isSNaN = false := by
    cases h : (decode y).isSNaN
    · rfl
    · rw [isNaN_of_isSNaN h] at hy; cases hy
  simp [hx, hy, this]

/-- … only the second operand is a NaN -/
theorem bin_nan_right (x y : Nat) (k : Datum → Datum → Expect) (hx : (decode x).isNaN = false)
    (hy : (decode y).isNaN = true) :
    bin x y k = .oneOf [[.d (encode (quietNaN (decode y)))]] (if (decode y).isSNaN then fInvalid else 0) := by
  rw [bin_nan x y k (Or.inr hy)]
  have : (decode x).isSNaN = false := by
    cases h : (decode x).isSNaN
    · rfl
    · rw [isNaN_of_isSNaN h] at hx; cases hx
  simp [hx, hy, this]

/-- … both operands are NaNs: either may be propagated; invalid iff one of them is signalling -/
theorem bin_nan_both (x y : Nat) (k : Datum → Datum → Expect) (hx : (decode x).isNaN = true)
    (hy : (decode y).isNaN = true) :
    bin x y k = .oneOf [[.d (encode (quietNaN (decode x)))], [.d (encode (quietNaN (decode y)))]]
      (if (decode x).isSNaN || (decode y).isSNaN then fInvalid else 0) := by
  rw [bin_nan x y k (Or.inl hx)]
  simp [hx, hy]

/-- three operands -/
theorem tern_nan (x y z : Nat) (k : Unit → Expect)
    (h : (decode x).isNaN = true ∨ (decode y).isNaN = true ∨ (decode z).isNaN = true) :
    nanRule [decode x, decode y, decode z] k =
      .oneOf (([decode x, decode y, decode z].filter Datum.isNaN).map fun n => [Val.d (encode (quietNaN n))])
        (if [decode x, decode y, decode z].any Datum.isSNaN then fInvalid else 0) :=
  nanRule_nan _ _ (by rcases h with h | h | h <;> simp [h])

/-! ### dispatch: every NaN-capable operation name goes through `un` / `bin` / `nanRule` -/

section dispatch
variable (m : Mode) (x y z : Nat) (n : Int) (ta : Bool)

theorem dispatch_square_root : ∃ k, expect "square_root" m [.d x] ta = un x k :=
  ⟨fun a => exactD (sqrtD m a), rfl⟩
theorem dispatch_round_to_integral_exact : ∃ k, expect "round_to_integral_exact" m [.d x] ta = un x k :=
  ⟨fun a => let r := toIntegralD m a; exactly [.d (encode r.1)] (if r.2 then fInexact else 0), rfl⟩
theorem dispatch_nearbyint : ∃ k, expect "nearbyint" m [.d x] ta = un x k :=
  ⟨fun a => exactly [.d (encode (toIntegralD m a).1)] 0, rfl⟩
theorem dispatch_round_to_integral_ties_to_away : ∃ k, expect "round_to_integral_ties_to_away" m [.d x] ta = un x k :=
  ⟨fun a => exactly [.d (encode (toIntegralD .rna a).1)] 0, rfl⟩
theorem dispatch_round_to_integral_ties_to_even : ∃ k, expect "round_to_integral_ties_to_even" m [.d x] ta = un x k :=
  ⟨fun a => exactly [.d (encode (toIntegralD .rne a).1)] 0, rfl⟩
theorem dispatch_round_to_integral_ties_toward_negative : ∃ k, expect "round_to_integral_ties_toward_negative" m [.d x] ta = un x k :=
  ⟨fun a => exactly [.d (encode (toIntegralD .rdn a).1)] 0, rfl⟩
theorem dispatch_round_to_integral_ties_toward_positive : ∃ k, expect "round_to_integral_ties_toward_positive" m [.d x] ta = un x k :=
  ⟨fun a => exactly [.d (encode (toIntegralD .rup a).1)] 0, rfl⟩
theorem dispatch_round_to_integral_ties_toward_zero : ∃ k, expect "round_to_integral_ties_toward_zero" m [.d x] ta = un x k :=
  ⟨fun a => exactly [.d (encode (toIntegralD .rtz a).1)] 0, rfl⟩
theorem dispatch_logb : ∃ k, expect "logb" m [.d x] ta = un x k :=
  ⟨fun a => exactD (logbD a), rfl⟩
theorem dispatch_next_up : ∃ k, expect "next_up" m [.d x] ta = un x k :=
  ⟨fun a => exactly [.d (encode (nextUpD a))] 0, rfl⟩
theorem dispatch_next_down : ∃ k, expect "next_down" m [.d x] ta = un x k :=
  ⟨fun a => exactly [.d (encode (nextDownD a))] 0, rfl⟩
theorem dispatch_addition : ∃ k, expect "addition" m [.d x, .d y] ta = bin x y k :=
  ⟨fun a b => exactD (addD m a b), rfl⟩
theorem dispatch_subtraction : ∃ k, expect "subtraction" m [.d x, .d y] ta = bin x y k :=
  ⟨fun a b => exactD (subD m a b), rfl⟩
theorem dispatch_multiplication : ∃ k, expect "multiplication" m [.d x, .d y] ta = bin x y k :=
  ⟨fun a b => exactD (mulD m a b), rfl⟩
theorem dispatch_division : ∃ k, expect "division" m [.d x, .d y] ta = bin x y k :=
  ⟨fun a b => exactD (divD m a b), rfl⟩
theorem dispatch_remainder : ∃ k, expect "remainder" m [.d x, .d y] ta = bin x y k :=
  ⟨fun a b => exactD (remD a b), rfl⟩
theorem dispatch_fmod : ∃ k, expect "fmod" m [.d x, .d y] ta = bin x y k :=
  ⟨fun a b => exactD (fmodD a b), rfl⟩
theorem dispatch_quantize : ∃ k, expect "quantize" m [.d x, .d y] ta = bin x y k :=
  ⟨fun a b => exactD (quantizeD m a b), rfl⟩
theorem dispatch_fdim : ∃ k, expect "fdim" m [.d x, .d y] ta = bin x y k :=
  ⟨fun _ _ => .rel "a canonical encoding; bits set on entry still set" (fun r fin fout => match r with | [.d b] => isCanonical b && (fout ||| fin == fout) | _ => false), rfl⟩
theorem dispatch_next_after : ∃ k, expect "next_after" m [.d x, .d y] ta = bin x y k :=
  ⟨fun a b => exactD (nextAfterD a b), rfl⟩
theorem dispatch_next_toward : ∃ k, expect "next_toward" m [.d x, .d y] ta = bin x y k :=
  ⟨fun a b => exactD (nextAfterD a b), rfl⟩
theorem dispatch_scaleb : ∃ k, expect "scaleb" m [.d x, .i n] ta = un x k :=
  ⟨fun a => exactD (scalebD m n a), rfl⟩
theorem dispatch_ldexp : ∃ k, expect "ldexp" m [.d x, .i n] ta = un x k :=
  ⟨fun a => exactD (scalebD m n a), rfl⟩
theorem dispatch_scalebln : ∃ k, expect "scalebln" m [.d x, .i n] ta = un x k :=
  ⟨fun a => exactD (scalebD m (clampI32 n) a), rfl⟩
theorem dispatch_fused_multiply_add : ∃ k, expect "fused_multiply_add" m [.d x, .d y, .d z] ta = nanRule [decode x, decode y, decode z] k :=
  ⟨fun _ => exactD (fmaD m ta (decode x) (decode y) (decode z)), rfl⟩
theorem dispatch_min_num : expect "min_num" m [.d x, .d y] ta = expectCore.minmax false false x y := rfl
theorem dispatch_max_num : expect "max_num" m [.d x, .d y] ta = expectCore.minmax true false x y := rfl
theorem dispatch_min_num_mag : expect "min_num_mag" m [.d x, .d y] ta = expectCore.minmax false true x y := rfl
theorem dispatch_max_num_mag : expect "max_num_mag" m [.d x, .d y] ta = expectCore.minmax true true x y := rfl

end dispatch

/-! ### one-operand operations -/

/-- `square_root` of a NaN: the quieted canonical copy of the operand; invalid iff it was signalling -/
theorem nan_square_root (m : Mode) (x : Nat) (ta : Bool) (h : (decode x).isNaN = true) :
    expect "square_root" m [.d x] ta =
      .oneOf [[.d (encode (quietNaN (decode x)))]] (if (decode x).isSNaN then fInvalid else 0) := by
  obtain ⟨k, hk⟩ := dispatch_square_root m x ta
  rw [hk]; exact un_nan x k h

/-- `round_to_integral_exact` of a NaN: the quieted canonical copy of the operand; invalid iff it was signalling -/
theorem nan_round_to_integral_exact (m : Mode) (x : Nat) (ta : Bool) (h : (decode x).isNaN = true) :
    expect "round_to_integral_exact" m [.d x] ta =
      .oneOf [[.d (encode (quietNaN (decode x)))]] (if (decode x).isSNaN then fInvalid else 0) := by
  obtain ⟨k, hk⟩ := dispatch_round_to_integral_exact m x ta
  rw [hk]; exact un_nan x k h

/-- `nearbyint` of a NaN: the quieted canonical copy of the operand; invalid iff it was signalling -/
theorem nan_nearbyint (m : Mode) (x : Nat) (ta : Bool) (h : (decode x).isNaN = true) :
    expect "nearbyint" m [.d x] ta =
      .oneOf [[.d (encode (quietNaN (decode x)))]] (if (decode x).isSNaN then fInvalid else 0) := by
  obtain ⟨k, hk⟩ := dispatch_nearbyint m x ta
  rw [hk]; exact un_nan x k h

/-- `round_to_integral_ties_to_away` of a NaN: the quieted canonical copy of the operand; invalid iff it was signalling -/
theorem nan_round_to_integral_ties_to_away (m : Mode) (x : Nat) (ta : Bool) (h : (decode x).isNaN = true) :
    expect "round_to_integral_ties_to_away" m [.d x] ta =
      .oneOf [[.d (encode (quietNaN (decode x)))]] (if (decode x).isSNaN then fInvalid else 0) := by
  obtain ⟨k, hk⟩ := dispatch_round_to_integral_ties_to_away m x ta
  rw [hk]; exact un_nan x k h

/-- `round_to_integral_ties_to_even` of a NaN: the quieted canonical copy of the operand; invalid iff it was signalling -/
theorem nan_round_to_integral_ties_to_even (m : Mode) (x : Nat) (ta : Bool) (h : (decode x).isNaN = true) :
    expect "round_to_integral_ties_to_even" m [.d x] ta =
      .oneOf [[.d (encode (quietNaN (decode x)))]] (if (decode x).isSNaN then fInvalid else 0) := by
  obtain ⟨k, hk⟩ := dispatch_round_to_integral_ties_to_even m x ta
  rw [hk]; exact un_nan x k h

/-- `round_to_integral_ties_toward_negative` of a NaN: the quieted canonical copy of the operand; invalid iff it was signalling -/
theorem nan_round_to_integral_ties_toward_negative (m : Mode) (x : Nat) (ta : Bool) (h : (decode x).isNaN = true) :
    expect "round_to_integral_ties_toward_negative" m [.d x] ta =
      .oneOf [[.d (encode (quietNaN (decode x)))]] (if (decode x).isSNaN then fInvalid else 0) := by
  obtain ⟨k, hk⟩ := dispatch_round_to_integral_ties_toward_negative m x ta
  rw [hk]; exact un_nan x k h

/-- `round_to_integral_ties_toward_positive` of a NaN: the quieted canonical copy of the operand; invalid iff it was signalling -/
theorem nan_round_to_integral_ties_toward_positive (m : Mode) (x : Nat) (ta : Bool) (h : (decode x).isNaN = true) :
    expect "round_to_integral_ties_toward_positive" m [.d x] ta =
      .oneOf [[.d (encode (quietNaN (decode x)))]] (if (decode x).isSNaN then fInvalid else 0) := by
  obtain ⟨k, hk⟩ := dispatch_round_to_integral_ties_toward_positive m x ta
  rw [hk]; exact un_nan x k h

/-- `round_to_integral_ties_toward_zero` of a NaN: the quieted canonical copy of the operand; invalid iff it was signalling -/
theorem nan_round_to_integral_ties_toward_zero (m : Mode) (x : Nat) (ta : Bool) (h : (decode x).isNaN = true) :
    expect "round_to_integral_ties_toward_zero" m [.d x] ta =
      .oneOf [[.d (encode (quietNaN (decode x)))]] (if (decode x).isSNaN then fInvalid else 0) := by
  obtain ⟨k, hk⟩ := dispatch_round_to_integral_ties_toward_zero m x ta
  rw [hk]; exact un_nan x k h

/-- `logb` of a NaN: the quieted canonical copy of the operand; invalid iff it was signalling -/
theorem nan_logb (m : Mode) (x : Nat) (ta : Bool) (h : (decode x).isNaN = true) :
    expect "logb" m [.d x] ta =
      .oneOf [[.d (encode (quietNaN (decode x)))]] (if (decode x).isSNaN then fInvalid else 0) := by
  obtain ⟨k, hk⟩ := dispatch_logb m x ta
  rw [hk]; exact un_nan x k h

/-- `next_up` of a NaN: the quieted canonical copy of the operand; invalid iff it was signalling -/
theorem nan_next_up (m : Mode) (x : Nat) (ta : Bool) (h : (decode x).isNaN = true) :
    expect "next_up" m [.d x] ta =
      .oneOf [[.d (encode (quietNaN (decode x)))]] (if (decode x).isSNaN then fInvalid else 0) := by
  obtain ⟨k, hk⟩ := dispatch_next_up m x ta
  rw [hk]; exact un_nan x k h

/-- `next_down` of a NaN: the quieted canonical copy of the operand; invalid iff it was signalling -/
theorem nan_next_down (m : Mode) (x : Nat) (ta : Bool) (h : (decode x).isNaN = true) :
    expect "next_down" m [.d x] ta =
      .oneOf [[.d (encode (quietNaN (decode x)))]] (if (decode x).isSNaN then fInvalid else 0) := by
  obtain ⟨k, hk⟩ := dispatch_next_down m x ta
  rw [hk]; exact un_nan x k h

/-- the one-operand, d128-valued operations subject to the NaN rule -/
def nanOps1 : List String := ["square_root", "round_to_integral_exact", "nearbyint", "round_to_integral_ties_to_away", "round_to_integral_ties_to_even", "round_to_integral_ties_toward_negative", "round_to_integral_ties_toward_positive", "round_to_integral_ties_toward_zero", "logb", "next_up", "next_down"]

/-- **The NaN rule, one-operand operations**: for every operation of `nanOps1`, in every rounding mode, a
NaN operand is returned quieted — same sign, same (canonical) payload — and `invalid` is raised iff the
operand was signalling; no other result and no other flag is acceptable. -/
theorem nanOps1_rule (op : String) (hop : op ∈ nanOps1) (m : Mode) (x : Nat) (ta : Bool)
    (h : (decode x).isNaN = true) :
    expect op m [.d x] ta =
      .oneOf [[.d (encode (quietNaN (decode x)))]] (if (decode x).isSNaN then fInvalid else 0) := by
  simp only [nanOps1, List.mem_cons, List.not_mem_nil, or_false] at hop
  rcases hop with rfl | rfl | rfl | rfl | rfl | rfl | rfl | rfl | rfl | rfl | rfl
  · exact nan_square_root m x ta h
  · exact nan_round_to_integral_exact m x ta h
  · exact nan_nearbyint m x ta h
  · exact nan_round_to_integral_ties_to_away m x ta h
  · exact nan_round_to_integral_ties_to_even m x ta h
  · exact nan_round_to_integral_ties_toward_negative m x ta h
  · exact nan_round_to_integral_ties_toward_positive m x ta h
  · exact nan_round_to_integral_ties_toward_zero m x ta h
  · exact nan_logb m x ta h
  · exact nan_next_up m x ta h
  · exact nan_next_down m x ta h

/-! ### scaling by a power of ten: the integer argument plays no part -/

/-- `scaleb` of a NaN (any integer argument): the quieted operand; invalid iff it was signalling -/
theorem nan_scaleb (m : Mode) (x : Nat) (n : Int) (ta : Bool) (h : (decode x).isNaN = true) :
    expect "scaleb" m [.d x, .i n] ta =
      .oneOf [[.d (encode (quietNaN (decode x)))]] (if (decode x).isSNaN then fInvalid else 0) := by
  obtain ⟨k, hk⟩ := dispatch_scaleb m x n ta
  rw [hk]; exact un_nan x k h

/-- `ldexp` of a NaN (any integer argument): the quieted operand; invalid iff it was signalling -/
theorem nan_ldexp (m : Mode) (x : Nat) (n : Int) (ta : Bool) (h : (decode x).isNaN = true) :
    expect "ldexp" m [.d x, .i n] ta =
      .oneOf [[.d (encode (quietNaN (decode x)))]] (if (decode x).isSNaN then fInvalid else 0) := by
  obtain ⟨k, hk⟩ := dispatch_ldexp m x n ta
  rw [hk]; exact un_nan x k h

/-- `scalebln` of a NaN (any integer argument): the quieted operand; invalid iff it was signalling -/
theorem nan_scalebln (m : Mode) (x : Nat) (n : Int) (ta : Bool) (h : (decode x).isNaN = true) :
    expect "scalebln" m [.d x, .i n] ta =
      .oneOf [[.d (encode (quietNaN (decode x)))]] (if (decode x).isSNaN then fInvalid else 0) := by
  obtain ⟨k, hk⟩ := dispatch_scalebln m x n ta
  rw [hk]; exact un_nan x k h

/-! ### two-operand operations -/

/-- `addition` with a NaN operand: a quieted copy of one of the NaN operands; invalid iff some operand is signalling -/
theorem nan_addition (m : Mode) (x y : Nat) (ta : Bool) (h : (decode x).isNaN = true ∨ (decode y).isNaN = true) :
    expect "addition" m [.d x, .d y] ta =
      .oneOf (([decode x, decode y].filter Datum.isNaN).map fun n => [Val.d (encode (quietNaN n))])
        (if [decode x, decode y].any Datum.isSNaN then fInvalid else 0) := by
  obtain ⟨k, hk⟩ := dispatch_addition m x y ta
  rw [hk]; exact bin_nan x y k h

/-- `subtraction` with a NaN operand: a quieted copy of one of the NaN operands; invalid iff some operand is signalling -/
theorem nan_subtraction (m : Mode) (x y : Nat) (ta : Bool) (h : (decode x).isNaN = true ∨ (decode y).isNaN = true) :
    expect "subtraction" m [.d x, .d y] ta =
      .oneOf (([decode x, decode y].filter Datum.isNaN).map fun n => [Val.d (encode (quietNaN n))])
        (if [decode x, decode y].any Datum.isSNaN then fInvalid else 0) := by
  obtain ⟨k, hk⟩ := dispatch_subtraction m x y ta
  rw [hk]; exact bin_nan x y k h

/-- `multiplication` with a NaN operand: a quieted copy of one of the NaN operands; invalid iff some operand is signalling -/
theorem nan_multiplication (m : Mode) (x y : Nat) (ta : Bool) (h : (decode x).isNaN = true ∨ (decode y).isNaN = true) :
    expect "multiplication" m [.d x, .d y] ta =
      .oneOf (([decode x, decode y].filter Datum.isNaN).map fun n => [Val.d (encode (quietNaN n))])
        (if [decode x, decode y].any Datum.isSNaN then fInvalid else 0) := by
  obtain ⟨k, hk⟩ := dispatch_multiplication m x y ta
  rw [hk]; exact bin_nan x y k h

/-- `division` with a NaN operand: a quieted copy of one of the NaN operands; invalid iff some operand is signalling -/
theorem nan_division (m : Mode) (x y : Nat) (ta : Bool) (h : (decode x).isNaN = true ∨ (decode y).isNaN = true) :
    expect "division" m [.d x, .d y] ta =
      .oneOf (([decode x, decode y].filter Datum.isNaN).map fun n => [Val.d (encode (quietNaN n))])
        (if [decode x, decode y].any Datum.isSNaN then fInvalid else 0) := by
  obtain ⟨k, hk⟩ := dispatch_division m x y ta
  rw [hk]; exact bin_nan x y k h

/-- `remainder` with a NaN operand: a quieted copy of one of the NaN operands; invalid iff some operand is signalling -/
theorem nan_remainder (m : Mode) (x y : Nat) (ta : Bool) (h : (decode x).isNaN = true ∨ (decode y).isNaN = true) :
    expect "remainder" m [.d x, .d y] ta =
      .oneOf (([decode x, decode y].filter Datum.isNaN).map fun n => [Val.d (encode (quietNaN n))])
        (if [decode x, decode y].any Datum.isSNaN then fInvalid else 0) := by
  obtain ⟨k, hk⟩ := dispatch_remainder m x y ta
  rw [hk]; exact bin_nan x y k h

/-- `fmod` with a NaN operand: a quieted copy of one of the NaN operands; invalid iff some operand is signalling -/
theorem nan_fmod (m : Mode) (x y : Nat) (ta : Bool) (h : (decode x).isNaN = true ∨ (decode y).isNaN = true) :
    expect "fmod" m [.d x, .d y] ta =
      .oneOf (([decode x, decode y].filter Datum.isNaN).map fun n => [Val.d (encode (quietNaN n))])
        (if [decode x, decode y].any Datum.isSNaN then fInvalid else 0) := by
  obtain ⟨k, hk⟩ := dispatch_fmod m x y ta
  rw [hk]; exact bin_nan x y k h

/-- `quantize` with a NaN operand: a quieted copy of one of the NaN operands; invalid iff some operand is signalling -/
theorem nan_quantize (m : Mode) (x y : Nat) (ta : Bool) (h : (decode x).isNaN = true ∨ (decode y).isNaN = true) :
    expect "quantize" m [.d x, .d y] ta =
      .oneOf (([decode x, decode y].filter Datum.isNaN).map fun n => [Val.d (encode (quietNaN n))])
        (if [decode x, decode y].any Datum.isSNaN then fInvalid else 0) := by
  obtain ⟨k, hk⟩ := dispatch_quantize m x y ta
  rw [hk]; exact bin_nan x y k h

/-- `fdim` with a NaN operand: a quieted copy of one of the NaN operands; invalid iff some operand is signalling -/
theorem nan_fdim (m : Mode) (x y : Nat) (ta : Bool) (h : (decode x).isNaN = true ∨ (decode y).isNaN = true) :
    expect "fdim" m [.d x, .d y] ta =
      .oneOf (([decode x, decode y].filter Datum.isNaN).map fun n => [Val.d (encode (quietNaN n))])
        (if [decode x, decode y].any Datum.isSNaN then fInvalid else 0) := by
  obtain ⟨k, hk⟩ := dispatch_fdim m x y ta
  rw [hk]; exact bin_nan x y k h

/-- `next_after` with a NaN operand: a quieted copy of one of the NaN operands; invalid iff some operand is signalling -/
theorem nan_next_after (m : Mode) (x y : Nat) (ta : Bool) (h : (decode x).isNaN = true ∨ (decode y).isNaN = true) :
    expect "next_after" m [.d x, .d y] ta =
      .oneOf (([decode x, decode y].filter Datum.isNaN).map fun n => [Val.d (encode (quietNaN n))])
        (if [decode x, decode y].any Datum.isSNaN then fInvalid else 0) := by
  obtain ⟨k, hk⟩ := dispatch_next_after m x y ta
  rw [hk]; exact bin_nan x y k h

/-- `next_toward` with a NaN operand: a quieted copy of one of the NaN operands; invalid iff some operand is signalling -/
theorem nan_next_toward (m : Mode) (x y : Nat) (ta : Bool) (h : (decode x).isNaN = true ∨ (decode y).isNaN = true) :
    expect "next_toward" m [.d x, .d y] ta =
      .oneOf (([decode x, decode y].filter Datum.isNaN).map fun n => [Val.d (encode (quietNaN n))])
        (if [decode x, decode y].any Datum.isSNaN then fInvalid else 0) := by
  obtain ⟨k, hk⟩ := dispatch_next_toward m x y ta
  rw [hk]; exact bin_nan x y k h

/-- the two-operand, d128-valued operations subject to the NaN rule -/
def nanOps2 : List String := ["addition", "subtraction", "multiplication", "division", "remainder", "fmod", "quantize", "fdim", "next_after", "next_toward"]

/-- **The NaN rule, two-operand operations**: for every operation of `nanOps2`, in every rounding mode, if
an operand is a NaN the acceptable results are exactly the quieted canonical copies of the NaN operands, and
`invalid` is raised iff some operand is signalling. -/
theorem nanOps2_rule (op : String) (hop : op ∈ nanOps2) (m : Mode) (x y : Nat) (ta : Bool)
    (h : (decode x).isNaN = true ∨ (decode y).isNaN = true) :
    expect op m [.d x, .d y] ta =
      .oneOf (([decode x, decode y].filter Datum.isNaN).map fun n => [Val.d (encode (quietNaN n))])
        (if [decode x, decode y].any Datum.isSNaN then fInvalid else 0) := by
  simp only [nanOps2, List.mem_cons, List.not_mem_nil, or_false] at hop
  rcases hop with rfl | rfl | rfl | rfl | rfl | rfl | rfl | rfl | rfl | rfl
  · exact nan_addition m x y ta h
  · exact nan_subtraction m x y ta h
  · exact nan_multiplication m x y ta h
  · exact nan_division m x y ta h
  · exact nan_remainder m x y ta h
  · exact nan_fmod m x y ta h
  · exact nan_quantize m x y ta h
  · exact nan_fdim m x y ta h
  · exact nan_next_after m x y ta h
  · exact nan_next_toward m x y ta h

/-- … spelled out by which operand is the NaN: the first only / the second only / both -/
theorem nanOps2_cases (op : String) (hop : op ∈ nanOps2) (m : Mode) (x y : Nat) (ta : Bool) :
    ((decode x).isNaN = true → (decode y).isNaN = false →
      expect op m [.d x, .d y] ta =
        .oneOf [[.d (encode (quietNaN (decode x)))]] (if (decode x).isSNaN then fInvalid else 0)) ∧
    ((decode x).isNaN = false → (decode y).isNaN = true →
      expect op m [.d x, .d y] ta =
        .oneOf [[.d (encode (quietNaN (decode y)))]] (if (decode y).isSNaN then fInvalid else 0)) ∧
    ((decode x).isNaN = true → (decode y).isNaN = true →
      expect op m [.d x, .d y] ta =
        .oneOf [[.d (encode (quietNaN (decode x)))], [.d (encode (quietNaN (decode y)))]]
          (if (decode x).isSNaN || (decode y).isSNaN then fInvalid else 0)) := by
  have key : ∃ k, expect op m [.d x, .d y] ta = bin x y k := by
    simp only [nanOps2, List.mem_cons, List.not_mem_nil, or_false] at hop
    rcases hop with rfl | rfl | rfl | rfl | rfl | rfl | rfl | rfl | rfl | rfl
    · exact dispatch_addition m x y ta
    · exact dispatch_subtraction m x y ta
    · exact dispatch_multiplication m x y ta
    · exact dispatch_division m x y ta
    · exact dispatch_remainder m x y ta
    · exact dispatch_fmod m x y ta
    · exact dispatch_quantize m x y ta
    · exact dispatch_fdim m x y ta
    · exact dispatch_next_after m x y ta
    · exact dispatch_next_toward m x y ta
  obtain ⟨k, hk⟩ := key
  rw [hk]
  exact ⟨bin_nan_left x y k, bin_nan_right x y k, bin_nan_both x y k⟩

/-! ### fused multiply-add -/

/-- **`fused_multiply_add` with a NaN in any position**: a quieted copy of one of the NaN operands; invalid
iff some operand is signalling (in particular `0·∞ + qNaN` is the quiet NaN with no flag required beyond
that rule), in every rounding mode and for either tininess convention. -/
theorem nan_fused_multiply_add (m : Mode) (x y z : Nat) (ta : Bool)
    (h : (decode x).isNaN = true ∨ (decode y).isNaN = true ∨ (decode z).isNaN = true) :
    expect "fused_multiply_add" m [.d x, .d y, .d z] ta =
      .oneOf (([decode x, decode y, decode z].filter Datum.isNaN).map fun n => [Val.d (encode (quietNaN n))])
        (if [decode x, decode y, decode z].any Datum.isSNaN then fInvalid else 0) := by
  obtain ⟨k, hk⟩ := dispatch_fused_multiply_add m x y z ta
  rw [hk]; exact tern_nan x y z k h

/-- only the addend is a NaN -/
theorem nan_fma_addend (m : Mode) (x y z : Nat) (ta : Bool) (hx : (decode x).isNaN = false)
    (hy : (decode y).isNaN = false) (hz : (decode z).isNaN = true) :
    expect "fused_multiply_add" m [.d x, .d y, .d z] ta =
      .oneOf [[.d (encode (quietNaN (decode z)))]] (if (decode z).isSNaN then fInvalid else 0) := by
  rw [nan_fused_multiply_add m x y z ta (Or.inr (Or.inr hz))]
  have sx : (decode x).isSNaN = false := by
    cases h : (decode x).isSNaN
    · rfl
    · rw [isNaN_of_isSNaN h] at hx; cases hx
  have sy : (decode y).isSNaN = false := by
    cases h : (decode y).isSNaN
    · rfl
    · rw [isNaN_of_isSNaN h] at hy; cases hy
  simp [hx, hy, hz, sx, sy]

/-! ### minNum / maxNum / minNumMag / maxNumMag -/

section minmax
variable (isMax mag : Bool) (x y : Nat)

/-- **a signalling NaN operand**: the result is the quieted copy of a NaN operand, and invalid is raised -/
theorem minmax_snan (h : (decode x).isSNaN = true ∨ (decode y).isSNaN = true) :
    expectCore.minmax isMax mag x y =
      .oneOf (([decode x, decode y].filter Datum.isNaN).map fun n => [Val.d (encode (quietNaN n))]) fInvalid := by
  unfold expectCore.minmax
  rcases h with h | h <;> simp [h]

/-- **two quiet NaNs**: one of them (canonicalised), no flag -/
theorem minmax_two_qnan (hx : (decode x).isNaN = true) (hy : (decode y).isNaN = true)
    (sx : (decode x).isSNaN = false) (sy : (decode y).isSNaN = false) :
    expectCore.minmax isMax mag x y = .oneOf [[.d (encode (decode x))], [.d (encode (decode y))]] 0 := by
  unfold expectCore.minmax
  simp [hx, hy, sx, sy]

/-- **exactly one quiet NaN (the first operand)**: the other operand, canonicalised; no flag -/
theorem minmax_qnan_left (hx : (decode x).isNaN = true) (sx : (decode x).isSNaN = false)
    (hy : (decode y).isNaN = false) :
    expectCore.minmax isMax mag x y = exactly [.d (encode (decode y))] 0 := by
  have sy : (decode y).isSNaN = false := by
    cases h : (decode y).isSNaN
    · rfl
    · rw [isNaN_of_isSNaN h] at hy; cases hy
  unfold expectCore.minmax
  simp [hx, hy, sx, sy]

/-- **exactly one quiet NaN (the second operand)**: the other operand, canonicalised; no flag -/
theorem minmax_qnan_right (hx : (decode x).isNaN = false) (hy : (decode y).isNaN = true)
    (sy : (decode y).isSNaN = false) :
    expectCore.minmax isMax mag x y = exactly [.d (encode (decode x))] 0 := by
  have sx : (decode x).isSNaN = false := by
    cases h : (decode x).isSNaN
    · rfl
    · rw [isNaN_of_isSNaN h] at hx; cases hx
  unfold expectCore.minmax
  simp [hx, hy, sx, sy]

/-- **no NaN**: one of the operands chosen by the exact order (`minmaxChoices`, see C16), no flag -/
theorem minmax_numbers (hx : (decode x).isNaN = false) (hy : (decode y).isNaN = false) :
    expectCore.minmax isMax mag x y =
      .oneOf ((minmaxChoices isMax mag (decode x) (decode y)).map fun r => [Val.d (encode r)]) 0 := by
  have sx : (decode x).isSNaN = false := by
    cases h : (decode x).isSNaN
    · rfl
    · rw [isNaN_of_isSNaN h] at hx; cases hx
  have sy : (decode y).isSNaN = false := by
    cases h : (decode y).isSNaN
    · rfl
    · rw [isNaN_of_isSNaN h] at hy; cases hy
  unfold expectCore.minmax
  simp [hx, hy, sx, sy]

end minmax

/-- **`min_num`**: the four NaN clauses — (1) any signalling NaN ⇒ quieted NaN operand + invalid; (2) two quiet
NaNs ⇒ one of them, no flag; (3) exactly one quiet NaN ⇒ the *other* operand (a number beats a quiet NaN), no
flag; (4) no NaN ⇒ an operand chosen by `minmaxChoices false false`, no flag. -/
theorem min_num_clauses (m : Mode) (x y : Nat) (ta : Bool) :
    (((decode x).isSNaN = true ∨ (decode y).isSNaN = true) →
      expect "min_num" m [.d x, .d y] ta =
        .oneOf (([decode x, decode y].filter Datum.isNaN).map fun n => [Val.d (encode (quietNaN n))]) fInvalid) ∧
    ((decode x).isNaN = true → (decode y).isNaN = true → (decode x).isSNaN = false → (decode y).isSNaN = false →
      expect "min_num" m [.d x, .d y] ta = .oneOf [[.d (encode (decode x))], [.d (encode (decode y))]] 0) ∧
    ((decode x).isNaN = true → (decode x).isSNaN = false → (decode y).isNaN = false →
      expect "min_num" m [.d x, .d y] ta = exactly [.d (encode (decode y))] 0) ∧
    ((decode x).isNaN = false → (decode y).isNaN = true → (decode y).isSNaN = false →
      expect "min_num" m [.d x, .d y] ta = exactly [.d (encode (decode x))] 0) ∧
    ((decode x).isNaN = false → (decode y).isNaN = false →
      expect "min_num" m [.d x, .d y] ta =
        .oneOf ((minmaxChoices false false (decode x) (decode y)).map fun r => [Val.d (encode r)]) 0) := by
  rw [dispatch_min_num]
  exact ⟨minmax_snan _ _ x y, minmax_two_qnan _ _ x y, minmax_qnan_left _ _ x y, minmax_qnan_right _ _ x y,
    minmax_numbers _ _ x y⟩

/-- **`max_num`**: the four NaN clauses — (1) any signalling NaN ⇒ quieted NaN operand + invalid; (2) two quiet
NaNs ⇒ one of them, no flag; (3) exactly one quiet NaN ⇒ the *other* operand (a number beats a quiet NaN), no
flag; (4) no NaN ⇒ an operand chosen by `minmaxChoices true false`, no flag. -/
theorem max_num_clauses (m : Mode) (x y : Nat) (ta : Bool) :
    (((decode x).isSNaN = true ∨ (decode y).isSNaN = true) →
      expect "max_num" m [.d x, .d y] ta =
        .oneOf (([decode x, decode y].filter Datum.isNaN).map fun n => [Val.d (encode (quietNaN n))]) fInvalid) ∧
    ((decode x).isNaN = true → (decode y).isNaN = true → (decode x).isSNaN = false → (decode y).isSNaN = false →
      expect "max_num" m [.d x, .d y] ta = .oneOf [[.d (encode (decode x))], [.d (encode (decode y))]] 0) ∧
    ((decode x).isNaN = true → (decode x).isSNaN = false → (decode y).isNaN = false →
      expect "max_num" m [.d x, .d y] ta = exactly [.d (encode (decode y))] 0) ∧
    ((decode x).isNaN = false → (decode y).isNaN = true → (decode y).isSNaN = false →
      expect "max_num" m [.d x, .d y] ta = exactly [.d (encode (decode x))] 0) ∧
    ((decode x).isNaN = false → (decode y).isNaN = false →
      expect "max_num" m [.d x, .d y] ta =
        .oneOf ((minmaxChoices true false (decode x) (decode y)).map fun r => [Val.d (encode r)]) 0) := by
  rw [dispatch_max_num]
  exact ⟨minmax_snan _ _ x y, minmax_two_qnan _ _ x y, minmax_qnan_left _ _ x y, minmax_qnan_right _ _ x y,
    minmax_numbers _ _ x y⟩

/-- **`min_num_mag`**: the four NaN clauses — (1) any signalling NaN ⇒ quieted NaN operand + invalid; (2) two quiet
NaNs ⇒ one of them, no flag; (3) exactly one quiet NaN ⇒ the *other* operand (a number beats a quiet NaN), no
flag; (4) no NaN ⇒ an operand chosen by `minmaxChoices false true`, no flag. -/
theorem min_num_mag_clauses (m : Mode) (x y : Nat) (ta : Bool) :
    (((decode x).isSNaN = true ∨ (decode y).isSNaN = true) →
      expect "min_num_mag" m [.d x, .d y] ta =
        .oneOf (([decode x, decode y].filter Datum.isNaN).map fun n => [Val.d (encode (quietNaN n))]) fInvalid) ∧
    ((decode x).isNaN = true → (decode y).isNaN = true → (decode x).isSNaN = false → (decode y).isSNaN = false →
      expect "min_num_mag" m [.d x, .d y] ta = .oneOf [[.d (encode (decode x))], [.d (encode (decode y))]] 0) ∧
    ((decode x).isNaN = true → (decode x).isSNaN = false → (decode y).isNaN = false →
      expect "min_num_mag" m [.d x, .d y] ta = exactly [.d (encode (decode y))] 0) ∧
    ((decode x).isNaN = false → (decode y).isNaN = true → (decode y).isSNaN = false →
      expect "min_num_mag" m [.d x, .d y] ta = exactly [.d (encode (decode x))] 0) ∧
    ((decode x).isNaN = false → (decode y).isNaN = false →
      expect "min_num_mag" m [.d x, .d y] ta =
        .oneOf ((minmaxChoices false true (decode x) (decode y)).map fun r => [Val.d (encode r)]) 0) := by
  rw [dispatch_min_num_mag]
  exact ⟨minmax_snan _ _ x y, minmax_two_qnan _ _ x y, minmax_qnan_left _ _ x y, minmax_qnan_right _ _ x y,
    minmax_numbers _ _ x y⟩

/-- **`max_num_mag`**: the four NaN clauses — (1) any signalling NaN ⇒ quieted NaN operand + invalid; (2) two quiet
NaNs ⇒ one of them, no flag; (3) exactly one quiet NaN ⇒ the *other* operand (a number beats a quiet NaN), no
flag; (4) no NaN ⇒ an operand chosen by `minmaxChoices true true`, no flag. -/
theorem max_num_mag_clauses (m : Mode) (x y : Nat) (ta : Bool) :
    (((decode x).isSNaN = true ∨ (decode y).isSNaN = true) →
      expect "max_num_mag" m [.d x, .d y] ta =
        .oneOf (([decode x, decode y].filter Datum.isNaN).map fun n => [Val.d (encode (quietNaN n))]) fInvalid) ∧
    ((decode x).isNaN = true → (decode y).isNaN = true → (decode x).isSNaN = false → (decode y).isSNaN = false →
      expect "max_num_mag" m [.d x, .d y] ta = .oneOf [[.d (encode (decode x))], [.d (encode (decode y))]] 0) ∧
    ((decode x).isNaN = true → (decode x).isSNaN = false → (decode y).isNaN = false →
      expect "max_num_mag" m [.d x, .d y] ta = exactly [.d (encode (decode y))] 0) ∧
    ((decode x).isNaN = false → (decode y).isNaN = true → (decode y).isSNaN = false →
      expect "max_num_mag" m [.d x, .d y] ta = exactly [.d (encode (decode x))] 0) ∧
    ((decode x).isNaN = false → (decode y).isNaN = false →
      expect "max_num_mag" m [.d x, .d y] ta =
        .oneOf ((minmaxChoices true true (decode x) (decode y)).map fun r => [Val.d (encode r)]) 0) := by
  rw [dispatch_max_num_mag]
  exact ⟨minmax_snan _ _ x y, minmax_two_qnan _ _ x y, minmax_qnan_left _ _ x y, minmax_qnan_right _ _ x y,
    minmax_numbers _ _ x y⟩

/-! ### the hypotheses are satisfiable -/

-- sNaN with payload 7 (negative), a quiet NaN with payload 5, the number 1
example : decode 0xfe000000000000000000000000000007 = .nan true true 7 := by decide +kernel
example : decode 0x7c000000000000000000000000000005 = .nan false false 5 := by decide +kernel
example : decode 0x30400000000000000000000000000001 = .fin false 1 0 := by decide +kernel

/-- sqrt(−sNaN(7)) = −qNaN(7) with invalid -/
example : expect "square_root" .rne [.d 0xfe000000000000000000000000000007] =
    .oneOf [[.d 0xfc000000000000000000000000000007]] fInvalid := by
  rw [nan_square_root _ _ _ (by decide +kernel)]
  have h1 : encode (quietNaN (decode 0xfe000000000000000000000000000007)) = 0xfc000000000000000000000000000007 := by
    decide +kernel
  have h2 : (decode 0xfe000000000000000000000000000007).isSNaN = true := by decide +kernel
  rw [h1, h2]; rfl

/-- 1 + qNaN(5) = qNaN(5), no flag (any rounding mode) -/
example : expect "addition" .rup [.d 0x30400000000000000000000000000001, .d 0x7c000000000000000000000000000005] =
    .oneOf [[.d 0x7c000000000000000000000000000005]] 0 := by
  rw [(nanOps2_cases "addition" (by decide) _ _ _ _).2.1 (by decide +kernel) (by decide +kernel)]
  have h1 : encode (quietNaN (decode 0x7c000000000000000000000000000005)) = 0x7c000000000000000000000000000005 := by
    decide +kernel
  have h2 : (decode 0x7c000000000000000000000000000005).isSNaN = false := by decide +kernel
  rw [h1, h2]; rfl

/-- minNum(qNaN(5), 1) = 1, no flag -/
example : expect "min_num" .rne [.d 0x7c000000000000000000000000000005, .d 0x30400000000000000000000000000001] =
    exactly [.d 0x30400000000000000000000000000001] 0 := by
  rw [(min_num_clauses _ _ _ _).2.2.1 (by decide +kernel) (by decide +kernel) (by decide +kernel)]
  have h1 : encode (decode 0x30400000000000000000000000000001) = 0x30400000000000000000000000000001 := by
    decide +kernel
  rw [h1]

/-- maxNumMag(1, −sNaN(7)) = −qNaN(7) with invalid -/
example : expect "max_num_mag" .rne [.d 0x30400000000000000000000000000001, .d 0xfe000000000000000000000000000007] =
    .oneOf [[.d 0xfc000000000000000000000000000007]] fInvalid := by
  rw [(max_num_mag_clauses _ _ _ _).1 (Or.inr (by decide +kernel))]
  have h0 : decode 0x30400000000000000000000000000001 = .fin false 1 0 := by decide +kernel
  have h1 : decode 0xfe000000000000000000000000000007 = .nan true true 7 := by decide +kernel
  have h2 : encode (.nan true false 7) = 0xfc000000000000000000000000000007 := by decide +kernel
  rw [h0, h1]
  simp only [List.filter, Datum.isNaN, List.map, quietNaN, h2]

end Dec.C12Ops
